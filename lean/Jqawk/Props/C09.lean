/-
  C09 — assignment changes exactly the addressed location; reads never change the input.
  Frame rules on the heap: what `SetMember`, `copyValue` and the member step touch, and what
  they provably leave alone.
-/
import Jqawk.Model.Eval
import Jqawk.Model.Parser
import Jqawk.Lemmas.ReadOnlyDoc
import Jqawk.Lemmas.AssignFrame
import Jqawk.Lemmas.AssignCreate

namespace Jqawk.C09
open Jqawk

theorem get_set_ne (h : Heap) (c d : CellId) (v : Val) (hne : c ≠ d) :
    (h.set d v).get c = h.get c := by
  simp only [Heap.set, Heap.get, Array.getD_eq_getD_getElem?]
  rw [Array.getElem?_setIfInBounds_ne (Ne.symm hne)]

theorem get_set_same (h : Heap) (d : CellId) (v : Val) (hd : d < h.cells.size) :
    (h.set d v).get d = v := by
  simp [Heap.set, Heap.get, Array.getD_eq_getD_getElem?, hd]

/-! ### copy versus share -/

/-- scalars are copied (a fresh payload, without any remembered parent), arrays, objects and
    unset values are shared by reference, functions cannot be copied -/
theorem copyVal_spec (v : Val) :
    (∀ x, v = .num x → copyVal v = .ok (.num x)) ∧
    (∀ b, v = .bool b → copyVal v = .ok (.bool b)) ∧
    (∀ s sp, v = .str s sp → copyVal v = .ok (.str s none)) ∧
    (∀ s, v = .regex s → copyVal v = .ok (.regex s)) ∧
    (∀ sp, v = .nil sp → copyVal v = .ok (.nil none)) ∧
    (∀ a, v = .arr a → copyVal v = .ok (.arr a)) ∧
    (∀ o, v = .obj o → copyVal v = .ok (.obj o)) ∧
    (v = .unknown → copyVal v = .ok .unknown) ∧
    (v.kind = .fn ∨ v.kind = .native → ∃ m, copyVal v = .error m) := by
  cases v <;> simp [copyVal, Val.kind]

/-- `copyValue` writes exactly one cell — the target — and nothing else -/
theorem copyValue_local (src dst : CellId) (s s' : St) (r : Except String CellId)
    (h : copyValue src dst s = .ok r s') :
    s'.heap.arrs = s.heap.arrs ∧ s'.heap.objs = s.heap.objs ∧
    ∀ c, c ≠ dst → s'.heap.get c = s.heap.get c := by
  unfold copyValue at h
  simp only [bind, EM.bind, readCell] at h
  cases hc : copyVal (s.heap.get src) with
  | ok w =>
    rw [hc] at h
    simp only [writeCell, pure, EM.pure, Res.ok.injEq] at h
    obtain ⟨_, rfl⟩ := h
    exact ⟨rfl, rfl, fun c hcd => get_set_ne _ _ _ _ hcd⟩
  | error m =>
    rw [hc] at h
    simp only [pure, EM.pure, Res.ok.injEq] at h
    obtain ⟨_, rfl⟩ := h
    exact ⟨rfl, rfl, fun _ _ => rfl⟩

/-! ### reading never changes anything -/

/-- `GetMember` is a function of the heap: it cannot change it (by construction — it returns no
    heap).  In particular reading an index past the end of an array does not pad the array: -/
theorem read_past_end_is_missing (h : Heap) (a : ArrId) (x : F64)
    (hi : (h.arr a).size ≤ x.toGoInt.toNat) (hpos : 0 ≤ x.toGoInt) :
    getMember h (.arr a) (.num x) = .ok .missing := by
  have h0 : ¬ x.toGoInt < 0 := by omega
  have h1 : ¬ x.toGoInt.toNat < (h.arr a).size := by omega
  simp [getMember, resolveIndex, h0, h1]

/-- the member/index step on a base that is already a value (not unset) leaves every existing
    cell, array and object as it was: at most one fresh cell is allocated -/
theorem memberStep_readonly (pos : Nat) (left right : CellId) (s s' : St) (c : CellId)
    (hk : (s.heap.get left).kind ≠ .unknown)
    (h : memberStep pos left right s = .ok c s') :
    s'.heap.arrs = s.heap.arrs ∧ s'.heap.objs = s.heap.objs ∧
    (∀ i, i < s.heap.cells.size → s'.heap.get i = s.heap.get i) ∧
    s'.frames = s.frames ∧ s'.out = s.out := by
  unfold memberStep at h
  have hk' : ((s.heap.get left).kind == Kind.unknown) = false := by simpa using hk
  simp only [bind, EM.bind, readCell, hk', Bool.false_eq_true, ↓reduceIte, getHeap, pure, EM.pure] at h
  have fresh : ∀ v : Val, ∀ c s', newCell v s = .ok c s' →
      s'.heap.arrs = s.heap.arrs ∧ s'.heap.objs = s.heap.objs ∧
      (∀ i, i < s.heap.cells.size → s'.heap.get i = s.heap.get i) ∧
      s'.frames = s.frames ∧ s'.out = s.out := by
    intro v c s' hn
    simp only [newCell, Heap.alloc, Res.ok.injEq] at hn
    obtain ⟨_, rfl⟩ := hn
    refine ⟨rfl, rfl, fun i hi => ?_, rfl, rfl⟩
    simp [Heap.get, Array.getD_eq_getD_getElem?, Array.getElem?_push, Nat.ne_of_lt hi]
  cases hg : getMember s.heap (s.heap.get left) (s.heap.get right) with
  | error m => rw [hg] at h; simp [throwRt] at h
  | ok mem =>
    rw [hg] at h
    cases mem with
    | missing => exact fresh _ _ _ h
    | method f => exact fresh _ _ _ h
    | char ch x => cases ch <;> exact fresh _ _ _ h
    | cell c0 =>
      dsimp only at h
      cases hv : s.heap.get c0 <;> rw [hv] at h <;>
        first
          | exact fresh _ _ _ h
          | (simp only [Res.ok.injEq] at h
             obtain ⟨_, rfl⟩ := h
             exact ⟨rfl, rfl, fun _ _ => rfl, rfl, rfl⟩)

/-! ### storing a member -/

theorem objLookup_objInsert_same (m : List (Bytes × CellId)) (k : Bytes) (c : CellId) :
    objLookup (objInsert m k c) k = some c := by
  induction m with
  | nil => simp [objInsert, objLookup]
  | cons kv rest ih =>
    obtain ⟨k0, c0⟩ := kv
    by_cases h : k0 = k
    · simp [objInsert, objLookup, h]
    · simp [objInsert, objLookup, h, ih]

theorem objLookup_objInsert_other (m : List (Bytes × CellId)) (k k' : Bytes) (c : CellId) (hne : k' ≠ k) :
    objLookup (objInsert m k c) k' = objLookup m k' := by
  induction m with
  | nil => simp [objInsert, objLookup, Ne.symm hne]
  | cons kv rest ih =>
    obtain ⟨k0, c0⟩ := kv
    by_cases h : k0 = k
    · subst h; simp [objInsert, objLookup, Ne.symm hne]
    · by_cases h2 : k0 = k'
      · subst h2; simp [objInsert, objLookup, h]
      · simp [objInsert, objLookup, h, h2, ih]

/-- storing a member on an object: that key is bound to the given cell, every other key keeps
    its cell, and no cell value, no array and no other object changes -/
theorem setMember_object_local (h : Heap) (o : ObjId) (key : Val) (cell : CellId) (ho : o < h.objs.size) :
    ∃ h', setMember h (.obj o) key cell = .ok (cell, h') ∧
      objLookup (h'.obj o) key.str! = some cell ∧
      (∀ k', k' ≠ key.str! → objLookup (h'.obj o) k' = objLookup (h.obj o) k') ∧
      (∀ o', o' ≠ o → h'.obj o' = h.obj o') ∧
      h'.cells = h.cells ∧ h'.arrs = h.arrs := by
  refine ⟨_, rfl, ?_, ?_, ?_, rfl, rfl⟩
  · simp [Heap.obj, Heap.setObj, Array.setIfInBounds, ho, Array.getD_eq_getD_getElem?,
      objLookup_objInsert_same]
  · intro k' hk
    simp [Heap.obj, Heap.setObj, Array.setIfInBounds, ho, Array.getD_eq_getD_getElem?,
      objLookup_objInsert_other _ _ _ _ hk]
  · intro o' ho'
    simp only [Heap.obj, Heap.setObj, Array.setIfInBounds, ho, ↓reduceDIte,
      Array.getD_eq_getD_getElem?, Array.getElem?_set, Ne.symm ho', ↓reduceIte]

/-- storing at an index inside the array: only that element's cell gets a new value; the array
    keeps the same cells, every other cell keeps its value -/
theorem setMember_array_in_range (h : Heap) (a : ArrId) (x : F64) (cell : CellId) (i : Nat)
    (hi : resolveIndex (h.arr a).size x.toGoInt = some i) (hlt : i < (h.arr a).size) :
    ∃ h', setMember h (.arr a) (.num x) cell = .ok ((h.arr a).getD i 0, h') ∧
      h'.arrs = h.arrs ∧ h'.objs = h.objs ∧
      (∀ c, c ≠ (h.arr a).getD i 0 → h'.get c = h.get c) := by
  refine ⟨h.set ((h.arr a).getD i 0) (h.get cell), by simp [setMember, hi, hlt], rfl, rfl,
    fun c hc => get_set_ne _ _ _ _ hc⟩

/-- negative indices count from the end; an index before the start is an error -/
theorem negative_index (len k : Nat) (hk : 0 < k) :
    resolveIndex len (-(k : Int)) = if k ≤ len then some (len - k) else none := by
  have h1 : (-(k : Int)) < 0 := by omega
  simp only [resolveIndex, h1, ↓reduceIte]
  split
  · rename_i h; have : ¬ k ≤ len := by omega
    simp [this]
  · rename_i h; have : k ≤ len := by omega
    simp only [this, ↓reduceIte, Option.some.injEq]
    omega

theorem index_before_start_errors (h : Heap) (a : ArrId) (x : F64) (c : CellId)
    (hx : x.toGoInt < 0) (hlen : ((h.arr a).size : Int) + x.toGoInt < 0) :
    getMember h (.arr a) (.num x) = .error "index out of range" ∧
    setMember h (.arr a) (.num x) c = .error "index out of range" := by
  simp [getMember, setMember, resolveIndex, hx, hlen]

/-- a non-numeric key on an array and any member store on a scalar are refused -/
theorem setMember_refusals (h : Heap) (c : CellId) :
    (∀ a k, (∀ x, k ≠ .num x) → ∃ m, setMember h (.arr a) k c = .error m) ∧
    (∀ v k, (∀ a, v ≠ .arr a) → (∀ o, v ≠ .obj o) → ∃ m, setMember h v k c = .error m) := by
  constructor
  · intro a k hk
    cases k <;> simp_all [setMember]
  · intro v k ha ho
    cases v <;> simp_all [setMember]

/-! ### compound assignment -/

/-- `a op= b` is parsed as `a = a op b` -/
theorem compound_desugars (l r : Expr) (op : Token) (t : Tag)
    (ht : (op.tag, t) ∈ [(Tag.plusEqual, Tag.plus), (Tag.minusEqual, Tag.minus),
                          (Tag.multiplyEqual, Tag.multiply), (Tag.divideEqual, Tag.divide)]) :
    Parser.rewriteCompound l r op = .binary l (.binary l r ⟨t, op.pos, op.text⟩) ⟨.equal, op.pos, []⟩ := by
  simp only [List.mem_cons, Prod.mk.injEq, List.mem_nil_iff, or_false] at ht
  rcases ht with ⟨h1, h2⟩ | ⟨h1, h2⟩ | ⟨h1, h2⟩ | ⟨h1, h2⟩ <;> simp [Parser.rewriteCompound, h1, h2]


/-! ### reading never changes the input document (any expression, any depth)

  Clause: "Evaluating an expression that contains no assignment and no mutating method call
  never changes the input document."  Proved over the real evaluator by one mutual induction
  (Lemmas/ReadOnly.lean, `allRO`): whatever way the evaluation ends, every cell that existed
  keeps its value (an unset cell stays unset), every array keeps its cells and every object its
  members; everything else is allocation (`HeapPreserved`).  Hence the rendering of every
  document that lies in the old heap is unchanged (`readonly_document_unchanged`).

  History: the first version of these theorems was `…_partial` — the member/index step used to
  turn an *unset* base into a fresh empty array/object, so `{ $.u = x; y = $.u.x }` changed
  `"u": null` into `"u": {}`.  The step was repaired (Go and model): an unset base now yields a
  stand-in for a missing member, and becomes a container only when that member is assigned to
  (`createSpeculative`).  See the `example` with `exFill` below. -/

/-- what a read-only evaluation leaves unchanged, read off a result -/
def Unchanged {α : Type} (s : St) : Res α → Prop
  | .ok _ s' => HeapPreserved s.heap s'.heap ∧ FramesPreserved s.frames s'.frames ∧
      s'.root = s.root ∧ s'.ruleRoot = s.ruleRoot
  | .err _ s' => HeapPreserved s.heap s'.heap ∧ FramesPreserved s.frames s'.frames ∧
      s'.root = s.root ∧ s'.ruleRoot = s.ruleRoot
  | .oof => True

/-- a property of the state an evaluation ends in (nothing is claimed when fuel runs out) -/
def After {α : Type} (P : St → Prop) : Res α → Prop
  | .ok _ s' => P s'
  | .err _ s' => P s'
  | .oof => True

/-- reading the invariant of Lemmas/ReadOnly.lean (`QR`, with frames) as `Unchanged` -/
theorem Unchanged.of_QR {α : Type} {k : Bool} {s : St} {r : Res α} (h : QR k true s r) (i : Inv k s.heap) :
    Unchanged s r ∧ After (fun s' => Inv k s'.heap) r := by
  cases r with
  | ok a s' => obtain ⟨r, i'⟩ := h i; exact ⟨⟨r.heap, r.frames rfl, r.root, r.ruleRoot⟩, i'⟩
  | err e s' => obtain ⟨r, i'⟩ := h i; exact ⟨⟨r.heap, r.frames rfl, r.root, r.ruleRoot⟩, i'⟩
  | oof => exact ⟨trivial, trivial⟩

/-- Clause "evaluating an expression that contains no assignment and no mutating method call
    never changes the input document" — for ANY program, fuel and state, and an expression
    without assignment, `++`/`--` and without any call (`Expr.readOnly false`): whatever way the
    evaluation ends, every cell that existed holds the same value, every array has the same
    cells, every object the same members; every variable binding and `$` denote the same cells.
    Member and index chains, reads of missing members (`$.a.b.c`: nothing is created), literals,
    operators, `is`, `match` expressions with such bodies are all covered. -/
theorem readonly_expr (prog : Program) (n : Nat) (e : Expr) (s : St)
    (he : Expr.readOnly false e = true) : Unchanged s (evalExpr prog n e s) :=
  (Unchanged.of_QR ((allRO prog false (fun h => by cases h) n).expr true e he s) (fun h => by cases h)).1

/-- the same for statements (match bodies, rule bodies): blocks, `print`, `if`, `while`, `for`,
    `return`, `break`/`continue`/`next`/`exit` over read-only expressions; `for … in` is excluded
    (it assigns its loop variables) -/
theorem readonly_stmt (prog : Program) (n : Nat) (st : Stmt) (s : St)
    (he : Stmt.readOnly false st = true) : Unchanged s (evalStmt prog n st s) :=
  (Unchanged.of_QR ((allRO prog false (fun h => by cases h) n).stmt true st he s) (fun h => by cases h)).1

/-- … and with method calls: `recv.name(args)` / `recv["name"](args)` with a literal name other
    than `push`, `pop`, `popfirst` (`Expr.readOnly true`; `sort` returns a new array, `printf`
    is not a method).  Two hypotheses exclude what no run of the interpreter produces but an
    arbitrary state could contain: every function body of the program is itself read-only
    (`FnsRO`: an object member holding a function value would be *called* by `o.name()`), and
    object members are allocated cells (`ObjsInRange`, the `objs` half of `Heap.WF`; it is
    preserved).  Calls of user functions by name and of `printf`/`json`/`num` are NOT covered:
    the callee would be an arbitrary variable, which in an arbitrary state may hold `push`
    bound to any array. -/
theorem readonly_methods (prog : Program) (hfn : prog.FnsRO) (n : Nat) (e : Expr) (s : St)
    (hwf : ObjsInRange s.heap) (he : Expr.readOnly true e = true) :
    Unchanged s (evalExpr prog n e s) ∧ After (fun s' => ObjsInRange s'.heap) (evalExpr prog n e s) := by
  have h := Unchanged.of_QR ((allRO prog true (fun _ => hfn) n).expr true e he s) (fun _ => hwf)
  refine ⟨h.1, ?_⟩
  have h2 := h.2
  cases hr : evalExpr prog n e s with
  | ok a s' => rw [hr] at h2; exact h2 rfl
  | err e s' => rw [hr] at h2; exact h2 rfl
  | oof => trivial

/-- statements with method calls -/
theorem readonly_methods_stmt (prog : Program) (hfn : prog.FnsRO) (n : Nat) (st : Stmt) (s : St)
    (hwf : ObjsInRange s.heap) (he : Stmt.readOnly true st = true) :
    Unchanged s (evalStmt prog n st s) :=
  (Unchanged.of_QR ((allRO prog true (fun _ => hfn) n).stmt true st he s) (fun _ => hwf)).1

/-- in particular: every allocated cell keeps its value -/
theorem readonly_cells_unchanged {α : Type} {s : St} {r : Res α} (h : Unchanged s r) (c : CellId)
    (hc : c < s.heap.cells.size) : After (fun s' => s'.heap.get c = s.heap.get c) r := by
  cases r with
  | ok a s' => exact h.1.get c hc
  | err e s' => exact h.1.get c hc
  | oof => trivial

/-- Clause "… never changes the input document": the cell keeps its value and that value has
    the same JSON form (`ToGoValue`, what `-o` and `json()` produce) in the new heap; `$` still
    denotes the same cell.  The only hypothesis is that the document lies in the heap
    (`DocAllocated`: no dangling array/object/cell ids in it — true for anything loaded from
    JSON, `newValueJson_docAllocated`); with a dangling id the "document" would include
    whatever is allocated there later.  Holds for the result of any evaluation that is
    `Unchanged`, i.e. by `readonly_expr` … `readonly_methods_stmt` for every read-only
    expression or statement. -/
theorem readonly_document_unchanged {α : Type} {s : St} {r : Res α} (h : Unchanged s r) (c : CellId)
    (hc : c < s.heap.cells.size) (hdoc : DocAllocated s.heap (s.heap.get c)) :
    After (fun s' => s'.ruleRoot = s.ruleRoot ∧ s'.heap.get c = s.heap.get c ∧
      toJValTop s'.heap (s'.heap.get c) = toJValTop s.heap (s.heap.get c)) r := by
  cases r with
  | ok a s' => exact ⟨h.2.2.2, toJValTop_cell_preserved h.1 c hc hdoc⟩
  | err e s' => exact ⟨h.2.2.2, toJValTop_cell_preserved h.1 c hc hdoc⟩
  | oof => trivial

/-! #### examples: the hypotheses are satisfiable, and needed -/

def tk (t : Tag) (s : Bytes) : Token := ⟨t, 0, s⟩
def dollar : Expr := .ident (tk .dollar b!"$")
def dot (e : Expr) (name : Bytes) : Expr := .binary e (.lit (tk .ident name)) (tk .dot b!".")
def idx (e i : Expr) : Expr := .binary e i (tk .lsquare b!"[")
def numL (s : Bytes) : Expr := .lit (tk .num s)
def mcall (e : Expr) (name : Bytes) (args : List Expr) : Expr := .call (dot e name) args

/-- `[$.a[-1] + $.s.length(), $.nope.deeper, $.s.upper()]` -/
def exRead : Expr :=
  .arr (tk .lsquare b!"[")
    [ .binary (idx (dot dollar b!"a") (.unary (numL b!"1") (tk .minus b!"-") false))
        (mcall (dot dollar b!"s") b!"length" []) (tk .plus b!"+"),
      dot (dot dollar b!"nope") b!"deeper",
      mcall (dot dollar b!"s") b!"upper" [] ]

/-- `$ = {"a": [1, 2], "s": "hi", "u": <unset>}` -/
def exHeap : Heap :=
  ⟨#[.obj 0, .arr 0, .num F64.one, .num (F64.add F64.one F64.one), .str b!"hi" none, .unknown],
   #[#[2, 3]], #[[(b!"a", 1), (b!"s", 4), (b!"u", 5)]]⟩

def exSt : St :=
  { heap := exHeap, frames := [⟨b!"<root>", []⟩], out := [], root := some 0, ruleRoot := some 0,
    returnVal := none, faults := 0 }

def sameOld (h h' : Heap) : Bool :=
  (List.range h.cells.size).all (fun c => h'.get c == h.get c) &&
  (List.range h.arrs.size).all (fun a => h'.arr a == h.arr a) &&
  (List.range h.objs.size).all (fun o => h'.obj o == h.obj o)

example : Expr.readOnly true exRead = true := by decide +kernel

/-- `$.a[-1] + 1 < 3 && !($.nope.deeper is null)`: read-only without calls -/
def exRead0 : Expr :=
  .binary
    (.binary (.binary (idx (dot dollar b!"a") (.unary (numL b!"1") (tk .minus b!"-") false)) (numL b!"1")
      (tk .plus b!"+")) (numL b!"3") (tk .lessThan b!"<"))
    (.unary (.binary (dot (dot dollar b!"nope") b!"deeper") (.ident (tk .null b!"null")) (tk .is b!"is"))
      (tk .bang b!"!") false)
    (tk .ampAmp b!"&&")

example : Expr.readOnly false exRead0 = true := by decide +kernel

/-- `if ($.a[0] < 3) { print $.s } else { return $.a }` -/
def exStmt : Stmt :=
  .if_ (.binary (idx (dot dollar b!"a") (numL b!"0")) (numL b!"3") (tk .lessThan b!"<"))
    (.block (tk .lcurly b!"{") [.print (tk .print b!"print") [dot dollar b!"s"]])
    (some (.ret (some (dot dollar b!"a"))))

example : Stmt.readOnly false exStmt = true := by decide +kernel

/-- a program with a (read-only) function: `function f(x) { return x.length() }` -/
example : Program.FnsRO ⟨[], [⟨tk .ident b!"f", [b!"x"],
    .ret (some (mcall (.ident (tk .ident b!"x")) b!"length" []))⟩]⟩ := by
  intro f hf
  simp only [List.mem_singleton] at hf
  subst hf
  decide +kernel

example : (match evalExpr Program.empty 12 exRead exSt with
    | .ok c s' => sameOld exHeap s'.heap && (s'.heap.get c == .arr 1) && (s'.heap.arr 1).size == 3
    | _ => false) = true := by decide +kernel


/-- `$.u.x` where `$.u` is unset — a pure read … -/
def exFill : Expr := dot (dot dollar b!"u") b!"x"

example : Expr.readOnly false exFill = true := by decide +kernel

/-- … which (since the repair of the member step) leaves `$.u` unset, every old cell, array and
    object as it was, and the document rendering the same (`"u": null`) -/
example : (match evalExpr Program.empty 12 exFill exSt with
    | .ok _ s' =>
      (exHeap.get 5 == .unknown) && (s'.heap.get 5 == .unknown) && sameOld exHeap s'.heap &&
      (match toJValTop exHeap (exHeap.get 0), toJValTop s'.heap (s'.heap.get 0) with
       | .ok a, .ok b => Json.marshalIndent a == b!"{\n  \"a\": [\n    1,\n    2\n  ],\n  \"s\": \"hi\",\n  \"u\": null\n}" &&
                         Json.marshalIndent b == Json.marshalIndent a
       | _, _ => false)
    | _ => false) = true := by decide +kernel

/-- `$.a[0] = 7` -/
def exAssign : Expr := .binary (idx (dot dollar b!"a") (numL b!"0")) (numL b!"7") (tk .equal b!"=")

example : Expr.readOnly true exAssign = false ∧
    (match evalExpr Program.empty 12 exAssign exSt with
     | .ok _ s' => (s'.heap.get 2 != exHeap.get 2) && (exHeap.get 2 != .unknown)
     | _ => false) = true := by decide +kernel

/-- `$.a.push(3)` -/
def exPush : Expr := mcall (dot dollar b!"a") b!"push" [numL b!"3"]

example : Expr.readOnly true exPush = false ∧
    (match evalExpr Program.empty 12 exPush exSt with
     | .ok _ s' => (s'.heap.arr 0 != exHeap.arr 0)
     | _ => false) = true := by decide +kernel


/-- the sub-document `$.a = [1, 2]` of the example heap lies in the heap -/
theorem exHeap_a_allocated : DocAllocated exHeap (exHeap.get 1) := by
  apply DocAllocated.of_closed exHeap _ (fun v => v = exHeap.get 1 ∨ v = exHeap.get 2 ∨ v = exHeap.get 3)
    (.inl rfl)
  · intro v d w hs hd hw
    rcases hs with rfl | rfl | rfl
    · have : d = .a 0 := by
        have : (exHeap.get 1).cont? = some (.a 0) := by decide +kernel
        rw [this] at hd; cases hd; rfl
      subst this
      cases hw with
      | arr a c hc =>
        have : c = 2 ∨ c = 3 := by
          have : (exHeap.arr 0).toList = [2, 3] := by decide +kernel
          rw [this] at hc; simpa using hc
        rcases this with rfl | rfl
        · exact .inr (.inl rfl)
        · exact .inr (.inr rfl)
    · have : (exHeap.get 2).cont? = none := by decide +kernel
      rw [this] at hd; cases hd
    · have : (exHeap.get 3).cont? = none := by decide +kernel
      rw [this] at hd; cases hd
  · intro a hs
    have : a = 0 := by
      rcases hs with h | h | h
      · have : exHeap.get 1 = .arr 0 := by decide +kernel
        rw [this] at h; cases h; rfl
      · have : exHeap.get 2 = .num F64.one := by decide +kernel
        rw [this] at h; cases h
      · have : exHeap.get 3 = .num (F64.add F64.one F64.one) := by decide +kernel
        rw [this] at h; cases h
    subst this
    refine ⟨by decide +kernel, ?_⟩
    have : (exHeap.arr 0).toList = [2, 3] := by decide +kernel
    rw [this]
    intro c hc
    have hsz : exHeap.cells.size = 6 := by decide +kernel
    rw [hsz]
    simp only [List.mem_cons, List.not_mem_nil, or_false] at hc
    rcases hc with rfl | rfl <;> decide
  · intro o hs
    rcases hs with h | h | h
    · have : exHeap.get 1 = .arr 0 := by decide +kernel
      rw [this] at h; cases h
    · have : exHeap.get 2 = .num F64.one := by decide +kernel
      rw [this] at h; cases h
    · have : exHeap.get 3 = .num (F64.add F64.one F64.one) := by decide +kernel
      rw [this] at h; cases h



theorem exHeap_objsInRange : ObjsInRange exHeap := by
  intro o key c hl
  by_cases ho : o < exHeap.objs.size
  · have ho' : o = 0 := by
      have : exHeap.objs.size = 1 := by decide +kernel
      rw [this] at ho; exact Nat.lt_one_iff.mp ho
    subst ho'
    have : exHeap.obj 0 = [(b!"a", 1), (b!"s", 4), (b!"u", 5)] := by decide +kernel
    rw [this] at hl
    have hsz : exHeap.cells.size = 6 := by decide +kernel
    rw [hsz]
    simp only [objLookup] at hl
    repeat' split at hl
    all_goals first | (cases hl; done) | (cases hl; decide)
  · rw [Heap.obj_of_not_valid exHeap o ho] at hl
    simp [objLookup] at hl

/-- all hypotheses of `readonly_methods` and `readonly_document_unchanged` hold for the
    example (`exRead` contains member and index chains, operators, a read of a missing member
    and two method calls), so: the sub-document `$.a` renders as before -/
example : After (fun s' => s'.ruleRoot = exSt.ruleRoot ∧ s'.heap.get 1 = exHeap.get 1 ∧
      toJValTop s'.heap (s'.heap.get 1) = toJValTop exHeap (exHeap.get 1))
    (evalExpr Program.empty 12 exRead exSt) :=
  readonly_document_unchanged
    (readonly_methods Program.empty (fun f hf => by simp [Program.empty] at hf) 12 exRead exSt
      exHeap_objsInRange (by decide +kernel)).1 1 (by decide +kernel) exHeap_a_allocated

/-- `ObjsInRange` is needed: in an ill-formed heap where the member `foo` of `$` refers to a cell
    that is not allocated yet (id 5), the read-only call `$.foo($.a.push is null)` finds nothing
    callable when it evaluates the callee, but by the time of the call cell 5 has been allocated
    — for the bound method value `$.a.push` of the argument — and the call pushes onto `$.a`.
    (No run of the interpreter produces such a heap.) -/
example :
    let e := Expr.call (dot dollar b!"foo")
      [.binary (dot (dot dollar b!"a") b!"push") (.ident (tk .null b!"null")) (tk .is b!"is")]
    let h : Heap := ⟨#[.obj 0, .arr 0], #[#[]], #[[(b!"a", 1), (b!"foo", 5)]]⟩
    Expr.readOnly true e = true ∧
    (match evalExpr Program.empty 12 e { exSt with heap := h } with
     | .ok _ s' => (h.arr 0).size == 0 && (s'.heap.arr 0).size == 1
     | _ => false) = true := by decide +kernel

/-- `FnsRO` is needed (for arbitrary states): if the member `f` of `$` holds a function value,
    `$.f()` runs that function, here `function g() { $.k = 7 }`.  (In the interpreter a function
    value can never be stored in a member: `copyValue` refuses it.) -/
example :
    let e := mcall dollar b!"f" []
    let prog : Program := ⟨[], [⟨tk .ident b!"g", [],
      .expr (.binary (dot dollar b!"k") (numL b!"7") (tk .equal b!"="))⟩]⟩
    let h : Heap := ⟨#[.obj 0, .fn 0, .num F64.one], #[], #[[(b!"f", 1), (b!"k", 2)]]⟩
    Expr.readOnly true e = true ∧
    (match evalExpr prog 12 e { exSt with heap := h } with
     | .ok _ s' => h.get 2 == .num F64.one && s'.heap.get 2 != .num F64.one
     | _ => false) = true := by decide +kernel

/-! ### the frame rule for an assignment to an existing location -/

theorem speculative_preserved {h h' : Heap} (p : HeapPreserved h h') (c : CellId)
    (hc : c < h.cells.size) (hns : (h.get c).speculative = false) :
    (h'.get c).speculative = false := by
  rw [p.get c hc]; exact hns

/-- Clause "assigning … changes exactly the addressed location … and leaves every other part of
    every value unchanged", for a target that exists: `l = r` with read-only `l`, `r` (method
    calls allowed under the hypotheses of `readonly_methods`: take `k = true`), where
    `l` evaluates to the cell `lc` and `lc` does not stand for a missing member when the store
    happens.  The whole assignment is: evaluate `l`, evaluate `r` (both read-only), then write
    the copy of `r`'s value into `lc` — no other cell that held a value, no array and no object
    changes (`HeapPreservedExcept lc`).  A value that cannot be copied (a function) is a runtime
    error and nothing is written. -/
theorem assign_existing_frame (prog : Program) (k : Bool) (n : Nat) (l r : Expr) (op : Token)
    (s s1 s2 : St) (lc rc : CellId)
    (hk : k = true → prog.FnsRO ∧ ObjsInRange s.heap)
    (hl : Expr.readOnly k l = true) (hr : Expr.readOnly k r = true) (hop : op.tag = .equal)
    (h1 : evalExpr prog n l s = .ok lc s1) (h2 : evalExpr prog n r s1 = .ok rc s2)
    (hns : (s2.heap.get lc).speculative = false) :
    HeapPreserved s.heap s2.heap ∧
    match copyVal (s2.heap.get rc) with
    | .ok w =>
      evalExpr prog (n + 2) (.binary l r op) s = .ok lc { s2 with heap := s2.heap.set lc w } ∧
      HeapPreservedExcept lc s.heap (s2.heap.set lc w) ∧
      (lc < s2.heap.cells.size → (s2.heap.set lc w).get lc = w)
    | .error m => evalExpr prog (n + 2) (.binary l r op) s = Jqawk.throwRt l.token.pos m s2 := by
  have all := allRO prog k (fun e => (hk e).1) n
  have q1 := all.expr true l hl s
  rw [h1] at q1
  obtain ⟨r1, i1⟩ := q1 (fun e => (hk e).2)
  have q2 := all.expr true r hr s1
  rw [h2] at q2
  obtain ⟨r2, _⟩ := q2 i1
  have hp : HeapPreserved s.heap s2.heap := r1.heap.trans r2.heap
  refine ⟨hp, ?_⟩
  have e := assign_existing_eq prog n l r op s s1 s2 lc rc hop h1 h2 hns
  cases hc : copyVal (s2.heap.get rc) with
  | ok w =>
    rw [hc] at e
    exact ⟨e, hp.set_except lc w, fun hlt => Heap.get_set_same' _ _ _ hlt⟩
  | error m => rw [hc] at e; exact e

/-- `x = r` for a variable `x` that is bound to an allocated cell `c` which does not stand for a
    missing member: exactly `c` is written. -/
theorem assign_var_frame (prog : Program) (k : Bool) (n : Nat) (t : Token) (r : Expr) (op : Token)
    (s s2 : St) (c rc : CellId)
    (hk : k = true → prog.FnsRO ∧ ObjsInRange s.heap)
    (hr : Expr.readOnly k r = true) (hop : op.tag = .equal)
    (ht : (t.tag == Tag.dollar) = false) (hb : lookupFrames s.frames t.text = some c)
    (hc : c < s.heap.cells.size) (hns : (s.heap.get c).speculative = false)
    (h2 : evalExpr prog (n + 1) r s = .ok rc s2) :
    match copyVal (s2.heap.get rc) with
    | .ok w =>
      evalExpr prog (n + 3) (.binary (.ident t) r op) s = .ok c { s2 with heap := s2.heap.set c w } ∧
      HeapPreservedExcept c s.heap (s2.heap.set c w) ∧ (s2.heap.set c w).get c = w
    | .error m => evalExpr prog (n + 3) (.binary (.ident t) r op) s = Jqawk.throwRt t.pos m s2 := by
  have h1 := evalExpr_ident_bound prog n t s c ht hb
  have all := allRO prog k (fun e => (hk e).1) (n + 1)
  have q2 := all.expr true r hr s
  rw [h2] at q2
  obtain ⟨r2, _⟩ := q2 (fun e => (hk e).2)
  have hns2 := speculative_preserved r2.heap c hc hns
  have h := (assign_existing_frame prog k (n + 1) (.ident t) r op s s s2 c rc hk
    (readOnly_ident k t) hr hop h1 h2 hns2).2
  cases hcv : copyVal (s2.heap.get rc) with
  | ok w =>
    rw [hcv] at h
    exact ⟨h.1, h.2.1, h.2.2 (Nat.lt_of_lt_of_le hc r2.heap.cells)⟩
  | error m => rw [hcv] at h; exact h

/-- the final state / the value of a result (for stating concrete instances) -/
def resState {α : Type} : Res α → St
  | .ok _ s => s
  | .err _ s => s
  | .oof => default

def resVal? {α : Type} : Res α → Option α
  | .ok a _ => some a
  | _ => none

theorem eq_ok_of_resVal {α : Type} {r : Res α} {a : α} (h : resVal? r = some a) :
    r = .ok a (resState r) := by
  cases r <;> simp_all [resVal?, resState]

/-- `$.a[0] = 7` on the example state: the hypotheses of `assign_existing_frame` hold with
    `lc = 2` (the cell of the first element), and so does its conclusion: cell 2 is written,
    every other old cell, the array and the object are as before -/
example :
    let r1 := evalExpr Program.empty 10 (idx (dot dollar b!"a") (numL b!"0")) exSt
    let r2 := evalExpr Program.empty 10 (numL b!"7") (resState r1)
    r1 = .ok 2 (resState r1) ∧ r2 = .ok 8 (resState r2) ∧
    ((resState r2).heap.get 2).speculative = false := by
  refine ⟨eq_ok_of_resVal (by decide +kernel), eq_ok_of_resVal (by decide +kernel), by decide +kernel⟩


/-! ### the frame rule for an assignment that creates its target

  `o.new = e`, `a[len+k] = e`, and `u.k = e` / `u[i] = e` for an unset `u`: the target expression
  evaluates to a stand-in cell `sc` (value `nil` remembering the base cell `b` and the key), and
  the store goes through one level of `createSpeculativeObjects`.  (Two or more missing levels,
  `o.x.y = e` with `o.x` missing, are not covered here.) -/

/-- target and source of an assignment are read-only: evaluating both changes nothing -/
theorem readonly_pair_preserved (prog : Program) (k : Bool) (n : Nat) (l r : Expr) (s s1 s2 : St)
    (lc rc : CellId) (hk : k = true → prog.FnsRO ∧ ObjsInRange s.heap)
    (hl : Expr.readOnly k l = true) (hr : Expr.readOnly k r = true)
    (h1 : evalExpr prog n l s = .ok lc s1) (h2 : evalExpr prog n r s1 = .ok rc s2) :
    HeapPreserved s.heap s2.heap := by
  have all := allRO prog k (fun e => (hk e).1) n
  have q1 := all.expr true l hl s
  rw [h1] at q1
  obtain ⟨r1, i1⟩ := q1 (fun e => (hk e).2)
  have q2 := all.expr true r hr s1
  rw [h2] at q2
  obtain ⟨r2, _⟩ := q2 i1
  exact r1.heap.trans r2.heap

/-- Clause "assigning to a … member, index … changes exactly the addressed location — creating
    missing intermediate objects (for string keys) or arrays (for numeric indices) … — and leaves
    every other part of every value … unchanged", frame part, for every creating assignment with
    one missing level: evaluating target and source changes nothing (`HeapPreserved s s2`), and
    the store itself leaves every cell that existed unchanged except the stand-in cell `sc`
    (which becomes the new member) and the base cell `b` if it was unset (it receives the new
    container); every array other than the one `b` holds and every object other than the one `b`
    holds keep their contents (`HeapFrame`).  `hidx` says that for an array base the index is at
    or past the end — which is why the member was missing. -/
theorem assign_create_frame (prog : Program) (k : Bool) (n : Nat) (l r : Expr) (op : Token)
    (s s1 s2 : St) (sc rc b : CellId) (key : Key)
    (hk : k = true → prog.FnsRO ∧ ObjsInRange s.heap)
    (hl : Expr.readOnly k l = true) (hr : Expr.readOnly k r = true) (hop : op.tag = .equal)
    (h1 : evalExpr prog n l s = .ok sc s1) (h2 : evalExpr prog n r s1 = .ok rc s2)
    (hsv : s2.heap.get sc = .nil (some ⟨b, key⟩)) (hpv : ∀ sp, s2.heap.get b ≠ .nil sp)
    (hidx : ∀ a x i, s2.heap.get b = .arr a → key = .num x →
      resolveIndex (s2.heap.arr a).size x.toGoInt = some i → (s2.heap.arr a).size ≤ i) :
    HeapPreserved s.heap s2.heap ∧
    After (fun s' => HeapFrame (fun d => d = sc ∨ (d = b ∧ s2.heap.get b = .unknown))
        (fun a => s2.heap.get b = .arr a) (fun o => s2.heap.get b = .obj o) s2.heap s'.heap)
      (evalExpr prog (n + 2) (.binary l r op) s) := by
  refine ⟨readonly_pair_preserved prog k n l r s s1 s2 sc rc hk hl hr h1 h2, ?_⟩
  have h := assign_create_heapFrame prog n l r op s s1 s2 sc rc b key hop h1 h2 hsv hpv hidx
  cases hr' : evalExpr prog (n + 2) (.binary l r op) s with
  | ok a s' => rw [hr'] at h; exact h
  | err e s' => rw [hr'] at h; exact h
  | oof => trivial

/-- "creating missing intermediate objects (for string keys)": `o.new = e` where `o` holds an
    object.  Exactly: the object gets the member `new ↦ sc` (`objInsert`: an existing key keeps
    its position, a new one is appended; every other key keeps its cell,
    `objLookup_objInsert_other`), and `sc` receives the copy of the value. -/
theorem assign_new_member (prog : Program) (n : Nat) (l r : Expr) (op : Token) (s s1 s2 : St)
    (sc rc b : CellId) (key : Key) (o : ObjId) (hop : op.tag = .equal)
    (h1 : evalExpr prog n l s = .ok sc s1) (h2 : evalExpr prog n r s1 = .ok rc s2)
    (hsv : s2.heap.get sc = .nil (some ⟨b, key⟩)) (hb : s2.heap.get b = .obj o) :
    evalExpr prog (n + 2) (.binary l r op) s =
      match copyVal (s2.heap.get rc) with
      | .ok w => .ok sc { s2 with heap :=
          ((s2.heap.setObj o (objInsert (s2.heap.obj o) key.val.str! sc)).set sc w) }
      | .error m => Jqawk.throwRt l.token.pos m { s2 with heap :=
          (s2.heap.setObj o (objInsert (s2.heap.obj o) key.val.str! sc)) } := by
  rw [assign_create_eq prog n l r op s s1 s2 sc rc b key hop h1 h2 hsv (by rw [hb]; simp)]
  have : createTarget s2.heap b key = (s2.heap, .obj o) := by unfold createTarget; rw [hb]
  rw [this]
  rfl

/-- "padding arrays with null up to a new index": `a[i] = e` with `i ≥ a.length()` (`i` already
    resolved: a negative index counts from the end, `negative_index`).  The result heap is
    `padHeap` (described by `padHeap_spec`: the array keeps its old cells, then `i - len` fresh
    cells holding null, then one more fresh cell; nothing else changes) with that last cell
    holding the copy of the value. -/
theorem assign_array_pad (prog : Program) (n : Nat) (l r : Expr) (op : Token) (s s1 s2 : St)
    (sc rc b : CellId) (key : Key) (a : ArrId) (x : F64) (i : Nat) (hop : op.tag = .equal)
    (h1 : evalExpr prog n l s = .ok sc s1) (h2 : evalExpr prog n r s1 = .ok rc s2)
    (hsv : s2.heap.get sc = .nil (some ⟨b, key⟩)) (hb : s2.heap.get b = .arr a)
    (hkey : key = .num x) (hri : resolveIndex (s2.heap.arr a).size x.toGoInt = some i)
    (hge : (s2.heap.arr a).size ≤ i) (hlim : i ≤ fillLimit) :
    evalExpr prog (n + 2) (.binary l r op) s =
      match copyVal ((padHeap s2.heap a i (s2.heap.get sc)).get rc) with
      | .ok w => .ok (s2.heap.cells.size + (i - (s2.heap.arr a).size)) { s2 with heap :=
          ((padHeap s2.heap a i (s2.heap.get sc)).set (s2.heap.cells.size + (i - (s2.heap.arr a).size)) w) }
      | .error m => Jqawk.throwRt l.token.pos m { s2 with heap := (padHeap s2.heap a i (s2.heap.get sc)) } := by
  rw [assign_create_eq prog n l r op s s1 s2 sc rc b key hop h1 h2 hsv (by rw [hb]; simp)]
  have : createTarget s2.heap b key = (s2.heap, .arr a) := by unfold createTarget; rw [hb]
  rw [this]
  subst hkey
  have hsc : sc < s2.heap.cells.size := Heap.lt_of_get_ne_unknown _ _ (by rw [hsv]; simp)
  simp only [Key.val]
  rw [setMember_arr_fill s2.heap a x sc i hri hge hlim hsc]
  rfl

/-- `u.k = e` for an unset `u`: `u` becomes a fresh object whose only member is `k`
    (`unsetObjHeap`, described by `unsetObjHeap_spec`), holding the copy of the value -/
theorem assign_unset_base_object (prog : Program) (n : Nat) (l r : Expr) (op : Token) (s s1 s2 : St)
    (sc rc b : CellId) (key : Key) (kname : Bytes) (hop : op.tag = .equal)
    (h1 : evalExpr prog n l s = .ok sc s1) (h2 : evalExpr prog n r s1 = .ok rc s2)
    (hsv : s2.heap.get sc = .nil (some ⟨b, key⟩)) (hb : s2.heap.get b = .unknown)
    (hkey : key = .str kname) :
    evalExpr prog (n + 2) (.binary l r op) s =
      match copyVal ((unsetObjHeap s2.heap b kname sc).get rc) with
      | .ok w => .ok sc { s2 with heap := (unsetObjHeap s2.heap b kname sc).set sc w }
      | .error m => Jqawk.throwRt l.token.pos m { s2 with heap := unsetObjHeap s2.heap b kname sc } := by
  rw [assign_create_eq prog n l r op s s1 s2 sc rc b key hop h1 h2 hsv (by rw [hb]; simp)]
  subst hkey
  have : createTarget s2.heap b (.str kname) =
      ((s2.heap.allocObj []).2.set b (.obj s2.heap.objs.size), .obj s2.heap.objs.size) := by
    unfold createTarget; rw [hb]
  rw [this]
  have hobj : ((s2.heap.allocObj []).2.set b (.obj s2.heap.objs.size)).obj s2.heap.objs.size = [] := by
    simp [Heap.set, Heap.allocObj, Heap.obj, Array.getD_eq_getD_getElem?]
  simp only [setMember, Key.val, Val.str!, hobj, objInsert, unsetObjHeap]
  rfl

/-- `u[i] = e` for an unset `u` and `i ≥ 0`: `u` becomes a fresh array of length `i + 1`: nulls,
    then the copy of the value (`padHeap` on the fresh empty array; a negative `i` is the error
    "index out of range", `index_before_start_errors`) -/
theorem assign_unset_base_array (prog : Program) (n : Nat) (l r : Expr) (op : Token) (s s1 s2 : St)
    (sc rc b : CellId) (key : Key) (x : F64) (i : Nat) (hop : op.tag = .equal)
    (h1 : evalExpr prog n l s = .ok sc s1) (h2 : evalExpr prog n r s1 = .ok rc s2)
    (hsv : s2.heap.get sc = .nil (some ⟨b, key⟩)) (hb : s2.heap.get b = .unknown)
    (hkey : key = .num x) (hri : resolveIndex 0 x.toGoInt = some i) (hlim : i ≤ fillLimit) :
    evalExpr prog (n + 2) (.binary l r op) s =
      match copyVal ((padHeap ((s2.heap.allocArr #[]).2.set b (.arr s2.heap.arrs.size))
          s2.heap.arrs.size i (s2.heap.get sc)).get rc) with
      | .ok w => .ok (s2.heap.cells.size + i) { s2 with heap :=
          ((padHeap ((s2.heap.allocArr #[]).2.set b (.arr s2.heap.arrs.size))
            s2.heap.arrs.size i (s2.heap.get sc)).set (s2.heap.cells.size + i) w) }
      | .error m => Jqawk.throwRt l.token.pos m { s2 with heap :=
          (padHeap ((s2.heap.allocArr #[]).2.set b (.arr s2.heap.arrs.size))
            s2.heap.arrs.size i (s2.heap.get sc)) } := by
  rw [assign_create_eq prog n l r op s s1 s2 sc rc b key hop h1 h2 hsv (by rw [hb]; simp)]
  subst hkey
  have : createTarget s2.heap b (.num x) =
      ((s2.heap.allocArr #[]).2.set b (.arr s2.heap.arrs.size), .arr s2.heap.arrs.size) := by
    unfold createTarget; rw [hb]
  rw [this]
  have harr : ((s2.heap.allocArr #[]).2.set b (.arr s2.heap.arrs.size)).arr s2.heap.arrs.size = #[] := by
    simp [Heap.set, Heap.allocArr, Heap.arr, Array.getD_eq_getD_getElem?]
  have hsc : sc < s2.heap.cells.size := Heap.lt_of_get_ne_unknown _ _ (by rw [hsv]; simp)
  have hne : sc ≠ b := by intro e; rw [e, hb] at hsv; cases hsv
  have hsz : ((s2.heap.allocArr #[]).2.set b (.arr s2.heap.arrs.size)).cells.size = s2.heap.cells.size := by
    rw [Heap.size_set]; rfl
  have hget : ((s2.heap.allocArr #[]).2.set b (.arr s2.heap.arrs.size)).get sc = s2.heap.get sc := by
    rw [Heap.get_set_ne' _ _ _ _ hne]; rfl
  simp only [Key.val]
  rw [setMember_arr_fill _ s2.heap.arrs.size x sc i (by rw [harr]; exact hri)
    (by rw [harr]; exact Nat.zero_le _) hlim (by rw [hsz]; exact hsc)]
  simp only [harr, hsz, hget, Array.size_empty, Nat.sub_zero]
  rfl

/-! #### concrete instances on the example state `$ = {"a": [1, 2], "s": "hi", "u": <unset>}` -/

def assign (l r : Expr) : Expr := .binary l r (tk .equal b!"=")
def oldCellsSame (h h' : Heap) (except : List CellId) : Bool :=
  (List.range h.cells.size).all (fun c => except.contains c || h'.get c == h.get c)

/-- `$.u.k = 7`: the hypotheses of `assign_create_frame` / `assign_unset_base_object` hold (the
    target is the stand-in cell 8 for member `k` of the unset cell 5) … -/
example :
    let r1 := evalExpr Program.empty 10 (dot (dot dollar b!"u") b!"k") exSt
    let r2 := evalExpr Program.empty 10 (numL b!"7") (resState r1)
    r1 = .ok 8 (resState r1) ∧ r2 = .ok 9 (resState r2) ∧
    (resState r2).heap.get 8 = .nil (some ⟨5, .str b!"k"⟩) ∧ (resState r2).heap.get 5 = .unknown := by
  refine ⟨eq_ok_of_resVal (by decide +kernel), eq_ok_of_resVal (by decide +kernel),
    by decide +kernel, by decide +kernel⟩

/-- … and its effect: `$.u` is now the fresh object `{k: 7}`, every other old cell, the array and
    the root object are unchanged -/
example : (match evalExpr Program.empty 12 (assign (dot (dot dollar b!"u") b!"k") (numL b!"7")) exSt with
    | .ok c s' =>
      s'.heap.get 5 == .obj 1 && s'.heap.obj 1 == [(b!"k", c)] &&
      (F64.parse b!"7").map Val.num == some (s'.heap.get c) &&
      oldCellsSame exHeap s'.heap [5] && s'.heap.arr 0 == exHeap.arr 0 && s'.heap.obj 0 == exHeap.obj 0
    | _ => false) = true := by decide +kernel

/-- `$.u[2] = 7`: `$.u` becomes `[null, null, 7]` -/
example : (match evalExpr Program.empty 12 (assign (idx (dot dollar b!"u") (numL b!"2")) (numL b!"7")) exSt with
    | .ok c s' =>
      s'.heap.get 5 == .arr 1 && (s'.heap.arr 1).size == 3 &&
      s'.heap.get ((s'.heap.arr 1).getD 0 0) == .nil none &&
      s'.heap.get ((s'.heap.arr 1).getD 1 0) == .nil none && (s'.heap.arr 1).getD 2 0 == c &&
      (F64.parse b!"7").map Val.num == some (s'.heap.get c) &&
      oldCellsSame exHeap s'.heap [5] && s'.heap.arr 0 == exHeap.arr 0 && s'.heap.obj 0 == exHeap.obj 0
    | _ => false) = true := by decide +kernel

/-- `$.a[4] = 7`: `$.a` becomes `[1, 2, null, null, 7]`, with its first two cells as before -/
example : (match evalExpr Program.empty 12 (assign (idx (dot dollar b!"a") (numL b!"4")) (numL b!"7")) exSt with
    | .ok c s' =>
      (s'.heap.arr 0).size == 5 && (s'.heap.arr 0).getD 0 0 == 2 && (s'.heap.arr 0).getD 1 0 == 3 &&
      s'.heap.get ((s'.heap.arr 0).getD 2 0) == .nil none &&
      s'.heap.get ((s'.heap.arr 0).getD 3 0) == .nil none && (s'.heap.arr 0).getD 4 0 == c &&
      (F64.parse b!"7").map Val.num == some (s'.heap.get c) &&
      oldCellsSame exHeap s'.heap [] && s'.heap.obj 0 == exHeap.obj 0
    | _ => false) = true := by decide +kernel

/-- `$.new = 7`: the root object gains the member `new`; every old cell and the array are unchanged -/
example : (match evalExpr Program.empty 12 (assign (dot dollar b!"new") (numL b!"7")) exSt with
    | .ok c s' =>
      objLookup (s'.heap.obj 0) b!"new" == some c && objLookup (s'.heap.obj 0) b!"a" == some 1 &&
      objLookup (s'.heap.obj 0) b!"s" == some 4 && objLookup (s'.heap.obj 0) b!"u" == some 5 &&
      (F64.parse b!"7").map Val.num == some (s'.heap.get c) &&
      oldCellsSame exHeap s'.heap [] && s'.heap.arr 0 == exHeap.arr 0
    | _ => false) = true := by decide +kernel

end Jqawk.C09
