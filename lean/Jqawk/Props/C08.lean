/-
  C08 — calls bind by position and value; completed calls and matches leave no residue.
  Consequences of the master invariant (Lemmas/Invariant.lean), which holds for EVERY outcome
  of EVERY evaluator function (value, runtime error, any internal signal): the frame stack
  afterwards has the depth it had before and every deeper frame is untouched.
-/
import Jqawk.Lemmas.Invariant

namespace Jqawk.C08
open Jqawk

/-- the final state of an evaluation that did not run out of fuel -/
def finalState {α : Type} : Res α → Option St
  | .ok _ s => some s
  | .err _ s => some s
  | .oof => none

theorem keeps_of_Q {α : Type} {s s' : St} {r : Res α} (h : Q s r) (hs : finalState r = some s') :
    Keeps s s' := by
  cases r with
  | ok a s1 => simp only [finalState, Option.some.injEq] at hs; subst hs; exact h.1
  | err e s1 =>
    simp only [finalState, Option.some.injEq] at hs; subst hs
    cases e <;> first | exact h.1 | exact h
  | oof => simp [finalState] at hs

/-! ### a concrete instance for the non-vacuity examples below -/

def tk (t : Tag) (s : Bytes) : Token := ⟨t, 0, s⟩
def identE (name : Bytes) : Expr := .ident (tk .ident name)
/-- `function f(x) { y = x; return x }` -/
def exProg : Program :=
  ⟨[], [⟨tk .ident b!"f", [b!"x"],
    .block (tk .lcurly b!"{") [.expr (.binary (identE b!"y") (identE b!"x") (tk .equal b!"=")),
                               .ret (some (identE b!"x"))]⟩]⟩
/-- a root frame in which `f` names the function (cell 2); cell 1 holds the number 1 -/
def exSt : St :=
  { heap := ⟨#[.obj 0, .num F64.one, .fn 0], #[], #[[]]⟩, frames := [⟨b!"<root>", [(b!"f", 2)]⟩],
    out := [], root := some 0, ruleRoot := some 0, returnVal := none, faults := 0 }
/-- `f(1)` -/
def exCall : Expr := .call (identE b!"f") [.lit (tk .num b!"1")]
/-- `match`-cases `z => z` (an identifier pattern, which binds `z` in a `<match>` frame) -/
def exCases : List MatchCase := [.mk [identE b!"z"] (.expr (identE b!"z"))]

variable (prog : Program)

/-- However an expression evaluation ends — value, runtime error, next/exit/break/continue/
    return passing through — the frame stack has the same depth afterwards, the frames below
    the innermost one are untouched and the innermost keeps its name. -/
theorem frames_restored_expr (n : Nat) (e : Expr) (s s' : St)
    (h : finalState (evalExpr prog n e s) = some s') : FramesKeep s.frames s'.frames :=
  (keeps_of_Q ((allSafe prog n).expr e s) h).frames

/-- non-vacuity: `f(1)` runs to a value (fuel 12), through a call that pushes and drops a frame -/
example : ∃ s', finalState (evalExpr exProg 12 exCall exSt) = some s' := Option.isSome_iff_exists.mp (by decide +kernel)
example : (match evalExpr exProg 12 exCall exSt with
    | .ok c s' => s'.heap.get c == .num F64.one | _ => false) = true := by decide +kernel

/-- the same for statements -/
theorem frames_restored_stmt (n : Nat) (st : Stmt) (s s' : St)
    (h : finalState (evalStmt prog n st s) = some s') : FramesKeep s.frames s'.frames :=
  (keeps_of_Q ((allSafe prog n).stmt st s) h).frames

example : ∃ s', finalState (evalStmt exProg 13 (.expr exCall) exSt) = some s' :=
  Option.isSome_iff_exists.mp (by decide +kernel)

/-- … and for a call of any callable value with already evaluated arguments -/
theorem frames_restored_call (n pos : Nat) (f : CellId) (args : List CellId) (s s' : St)
    (h : finalState (callFunction prog n pos f args s) = some s') : FramesKeep s.frames s'.frames :=
  (keeps_of_Q ((allSafe prog n).call pos f args s) h).frames

example : ∃ s', finalState (callFunction exProg 10 0 2 [1] exSt) = some s' :=
  Option.isSome_iff_exists.mp (by decide +kernel)

/-- … and for a whole `match` (subject already evaluated) -/
theorem frames_restored_match (n pos : Nat) (v : CellId) (cases : List MatchCase) (s s' : St)
    (h : finalState (evalMatchCases prog n pos v cases s) = some s') :
    FramesKeep s.frames s'.frames :=
  (keeps_of_Q ((allSafe prog n).matchCases pos v cases s) h).frames

/-- the case `z => z` matches the subject (cell 1), binds `z` and yields the subject's cell -/
example : ∃ s', finalState (evalMatchCases exProg 6 0 1 exCases exSt) = some s' :=
  Option.isSome_iff_exists.mp (by decide +kernel)
example : (match evalMatchCases exProg 6 0 1 exCases exSt with
    | .ok c s' => s'.heap.get c == .num F64.one && s'.frames.length == 1 | _ => false) = true := by
  decide +kernel

/-- only genuinely nested calls count towards the recursion limit: the depth after any
    completed statement equals the depth before it, whatever ran inside -/
theorem depth_counts_nesting_only (n : Nat) (st : Stmt) (s s' : St)
    (h : finalState (evalStmt prog n st s) = some s') : s'.frames.length = s.frames.length :=
  (frames_restored_stmt prog n st s s' h).length

/-- a statement never changes the frames of its callers (locals created inside a call or a
    match body live in the frame that is dropped) -/
theorem outer_frames_untouched (n : Nat) (st : Stmt) (s s' : St)
    (h : finalState (evalStmt prog n st s) = some s') : s'.frames.tail = s.frames.tail := by
  have hk := frames_restored_stmt prog n st s s' h
  cases hf : s.frames <;> cases hf' : s'.frames <;> simp_all [FramesKeep]

/-- A call of a USER function restores the frame stack exactly (not only its shape): the
    parameters and every name first created inside the call are gone, for every outcome. -/
theorem call_restores_exactly (n pos i : Nat) (fc : CellId) (args : List CellId) (f : FuncDef)
    (s s' : St) (hfn : s.heap.get fc = .fn i) (hf : prog.functions[i]? = some f)
    (h : finalState (callFunction prog (n + 1) pos fc args s) = some s') :
    s'.frames = s.frames := by
  unfold callFunction at h
  by_cases hd : s.frames.length > callDepthLimit
  · simp only [Bind.bind, EM.bind, readCell, getHeap, hfn, hf, getSt, pushFrame, hd, ↓reduceIte,
      throwRt, finalState, Option.some.injEq] at h
    subst h; rfl
  · simp only [Bind.bind, EM.bind, readCell, getHeap, hfn, hf, getSt, pushFrame, hd, ↓reduceIte,
      withFrames] at h
    split at h <;> simp only [finalState, Option.some.injEq, reduceCtorEq] at h <;> (subst h; rfl)

/-- non-vacuity of `call_restores_exactly` / `locals_vanish`: cell 2 is the user function `f`, the
    call completes, and the callee's `x` and `y` (created inside the call) are not visible after it -/
example : exSt.heap.get 2 = .fn 0 ∧ exProg.functions[0]? = some
      ⟨tk .ident b!"f", [b!"x"],
       .block (tk .lcurly b!"{") [.expr (.binary (identE b!"y") (identE b!"x") (tk .equal b!"=")),
                                  .ret (some (identE b!"x"))]⟩ ∧
    ∃ s', finalState (callFunction exProg (9 + 1) 0 2 [1] exSt) = some s' :=
  ⟨by decide +kernel, rfl, Option.isSome_iff_exists.mp (by decide +kernel)⟩
example : (match callFunction exProg 10 0 2 [1] exSt with
    | .ok _ s' => lookupFrames s'.frames b!"x" == none && lookupFrames s'.frames b!"y" == none &&
                  lookupFrames s'.frames b!"f" == some 2
    | _ => false) = true := by decide +kernel

/-- hence names bound by the callee are not visible afterwards: lookups see what they saw before -/
theorem locals_vanish (n pos i : Nat) (fc : CellId) (args : List CellId) (f : FuncDef)
    (s s' : St) (hfn : s.heap.get fc = .fn i) (hf : prog.functions[i]? = some f)
    (h : finalState (callFunction prog (n + 1) pos fc args s) = some s') (name : Bytes) :
    lookupFrames s'.frames name = lookupFrames s.frames name := by
  rw [call_restores_exactly prog n pos i fc args f s s' hfn hf h]

/-- evaluating a statement never re-points `root` or `$` (`ruleRoot`): both still name the same
    heap cell afterwards (the CONTENTS of that cell may change, e.g. by `$ = …`) -/
theorem rule_root_untouched (n : Nat) (st : Stmt) (s s' : St)
    (h : finalState (evalStmt prog n st s) = some s') :
    s'.ruleRoot = s.ruleRoot ∧ s'.root = s.root :=
  let k := keeps_of_Q ((allSafe prog n).stmt st s) h
  ⟨k.ruleRoot, k.root⟩

theorem objLookup_objInsert_same (m : List (Bytes × CellId)) (k : Bytes) (c : CellId) :
    objLookup (objInsert m k c) k = some c := by
  induction m with
  | nil => simp [objInsert, objLookup]
  | cons kv rest ih =>
    obtain ⟨k0, c0⟩ := kv
    by_cases h : k0 = k
    · simp [objInsert, objLookup, h]
    · simp [objInsert, objLookup, h, ih]

/-- binding, stated for a ONE-parameter list only: a parameter without an argument is bound to a
    fresh null cell (parameter lists of any length: `C09.params_bound_fresh`) -/
theorem bind_missing_null (p : Bytes) (s : St) (f : Frame) (fs : List Frame) (hfr : s.frames = f :: fs) :
    ∃ s', bindParams [p] [] s = .ok () s' ∧
      ∃ c, lookupFrames s'.frames p = some c ∧ s'.heap.get c = .nil none := by
  simp only [bindParams, Bind.bind, EM.bind, newCell, setLocal, hfr, Pure.pure, EM.pure]
  refine ⟨_, rfl, s.heap.cells.size, ?_, ?_⟩
  · simp [lookupFrames, objLookup_objInsert_same, Heap.alloc]
  · simp [Heap.alloc, Heap.get]

/-- non-vacuity of `hfr` (here and in `bind_arg_value`): the example state has a frame -/
example : exSt.frames = ⟨b!"<root>", [(b!"f", 2)]⟩ :: [] := rfl

/-- … and (again for a one-parameter list) a parameter with an argument is bound to a fresh cell
    holding that value (for an array/object value: the same reference); surplus arguments are
    ignored -/
theorem bind_arg_value (p : Bytes) (a : Val) (extra : List Val) (s : St) (f : Frame) (fs : List Frame)
    (hfr : s.frames = f :: fs) :
    ∃ s', bindParams [p] (a :: extra) s = .ok () s' ∧
      ∃ c, lookupFrames s'.frames p = some c ∧ s'.heap.get c = a ∧ c = s.heap.cells.size := by
  simp only [bindParams, Bind.bind, EM.bind, newCell, setLocal, hfr, Pure.pure, EM.pure]
  refine ⟨_, rfl, s.heap.cells.size, ?_, ?_, rfl⟩
  · simp [lookupFrames, objLookup_objInsert_same, Heap.alloc]
  · simp [Heap.alloc, Heap.get]

end Jqawk.C08
