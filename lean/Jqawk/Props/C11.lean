/-
  C11 — syntax errors pre-empt all execution; runtime faults stop the run at the fault.
  The ghost counter `faults` is incremented at every site that CREATES a runtime error and
  `faultOut` records the amount of output at that moment; the master invariant then says that a
  fault is never swallowed and nothing is printed after it, in whatever syntactic position it
  occurs.
-/
import Jqawk.Lemmas.Invariant
import Jqawk.Model.Driver

namespace Jqawk.C11
open Jqawk

variable (prog : Program)

/-- If a statement completes normally or with an internal signal, no runtime fault was raised
    while it ran (faults are never silently ignored) … -/
theorem faults_not_swallowed_stmt (n : Nat) (st : Stmt) (s s' : St) :
    (evalStmt prog n st s = .ok () s' → s'.faults = s.faults) ∧
    (∀ g, evalStmt prog n st s = .err (.sig g) s' → s'.faults = s.faults) := by
  have h := (allSafe prog n).stmt st s
  constructor
  · intro he; rw [he] at h; exact h.2
  · intro g he; rw [he] at h; exact h.2

/-- … and if it ends in a runtime error, exactly one fault was raised, and nothing was printed
    after it: the output at the end is the output at the moment of the fault. -/
theorem fault_stops_the_run_stmt (n : Nat) (st : Stmt) (s s' : St) (pos : Nat) (msg : String)
    (he : evalStmt prog n st s = .err (.runtime pos msg) s') :
    s'.faults = s.faults + 1 ∧ s'.faultOut = s'.out.length := by
  have h := (allSafe prog n).stmt st s
  rw [he] at h; exact h.2

/-- the same two facts for expressions, in every operand / argument / index / condition slot -/
theorem faults_not_swallowed_expr (n : Nat) (e : Expr) (s s' : St) (c : CellId)
    (he : evalExpr prog n e s = .ok c s') : s'.faults = s.faults := by
  have h := (allSafe prog n).expr e s
  rw [he] at h; exact h.2

theorem fault_stops_the_run_expr (n : Nat) (e : Expr) (s s' : St) (pos : Nat) (msg : String)
    (he : evalExpr prog n e s = .err (.runtime pos msg) s') :
    s'.faults = s.faults + 1 ∧ s'.faultOut = s'.out.length := by
  have h := (allSafe prog n).expr e s
  rw [he] at h; exact h.2

/-- everything printed before a failure is kept: output is only ever appended, for every outcome -/
theorem output_only_appended (n : Nat) (st : Stmt) (s s' : St) (r : Res Unit)
    (he : evalStmt prog n st s = r) (hs : (match r with | .ok _ t => some t | .err _ t => some t | .oof => none) = some s') :
    ∃ chunks, s'.out = chunks ++ s.out := by
  have h := (allSafe prog n).stmt st s
  rw [he] at h
  cases r with
  | ok a t => simp only [Option.some.injEq] at hs; subst hs; exact h.1.out
  | err e t =>
    simp only [Option.some.injEq] at hs; subst hs
    cases e <;> first | exact h.1.out | exact h.out
  | oof => simp at hs

/-- A program with a syntax error anywhere produces no output at all, only the syntax error,
    however much valid program precedes the error: nothing is evaluated before parsing succeeds. -/
theorem syntax_preempts (tbl : RuleTable) (src : Bytes) (sels : List Bytes) (files : List InputFile)
    (e : SynErr) (h : parseProgramSrc tbl src = .syntaxErr e) :
    (evalProgram tbl src sels files).out = [] ∧
    (match (evalProgram tbl src sels files).outcome with
     | .syntaxErr s e' => s = src ∧ e' = e
     | _ => False) := by
  simp [evalProgram, h]

/-- the error raising primitive itself: one fault, output position recorded, nothing else touched -/
theorem throwRt_spec {α : Type} (pos : Nat) (msg : String) (s : St) :
    (throwRt pos msg : EM α) s =
      .err (.runtime pos msg) { s with faults := s.faults + 1, faultOut := s.out.length } := rfl

/-- non-vacuity: `1 / 0` as an expression statement raises exactly one fault -/
example : (match evalStmt Program.empty 10
      (.expr (.binary (.lit ⟨.num, 0, b!"1"⟩) (.lit ⟨.num, 4, b!"0"⟩) ⟨.divide, 2, []⟩))
      (newEvaluator Program.empty Heap.empty [] 0) with
    | .err (.runtime 2 _) s' => s'.faults == 1 && s'.faultOut == s'.out.length
    | _ => false) = true := by decide +kernel

end Jqawk.C11
