/-
  C11 — syntax errors pre-empt all execution; runtime faults stop the run at the fault.
  The ghost counter `faults` is incremented at every site that CREATES a runtime error and
  `faultOut` records the amount of output at that moment; the master invariant then says that a
  fault is never swallowed and nothing is printed after it, in whatever syntactic position it
  occurs.
-/
import Jqawk.Lemmas.Invariant
import Jqawk.Lemmas.DriverInvariant
import Jqawk.Model.Driver
import Jqawk.Lemmas.ParserScope
import Jqawk.Lemmas.ParserWF

namespace Jqawk.C11
open Jqawk

variable (prog : Program)

/-- If a statement completes normally or with an internal signal, no runtime fault was raised
    while it ran (faults are never silently ignored) … -/
theorem faults_not_swallowed_stmt (n : Nat) (st : Stmt) (s s' : St) :
    (evalStmt prog n st s = .ok () s' → s'.faults = s.faults) ∧
    (∀ g, evalStmt prog n st s = .err (.sig g) s' → s'.faults = s.faults) := by
  have h := (allSafe prog n).stmt st s
  constructor
  · intro he; rw [he] at h; exact h.2
  · intro g he; rw [he] at h; exact h.2

/-- … and if it ends in a runtime error, exactly one fault was raised, and nothing was printed
    after it: the output at the end is the output at the moment of the fault. -/
theorem fault_stops_the_run_stmt (n : Nat) (st : Stmt) (s s' : St) (pos : Nat) (msg : String)
    (he : evalStmt prog n st s = .err (.runtime pos msg) s') :
    s'.faults = s.faults + 1 ∧ s'.faultOut = s'.out.length := by
  have h := (allSafe prog n).stmt st s
  rw [he] at h; exact h.2

/-- the same two facts for expressions, in every operand / argument / index / condition slot -/
theorem faults_not_swallowed_expr (n : Nat) (e : Expr) (s s' : St) (c : CellId)
    (he : evalExpr prog n e s = .ok c s') : s'.faults = s.faults := by
  have h := (allSafe prog n).expr e s
  rw [he] at h; exact h.2

theorem fault_stops_the_run_expr (n : Nat) (e : Expr) (s s' : St) (pos : Nat) (msg : String)
    (he : evalExpr prog n e s = .err (.runtime pos msg) s') :
    s'.faults = s.faults + 1 ∧ s'.faultOut = s'.out.length := by
  have h := (allSafe prog n).expr e s
  rw [he] at h; exact h.2

/-- everything printed before a failure is kept: output is only ever appended, for every outcome -/
theorem output_only_appended (n : Nat) (st : Stmt) (s s' : St) (r : Res Unit)
    (he : evalStmt prog n st s = r) (hs : (match r with | .ok _ t => some t | .err _ t => some t | .oof => none) = some s') :
    ∃ chunks, s'.out = chunks ++ s.out := by
  have h := (allSafe prog n).stmt st s
  rw [he] at h
  cases r with
  | ok a t => simp only [Option.some.injEq] at hs; subst hs; exact h.1.out
  | err e t =>
    simp only [Option.some.injEq] at hs; subst hs
    cases e <;> first | exact h.1.out | exact h.out
  | oof => simp at hs

/-- A program with a syntax error anywhere produces no output at all, only the syntax error,
    however much valid program precedes the error: nothing is evaluated before parsing succeeds. -/
theorem syntax_preempts (tbl : RuleTable) (src : Bytes) (sels : List Bytes) (files : List InputFile)
    (e : SynErr) (h : parseProgramSrc tbl src = .syntaxErr e) :
    (evalProgram tbl src sels files).out = [] ∧
    (match (evalProgram tbl src sels files).outcome with
     | .syntaxErr s e' => s = src ∧ e' = e
     | _ => False) := by
  simp [evalProgram, h]

/-- the error raising primitive itself: one fault, output position recorded, nothing else touched -/
theorem throwRt_spec {α : Type} (pos : Nat) (msg : String) (s : St) :
    (throwRt pos msg : EM α) s =
      .err (.runtime pos msg) { s with faults := s.faults + 1, faultOut := s.out.length } := rfl

/-- non-vacuity: `1 / 0` as an expression statement raises exactly one fault -/
example : (match evalStmt Program.empty 10
      (.expr (.binary (.lit ⟨.num, 0, b!"1"⟩) (.lit ⟨.num, 4, b!"0"⟩) ⟨.divide, 2, []⟩))
      (newEvaluator Program.empty Heap.empty [] 0) with
    | .err (.runtime 2 _) s' => s'.faults == 1 && s'.faultOut == s'.out.length
    | _ => false) = true := by decide +kernel

/-- non-vacuity of the other hypotheses: `print 1` completes normally (one chunk appended), `next`
    ends in a signal, `1` evaluates to a value — all without a fault -/
example : (match evalStmt Program.empty 10 (.print ⟨.print, 0, b!"print"⟩ [.lit ⟨.num, 6, b!"1"⟩])
      { newEvaluator Program.empty Heap.empty [] 0 with ruleRoot := some 0 } with
    | .ok () s' => s'.faults == 0 && s'.out == [b!"1\n"] | _ => false) = true := by decide +kernel
example : (match evalStmt Program.empty 10 (.next ⟨.next, 0, b!"next"⟩)
      (newEvaluator Program.empty Heap.empty [] 0) with
    | .err (.sig .next) s' => s'.faults == 0 | _ => false) = true := by decide +kernel
example : (match evalExpr Program.empty 10 (.lit ⟨.num, 0, b!"1"⟩)
      (newEvaluator Program.empty Heap.empty [] 0) with
    | .ok _ s' => s'.faults == 0 | _ => false) = true := by decide +kernel
/-- non-vacuity of `fault_stops_the_run_expr`: `1 / 0` as an expression -/
example : (match evalExpr Program.empty 10
      (.binary (.lit ⟨.num, 0, b!"1"⟩) (.lit ⟨.num, 4, b!"0"⟩) ⟨.divide, 2, []⟩)
      (newEvaluator Program.empty Heap.empty [] 0) with
    | .err (.runtime 2 _) s' => s'.faults == 1 | _ => false) = true := by decide +kernel
/-- non-vacuity of `syntax_preempts`: a valid `BEGIN` rule that prints, followed by a rule with a
    syntax error — the text does not parse, and the run has no output -/
example : (match parseProgramSrc expectedRuleTable b!"BEGIN { print 1 }\n{ 1 = 2 }" with
    | .syntaxErr _ => true | _ => false) = true ∧
    (evalProgram expectedRuleTable b!"BEGIN { print 1 }\n{ 1 = 2 }" [] []).out = [] := by
  decide +kernel

/-! ### static rejections: what a program that parses cannot contain -/

/-- **`return` outside a function is rejected**: in a program that parses (any rule table, any
    text) no `return` can escape from a rule body or a rule pattern — every `return` sits inside
    a function body.  (`canS .ret` / `canE .ret`, Model/Scope.lean, over-approximate "a `return`
    statement occurs outside function-call boundaries"; there are none in a rule.) -/
theorem return_outside_function_rejected (tbl : RuleTable) (src : Bytes) (p : Program)
    (h : parseProgramSrc tbl src = .ok p) :
    ∀ r ∈ p.rules, canS .ret r.body = false ∧ ∀ e, r.pattern = some e → canE .ret e = false := by
  intro r hr
  exact (wellScoped_of_B p (parseProgramSrc_wellScopedB tbl src p h)).2 r hr .ret rfl

/-- **`break` / `continue` outside a loop are rejected**: in a program that parses, no `break`
    or `continue` can escape from a rule body, a rule pattern or a function body — each one sits
    inside the body of a `while` / `for` / `for-in` of the same rule or function. -/
theorem break_outside_loop_rejected (tbl : RuleTable) (src : Bytes) (p : Program)
    (h : parseProgramSrc tbl src = .ok p) :
    (∀ r ∈ p.rules, (canS .brk r.body = false ∧ canS .cont r.body = false) ∧
      ∀ e, r.pattern = some e → canE .brk e = false ∧ canE .cont e = false) ∧
    (∀ f ∈ p.functions, canS .brk f.body = false ∧ canS .cont f.body = false) := by
  have hws := wellScoped_of_B p (parseProgramSrc_wellScopedB tbl src p h)
  refine ⟨fun r hr => ⟨⟨(hws.2 r hr .brk rfl).1, (hws.2 r hr .cont rfl).1⟩, fun e he =>
    ⟨(hws.2 r hr .brk rfl).2 e he, (hws.2 r hr .cont rfl).2 e he⟩⟩, fun f hf => ?_⟩
  have := hws.1 f hf
  simpa using this

/-- non-vacuity: legal uses parse … -/
example : (match parseProgramSrc expectedRuleTable
      b!"function f(x) { for (i in x) { if (i) continue; break } return 1 } { while (1) break }" with
    | .ok p => p.functions.length == 1 && p.rules.length == 1 | _ => false) = true := by
  decide +kernel

/-- … and the illegal ones are syntax errors at the offending keyword: `return` in a rule,
    `break` in a rule, `continue` in a function outside a loop (a `break` in a match arm inside a
    loop body is legal), `return` in a match arm of a rule pattern -/
example : (match parseProgramSrc expectedRuleTable b!"{ print 1; return 2 }" with
    | .syntaxErr e => e.pos == 11 | _ => false) = true := by decide +kernel
example : (match parseProgramSrc expectedRuleTable b!"{ if (1) break }" with
    | .syntaxErr e => e.pos == 9 | _ => false) = true := by decide +kernel
example : (match parseProgramSrc expectedRuleTable b!"function f() { continue }" with
    | .syntaxErr e => e.pos == 15 | _ => false) = true := by decide +kernel
example : (match parseProgramSrc expectedRuleTable
      b!"{ while (1) { x = match (1) { 1 => { break } } } }" with
    | .ok _ => true | _ => false) = true := by decide +kernel
example : (match parseProgramSrc expectedRuleTable b!"match (1) { 1 => { return } } { }" with
    | .syntaxErr e => e.pos == 19 | _ => false) = true := by decide +kernel

/-- the checks themselves (src/parser.go `statement()`): with the `inFunction` flag clear, a
    `return` token makes `statement` fail at that token, whatever follows -/
theorem return_outside_function_fails (tbl : RuleTable) (n : Nat) (ps : PS)
    (h1 : ps.cur.tag = .return_) (h2 : ps.inFn = false) :
    Parser.statement tbl (n + 1) ps = .fail ⟨ps.cur.pos, "can only return inside a function"⟩ :=
  statement_return_outside tbl n ps h1 h2

/-- … and with the `inLoop` flag clear, so do `break` and `continue` -/
theorem break_outside_loop_fails (tbl : RuleTable) (n : Nat) (ps : PS) (h2 : ps.inLoop = false) :
    (ps.cur.tag = .break_ →
      Parser.statement tbl (n + 1) ps = .fail ⟨ps.cur.pos, "can only break inside a loop"⟩) ∧
    (ps.cur.tag = .continue_ →
      Parser.statement tbl (n + 1) ps = .fail ⟨ps.cur.pos, "can only continue inside a loop"⟩) :=
  ⟨fun h1 => statement_break_outside tbl n ps h1 h2,
   fun h1 => statement_continue_outside tbl n ps h1 h2⟩

example : (⟨⟨.return_, 7, []⟩, Token.zero, false, false, false⟩ : PS).cur.tag = .return_ ∧
    (⟨⟨.return_, 7, []⟩, Token.zero, false, false, false⟩ : PS).inFn = false := ⟨rfl, rfl⟩
example : (⟨⟨.break_, 7, []⟩, Token.zero, false, true, false⟩ : PS).cur.tag = .break_ ∧
    (⟨⟨.continue_, 7, []⟩, Token.zero, false, true, false⟩ : PS).cur.tag = .continue_ ∧
    (⟨⟨.break_, 7, []⟩, Token.zero, false, true, false⟩ : PS).inLoop = false := ⟨rfl, rfl, rfl⟩

/-! ### assignment targets -/

/-- what `assignable` accepts: a variable, a member expression or an index expression -/
theorem assignable_iff (e : Expr) : Parser.assignable e = true ↔
    (∃ t, e = .ident t) ∨ (∃ l r op, e = .binary l r op ∧ (op.tag = .dot ∨ op.tag = .lsquare)) := by
  cases e with
  | binary l r op =>
    simp only [Parser.assignable, Bool.or_eq_true, beq_iff_eq, reduceCtorEq, exists_const, false_or]
    exact ⟨fun h => ⟨l, r, op, rfl, h⟩, fun ⟨_, _, _, he, h⟩ => by cases he; exact h⟩
  | _ => simp [Parser.assignable]

/-- **Assignment to a non-assignable target is a syntax error**: no node anywhere in a program
    that parses (with the rule table of src/parser.go) is an assignment whose left side is not
    a variable / member / index expression; no compound-assignment operator survives parsing
    (`a op= b` is rewritten to `a = a op b`, so the same check covers them); and no `++` / `--`
    node, prefix or postfix, has a non-assignable operand. -/
theorem assignment_target_checked (src : Bytes) (p : Program)
    (h : parseProgramSrc expectedRuleTable src = .ok p) :
    ∀ e ∈ p.subExprs,
      (∀ l r op, e = .binary l r op →
        (op.tag = .equal → Parser.assignable l = true) ∧ Parser.isCompound op.tag = false) ∧
      (∀ x op post, e = .unary x op post →
        op.tag = .plusPlus ∨ op.tag = .minusMinus → Parser.assignable x = true) := by
  intro e he
  have hok := Program.nodeOK_of_wfB p (parse_wf src p h) e he
  constructor
  · rintro l r op rfl
    simp only [Expr.nodeOK, Bool.and_eq_true, Bool.or_eq_true, bne_iff_ne, ne_eq,
      Bool.not_eq_true'] at hok
    refine ⟨fun heq => ?_, hok.1.1.2⟩
    rcases hok.1.1.1 with h1 | h1
    · exact absurd heq h1
    · exact h1
  · rintro x op post rfl hop
    simp only [Expr.nodeOK, Bool.or_eq_true, Bool.not_eq_true'] at hok
    rcases hok with h1 | h1
    · rcases hop with hop | hop <;> simp [hop] at h1
    · exact h1

/-- non-vacuity: assignments of all kinds to all kinds of legal targets parse, and the tree
    contains the rewritten nodes -/
example : (match parseProgramSrc expectedRuleTable b!"{ a = 1; a.b += 2; a[0]++; --a }" with
    | .ok p => (p.subExprs.filter (fun e => match e with
        | .binary _ _ op => op.tag == .equal | .unary _ _ _ => true | _ => false)).length == 4
    | _ => false) = true := by decide +kernel

/-- … and each illegal target is a syntax error -/
example : (match parseProgramSrc expectedRuleTable b!"{ 1 = 2 }" with
    | .syntaxErr _ => true | _ => false) = true := by decide +kernel
example : (match parseProgramSrc expectedRuleTable b!"{ f() += 2 }" with
    | .syntaxErr _ => true | _ => false) = true := by decide +kernel
example : (match parseProgramSrc expectedRuleTable b!"{ (a + b)++ }" with
    | .syntaxErr _ => true | _ => false) = true := by decide +kernel
example : (match parseProgramSrc expectedRuleTable b!"{ --1 }" with
    | .syntaxErr _ => true | _ => false) = true := by decide +kernel

/-- the check itself (src/parser.go `assign()`): a non-assignable left side makes the infix
    parser fail at the left side's token before consuming the operator -/
theorem assignment_target_fails (tbl : RuleTable) (n : Nat) (left : Expr) (ps : PS)
    (h : Parser.assignable left = false) :
    Parser.infixFn tbl (n + 1) .assign left ps = .fail ⟨left.token.pos, "invalid assignment"⟩ :=
  infixFn_assign_invalid tbl n left ps h

example : Parser.assignable (.lit ⟨.num, 2, b!"1"⟩) = false := rfl

/-- all node-shape facts at once (`Expr.nodeOK`, Model/WF.lean), for every node of a parsed
    program: literal tokens in literal nodes, assignable targets, a type name right of `is`, a
    field name right of `.` -/
theorem parsed_nodes_ok (src : Bytes) (p : Program)
    (h : parseProgramSrc expectedRuleTable src = .ok p) : ∀ e ∈ p.subExprs, e.nodeOK = true :=
  Program.nodeOK_of_wfB p (parse_wf src p h)

/-- **Runtime faults are never swallowed, at the level of the whole run.**  For every program,
    selector list and input: if the run ends successfully (or with a JSON input error) then no
    runtime fault was ever raised during it — in a rule, a pattern, a function, a match body or a
    selector —; if it ends in a runtime error then exactly one fault was raised and NOTHING was
    printed after it (the output at the end is the output at the moment of the fault). -/
theorem run_fault_discipline (prog : Program) (src : Bytes) (tbl : RuleTable) (sels : List Bytes)
    (files : List InputFile) (st : St)
    (hst : (runProgram prog src tbl sels files).st = some st) :
    match (runProgram prog src tbl sels files).outcome with
    | .ok => st.faults = 0
    | .jsonErr _ => st.faults = 0
    | .runtimeErr _ _ _ => st.faults = 1 ∧ st.faultOut = st.out.length
    | _ => True := by
  have h := (runProgram_good prog src tbl sels files st hst).2
  have s0f : (newEvaluator prog Heap.empty [] 0).faults = 0 := rfl
  revert h
  cases (runProgram prog src tbl sels files).outcome <;> simp [faultsOK, s0f]

/-- non-vacuity of `run_fault_discipline`: a run that prints, then divides by zero — it has a final
    state, ends in a runtime error, one fault, and the output is what was printed before it -/
example : (match parseProgramSrc expectedRuleTable b!"BEGIN { print 1; print 2 / 0; print 3 }" with
    | .ok p =>
      let r := runProgram p b!"BEGIN { print 1; print 2 / 0; print 3 }" expectedRuleTable [] []
      (match r.st, r.outcome with
       | some st, .runtimeErr _ _ _ => st.faults == 1 && r.out == b!"1\n"
       | _, _ => false)
    | _ => false) = true := by decide +kernel
/-- … and one that ends successfully with a final state -/
example : (match parseProgramSrc expectedRuleTable b!"BEGIN { print 1 }" with
    | .ok p =>
      let r := runProgram p b!"BEGIN { print 1 }" expectedRuleTable [] []
      (match r.st, r.outcome with
       | some st, .ok => st.faults == 0 && r.out == b!"1\n"
       | _, _ => false)
    | _ => false) = true := by decide +kernel

end Jqawk.C11
