/-
  C16 — string, number and object methods and num()/json() honour their documented contract.
-/
import Jqawk.Lemmas.Split
import Jqawk.Lemmas.Natives
import Jqawk.Lemmas.Round

namespace Jqawk.C16
open Jqawk

/-! ### 1. split with a non-empty separator -/

/-- joining the pieces with the separator gives the string back -/
theorem split_join (s sep : Bytes) (hsep : sep ≠ []) : joinSep sep (splitOn s sep) = s := by
  have := joinSep_splitOnAux sep hsep (s.length + 1) s [] (Nat.lt_succ_self _)
  simpa [splitOn] using this

/-- no piece contains the separator -/
theorem split_no_sep (s sep : Bytes) (hsep : sep ≠ []) : ∀ p ∈ splitOn s sep, ¬ sep <:+: p :=
  splitOnAux_no_sep sep hsep _ s [] (by simpa using NoOcc.nil sep s)

/-- there is always at least one piece (the empty string splits to `[""]`) -/
theorem splitOn_nonempty (s sep : Bytes) : splitOn s sep ≠ [] :=
  splitOnAux_ne_nil _ _ _ _

example : splitOn b!"a,b,,c," b!"," = [b!"a", b!"b", b!"", b!"c", b!""] ∧ splitOn b!"" b!"," = [b!""]
    ∧ splitOn b!"aaa" b!"aa" = [b!"", b!"a"] := by decide

/-! ### 2. split with the empty separator -/

/-- the pieces concatenate to the string -/
theorem explode_join (s : Bytes) : (explode s).flatten = s :=
  explodeAux_flatten _ s (Nat.le_refl _)

/-- every piece is one UTF-8 sequence or one invalid byte: 1 to 4 bytes -/
theorem explode_pieces (s : Bytes) : ∀ p ∈ explode s, 1 ≤ p.length ∧ p.length ≤ 4 :=
  explodeAux_pieces _ s

/-- `utf8.DecodeRuneInString` consumes 1 to 4 bytes of a non-empty string -/
theorem decode_width (b0 : UInt8) (rest : Bytes) :
    1 ≤ (utf8DecodeHead (b0 :: rest)).2 ∧ (utf8DecodeHead (b0 :: rest)).2 ≤ 4 :=
  utf8DecodeHead_width b0 rest

theorem goSplit_empty_sep (s : Bytes) : goSplit s [] = explode s := rfl

theorem goSplit_nonempty_sep (s sep : Bytes) (h : sep ≠ []) : goSplit s sep = splitOn s sep := by
  cases sep with
  | nil => exact absurd rfl h
  | cons c cs => rfl

example : explode b!"aé€😀" = [b!"a", b!"é", b!"€", b!"😀"] ∧ explode [0x61, 0xFF, 0xC3] = [[0x61], [0xFF], [0xC3]] := by
  decide +kernel

/-! ### 3. length -/

/-- string length counts bytes; nothing changes; arguments are ignored -/
theorem length_bytes (s : Bytes) (sp : Option SpecRef) (args : List Val) (st : St) :
    callNative .strLength args (some (.str s sp)) st = .ok (.ok (some (.num (F64.ofNat s.length)))) st := by
  simp [callNative, bind, EM.bind, getHeap, pure, EM.pure]

/-- object length counts keys; nothing changes -/
theorem length_keys (o : ObjId) (args : List Val) (st : St) :
    callNative .objLength args (some (.obj o)) st
      = .ok (.ok (some (.num (F64.ofNat (st.heap.obj o).length)))) st := by
  simp [callNative, bind, EM.bind, getHeap, pure, EM.pure]

/-! ### 4. pluck -/

/-- the pairs `pluck` collects: one per requested key, in order, with the value of the *own*
    member (`objLookup members` — never a prototype method) or null; a key that is neither a
    string nor a number is an error -/
theorem pluck_spec (h : Heap) (members : List (Bytes × CellId)) (args : List Val) :
    pluckCollect h members args [] =
      if args.all isKeyVal then
        .ok (args.map fun k => (k.str!, match objLookup members k.str! with
                                         | some c => h.get c
                                         | none => .nil none))
      else .error "objects can only be indexed with numbers or strings" := by
  rw [pluckCollect_eq]; rfl

/-- `o.pluck(k1, …)` returns a NEW object (its id is the old number of objects) and leaves every
    existing object — the receiver included —, every array and every existing cell unchanged -/
theorem pluck_new_object (o : ObjId) (args : List Val) (s s' : St) (r : Option Val)
    (h : callNative .objPluck args (some (.obj o)) s = .ok (.ok r) s') :
    r = some (.obj s.heap.objs.size) ∧
    (∀ o', o' < s.heap.objs.size → s'.heap.obj o' = s.heap.obj o') ∧
    s'.heap.arrs = s.heap.arrs ∧
    (∀ c, c < s.heap.cells.size → s'.heap.get c = s.heap.get c) ∧
    s' = { s with heap := s'.heap } := by
  rw [callNative_objPluck] at h
  split at h
  · cases h
  · rename_i kvs _
    injection h with h1 h2
    cases h1; subst h2
    refine ⟨rfl, ?_, rfl, ?_, rfl⟩
    · intro o' ho'
      simp [Heap.obj, Array.getD_eq_getD_getElem?, Array.getElem?_push, Nat.ne_of_lt ho']
    · intro c hc
      exact Heap.get_allocMany_old s.heap _ c hc

/-- non-vacuity of `pluck_new_object` / `pluck_members`: `{a: true}.pluck("a", "zz")` succeeds -/
example : ∃ r s', callNative .objPluck [.str b!"a" none, .str b!"zz" none] (some (.obj 0))
      { (default : St) with heap := ⟨#[.bool true], #[], #[[(b!"a", 0)]]⟩ } = .ok (.ok r) s' :=
  ⟨_, _, rfl⟩

/-- the new object holds exactly the requested keys, each with the original's own value (null
    when absent) -/
theorem pluck_members (o : ObjId) (args : List Val) (s s' : St) (r : Option Val)
    (h : callNative .objPluck args (some (.obj o)) s = .ok (.ok r) s') :
    (∀ k ∈ args, ∃ c, objLookup (s'.heap.obj s.heap.objs.size) k.str! = some c ∧
        s'.heap.get c = pluckVal s.heap (s.heap.obj o) k.str!) ∧
    (∀ key c, objLookup (s'.heap.obj s.heap.objs.size) key = some c → ∃ k ∈ args, k.str! = key) := by
  rw [callNative_objPluck, pluckCollect_eq] at h
  split at h
  · cases h
  · rename_i kvs hk
    split at hk
    · injection hk with hk
      simp only [List.reverse_nil, List.nil_append] at hk
      injection h with h1 h2
      subst h2
      obtain ⟨f, hf⟩ : ∃ f, f = fun key => pluckVal s.heap (s.heap.obj o) key := ⟨_, rfl⟩
      simp only [← hf] at hk ⊢
      have hkeys : kvs.map (·.1) = args.map (·.str!) := by rw [← hk]; simp
      have hvals : kvs.map (·.2) = args.map (fun k => f k.str!) := by rw [← hk]; simp [hf]
      have hlen : kvs.length = args.length := by rw [← hk]; simp
      -- the member list of the new object
      have hobj : ({ s.heap.allocMany (kvs.map (·.2)) with
            objs := s.heap.objs.push (pluckMembers ((kvs.map (·.1)).zip
              (List.range' s.heap.cells.size kvs.length)) []) } : Heap).obj s.heap.objs.size
          = pluckMembers ((kvs.map (·.1)).zip (List.range' s.heap.cells.size kvs.length)) [] := by
        simp [Heap.obj, Array.getD_eq_getD_getElem?]
      simp only [hobj]
      -- every (key, cell) pair inserted satisfies: cell holds f key, key was requested
      have hpairs : ∀ kc ∈ (kvs.map (·.1)).zip (List.range' s.heap.cells.size kvs.length),
          (s.heap.allocMany (kvs.map (·.2))).get kc.2 = f kc.1 ∧ ∃ k ∈ args, k.str! = kc.1 := by
        intro kc hkc
        obtain ⟨i, hi, rfl⟩ := List.mem_iff_getElem.mp hkc
        simp only [List.length_zip, List.length_map, List.length_range', Nat.min_self] at hi
        simp only [List.getElem_zip, List.getElem_range', Nat.one_mul]
        constructor
        · rw [Heap.get_allocMany_new _ _ i (by simpa using hi)]
          simp only [hvals, hkeys, List.getElem_map]
        · refine ⟨args[i]'(hlen ▸ hi), List.getElem_mem _, ?_⟩
          simp only [hkeys, List.getElem_map]
      constructor
      · intro k hkm
        have hsome := objLookup_pluckMembers_isSome
          ((kvs.map (·.1)).zip (List.range' s.heap.cells.size kvs.length)) [] k.str! (.inl (by
            obtain ⟨i, hi, rfl⟩ := List.mem_iff_getElem.mp hkm
            refine ⟨s.heap.cells.size + i, ?_⟩
            apply List.mem_iff_getElem.mpr
            refine ⟨i, by simpa [hlen] using hi, ?_⟩
            simp [hkeys]))
        obtain ⟨c, hc⟩ := Option.isSome_iff_exists.mp hsome
        refine ⟨c, hc, ?_⟩
        exact objLookup_pluckMembers_inv (fun key c => (s.heap.allocMany (kvs.map (·.2))).get c = f key)
          _ [] (by simp [objLookup]) (fun kc hkc => (hpairs kc hkc).1) _ _ hc
      · intro key c hc
        exact objLookup_pluckMembers_inv (fun key _ => ∃ k ∈ args, k.str! = key)
          _ [] (by simp [objLookup]) (fun kc hkc => (hpairs kc hkc).2) _ _ hc
    · cases hk

/-- a key of another kind is an error and nothing changes (a receiver of another kind:
    `wrong_kind_neutral`) -/
theorem pluck_bad_key (o : ObjId) (args : List Val) (s : St) (h : args.all isKeyVal = false) :
    ∃ m, callNative .objPluck args (some (.obj o)) s = .ok (.error m) s := by
  rw [callNative_objPluck, pluckCollect_eq]
  simp [h]

/-- non-vacuity of `pluck_bad_key`: a boolean key -/
example : [Val.str b!"a" none, .bool true].all isKeyVal = false := by decide

example : (pluckCollect ⟨#[.bool true], #[], #[]⟩ [(b!"a", 0)] [.str b!"a" none, .str b!"length" none, .num F64.one] []).toOption
    = some [(b!"a", .bool true), (b!"length", .nil none), (b!"1", .nil none)] := by decide +kernel

/-! ### 5. upper / lower -/

/-- ASCII case mapping: same length, bytes outside `a–z` unchanged, `a–z` shifted by 32, and
    lower∘upper = lower (no hypothesis on `s` is needed for these) -/
theorem upper_lower_ascii (s : Bytes) :
    (upperAscii s).length = s.length ∧ (lowerAscii s).length = s.length ∧
    (∀ (i : Nat) (c : UInt8), s[i]? = some c →
      (upperAscii s)[i]? = some (if 97 ≤ c ∧ c ≤ 122 then c - 32 else c)) ∧
    (∀ (i : Nat) (c : UInt8), s[i]? = some c →
      (lowerAscii s)[i]? = some (if 65 ≤ c ∧ c ≤ 90 then c + 32 else c)) ∧
    lowerAscii (upperAscii s) = lowerAscii s := by
  refine ⟨by simp [upperAscii], by simp [lowerAscii], ?_, ?_, ?_⟩
  · intro i c h; simp [upperAscii, h]
  · intro i c h; simp [lowerAscii, h]
  · simp only [upperAscii, lowerAscii, List.map_map]
    apply List.map_congr_left
    intro c _
    exact lower_upper_byte c

/-- on ASCII text `upper` / `lower` return the mapped copy and change nothing -/
theorem upper_lower_call (s : Bytes) (sp : Option SpecRef) (args : List Val) (st : St)
    (h : isAsciiBytes s = true) :
    callNative .strUpper args (some (.str s sp)) st = .ok (.ok (some (.str (upperAscii s) none))) st ∧
    callNative .strLower args (some (.str s sp)) st = .ok (.ok (some (.str (lowerAscii s) none))) st := by
  constructor <;> simp [callNative, bind, EM.bind, getHeap, pure, EM.pure, h]

/-- on non-ASCII text the model declines (Go's Unicode case tables are not modelled) -/
theorem upper_lower_nonascii (s : Bytes) (sp : Option SpecRef) (args : List Val) (st : St)
    (h : isAsciiBytes s = false) :
    (∃ why, callNative .strUpper args (some (.str s sp)) st = .err (.unmodelled why) st) ∧
    (∃ why, callNative .strLower args (some (.str s sp)) st = .err (.unmodelled why) st) := by
  constructor <;> simp [callNative, bind, EM.bind, getHeap, h, throwUnmodelled]

example : upperAscii b!"aZ-09{z" = b!"AZ-09{Z" ∧ isAsciiBytes b!"aZ-09{z" = true
    ∧ isAsciiBytes b!"é" = false := by decide

/-! ### 6. num() -/

/-- `num(s)` is the parsed double for a numeric string and null otherwise; `num(x)` truncates a
    number through Go's `int`; any other kind gives null; another argument count is an error;
    the state never changes -/
theorem num_spec (args : List Val) (this : Option Val) (st : St) :
    callNative .num args this st =
      .ok (match args with
        | [.str s _] => (match F64.parse s with
                         | some x => .ok (some (.num x))
                         | none => .ok (some (.nil none)))
        | [.num x] => .ok (some (.num (F64.ofInt x.toGoInt)))
        | [_] => .ok (some (.nil none))
        | _ => .error "expected n argument(s)") st := by
  simp only [callNative, bind, EM.bind, getHeap, checkArgCount]
  match args with
  | [] => rfl
  | [v] =>
    cases v <;> simp [pure, EM.pure]
    split <;> simp_all [EM.pure]
  | _ :: _ :: _ => simp [pure, EM.pure]

/-- `num(s)` returns a number iff `s` parses -/
theorem num_string_iff (s : Bytes) (sp : Option SpecRef) (this : Option Val) (st : St) (x : F64) :
    callNative .num [.str s sp] this st = .ok (.ok (some (.num x))) st ↔ F64.parse s = some x := by
  rw [num_spec]
  cases hp : F64.parse s <;> simp [hp]

example : F64.parse b!"0.1" = some ⟨0x3FB999999999999A⟩ ∧ F64.parse b!"abc" = none := by decide +kernel

/-! ### 7. never a crash -/

/-- the outcome of a native is a returned value/error, or one of the two declared exceptions:
    out of fuel (only the renderers of printf/json) and "unmodelled" (only lower/upper) -/
def NativeTotal (f : Native) : Res NativeRes → Prop
  | .ok _ _ => True
  | .oof => f = .printf ∨ f = .json
  | .err (.unmodelled _) _ => f = .strLower ∨ f = .strUpper
  | .err _ _ => False

/-- every native on every receiver (also none / wrong kind) and every argument list returns a
    value or an error value — never a panic, signal or raised runtime error — EXCEPT the two
    outcomes `NativeTotal` allows: "out of fuel" for `printf` / `json` (for `printf` excluded by
    `C18.printf_oof_only_from_render` with `C17.pretty_terminates`; not excluded here for `json`)
    and the model's "unmodelled" for `lower` / `upper` (non-ASCII text, `upper_lower_nonascii`) -/
theorem wrong_kind_total (f : Native) (args : List Val) (this : Option Val) (s : St) :
    NativeTotal f (callNative f args this s) := by
  by_cases h1 : f = .printf
  · subst h1
    rcases callNative_printf_cases args this s with h | ⟨r, s', h⟩ <;> rw [h] <;> simp [NativeTotal]
  by_cases h2 : f = .json
  · subst h2
    rcases callNative_json_cases args this s with h | ⟨r, s', h⟩ <;> rw [h] <;> simp [NativeTotal]
  by_cases h3 : f = .strLower ∨ f = .strUpper
  · rcases callNative_case_cases f h3 args this s with ⟨w, h⟩ | ⟨r, h⟩ <;> rw [h] <;> simp [NativeTotal, h3]
  · obtain ⟨r, s', h⟩ := native_returns f args this s ⟨h1, h2, fun e => h3 (.inl e), fun e => h3 (.inr e)⟩
    rw [h]; simp [NativeTotal]

/-- in particular: no panic, no control-flow signal, no raised runtime error -/
theorem never_crash (f : Native) (args : List Val) (this : Option Val) (s s' : St) (e : Err)
    (h : callNative f args this s = .err e s') : ∃ why, e = .unmodelled why := by
  have := wrong_kind_total f args this s
  rw [h] at this
  cases e <;> simp [NativeTotal] at this
  exact ⟨_, rfl⟩

/-- non-vacuity of `never_crash`: the one raised outcome there is, `upper` on non-ASCII text -/
example : ∃ e s', callNative .strUpper [] (some (.str b!"é" none)) default = .err e s' :=
  ⟨_, _, (upper_lower_nonascii b!"é" none [] default (by decide)).1.choose_spec⟩

/-- a method on a receiver of another kind (or none) returns its documented neutral value -/
theorem wrong_kind_neutral (args : List Val) (this : Option Val) (s : St) :
    (this.map Val.kind ≠ some .arr → callNative .arrLength args this s = .ok (.ok (some (.num F64.zero))) s ∧
      callNative .arrPush args this s = .ok (.ok none) s ∧ callNative .arrPop args this s = .ok (.ok none) s ∧
      callNative .arrPopfirst args this s = .ok (.ok none) s ∧
      callNative .arrContains args this s = .ok (.ok none) s ∧ callNative .arrSort args this s = .ok (.ok none) s) ∧
    (this.map Val.kind ≠ some .obj → callNative .objLength args this s = .ok (.ok (some (.num F64.zero))) s ∧
      callNative .objPluck args this s = .ok (.ok none) s) ∧
    (this.map Val.kind ≠ some .str → callNative .strLength args this s = .ok (.ok (some (.num F64.zero))) s ∧
      callNative .strLower args this s = .ok (.ok (some (.num F64.zero))) s ∧
      callNative .strUpper args this s = .ok (.ok (some (.num F64.zero))) s) ∧
    (this.map Val.kind ≠ some .num → callNative .numFloor args this s = .ok (.ok (some (.nil none))) s ∧
      callNative .numCeil args this s = .ok (.ok (some (.nil none))) s ∧
      callNative .numRound args this s = .ok (.ok (some (.nil none))) s) := by
  rcases this with _ | v
  · simp [callNative, bind, EM.bind, getHeap, pure, EM.pure]
  · cases v <;> simp [callNative, bind, EM.bind, getHeap, pure, EM.pure, Val.kind]

/-! ### 8. floor, ceil, round -/

/-- NaN, ±Inf and every value with a non-negative binary exponent (an integer) are fixed -/
theorem floor_ceil_round_fix (x : F64) (h : x.isNaN = true ∨ x.isInf = true ∨ x.exp ≥ 0) :
    x.floor = x ∧ x.ceil = x ∧ x.round = x := by
  have : (x.isNaN || x.isInf || decide (x.exp ≥ 0)) = true := by
    rcases h with h | h | h <;> simp [h]
  simp [F64.floor, F64.ceil, F64.round, F64.roundWith, this]

/-- non-vacuity of `floor_ceil_round_fix`: a NaN, +Inf, and 1e300 (binary exponent ≥ 0) -/
example : F64.isNaN ⟨0x7FF8000000000000⟩ = true ∧ F64.isInf ⟨0x7FF0000000000000⟩ = true
    ∧ F64.exp ⟨0x7E37E43C8800759C⟩ ≥ 0 := by decide

/-- otherwise |x| = mant / 2^(-exp) = i + r/d and the result is the correctly rounded double of
    the integer chosen: floor moves away from zero for negative non-integers, ceil for positive
    ones, round when the fraction is at least one half (half away from zero); the sign bit is kept
    (so `ceil(-0.5) = -0`) -/
theorem floor_ceil_round_frac (x : F64) (h1 : x.isNaN = false) (h2 : x.isInf = false) (h3 : x.exp < 0) :
    let d := 2 ^ (-x.exp).toNat
    let i := x.mant / d
    let r := x.mant % d
    x.floor = F64.ofRat x.signBit (if x.signBit ∧ r ≠ 0 then i + 1 else i) 1 0 ∧
    x.ceil = F64.ofRat x.signBit (if ¬ x.signBit ∧ r ≠ 0 then i + 1 else i) 1 0 ∧
    x.round = F64.ofRat x.signBit (if 2 * r ≥ d then i + 1 else i) 1 0 := by
  have : ¬ x.exp ≥ 0 := by omega
  simp [F64.floor, F64.ceil, F64.round, F64.roundWith, h1, h2, this]

/-- the same in terms of the exact rational value of `x`: with `sm / d` (`sm = ±mant`,
    `d = 2^(-exp)`) the value of `x`, and `/` on `Int` the floor division,
    floor(x) has magnitude |⌊sm/d⌋|, ceil(x) has magnitude |⌈sm/d⌉| = |⌊-sm/d⌋|, round(x) has
    magnitude ⌊|x| + 1/2⌋ — each rounded to a double by `ofRat` (exact below 2^53: `floor_ceil_round_spec`)
    and carrying the sign bit of `x`. -/
theorem floor_ceil_round_exact (x : F64) (h1 : x.isNaN = false) (h2 : x.isInf = false) (h3 : x.exp < 0) :
    let d : Nat := 2 ^ (-x.exp).toNat
    let sm : Int := if x.signBit then -(x.mant : Int) else x.mant
    x.floor = F64.ofRat x.signBit (sm / (d : Int)).natAbs 1 0 ∧
    x.ceil = F64.ofRat x.signBit ((-sm) / (d : Int)).natAbs 1 0 ∧
    x.round = F64.ofRat x.signBit ((2 * x.mant + d) / (2 * d)) 1 0 := by
  obtain ⟨hf, hc, hr⟩ := floor_ceil_round_frac x h1 h2 h3
  have hd : 0 < 2 ^ (-x.exp).toNat := Nat.two_pow_pos _
  simp only at hf hc hr ⊢
  generalize 2 ^ (-x.exp).toNat = d at *
  refine ⟨?_, ?_, ?_⟩
  · rw [hf]
    cases hs : x.signBit
    · simp only [Bool.false_eq_true, false_and, ↓reduceIte, natAbs_ediv]
    · simp only [↓reduceIte, natAbs_neg_ediv _ _ hd, true_and]
  · rw [hc]
    cases hs : x.signBit
    · simp only [Bool.false_eq_true, ↓reduceIte, natAbs_neg_ediv _ _ hd, not_false_eq_true, true_and]
    · simp only [not_true_eq_false, false_and, ↓reduceIte, Int.neg_neg, natAbs_ediv]
  · rw [hr, round_half_div _ _ hd]

/-- floor, ceil and round return the mathematical floor, ceiling and nearest integer (halves away
    from zero) of the exact value of `x`: for finite `x = sm / d` with a fractional binary
    exponent, the result is finite, keeps the sign bit of `x`, and its exact value
    mant · 2^exp (`F64.IsInt`) is the integer |⌊sm/d⌋|, |⌈sm/d⌉|, ⌊|sm|/d + 1/2⌋ respectively.
    (Together with `floor_ceil_round_fix` this covers every double.) -/
theorem floor_ceil_round_spec (x : F64) (h1 : x.isNaN = false) (h2 : x.isInf = false) (h3 : x.exp < 0) :
    let d : Nat := 2 ^ (-x.exp).toNat
    let sm : Int := if x.signBit then -(x.mant : Int) else x.mant
    (x.floor.signBit = x.signBit ∧ x.floor.IsInt (sm / (d : Int)).natAbs) ∧
    (x.ceil.signBit = x.signBit ∧ x.ceil.IsInt ((-sm) / (d : Int)).natAbs) ∧
    (x.round.signBit = x.signBit ∧ x.round.IsInt ((2 * x.mant + d) / (2 * d))) := by
  obtain ⟨hf, hc, hr⟩ := floor_ceil_round_frac x h1 h2 h3
  have hd : 2 ≤ 2 ^ (-x.exp).toNat := by
    have : 1 ≤ (-x.exp).toNat := by omega
    calc 2 = 2 ^ 1 := rfl
      _ ≤ 2 ^ (-x.exp).toNat := Nat.pow_le_pow_right (by decide) this
  have hb := div_pick_lt x.mant _ (F64.mant_lt x) hd
  simp only at hf hc hr ⊢
  generalize 2 ^ (-x.exp).toNat = d at *
  have hd0 : 0 < d := by omega
  rw [← floor_pick_eq _ _ _ hd0, ← ceil_pick_eq _ _ _ hd0, round_half_div _ _ hd0, hf, hc, hr]
  refine ⟨ofRat_nat_exact _ _ ?_, ofRat_nat_exact _ _ ?_, ofRat_nat_exact _ _ ?_⟩ <;> split <;> omega

/-- non-vacuity: 2.5 and -0.5 are finite with a fractional binary exponent -/
example : F64.isNaN ⟨0x4004000000000000⟩ = false ∧ F64.isInf ⟨0x4004000000000000⟩ = false
    ∧ F64.exp ⟨0x4004000000000000⟩ < 0 ∧ F64.exp ⟨0xBFE0000000000000⟩ < 0 := by decide

/-- instances: Go's `math.Round` rounds halves away from zero; floor/ceil of -0.5; a huge value -/
theorem floor_ceil_round_instances :
    F64.round ⟨0x4004000000000000⟩ = ⟨0x4008000000000000⟩ ∧      -- round(2.5) = 3
    F64.round ⟨0xC004000000000000⟩ = ⟨0xC008000000000000⟩ ∧      -- round(-2.5) = -3
    F64.round ⟨0x3FE0000000000000⟩ = ⟨0x3FF0000000000000⟩ ∧      -- round(0.5) = 1
    F64.round ⟨0xBFE0000000000000⟩ = ⟨0xBFF0000000000000⟩ ∧      -- round(-0.5) = -1
    F64.round ⟨0x3FDFFFFFFFFFFFFF⟩ = ⟨0⟩ ∧                       -- round(0.49999999999999994) = 0
    F64.round ⟨0x3FF8000000000000⟩ = ⟨0x4000000000000000⟩ ∧      -- round(1.5) = 2
    F64.floor ⟨0xBFE0000000000000⟩ = ⟨0xBFF0000000000000⟩ ∧      -- floor(-0.5) = -1
    F64.ceil ⟨0xBFE0000000000000⟩ = ⟨0x8000000000000000⟩ ∧       -- ceil(-0.5) = -0
    F64.floor ⟨0x3FE0000000000000⟩ = ⟨0⟩ ∧                       -- floor(0.5) = 0
    F64.ceil ⟨0x3FE0000000000000⟩ = ⟨0x3FF0000000000000⟩ ∧       -- ceil(0.5) = 1
    F64.floor ⟨0x7E37E43C8800759C⟩ = ⟨0x7E37E43C8800759C⟩ ∧      -- floor(1e300) = 1e300
    F64.round ⟨0x432FFFFFFFFFFFFF⟩ = ⟨0x4330000000000000⟩ ∧      -- round(2^52 - 0.5) = 2^52
    F64.floor ⟨0x8000000000000000⟩ = ⟨0x8000000000000000⟩ := by   -- floor(-0) = -0
  decide +kernel

/-- the methods return these functions on a number receiver, whatever the arguments -/
theorem floor_ceil_round_call (x : F64) (args : List Val) (st : St) :
    callNative .numFloor args (some (.num x)) st = .ok (.ok (some (.num x.floor))) st ∧
    callNative .numCeil args (some (.num x)) st = .ok (.ok (some (.num x.ceil))) st ∧
    callNative .numRound args (some (.num x)) st = .ok (.ok (some (.num x.round))) st := by
  simp [callNative, bind, EM.bind, getHeap, pure, EM.pure]

end Jqawk.C16
