/-
  C12 — reported error positions are consistent with, and point into, the program text.
  `getLineAndCol` (the byte-based model of `GetLineAndCol`, src/lexer.go:245-264) is characterised
  for EVERY offset; the positions the lexer attaches to errors and tokens lie inside the text it
  was given, and an "unexpected character" error sits exactly on the offending byte.
  Section 5 (provenance): every position a run can report — syntax, lexical and runtime errors,
  of the program or of a `-r` selector — is the offset of a token of the text it is reported
  with (or of the offending byte of a lexical error); every token stored in a parsed AST carries
  such an offset; with the exceptions exhibited there (EOF token, blank selector).
  Section 6 (added later): WHICH token each runtime fault blames — one theorem per place where
  the evaluator raises a runtime error, naming the blamed token of the AST node being evaluated
  (table: `blame_table`), and that this token belongs to the node (`blamed_token_in_node`).
-/
import Jqawk.Lemmas.Lexer
import Jqawk.Lemmas.ProvenanceDriver
import Jqawk.Lemmas.BlameSites

namespace Jqawk.C12
open Jqawk LineColLemmas

/-! ### 1. offset ↦ (line text, line, column) -/

/-- Every offset into a text decomposes as: complete lines `pre` (empty or ending in a newline),
    the newline-free part `cur` of the current line before the offset, and what follows. -/
theorem decompose (src : Bytes) (pos : Nat) (h : pos ≤ src.length) :
    ∃ pre cur after, src = pre ++ cur ++ after ∧ pos = pre.length + cur.length ∧
      (pre = [] ∨ pre.getLast? = some 10) ∧ (10 : UInt8) ∉ cur := by
  obtain ⟨pre, cur, hpc, hp, hc⟩ := split_last_line (src.take pos)
  refine ⟨pre, cur, src.drop pos, ?_, ?_, hp, hc⟩
  · rw [← hpc, List.take_append_drop]
  · have := congrArg List.length hpc
    simp at this; omega

/-- … and the decomposition is unique (so `getLineAndCol_spec` determines the result). -/
theorem decompose_unique (pre cur pre' cur' : Bytes)
    (hp : pre = [] ∨ pre.getLast? = some 10) (hc : (10 : UInt8) ∉ cur)
    (hp' : pre' = [] ∨ pre'.getLast? = some 10) (hc' : (10 : UInt8) ∉ cur')
    (h : pre ++ cur = pre' ++ cur') : pre = pre' ∧ cur = cur' := by
  -- the shorter `pre` is a prefix of the longer; the difference lies in a `cur` and ends in 10
  have key : ∀ (p c p' c' : Bytes), (p' = [] ∨ p'.getLast? = some 10) → (10 : UInt8) ∉ c →
      p ++ c = p' ++ c' → p.length ≤ p'.length → p = p' := by
    intro p c p' c' hq hc h hl
    obtain ⟨d, hd⟩ : ∃ d, p' = p ++ d := by
      refine ⟨p'.drop p.length, ?_⟩
      have h1 := congrArg (List.take p.length) h
      simp [List.take_append_of_le_length hl] at h1
      conv => lhs; rw [← List.take_append_drop p.length p']
      rw [← h1]
    subst hd
    rw [List.append_assoc] at h
    have hc2 : c = d ++ c' := List.append_cancel_left h
    cases d with
    | nil => simp
    | cons x xs =>
      exfalso
      rcases hq with hq | hq
      · simp at hq
      · have : (10 : UInt8) ∈ x :: xs := by
          have hne : (x :: xs) ≠ [] := by simp
          rw [List.getLast?_append, List.getLast?_eq_some_getLast hne, Option.some_or] at hq
          exact List.mem_of_getLast? (by rw [List.getLast?_eq_some_getLast hne]; exact hq)
        exact hc (hc2 ▸ List.mem_append_left _ this)
  rcases Nat.le_total pre.length pre'.length with hl | hl
  · have e := key pre cur pre' cur' hp' hc h hl
    subst e; exact ⟨rfl, List.append_cancel_left h⟩
  · have e := key pre' cur' pre cur hp hc' h.symm hl
    subst e; exact ⟨rfl, List.append_cancel_left h⟩

/-- C12, `GetLineAndCol`: for every offset within the text (written as in `decompose`; offsets
    beyond the end: `pos_beyond_end`), the line is 1 + the number of newlines before the
    offset, the column is the distance to the start of that line, and the quoted text is that
    whole line without its newline. -/
theorem getLineAndCol_spec (pre cur after : Bytes)
    (hp : pre = [] ∨ pre.getLast? = some 10) (hc : (10 : UInt8) ∉ cur) :
    getLineAndCol (pre ++ cur ++ after) (pre.length + cur.length)
      = ⟨cur ++ takeLine after, 1 + pre.count 10, cur.length⟩ := by
  unfold getLineAndCol
  rcases hp with rfl | hp
  · have := aux_skip_noNl cur hc (cur ++ after) after 1 0 0
    simp only [Nat.add_zero] at this
    simp only [List.nil_append, List.length_nil, Nat.zero_add, List.count_nil]
    rw [this, aux_zero, takeLine_append_of_not_mem _ _ hc]
    simp
  · rw [List.append_assoc, aux_skip_lines pre hp]
    have := aux_skip_noNl cur hc (cur ++ after) after (1 + pre.count 10) 0 0
    simp only [Nat.add_zero] at this
    rw [this, aux_zero, takeLine_append_of_not_mem _ _ hc]
    simp

example : getLineAndCol (b!"a\nb\n" ++ b!"cd" ++ b!"e\nf") 6 = ⟨b!"cde", 3, 2⟩ := by decide
example : (b!"a\nb\n").getLast? = some 10 ∧ (10 : UInt8) ∉ b!"cd" := by decide

/-! ### 2. the quoted line is line N of the text -/

/-- The text split at newlines (`strings.Split(src, "\n")`). -/
def splitLines : Bytes → List Bytes
  | [] => [[]]
  | c :: cs =>
    if c == 10 then [] :: splitLines cs
    else match splitLines cs with
      | l :: ls => (c :: l) :: ls
      | [] => [[c]]

example : splitLines b!"ab\n\ncd\n" = [b!"ab", b!"", b!"cd", b!""] := by decide

theorem splitLines_ne_nil (s : Bytes) : splitLines s ≠ [] := by
  cases s with
  | nil => simp [splitLines]
  | cons c cs =>
    simp only [splitLines]
    split
    · simp
    · split <;> simp

theorem splitLines_cons_nl (cs : Bytes) : splitLines (10 :: cs) = [] :: splitLines cs := by
  simp [splitLines]

theorem splitLines_cons_of_ne (c : UInt8) (cs : Bytes) (h : c ≠ 10) :
    ∃ l ls, splitLines cs = l :: ls ∧ splitLines (c :: cs) = (c :: l) :: ls := by
  cases heq : splitLines cs with
  | nil => exact absurd heq (splitLines_ne_nil cs)
  | cons l ls => exact ⟨l, ls, rfl, by simp [splitLines, h, heq]⟩

theorem splitLines_head (s : Bytes) : (splitLines s)[0]? = some (takeLine s) := by
  induction s with
  | nil => rfl
  | cons c cs ih =>
    simp only [splitLines, takeLine]
    split
    · rfl
    · split
      · rename_i l ls heq
        rw [heq] at ih; simp at ih; simp [ih]
      · rename_i heq; exact absurd heq (splitLines_ne_nil cs)

theorem splitLines_noNl (cur after : Bytes) (hc : (10 : UInt8) ∉ cur) :
    (splitLines (cur ++ after))[0]? = some (cur ++ takeLine after) := by
  rw [splitLines_head, takeLine_append_of_not_mem _ _ hc]

theorem splitLines_skip (pre : Bytes) (hp : pre.getLast? = some 10) (rest : Bytes) (i : Nat) :
    (splitLines (pre ++ rest))[pre.count 10 + i]? = (splitLines rest)[i]? := by
  induction pre with
  | nil => simp at hp
  | cons c cs ih =>
    by_cases h10 : c = 10
    · subst h10
      cases cs with
      | nil => simp [splitLines, Nat.add_comm 1 i]
      | cons d ds =>
        have := ih (by simpa [List.getLast?_cons_cons] using hp)
        simp only [List.cons_append, splitLines, beq_self_eq_true, ↓reduceIte, List.count_cons_self]
        rw [show List.count 10 (d :: ds) + 1 + i = (List.count 10 (d :: ds) + i) + 1 by omega,
          List.getElem?_cons_succ]
        exact this
    · cases cs with
      | nil => simp at hp; exact absurd hp h10
      | cons d ds =>
        have ih' := ih (by simpa [List.getLast?_cons_cons] using hp)
        have hcnt : 0 < List.count 10 (d :: ds) := by
          apply List.count_pos_iff.mpr
          exact List.mem_of_getLast? (by simpa [List.getLast?_cons_cons] using hp)
        have hcc : List.count 10 (c :: d :: ds) = List.count 10 (d :: ds) := by
          simp [List.count_cons, h10]
        rw [hcc]
        obtain ⟨l, ls, heq, heq'⟩ := splitLines_cons_of_ne c (d :: ds ++ rest) h10
        rw [List.cons_append (a := c), heq']
        rw [heq] at ih'
        obtain ⟨m, hm⟩ : ∃ m, List.count 10 (d :: ds) + i = m + 1 :=
          ⟨List.count 10 (d :: ds) + i - 1, by omega⟩
        rw [hm] at ih' ⊢
        simpa using ih'

/-- C12: the quoted source line is exactly line N of the program text, and the column lies
    within it (possibly at its end). -/
theorem srcLine_is_line_N (src : Bytes) (pos : Nat) (h : pos ≤ src.length) :
    (splitLines src)[(getLineAndCol src pos).line - 1]? = some (getLineAndCol src pos).srcLine ∧
    (getLineAndCol src pos).col ≤ (getLineAndCol src pos).srcLine.length := by
  obtain ⟨pre, cur, after, rfl, rfl, hp, hc⟩ := decompose src pos h
  rw [getLineAndCol_spec pre cur after hp hc]
  simp only [Nat.add_sub_cancel_left, List.length_append]
  refine ⟨?_, by omega⟩
  rcases hp with rfl | hp
  · simpa using splitLines_noNl cur after hc
  · have := splitLines_skip pre hp (cur ++ after) 0
    rw [List.append_assoc]
    simpa [splitLines_noNl cur after hc] using this

/-- the column is the offset minus the offset of the start of the line; the line start is
    either 0 or just after a newline -/
theorem col_is_distance (src : Bytes) (pos : Nat) (h : pos ≤ src.length) :
    let lc := getLineAndCol src pos
    lc.col ≤ pos ∧ (src.take (pos - lc.col)).count 10 + 1 = lc.line ∧
    (10 : UInt8) ∉ (src.drop (pos - lc.col)).take lc.col ∧
    (pos - lc.col = 0 ∨ src[pos - lc.col - 1]? = some 10) := by
  obtain ⟨pre, cur, after, rfl, rfl, hp, hc⟩ := decompose src pos h
  rw [getLineAndCol_spec pre cur after hp hc]
  simp only [Nat.add_sub_cancel]
  refine ⟨by omega, ?_, ?_, ?_⟩
  · rw [List.append_assoc, List.take_left]; omega
  · rw [List.append_assoc, List.drop_left, List.take_left]; exact hc
  · rcases hp with rfl | hp
    · simp
    · right
      have hne : pre ≠ [] := by rintro rfl; simp at hp
      have hl : 0 < pre.length := List.length_pos_iff.mpr hne
      rw [List.append_assoc, List.getElem?_append_left (by omega)]
      rw [List.getLast?_eq_getElem?] at hp
      exact hp

/-! ### 3. offsets beyond the end -/

/-- C12: an offset at or beyond the end of the text is treated as the end of the text. -/
theorem pos_beyond_end (src : Bytes) (pos : Nat) (h : src.length ≤ pos) :
    getLineAndCol src pos = getLineAndCol src src.length :=
  aux_beyond src src 1 0 pos h

example : getLineAndCol b!"ab\ncd" 100 = ⟨b!"cd", 2, 2⟩ := by decide

/-! ### 4. positions attached by the lexer -/

open Lexer in
/-- C12: the position of a lexical error lies inside the text the lexer was given (between the
    current offset and the end of the text, inclusive). -/
theorem next_error_in_text (s : LexState) (e : SynErr) (h : Lexer.next s = .error e) :
    s.pos ≤ e.pos ∧ e.pos ≤ s.pos + s.rest.length := by
  obtain ⟨ws, r, h1, _, h3⟩ := next_cases s
  rw [h3] at h
  cases r with
  | nil => cases h
  | cons c cs =>
    have hl : s.rest.length = ws.length + (cs.length + 1) := by rw [h1]; simp
    rcases (lexAt_res c cs _).error h with rfl | ⟨_, _, rfl⟩
    · dsimp only; omega
    · dsimp only; omega

example : Lexer.next ⟨b!"  \"abc", 10, 7⟩ = .error ⟨13, "unexpected EOF while reading string"⟩ := by
  rfl

open Lexer in
/-- C12: an "unexpected character" error sits exactly on the offending byte: that byte exists,
    only blanks, tabs, CRs and comments (`ws`, what `skipWs` skips) precede it, and it is the
    byte `skipWs` stops at. -/
theorem illegal_char_exact (s : LexState) (e : SynErr) (h : Lexer.next s = .error e)
    (hm : e.msg = "unexpected character") :
    ∃ ws c rest, s.rest = ws ++ c :: rest ∧ e.pos = s.pos + ws.length ∧
      Lexer.skipWs (s.rest.length + 1) s.rest s.pos = (c :: rest, e.pos) := by
  obtain ⟨ws, r, h1, h2, h3⟩ := next_cases s
  rw [h3] at h
  cases r with
  | nil => cases h
  | cons c cs =>
    rcases (lexAt_res c cs _).error h with rfl | ⟨_, _, rfl⟩
    · exact ⟨ws, c, cs, h1, rfl, h2⟩
    · simp at hm

open Lexer in
/-- C12: … and the offending byte is one that cannot start a token: it is not a newline, `$`,
    a digit, a letter, `_`, an operator or bracket byte, or a quote (`canStartToken`), nor `&`
    or `|`; or it is an `&` / `|` that is not doubled.  (A partial converse is
    `illegal_char_rejected`.) -/
theorem illegal_char_byte (s : LexState) (e : SynErr) (h : Lexer.next s = .error e)
    (hm : e.msg = "unexpected character") :
    ∃ ws c rest, s.rest = ws ++ c :: rest ∧ e.pos = s.pos + ws.length ∧
      ((canStartToken c = false ∧ c ≠ 38 ∧ c ≠ 124) ∨ (c = 38 ∧ rest.head? ≠ some 38) ∨
       (c = 124 ∧ rest.head? ≠ some 124)) := by
  obtain ⟨ws, r, h1, h2, h3⟩ := next_cases s
  rw [h3] at h
  cases r with
  | nil => cases h
  | cons c cs =>
    refine ⟨ws, c, cs, h1, ?_, lexAt_unexpected c cs _ e h hm⟩
    rcases (lexAt_res c cs _).error h with rfl | ⟨_, _, rfl⟩
    · rfl
    · simp at hm

open Lexer in
/-- Partial converse of `illegal_char_byte`: a byte that cannot start a token and is none of
    `&`, `|`, `#`, blank, tab, CR is rejected with "unexpected character" at exactly its offset,
    when only blanks, tabs and CRs precede it.  (Not covered: a comment before it; a lone `&` or
    `|`.) -/
theorem illegal_char_rejected (ws rest : Bytes) (c : UInt8) (p ts : Nat)
    (hws : ∀ b ∈ ws, b = 32 ∨ b = 9 ∨ b = 13)
    (hc : canStartToken c = false) (h38 : c ≠ 38) (h124 : c ≠ 124) (h35 : c ≠ 35)
    (hbl : c ≠ 32 ∧ c ≠ 9 ∧ c ≠ 13) :
    Lexer.next ⟨ws ++ c :: rest, p, ts⟩ = .error ⟨p + ws.length, "unexpected character"⟩ := by
  have hb : ∀ b ∈ ws, isBlankB b = true := by
    intro b hb; rcases hws b hb with rfl | rfl | rfl <;> rfl
  rw [next_eq]; dsimp only
  have : (ws ++ c :: rest).length + 1 = ws.length + ((c :: rest).length + 1) := by simp; omega
  rw [this, skipWs_blanks ws hb, skipWs_succ_cons]
  have hcb : isBlankB c = false := by simp [isBlankB, hbl.1, hbl.2.1, hbl.2.2]
  have hc35 : (c == 35) = false := by simpa using h35
  simp only [hcb, hc35, Bool.false_eq_true, ↓reduceIte]
  exact lexAt_of_cannotStart c rest _ hc h38 h124

example : Lexer.canStartToken 64 = false ∧ Lexer.canStartToken 96 = false ∧
    Lexer.canStartToken 92 = false := by decide
/-- non-vacuity of the hypotheses of `illegal_char_rejected`: `@` behind a blank and a tab -/
example : Lexer.next ⟨b!" \t" ++ 64 :: b!" b", 5, 1⟩ = .error ⟨7, "unexpected character"⟩ :=
  illegal_char_rejected b!" \t" b!" b" 64 5 1 (by decide) (by decide) (by decide) (by decide)
    (by decide) (by decide)

example : Lexer.next ⟨b!" \t# c\n", 0, 0⟩ = .ok (⟨.newline, 5, []⟩, ⟨[], 6, 5⟩) := by rfl
example : Lexer.next ⟨b!"\n  @ b", 1, 0⟩ = .ok (⟨.newline, 1, []⟩, ⟨b!"  @ b", 2, 1⟩) := by rfl
example : Lexer.next ⟨b!"  @ b", 2, 1⟩ = .error ⟨4, "unexpected character"⟩ := by rfl

open Lexer in
/-- C12: token positions.  The successor state lies inside the text, `rest` stays "the text from
    `pos` on", and a non-EOF token starts at or after the old offset and before the new one.
    (The EOF token carries Go's stale `tokenStart`, which may lie before `s.pos`.) -/
theorem next_token_pos (s : LexState) (t : Token) (s' : LexState) (h : Lexer.next s = .ok (t, s')) :
    s.pos ≤ s'.pos ∧ s'.pos ≤ s.pos + s.rest.length ∧ s'.rest = s.rest.drop (s'.pos - s.pos) ∧
    (t.tag ≠ .eof → s.pos ≤ t.pos ∧ t.pos ≤ s'.pos) := by
  obtain ⟨ws, r, h1, _, h3⟩ := next_cases s
  rw [h3] at h
  cases r with
  | nil =>
    cases h
    simp only [List.append_nil] at h1
    refine ⟨by simp, by simp [h1], ?_, fun hne => absurd rfl hne⟩
    simp [h1]
  | cons c cs =>
    obtain ⟨tok, _, h4, h5, h6, h7⟩ := (lexAt_res c cs _).consumed h
    have hl : s.rest.length = ws.length + (tok.length + s'.rest.length) := by
      rw [h1, h4]; simp
    refine ⟨by omega, by omega, ?_, fun _ => ⟨by omega, h7⟩⟩
    rw [h1, h4, h5, ← List.append_assoc]
    have : s.pos + ws.length + tok.length - s.pos = (ws ++ tok).length := by simp; omega
    rw [this, List.drop_left]

example : Lexer.next ⟨b!"  foo(1)", 3, 0⟩ = .ok (⟨.ident, 5, b!"foo"⟩, ⟨b!"(1)", 8, 5⟩) := by rfl

/-- the EOF token's position is the stale `tokenStart`: after `1 ` it is 0, not 2 -/
example : Lexer.next ⟨b!" ", 1, 0⟩ = .ok (⟨.eof, 0, []⟩, ⟨[], 2, 0⟩) := by rfl

/-- C12: the lexer state invariant "`rest` is the source from `pos` on" is preserved. -/
theorem next_preserves_invariant (src : Bytes) (s : LexState) (t : Token) (s' : LexState)
    (h : Lexer.next s = .ok (t, s')) (hinv : s.rest = src.drop s.pos) :
    s'.rest = src.drop s'.pos := by
  obtain ⟨h1, _, h3, _⟩ := next_token_pos s t s' h
  rw [h3, hinv, List.drop_drop]
  congr 1; omega

example : (LexState.init b!"ab").rest = (b!"ab").drop (LexState.init b!"ab").pos := rfl
/-- non-vacuity of both hypotheses together: a second step, from a state satisfying the invariant -/
example : Lexer.next ⟨b!" += 1 }", 3, 2⟩ = .ok (⟨.plusEqual, 4, []⟩, ⟨b!" 1 }", 6, 4⟩) ∧
    b!" += 1 }" = (b!"{ x += 1 }").drop 3 := ⟨by rfl, by decide⟩

/-! ### 5. provenance: every reported position is the offset of a token of the text

  Sections 1–4 say what line, column and quoted line belong to an offset, and that the lexer's
  own errors and tokens carry the offset where they start.  This section settles where the
  offsets of ALL reported errors come from: syntax errors raised by the parser, lexical errors
  passed on by it, and runtime errors raised by the evaluator (in rule patterns and bodies, in
  function bodies, in match arms, and in `-r` selector expressions).

  `Prov.Lexed Rq src last s` are the lexer states reachable from the start of `src` by the two
  requests the parser makes (`Next()`; `Regex()` when the tag of the last token satisfies `Rq`);
  `Prov.IsTokenOf Rq src t` says that the lexer produced `t` in such a state.  For the parser of
  src/parser.go `Rq = Prov.AfterSlash` (the rule table asks for `Regex()` only when the current
  token is `/`, `tblRq_expected`); for an arbitrary table `Rq = fun _ => True`.
  (`IsTokenOf` covers both readings of a `/` — division operator, or opening slash of a regex
  literal when a closing slash follows — since which one the parser takes depends on the parse;
  either way the token is written in the text where it says, `token_spelled`.) -/

open Prov

/-- `t` is a token of the text `src` (the lexer driven as the parser of the real rule table
    drives it) -/
abbrev IsToken (src : Bytes) (t : Token) : Prop := IsTokenOf AfterSlash src t

/-- `p` is the offset carried by a token of the text `src` -/
abbrev IsTokenStart (src : Bytes) (p : Nat) : Prop := TokenStart AfterSlash src p

/-- `e` is a lexical error of the text `src` -/
abbrev IsLexErr (src : Bytes) (e : SynErr) : Prop := IsLexErrOf AfterSlash src e

/-- C12, tokens: **every token of a text other than EOF is written in the text at the offset it
    carries**: keywords and operators by their spelling, identifiers and numbers by their text,
    a string between two equal quotes (the offset is that of the first byte after the opening
    quote), a regex literal between two slashes (likewise).  For the EOF token `SpelledIn` is
    `True` (nothing is claimed here; its offset is settled by `eof_token_pos`). -/
theorem token_spelled (src : Bytes) (t : Token) (h : IsToken src t) : SpelledIn src t :=
  h.spelled

/-- … so a token other than EOF starts strictly inside the text. -/
theorem token_pos_in_text (src : Bytes) (t : Token) (h : IsToken src t) (hne : t.tag ≠ .eof) :
    t.pos < src.length :=
  h.spelled.pos_lt hne

example : IsToken b!"  foo(1)" ⟨.ident, 2, b!"foo"⟩ :=
  ⟨_, _, _, .init, .inl (by rfl)⟩
example : SpelledIn b!"x ~ /a+/" ⟨.regex, 5, b!"a+"⟩ := by
  show 1 ≤ 5 ∧ (b!"x ~ /a+/")[5 - 1]? = some 47 ∧ (47 : UInt8) ∉ b!"a+" ∧
    ∃ rest, (b!"x ~ /a+/").drop 5 = b!"a+" ++ 47 :: rest
  exact ⟨by decide, by decide, by decide, [], by decide⟩
/-- a regex literal is a token of the text: `Next()` three times, then `Regex()` after the `/` -/
example : IsToken b!"x ~ /a+/" ⟨.regex, 5, b!"a+"⟩ :=
  ⟨⟨.divide, 4, []⟩, ⟨b!"a+/", 5, 4⟩, _,
    .next (.next (.next .init (t := ⟨.ident, 0, b!"x"⟩) (s' := ⟨b!" ~ /a+/", 1, 0⟩) (by rfl))
      (t := ⟨.tilde, 2, []⟩) (s' := ⟨b!" /a+/", 3, 2⟩) (by rfl)) (by rfl),
    .inr ⟨rfl, by rfl⟩⟩

/-- C12, FINDING (the EOF token is not where the text ends): the EOF token carries the offset
    of the token produced before it — newline tokens included — because Go's `tokenStart` field
    is not advanced at the end of the text; or 0 when the text holds no token at all.  So
    "unexpected token EOF" and "expected …" errors at the end of the input point at the START of
    the last token (or at the last line feed), not behind it. -/
theorem eof_token_pos (src : Bytes) (t : Token) (h : IsToken src t) (he : t.tag = .eof) :
    (∃ t', IsToken src t' ∧ t'.tag ≠ .eof ∧ t'.pos = t.pos ∧ SpelledIn src t') ∨
    (t.pos = 0 ∧ NoToken src) := by
  rcases h.eof_pos' he with ⟨t', h1, h2, h3⟩ | h
  · exact .inl ⟨t', h1, h2, h3, h1.spelled⟩
  · exact .inr h

/-- … more precisely the offset carried by the token produced IMMEDIATELY before it (the last
    token of the text when the lexer is driven to the end, as the parser does). -/
theorem eof_token_pos_last (src : Bytes) (last : Token) (s : LexState) (t : Token) (s' : LexState)
    (hl : Lexed AfterSlash src last s) (hn : Lexer.next s = .ok (t, s')) (he : t.tag = .eof) :
    t.pos = last.pos := by
  obtain ⟨ws, r, _, hc⟩ := next_spelled s t s' hn
  rcases hc with ⟨_, rfl, _⟩ | ⟨_, hsp⟩
  · exact hl.inv.ts
  · rcases hsp with ⟨_, h2, _⟩ | ⟨h2, _⟩
    · exact absurd he h2
    · rw [h2] at he; cases he

/-- non-vacuity of the hypotheses of `eof_token_pos` and `eof_token_pos_last`: the EOF token of
    `1 ` (offset 0, that of the `1`) and the state it is produced in -/
example : IsToken b!"1 " ⟨.eof, 0, []⟩ ∧ (⟨.eof, 0, []⟩ : Token).tag = .eof :=
  ⟨⟨_, _, _, .next .init (t := ⟨.num, 0, b!"1"⟩) (s' := ⟨b!" ", 1, 0⟩) (by rfl), .inl (by rfl)⟩,
    rfl⟩
example : Lexed AfterSlash b!"1 " ⟨.num, 0, b!"1"⟩ ⟨b!" ", 1, 0⟩ ∧
    Lexer.next ⟨b!" ", 1, 0⟩ = .ok (⟨.eof, 0, []⟩, ⟨[], 2, 0⟩) :=
  ⟨.next .init (by rfl), by rfl⟩

/-- witness: after `{ print 1 +` the error is reported at offset 10 (the `+`), not 11 -/
example : (match parseProgramSrc expectedRuleTable b!"{ print 1 +" with
    | .syntaxErr e => e.pos == 10 | _ => false) = true := by decide +kernel
/-- witness: with trailing line feeds it is reported at the last line feed: line 3, column 0,
    empty quoted line (Go prints the same) -/
example : (match parseProgramSrc expectedRuleTable b!"{ print 1 +\n\n\n" with
    | .syntaxErr e => e.pos == 13 && getLineAndCol b!"{ print 1 +\n\n\n" e.pos == ⟨[], 3, 0⟩
    | _ => false) = true := by decide +kernel
/-- witness: a selector of blanks only is rejected at offset 0, where a blank stands and no
    token starts (Go: `-r '   '` prints the caret in column 0) -/
example : (match parseExpressionSrc expectedRuleTable b!"   " with
    | .syntaxErr e => e.pos == 0 | _ => false) = true := by decide +kernel
example : NoToken b!"  # hi" := ⟨_, by rfl⟩

/-- C12, token offsets: **what the offset of a token means**: a token other than EOF is written
    there (strictly inside the text), or the offset is 0 and the text holds no token at all. -/
theorem tokenStart_meaning (src : Bytes) (p : Nat) (h : IsTokenStart src p) :
    (∃ t, IsToken src t ∧ t.tag ≠ .eof ∧ t.pos = p ∧ SpelledIn src t ∧ p < src.length) ∨
    (p = 0 ∧ NoToken src) := by
  rcases h.real' with ⟨t, h1, h2, rfl⟩ | h
  · exact .inl ⟨t, h1, h2, rfl, h1.spelled, h1.spelled.pos_lt h2⟩
  · exact .inr h

/-- … in particular it lies in the text, so that sections 1 and 2 apply to it. -/
theorem tokenStart_in_text (src : Bytes) (p : Nat) (h : IsTokenStart src p) : p ≤ src.length :=
  h.le

/-- non-vacuity of `IsTokenStart` (both cases of `tokenStart_meaning`) -/
example : IsTokenStart b!"  foo(1)" 2 := ⟨⟨.ident, 2, b!"foo"⟩, ⟨_, _, _, .init, .inl (by rfl)⟩, rfl⟩
example : IsTokenStart b!"  # hi" 0 ∧ NoToken b!"  # hi" :=
  ⟨⟨⟨.eof, 0, []⟩, ⟨_, _, _, .init, .inl (by rfl)⟩, rfl⟩, ⟨_, by rfl⟩⟩

/-- C12, lexical errors reached by the parser: the offset lies in the text; for "unexpected
    character" a byte stands there (that it is the illegal byte is NOT restated here: it follows
    from `illegal_char_exact` / `illegal_char_byte` applied to the lexer state, with the
    invariant `next_preserves_invariant`); or it is the offset just behind the opening quote of a
    string that is never closed (where the string token would start); or — for a regex literal
    that is never closed — the offset of some token of the text (in the model the `/` before it;
    which token is not stated). -/
theorem lexical_error_pos (src : Bytes) (e : SynErr) (h : IsLexErr src e) :
    e.pos ≤ src.length ∧
    ((e.msg = "unexpected character" ∧ ∃ c, src[e.pos]? = some c) ∨
     (e.msg = "unexpected EOF while reading string" ∧
       ∃ q, (q = 39 ∨ q = 34) ∧ 1 ≤ e.pos ∧ src[e.pos - 1]? = some q ∧ q ∉ src.drop e.pos) ∨
     (e.msg = "unexpected EOF while reading regex" ∧ IsTokenStart src e.pos)) := by
  obtain ⟨h1, h2⟩ := h.pos
  refine ⟨h1, ?_⟩
  rcases h2 with h2 | h2 | ⟨hm, h2⟩
  · exact .inl h2
  · exact .inr (.inl h2)
  · rcases h2 with h2 | ⟨_, hq⟩
    · exact .inr (.inr ⟨hm, h2⟩)
    · cases hq

/-- non-vacuity of `IsLexErr`, directly -/
example : IsLexErr b!"  @" ⟨2, "unexpected character"⟩ := ⟨_, _, .init, .inl (by rfl)⟩
example : (match parseProgramSrc expectedRuleTable b!"BEGIN { x = 1 }\n   @" with
    | .syntaxErr e => e.pos == 19 && getLineAndCol b!"BEGIN { x = 1 }\n   @" e.pos == ⟨b!"   @", 2, 3⟩
    | _ => false) = true := by decide +kernel
example : (match parseProgramSrc expectedRuleTable b!"{ print $ ~ /ab }" with
    | .syntaxErr e => e.pos == 12 | _ => false) = true := by decide +kernel
example : (match parseProgramSrc expectedRuleTable b!"{ print 'ab }" with
    | .syntaxErr e => e.pos == 9 | _ => false) = true := by decide +kernel

/-- C12, syntax errors: where the reported offset comes from — SOME token of the program text,
    or a lexical error of it.  (This is weaker than the clause "the reported column falls inside
    the offending construct": which token is blamed is not stated; see the examples.)
    Named `_partial` with respect to the stronger statement first planned, "every syntax error
    offset is the start of a token", which is false as it stands (the property itself does not
    ask for it): **a syntax error of `Parse()` carries the offset of a token of the
    program text, or it is a lexical error of that text** (which sits on the offending byte /
    behind the opening quote, `lexical_error_pos`, not on a token start) — and a token offset
    means what `tokenStart_meaning` says (at the end of the input: the START of the last token,
    `eof_token_pos`).  For every rule table that asks for `Regex()` only at a `/` token. -/
theorem syntax_error_pos_partial (tbl : RuleTable) (hT : TblRq AfterSlash tbl) (src : Bytes)
    (e : SynErr) (h : parseProgramSrc tbl src = .syntaxErr e) :
    IsTokenStart src e.pos ∨ IsLexErr src e := by
  have := parseProgramSrc_prov AfterSlash true tbl hT src
  rw [h] at this; exact this

/-- non-vacuity of the two hypotheses on the table: the rule table of src/parser.go asks for
    `Regex()` only at `/`, and has no prefix rule for EOF -/
example : TblRq AfterSlash expectedRuleTable := tblRq_expected
example : (lookupRule expectedRuleTable .eof).pre = none := by decide

/-- … for the rule table of src/parser.go, unconditionally -/
theorem syntax_error_pos_src (src : Bytes) (e : SynErr)
    (h : parseProgramSrc expectedRuleTable src = .syntaxErr e) :
    IsTokenStart src e.pos ∨ IsLexErr src e :=
  syntax_error_pos_partial expectedRuleTable tblRq_expected src e h

/-- C12, syntax errors, spelled out: **a syntax error of `Parse()` sits at an offset where a
    token other than EOF is written in the program text** (strictly inside the text; at the end
    of the input this is the last token, not the end) **or it is a lexical error** (on the
    illegal byte / just behind the opening quote / on the `/` of an unclosed regex literal,
    `lexical_error_pos`).  The "offset 0 of a text without tokens" case cannot occur here: such
    a text is the empty program. -/
theorem syntax_error_pos_meaning (tbl : RuleTable) (hT : TblRq AfterSlash tbl) (src : Bytes)
    (e : SynErr) (h : parseProgramSrc tbl src = .syntaxErr e) :
    (∃ t, IsToken src t ∧ t.tag ≠ .eof ∧ t.pos = e.pos ∧ SpelledIn src t ∧ e.pos < src.length) ∨
    IsLexErr src e := by
  rcases syntax_error_pos_partial tbl hT src e h with ht | hl
  · rcases tokenStart_meaning src e.pos ht with hreal | ⟨_, hno⟩
    · exact .inl hreal
    · rw [parseProgramSrc_noToken tbl src hno] at h; cases h
  · exact .inr hl

/-- C12, syntax errors inside a `-r` selector: the same for `ParseExpression()` and the selector
    text. -/
theorem selector_syntax_error_pos_partial (tbl : RuleTable) (hT : TblRq AfterSlash tbl)
    (sel : Bytes) (e : SynErr) (h : parseExpressionSrc tbl sel = .syntaxErr e) :
    IsTokenStart sel e.pos ∨ IsLexErr sel e := by
  have := parseExpressionSrc_prov AfterSlash true tbl hT sel
  rw [h] at this; exact this

/-- … spelled out; here the blank selector is the one exception (FINDING: `-r '   '` is rejected
    at offset 0, where a blank stands) -/
theorem selector_syntax_error_pos_meaning (tbl : RuleTable) (hT : TblRq AfterSlash tbl)
    (sel : Bytes) (e : SynErr) (h : parseExpressionSrc tbl sel = .syntaxErr e) :
    (∃ t, IsToken sel t ∧ t.tag ≠ .eof ∧ t.pos = e.pos ∧ SpelledIn sel t ∧ e.pos < sel.length) ∨
    (e.pos = 0 ∧ NoToken sel) ∨ IsLexErr sel e := by
  rcases selector_syntax_error_pos_partial tbl hT sel e h with ht | hl
  · rcases tokenStart_meaning sel e.pos ht with hreal | hno
    · exact .inl hreal
    · exact .inr (.inl hno)
  · exact .inr (.inr hl)

/-- … and for ANY rule table (here a regex literal need not stand behind a `/`; every other
    token is still spelled at its offset, `Prov.IsTokenOf.spelled_any`) -/
theorem syntax_error_pos_any_table (tbl : RuleTable) (src : Bytes) (e : SynErr)
    (h : parseProgramSrc tbl src = .syntaxErr e) :
    TokenStart (fun _ => True) src e.pos ∨ IsLexErrOf (fun _ => True) src e := by
  have := parseProgramSrc_prov (fun _ => True) true tbl (tblRq_true tbl) src
  rw [h] at this; exact this

theorem selector_syntax_error_pos_any_table (tbl : RuleTable) (sel : Bytes) (e : SynErr)
    (h : parseExpressionSrc tbl sel = .syntaxErr e) :
    TokenStart (fun _ => True) sel e.pos ∨ IsLexErrOf (fun _ => True) sel e := by
  have := parseExpressionSrc_prov (fun _ => True) true tbl (tblRq_true tbl) sel
  rw [h] at this; exact this

/-- C12, syntax errors, the report: for every rule table and every text, the offset of a syntax
    error lies in the text — hence (sections 1, 2) the reported line is 1 + the number of line
    feeds before that byte, the column is the distance to the line start and the quoted line is
    line N of the text without its line end. -/
theorem syntax_error_report (tbl : RuleTable) (src : Bytes) (e : SynErr)
    (h : parseProgramSrc tbl src = .syntaxErr e ∨ parseExpressionSrc tbl src = .syntaxErr e) :
    e.pos ≤ src.length ∧
    (splitLines src)[(getLineAndCol src e.pos).line - 1]? = some (getLineAndCol src e.pos).srcLine ∧
    (getLineAndCol src e.pos).col ≤ (getLineAndCol src e.pos).srcLine.length := by
  have hle : e.pos ≤ src.length := by
    rcases h with h | h
    · rcases syntax_error_pos_any_table tbl src e h with h | h
      · exact h.le
      · exact h.pos.1
    · rcases selector_syntax_error_pos_any_table tbl src e h with h | h
      · exact h.le
      · exact h.pos.1
  exact ⟨hle, srcLine_is_line_N src e.pos hle⟩

/-- non-vacuity: an error on line 3 of a program with a comment line; an error on the last line
    without a final line feed; an error behind a two-byte character (columns count bytes) -/
example : (match parseProgramSrc expectedRuleTable b!"BEGIN { x = 1 }\n# c\n{ y = ) }" with
    | .syntaxErr e => e.pos == 26 &&
        getLineAndCol b!"BEGIN { x = 1 }\n# c\n{ y = ) }" e.pos == ⟨b!"{ y = ) }", 3, 6⟩
    | _ => false) = true := by decide +kernel
example : (match parseProgramSrc expectedRuleTable b!"{ print \"é\", 1 2 }" with
    | .syntaxErr e => e.pos == 16 &&
        getLineAndCol b!"{ print \"é\", 1 2 }" e.pos == ⟨b!"{ print \"é\", 1 2 }", 1, 16⟩
    | _ => false) = true := by decide +kernel

/-! #### the tokens stored in a parsed program -/

/-- C12, AST: **every token stored in a parsed program carries the offset of a token of the
    program text** — except the zero token of the implicit `print` of a body-less rule, which is
    not a token of the text (the evaluator never takes a position from it, see
    `parsed_blame_tokens`).  FINDING (harmless): only the OFFSETS are those of lexed tokens; the
    parser rewrites `a op= b` into `a = a op b` with two made-up tokens at the offset of `op=`. -/
theorem parsed_tokens_are_tokens (tbl : RuleTable) (hT : TblRq AfterSlash tbl) (src : Bytes)
    (prog : Program) (h : parseProgramSrc tbl src = .ok prog) :
    ∀ t ∈ prog.tokens, t = Token.zero ∨ IsTokenStart src t.pos := by
  have := parseProgramSrc_prov AfterSlash true tbl hT src
  rw [h] at this; exact this.all

/-- witness for the zero token: a rule without body -/
example : (match parseProgramSrc expectedRuleTable b!"  $.a > 1" with
    | .ok p => p.tokens.contains Token.zero | _ => false) = true := by decide +kernel
/-- witness for the rewritten compound assignment: the text has `+=` at offset 4, the AST an
    `=` token and a `+` token at offset 4 -/
example : (match parseProgramSrc expectedRuleTable b!"{ x += 1 }" with
    | .ok p => p.tokens.contains ⟨.equal, 4, []⟩ && p.tokens.contains ⟨.plus, 4, []⟩
    | _ => false) = true := by decide +kernel
example : Lexer.next ⟨b!" += 1 }", 3, 2⟩ = .ok (⟨.plusEqual, 4, []⟩, ⟨b!" 1 }", 6, 4⟩) := by rfl

/-- C12, AST: **every token the evaluator can take a position from** (all tokens of expression
    nodes, the variables of `for … in`, function names; `Program.blameTokens`) **carries the
    offset of a token of the program text.** -/
theorem parsed_blame_tokens (tbl : RuleTable) (hT : TblRq AfterSlash tbl) (src : Bytes)
    (prog : Program) (h : parseProgramSrc tbl src = .ok prog) :
    ∀ t ∈ prog.blameTokens, IsTokenStart src t.pos := by
  have := parseProgramSrc_prov AfterSlash false tbl hT src
  rw [h] at this; exact this.blame

/-- C12, AST of a selector: every token of a parsed selector expression carries the offset of a
    token of the selector text.  (Non-vacuity: the example below.) -/
theorem selector_tokens_are_tokens (tbl : RuleTable) (hT : TblRq AfterSlash tbl) (sel : Bytes)
    (expr : Expr) (h : parseExpressionSrc tbl sel = .ok expr) (kw : Bool) :
    ∀ t ∈ expr.tokens kw, IsTokenStart sel t.pos := by
  have := parseExpressionSrc_prov AfterSlash kw tbl hT sel
  rw [h] at this; exact this

/-- non-vacuity of `selector_tokens_are_tokens`: a selector that parses, with its token offsets -/
example : (match parseExpressionSrc expectedRuleTable b!"  $.a ~ 1" with
    | .ok e => (e.tokens false).map (·.pos) != [] && (e.tokens false).all (fun t => t.pos < 9)
    | _ => false) = true := by decide +kernel
example : (match parseProgramSrc expectedRuleTable
      b!"function f(x) {\n  return x.a.b.c = 1\n}\n{ print f(1) }" with
    | .ok p => p.blameTokens.length == 12 && p.tokens.length == 15 | _ => false) = true := by
  decide +kernel

/-! #### runtime errors -/

/-- the position `pos`, reported together with the text `s`, is the offset stored in a token of
    the AST parsed from that text: the program (then `s` is the program text) or a selector
    expression (then `s` is that selector's text) -/
def BlamesAst (tbl : RuleTable) (src : Bytes) (sels : List Bytes) (s : Bytes) (pos : Nat) : Prop :=
  (s = src ∧ ∃ prog, parseProgramSrc tbl src = .ok prog ∧ ∃ t ∈ prog.blameTokens, t.pos = pos) ∨
  (s ∈ sels ∧ ∃ expr, parseExpressionSrc tbl s = .ok expr ∧ ∃ t ∈ expr.tokens false, t.pos = pos)

/-- the syntax error `e`, reported together with the text `s`, is the syntax error of parsing
    that text: the program, or a selector -/
def SynErrOf (tbl : RuleTable) (src : Bytes) (sels : List Bytes) (s : Bytes) (e : SynErr) : Prop :=
  (s = src ∧ parseProgramSrc tbl src = .syntaxErr e) ∨
  (s ∈ sels ∧ parseExpressionSrc tbl s = .syntaxErr e)

/-- all positions a run reports, in one statement (any rule table, any selectors, any input).
    Only the outcomes `.runtimeErr` and `.syntaxErr` carry a position; for every other outcome
    (`.ok`, `.jsonErr`, and also `.oof`, `.panic`, `.unmodelled`) `OutcomeOK` is `True`, i.e.
    nothing is claimed. -/
theorem run_positions (tbl : RuleTable) (src : Bytes) (sels : List Bytes) (files : List InputFile) :
    OutcomeOK (BlamesAst tbl src sels) (SynErrOf tbl src sels) src sels
      (evalProgram tbl src sels files).outcome := by
  unfold evalProgram
  cases hp : parseProgramSrc tbl src with
  | syntaxErr e => exact ⟨.inl rfl, .inl ⟨rfl, hp⟩⟩
  | oof => trivial
  | ok prog =>
    refine runProgram_ok prog ?_ ⟨?_, ?_⟩ files
    · exact (progOK_self prog).mono (fun p ⟨t, ht, hpos⟩ => .inl ⟨rfl, prog, hp, t, ht, hpos⟩)
    · intro sel hsel e he t ht
      exact .inr ⟨hsel, e, he, t, ht, rfl⟩
    · intro sel hsel e he
      exact .inr ⟨hsel, he⟩

/-- C12, runtime errors: **the position of a runtime error a run reports is the offset stored in
    SOME token of the parsed program (`Program.blameTokens`: rule patterns, rule bodies, function
    bodies, match arms) and the text reported with it is the program text; or it is the offset
    stored in some token of a parsed `-r` selector expression and the text reported is that
    selector's text.**  Which token — i.e. that it belongs to the faulting node, the clause "the
    reported column falls inside the offending construct" — is NOT stated; only the examples at
    the end of the file show it, on instances.
    Any rule table, any selectors, any input files, at the evaluator's full fuel. -/
theorem runtime_error_pos_is_token (tbl : RuleTable) (src : Bytes) (sels : List Bytes)
    (files : List InputFile) (s : Bytes) (pos : Nat) (msg : String)
    (h : (evalProgram tbl src sels files).outcome = .runtimeErr s pos msg) :
    BlamesAst tbl src sels s pos := by
  have := run_positions tbl src sels files
  rw [h] at this; exact this.2

/-- C12, runtime errors, in terms of the text: **the position of a runtime error is the offset
    carried by a token of the text it is reported with** (the program text, or the text of the
    selector in which it was raised); hence it lies in that text. -/
theorem runtime_error_pos_tokenStart (tbl : RuleTable) (hT : TblRq AfterSlash tbl) (src : Bytes)
    (sels : List Bytes) (files : List InputFile) (s : Bytes) (pos : Nat) (msg : String)
    (h : (evalProgram tbl src sels files).outcome = .runtimeErr s pos msg) :
    (s = src ∨ s ∈ sels) ∧ IsTokenStart s pos := by
  rcases runtime_error_pos_is_token tbl src sels files s pos msg h with
    ⟨rfl, prog, hp, t, ht, rfl⟩ | ⟨hs, expr, he, t, ht, rfl⟩
  · exact ⟨.inl rfl, parsed_blame_tokens tbl hT s prog hp t ht⟩
  · exact ⟨.inr hs, selector_tokens_are_tokens tbl hT s expr he false t ht⟩

/-- C12, runtime errors, full strength: **at the position of a runtime error a token other than
    EOF is written in the text the error is reported with** (`SpelledIn`: its spelling stands
    there; for a string or regex literal the position is that of the first byte after the
    opening delimiter), and the position lies strictly inside that text.  The "offset 0 of a
    text without tokens" case of `tokenStart_meaning` cannot occur: such a program has no rules
    and such a selector does not parse.  For tables that ask for `Regex()` only at `/` and have
    no prefix rule for EOF — as the real one. -/
theorem runtime_error_pos_real (tbl : RuleTable) (hT : TblRq AfterSlash tbl)
    (hE : (lookupRule tbl .eof).pre = none) (src : Bytes)
    (sels : List Bytes) (files : List InputFile) (s : Bytes) (pos : Nat) (msg : String)
    (h : (evalProgram tbl src sels files).outcome = .runtimeErr s pos msg) :
    (s = src ∨ s ∈ sels) ∧
    ∃ t, IsToken s t ∧ t.tag ≠ .eof ∧ t.pos = pos ∧ SpelledIn s t ∧ pos < s.length := by
  obtain ⟨hs, hts⟩ := runtime_error_pos_tokenStart tbl hT src sels files s pos msg h
  refine ⟨hs, ?_⟩
  rcases tokenStart_meaning s pos hts with hreal | ⟨_, hno⟩
  · exact hreal
  · exfalso
    rcases runtime_error_pos_is_token tbl src sels files s pos msg h with
      ⟨rfl, prog, hp, t, ht, _⟩ | ⟨_, expr, he, _⟩
    · rw [parseProgramSrc_noToken tbl s hno] at hp
      cases hp
      simp [Program.blameTokens] at ht
    · obtain ⟨e, he'⟩ := parseExpressionSrc_noToken tbl hE s hno
      rw [he'] at he; cases he

/-- … for the rule table of src/parser.go, unconditionally -/
theorem runtime_error_pos_src (src : Bytes) (sels : List Bytes) (files : List InputFile)
    (s : Bytes) (pos : Nat) (msg : String)
    (h : (evalProgram expectedRuleTable src sels files).outcome = .runtimeErr s pos msg) :
    (s = src ∨ s ∈ sels) ∧
    ∃ t, IsToken s t ∧ t.tag ≠ .eof ∧ t.pos = pos ∧ SpelledIn s t ∧ pos < s.length :=
  runtime_error_pos_real expectedRuleTable tblRq_expected (by decide) src sels files s pos msg h

/-- C12, syntax errors of a run: the syntax error a run reports is the one of parsing the
    program text or one of the selector texts, and it is reported with that text; so
    `syntax_error_pos_partial` / `selector_syntax_error_pos_partial` apply to it. -/
theorem run_syntax_error (tbl : RuleTable) (src : Bytes) (sels : List Bytes)
    (files : List InputFile) (s : Bytes) (e : SynErr)
    (h : (evalProgram tbl src sels files).outcome = .syntaxErr s e) : SynErrOf tbl src sels s e := by
  have := run_positions tbl src sels files
  rw [h] at this; exact this.2

/-- C12, the report of a run: **whatever error a run reports — syntax, lexical or runtime, of
    the program or of a selector, for any rule table — its offset lies in the text it is
    reported with; the quoted line is line N of that text and the column lies within it.** -/
theorem reported_position_in_text (tbl : RuleTable) (src : Bytes) (sels : List Bytes)
    (files : List InputFile) (s : Bytes) (pos : Nat)
    (h : (∃ msg, (evalProgram tbl src sels files).outcome = .runtimeErr s pos msg) ∨
         (∃ e, (evalProgram tbl src sels files).outcome = .syntaxErr s e ∧ e.pos = pos)) :
    pos ≤ s.length ∧
    (splitLines s)[(getLineAndCol s pos).line - 1]? = some (getLineAndCol s pos).srcLine ∧
    (getLineAndCol s pos).col ≤ (getLineAndCol s pos).srcLine.length := by
  have hle : pos ≤ s.length := by
    rcases h with ⟨msg, h⟩ | ⟨e, h, rfl⟩
    · rcases runtime_error_pos_is_token tbl src sels files s pos msg h with
        ⟨rfl, prog, hp, t, ht, rfl⟩ | ⟨hs, expr, he, t, ht, rfl⟩
      · have := parseProgramSrc_prov (fun _ => True) false tbl (tblRq_true tbl) s
        rw [hp] at this
        exact (this.blame t ht).le
      · have := parseExpressionSrc_prov (fun _ => True) false tbl (tblRq_true tbl) s
        rw [he] at this
        exact (this t ht).le
    · rcases run_syntax_error tbl src sels files s e h with ⟨rfl, hp⟩ | ⟨_, hp⟩
      · exact (syntax_error_report tbl s e (.inl hp)).1
      · exact (syntax_error_report tbl s e (.inr hp)).1
  exact ⟨hle, srcLine_is_line_N s pos hle⟩

/-- non-vacuity: a runtime error inside a function called from a rule, on line 2 of a
    four-line program: offset 25, the `x` of `x.a.b.c = 1` (Go prints the same line and caret) -/
example : (match (evalProgram expectedRuleTable
      b!"function f(x) {\n  return x.a.b.c = 1\n}\n{ print f(1) }" [] [⟨b!"f", b!"1", .eof⟩]).outcome with
    | .runtimeErr s pos _ =>
      s == b!"function f(x) {\n  return x.a.b.c = 1\n}\n{ print f(1) }" && pos == 25 &&
      getLineAndCol s pos == ⟨b!"  return x.a.b.c = 1", 2, 9⟩
    | _ => false) = true := by decide +kernel

/-- non-vacuity: a runtime error behind a two-byte character; the column counts bytes -/
example : (match (evalProgram expectedRuleTable b!"{ y = \"é\" + $.a.q.z(1) }" []
      [⟨b!"f", b!"{\"a\":1}", .eof⟩]).outcome with
    | .runtimeErr s pos _ => pos == 13 && (getLineAndCol s pos).col == 13 && s[13]? == some 36
    | _ => false) = true := by decide +kernel

/-- non-vacuity: a runtime error on the last line, which has no final line feed; the position
    is that of the rewritten `+=` (`x += 1 / 0` → the `/`) -/
example : (match (evalProgram expectedRuleTable b!"BEGIN { x = 1 }\n\n{ x += 1 / 0 }" []
      [⟨b!"f", b!"{\"a\":1}", .eof⟩]).outcome with
    | .runtimeErr s pos _ => pos == 26 && getLineAndCol s pos == ⟨b!"{ x += 1 / 0 }", 3, 9⟩
    | _ => false) = true := by decide +kernel

/-- non-vacuity: a runtime error inside a `-r` selector is reported with the selector text and
    an offset into it … -/
example : (match (evalProgram expectedRuleTable b!"{ print }" [b!"  $.a ~ 1"]
      [⟨b!"f", b!"{\"a\":1}", .eof⟩]).outcome with
    | .runtimeErr s pos _ => s == b!"  $.a ~ 1" && pos == 8 | _ => false) = true := by
  decide +kernel
/-- … and so is a syntax error inside a selector (at the start of its last token) -/
example : (match (evalProgram expectedRuleTable b!"{ print }" [b!"$.a +"]
      [⟨b!"f", b!"{\"a\":1}", .eof⟩]).outcome with
    | .syntaxErr s e => s == b!"$.a +" && e.pos == 4 | _ => false) = true := by
  decide +kernel


/-! ### 6. which token a runtime fault blames

  The evaluator raises a runtime error in 22 places of Jqawk/Model/Eval.lean and one of
  Jqawk/Model/Driver.lean (`throwRt <pos> <msg>`; natives never raise with a position: they
  return a plain error that `callFunction` raises at the call's token).  For each place there is
  a theorem below of the shape: evaluating THIS node, with the sub-evaluations ending as stated,
  yields `throwRt <token>.pos <msg> <state>` — i.e. (`throwRt_is_runtime`) the outcome
  `Err.runtime <token>.pos <msg>` — where `<token>` is named in terms of the node.  Fuel is
  explicit: the node is evaluated with one (or two) units more than its parts, and the
  hypotheses say that the parts did not run out of fuel.

  The blamed token is the one the Go code passes to `e.error(…)` at the corresponding place of
  src/evaluator.go (compared place by place; the line numbers are in `blame_table`).
  `Expr.token` is Go's `Node.Token()`: the node's own token for literals, identifiers, array /
  object literals, `match` and unary nodes (the operator); for a binary node (also `a.b`, `a[b]`,
  `a = b`) the token of its LEFT operand, for a call `f(…)` the token of the callee expression —
  hence always the LEFTMOST token of such a chain (`$` in `$.a.b.push(1)`).

  The messages are the model's: where Go interpolates the value kind or operator into the message
  (`attempted to call a %s`, `%s is not iterable`, `unknown operator %s`, `%s not supported in
  match expressions`) the model has a fixed text (messages are not part of the compared
  behaviour; positions are). -/

open BlameSites

section Blame
variable (prog : Program)

/-- raising a runtime error: the outcome is `Err.runtime pos msg`; the state is the one it was
    raised in, with the two ghost counters updated -/
theorem throwRt_is_runtime {α : Type} (pos : Nat) (msg : String) (s : St) :
    (throwRt pos msg s : Res α) =
      .err (.runtime pos msg) { s with faults := s.faults + 1, faultOut := s.out.length } := rfl

/-! #### binary operators (Eval.lean `evalBinary`; evaluator.go:569-726) -/

/-- C12, site `binaryOp … = .err` (Eval.lean:444-446; evaluator.go:644, 682, 689, 704, 709), in
    general: an operator of the table (`== != < <= > >=`, `+ - * / %`, `~ !~`) whose value-level
    result on the two operand values is an error blames **the right operand's token for the two
    pattern errors of `~` / `!~`, the left operand's token for a failed comparison, the operator
    token otherwise (division / remainder by zero)**. -/
theorem blame_table_operator (n : Nat) (l r : Expr) (op : Token) (hop : isTableOp op.tag = true)
    (s s1 s2 : St) (cl cr : CellId)
    (hl : evalExpr prog n l s = .ok cl s1) (hr : evalExpr prog n r s1 = .ok cr s2)
    (atRight : Bool) (m : String)
    (hb : binaryOp op.tag (s2.heap.get cl) (s2.heap.get cr) = .err atRight m) :
    evalExpr prog (n + 2) (.binary l r op) s =
      throwRt (if atRight then r.token.pos
               else if isCompareOp op.tag then l.token.pos else op.pos) m s2 := by
  rw [evalExpr_binary, evalBinary_table prog n l r op hop s s1 s2 cl cr hl hr, hb]; rfl

/-- C12: **`a / b` with `num(b)` zero and `a % b` with `trunc(num(b))` zero blame the operator
    token** (`/` or `%`) of that binary node, with "divide by zero" (evaluator.go:682, 689:
    `e.error(expr.OpToken, …)`) -/
theorem blame_divide_by_zero (n : Nat) (l r : Expr) (op : Token)
    (s s1 s2 : St) (cl cr : CellId)
    (hl : evalExpr prog n l s = .ok cl s1) (hr : evalExpr prog n r s1 = .ok cr s2)
    (hz : (op.tag = .divide ∧ (s2.heap.get cr).asNum.isZero = true) ∨
          (op.tag = .percent ∧ (s2.heap.get cr).asNum.toGoInt = 0)) :
    evalExpr prog (n + 2) (.binary l r op) s = throwRt op.pos "divide by zero" s2 := by
  rcases hz with ⟨ht, hz⟩ | ⟨ht, hz⟩
  · have := blame_table_operator prog n l r op (by rw [ht]; decide) s s1 s2 cl cr hl hr false
      "divide by zero" (by rw [ht]; simp [binaryOp, isCompareOp, isArithOp, hz])
    rw [this, ht]; rfl
  · have := blame_table_operator prog n l r op (by rw [ht]; decide) s s1 s2 cl cr hl hr false
      "divide by zero" (by rw [ht]; simp [binaryOp, isCompareOp, isArithOp, hz])
    rw [this, ht]; rfl

/-- C12: **a comparison whose operands cannot be compared** (an array or object against anything
    but null / unset) **blames the token of the LEFT operand** (evaluator.go:644:
    `e.error(expr.Left.Token(), …)`), not the operator -/
theorem blame_cannot_compare (n : Nat) (l r : Expr) (op : Token) (hop : isCompareOp op.tag = true)
    (s s1 s2 : St) (cl cr : CellId)
    (hl : evalExpr prog n l s = .ok cl s1) (hr : evalExpr prog n r s1 = .ok cr s2)
    (hu : (s2.heap.get cl).kind ≠ .unknown ∧ (s2.heap.get cr).kind ≠ .unknown) (m : String)
    (hc : (s2.heap.get cl).compare (s2.heap.get cr) = .error m) :
    evalExpr prog (n + 2) (.binary l r op) s = throwRt l.token.pos m s2 := by
  have := blame_table_operator prog n l r op (by simp [isTableOp, hop]) s s1 s2 cl cr hl hr false m
    (by simp [binaryOp, hop, hu.1, hu.2, hc])
  rw [this]; simp [hop]

/-- C12: **`a ~ b` / `a !~ b` whose right operand is neither a string nor a regex, or is an
    invalid pattern, blames the token of the RIGHT operand** (evaluator.go:704, 709:
    `e.error(expr.Right.Token(), …)`) -/
theorem blame_regex_operand (n : Nat) (l r : Expr) (op : Token)
    (hop : op.tag = .tilde ∨ op.tag = .bangTilde)
    (s s1 s2 : St) (cl cr : CellId)
    (hl : evalExpr prog n l s = .ok cl s1) (hr : evalExpr prog n r s1 = .ok cr s2) :
    ((∀ p sp, s2.heap.get cr ≠ .str p sp) → (∀ p, s2.heap.get cr ≠ .regex p) →
      evalExpr prog (n + 2) (.binary l r op) s =
        throwRt r.token.pos "a regex or a string must appear on the right hand side of ~" s2) ∧
    (∀ p, (s2.heap.get cr = .regex p ∨ ∃ sp, s2.heap.get cr = .str p sp) →
      Re.compile p = .invalid →
      evalExpr prog (n + 2) (.binary l r op) s = throwRt r.token.pos "invalid regex" s2) := by
  have ht : isTableOp op.tag = true := by rcases hop with h | h <;> rw [h] <;> decide
  have hnc : isCompareOp op.tag = false ∧ isArithOp op.tag = false := by
    rcases hop with h | h <;> rw [h] <;> decide
  refine ⟨fun h1 h2 => ?_, fun p hp hinv => ?_⟩
  · have hb : binaryOp op.tag (s2.heap.get cl) (s2.heap.get cr) =
        .err true "a regex or a string must appear on the right hand side of ~" := by
      simp only [binaryOp, hnc.1, hnc.2, Bool.false_eq_true, ↓reduceIte]
    exact (blame_table_operator prog n l r op ht s s1 s2 cl cr hl hr true _ hb).trans rfl
  · have hb : binaryOp op.tag (s2.heap.get cl) (s2.heap.get cr) = .err true "invalid regex" := by
      simp only [binaryOp, hnc.1, hnc.2, Bool.false_eq_true, ↓reduceIte]
      rcases hp with hv | ⟨sp, hv⟩ <;> simp only [hv, hinv]
    exact (blame_table_operator prog n l r op ht s s1 s2 cl cr hl hr true _ hb).trans rfl

/-- C12, site Eval.lean:434 (evaluator.go:573): **`a is X` where `X` is not an identifier node
    blames X's token** -/
theorem blame_is_type_name (n : Nat) (l r : Expr) (op : Token) (hop : op.tag = .is)
    (hr : ∀ t, r ≠ .ident t) (s s1 : St) (cl : CellId) (hl : evalExpr prog n l s = .ok cl s1) :
    evalExpr prog (n + 2) (.binary l r op) s = throwRt r.token.pos "expected a type name" s1 := by
  rw [evalExpr_binary]; exact evalBinary_is_other prog n l r op hop hr s s1 cl hl

/-- C12, site Eval.lean:448 (evaluator.go:726): **a binary node whose operator token is none of
    the operators `evalBinary` knows blames that operator token** (after evaluating both
    operands) -/
theorem blame_unknown_binary_operator (n : Nat) (l r : Expr) (op : Token)
    (hop : isBinaryTag op.tag = false) (s s1 s2 : St) (cl cr : CellId)
    (hl : evalExpr prog n l s = .ok cl s1) (hr : evalExpr prog n r s1 = .ok cr s2) :
    evalExpr prog (n + 2) (.binary l r op) s = throwRt op.pos "unknown operator" s2 := by
  rw [evalExpr_binary]; exact evalBinary_unknown prog n l r op hop s s1 s2 cl cr hl hr

/-- C12, site Eval.lean:203 via :438 (evaluator.go:600): **a member / index access `a.b`, `a[b]`
    whose lookup fails** (array index before the start: "index out of range"; an object or
    prototype indexed with something that is neither number nor string) **blames the token of the
    LEFT operand `a`** — for a chain `x.a[b]` the leftmost token `x` -/
theorem blame_member_access (n : Nat) (l r : Expr) (op : Token)
    (hop : op.tag = .dot ∨ op.tag = .lsquare) (s s1 s2 : St) (cl cr : CellId)
    (hl : evalExpr prog n l s = .ok cl s1) (hr : evalExpr prog n r s1 = .ok cr s2) (m : String)
    (hk : (s2.heap.get cl).kind ≠ .unknown)
    (hg : getMember s2.heap (s2.heap.get cl) (s2.heap.get cr) = .error m) :
    evalExpr prog (n + 2) (.binary l r op) s = throwRt l.token.pos m s2 := by
  rw [evalExpr_binary, evalBinary_member prog n l r op hop s s1 s2 cl cr hl hr]
  exact memberStep_err _ _ _ _ m hk hg

/-- C12, sites Eval.lean:99 and :103 via :439 (evaluator.go:820, 826): **a failed assignment
    `a = b` blames the token of the LEFT side `a`** (for `x.a.b = 1` the leftmost token `x`):
    (1) the target is a member that does not exist yet (or a method, or a character of a
    string) and cannot be created — `createSpeculative` fails, e.g. "cannot set member on a
    scalar"; (2) the target exists and the value cannot be copied (a function). -/
theorem blame_assignment (n : Nat) (l r : Expr) (op : Token) (hop : op.tag = .equal)
    (s s1 s2 : St) (cl cr : CellId)
    (hl : evalExpr prog n l s = .ok cl s1) (hr : evalExpr prog n r s1 = .ok cr s2) (m : String) :
    (∀ s', needsCreate (s2.heap.get cl) = true →
      createSpeculative (s2.heap.cells.size + 2) cl s2 = .ok (.error m) s' →
      evalExpr prog (n + 2) (.binary l r op) s = throwRt l.token.pos m s') ∧
    (needsCreate (s2.heap.get cl) = false → copyVal (s2.heap.get cr) = .error m →
      evalExpr prog (n + 2) (.binary l r op) s = throwRt l.token.pos m s2) := by
  rw [evalExpr_binary, evalBinary_assign prog n l r op hop s s1 s2 cl cr hl hr]
  exact ⟨fun s' hn hc => evalAssignment_create_err _ _ _ _ s' m hn hc,
    fun hn hc => evalAssignment_copy_err _ _ _ _ m hn hc⟩

/-! #### unary operators (Eval.lean `evalUnary`; evaluator.go:461-500) -/

/-- C12, site Eval.lean:99 via :410 (evaluator.go:820 called from :486 with `expr` = the unary
    node, whose `Token()` is the operator): **`a++`, `a--`, `++a`, `--a` whose operand is a
    member that cannot be created blames the OPERATOR token** (`++` / `--`), not the operand.
    (The other error of assignment, an uncopyable value, cannot occur: the value is a number.) -/
theorem blame_incdec (n : Nat) (e : Expr) (op : Token) (p : Bool)
    (hop : op.tag = .plusPlus ∨ op.tag = .minusMinus) (s s1 s' : St) (c : CellId)
    (he : evalExpr prog n e s = .ok c s1) (m : String)
    (hn : needsCreate (s1.heap.get c) = true) (hlt : c < s1.heap.cells.size)
    (hc : createSpeculative (s1.heap.cells.size + 1 + 2) c
      { s1 with heap := (s1.heap.alloc (.num (stepOp op.tag (s1.heap.get c)))).2 } = .ok (.error m) s') :
    evalExpr prog (n + 2) (.unary e op p) s = throwRt op.pos m s' := by
  rw [evalExpr_unary, evalUnary_step prog n e op p hop s s1 c he]
  have hget : (s1.heap.alloc (.num (stepOp op.tag (s1.heap.get c)))).2.get c = s1.heap.get c :=
    Heap.get_push_old _ _ _ hlt
  have := evalAssignment_create_err op.pos c s1.heap.cells.size
    { s1 with heap := (s1.heap.alloc (.num (stepOp op.tag (s1.heap.get c)))).2 } s' m
    (by rw [hget]; exact hn) (by simpa [Heap.alloc] using hc)
  simp only [bind, EM.bind, newCell]
  rw [show (s1.heap.alloc (Val.num (stepOp op.tag (s1.heap.get c)))).1 = s1.heap.cells.size from rfl,
    this]
  rfl

/-- C12, site Eval.lean:413 (evaluator.go:498): **a unary node whose operator token is none of
    `! + - ++ --` blames that operator token** -/
theorem blame_unknown_unary_operator (n : Nat) (e : Expr) (op : Token) (p : Bool)
    (hop : isUnaryTag op.tag = false) (s s1 : St) (c : CellId)
    (he : evalExpr prog n e s = .ok c s1) :
    evalExpr prog (n + 2) (.unary e op p) s = throwRt op.pos "unknown operator" s1 := by
  rw [evalExpr_unary]; exact evalUnary_unknown prog n e op p hop s s1 c he

/-! #### literals and identifiers (evaluator.go:160-176, 205-235) -/

/-- C12, site Eval.lean:241 (evaluator.go:213): **a string literal (or the field name of `a.b`)
    with a bad escape blames the literal's token** — whose position is the first byte after the
    opening quote -/
theorem blame_string_literal (n : Nat) (t : Token) (ht : t.tag = .str ∨ t.tag = .ident)
    (m : String) (hm : evalStringLit t.text = .error m) (s : St) :
    evalExpr prog (n + 1) (.lit t) s = throwRt t.pos m s :=
  evalExpr_lit_str_err prog n t ht m hm s

/-- C12, site Eval.lean:246 (evaluator.go:227): **a number literal that does not parse blames
    the literal's token** -/
theorem blame_number_literal (n : Nat) (t : Token) (ht : t.tag = .num)
    (hm : F64.parse t.text = none) (s : St) :
    evalExpr prog (n + 1) (.lit t) s = throwRt t.pos "could not parse number" s :=
  evalExpr_lit_num_err prog n t ht hm s

/-- C12, site Eval.lean:276 (evaluator.go:166): **`$` outside a rule (no current record) blames
    the `$` token** -/
theorem blame_dollar (n : Nat) (t : Token) (ht : t.tag = .dollar) (s : St)
    (hr : s.ruleRoot = none) :
    evalExpr prog (n + 1) (.ident t) s = throwRt t.pos "unknown variable $" s := by
  rw [evalExpr_ident]; exact getIdentifier_dollar_err prog t ht s hr

/-- C12, site Eval.lean:280 (evaluator.go:172): **an unknown `$name` variable blames that
    identifier token** (every other unknown name is created, so this is the only error) -/
theorem blame_dollar_variable (n : Nat) (t : Token) (ht : t.tag ≠ .dollar) (s : St)
    (hl : lookupFrames s.frames t.text = none) (hd : t.text.head? = some 36) :
    evalExpr prog (n + 1) (.ident t) s = throwRt t.pos "unknown variable" s := by
  rw [evalExpr_ident]; exact getIdentifier_var_err prog t ht s hl hd

/-! #### object / array literals and argument lists (evaluator.go:322-333, 870-890) -/

/-- C12, site Eval.lean:290 via :267 (evaluator.go:329): **an object literal one of whose member
    values cannot be copied (a function) blames the literal's own token, the `{`** — not the
    member.  For a member at ANY position: the members before it (`pre`) evaluate and copy
    (`BlameSites.CopiedKV`, fuel going from `K` down to `n + 1`). -/
theorem blame_object_literal {K n : Nat} (t : Token) {pre : List (Bytes × Expr)}
    {acc' : List (Bytes × CellId)} {s s' : St}
    (hpre : CopiedKV prog K pre [] s (n + 1) acc' s') (k : Bytes) (e : Expr)
    (rest : List (Bytes × Expr)) (s1 : St) (c : CellId) (m : String)
    (he : evalExpr prog n e s' = .ok c s1) (hc : copyVal (s1.heap.get c) = .error m) :
    evalExpr prog (K + 1) (.obj t (pre ++ (k, e) :: rest)) s =
      throwRt t.pos m { s1 with heap := (s1.heap.alloc .unknown).2 } := by
  rw [evalExpr_obj]
  simp only [bind, EM.bind, evalObjItems_copy_err_at prog hpre t.pos k e rest s1 c m he hc]
  rfl

/-- C12, site Eval.lean:302 via :260 (evaluator.go:883): **an array literal one of whose elements
    cannot be copied (a function) blames THAT element's token**, not the `[`.  For an element at
    any position: the elements before it evaluate and copy (`BlameSites.Copied`). -/
theorem blame_array_element {K n : Nat} (t : Token) {pre : List Expr} {s s' : St}
    (hpre : Copied prog K pre s (n + 1) s') (e : Expr) (rest : List Expr)
    (s1 : St) (c : CellId) (m : String)
    (he : evalExpr prog n e s' = .ok c s1) (hc : copyVal (s1.heap.get c) = .error m) :
    evalExpr prog (K + 1) (.arr t (pre ++ e :: rest)) s =
      throwRt e.token.pos m { s1 with heap := (s1.heap.alloc (.str [] none)).2 } := by
  rw [evalExpr_arr]
  simp only [bind, EM.bind, evalExprList_copy_err_at prog hpre e rest s1 c m he hc]
  rfl

/-- C12, site Eval.lean:302 via :257 (evaluator.go:883): **a call one of whose arguments cannot be
    copied (a function passed as argument) blames THAT argument's token**, not the callee.  For
    an argument at any position (the callee is evaluated first, then the arguments in order). -/
theorem blame_call_argument {K n : Nat} (f : Expr) {pre : List Expr} {s s0 s' : St} (fc : CellId)
    (hf : evalExpr prog K f s = .ok fc s0)
    (hpre : Copied prog K pre s0 (n + 1) s') (e : Expr) (rest : List Expr)
    (s1 : St) (c : CellId) (m : String)
    (he : evalExpr prog n e s' = .ok c s1) (hc : copyVal (s1.heap.get c) = .error m) :
    evalExpr prog (K + 1) (.call f (pre ++ e :: rest)) s =
      throwRt e.token.pos m { s1 with heap := (s1.heap.alloc (.str [] none)).2 } := by
  rw [evalExpr_call]
  simp only [bind, EM.bind, hf, evalExprList_copy_err_at prog hpre e rest s1 c m he hc]
  rfl

/-- non-vacuity of the "elements before it" hypotheses: a one-element prefix, `true` -/
example : ∃ s', Copied Program.empty 2 [.lit ⟨.true_, 5, []⟩] default 1 s' :=
  ⟨_, .cons (c := 0) (w := .bool true)
    (s1 := { (default : St) with heap := (Heap.empty.alloc (.bool true)).2 })
    (by with_unfolding_all rfl) (by decide) (by rfl) (.nil _ _)⟩
example : ∃ acc' s', CopiedKV Program.empty 2 [(b!"a", .lit ⟨.true_, 5, []⟩)] [] default 1 acc' s' :=
  ⟨_, _, .cons (c := 0) (w := .bool true)
    (s1 := { (default : St) with heap := (Heap.empty.alloc (.bool true)).2 })
    (by with_unfolding_all rfl) (by decide) (by rfl) (.nil _ _ _)⟩

/-! #### calls (Eval.lean `callFunction`; evaluator.go:411-457) -/

/-- C12, sites Eval.lean:379, :388, :394 via :258 (evaluator.go:415, 427, 456,
    `e.error(exp.Token(), …)` with `exp` the call node): **every error of a call — calling
    something that is not a function; an error returned by a native function or method (wrong
    receiver kind, wrong / missing arguments, …); the call depth limit — blames the token of the
    callee expression** (`f` in `f(1)`; the leftmost token `$` in `$.a.push(1)`). -/
theorem blame_call (n : Nat) (f : Expr) (args : List Expr) (s s1 s2 : St) (fc : CellId)
    (acs : List CellId)
    (hf : evalExpr prog (n + 1) f s = .ok fc s1)
    (ha : evalExprList prog (n + 1) args true s1 = .ok acs s2) :
    ((∀ g b sp, s2.heap.get fc ≠ .native g b sp) → (∀ i, s2.heap.get fc ≠ .fn i) →
      evalExpr prog (n + 2) (.call f args) s =
        throwRt f.token.pos "attempted to call a non-function" s2) ∧
    (∀ g b sp m s', s2.heap.get fc = .native g b sp →
      callNative g (acs.map s2.heap.get) (b.map s2.heap.get) s2 = .ok (.error m) s' →
      evalExpr prog (n + 2) (.call f args) s = throwRt f.token.pos m s') ∧
    (∀ i fd, s2.heap.get fc = .fn i → prog.functions[i]? = some fd →
      s2.frames.length > callDepthLimit →
      evalExpr prog (n + 2) (.call f args) s =
        throwRt f.token.pos "call depth limit exceeded" s2) := by
  rw [evalExpr_call]
  simp only [bind, EM.bind, hf, ha]
  exact ⟨fun h1 h2 => callFunction_not_fn prog n _ fc acs s2 h1 h2,
    fun g b sp m s' hv hc => callFunction_native_err prog n _ fc acs s2 s' g b sp m hv hc,
    fun i fd hv hfd hd => callFunction_depth_err prog n _ fc acs s2 i fd hv hfd hd⟩

/-! #### match (evaluator.go:276-395) -/

/-- C12, site Eval.lean:318 via :265 (evaluator.go:290): **the call depth limit reached when a
    `match` arm is entered blames the `match` keyword token.**  For a case at any position: the
    cases before it (`pre`) do not match (`BlameSites.Skipped`). -/
theorem blame_match_depth {K n : Nat} (t : Token) (v : Expr) {pre : List MatchCase}
    (pats : List Expr) (body : Stmt)
    (rest : List MatchCase) {s s0 s1 : St} (s2 : St) {value : CellId} (b : List (Bytes × CellId))
    (hv : evalExpr prog K v s = .ok value s0)
    (hpre : Skipped prog K pre value s0 (n + 1) s1)
    (hm : evalCaseMatch prog n value pats s1 = .ok (some b) s2)
    (hd : s2.frames.length > callDepthLimit) :
    evalExpr prog (K + 1) (.match_ t v (pre ++ .mk pats body :: rest)) s =
      throwRt t.pos "call depth limit exceeded" s2 := by
  rw [evalExpr_match]
  simp only [bind, EM.bind, hv]
  rw [evalMatchCases_skipped prog hpre]
  exact evalMatchCases_depth_err prog n t.pos value pats body rest s1 s2 b hm hd

/-- C12, site Eval.lean:346 (evaluator.go:375): **a match pattern that is neither a literal, an
    array pattern nor an identifier blames that pattern's token** (`Expr.token`: e.g. the
    operator of a unary pattern `-1`, the leftmost token of `a.b`).  At the level of
    `evalCaseMatch`, which handles the alternatives of a case AND (one at a time) the elements
    of an array pattern: so the statement covers nested patterns too.  For an alternative at
    any position: the alternatives before it do not match (`BlameSites.AltsSkipped`). -/
theorem blame_match_pattern_unsupported {K n : Nat} {value : CellId} {pre : List Expr} {s s' : St}
    (hpre : AltsSkipped prog K pre value s (n + 1) s') (p : Expr) (rest : List Expr)
    (hp : patSupported p = false) :
    evalCaseMatch prog K value (pre ++ p :: rest) s =
      throwRt p.token.pos "not supported in match expressions" s' := by
  rw [evalCaseMatch_skipped prog hpre]
  exact evalCaseMatch_unsupported prog n value p rest s' hp

/-- C12, site Eval.lean:339 (evaluator.go:354): **a literal pattern that cannot be compared with
    the subject (the subject is an array or object, the literal is not null) blames the
    literal's token.**  Same level and generality as `blame_match_pattern_unsupported`. -/
theorem blame_match_literal {K n : Nat} {value : CellId} {pre : List Expr} {s s' : St}
    (hpre : AltsSkipped prog K pre value s (n + 1) s') (t : Token) (rest : List Expr)
    (s1 : St) (c : CellId) (m : String)
    (he : evalExpr prog n (.lit t) s' = .ok c s1)
    (hk : (s1.heap.get value).kind ≠ .unknown)
    (hc : (s1.heap.get value).compare (s1.heap.get c) = .error m) :
    evalCaseMatch prog K value (pre ++ .lit t :: rest) s = throwRt t.pos m s1 := by
  rw [evalCaseMatch_skipped prog hpre]
  exact evalCaseMatch_lit_err prog n value t rest s' s1 c m he hk hc

/-- … both seen from the `match` node: the error of testing the patterns of a case (whatever
    it is: `r` is `throwRt <pattern token>.pos …` by the two theorems above) is the result of
    the whole `match`, for a case at any position -/
theorem blame_match_pattern_node {K n : Nat} (t : Token) (v : Expr) {pre : List MatchCase}
    (pats : List Expr) (body : Stmt) (rest : List MatchCase) {s s0 s1 : St} {value : CellId}
    (hv : evalExpr prog K v s = .ok value s0)
    (hpre : Skipped prog K pre value s0 (n + 1) s1) (e : Err) (s2 : St)
    (hm : evalCaseMatch prog n value pats s1 = .err e s2) :
    evalExpr prog (K + 1) (.match_ t v (pre ++ .mk pats body :: rest)) s = .err e s2 := by
  rw [evalExpr_match]
  simp only [bind, EM.bind, hv]
  rw [evalMatchCases_skipped prog hpre]
  unfold evalMatchCases
  simp only [bind, EM.bind, hm]

/-- non-vacuity of the "cases / alternatives before it do not match" hypotheses: the subject is
    `false`, the case / alternative before is the literal `true` -/
example : ∃ s', Skipped Program.empty 3 [.mk [.lit ⟨.true_, 5, []⟩] (.expr (.lit ⟨.null, 9, []⟩))] 0
    { (default : St) with heap := (Heap.empty.alloc (.bool false)).2 } 2 s' :=
  ⟨_, .cons (s1 := { (default : St) with heap := ((Heap.empty.alloc (.bool false)).2.alloc (.bool true)).2 })
   (by with_unfolding_all rfl) (.nil _ _ _)⟩
example : ∃ s', AltsSkipped Program.empty 2 [.lit ⟨.true_, 5, []⟩] 0
    { (default : St) with heap := (Heap.empty.alloc (.bool false)).2 } 1 s' :=
  ⟨_, .cons (s1 := { (default : St) with heap := ((Heap.empty.alloc (.bool false)).2.alloc (.bool true)).2 })
   (by with_unfolding_all rfl) (.nil _ _ _)⟩

/-! #### `for (x in e)` (evaluator.go:1010-1076) -/

/-- C12, sites Eval.lean:491, :497 (evaluator.go:1014, 1022, `e.error(st.Token(), …)` where
    `StatementForIn.Token()` is the loop variable): **an unknown `$name` as loop variable blames
    the loop variable's token; an unknown `$name` as INDEX variable ALSO blames the (first) loop
    variable's token**, not the index variable's (the Go code passes `st.Token()` in both). -/
theorem blame_forin_variable (n : Nat) (id : Token) (iter : Expr) (body : Stmt) :
    (∀ idx s, lookupFrames s.frames id.text = none → id.text.head? = some 36 →
      evalStmt prog (n + 1) (.forIn id idx iter body) s = throwRt id.pos "unknown variable" s) ∧
    (∀ it s s1 c, getVariable id.text s = .ok (.ok c) s1 →
      lookupFrames s1.frames it.text = none → it.text.head? = some 36 →
      evalStmt prog (n + 1) (.forIn id (some it) iter body) s =
        throwRt id.pos "unknown variable" s1) :=
  ⟨fun idx s hl hd => forIn_ident_err prog n id idx iter body s hl hd,
   fun it s s1 c hv hl hd => forIn_index_err prog n id it iter body s s1 c hv hl hd⟩

/-- C12, site Eval.lean:511 (evaluator.go:1075): **`for (x in e)` / `for (x, i in e)` over a
    value that is not an array, object or string blames e's token** (`Expr.token` of the
    iterable expression) -/
theorem blame_forin_not_iterable (n : Nat) (id : Token) (iter : Expr) (body : Stmt)
    (s s1 s2 : St) (c ci : CellId) (hv : getVariable id.text s = .ok (.ok c) s1) :
    (evalExpr prog n iter s1 = .ok ci s2 → iterable (s2.heap.get ci) = false →
      evalStmt prog (n + 1) (.forIn id none iter body) s =
        throwRt iter.token.pos "not iterable" s2) ∧
    (∀ it s1' c', getVariable it.text s1 = .ok (.ok c') s1' →
      evalExpr prog n iter s1' = .ok ci s2 → iterable (s2.heap.get ci) = false →
      evalStmt prog (n + 1) (.forIn id (some it) iter body) s =
        throwRt iter.token.pos "not iterable" s2) :=
  ⟨fun he hk => forIn_not_iterable prog n id iter body s s1 s2 c ci hv he hk,
   fun it s1' c' hv' he hk => forIn_not_iterable_idx prog n id it iter body s s1 s1' s2 c c' ci hv hv' he hk⟩

end Blame

/-! #### the `-r` selector (Driver.lean:172; evaluator.go:1203) -/

/-- C12, site Driver.lean:172: **a `-r` selector whose value cannot be copied (it selects a
    method or a function) blames the selector expression's token** (`Expr.token`: the leftmost
    token, `$` in `$.length`), reported with the selector's text (`evalSelector`). -/
theorem blame_selector_copy (rootValue : JVal) (expr : Expr) (s s0 s1 : St) (v : Val) (c : CellId)
    (m : String) (hv : newValueJson rootValue s = .ok v s0)
    (he : evalExpr Program.empty evalFuel expr (selectorStart v s0) = .ok c s1)
    (hc : copyVal (s1.heap.get c) = .error m) :
    selectorRun rootValue expr s =
      throwRt expr.token.pos m { s1 with heap := (s1.heap.alloc .unknown).2 } :=
  selectorRun_copy_err rootValue expr s s0 s1 v c m hv he hc

/-! #### the blamed token belongs to the faulting node -/

/-- `Expr.token` is one of the node's own tokens -/
theorem token_mem_tokens (kw : Bool) : ∀ e : Expr, e.token ∈ e.tokens kw
  | .lit t => by simp [Expr.token, Expr.tokens]
  | .ident t => by simp [Expr.token, Expr.tokens]
  | .arr t items => by simp [Expr.token, Expr.tokens]
  | .obj t items => by simp [Expr.token, Expr.tokens]
  | .unary e op p => by simp [Expr.token, Expr.tokens]
  | .binary l r op => by
    have := token_mem_tokens kw l
    simp [Expr.token, Expr.tokens, this]
  | .call f args => by
    have := token_mem_tokens kw f
    simp [Expr.token, Expr.tokens, this]
  | .match_ t v cases => by simp [Expr.token, Expr.tokens]

theorem tokens_sub_tokensEs (kw : Bool) (e : Expr) : ∀ es : List Expr, e ∈ es →
    ∀ t ∈ e.tokens kw, t ∈ tokensEs kw es
  | [], h => by cases h
  | x :: xs, h => by
    intro t ht
    simp only [tokensEs, List.mem_append]
    rcases List.mem_cons.mp h with rfl | h
    · exact .inl ht
    · exact .inr (tokens_sub_tokensEs kw e xs h t ht)

/-- C12: **every token blamed by the theorems of this section is one of the tokens of the node
    whose evaluation faulted** (`Expr.tokens` / `Stmt.tokens`: the tokens stored in that subtree):
    operator and both operands' tokens of a binary node; the operator of a unary node; the callee's
    token and each argument's token of a call; each element's token of an array literal; the `{`
    of an object literal; the `match` keyword and each top-level pattern's token; the loop
    variable and the iterable's token of `for … in`.  So the reported column is the first byte of
    a token INSIDE the offending construct (see `blame_table`). -/
theorem blamed_token_in_node (kw : Bool) :
    (∀ l r op, op ∈ (Expr.binary l r op).tokens kw ∧ l.token ∈ (Expr.binary l r op).tokens kw ∧
      r.token ∈ (Expr.binary l r op).tokens kw) ∧
    (∀ e op p, op ∈ (Expr.unary e op p).tokens kw) ∧
    (∀ f args, f.token ∈ (Expr.call f args).tokens kw ∧
      ∀ a ∈ args, a.token ∈ (Expr.call f args).tokens kw) ∧
    (∀ t items, ∀ a ∈ items, a.token ∈ (Expr.arr t items).tokens kw) ∧
    (∀ t items, t ∈ (Expr.obj t items).tokens kw) ∧
    (∀ t v pats body rest, t ∈ (Expr.match_ t v (.mk pats body :: rest)).tokens kw ∧
      ∀ p ∈ pats, p.token ∈ (Expr.match_ t v (.mk pats body :: rest)).tokens kw) ∧
    (∀ id idx iter body, id ∈ (Stmt.forIn id idx iter body).tokens kw ∧
      iter.token ∈ (Stmt.forIn id idx iter body).tokens kw) ∧
    (∀ e : Expr, e.token ∈ e.tokens kw) := by
  refine ⟨fun l r op => ?_, fun e op p => ?_, fun f args => ⟨?_, fun a ha => ?_⟩,
    fun t items a ha => ?_, fun t items => ?_, fun t v pats body rest => ⟨?_, fun p hp => ?_⟩,
    fun id idx iter body => ?_, token_mem_tokens kw⟩
  · simp [Expr.tokens, token_mem_tokens kw l, token_mem_tokens kw r]
  · simp [Expr.tokens]
  · simp [Expr.tokens, token_mem_tokens kw f]
  · simp only [Expr.tokens, List.mem_append]
    exact .inr (tokens_sub_tokensEs kw a args ha _ (token_mem_tokens kw a))
  · simp only [Expr.tokens, List.mem_cons]
    exact .inr (tokens_sub_tokensEs kw a items ha _ (token_mem_tokens kw a))
  · simp [Expr.tokens]
  · simp [Expr.tokens]
  · simp only [Expr.tokens, tokensCases, List.mem_cons, List.mem_append]
    exact .inr (.inr (.inl (.inl (tokens_sub_tokensEs kw p pats hp _ (token_mem_tokens kw p)))))
  · simp [Stmt.tokens, token_mem_tokens kw iter]


/-! #### the summary -/

/-- C12, runtime errors, the whole report — and **the table of blamed tokens**.

    What a run reports for a runtime error: the text `s` (program or selector), an offset `pos`
    and a message.  This theorem (for the rule table of src/parser.go) says: at `pos` a token
    other than EOF is written in `s` (`SpelledIn`: the FIRST byte of the token, or of the content
    of a string / regex literal), strictly inside `s`; the reported line is 1 + the number of
    line feeds before `pos`, the reported column is the distance from the start of that line to
    `pos` — so the caret stands under the first byte of that token — and the quoted line is that
    line of `s`.

    WHICH token that is, is said by the theorems of this section, one per place where the
    evaluator raises a runtime error (all `throwRt` of Jqawk/Model/Eval.lean and Driver.lean;
    left: model line / Go line of src/evaluator.go; right: the blamed token; it is the token the
    Go code passes to `e.error` at that line):

    | site (Eval.lean / evaluator.go) | fault | blamed token | theorem |
    |---|---|---|---|
    | 99, 103 via 439 / 820, 826 | `a = b`: target cannot be created; value cannot be copied | token of the left side `a` (leftmost token of a chain) | `blame_assignment` |
    | 99 via 410 / 820 via 486 | `a++ a-- ++a --a`: target cannot be created | the operator `++` / `--` | `blame_incdec` |
    | 103 via 410 | (`++`/`--` store a number, which always copies: `copyVal (.num x) = .ok _`; no theorem) | the operator, if it occurred | — |
    | 203 via 438 / 600 | `a.b`, `a[b]`: lookup fails | token of `a` (leftmost) | `blame_member_access` |
    | 241 / 213 | bad escape in a string literal / field name | the literal (first byte after the quote) | `blame_string_literal` |
    | 246 / 227 | number literal does not parse (the lexer never produces one) | the literal | `blame_number_literal` |
    | 276 / 166 | `$` without a current record (no run reaches it: every rule sets one) | the `$` | `blame_dollar` |
    | 280 / 172 | unknown `$name` | that identifier | `blame_dollar_variable` |
    | 290 via 267 / 329 | object literal: member value cannot be copied | the `{` of the literal | `blame_object_literal` |
    | 302 via 260 / 883 | array literal: element cannot be copied | that element's token | `blame_array_element` |
    | 302 via 257 / 883 | call: argument cannot be copied | that argument's token | `blame_call_argument` |
    | 318 via 265 / 290 | `match`: call depth limit on entering an arm | the `match` keyword | `blame_match_depth` |
    | 339 / 354 | literal pattern cannot be compared with the subject | the literal pattern | `blame_match_literal` (+ `blame_match_pattern_node`) |
    | 346 / 375 | unsupported pattern | the pattern's token (`Expr.token`) | `blame_match_pattern_unsupported` (+ `blame_match_pattern_node`) |
    | 379, 388, 394 via 258 / 415, 427, 456 | call: native / method error, depth limit, not a function | token of the callee expression (leftmost) | `blame_call` |
    | 413 / 498 | unknown unary operator (never parsed: `parse_ops`, Lemmas/ParserOps.lean) | the operator | `blame_unknown_unary_operator` |
    | 434 / 573 | `a is X`, X not a name (never parsed: `parse_wf`, Lemmas/ParserWF.lean) | X's token | `blame_is_type_name` |
    | 445 / 704, 709 | `~` `!~`: right side not a pattern / invalid | token of the RIGHT operand | `blame_regex_operand` |
    | 446 / 644 | comparison of incomparable values | token of the LEFT operand | `blame_cannot_compare` |
    | 446 / 682, 689 | `/` `%` by zero | the operator | `blame_divide_by_zero` |
    | 448 / 726 | unknown binary operator (never parsed: `parse_ops`) | the operator | `blame_unknown_binary_operator` |
    | 491, 497 / 1014, 1022 | `for (x, i in e)`: unknown `$name` as x or as i | the loop variable x (also for i) | `blame_forin_variable` |
    | 511 / 1075 | `for (x in e)`: e not iterable | e's token | `blame_forin_not_iterable` |
    | Driver 172 / 1203 | `-r` selector selects a method / function | the selector's token (leftmost) | `blame_selector_copy` |

    Each blamed token is one of the tokens of the node that faulted (`blamed_token_in_node`), every
    token of a parsed program / selector carries the offset of a token of the text
    (`parsed_blame_tokens`, `selector_tokens_are_tokens`) and is spelled there (`token_spelled`).
    Together: **line and quoted line agree with the text, and the column points at the first byte
    of the blamed token, which is a token of the offending construct.**
    Not in the model: Go's `fuzz test loop limit` error (evaluator.go:972, 1005; only with the
    fuzzing flag) and the two unreachable `default:` arms (evaluator.go:336, 1086). -/
theorem blame_table (src : Bytes) (sels : List Bytes) (files : List InputFile)
    (s : Bytes) (pos : Nat) (msg : String)
    (h : (evalProgram expectedRuleTable src sels files).outcome = .runtimeErr s pos msg) :
    (s = src ∨ s ∈ sels) ∧
    (∃ t, IsToken s t ∧ t.tag ≠ .eof ∧ t.pos = pos ∧ SpelledIn s t) ∧ pos < s.length ∧
    (splitLines s)[(getLineAndCol s pos).line - 1]? = some (getLineAndCol s pos).srcLine ∧
    (getLineAndCol s pos).col ≤ (getLineAndCol s pos).srcLine.length ∧
    (getLineAndCol s pos).col ≤ pos ∧
    (s.take (pos - (getLineAndCol s pos).col)).count 10 + 1 = (getLineAndCol s pos).line ∧
    (10 : UInt8) ∉ (s.drop (pos - (getLineAndCol s pos).col)).take (getLineAndCol s pos).col ∧
    (pos - (getLineAndCol s pos).col = 0 ∨ s[pos - (getLineAndCol s pos).col - 1]? = some 10) := by
  obtain ⟨hs, t, h1, h2, h3, h4, h5⟩ := runtime_error_pos_src src sels files s pos msg h
  have hle : pos ≤ s.length := Nat.le_of_lt h5
  obtain ⟨a1, a2⟩ := srcLine_is_line_N s pos hle
  obtain ⟨b1, b2, b3, b4⟩ := col_is_distance s pos hle
  exact ⟨hs, ⟨t, h1, h2, h3, h4⟩, h5, a1, a2, b1, b2, b3, b4⟩

/-! #### instances: each fault occurs, at the stated token

  Whole runs (program text → parser → evaluator): the outcome is a runtime error at the offset
  of the blamed token, whose first byte stands there, with the stated message.  For the four
  faults no parsed program reaches, hand-built nodes. -/

/-- `blame_divide_by_zero`: the `/` (offset 15) and the `%` (offset 14) -/
example : (match (evalProgram expectedRuleTable b!"BEGIN { x = 10 / 0 }" [] []).outcome with
    | .runtimeErr s pos msg => pos == 15 && s[pos]? == some 47 && msg == "divide by zero"
    | _ => false) = true := by decide +kernel
example : (match (evalProgram expectedRuleTable b!"BEGIN { x = 7 % 0.5 }" [] []).outcome with
    | .runtimeErr s pos msg => pos == 14 && s[pos]? == some 37 && msg == "divide by zero"
    | _ => false) = true := by decide +kernel
/-- … its hypotheses on a hand-built node: both operands evaluate, the divisor's value is zero -/
example : (match evalExpr Program.empty 1 (.lit ⟨.num, 12, b!"10"⟩) default with
    | .ok cl s1 => (match evalExpr Program.empty 1 (.lit ⟨.num, 17, b!"0"⟩) s1 with
      | .ok cr s2 => cl == 0 && cr == 1 && (s2.heap.get cr).asNum.isZero | _ => false)
    | _ => false) = true := by decide +kernel
/-- `blame_cannot_compare`: `o.k < 2` with an array in `o.k` blames the `o` (offset 29, on the
    second line), not the `<`; line 2, column 6 -/
example : (match (evalProgram expectedRuleTable b!"BEGIN { o = {\"k\": [1]}\n  x = o.k < 2 }" [] []).outcome with
    | .runtimeErr s pos msg => pos == 29 && s[pos]? == some 111 && msg == "cannot compare" &&
        getLineAndCol s pos == ⟨b!"  x = o.k < 2 }", 2, 6⟩
    | _ => false) = true := by decide +kernel
example : (Val.arr 0).kind ≠ .unknown ∧ (Val.num F64.one).kind ≠ .unknown ∧
    (Val.arr 0).compare (.num F64.one) = .error "cannot compare" := ⟨by decide, by decide, by rfl⟩
/-- `blame_regex_operand`: the right operand `1` (offset 18); the content of `"("` (offset 19) -/
example : (match (evalProgram expectedRuleTable b!"BEGIN { x = \"a\" ~ 1 }" [] []).outcome with
    | .runtimeErr s pos msg => pos == 18 && s[pos]? == some 49 &&
        msg == "a regex or a string must appear on the right hand side of ~"
    | _ => false) = true := by decide +kernel
example : (match (evalProgram expectedRuleTable b!"BEGIN { x = \"a\" ~ \"(\" }" [] []).outcome with
    | .runtimeErr s pos msg => pos == 19 && s[pos]? == some 40 && msg == "invalid regex"
    | _ => false) = true := by decide +kernel
/-- `blame_is_type_name`, `blame_unknown_binary_operator`, `blame_unknown_unary_operator`: nodes
    the parser never builds -/
example : (match evalExpr Program.empty 3
      (.binary (.lit ⟨.num, 0, b!"1"⟩) (.lit ⟨.num, 5, b!"2"⟩) ⟨.is, 2, []⟩) default,
      evalExpr Program.empty 3
      (.binary (.lit ⟨.num, 0, b!"1"⟩) (.lit ⟨.num, 5, b!"2"⟩) ⟨.comma, 2, []⟩) default,
      evalExpr Program.empty 3 (.unary (.lit ⟨.num, 3, b!"1"⟩) ⟨.comma, 1, []⟩ false) default with
    | .err (.runtime p1 m1) _, .err (.runtime p2 m2) _, .err (.runtime p3 m3) _ =>
      p1 == 5 && m1 == "expected a type name" && p2 == 2 && m2 == "unknown operator" &&
      p3 == 1 && m3 == "unknown operator"
    | _, _, _ => false) = true := by decide +kernel
example : isBinaryTag .comma = false ∧ isUnaryTag .comma = false ∧
    ∀ t, Expr.lit ⟨.num, 5, b!"2"⟩ ≠ .ident t := ⟨by decide, by decide, fun _ h => by cases h⟩
/-- `blame_member_access`: `a[-5]` on a one-element array blames the `a` (offset 21) -/
example : (match (evalProgram expectedRuleTable b!"BEGIN { a = [1]; x = a[-5] }" [] []).outcome with
    | .runtimeErr s pos msg => pos == 21 && s[pos]? == some 97 && msg == "index out of range"
    | _ => false) = true := by decide +kernel
example : (match getMember ⟨#[.arr 0, .num (F64.ofInt (-5))], #[#[]], #[]⟩ (.arr 0)
      (.num (F64.ofInt (-5))) with
    | .error m => m == "index out of range" | _ => false) = true := by decide +kernel
/-- `blame_assignment`, both cases: a member of a number cannot be created (the `x`, offset 15);
    a function cannot be copied (the `y`, offset 34) -/
example : (match (evalProgram expectedRuleTable b!"BEGIN { x = 1; x.a = 2 }" [] []).outcome with
    | .runtimeErr s pos msg => pos == 15 && s[pos]? == some 120 && msg == "cannot set member on a scalar"
    | _ => false) = true := by decide +kernel
example : (match (evalProgram expectedRuleTable b!"function f() { return 1 }\nBEGIN { y = f }" [] []).outcome with
    | .runtimeErr s pos msg => pos == 34 && s[pos]? == some 121 && msg == "cannot copy a function"
    | _ => false) = true := by decide +kernel
/-- `blame_incdec`: postfix and prefix both blame the `++` (offsets 18 and 15), not the `x` -/
example : (match (evalProgram expectedRuleTable b!"BEGIN { x = 1; x.a++ }" [] []).outcome,
      (evalProgram expectedRuleTable b!"BEGIN { x = 1; ++x.a }" [] []).outcome with
    | .runtimeErr s1 p1 m1, .runtimeErr s2 p2 _ => p1 == 18 && s1[p1]? == some 43 &&
        m1 == "cannot set member on a scalar" && p2 == 15 && s2[p2]? == some 43
    | _, _ => false) = true := by decide +kernel
example : needsCreate (.nil (some ⟨0, .str b!"a"⟩)) = true ∧ needsCreate (.num F64.one) = false ∧
    copyVal (.fn 0) = .error "cannot copy a function" ∧
    (match Re.compile b!"(" with | .invalid => true | _ => false) = true :=
  ⟨by decide, by decide, by rfl, by decide +kernel⟩
/-- `blame_string_literal`: the offset is that of the first byte after the opening quote -/
example : (match (evalProgram expectedRuleTable b!"BEGIN { x = \"a\\q\" }" [] []).outcome with
    | .runtimeErr s pos msg => pos == 13 && s[pos]? == some 97 && s[pos - 1]? == some 34 &&
        msg == "unknown escape char"
    | _ => false) = true := by decide +kernel
/-- `blame_number_literal`, `blame_dollar`: a token the lexer never produces; a state no run has -/
example : (match evalExpr Program.empty 1 (.lit ⟨.num, 4, b!"1x"⟩) default,
      evalExpr Program.empty 1 (.ident ⟨.dollar, 6, []⟩) default with
    | .err (.runtime p1 m1) _, .err (.runtime p2 m2) _ =>
      p1 == 4 && m1 == "could not parse number" && p2 == 6 && m2 == "unknown variable $"
    | _, _ => false) = true := by decide +kernel
example : F64.parse b!"1x" = none ∧ (default : St).ruleRoot = none := by decide +kernel
/-- `blame_dollar_variable`: `$foo` (offset 12) -/
example : (match (evalProgram expectedRuleTable b!"BEGIN { x = $foo }" [] []).outcome with
    | .runtimeErr s pos msg => pos == 12 && s[pos]? == some 36 && msg == "unknown variable"
    | _ => false) = true := by decide +kernel
/-- `blame_object_literal` (the `{`, offset 38), `blame_array_element` (the `f`, offset 42, not
    the `[`), `blame_call_argument` (the `f`, offset 47, not `printf`) -/
example : (match (evalProgram expectedRuleTable
      b!"function f() { return 1 }\nBEGIN { x = {\"a\": f} }" [] []).outcome,
      (evalProgram expectedRuleTable b!"function f() { return 1 }\nBEGIN { x = [1, f] }" [] []).outcome,
      (evalProgram expectedRuleTable
      b!"function f() { return 1 }\nBEGIN { printf(\"%s\", f) }" [] []).outcome with
    | .runtimeErr s1 p1 m1, .runtimeErr s2 p2 _, .runtimeErr s3 p3 _ =>
      p1 == 38 && s1[p1]? == some 123 && m1 == "cannot copy a function" &&
      p2 == 42 && s2[p2]? == some 102 && p3 == 47 && s3[p3]? == some 102
    | _, _, _ => false) = true := by decide +kernel
/-- `blame_call`: not a function (the `x`, offset 15); a builtin's error (`num`, offset 12); a
    method's error blames the receiver chain's first token (the `s`, offset 21); the depth
    limit (a hand-built state with 4099 open frames: the `f`, offset 23; a run reaches it by
    runaway recursion, `function f(x) { return f(x) }`) -/
example : (match (evalProgram expectedRuleTable b!"BEGIN { x = 1; x(2) }" [] []).outcome,
      (evalProgram expectedRuleTable b!"BEGIN { y = num() }" [] []).outcome,
      (evalProgram expectedRuleTable b!"BEGIN { s = \"x\"; y = s.split(1) }" [] []).outcome with
    | .runtimeErr s1 p1 m1, .runtimeErr s2 p2 m2, .runtimeErr s3 p3 m3 =>
      p1 == 15 && s1[p1]? == some 120 && m1 == "attempted to call a non-function" &&
      p2 == 12 && s2[p2]? == some 110 && m2 == "expected n argument(s)" &&
      p3 == 21 && s3[p3]? == some 115 && m3 == "wrong argument type"
    | _, _, _ => false) = true := by decide +kernel
example : (match evalExpr ⟨[], [⟨⟨.ident, 9, b!"f"⟩, [], .block Token.zero []⟩]⟩ 5
      (.call (.ident ⟨.ident, 23, b!"f"⟩) [])
      { (default : St) with heap := (Heap.empty.alloc (.fn 0)).2,
                            frames := ⟨b!"<root>", [(b!"f", 0)]⟩ :: List.replicate 4098 default } with
    | .err (.runtime pos msg) _ => pos == 23 && msg == "call depth limit exceeded"
    | _ => false) = true := by decide +kernel
/-- `blame_match_depth`: a hand-built state with 4098 open frames; the subject evaluates and the
    identifier pattern matches, then the `match` token (offset 7) is blamed -/
example : (match evalExpr Program.empty 5
      (.match_ ⟨.match_, 7, []⟩ (.lit ⟨.num, 14, b!"1"⟩)
        [.mk [.ident ⟨.ident, 19, b!"y"⟩] (.expr (.lit ⟨.num, 24, b!"2"⟩))])
      { (default : St) with frames := List.replicate 4098 default } with
    | .err (.runtime pos msg) _ => pos == 7 && msg == "call depth limit exceeded"
    | _ => false) = true := by decide +kernel
/-- `blame_match_literal` (the pattern `1`, offset 33), `blame_match_pattern_unsupported` (the
    `-` of the pattern `-1`, offset 24; nested in an array pattern, offset 32) -/
example : (match (evalProgram expectedRuleTable
      b!"BEGIN { a = [1]; x = match (a) { 1 => 2 } }" [] []).outcome,
      (evalProgram expectedRuleTable b!"BEGIN { x = match (1) { -1 => 2 } }" [] []).outcome,
      (evalProgram expectedRuleTable
      b!"BEGIN { x = match ([1,2]) { [1, -2] => 2 } }" [] []).outcome with
    | .runtimeErr s1 p1 m1, .runtimeErr s2 p2 m2, .runtimeErr s3 p3 _ =>
      p1 == 33 && s1[p1]? == some 49 && m1 == "cannot compare" &&
      p2 == 24 && s2[p2]? == some 45 && m2 == "not supported in match expressions" &&
      p3 == 32 && s3[p3]? == some 45
    | _, _, _ => false) = true := by decide +kernel
example : patSupported (.unary (.lit ⟨.num, 25, b!"1"⟩) ⟨.minus, 24, []⟩ false) = false := by decide
/-- … the second alternative of the second case (the `-` of `-5`, offset 35); the second member of
    an object literal still blames the `{` (offset 38) -/
example : (match (evalProgram expectedRuleTable
      b!"BEGIN { x = match (3) { 1 => 2, 2, -5 => 3 } }" [] []).outcome,
      (evalProgram expectedRuleTable
      b!"function f() { return 1 }\nBEGIN { x = {\"a\": 1, \"b\": f} }" [] []).outcome with
    | .runtimeErr s1 p1 _, .runtimeErr s2 p2 _ =>
      p1 == 35 && s1[p1]? == some 45 && p2 == 38 && s2[p2]? == some 123
    | _, _ => false) = true := by decide +kernel
/-- `blame_forin_variable`: `$q` as loop variable (offset 13); as INDEX variable the loop
    variable `x` (offset 13) is blamed, not `$q` (offset 16) -/
example : (match (evalProgram expectedRuleTable b!"BEGIN { for ($q in [1]) { } }" [] []).outcome,
      (evalProgram expectedRuleTable b!"BEGIN { for (x, $q in [1]) { } }" [] []).outcome with
    | .runtimeErr s1 p1 m1, .runtimeErr s2 p2 m2 =>
      p1 == 13 && s1[p1]? == some 36 && m1 == "unknown variable" &&
      p2 == 13 && s2[p2]? == some 120 && s2[16]? == some 36 && m2 == "unknown variable"
    | _, _ => false) = true := by decide +kernel
/-- `blame_forin_not_iterable`: the `5` (offset 18); the first token of `1 + 2` (offset 21) -/
example : (match (evalProgram expectedRuleTable b!"BEGIN { for (x in 5) { } }" [] []).outcome,
      (evalProgram expectedRuleTable b!"BEGIN { for (x, i in 1 + 2) { } }" [] []).outcome with
    | .runtimeErr s1 p1 m1, .runtimeErr s2 p2 _ =>
      p1 == 18 && s1[p1]? == some 53 && m1 == "not iterable" && p2 == 21 && s2[p2]? == some 49
    | _, _ => false) = true := by decide +kernel
/-- `blame_selector_copy`: `-r '  $.a.length'` selects a method: the `$` (offset 2 of the
    selector text) -/
example : (match (evalProgram expectedRuleTable b!"{ print }" [b!"  $.a.length"]
      [⟨b!"f", b!"{\"a\":[1]}", .eof⟩]).outcome with
    | .runtimeErr s pos msg => s == b!"  $.a.length" && pos == 2 && s[pos]? == some 36 &&
        msg == "cannot copy a nativefunction"
    | _ => false) = true := by decide +kernel

end Jqawk.C12
