/-
  C12 — reported error positions are consistent with, and point into, the program text.
  `getLineAndCol` (the byte-based model of `GetLineAndCol`, src/lexer.go:245-264) is characterised
  for EVERY offset; the positions the lexer attaches to errors and tokens lie inside the text it
  was given, and an "unexpected character" error sits exactly on the offending byte.
  Section 5 (provenance): every position a run can report — syntax, lexical and runtime errors,
  of the program or of a `-r` selector — is the offset of a token of the text it is reported
  with (or of the offending byte of a lexical error); every token stored in a parsed AST carries
  such an offset; with the exceptions exhibited there (EOF token, blank selector).
-/
import Jqawk.Lemmas.Lexer
import Jqawk.Lemmas.ProvenanceDriver

namespace Jqawk.C12
open Jqawk LineColLemmas

/-! ### 1. offset ↦ (line text, line, column) -/

/-- Every offset into a text decomposes as: complete lines `pre` (empty or ending in a newline),
    the newline-free part `cur` of the current line before the offset, and what follows. -/
theorem decompose (src : Bytes) (pos : Nat) (h : pos ≤ src.length) :
    ∃ pre cur after, src = pre ++ cur ++ after ∧ pos = pre.length + cur.length ∧
      (pre = [] ∨ pre.getLast? = some 10) ∧ (10 : UInt8) ∉ cur := by
  obtain ⟨pre, cur, hpc, hp, hc⟩ := split_last_line (src.take pos)
  refine ⟨pre, cur, src.drop pos, ?_, ?_, hp, hc⟩
  · rw [← hpc, List.take_append_drop]
  · have := congrArg List.length hpc
    simp at this; omega

/-- … and the decomposition is unique (so `getLineAndCol_spec` determines the result). -/
theorem decompose_unique (pre cur pre' cur' : Bytes)
    (hp : pre = [] ∨ pre.getLast? = some 10) (hc : (10 : UInt8) ∉ cur)
    (hp' : pre' = [] ∨ pre'.getLast? = some 10) (hc' : (10 : UInt8) ∉ cur')
    (h : pre ++ cur = pre' ++ cur') : pre = pre' ∧ cur = cur' := by
  -- the shorter `pre` is a prefix of the longer; the difference lies in a `cur` and ends in 10
  have key : ∀ (p c p' c' : Bytes), (p' = [] ∨ p'.getLast? = some 10) → (10 : UInt8) ∉ c →
      p ++ c = p' ++ c' → p.length ≤ p'.length → p = p' := by
    intro p c p' c' hq hc h hl
    obtain ⟨d, hd⟩ : ∃ d, p' = p ++ d := by
      refine ⟨p'.drop p.length, ?_⟩
      have h1 := congrArg (List.take p.length) h
      simp [List.take_append_of_le_length hl] at h1
      conv => lhs; rw [← List.take_append_drop p.length p']
      rw [← h1]
    subst hd
    rw [List.append_assoc] at h
    have hc2 : c = d ++ c' := List.append_cancel_left h
    cases d with
    | nil => simp
    | cons x xs =>
      exfalso
      rcases hq with hq | hq
      · simp at hq
      · have : (10 : UInt8) ∈ x :: xs := by
          have hne : (x :: xs) ≠ [] := by simp
          rw [List.getLast?_append, List.getLast?_eq_some_getLast hne, Option.some_or] at hq
          exact List.mem_of_getLast? (by rw [List.getLast?_eq_some_getLast hne]; exact hq)
        exact hc (hc2 ▸ List.mem_append_left _ this)
  rcases Nat.le_total pre.length pre'.length with hl | hl
  · have e := key pre cur pre' cur' hp' hc h hl
    subst e; exact ⟨rfl, List.append_cancel_left h⟩
  · have e := key pre' cur' pre cur hp hc' h.symm hl
    subst e; exact ⟨rfl, List.append_cancel_left h⟩

/-- C12, `GetLineAndCol`: for every offset within the text (written as in `decompose`; offsets
    beyond the end: `pos_beyond_end`), the line is 1 + the number of newlines before the
    offset, the column is the distance to the start of that line, and the quoted text is that
    whole line without its newline. -/
theorem getLineAndCol_spec (pre cur after : Bytes)
    (hp : pre = [] ∨ pre.getLast? = some 10) (hc : (10 : UInt8) ∉ cur) :
    getLineAndCol (pre ++ cur ++ after) (pre.length + cur.length)
      = ⟨cur ++ takeLine after, 1 + pre.count 10, cur.length⟩ := by
  unfold getLineAndCol
  rcases hp with rfl | hp
  · have := aux_skip_noNl cur hc (cur ++ after) after 1 0 0
    simp only [Nat.add_zero] at this
    simp only [List.nil_append, List.length_nil, Nat.zero_add, List.count_nil]
    rw [this, aux_zero, takeLine_append_of_not_mem _ _ hc]
    simp
  · rw [List.append_assoc, aux_skip_lines pre hp]
    have := aux_skip_noNl cur hc (cur ++ after) after (1 + pre.count 10) 0 0
    simp only [Nat.add_zero] at this
    rw [this, aux_zero, takeLine_append_of_not_mem _ _ hc]
    simp

example : getLineAndCol (b!"a\nb\n" ++ b!"cd" ++ b!"e\nf") 6 = ⟨b!"cde", 3, 2⟩ := by decide
example : (b!"a\nb\n").getLast? = some 10 ∧ (10 : UInt8) ∉ b!"cd" := by decide

/-! ### 2. the quoted line is line N of the text -/

/-- The text split at newlines (`strings.Split(src, "\n")`). -/
def splitLines : Bytes → List Bytes
  | [] => [[]]
  | c :: cs =>
    if c == 10 then [] :: splitLines cs
    else match splitLines cs with
      | l :: ls => (c :: l) :: ls
      | [] => [[c]]

example : splitLines b!"ab\n\ncd\n" = [b!"ab", b!"", b!"cd", b!""] := by decide

theorem splitLines_ne_nil (s : Bytes) : splitLines s ≠ [] := by
  cases s with
  | nil => simp [splitLines]
  | cons c cs =>
    simp only [splitLines]
    split
    · simp
    · split <;> simp

theorem splitLines_cons_nl (cs : Bytes) : splitLines (10 :: cs) = [] :: splitLines cs := by
  simp [splitLines]

theorem splitLines_cons_of_ne (c : UInt8) (cs : Bytes) (h : c ≠ 10) :
    ∃ l ls, splitLines cs = l :: ls ∧ splitLines (c :: cs) = (c :: l) :: ls := by
  cases heq : splitLines cs with
  | nil => exact absurd heq (splitLines_ne_nil cs)
  | cons l ls => exact ⟨l, ls, rfl, by simp [splitLines, h, heq]⟩

theorem splitLines_head (s : Bytes) : (splitLines s)[0]? = some (takeLine s) := by
  induction s with
  | nil => rfl
  | cons c cs ih =>
    simp only [splitLines, takeLine]
    split
    · rfl
    · split
      · rename_i l ls heq
        rw [heq] at ih; simp at ih; simp [ih]
      · rename_i heq; exact absurd heq (splitLines_ne_nil cs)

theorem splitLines_noNl (cur after : Bytes) (hc : (10 : UInt8) ∉ cur) :
    (splitLines (cur ++ after))[0]? = some (cur ++ takeLine after) := by
  rw [splitLines_head, takeLine_append_of_not_mem _ _ hc]

theorem splitLines_skip (pre : Bytes) (hp : pre.getLast? = some 10) (rest : Bytes) (i : Nat) :
    (splitLines (pre ++ rest))[pre.count 10 + i]? = (splitLines rest)[i]? := by
  induction pre with
  | nil => simp at hp
  | cons c cs ih =>
    by_cases h10 : c = 10
    · subst h10
      cases cs with
      | nil => simp [splitLines, Nat.add_comm 1 i]
      | cons d ds =>
        have := ih (by simpa [List.getLast?_cons_cons] using hp)
        simp only [List.cons_append, splitLines, beq_self_eq_true, ↓reduceIte, List.count_cons_self]
        rw [show List.count 10 (d :: ds) + 1 + i = (List.count 10 (d :: ds) + i) + 1 by omega,
          List.getElem?_cons_succ]
        exact this
    · cases cs with
      | nil => simp at hp; exact absurd hp h10
      | cons d ds =>
        have ih' := ih (by simpa [List.getLast?_cons_cons] using hp)
        have hcnt : 0 < List.count 10 (d :: ds) := by
          apply List.count_pos_iff.mpr
          exact List.mem_of_getLast? (by simpa [List.getLast?_cons_cons] using hp)
        have hcc : List.count 10 (c :: d :: ds) = List.count 10 (d :: ds) := by
          simp [List.count_cons, h10]
        rw [hcc]
        obtain ⟨l, ls, heq, heq'⟩ := splitLines_cons_of_ne c (d :: ds ++ rest) h10
        rw [List.cons_append (a := c), heq']
        rw [heq] at ih'
        obtain ⟨m, hm⟩ : ∃ m, List.count 10 (d :: ds) + i = m + 1 :=
          ⟨List.count 10 (d :: ds) + i - 1, by omega⟩
        rw [hm] at ih' ⊢
        simpa using ih'

/-- C12: the quoted source line is exactly line N of the program text, and the column lies
    within it (possibly at its end). -/
theorem srcLine_is_line_N (src : Bytes) (pos : Nat) (h : pos ≤ src.length) :
    (splitLines src)[(getLineAndCol src pos).line - 1]? = some (getLineAndCol src pos).srcLine ∧
    (getLineAndCol src pos).col ≤ (getLineAndCol src pos).srcLine.length := by
  obtain ⟨pre, cur, after, rfl, rfl, hp, hc⟩ := decompose src pos h
  rw [getLineAndCol_spec pre cur after hp hc]
  simp only [Nat.add_sub_cancel_left, List.length_append]
  refine ⟨?_, by omega⟩
  rcases hp with rfl | hp
  · simpa using splitLines_noNl cur after hc
  · have := splitLines_skip pre hp (cur ++ after) 0
    rw [List.append_assoc]
    simpa [splitLines_noNl cur after hc] using this

/-- the column is the offset minus the offset of the start of the line; the line start is
    either 0 or just after a newline -/
theorem col_is_distance (src : Bytes) (pos : Nat) (h : pos ≤ src.length) :
    let lc := getLineAndCol src pos
    lc.col ≤ pos ∧ (src.take (pos - lc.col)).count 10 + 1 = lc.line ∧
    (10 : UInt8) ∉ (src.drop (pos - lc.col)).take lc.col ∧
    (pos - lc.col = 0 ∨ src[pos - lc.col - 1]? = some 10) := by
  obtain ⟨pre, cur, after, rfl, rfl, hp, hc⟩ := decompose src pos h
  rw [getLineAndCol_spec pre cur after hp hc]
  simp only [Nat.add_sub_cancel]
  refine ⟨by omega, ?_, ?_, ?_⟩
  · rw [List.append_assoc, List.take_left]; omega
  · rw [List.append_assoc, List.drop_left, List.take_left]; exact hc
  · rcases hp with rfl | hp
    · simp
    · right
      have hne : pre ≠ [] := by rintro rfl; simp at hp
      have hl : 0 < pre.length := List.length_pos_iff.mpr hne
      rw [List.append_assoc, List.getElem?_append_left (by omega)]
      rw [List.getLast?_eq_getElem?] at hp
      exact hp

/-! ### 3. offsets beyond the end -/

/-- C12: an offset at or beyond the end of the text is treated as the end of the text. -/
theorem pos_beyond_end (src : Bytes) (pos : Nat) (h : src.length ≤ pos) :
    getLineAndCol src pos = getLineAndCol src src.length :=
  aux_beyond src src 1 0 pos h

example : getLineAndCol b!"ab\ncd" 100 = ⟨b!"cd", 2, 2⟩ := by decide

/-! ### 4. positions attached by the lexer -/

open Lexer in
/-- C12: the position of a lexical error lies inside the text the lexer was given (between the
    current offset and the end of the text, inclusive). -/
theorem next_error_in_text (s : LexState) (e : SynErr) (h : Lexer.next s = .error e) :
    s.pos ≤ e.pos ∧ e.pos ≤ s.pos + s.rest.length := by
  obtain ⟨ws, r, h1, _, h3⟩ := next_cases s
  rw [h3] at h
  cases r with
  | nil => cases h
  | cons c cs =>
    have hl : s.rest.length = ws.length + (cs.length + 1) := by rw [h1]; simp
    rcases (lexAt_res c cs _).error h with rfl | ⟨_, _, rfl⟩
    · dsimp only; omega
    · dsimp only; omega

example : Lexer.next ⟨b!"  \"abc", 10, 7⟩ = .error ⟨13, "unexpected EOF while reading string"⟩ := by
  rfl

open Lexer in
/-- C12: an "unexpected character" error sits exactly on the offending byte: that byte exists,
    only blanks, tabs, CRs and comments (`ws`, what `skipWs` skips) precede it, and it is the
    byte `skipWs` stops at. -/
theorem illegal_char_exact (s : LexState) (e : SynErr) (h : Lexer.next s = .error e)
    (hm : e.msg = "unexpected character") :
    ∃ ws c rest, s.rest = ws ++ c :: rest ∧ e.pos = s.pos + ws.length ∧
      Lexer.skipWs (s.rest.length + 1) s.rest s.pos = (c :: rest, e.pos) := by
  obtain ⟨ws, r, h1, h2, h3⟩ := next_cases s
  rw [h3] at h
  cases r with
  | nil => cases h
  | cons c cs =>
    rcases (lexAt_res c cs _).error h with rfl | ⟨_, _, rfl⟩
    · exact ⟨ws, c, cs, h1, rfl, h2⟩
    · simp at hm

open Lexer in
/-- C12: … and the offending byte is one that cannot start a token: it is not a newline, `$`,
    a digit, a letter, `_`, an operator or bracket byte, or a quote (`canStartToken`), nor `&`
    or `|`; or it is an `&` / `|` that is not doubled.  (A partial converse is
    `illegal_char_rejected`.) -/
theorem illegal_char_byte (s : LexState) (e : SynErr) (h : Lexer.next s = .error e)
    (hm : e.msg = "unexpected character") :
    ∃ ws c rest, s.rest = ws ++ c :: rest ∧ e.pos = s.pos + ws.length ∧
      ((canStartToken c = false ∧ c ≠ 38 ∧ c ≠ 124) ∨ (c = 38 ∧ rest.head? ≠ some 38) ∨
       (c = 124 ∧ rest.head? ≠ some 124)) := by
  obtain ⟨ws, r, h1, h2, h3⟩ := next_cases s
  rw [h3] at h
  cases r with
  | nil => cases h
  | cons c cs =>
    refine ⟨ws, c, cs, h1, ?_, lexAt_unexpected c cs _ e h hm⟩
    rcases (lexAt_res c cs _).error h with rfl | ⟨_, _, rfl⟩
    · rfl
    · simp at hm

open Lexer in
/-- Partial converse of `illegal_char_byte`: a byte that cannot start a token and is none of
    `&`, `|`, `#`, blank, tab, CR is rejected with "unexpected character" at exactly its offset,
    when only blanks, tabs and CRs precede it.  (Not covered: a comment before it; a lone `&` or
    `|`.) -/
theorem illegal_char_rejected (ws rest : Bytes) (c : UInt8) (p ts : Nat)
    (hws : ∀ b ∈ ws, b = 32 ∨ b = 9 ∨ b = 13)
    (hc : canStartToken c = false) (h38 : c ≠ 38) (h124 : c ≠ 124) (h35 : c ≠ 35)
    (hbl : c ≠ 32 ∧ c ≠ 9 ∧ c ≠ 13) :
    Lexer.next ⟨ws ++ c :: rest, p, ts⟩ = .error ⟨p + ws.length, "unexpected character"⟩ := by
  have hb : ∀ b ∈ ws, isBlankB b = true := by
    intro b hb; rcases hws b hb with rfl | rfl | rfl <;> rfl
  rw [next_eq]; dsimp only
  have : (ws ++ c :: rest).length + 1 = ws.length + ((c :: rest).length + 1) := by simp; omega
  rw [this, skipWs_blanks ws hb, skipWs_succ_cons]
  have hcb : isBlankB c = false := by simp [isBlankB, hbl.1, hbl.2.1, hbl.2.2]
  have hc35 : (c == 35) = false := by simpa using h35
  simp only [hcb, hc35, Bool.false_eq_true, ↓reduceIte]
  exact lexAt_of_cannotStart c rest _ hc h38 h124

example : Lexer.canStartToken 64 = false ∧ Lexer.canStartToken 96 = false ∧
    Lexer.canStartToken 92 = false := by decide
/-- non-vacuity of the hypotheses of `illegal_char_rejected`: `@` behind a blank and a tab -/
example : Lexer.next ⟨b!" \t" ++ 64 :: b!" b", 5, 1⟩ = .error ⟨7, "unexpected character"⟩ :=
  illegal_char_rejected b!" \t" b!" b" 64 5 1 (by decide) (by decide) (by decide) (by decide)
    (by decide) (by decide)

example : Lexer.next ⟨b!" \t# c\n", 0, 0⟩ = .ok (⟨.newline, 5, []⟩, ⟨[], 6, 5⟩) := by rfl
example : Lexer.next ⟨b!"\n  @ b", 1, 0⟩ = .ok (⟨.newline, 1, []⟩, ⟨b!"  @ b", 2, 1⟩) := by rfl
example : Lexer.next ⟨b!"  @ b", 2, 1⟩ = .error ⟨4, "unexpected character"⟩ := by rfl

open Lexer in
/-- C12: token positions.  The successor state lies inside the text, `rest` stays "the text from
    `pos` on", and a non-EOF token starts at or after the old offset and before the new one.
    (The EOF token carries Go's stale `tokenStart`, which may lie before `s.pos`.) -/
theorem next_token_pos (s : LexState) (t : Token) (s' : LexState) (h : Lexer.next s = .ok (t, s')) :
    s.pos ≤ s'.pos ∧ s'.pos ≤ s.pos + s.rest.length ∧ s'.rest = s.rest.drop (s'.pos - s.pos) ∧
    (t.tag ≠ .eof → s.pos ≤ t.pos ∧ t.pos ≤ s'.pos) := by
  obtain ⟨ws, r, h1, _, h3⟩ := next_cases s
  rw [h3] at h
  cases r with
  | nil =>
    cases h
    simp only [List.append_nil] at h1
    refine ⟨by simp, by simp [h1], ?_, fun hne => absurd rfl hne⟩
    simp [h1]
  | cons c cs =>
    obtain ⟨tok, _, h4, h5, h6, h7⟩ := (lexAt_res c cs _).consumed h
    have hl : s.rest.length = ws.length + (tok.length + s'.rest.length) := by
      rw [h1, h4]; simp
    refine ⟨by omega, by omega, ?_, fun _ => ⟨by omega, h7⟩⟩
    rw [h1, h4, h5, ← List.append_assoc]
    have : s.pos + ws.length + tok.length - s.pos = (ws ++ tok).length := by simp; omega
    rw [this, List.drop_left]

example : Lexer.next ⟨b!"  foo(1)", 3, 0⟩ = .ok (⟨.ident, 5, b!"foo"⟩, ⟨b!"(1)", 8, 5⟩) := by rfl

/-- the EOF token's position is the stale `tokenStart`: after `1 ` it is 0, not 2 -/
example : Lexer.next ⟨b!" ", 1, 0⟩ = .ok (⟨.eof, 0, []⟩, ⟨[], 2, 0⟩) := by rfl

/-- C12: the lexer state invariant "`rest` is the source from `pos` on" is preserved. -/
theorem next_preserves_invariant (src : Bytes) (s : LexState) (t : Token) (s' : LexState)
    (h : Lexer.next s = .ok (t, s')) (hinv : s.rest = src.drop s.pos) :
    s'.rest = src.drop s'.pos := by
  obtain ⟨h1, _, h3, _⟩ := next_token_pos s t s' h
  rw [h3, hinv, List.drop_drop]
  congr 1; omega

example : (LexState.init b!"ab").rest = (b!"ab").drop (LexState.init b!"ab").pos := rfl
/-- non-vacuity of both hypotheses together: a second step, from a state satisfying the invariant -/
example : Lexer.next ⟨b!" += 1 }", 3, 2⟩ = .ok (⟨.plusEqual, 4, []⟩, ⟨b!" 1 }", 6, 4⟩) ∧
    b!" += 1 }" = (b!"{ x += 1 }").drop 3 := ⟨by rfl, by decide⟩

/-! ### 5. provenance: every reported position is the offset of a token of the text

  Sections 1–4 say what line, column and quoted line belong to an offset, and that the lexer's
  own errors and tokens carry the offset where they start.  This section settles where the
  offsets of ALL reported errors come from: syntax errors raised by the parser, lexical errors
  passed on by it, and runtime errors raised by the evaluator (in rule patterns and bodies, in
  function bodies, in match arms, and in `-r` selector expressions).

  `Prov.Lexed Rq src last s` are the lexer states reachable from the start of `src` by the two
  requests the parser makes (`Next()`; `Regex()` when the tag of the last token satisfies `Rq`);
  `Prov.IsTokenOf Rq src t` says that the lexer produced `t` in such a state.  For the parser of
  src/parser.go `Rq = Prov.AfterSlash` (the rule table asks for `Regex()` only when the current
  token is `/`, `tblRq_expected`); for an arbitrary table `Rq = fun _ => True`.
  (`IsTokenOf` covers both readings of a `/` — division operator, or opening slash of a regex
  literal when a closing slash follows — since which one the parser takes depends on the parse;
  either way the token is written in the text where it says, `token_spelled`.) -/

open Prov

/-- `t` is a token of the text `src` (the lexer driven as the parser of the real rule table
    drives it) -/
abbrev IsToken (src : Bytes) (t : Token) : Prop := IsTokenOf AfterSlash src t

/-- `p` is the offset carried by a token of the text `src` -/
abbrev IsTokenStart (src : Bytes) (p : Nat) : Prop := TokenStart AfterSlash src p

/-- `e` is a lexical error of the text `src` -/
abbrev IsLexErr (src : Bytes) (e : SynErr) : Prop := IsLexErrOf AfterSlash src e

/-- C12, tokens: **every token of a text other than EOF is written in the text at the offset it
    carries**: keywords and operators by their spelling, identifiers and numbers by their text,
    a string between two equal quotes (the offset is that of the first byte after the opening
    quote), a regex literal between two slashes (likewise).  For the EOF token `SpelledIn` is
    `True` (nothing is claimed here; its offset is settled by `eof_token_pos`). -/
theorem token_spelled (src : Bytes) (t : Token) (h : IsToken src t) : SpelledIn src t :=
  h.spelled

/-- … so a token other than EOF starts strictly inside the text. -/
theorem token_pos_in_text (src : Bytes) (t : Token) (h : IsToken src t) (hne : t.tag ≠ .eof) :
    t.pos < src.length :=
  h.spelled.pos_lt hne

example : IsToken b!"  foo(1)" ⟨.ident, 2, b!"foo"⟩ :=
  ⟨_, _, _, .init, .inl (by rfl)⟩
example : SpelledIn b!"x ~ /a+/" ⟨.regex, 5, b!"a+"⟩ := by
  show 1 ≤ 5 ∧ (b!"x ~ /a+/")[5 - 1]? = some 47 ∧ (47 : UInt8) ∉ b!"a+" ∧
    ∃ rest, (b!"x ~ /a+/").drop 5 = b!"a+" ++ 47 :: rest
  exact ⟨by decide, by decide, by decide, [], by decide⟩
/-- a regex literal is a token of the text: `Next()` three times, then `Regex()` after the `/` -/
example : IsToken b!"x ~ /a+/" ⟨.regex, 5, b!"a+"⟩ :=
  ⟨⟨.divide, 4, []⟩, ⟨b!"a+/", 5, 4⟩, _,
    .next (.next (.next .init (t := ⟨.ident, 0, b!"x"⟩) (s' := ⟨b!" ~ /a+/", 1, 0⟩) (by rfl))
      (t := ⟨.tilde, 2, []⟩) (s' := ⟨b!" /a+/", 3, 2⟩) (by rfl)) (by rfl),
    .inr ⟨rfl, by rfl⟩⟩

/-- C12, FINDING (the EOF token is not where the text ends): the EOF token carries the offset
    of the token produced before it — newline tokens included — because Go's `tokenStart` field
    is not advanced at the end of the text; or 0 when the text holds no token at all.  So
    "unexpected token EOF" and "expected …" errors at the end of the input point at the START of
    the last token (or at the last line feed), not behind it. -/
theorem eof_token_pos (src : Bytes) (t : Token) (h : IsToken src t) (he : t.tag = .eof) :
    (∃ t', IsToken src t' ∧ t'.tag ≠ .eof ∧ t'.pos = t.pos ∧ SpelledIn src t') ∨
    (t.pos = 0 ∧ NoToken src) := by
  rcases h.eof_pos' he with ⟨t', h1, h2, h3⟩ | h
  · exact .inl ⟨t', h1, h2, h3, h1.spelled⟩
  · exact .inr h

/-- … more precisely the offset carried by the token produced IMMEDIATELY before it (the last
    token of the text when the lexer is driven to the end, as the parser does). -/
theorem eof_token_pos_last (src : Bytes) (last : Token) (s : LexState) (t : Token) (s' : LexState)
    (hl : Lexed AfterSlash src last s) (hn : Lexer.next s = .ok (t, s')) (he : t.tag = .eof) :
    t.pos = last.pos := by
  obtain ⟨ws, r, _, hc⟩ := next_spelled s t s' hn
  rcases hc with ⟨_, rfl, _⟩ | ⟨_, hsp⟩
  · exact hl.inv.ts
  · rcases hsp with ⟨_, h2, _⟩ | ⟨h2, _⟩
    · exact absurd he h2
    · rw [h2] at he; cases he

/-- non-vacuity of the hypotheses of `eof_token_pos` and `eof_token_pos_last`: the EOF token of
    `1 ` (offset 0, that of the `1`) and the state it is produced in -/
example : IsToken b!"1 " ⟨.eof, 0, []⟩ ∧ (⟨.eof, 0, []⟩ : Token).tag = .eof :=
  ⟨⟨_, _, _, .next .init (t := ⟨.num, 0, b!"1"⟩) (s' := ⟨b!" ", 1, 0⟩) (by rfl), .inl (by rfl)⟩,
    rfl⟩
example : Lexed AfterSlash b!"1 " ⟨.num, 0, b!"1"⟩ ⟨b!" ", 1, 0⟩ ∧
    Lexer.next ⟨b!" ", 1, 0⟩ = .ok (⟨.eof, 0, []⟩, ⟨[], 2, 0⟩) :=
  ⟨.next .init (by rfl), by rfl⟩

/-- witness: after `{ print 1 +` the error is reported at offset 10 (the `+`), not 11 -/
example : (match parseProgramSrc expectedRuleTable b!"{ print 1 +" with
    | .syntaxErr e => e.pos == 10 | _ => false) = true := by decide +kernel
/-- witness: with trailing line feeds it is reported at the last line feed: line 3, column 0,
    empty quoted line (Go prints the same) -/
example : (match parseProgramSrc expectedRuleTable b!"{ print 1 +\n\n\n" with
    | .syntaxErr e => e.pos == 13 && getLineAndCol b!"{ print 1 +\n\n\n" e.pos == ⟨[], 3, 0⟩
    | _ => false) = true := by decide +kernel
/-- witness: a selector of blanks only is rejected at offset 0, where a blank stands and no
    token starts (Go: `-r '   '` prints the caret in column 0) -/
example : (match parseExpressionSrc expectedRuleTable b!"   " with
    | .syntaxErr e => e.pos == 0 | _ => false) = true := by decide +kernel
example : NoToken b!"  # hi" := ⟨_, by rfl⟩

/-- C12, token offsets: **what the offset of a token means**: a token other than EOF is written
    there (strictly inside the text), or the offset is 0 and the text holds no token at all. -/
theorem tokenStart_meaning (src : Bytes) (p : Nat) (h : IsTokenStart src p) :
    (∃ t, IsToken src t ∧ t.tag ≠ .eof ∧ t.pos = p ∧ SpelledIn src t ∧ p < src.length) ∨
    (p = 0 ∧ NoToken src) := by
  rcases h.real' with ⟨t, h1, h2, rfl⟩ | h
  · exact .inl ⟨t, h1, h2, rfl, h1.spelled, h1.spelled.pos_lt h2⟩
  · exact .inr h

/-- … in particular it lies in the text, so that sections 1 and 2 apply to it. -/
theorem tokenStart_in_text (src : Bytes) (p : Nat) (h : IsTokenStart src p) : p ≤ src.length :=
  h.le

/-- non-vacuity of `IsTokenStart` (both cases of `tokenStart_meaning`) -/
example : IsTokenStart b!"  foo(1)" 2 := ⟨⟨.ident, 2, b!"foo"⟩, ⟨_, _, _, .init, .inl (by rfl)⟩, rfl⟩
example : IsTokenStart b!"  # hi" 0 ∧ NoToken b!"  # hi" :=
  ⟨⟨⟨.eof, 0, []⟩, ⟨_, _, _, .init, .inl (by rfl)⟩, rfl⟩, ⟨_, by rfl⟩⟩

/-- C12, lexical errors reached by the parser: the offset lies in the text; for "unexpected
    character" a byte stands there (that it is the illegal byte is NOT restated here: it follows
    from `illegal_char_exact` / `illegal_char_byte` applied to the lexer state, with the
    invariant `next_preserves_invariant`); or it is the offset just behind the opening quote of a
    string that is never closed (where the string token would start); or — for a regex literal
    that is never closed — the offset of some token of the text (in the model the `/` before it;
    which token is not stated). -/
theorem lexical_error_pos (src : Bytes) (e : SynErr) (h : IsLexErr src e) :
    e.pos ≤ src.length ∧
    ((e.msg = "unexpected character" ∧ ∃ c, src[e.pos]? = some c) ∨
     (e.msg = "unexpected EOF while reading string" ∧
       ∃ q, (q = 39 ∨ q = 34) ∧ 1 ≤ e.pos ∧ src[e.pos - 1]? = some q ∧ q ∉ src.drop e.pos) ∨
     (e.msg = "unexpected EOF while reading regex" ∧ IsTokenStart src e.pos)) := by
  obtain ⟨h1, h2⟩ := h.pos
  refine ⟨h1, ?_⟩
  rcases h2 with h2 | h2 | ⟨hm, h2⟩
  · exact .inl h2
  · exact .inr (.inl h2)
  · rcases h2 with h2 | ⟨_, hq⟩
    · exact .inr (.inr ⟨hm, h2⟩)
    · cases hq

/-- non-vacuity of `IsLexErr`, directly -/
example : IsLexErr b!"  @" ⟨2, "unexpected character"⟩ := ⟨_, _, .init, .inl (by rfl)⟩
example : (match parseProgramSrc expectedRuleTable b!"BEGIN { x = 1 }\n   @" with
    | .syntaxErr e => e.pos == 19 && getLineAndCol b!"BEGIN { x = 1 }\n   @" e.pos == ⟨b!"   @", 2, 3⟩
    | _ => false) = true := by decide +kernel
example : (match parseProgramSrc expectedRuleTable b!"{ print $ ~ /ab }" with
    | .syntaxErr e => e.pos == 12 | _ => false) = true := by decide +kernel
example : (match parseProgramSrc expectedRuleTable b!"{ print 'ab }" with
    | .syntaxErr e => e.pos == 9 | _ => false) = true := by decide +kernel

/-- C12, syntax errors: where the reported offset comes from — SOME token of the program text,
    or a lexical error of it.  (This is weaker than the clause "the reported column falls inside
    the offending construct": which token is blamed is not stated; see the examples.)
    Named `_partial` with respect to the stronger statement first planned, "every syntax error
    offset is the start of a token", which is false as it stands (the property itself does not
    ask for it): **a syntax error of `Parse()` carries the offset of a token of the
    program text, or it is a lexical error of that text** (which sits on the offending byte /
    behind the opening quote, `lexical_error_pos`, not on a token start) — and a token offset
    means what `tokenStart_meaning` says (at the end of the input: the START of the last token,
    `eof_token_pos`).  For every rule table that asks for `Regex()` only at a `/` token. -/
theorem syntax_error_pos_partial (tbl : RuleTable) (hT : TblRq AfterSlash tbl) (src : Bytes)
    (e : SynErr) (h : parseProgramSrc tbl src = .syntaxErr e) :
    IsTokenStart src e.pos ∨ IsLexErr src e := by
  have := parseProgramSrc_prov AfterSlash true tbl hT src
  rw [h] at this; exact this

/-- non-vacuity of the two hypotheses on the table: the rule table of src/parser.go asks for
    `Regex()` only at `/`, and has no prefix rule for EOF -/
example : TblRq AfterSlash expectedRuleTable := tblRq_expected
example : (lookupRule expectedRuleTable .eof).pre = none := by decide

/-- … for the rule table of src/parser.go, unconditionally -/
theorem syntax_error_pos_src (src : Bytes) (e : SynErr)
    (h : parseProgramSrc expectedRuleTable src = .syntaxErr e) :
    IsTokenStart src e.pos ∨ IsLexErr src e :=
  syntax_error_pos_partial expectedRuleTable tblRq_expected src e h

/-- C12, syntax errors, spelled out: **a syntax error of `Parse()` sits at an offset where a
    token other than EOF is written in the program text** (strictly inside the text; at the end
    of the input this is the last token, not the end) **or it is a lexical error** (on the
    illegal byte / just behind the opening quote / on the `/` of an unclosed regex literal,
    `lexical_error_pos`).  The "offset 0 of a text without tokens" case cannot occur here: such
    a text is the empty program. -/
theorem syntax_error_pos_meaning (tbl : RuleTable) (hT : TblRq AfterSlash tbl) (src : Bytes)
    (e : SynErr) (h : parseProgramSrc tbl src = .syntaxErr e) :
    (∃ t, IsToken src t ∧ t.tag ≠ .eof ∧ t.pos = e.pos ∧ SpelledIn src t ∧ e.pos < src.length) ∨
    IsLexErr src e := by
  rcases syntax_error_pos_partial tbl hT src e h with ht | hl
  · rcases tokenStart_meaning src e.pos ht with hreal | ⟨_, hno⟩
    · exact .inl hreal
    · rw [parseProgramSrc_noToken tbl src hno] at h; cases h
  · exact .inr hl

/-- C12, syntax errors inside a `-r` selector: the same for `ParseExpression()` and the selector
    text. -/
theorem selector_syntax_error_pos_partial (tbl : RuleTable) (hT : TblRq AfterSlash tbl)
    (sel : Bytes) (e : SynErr) (h : parseExpressionSrc tbl sel = .syntaxErr e) :
    IsTokenStart sel e.pos ∨ IsLexErr sel e := by
  have := parseExpressionSrc_prov AfterSlash true tbl hT sel
  rw [h] at this; exact this

/-- … spelled out; here the blank selector is the one exception (FINDING: `-r '   '` is rejected
    at offset 0, where a blank stands) -/
theorem selector_syntax_error_pos_meaning (tbl : RuleTable) (hT : TblRq AfterSlash tbl)
    (sel : Bytes) (e : SynErr) (h : parseExpressionSrc tbl sel = .syntaxErr e) :
    (∃ t, IsToken sel t ∧ t.tag ≠ .eof ∧ t.pos = e.pos ∧ SpelledIn sel t ∧ e.pos < sel.length) ∨
    (e.pos = 0 ∧ NoToken sel) ∨ IsLexErr sel e := by
  rcases selector_syntax_error_pos_partial tbl hT sel e h with ht | hl
  · rcases tokenStart_meaning sel e.pos ht with hreal | hno
    · exact .inl hreal
    · exact .inr (.inl hno)
  · exact .inr (.inr hl)

/-- … and for ANY rule table (here a regex literal need not stand behind a `/`; every other
    token is still spelled at its offset, `Prov.IsTokenOf.spelled_any`) -/
theorem syntax_error_pos_any_table (tbl : RuleTable) (src : Bytes) (e : SynErr)
    (h : parseProgramSrc tbl src = .syntaxErr e) :
    TokenStart (fun _ => True) src e.pos ∨ IsLexErrOf (fun _ => True) src e := by
  have := parseProgramSrc_prov (fun _ => True) true tbl (tblRq_true tbl) src
  rw [h] at this; exact this

theorem selector_syntax_error_pos_any_table (tbl : RuleTable) (sel : Bytes) (e : SynErr)
    (h : parseExpressionSrc tbl sel = .syntaxErr e) :
    TokenStart (fun _ => True) sel e.pos ∨ IsLexErrOf (fun _ => True) sel e := by
  have := parseExpressionSrc_prov (fun _ => True) true tbl (tblRq_true tbl) sel
  rw [h] at this; exact this

/-- C12, syntax errors, the report: for every rule table and every text, the offset of a syntax
    error lies in the text — hence (sections 1, 2) the reported line is 1 + the number of line
    feeds before that byte, the column is the distance to the line start and the quoted line is
    line N of the text without its line end. -/
theorem syntax_error_report (tbl : RuleTable) (src : Bytes) (e : SynErr)
    (h : parseProgramSrc tbl src = .syntaxErr e ∨ parseExpressionSrc tbl src = .syntaxErr e) :
    e.pos ≤ src.length ∧
    (splitLines src)[(getLineAndCol src e.pos).line - 1]? = some (getLineAndCol src e.pos).srcLine ∧
    (getLineAndCol src e.pos).col ≤ (getLineAndCol src e.pos).srcLine.length := by
  have hle : e.pos ≤ src.length := by
    rcases h with h | h
    · rcases syntax_error_pos_any_table tbl src e h with h | h
      · exact h.le
      · exact h.pos.1
    · rcases selector_syntax_error_pos_any_table tbl src e h with h | h
      · exact h.le
      · exact h.pos.1
  exact ⟨hle, srcLine_is_line_N src e.pos hle⟩

/-- non-vacuity: an error on line 3 of a program with a comment line; an error on the last line
    without a final line feed; an error behind a two-byte character (columns count bytes) -/
example : (match parseProgramSrc expectedRuleTable b!"BEGIN { x = 1 }\n# c\n{ y = ) }" with
    | .syntaxErr e => e.pos == 26 &&
        getLineAndCol b!"BEGIN { x = 1 }\n# c\n{ y = ) }" e.pos == ⟨b!"{ y = ) }", 3, 6⟩
    | _ => false) = true := by decide +kernel
example : (match parseProgramSrc expectedRuleTable b!"{ print \"é\", 1 2 }" with
    | .syntaxErr e => e.pos == 16 &&
        getLineAndCol b!"{ print \"é\", 1 2 }" e.pos == ⟨b!"{ print \"é\", 1 2 }", 1, 16⟩
    | _ => false) = true := by decide +kernel

/-! #### the tokens stored in a parsed program -/

/-- C12, AST: **every token stored in a parsed program carries the offset of a token of the
    program text** — except the zero token of the implicit `print` of a body-less rule, which is
    not a token of the text (the evaluator never takes a position from it, see
    `parsed_blame_tokens`).  FINDING (harmless): only the OFFSETS are those of lexed tokens; the
    parser rewrites `a op= b` into `a = a op b` with two made-up tokens at the offset of `op=`. -/
theorem parsed_tokens_are_tokens (tbl : RuleTable) (hT : TblRq AfterSlash tbl) (src : Bytes)
    (prog : Program) (h : parseProgramSrc tbl src = .ok prog) :
    ∀ t ∈ prog.tokens, t = Token.zero ∨ IsTokenStart src t.pos := by
  have := parseProgramSrc_prov AfterSlash true tbl hT src
  rw [h] at this; exact this.all

/-- witness for the zero token: a rule without body -/
example : (match parseProgramSrc expectedRuleTable b!"  $.a > 1" with
    | .ok p => p.tokens.contains Token.zero | _ => false) = true := by decide +kernel
/-- witness for the rewritten compound assignment: the text has `+=` at offset 4, the AST an
    `=` token and a `+` token at offset 4 -/
example : (match parseProgramSrc expectedRuleTable b!"{ x += 1 }" with
    | .ok p => p.tokens.contains ⟨.equal, 4, []⟩ && p.tokens.contains ⟨.plus, 4, []⟩
    | _ => false) = true := by decide +kernel
example : Lexer.next ⟨b!" += 1 }", 3, 2⟩ = .ok (⟨.plusEqual, 4, []⟩, ⟨b!" 1 }", 6, 4⟩) := by rfl

/-- C12, AST: **every token the evaluator can take a position from** (all tokens of expression
    nodes, the variables of `for … in`, function names; `Program.blameTokens`) **carries the
    offset of a token of the program text.** -/
theorem parsed_blame_tokens (tbl : RuleTable) (hT : TblRq AfterSlash tbl) (src : Bytes)
    (prog : Program) (h : parseProgramSrc tbl src = .ok prog) :
    ∀ t ∈ prog.blameTokens, IsTokenStart src t.pos := by
  have := parseProgramSrc_prov AfterSlash false tbl hT src
  rw [h] at this; exact this.blame

/-- C12, AST of a selector: every token of a parsed selector expression carries the offset of a
    token of the selector text.  (Non-vacuity: the example below.) -/
theorem selector_tokens_are_tokens (tbl : RuleTable) (hT : TblRq AfterSlash tbl) (sel : Bytes)
    (expr : Expr) (h : parseExpressionSrc tbl sel = .ok expr) (kw : Bool) :
    ∀ t ∈ expr.tokens kw, IsTokenStart sel t.pos := by
  have := parseExpressionSrc_prov AfterSlash kw tbl hT sel
  rw [h] at this; exact this

/-- non-vacuity of `selector_tokens_are_tokens`: a selector that parses, with its token offsets -/
example : (match parseExpressionSrc expectedRuleTable b!"  $.a ~ 1" with
    | .ok e => (e.tokens false).map (·.pos) != [] && (e.tokens false).all (fun t => t.pos < 9)
    | _ => false) = true := by decide +kernel
example : (match parseProgramSrc expectedRuleTable
      b!"function f(x) {\n  return x.a.b.c = 1\n}\n{ print f(1) }" with
    | .ok p => p.blameTokens.length == 12 && p.tokens.length == 15 | _ => false) = true := by
  decide +kernel

/-! #### runtime errors -/

/-- the position `pos`, reported together with the text `s`, is the offset stored in a token of
    the AST parsed from that text: the program (then `s` is the program text) or a selector
    expression (then `s` is that selector's text) -/
def BlamesAst (tbl : RuleTable) (src : Bytes) (sels : List Bytes) (s : Bytes) (pos : Nat) : Prop :=
  (s = src ∧ ∃ prog, parseProgramSrc tbl src = .ok prog ∧ ∃ t ∈ prog.blameTokens, t.pos = pos) ∨
  (s ∈ sels ∧ ∃ expr, parseExpressionSrc tbl s = .ok expr ∧ ∃ t ∈ expr.tokens false, t.pos = pos)

/-- the syntax error `e`, reported together with the text `s`, is the syntax error of parsing
    that text: the program, or a selector -/
def SynErrOf (tbl : RuleTable) (src : Bytes) (sels : List Bytes) (s : Bytes) (e : SynErr) : Prop :=
  (s = src ∧ parseProgramSrc tbl src = .syntaxErr e) ∨
  (s ∈ sels ∧ parseExpressionSrc tbl s = .syntaxErr e)

/-- all positions a run reports, in one statement (any rule table, any selectors, any input).
    Only the outcomes `.runtimeErr` and `.syntaxErr` carry a position; for every other outcome
    (`.ok`, `.jsonErr`, and also `.oof`, `.panic`, `.unmodelled`) `OutcomeOK` is `True`, i.e.
    nothing is claimed. -/
theorem run_positions (tbl : RuleTable) (src : Bytes) (sels : List Bytes) (files : List InputFile) :
    OutcomeOK (BlamesAst tbl src sels) (SynErrOf tbl src sels) src sels
      (evalProgram tbl src sels files).outcome := by
  unfold evalProgram
  cases hp : parseProgramSrc tbl src with
  | syntaxErr e => exact ⟨.inl rfl, .inl ⟨rfl, hp⟩⟩
  | oof => trivial
  | ok prog =>
    refine runProgram_ok prog ?_ ⟨?_, ?_⟩ files
    · exact (progOK_self prog).mono (fun p ⟨t, ht, hpos⟩ => .inl ⟨rfl, prog, hp, t, ht, hpos⟩)
    · intro sel hsel e he t ht
      exact .inr ⟨hsel, e, he, t, ht, rfl⟩
    · intro sel hsel e he
      exact .inr ⟨hsel, he⟩

/-- C12, runtime errors: **the position of a runtime error a run reports is the offset stored in
    SOME token of the parsed program (`Program.blameTokens`: rule patterns, rule bodies, function
    bodies, match arms) and the text reported with it is the program text; or it is the offset
    stored in some token of a parsed `-r` selector expression and the text reported is that
    selector's text.**  Which token — i.e. that it belongs to the faulting node, the clause "the
    reported column falls inside the offending construct" — is NOT stated; only the examples at
    the end of the file show it, on instances.
    Any rule table, any selectors, any input files, at the evaluator's full fuel. -/
theorem runtime_error_pos_is_token (tbl : RuleTable) (src : Bytes) (sels : List Bytes)
    (files : List InputFile) (s : Bytes) (pos : Nat) (msg : String)
    (h : (evalProgram tbl src sels files).outcome = .runtimeErr s pos msg) :
    BlamesAst tbl src sels s pos := by
  have := run_positions tbl src sels files
  rw [h] at this; exact this.2

/-- C12, runtime errors, in terms of the text: **the position of a runtime error is the offset
    carried by a token of the text it is reported with** (the program text, or the text of the
    selector in which it was raised); hence it lies in that text. -/
theorem runtime_error_pos_tokenStart (tbl : RuleTable) (hT : TblRq AfterSlash tbl) (src : Bytes)
    (sels : List Bytes) (files : List InputFile) (s : Bytes) (pos : Nat) (msg : String)
    (h : (evalProgram tbl src sels files).outcome = .runtimeErr s pos msg) :
    (s = src ∨ s ∈ sels) ∧ IsTokenStart s pos := by
  rcases runtime_error_pos_is_token tbl src sels files s pos msg h with
    ⟨rfl, prog, hp, t, ht, rfl⟩ | ⟨hs, expr, he, t, ht, rfl⟩
  · exact ⟨.inl rfl, parsed_blame_tokens tbl hT s prog hp t ht⟩
  · exact ⟨.inr hs, selector_tokens_are_tokens tbl hT s expr he false t ht⟩

/-- C12, runtime errors, full strength: **at the position of a runtime error a token other than
    EOF is written in the text the error is reported with** (`SpelledIn`: its spelling stands
    there; for a string or regex literal the position is that of the first byte after the
    opening delimiter), and the position lies strictly inside that text.  The "offset 0 of a
    text without tokens" case of `tokenStart_meaning` cannot occur: such a program has no rules
    and such a selector does not parse.  For tables that ask for `Regex()` only at `/` and have
    no prefix rule for EOF — as the real one. -/
theorem runtime_error_pos_real (tbl : RuleTable) (hT : TblRq AfterSlash tbl)
    (hE : (lookupRule tbl .eof).pre = none) (src : Bytes)
    (sels : List Bytes) (files : List InputFile) (s : Bytes) (pos : Nat) (msg : String)
    (h : (evalProgram tbl src sels files).outcome = .runtimeErr s pos msg) :
    (s = src ∨ s ∈ sels) ∧
    ∃ t, IsToken s t ∧ t.tag ≠ .eof ∧ t.pos = pos ∧ SpelledIn s t ∧ pos < s.length := by
  obtain ⟨hs, hts⟩ := runtime_error_pos_tokenStart tbl hT src sels files s pos msg h
  refine ⟨hs, ?_⟩
  rcases tokenStart_meaning s pos hts with hreal | ⟨_, hno⟩
  · exact hreal
  · exfalso
    rcases runtime_error_pos_is_token tbl src sels files s pos msg h with
      ⟨rfl, prog, hp, t, ht, _⟩ | ⟨_, expr, he, _⟩
    · rw [parseProgramSrc_noToken tbl s hno] at hp
      cases hp
      simp [Program.blameTokens] at ht
    · obtain ⟨e, he'⟩ := parseExpressionSrc_noToken tbl hE s hno
      rw [he'] at he; cases he

/-- … for the rule table of src/parser.go, unconditionally -/
theorem runtime_error_pos_src (src : Bytes) (sels : List Bytes) (files : List InputFile)
    (s : Bytes) (pos : Nat) (msg : String)
    (h : (evalProgram expectedRuleTable src sels files).outcome = .runtimeErr s pos msg) :
    (s = src ∨ s ∈ sels) ∧
    ∃ t, IsToken s t ∧ t.tag ≠ .eof ∧ t.pos = pos ∧ SpelledIn s t ∧ pos < s.length :=
  runtime_error_pos_real expectedRuleTable tblRq_expected (by decide) src sels files s pos msg h

/-- C12, syntax errors of a run: the syntax error a run reports is the one of parsing the
    program text or one of the selector texts, and it is reported with that text; so
    `syntax_error_pos_partial` / `selector_syntax_error_pos_partial` apply to it. -/
theorem run_syntax_error (tbl : RuleTable) (src : Bytes) (sels : List Bytes)
    (files : List InputFile) (s : Bytes) (e : SynErr)
    (h : (evalProgram tbl src sels files).outcome = .syntaxErr s e) : SynErrOf tbl src sels s e := by
  have := run_positions tbl src sels files
  rw [h] at this; exact this.2

/-- C12, the report of a run: **whatever error a run reports — syntax, lexical or runtime, of
    the program or of a selector, for any rule table — its offset lies in the text it is
    reported with; the quoted line is line N of that text and the column lies within it.** -/
theorem reported_position_in_text (tbl : RuleTable) (src : Bytes) (sels : List Bytes)
    (files : List InputFile) (s : Bytes) (pos : Nat)
    (h : (∃ msg, (evalProgram tbl src sels files).outcome = .runtimeErr s pos msg) ∨
         (∃ e, (evalProgram tbl src sels files).outcome = .syntaxErr s e ∧ e.pos = pos)) :
    pos ≤ s.length ∧
    (splitLines s)[(getLineAndCol s pos).line - 1]? = some (getLineAndCol s pos).srcLine ∧
    (getLineAndCol s pos).col ≤ (getLineAndCol s pos).srcLine.length := by
  have hle : pos ≤ s.length := by
    rcases h with ⟨msg, h⟩ | ⟨e, h, rfl⟩
    · rcases runtime_error_pos_is_token tbl src sels files s pos msg h with
        ⟨rfl, prog, hp, t, ht, rfl⟩ | ⟨hs, expr, he, t, ht, rfl⟩
      · have := parseProgramSrc_prov (fun _ => True) false tbl (tblRq_true tbl) s
        rw [hp] at this
        exact (this.blame t ht).le
      · have := parseExpressionSrc_prov (fun _ => True) false tbl (tblRq_true tbl) s
        rw [he] at this
        exact (this t ht).le
    · rcases run_syntax_error tbl src sels files s e h with ⟨rfl, hp⟩ | ⟨_, hp⟩
      · exact (syntax_error_report tbl s e (.inl hp)).1
      · exact (syntax_error_report tbl s e (.inr hp)).1
  exact ⟨hle, srcLine_is_line_N s pos hle⟩

/-- non-vacuity: a runtime error inside a function called from a rule, on line 2 of a
    four-line program: offset 25, the `x` of `x.a.b.c = 1` (Go prints the same line and caret) -/
example : (match (evalProgram expectedRuleTable
      b!"function f(x) {\n  return x.a.b.c = 1\n}\n{ print f(1) }" [] [⟨b!"f", b!"1", .eof⟩]).outcome with
    | .runtimeErr s pos _ =>
      s == b!"function f(x) {\n  return x.a.b.c = 1\n}\n{ print f(1) }" && pos == 25 &&
      getLineAndCol s pos == ⟨b!"  return x.a.b.c = 1", 2, 9⟩
    | _ => false) = true := by decide +kernel

/-- non-vacuity: a runtime error behind a two-byte character; the column counts bytes -/
example : (match (evalProgram expectedRuleTable b!"{ y = \"é\" + $.a.q.z(1) }" []
      [⟨b!"f", b!"{\"a\":1}", .eof⟩]).outcome with
    | .runtimeErr s pos _ => pos == 13 && (getLineAndCol s pos).col == 13 && s[13]? == some 36
    | _ => false) = true := by decide +kernel

/-- non-vacuity: a runtime error on the last line, which has no final line feed; the position
    is that of the rewritten `+=` (`x += 1 / 0` → the `/`) -/
example : (match (evalProgram expectedRuleTable b!"BEGIN { x = 1 }\n\n{ x += 1 / 0 }" []
      [⟨b!"f", b!"{\"a\":1}", .eof⟩]).outcome with
    | .runtimeErr s pos _ => pos == 26 && getLineAndCol s pos == ⟨b!"{ x += 1 / 0 }", 3, 9⟩
    | _ => false) = true := by decide +kernel

/-- non-vacuity: a runtime error inside a `-r` selector is reported with the selector text and
    an offset into it … -/
example : (match (evalProgram expectedRuleTable b!"{ print }" [b!"  $.a ~ 1"]
      [⟨b!"f", b!"{\"a\":1}", .eof⟩]).outcome with
    | .runtimeErr s pos _ => s == b!"  $.a ~ 1" && pos == 8 | _ => false) = true := by
  decide +kernel
/-- … and so is a syntax error inside a selector (at the start of its last token) -/
example : (match (evalProgram expectedRuleTable b!"{ print }" [b!"$.a +"]
      [⟨b!"f", b!"{\"a\":1}", .eof⟩]).outcome with
    | .syntaxErr s e => s == b!"$.a +" && e.pos == 4 | _ => false) = true := by
  decide +kernel

end Jqawk.C12
