/-
  C12 — reported error positions are consistent with, and point into, the program text.
  `getLineAndCol` (the byte-based model of `GetLineAndCol`, src/lexer.go:245-264) is characterised
  for EVERY offset; the positions the lexer attaches to errors and tokens lie inside the text it
  was given, and an "unexpected character" error sits exactly on the offending byte.
-/
import Jqawk.Lemmas.Lexer

namespace Jqawk.C12
open Jqawk LineColLemmas

/-! ### 1. offset ↦ (line text, line, column) -/

/-- Every offset into a text decomposes as: complete lines `pre` (empty or ending in a newline),
    the newline-free part `cur` of the current line before the offset, and what follows. -/
theorem decompose (src : Bytes) (pos : Nat) (h : pos ≤ src.length) :
    ∃ pre cur after, src = pre ++ cur ++ after ∧ pos = pre.length + cur.length ∧
      (pre = [] ∨ pre.getLast? = some 10) ∧ (10 : UInt8) ∉ cur := by
  obtain ⟨pre, cur, hpc, hp, hc⟩ := split_last_line (src.take pos)
  refine ⟨pre, cur, src.drop pos, ?_, ?_, hp, hc⟩
  · rw [← hpc, List.take_append_drop]
  · have := congrArg List.length hpc
    simp at this; omega

/-- … and the decomposition is unique (so `getLineAndCol_spec` determines the result). -/
theorem decompose_unique (pre cur pre' cur' : Bytes)
    (hp : pre = [] ∨ pre.getLast? = some 10) (hc : (10 : UInt8) ∉ cur)
    (hp' : pre' = [] ∨ pre'.getLast? = some 10) (hc' : (10 : UInt8) ∉ cur')
    (h : pre ++ cur = pre' ++ cur') : pre = pre' ∧ cur = cur' := by
  -- the shorter `pre` is a prefix of the longer; the difference lies in a `cur` and ends in 10
  have key : ∀ (p c p' c' : Bytes), (p' = [] ∨ p'.getLast? = some 10) → (10 : UInt8) ∉ c →
      p ++ c = p' ++ c' → p.length ≤ p'.length → p = p' := by
    intro p c p' c' hq hc h hl
    obtain ⟨d, hd⟩ : ∃ d, p' = p ++ d := by
      refine ⟨p'.drop p.length, ?_⟩
      have h1 := congrArg (List.take p.length) h
      simp [List.take_append_of_le_length hl] at h1
      conv => lhs; rw [← List.take_append_drop p.length p']
      rw [← h1]
    subst hd
    rw [List.append_assoc] at h
    have hc2 : c = d ++ c' := List.append_cancel_left h
    cases d with
    | nil => simp
    | cons x xs =>
      exfalso
      rcases hq with hq | hq
      · simp at hq
      · have : (10 : UInt8) ∈ x :: xs := by
          have hne : (x :: xs) ≠ [] := by simp
          rw [List.getLast?_append, List.getLast?_eq_some_getLast hne, Option.some_or] at hq
          exact List.mem_of_getLast? (by rw [List.getLast?_eq_some_getLast hne]; exact hq)
        exact hc (hc2 ▸ List.mem_append_left _ this)
  rcases Nat.le_total pre.length pre'.length with hl | hl
  · have e := key pre cur pre' cur' hp' hc h hl
    subst e; exact ⟨rfl, List.append_cancel_left h⟩
  · have e := key pre' cur' pre cur hp hc' h.symm hl
    subst e; exact ⟨rfl, List.append_cancel_left h⟩

/-- C12, `GetLineAndCol`: for every offset, the line is 1 + the number of newlines before the
    offset, the column is the distance to the start of that line, and the quoted text is that
    whole line without its newline. -/
theorem getLineAndCol_spec (pre cur after : Bytes)
    (hp : pre = [] ∨ pre.getLast? = some 10) (hc : (10 : UInt8) ∉ cur) :
    getLineAndCol (pre ++ cur ++ after) (pre.length + cur.length)
      = ⟨cur ++ takeLine after, 1 + pre.count 10, cur.length⟩ := by
  unfold getLineAndCol
  rcases hp with rfl | hp
  · have := aux_skip_noNl cur hc (cur ++ after) after 1 0 0
    simp only [Nat.add_zero] at this
    simp only [List.nil_append, List.length_nil, Nat.zero_add, List.count_nil]
    rw [this, aux_zero, takeLine_append_of_not_mem _ _ hc]
    simp
  · rw [List.append_assoc, aux_skip_lines pre hp]
    have := aux_skip_noNl cur hc (cur ++ after) after (1 + pre.count 10) 0 0
    simp only [Nat.add_zero] at this
    rw [this, aux_zero, takeLine_append_of_not_mem _ _ hc]
    simp

example : getLineAndCol (b!"a\nb\n" ++ b!"cd" ++ b!"e\nf") 6 = ⟨b!"cde", 3, 2⟩ := by decide
example : (b!"a\nb\n").getLast? = some 10 ∧ (10 : UInt8) ∉ b!"cd" := by decide

/-! ### 2. the quoted line is line N of the text -/

/-- The text split at newlines (`strings.Split(src, "\n")`). -/
def splitLines : Bytes → List Bytes
  | [] => [[]]
  | c :: cs =>
    if c == 10 then [] :: splitLines cs
    else match splitLines cs with
      | l :: ls => (c :: l) :: ls
      | [] => [[c]]

example : splitLines b!"ab\n\ncd\n" = [b!"ab", b!"", b!"cd", b!""] := by decide

theorem splitLines_ne_nil (s : Bytes) : splitLines s ≠ [] := by
  cases s with
  | nil => simp [splitLines]
  | cons c cs =>
    simp only [splitLines]
    split
    · simp
    · split <;> simp

theorem splitLines_cons_nl (cs : Bytes) : splitLines (10 :: cs) = [] :: splitLines cs := by
  simp [splitLines]

theorem splitLines_cons_of_ne (c : UInt8) (cs : Bytes) (h : c ≠ 10) :
    ∃ l ls, splitLines cs = l :: ls ∧ splitLines (c :: cs) = (c :: l) :: ls := by
  cases heq : splitLines cs with
  | nil => exact absurd heq (splitLines_ne_nil cs)
  | cons l ls => exact ⟨l, ls, rfl, by simp [splitLines, h, heq]⟩

theorem splitLines_head (s : Bytes) : (splitLines s)[0]? = some (takeLine s) := by
  induction s with
  | nil => rfl
  | cons c cs ih =>
    simp only [splitLines, takeLine]
    split
    · rfl
    · split
      · rename_i l ls heq
        rw [heq] at ih; simp at ih; simp [ih]
      · rename_i heq; exact absurd heq (splitLines_ne_nil cs)

theorem splitLines_noNl (cur after : Bytes) (hc : (10 : UInt8) ∉ cur) :
    (splitLines (cur ++ after))[0]? = some (cur ++ takeLine after) := by
  rw [splitLines_head, takeLine_append_of_not_mem _ _ hc]

theorem splitLines_skip (pre : Bytes) (hp : pre.getLast? = some 10) (rest : Bytes) (i : Nat) :
    (splitLines (pre ++ rest))[pre.count 10 + i]? = (splitLines rest)[i]? := by
  induction pre with
  | nil => simp at hp
  | cons c cs ih =>
    by_cases h10 : c = 10
    · subst h10
      cases cs with
      | nil => simp [splitLines, Nat.add_comm 1 i]
      | cons d ds =>
        have := ih (by simpa [List.getLast?_cons_cons] using hp)
        simp only [List.cons_append, splitLines, beq_self_eq_true, ↓reduceIte, List.count_cons_self]
        rw [show List.count 10 (d :: ds) + 1 + i = (List.count 10 (d :: ds) + i) + 1 by omega,
          List.getElem?_cons_succ]
        exact this
    · cases cs with
      | nil => simp at hp; exact absurd hp h10
      | cons d ds =>
        have ih' := ih (by simpa [List.getLast?_cons_cons] using hp)
        have hcnt : 0 < List.count 10 (d :: ds) := by
          apply List.count_pos_iff.mpr
          exact List.mem_of_getLast? (by simpa [List.getLast?_cons_cons] using hp)
        have hcc : List.count 10 (c :: d :: ds) = List.count 10 (d :: ds) := by
          simp [List.count_cons, h10]
        rw [hcc]
        obtain ⟨l, ls, heq, heq'⟩ := splitLines_cons_of_ne c (d :: ds ++ rest) h10
        rw [List.cons_append (a := c), heq']
        rw [heq] at ih'
        obtain ⟨m, hm⟩ : ∃ m, List.count 10 (d :: ds) + i = m + 1 :=
          ⟨List.count 10 (d :: ds) + i - 1, by omega⟩
        rw [hm] at ih' ⊢
        simpa using ih'

/-- C12: the quoted source line is exactly line N of the program text, and the column lies
    within it (possibly at its end). -/
theorem srcLine_is_line_N (src : Bytes) (pos : Nat) (h : pos ≤ src.length) :
    (splitLines src)[(getLineAndCol src pos).line - 1]? = some (getLineAndCol src pos).srcLine ∧
    (getLineAndCol src pos).col ≤ (getLineAndCol src pos).srcLine.length := by
  obtain ⟨pre, cur, after, rfl, rfl, hp, hc⟩ := decompose src pos h
  rw [getLineAndCol_spec pre cur after hp hc]
  simp only [Nat.add_sub_cancel_left, List.length_append]
  refine ⟨?_, by omega⟩
  rcases hp with rfl | hp
  · simpa using splitLines_noNl cur after hc
  · have := splitLines_skip pre hp (cur ++ after) 0
    rw [List.append_assoc]
    simpa [splitLines_noNl cur after hc] using this

/-- the column is the offset minus the offset of the start of the line; the line start is
    either 0 or just after a newline -/
theorem col_is_distance (src : Bytes) (pos : Nat) (h : pos ≤ src.length) :
    let lc := getLineAndCol src pos
    lc.col ≤ pos ∧ (src.take (pos - lc.col)).count 10 + 1 = lc.line ∧
    (10 : UInt8) ∉ (src.drop (pos - lc.col)).take lc.col ∧
    (pos - lc.col = 0 ∨ src[pos - lc.col - 1]? = some 10) := by
  obtain ⟨pre, cur, after, rfl, rfl, hp, hc⟩ := decompose src pos h
  rw [getLineAndCol_spec pre cur after hp hc]
  simp only [Nat.add_sub_cancel]
  refine ⟨by omega, ?_, ?_, ?_⟩
  · rw [List.append_assoc, List.take_left]; omega
  · rw [List.append_assoc, List.drop_left, List.take_left]; exact hc
  · rcases hp with rfl | hp
    · simp
    · right
      have hne : pre ≠ [] := by rintro rfl; simp at hp
      have hl : 0 < pre.length := List.length_pos_iff.mpr hne
      rw [List.append_assoc, List.getElem?_append_left (by omega)]
      rw [List.getLast?_eq_getElem?] at hp
      exact hp

/-! ### 3. offsets beyond the end -/

/-- C12: an offset at or beyond the end of the text is treated as the end of the text. -/
theorem pos_beyond_end (src : Bytes) (pos : Nat) (h : src.length ≤ pos) :
    getLineAndCol src pos = getLineAndCol src src.length :=
  aux_beyond src src 1 0 pos h

example : getLineAndCol b!"ab\ncd" 100 = ⟨b!"cd", 2, 2⟩ := by decide

/-! ### 4. positions attached by the lexer -/

open Lexer in
/-- C12: the position of a lexical error lies inside the text the lexer was given (between the
    current offset and the end of the text, inclusive). -/
theorem next_error_in_text (s : LexState) (e : SynErr) (h : Lexer.next s = .error e) :
    s.pos ≤ e.pos ∧ e.pos ≤ s.pos + s.rest.length := by
  obtain ⟨ws, r, h1, _, h3⟩ := next_cases s
  rw [h3] at h
  cases r with
  | nil => cases h
  | cons c cs =>
    have hl : s.rest.length = ws.length + (cs.length + 1) := by rw [h1]; simp
    rcases (lexAt_res c cs _).error h with rfl | ⟨_, _, rfl⟩
    · dsimp only; omega
    · dsimp only; omega

example : Lexer.next ⟨b!"  \"abc", 10, 7⟩ = .error ⟨13, "unexpected EOF while reading string"⟩ := by
  rfl

open Lexer in
/-- C12: an "unexpected character" error sits exactly on the offending byte: that byte exists,
    only blanks, tabs, CRs and comments (`ws`, what `skipWs` skips) precede it, and it is the
    byte `skipWs` stops at. -/
theorem illegal_char_exact (s : LexState) (e : SynErr) (h : Lexer.next s = .error e)
    (hm : e.msg = "unexpected character") :
    ∃ ws c rest, s.rest = ws ++ c :: rest ∧ e.pos = s.pos + ws.length ∧
      Lexer.skipWs (s.rest.length + 1) s.rest s.pos = (c :: rest, e.pos) := by
  obtain ⟨ws, r, h1, h2, h3⟩ := next_cases s
  rw [h3] at h
  cases r with
  | nil => cases h
  | cons c cs =>
    rcases (lexAt_res c cs _).error h with rfl | ⟨_, _, rfl⟩
    · exact ⟨ws, c, cs, h1, rfl, h2⟩
    · simp at hm

open Lexer in
/-- C12: … and the offending byte is one that cannot start a token: it is not a newline, `$`,
    a digit, a letter, `_`, an operator or bracket byte, or a quote (`canStartToken`), nor `&`
    or `|`; or it is an `&` / `|` that is not doubled.  Conversely every such byte is rejected
    with exactly this error at exactly its offset. -/
theorem illegal_char_byte (s : LexState) (e : SynErr) (h : Lexer.next s = .error e)
    (hm : e.msg = "unexpected character") :
    ∃ ws c rest, s.rest = ws ++ c :: rest ∧ e.pos = s.pos + ws.length ∧
      ((canStartToken c = false ∧ c ≠ 38 ∧ c ≠ 124) ∨ (c = 38 ∧ rest.head? ≠ some 38) ∨
       (c = 124 ∧ rest.head? ≠ some 124)) := by
  obtain ⟨ws, r, h1, h2, h3⟩ := next_cases s
  rw [h3] at h
  cases r with
  | nil => cases h
  | cons c cs =>
    refine ⟨ws, c, cs, h1, ?_, lexAt_unexpected c cs _ e h hm⟩
    rcases (lexAt_res c cs _).error h with rfl | ⟨_, _, rfl⟩
    · rfl
    · simp at hm

open Lexer in
theorem illegal_char_rejected (ws rest : Bytes) (c : UInt8) (p ts : Nat)
    (hws : ∀ b ∈ ws, b = 32 ∨ b = 9 ∨ b = 13)
    (hc : canStartToken c = false) (h38 : c ≠ 38) (h124 : c ≠ 124) (h35 : c ≠ 35)
    (hbl : c ≠ 32 ∧ c ≠ 9 ∧ c ≠ 13) :
    Lexer.next ⟨ws ++ c :: rest, p, ts⟩ = .error ⟨p + ws.length, "unexpected character"⟩ := by
  have hb : ∀ b ∈ ws, isBlankB b = true := by
    intro b hb; rcases hws b hb with rfl | rfl | rfl <;> rfl
  rw [next_eq]; dsimp only
  have : (ws ++ c :: rest).length + 1 = ws.length + ((c :: rest).length + 1) := by simp; omega
  rw [this, skipWs_blanks ws hb, skipWs_succ_cons]
  have hcb : isBlankB c = false := by simp [isBlankB, hbl.1, hbl.2.1, hbl.2.2]
  have hc35 : (c == 35) = false := by simpa using h35
  simp only [hcb, hc35, Bool.false_eq_true, ↓reduceIte]
  exact lexAt_of_cannotStart c rest _ hc h38 h124

example : Lexer.canStartToken 64 = false ∧ Lexer.canStartToken 96 = false ∧
    Lexer.canStartToken 92 = false := by decide

example : Lexer.next ⟨b!" \t# c\n", 0, 0⟩ = .ok (⟨.newline, 5, []⟩, ⟨[], 6, 5⟩) := by rfl
example : Lexer.next ⟨b!"\n  @ b", 1, 0⟩ = .ok (⟨.newline, 1, []⟩, ⟨b!"  @ b", 2, 1⟩) := by rfl
example : Lexer.next ⟨b!"  @ b", 2, 1⟩ = .error ⟨4, "unexpected character"⟩ := by rfl

open Lexer in
/-- C12: token positions.  The successor state lies inside the text, `rest` stays "the text from
    `pos` on", and a non-EOF token starts at or after the old offset and before the new one.
    (The EOF token carries Go's stale `tokenStart`, which may lie before `s.pos`.) -/
theorem next_token_pos (s : LexState) (t : Token) (s' : LexState) (h : Lexer.next s = .ok (t, s')) :
    s.pos ≤ s'.pos ∧ s'.pos ≤ s.pos + s.rest.length ∧ s'.rest = s.rest.drop (s'.pos - s.pos) ∧
    (t.tag ≠ .eof → s.pos ≤ t.pos ∧ t.pos ≤ s'.pos) := by
  obtain ⟨ws, r, h1, _, h3⟩ := next_cases s
  rw [h3] at h
  cases r with
  | nil =>
    cases h
    simp only [List.append_nil] at h1
    refine ⟨by simp, by simp [h1], ?_, fun hne => absurd rfl hne⟩
    simp [h1]
  | cons c cs =>
    obtain ⟨tok, _, h4, h5, h6, h7⟩ := (lexAt_res c cs _).consumed h
    have hl : s.rest.length = ws.length + (tok.length + s'.rest.length) := by
      rw [h1, h4]; simp
    refine ⟨by omega, by omega, ?_, fun _ => ⟨by omega, h7⟩⟩
    rw [h1, h4, h5, ← List.append_assoc]
    have : s.pos + ws.length + tok.length - s.pos = (ws ++ tok).length := by simp; omega
    rw [this, List.drop_left]

example : Lexer.next ⟨b!"  foo(1)", 3, 0⟩ = .ok (⟨.ident, 5, b!"foo"⟩, ⟨b!"(1)", 8, 5⟩) := by rfl

/-- the EOF token's position is the stale `tokenStart`: after `1 ` it is 0, not 2 -/
example : Lexer.next ⟨b!" ", 1, 0⟩ = .ok (⟨.eof, 0, []⟩, ⟨[], 2, 0⟩) := by rfl

/-- C12: the lexer state invariant "`rest` is the source from `pos` on" is preserved. -/
theorem next_preserves_invariant (src : Bytes) (s : LexState) (t : Token) (s' : LexState)
    (h : Lexer.next s = .ok (t, s')) (hinv : s.rest = src.drop s.pos) :
    s'.rest = src.drop s'.pos := by
  obtain ⟨h1, _, h3, _⟩ := next_token_pos s t s' h
  rw [h3, hinv, List.drop_drop]
  congr 1; omega

example : (LexState.init b!"ab").rest = (b!"ab").drop (LexState.init b!"ab").pos := rfl

end Jqawk.C12
