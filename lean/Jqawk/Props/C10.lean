/-
  C10 — output is a deterministic function of program, selectors and input bytes.

  In the model determinism holds by typing: `evalProgram` is a Lean function, the prototype
  tables (`arrayProto`, `objProto`, `strProto`, `numProto` in Model/Value.lean) are pure lookup
  functions that no `St` component can overwrite, and there is no state outside `St`.  What this
  says about the Go code is carried by (a) the facts tie, Audit/FactsTie.lean — map-range sites,
  package-level variables and the import list of src/ —, (b) the differential tests, and (c) the
  theorems below: the model represents a Go map as a member list in ARBITRARY order, and every
  reader of that list (rendering, JSON conversion, for-in, lookup) is invariant under
  permutation of it, so Go's random map iteration order cannot be observed.
-/
import Jqawk.Model.Driver
import Jqawk.Lemmas.Render

namespace Jqawk.C10
open Jqawk

/-! ### 1. sorting forgets the insertion order -/

/-- `Bytes.cmp` (Go's string comparison) is a total order: antisymmetric, transitive, total -/
theorem cmp_total_order :
    (∀ a b, Bytes.cmp a b = .eq ↔ a = b) ∧
    (∀ a b, Bytes.cmp b a = (Bytes.cmp a b).swap) ∧
    (∀ a b c, Bytes.cmp a b = .lt → Bytes.cmp b c = .lt → Bytes.cmp a c = .lt) ∧
    (∀ a b, Bytes.le a b = true ∨ Bytes.le b a = true) :=
  ⟨Bytes.cmp_eq_iff, Bytes.cmp_swap, Bytes.cmp_lt_trans, Bytes.le_total⟩

/-- the result of `sortByKey` is a permutation of its input in ascending key order -/
theorem sortByKey_sorts (m : List (Bytes × CellId)) :
    (sortByKey m).Perm m ∧ (sortByKey m).Pairwise (fun x y => Bytes.le x.1 y.1 = true) :=
  ⟨sortByKey_perm m, sortByKey_sorted m⟩

/-- Clause "in particular those printing or iterating objects with two or more keys": member
    lists that are permutations of each other (same map, different iteration/insertion order),
    with pairwise distinct keys as in any Go map, sort to the SAME list. -/
theorem sortByKey_perm_invariant (m1 m2 : List (Bytes × CellId)) (p : m1.Perm m2)
    (hd : m1.Pairwise (fun x y => x.1 ≠ y.1)) : sortByKey m1 = sortByKey m2 :=
  sortByKey_perm_eq m1 m2 p hd

/-- non-vacuity -/
example : [(b!"b", 1), (b!"a", 0), (b!"ab", 2)].Perm [(b!"ab", 2), (b!"b", 1), (b!"a", 0)] ∧
    [(b!"b", 1), (b!"a", 0), (b!"ab", 2)].Pairwise (fun x y => x.1 ≠ y.1) ∧
    sortByKey [(b!"b", 1), (b!"a", 0), (b!"ab", 2)] = [(b!"a", 0), (b!"ab", 2), (b!"b", 1)] := by
  refine ⟨?_, by decide, by decide⟩
  exact (List.Perm.cons _ (List.Perm.swap _ _ _)).trans (List.Perm.swap _ _ _)

/-- the hypothesis `distinct keys` is needed: the sort is stable, so with a duplicate key the
    insertion order shows (such a list never represents a Go map; `objInsert` keeps keys unique) -/
example : sortByKey [(b!"a", 0), (b!"a", 1)] ≠ sortByKey [(b!"a", 1), (b!"a", 0)] := by decide

/-- map lookup is order independent as well -/
theorem objLookup_perm_invariant (m1 m2 : List (Bytes × CellId)) (p : m1.Perm m2)
    (hd : m1.Pairwise (fun x y => x.1 ≠ y.1)) (k : Bytes) : objLookup m1 k = objLookup m2 k :=
  objLookup_perm m1 m2 p hd k

/-! ### 2. rendering and JSON conversion do not see the member order -/

/-- Clause "standard output … a function only of …": two heaps that differ only in the order
    of the member lists of their objects render every value identically -/
theorem pretty_order_independent (h1 h2 : Heap) (e : HeapOrderEq h1 h2) (n : Nat)
    (path : List Cont) (q check : Bool) (v : Val) :
    pretty h1 n path q check v = pretty h2 n path q check v := by
  rw [pretty_congr h1 h2 e.get e.arr e.sorted n]

theorem prettyTop_order_independent (h1 h2 : Heap) (e : HeapOrderEq h1 h2) (v : Val) :
    prettyTop h1 v = prettyTop h2 v := by
  simp only [prettyTop, renderFuel, e.arrs, e.nobjs]
  exact pretty_order_independent h1 h2 e _ _ _ _ _

/-- Clause "the JSON output": the same for the conversion behind `-o` and `json()` -/
theorem toJVal_order_independent (h1 h2 : Heap) (e : HeapOrderEq h1 h2) (n : Nat)
    (path : List Cont) (check : Bool) (v : Val) :
    toJVal h1 n path check v = toJVal h2 n path check v := by
  rw [toJVal_congr h1 h2 e.get e.arr e.sorted n]

theorem toJValTop_order_independent (h1 h2 : Heap) (e : HeapOrderEq h1 h2) (v : Val) :
    toJValTop h1 v = toJValTop h2 v := by
  simp only [toJValTop, renderFuel, e.arrs, e.nobjs]
  exact toJVal_order_independent h1 h2 e _ _ _ _

/-- `-o`: `GetRootJson` of two states that differ only in member order -/
theorem getRootJson_order_independent (s1 s2 : St) (e : HeapOrderEq s1.heap s2.heap)
    (hr : s1.root = s2.root) : getRootJson s1 = getRootJson s2 := by
  simp only [getRootJson, hr, e.get, toJValTop_order_independent _ _ e]

/-- for-in over an object: the sequence of (key, cell) pairs visited (Model/Eval.lean, `.forIn`
    case: `sortByKey (h.obj o)`) is the same in both heaps -/
theorem forIn_order_independent (h1 h2 : Heap) (e : HeapOrderEq h1 h2) (o : ObjId) :
    sortByKey (h1.obj o) = sortByKey (h2.obj o) := e.sorted o

/-- non-vacuity: two heaps holding `{"a": 1-cell, "b": 2-cell}` in both orders -/
def hA : Heap := ⟨#[.nil none, .bool true], #[], #[[(b!"a", 0), (b!"b", 1)]]⟩
def hB : Heap := ⟨#[.nil none, .bool true], #[], #[[(b!"b", 1), (b!"a", 0)]]⟩
example : HeapOrderEq hA hB := by
  refine ⟨rfl, rfl, rfl, ?_, ?_⟩
  · intro o
    match o with
    | 0 => exact List.Perm.swap _ _ _
    | o + 1 => simp [Heap.obj, hA, hB]
  · intro o
    match o with
    | 0 => simp [Heap.obj, hA, DistinctKeys]
    | o + 1 => simp [Heap.obj, hA, DistinctKeys]
example : prettyTop hB (.obj 0) = some b!"{\"a\": null, \"b\": true}" := by decide +kernel

/-! ### FINDING (model fidelity / Go nondeterminism), found while proving `toJVal_order_independent`

  The model's `toJVal` walks an object in ascending key order, and `GoValRes.sequence` returns the
  FIRST non-ok result in that order.  Go's `toGoValueInterval` (src/value.go:468) ranges over
  the map directly (`for k, objVal := range *v.Obj`) and returns the first error it meets.
  When two members fail with DIFFERENT errors, Go's result depends on the random map order,
  the model's does not.  Audit/FactsTie.lean `mapRanges_tie` classifies this range site as
  harmless ("fills another map"), which overlooks the early `return nil, err`.  Witness:
  `echo 1 | jqawk 'BEGIN { o = {}; o.a = /x/; o.b = o; print json(o) }'` — observed on the built
  CLI: the runtime error text is sometimes "error creating JSON: a regex cannot be converted to
  a native type", sometimes "error creating JSON: circular reference" (varies run to run); the
  model always reports the member with the smaller key.  Suggested repair in Go: iterate
  `v.sortedKeys()` in `toGoValueInterval` as `prettyStringInteral` does.
  The success/failure outcome class is order independent in both (an error stays an error). -/

/-- the model side of the witness: key order decides which error is reported -/
example : (match toJValTop ⟨#[.regex b!"x", .obj 0], #[], #[[(b!"b", 1), (b!"a", 0)]]⟩ (.obj 0) with
    | .error m => m | _ => "") = "a regex cannot be converted to a native type" := by decide +kernel
example : (match toJValTop ⟨#[.obj 0, .regex b!"x"], #[], #[[(b!"b", 1), (b!"a", 0)]]⟩ (.obj 0) with
    | .error m => m | _ => "") = "circular reference" := by decide +kernel

/-! ### 3. a run is a function of its arguments -/

/-- Bookkeeping: equal program text, selectors and input give equal results (stdout chunks,
    JSON output, outcome).  True by typing; the substance is in the file header. -/
theorem run_is_function (tbl : RuleTable) (src1 src2 : Bytes) (sels1 sels2 : List Bytes)
    (files1 files2 : List InputFile) (h1 : src1 = src2) (h2 : sels1 = sels2) (h3 : files1 = files2) :
    evalProgram tbl src1 sels1 files1 = evalProgram tbl src2 sels2 files2 := by
  subst h1 h2 h3; rfl

end Jqawk.C10
