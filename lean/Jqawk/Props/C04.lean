/-
  C04 — JSON written by -o and json() is valid and equal to the value it represents.
  Here: the conversion `toJVal` (ToGoValue + what json.Marshal needs) terminates on every heap,
  keeps empty containers, rejects cycles and inexpressible values; partial round trip with
  `newValueJson`.
  All theorems are at the level of the JSON TREE (`JVal`) handed to the encoder.  Nothing here
  relates the BYTES of `Json.marshalIndent` to the decoder: "the text written is valid JSON and
  parses back" (string escapes, non-ASCII text, every finite double) has no theorem in this file.
-/
import Jqawk.Model.Driver
import Jqawk.Model.Natives
import Jqawk.Lemmas.Render
import Jqawk.Lemmas.Reach
import Jqawk.Lemmas.NewValue

namespace Jqawk.C04
open Jqawk

/-! ### 1. termination -/

/-- general form, for EVERY heap: along a duplicate-free ancestor path of allocated containers
    the fuel `nconts + 1 - path.length` is never exhausted -/
theorem toJVal_terminates_gen (h : Heap) (n : Nat) (path : List Cont) (check : Bool) (v : Val)
    (hnd : path.Nodup) (hvalid : ∀ c ∈ path, c.valid h)
    (hcheck : check = true ∨ onPath path v = false)
    (hfuel : h.arrs.size + h.objs.size + 1 ≤ path.length + n) :
    toJVal h n path check v ≠ .oof :=
  toJVal_ne_oof_gen h n path check v ⟨hnd, hvalid⟩ hcheck hfuel

/-- Clause "rejected with an error instead of recursing forever": `ToGoValue` never runs out of
    fuel, whatever the heap and the value -/
theorem toJVal_terminates (h : Heap) (v : Val) : toJValTop h v ≠ .oof :=
  toJVal_ne_oof_gen h _ [] false v (PathOk.nil h) (Or.inr (by cases v <;> rfl))
    (by simp [renderFuel, Heap.nconts])

/-- consequence for `json()`: the builtin never reports out-of-fuel -/
theorem nativeJson_terminates (args : List Val) (this : Option Val) (s : St) :
    callNative .json args this s ≠ .oof := by
  have := toJVal_terminates s.heap (args.getD 0 .unknown)
  simp only [callNative, bind, EM.bind, getHeap]
  cases checkArgCount args 1 with
  | error m => simp [pure, EM.pure]
  | ok u =>
    cases ht : toJValTop s.heap (args.getD 0 .unknown) <;> simp_all [pure, EM.pure]

/-- consequence for `-o`: `GetRootJson` fails only for "no root" or a conversion ERROR -/
theorem getRootJson_none_iff (s : St) :
    getRootJson s = none ↔
      s.root = none ∨ ∃ c m, s.root = some c ∧ toJValTop s.heap (s.heap.get c) = .error m := by
  unfold getRootJson
  cases hr : s.root with
  | none => simp
  | some c =>
    have := toJVal_terminates s.heap (s.heap.get c)
    cases ht : toJValTop s.heap (s.heap.get c) <;> simp_all

/-! ### 2. empty containers -/

/-- Clause "this holds for empty arrays": an array without elements converts to `[]`, not to
    null, at any depth (any path, any fuel > 0) -/
theorem toJVal_empty_array (h : Heap) (n : Nat) (path : List Cont) (check : Bool) (a : ArrId)
    (he : h.arr a = #[]) (hp : (check && path.contains (.a a)) = false) :
    toJVal h (n + 1) path check (.arr a) = .ok (.arr []) := by
  rw [toJVal_arr_unfold h n path check a hp]; simp [he, GoValRes.sequence, GoValRes.map]

theorem toJVal_empty_object (h : Heap) (n : Nat) (path : List Cont) (check : Bool) (o : ObjId)
    (he : h.obj o = []) (hp : (check && path.contains (.o o)) = false) :
    toJVal h (n + 1) path check (.obj o) = .ok (.obj []) := by
  rw [toJVal_obj_unfold h n path check o hp]; simp [he, GoValRes.sequence, GoValRes.map, sortByKey]

/-- and the bytes written for them -/
example : Json.marshalIndent (.arr []) = b!"[]" ∧ Json.marshalIndent (.obj []) = b!"{}" := by decide

/-- non-vacuity: an empty array nested in an array, through `toJValTop` and `marshalIndent` -/
example : (match toJValTop ⟨#[.arr 1], #[#[0], #[]], #[]⟩ (.arr 0) with
    | .ok j => Json.marshalIndent j | _ => []) = b!"[\n  []\n]" := by decide +kernel

/-! ### 3. cycles and inexpressible values are errors -/

/-- Clause "a value that (transitively) contains itself is rejected with an error": the
    conversion reports "circular reference" when it meets a container that is its own ancestor -/
theorem toJVal_cycle_error (h : Heap) (n : Nat) (path : List Cont) (v : Val)
    (hp : onPath path v = true) :
    toJVal h (n + 1) path true v = .error "circular reference" := by
  rw [toJVal.eq_def]; simp [hp]

example : onPath [.o 0] (.obj 0) = true ∧ onPath [.o 0] (.arr 0) = false := by decide

/-- Clause "a value JSON cannot express (function, non-finite number) is an error": functions,
    natives, regexes and non-finite numbers are errors; null and unset become `null` -/
theorem toJVal_rejects (h : Heap) (n : Nat) (path : List Cont) (check : Bool) :
    (∀ i, ∃ m, toJVal h (n + 1) path check (.fn i) = .error m) ∧
    (∀ f b sp, ∃ m, toJVal h (n + 1) path check (.native f b sp) = .error m) ∧
    (∀ r, ∃ m, toJVal h (n + 1) path check (.regex r) = .error m) ∧
    (∀ x, x.jsonFormat = none → ∃ m, toJVal h (n + 1) path check (.num x) = .error m) ∧
    (∀ x lit, x.jsonFormat = some lit → toJVal h (n + 1) path check (.num x) = .ok (.num lit)) ∧
    (∀ sp, toJVal h (n + 1) path check (.nil sp) = .ok .null) ∧
    toJVal h (n + 1) path check .unknown = .ok .null := by
  refine ⟨?_, ?_, ?_, ?_, ?_, ?_, ?_⟩ <;> intros <;> simp_all [toJVal, onPath, Val.cont?]

/-- an error inside an array is never swallowed: the array does not convert -/
theorem toJVal_error_propagates (h : Heap) (n : Nat) (path : List Cont) (check : Bool) (a : ArrId)
    (hp : (check && path.contains (.a a)) = false) (c : CellId) (hc : c ∈ (h.arr a).toList)
    (m : String) (hm : toJVal h n (path ++ [.a a]) true (h.get c) = .error m) :
    ∀ j, toJVal h (n + 1) path check (.arr a) ≠ .ok j := by
  intro j
  rw [toJVal_arr_unfold h n path check a hp]
  have := sequence_not_ok_of_error
    ((h.arr a).toList.map fun c => toJVal h n (path ++ [.a a]) true (h.get c)) m
    (List.mem_map.2 ⟨c, hc, hm⟩)
  cases hs : GoValRes.sequence
    ((h.arr a).toList.map fun c => toJVal h n (path ++ [.a a]) true (h.get c)) with
  | ok r => exact absurd hs (this r)
  | error _ => simp [GoValRes.map]
  | oof => simp [GoValRes.map]

/-- non-vacuity: a self-containing object, a function in an array, an infinite number -/
example : (match toJValTop ⟨#[.obj 0], #[], #[[(b!"self", 0)]]⟩ (.obj 0) with
    | .error m => m | _ => "") = "circular reference" := by decide +kernel
example : (match toJValTop ⟨#[.fn 3], #[#[0]], #[]⟩ (.arr 0) with
    | .error m => m | _ => "") = "a function cannot be converted to a native type" := by decide +kernel
example : (F64.inf false).jsonFormat = none ∧ F64.nan.jsonFormat = none := by decide +kernel
example : (match toJValTop Heap.empty (.num (F64.inf true)) with
    | .error m => m | _ => "") = "unsupported value" := by decide +kernel

/-! ### 4. errors and success in terms of reachability

  `Child h c w`: `w` is the value of an element/member of container `c`; `Reach h c d`: container
  `d` is reachable from `c` in ≥ 1 steps; `RootReach h v w`: `w` is `v` or reachable from it;
  `Expressible w`: `w` is not a function, native, regex or non-finite number
  (all in Lemmas/Reach.lean). -/

/-- "circular reference" is reported only if some container reachable from `v` reaches itself -/
theorem toJVal_cycle_sound (h : Heap) (v : Val)
    (e : toJValTop h v = .error "circular reference") :
    ∃ w c, RootReach h v w ∧ w.cont? = some c ∧ Reach h c c := by
  rcases toJVal_error_cause h v _ [] false v _ (Or.inl rfl) (by simp) e with ⟨_, r⟩ | ⟨hne, _⟩
  · exact r
  · exact absurd rfl hne

/-- any other error is caused by a reachable value that JSON cannot express -/
theorem toJVal_other_error_sound (h : Heap) (v : Val) (m : String)
    (e : toJValTop h v = .error m) (hm : m ≠ "circular reference") :
    ∃ w, RootReach h v w ∧ ¬ Expressible w := by
  rcases toJVal_error_cause h v _ [] false v _ (Or.inl rfl) (by simp) e with ⟨hc, _⟩ | ⟨_, r⟩
  · exact absurd hc hm
  · exact r

/-- Characterisation of success (not of the result): the conversion SUCCEEDS exactly when no
    container reachable from `v` reaches itself and every reachable value is JSON-expressible.
    (With `toJVal_terminates`: in every other case it is an error.)  What the resulting tree is,
    and that its text parses back to `v`, is not stated here. -/
theorem toJVal_acyclic_ok (h : Heap) (v : Val) :
    (∃ j, toJValTop h v = .ok j) ↔
      (∀ w c, RootReach h v w → w.cont? = some c → ¬ Reach h c c) ∧
      (∀ w, RootReach h v w → Expressible w) := by
  constructor
  · rintro ⟨j, e⟩
    constructor
    · intro w c hr hc
      obtain ⟨n', p', ch', j', e'⟩ := toJVal_ok_rootReach h _ _ _ v j e w hr
      exact toJVal_ok_acyclic h n' p' ch' w j' e' c hc
    · intro w hr
      obtain ⟨n', p', ch', j', e'⟩ := toJVal_ok_rootReach h _ _ _ v j e w hr
      exact toJVal_ok_expressible h n' p' ch' w j' e'
  · rintro ⟨hac, hex⟩
    cases e : toJValTop h v with
    | ok j => exact ⟨j, rfl⟩
    | oof => exact absurd e (toJVal_terminates h v)
    | error m =>
      exfalso
      rcases toJVal_error_cause h v _ [] false v _ (Or.inl rfl) (by simp) e with
        ⟨_, w, c, hr, hc, hcyc⟩ | ⟨_, w, hr, hne⟩
      · exact hac w c hr hc hcyc
      · exact hne (hex w hr)

/-- a value that reaches itself is therefore always rejected (never `.ok`, never out of fuel) -/
theorem toJVal_cyclic_rejected (h : Heap) (v : Val) (c : Cont) (hc : v.cont? = some c)
    (hcyc : Reach h c c) : ∃ m, toJValTop h v = .error m := by
  cases e : toJValTop h v with
  | error m => exact ⟨m, rfl⟩
  | oof => exact absurd e (toJVal_terminates h v)
  | ok j => exact absurd hcyc (((toJVal_acyclic_ok h v).1 ⟨j, e⟩).1 v c (Or.inl rfl) hc)

/-- non-vacuity: object 0 reaches itself through array 0 -/
example : Reach ⟨#[.arr 0, .obj 0], #[#[1]], #[[(b!"k", 0)]]⟩ (.o 0) (.o 0) :=
  .trans (.step (v := .arr 0) (.obj 0 (b!"k", 0) (by simp [Heap.obj])) rfl)
         (.step (v := .obj 0) (.arr 0 1 (by simp [Heap.arr])) rfl)

/-! ### 5. round trip: a document read by `NewValue` and written back

  `JVal.norm j` (Lemmas/NewValue.lean): `j` with the members of every object sorted by key
  (what `encoding/json` does when writing a map) and every number literal re-formatted
  (`jsonFormat (parse lit)`: the nearest double as the encoder prints it).
  `JVal.Plain j`: object keys pairwise distinct at every level (as in every decoded document:
  the decoder keeps the last duplicate) and every number literal denotes a finite double
  (`numOk` of the decoder).  Note: `Plain` does not ask that a literal parses; `norm` and
  `newValueJson` both read an unparsable literal as 0 (`getD`), so for such a `JVal` — which the
  decoder never produces, a fact not proved here — the round trip holds by that default. -/

/-- Clause "the JSON written through -o by a program that does not modify it parses to a value
    equal to the input as read": the tree that `newValueJson` builds in the heap converts back
    to the document — for every heap the construction started from, up to key order and number
    re-formatting (`norm`).  Tree level only: the step "written … parses to" (encoder bytes,
    decoder) is not part of the statement. -/
theorem newValue_roundtrip (j : JVal) (hj : j.Plain) (s s' : St) (v : Val)
    (e : newValueJson j s = .ok v s') : toJValTop s'.heap v = .ok j.norm :=
  newValueJson_toJValTop j hj s s' v e

/-- the construction itself is total (no fuel, no error path): so for every document and every
    starting state there IS a built value, and it converts back -/
theorem newValue_succeeds (j : JVal) (s : St) :
    ∃ v s', newValueJson j s = .ok v s' ∧ (j.Plain → toJValTop s'.heap v = .ok j.norm) := by
  obtain ⟨v, s', e⟩ := newValueJson_succeeds j s
  exact ⟨v, s', e, fun hj => newValue_roundtrip j hj s s' v e⟩

/-- heap framing: the construction only allocates — every cell, array and object that existed
    before is unchanged (`HeapExt`: the three tables of the old heap are prefixes of the new) -/
theorem newValue_allocates_only (j : JVal) (hj : j.Plain) (s s' : St) (v : Val)
    (e : newValueJson j s = .ok v s') :
    HeapExt s.heap s'.heap ∧ (∀ c, c < s.heap.cells.size → s'.heap.get c = s.heap.get c) ∧
      (∀ a, a < s.heap.arrs.size → s'.heap.arr a = s.heap.arr a) ∧
      (∀ o, o < s.heap.objs.size → s'.heap.obj o = s.heap.obj o) := by
  obtain ⟨he, _⟩ := newValueJson_spec j s v s' hj e
  exact ⟨he, he.get_eq, he.arr_eq, he.obj_eq⟩

/-- `-o` right after reading: with the document stored in a fresh root cell, `GetRootJson`
    writes `marshalIndent` of the normalised document -/
theorem newValue_getRootJson (j : JVal) (hj : j.Plain) (s s' : St) (v : Val)
    (e : newValueJson j s = .ok v s') :
    getRootJson { s' with heap := (s'.heap.alloc v).2, root := some (s'.heap.alloc v).1 }
      = some (Json.marshalIndent j.norm) := by
  obtain ⟨_, hrep⟩ := newValueJson_spec j s v s' hj e
  have he : HeapExt s'.heap (s'.heap.alloc v).2 := HeapExt.alloc _ _
  obtain ⟨m, hm⟩ := toJVal_of_reprB (hrep.lift _ _ _ he he.arrs_size he.objs_size) hj [] false
    (by simp) (by simp)
  have := toJValTop_of_fuel _ m v _ hm
  have hget : (s'.heap.alloc v).2.get (s'.heap.alloc v).1 = v := by simp [Heap.alloc, Heap.get]
  simp only [getRootJson, hget, this]

/-- normal form on an example: keys sorted, numbers re-formatted, arrays in order -/
example : (JVal.obj [(b!"b", .arr [.num b!"1e2", .null]), (b!"a", .str b!"x")]).norm
    = .obj [(b!"a", .str b!"x"), (b!"b", .arr [.num b!"100", .null])] := by rfl

/-- non-vacuity of `Plain` and of a successful construction -/
example : (JVal.obj [(b!"b", .arr [.num b!"1e2", .obj []]), (b!"a", .str b!"x")]).Plain := by
  simp only [JVal.Plain, JVal.PlainMembers, JVal.PlainList, List.pairwise_cons, List.Pairwise.nil]
  refine ⟨⟨?_, ?_⟩, ⟨?_, ?_, trivial⟩, trivial, trivial⟩ <;> first | trivial | decide +kernel | simp
example : (match newValueJson (.obj [(b!"b", .arr [.null, .obj []]), (b!"a", .str b!"x")]) default with
    | .ok v s' => (match toJValTop s'.heap v with | .ok j => Json.marshalIndent j | _ => [])
    | _ => []) = b!"{\n  \"a\": \"x\",\n  \"b\": [\n    null,\n    {}\n  ]\n}" := by rfl

end Jqawk.C04
