/-
  C04 — JSON written by -o and json() is valid and equal to the value it represents.
  Here: the conversion `toJVal` (ToGoValue + what json.Marshal needs) terminates on every heap,
  keeps empty containers, rejects cycles and inexpressible values; partial round trip with
  `newValueJson`.
  Sections 1-5 are at the level of the JSON TREE (`JVal`) handed to the encoder.  Section 6
  relates the BYTES of `Json.marshalIndent` to the decoder: strings (all escape classes, exact
  iff valid UTF-8), scalars, white space, and by induction on the tree the whole text
  (`bytes_round_trip_partial`, `decoded_rewritten`, `file_round_trip_partial`), for nesting depth
  up to 10000 and under ONE explicit hypothesis on number leaves (the formatted number is a
  grammatical JSON number in range: a property of Go's float formatting that is tested
  differentially, not proved).  Section 7: beyond 10000 levels `json()` and `-o` are the error
  `json.MarshalIndent` reports there (`nativeJson_depth_limit`, `getRootJson_depth_limit`).
-/
import Jqawk.Model.Driver
import Jqawk.Model.Natives
import Jqawk.Model.Cli
import Jqawk.Lemmas.Render
import Jqawk.Lemmas.Reach
import Jqawk.Lemmas.NewValue
import Jqawk.Lemmas.JsonBytesCanon
import Jqawk.Lemmas.JsonBytesNorm
import Jqawk.Lemmas.JsonBytesSorted
import Jqawk.Lemmas.JsonBytesDepth
import Jqawk.Lemmas.JsonDepthLimit
import Jqawk.Lemmas.JsonBytesNums
import Jqawk.Lemmas.JsonBytesUtf8
import Jqawk.Lemmas.JsonBytesFinite

namespace Jqawk.C04
open Jqawk

/-! ### 1. termination -/

/-- general form, for EVERY heap: along a duplicate-free ancestor path of allocated containers
    the fuel `nconts + 1 - path.length` is never exhausted -/
theorem toJVal_terminates_gen (h : Heap) (n : Nat) (path : List Cont) (check : Bool) (v : Val)
    (hnd : path.Nodup) (hvalid : ∀ c ∈ path, c.valid h)
    (hcheck : check = true ∨ onPath path v = false)
    (hfuel : h.arrs.size + h.objs.size + 1 ≤ path.length + n) :
    toJVal h n path check v ≠ .oof :=
  toJVal_ne_oof_gen h n path check v ⟨hnd, hvalid⟩ hcheck hfuel

/-- Clause "rejected with an error instead of recursing forever": `ToGoValue` never runs out of
    fuel, whatever the heap and the value -/
theorem toJVal_terminates (h : Heap) (v : Val) : toJValTop h v ≠ .oof :=
  toJVal_ne_oof_gen h _ [] false v (PathOk.nil h) (Or.inr (by cases v <;> rfl))
    (by simp [renderFuel, Heap.nconts])

/-- consequence for `json()`: the builtin never reports out-of-fuel -/
theorem nativeJson_terminates (args : List Val) (this : Option Val) (s : St) :
    callNative .json args this s ≠ .oof := by
  have := toJVal_terminates s.heap (args.getD 0 .unknown)
  simp only [callNative, bind, EM.bind, getHeap]
  cases checkArgCount args 1 with
  | error m => simp [pure, EM.pure]
  | ok u =>
    cases ht : toJValTop s.heap (args.getD 0 .unknown) <;> simp_all [pure, EM.pure]

/-- consequence for `-o`: `GetRootJson` fails only for "no root", a conversion ERROR, or a converted
    tree that `json.MarshalIndent` refuses (`Json.tooDeep`: nested deeper than 10000, section 7) -/
theorem getRootJson_none_iff (s : St) :
    getRootJson s = none ↔
      s.root = none ∨ (∃ c m, s.root = some c ∧ toJValTop s.heap (s.heap.get c) = .error m) ∨
        ∃ c j, s.root = some c ∧ toJValTop s.heap (s.heap.get c) = .ok j ∧ Json.tooDeep j = true := by
  unfold getRootJson
  cases hr : s.root with
  | none => simp
  | some c =>
    have := toJVal_terminates s.heap (s.heap.get c)
    cases ht : toJValTop s.heap (s.heap.get c) <;> simp_all

/-! ### 2. empty containers -/

/-- Clause "this holds for empty arrays": an array without elements converts to `[]`, not to
    null, at any depth (any path, any fuel > 0) -/
theorem toJVal_empty_array (h : Heap) (n : Nat) (path : List Cont) (check : Bool) (a : ArrId)
    (he : h.arr a = #[]) (hp : (check && path.contains (.a a)) = false) :
    toJVal h (n + 1) path check (.arr a) = .ok (.arr []) := by
  rw [toJVal_arr_unfold h n path check a hp]; simp [he, GoValRes.sequence, GoValRes.map]

theorem toJVal_empty_object (h : Heap) (n : Nat) (path : List Cont) (check : Bool) (o : ObjId)
    (he : h.obj o = []) (hp : (check && path.contains (.o o)) = false) :
    toJVal h (n + 1) path check (.obj o) = .ok (.obj []) := by
  rw [toJVal_obj_unfold h n path check o hp]; simp [he, GoValRes.sequence, GoValRes.map, sortByKey]

/-- and the bytes written for them -/
example : Json.marshalIndent (.arr []) = b!"[]" ∧ Json.marshalIndent (.obj []) = b!"{}" := by decide

/-- non-vacuity: an empty array nested in an array, through `toJValTop` and `marshalIndent` -/
example : (match toJValTop ⟨#[.arr 1], #[#[0], #[]], #[]⟩ (.arr 0) with
    | .ok j => Json.marshalIndent j | _ => []) = b!"[\n  []\n]" := by decide +kernel

/-! ### 3. cycles and inexpressible values are errors -/

/-- Clause "a value that (transitively) contains itself is rejected with an error": the
    conversion reports "circular reference" when it meets a container that is its own ancestor -/
theorem toJVal_cycle_error (h : Heap) (n : Nat) (path : List Cont) (v : Val)
    (hp : onPath path v = true) :
    toJVal h (n + 1) path true v = .error "circular reference" := by
  rw [toJVal.eq_def]; simp [hp]

example : onPath [.o 0] (.obj 0) = true ∧ onPath [.o 0] (.arr 0) = false := by decide

/-- Clause "a value JSON cannot express (function, non-finite number) is an error": functions,
    natives, regexes and non-finite numbers are errors; null and unset become `null` -/
theorem toJVal_rejects (h : Heap) (n : Nat) (path : List Cont) (check : Bool) :
    (∀ i, ∃ m, toJVal h (n + 1) path check (.fn i) = .error m) ∧
    (∀ f b sp, ∃ m, toJVal h (n + 1) path check (.native f b sp) = .error m) ∧
    (∀ r, ∃ m, toJVal h (n + 1) path check (.regex r) = .error m) ∧
    (∀ x, x.jsonFormat = none → ∃ m, toJVal h (n + 1) path check (.num x) = .error m) ∧
    (∀ x lit, x.jsonFormat = some lit → toJVal h (n + 1) path check (.num x) = .ok (.num lit)) ∧
    (∀ sp, toJVal h (n + 1) path check (.nil sp) = .ok .null) ∧
    toJVal h (n + 1) path check .unknown = .ok .null := by
  refine ⟨?_, ?_, ?_, ?_, ?_, ?_, ?_⟩ <;> intros <;> simp_all [toJVal, onPath, Val.cont?]

/-- an error inside an array is never swallowed: the array does not convert -/
theorem toJVal_error_propagates (h : Heap) (n : Nat) (path : List Cont) (check : Bool) (a : ArrId)
    (hp : (check && path.contains (.a a)) = false) (c : CellId) (hc : c ∈ (h.arr a).toList)
    (m : String) (hm : toJVal h n (path ++ [.a a]) true (h.get c) = .error m) :
    ∀ j, toJVal h (n + 1) path check (.arr a) ≠ .ok j := by
  intro j
  rw [toJVal_arr_unfold h n path check a hp]
  have := sequence_not_ok_of_error
    ((h.arr a).toList.map fun c => toJVal h n (path ++ [.a a]) true (h.get c)) m
    (List.mem_map.2 ⟨c, hc, hm⟩)
  cases hs : GoValRes.sequence
    ((h.arr a).toList.map fun c => toJVal h n (path ++ [.a a]) true (h.get c)) with
  | ok r => exact absurd hs (this r)
  | error _ => simp [GoValRes.map]
  | oof => simp [GoValRes.map]

/-- non-vacuity: a self-containing object, a function in an array, an infinite number -/
example : (match toJValTop ⟨#[.obj 0], #[], #[[(b!"self", 0)]]⟩ (.obj 0) with
    | .error m => m | _ => "") = "circular reference" := by decide +kernel
example : (match toJValTop ⟨#[.fn 3], #[#[0]], #[]⟩ (.arr 0) with
    | .error m => m | _ => "") = "a function cannot be converted to a native type" := by decide +kernel
example : (F64.inf false).jsonFormat = none ∧ F64.nan.jsonFormat = none := by decide +kernel
example : (match toJValTop Heap.empty (.num (F64.inf true)) with
    | .error m => m | _ => "") = "unsupported value" := by decide +kernel

/-! ### 4. errors and success in terms of reachability

  `Child h c w`: `w` is the value of an element/member of container `c`; `Reach h c d`: container
  `d` is reachable from `c` in ≥ 1 steps; `RootReach h v w`: `w` is `v` or reachable from it;
  `Expressible w`: `w` is not a function, native, regex or non-finite number
  (all in Lemmas/Reach.lean). -/

/-- "circular reference" is reported only if some container reachable from `v` reaches itself -/
theorem toJVal_cycle_sound (h : Heap) (v : Val)
    (e : toJValTop h v = .error "circular reference") :
    ∃ w c, RootReach h v w ∧ w.cont? = some c ∧ Reach h c c := by
  rcases toJVal_error_cause h v _ [] false v _ (Or.inl rfl) (by simp) e with ⟨_, r⟩ | ⟨hne, _⟩
  · exact r
  · exact absurd rfl hne

/-- any other error is caused by a reachable value that JSON cannot express -/
theorem toJVal_other_error_sound (h : Heap) (v : Val) (m : String)
    (e : toJValTop h v = .error m) (hm : m ≠ "circular reference") :
    ∃ w, RootReach h v w ∧ ¬ Expressible w := by
  rcases toJVal_error_cause h v _ [] false v _ (Or.inl rfl) (by simp) e with ⟨hc, _⟩ | ⟨_, r⟩
  · exact absurd hc hm
  · exact r

/-- Characterisation of success (not of the result): the conversion SUCCEEDS exactly when no
    container reachable from `v` reaches itself and every reachable value is JSON-expressible.
    (With `toJVal_terminates`: in every other case it is an error.)  What the resulting tree is,
    and that its text parses back to `v`, is not stated here. -/
theorem toJVal_acyclic_ok (h : Heap) (v : Val) :
    (∃ j, toJValTop h v = .ok j) ↔
      (∀ w c, RootReach h v w → w.cont? = some c → ¬ Reach h c c) ∧
      (∀ w, RootReach h v w → Expressible w) := by
  constructor
  · rintro ⟨j, e⟩
    constructor
    · intro w c hr hc
      obtain ⟨n', p', ch', j', e'⟩ := toJVal_ok_rootReach h _ _ _ v j e w hr
      exact toJVal_ok_acyclic h n' p' ch' w j' e' c hc
    · intro w hr
      obtain ⟨n', p', ch', j', e'⟩ := toJVal_ok_rootReach h _ _ _ v j e w hr
      exact toJVal_ok_expressible h n' p' ch' w j' e'
  · rintro ⟨hac, hex⟩
    cases e : toJValTop h v with
    | ok j => exact ⟨j, rfl⟩
    | oof => exact absurd e (toJVal_terminates h v)
    | error m =>
      exfalso
      rcases toJVal_error_cause h v _ [] false v _ (Or.inl rfl) (by simp) e with
        ⟨_, w, c, hr, hc, hcyc⟩ | ⟨_, w, hr, hne⟩
      · exact hac w c hr hc hcyc
      · exact hne (hex w hr)

/-- a value that reaches itself is therefore always rejected (never `.ok`, never out of fuel) -/
theorem toJVal_cyclic_rejected (h : Heap) (v : Val) (c : Cont) (hc : v.cont? = some c)
    (hcyc : Reach h c c) : ∃ m, toJValTop h v = .error m := by
  cases e : toJValTop h v with
  | error m => exact ⟨m, rfl⟩
  | oof => exact absurd e (toJVal_terminates h v)
  | ok j => exact absurd hcyc (((toJVal_acyclic_ok h v).1 ⟨j, e⟩).1 v c (Or.inl rfl) hc)

/-- non-vacuity: object 0 reaches itself through array 0 -/
example : Reach ⟨#[.arr 0, .obj 0], #[#[1]], #[[(b!"k", 0)]]⟩ (.o 0) (.o 0) :=
  .trans (.step (v := .arr 0) (.obj 0 (b!"k", 0) (by simp [Heap.obj])) rfl)
         (.step (v := .obj 0) (.arr 0 1 (by simp [Heap.arr])) rfl)

/-! ### 5. round trip: a document read by `NewValue` and written back

  `JVal.norm j` (Lemmas/NewValue.lean): `j` with the members of every object sorted by key
  (what `encoding/json` does when writing a map) and every number literal re-formatted
  (`jsonFormat (parse lit)`: the nearest double as the encoder prints it).
  `JVal.Plain j`: object keys pairwise distinct at every level (as in every decoded document:
  the decoder keeps the last duplicate) and every number literal denotes a finite double
  (`numOk` of the decoder).  Note: `Plain` does not ask that a literal parses; `norm` and
  `newValueJson` both read an unparsable literal as 0 (`getD`), so for such a `JVal` — which the
  decoder never produces, a fact not proved here — the round trip holds by that default. -/

/-- Clause "the JSON written through -o by a program that does not modify it parses to a value
    equal to the input as read": the tree that `newValueJson` builds in the heap converts back
    to the document — for every heap the construction started from, up to key order and number
    re-formatting (`norm`).  Tree level only: the step "written … parses to" (encoder bytes,
    decoder) is not part of the statement. -/
theorem newValue_roundtrip (j : JVal) (hj : j.Plain) (s s' : St) (v : Val)
    (e : newValueJson j s = .ok v s') : toJValTop s'.heap v = .ok j.norm :=
  newValueJson_toJValTop j hj s s' v e

/-- the construction itself is total (no fuel, no error path): so for every document and every
    starting state there IS a built value, and it converts back -/
theorem newValue_succeeds (j : JVal) (s : St) :
    ∃ v s', newValueJson j s = .ok v s' ∧ (j.Plain → toJValTop s'.heap v = .ok j.norm) := by
  obtain ⟨v, s', e⟩ := newValueJson_succeeds j s
  exact ⟨v, s', e, fun hj => newValue_roundtrip j hj s s' v e⟩

/-- heap framing: the construction only allocates — every cell, array and object that existed
    before is unchanged (`HeapExt`: the three tables of the old heap are prefixes of the new) -/
theorem newValue_allocates_only (j : JVal) (hj : j.Plain) (s s' : St) (v : Val)
    (e : newValueJson j s = .ok v s') :
    HeapExt s.heap s'.heap ∧ (∀ c, c < s.heap.cells.size → s'.heap.get c = s.heap.get c) ∧
      (∀ a, a < s.heap.arrs.size → s'.heap.arr a = s.heap.arr a) ∧
      (∀ o, o < s.heap.objs.size → s'.heap.obj o = s.heap.obj o) := by
  obtain ⟨he, _⟩ := newValueJson_spec j s v s' hj e
  exact ⟨he, he.get_eq, he.arr_eq, he.obj_eq⟩

/-- `-o` right after reading: with the document stored in a fresh root cell, `GetRootJson`
    writes `marshalIndent` of the normalised document — unless that is nested deeper than
    `json.MarshalIndent` accepts (never the case for a document the decoder delivered:
    `decoded_depth`, `document_bytes_round_trip_partial`) -/
theorem newValue_getRootJson (j : JVal) (hj : j.Plain) (s s' : St) (v : Val)
    (e : newValueJson j s = .ok v s') :
    getRootJson { s' with heap := (s'.heap.alloc v).2, root := some (s'.heap.alloc v).1 }
      = if Json.tooDeep j.norm then none else some (Json.marshalIndent j.norm) := by
  obtain ⟨_, hrep⟩ := newValueJson_spec j s v s' hj e
  have he : HeapExt s'.heap (s'.heap.alloc v).2 := HeapExt.alloc _ _
  obtain ⟨m, hm⟩ := toJVal_of_reprB (hrep.lift _ _ _ he he.arrs_size he.objs_size) hj [] false
    (by simp) (by simp)
  have := toJValTop_of_fuel _ m v _ hm
  have hget : (s'.heap.alloc v).2.get (s'.heap.alloc v).1 = v := by simp [Heap.alloc, Heap.get]
  simp only [getRootJson, hget, this]

/-- normal form on an example: keys sorted, numbers re-formatted, arrays in order -/
example : (JVal.obj [(b!"b", .arr [.num b!"1e2", .null]), (b!"a", .str b!"x")]).norm
    = .obj [(b!"a", .str b!"x"), (b!"b", .arr [.num b!"100", .null])] := by rfl

/-- non-vacuity of `Plain` and of a successful construction -/
example : (JVal.obj [(b!"b", .arr [.num b!"1e2", .obj []]), (b!"a", .str b!"x")]).Plain := by
  simp only [JVal.Plain, JVal.PlainMembers, JVal.PlainList, List.pairwise_cons, List.Pairwise.nil]
  refine ⟨⟨?_, ?_⟩, ⟨?_, ?_, trivial⟩, trivial, trivial⟩ <;> first | trivial | decide +kernel | simp
example : (match newValueJson (.obj [(b!"b", .arr [.null, .obj []]), (b!"a", .str b!"x")]) default with
    | .ok v s' => (match toJValTop s'.heap v with | .ok j => Json.marshalIndent j | _ => [])
    | _ => []) = b!"{\n  \"a\": \"x\",\n  \"b\": [\n    null,\n    {}\n  ]\n}" := by rfl

/-! ### 6. bytes: what `marshalIndent` writes, the decoder reads back

  Sections 1–5 are about the JSON TREE.  Here: the BYTES `Json.marshalIndent` produces (the text
  `-o` writes to the file and `json()` returns) are fed to `Json.decodeOne`, the model of one
  `json.Decoder.Decode` call.  Vocabulary (Lemmas/JsonBytes*.lean):
  `quoteBody s` = the bytes written between the quotes for the string `s`;
  `sanitize s` = Go's coercion to valid UTF-8 (each byte that does not start a well-formed
  sequence becomes EF BF BD); `validUtf8 0 s` = Go `utf8.Valid`, a `Bool`;
  `NumLit f lit` = the HYPOTHESIS on a number literal (see `bytes_round_trip_partial`);
  `depth j` = nesting depth; `canonJ j` = `j` with every object replaced by the Go map it denotes
  (keys ascending, last duplicate wins); `reread j` = `canonJ j` computed with re-read
  (sanitized) strings and keys.  `f` is the decoder's `numOk` parameter; `t` the reader's state
  after these bytes (more / eof / error). -/

open Jqawk.Json Jqawk.JsonBytes

/-- (1) STRINGS, the two loops.  For EVERY byte string `s`, valid UTF-8 or not: the text written
    is `"` `quoteBody s` `"`, and Go's `unquote` applied to `quoteBody s` gives `sanitize s`.  Says
    nothing yet about the scanner accepting the text (next theorems). -/
theorem string_unquote_quote (s : Bytes) :
    marshalIndent (.str s) = 0x22 :: quoteBody s ++ [0x22] ∧ unquote (quoteBody s) = sanitize s :=
  ⟨by rw [marshalIndent_eq]; rfl, unquote_quoteBody s⟩

/-- (1) valid UTF-8 is unchanged by the coercion — the explicit decidable hypothesis under which
    the string round trip is exact -/
theorem sanitize_of_valid (s : Bytes) (h : validUtf8 0 s = true) : sanitize s = s :=
  sanitize_valid s h

/-- (1) STRINGS as a whole document: the written string followed by at least one byte (any byte:
    the scanner reports a top-level scalar when it sees the byte after it), any reader state,
    decodes to the coerced string and leaves exactly the following bytes.  All escape classes of
    the writer are covered because `s` is arbitrary. -/
theorem string_bytes_general (f : Bytes → Bool) (s : Bytes) (c : UInt8) (cs : Bytes) (t : Tail) :
    decodeOne f (marshalIndent (.str s) ++ c :: cs) t = .value (.str (sanitize s)) (c :: cs) := by
  simpa [reread] using top_scalar f (.str s) (Or.inr (Or.inr ⟨s, rfl⟩)) c cs t

/-- (1) the exact round trip for valid UTF-8, with following bytes and at end of input -/
theorem string_bytes_round_trip (f : Bytes → Bool) (s : Bytes) (h : validUtf8 0 s = true) :
    (∀ c cs t, decodeOne f (marshalIndent (.str s) ++ c :: cs) t = .value (.str s) (c :: cs)) ∧
    decodeOne f (marshalIndent (.str s)) .eof = .value (.str s) [] := by
  constructor
  · intro c cs t; rw [string_bytes_general, sanitize_valid s h]
  · have := top_eof f (.str s) trivial (by simp [depth])
    simpa [reread, sanitize_valid s h] using this

/-- (1) and ONLY valid UTF-8 comes back: the hypothesis of `string_bytes_round_trip` is necessary —
    the written text decodes to `s` itself exactly when `validUtf8 0 s` -/
theorem string_bytes_round_trip_iff (f : Bytes → Bool) (s : Bytes) :
    decodeOne f (marshalIndent (.str s)) .eof = .value (.str s) [] ↔ validUtf8 0 s = true := by
  constructor
  · intro h
    have h2 := top_eof f (.str s) trivial (by simp [depth])
    rw [h2] at h
    simp only [reread, DecodeRes.value.injEq, JVal.str.injEq, and_true] at h
    exact valid_of_sanitize s h
  · intro h; exact (string_bytes_round_trip f s h).2

/-- (1) the decoder positioned ANYWHERE a string may stand, any following bytes: as a value inside
    an array or object (the value is delivered to the enclosing frame: appended to the array /
    stored under the pending key) and as an object key (it becomes the pending key) -/
theorem string_bytes_anywhere (f : Bytes → Bool) (s : Bytes) (t : Tail) (fs : List Json.Frame) (dp : Nat)
    (lit : Bytes) (bad : Bool) (rest : Bytes) :
    (∀ st, st = Json.Step.beginValue ∨ st = Json.Step.beginValueOrEmpty → ∀ acc,
      run f ⟨st, .arr acc :: fs, dp, lit, bad⟩ (marshalIndent (.str s) ++ rest) t
        = run f ⟨.endValue, .arr (.str (sanitize s) :: acc) :: fs, dp, [], bad⟩ rest t) ∧
    (∀ ms k, run f ⟨.beginValue, .obj ms k true :: fs, dp, lit, bad⟩ (marshalIndent (.str s) ++ rest) t
        = run f ⟨.endValue, .obj (insertMember k (.str (sanitize s)) ms) [] true :: fs, dp, [], bad⟩ rest t) ∧
    (∀ st, st = Json.Step.beginString ∨ st = Json.Step.beginStringOrEmpty → ∀ ms k0,
      run f ⟨st, .obj ms k0 false :: fs, dp, lit, bad⟩ (marshalIndent (.str s) ++ rest) t
        = run f ⟨.endValue, .obj ms (sanitize s) false :: fs, dp, [], bad⟩ rest t) :=
  ⟨fun st hst acc => run_str_value f s t st hst (.arr acc) fs dp lit bad rest,
   fun ms k => run_str_value f s t .beginValue (Or.inl rfl) (.obj ms k true) fs dp lit bad rest,
   fun st hst ms k0 => run_str_key f s t st hst ms k0 fs dp lit bad rest⟩

/-- the escape classes the writer emits, on one string: quote, backslash, \n \r \t, another
    control, `<` `>` `&`, U+2028, U+2029, a two-, a three- and a four-byte character -/
example : marshalIndent (.str ([0x22, 0x5C, 0x0A, 0x0D, 0x09, 0x01, 0x3C, 0x3E, 0x26,
      0xE2, 0x80, 0xA8, 0xE2, 0x80, 0xA9, 0xC3, 0xA9, 0xE2, 0x82, 0xAC, 0xF0, 0x9F, 0x98, 0x80]))
    = b!"\"\\\"\\\\\\n\\r\\t\\u0001\\u003c\\u003e\\u0026\\u2028\\u2029" ++ [0xC3, 0xA9, 0xE2, 0x82, 0xAC, 0xF0, 0x9F, 0x98, 0x80, 0x22] := by
  decide +kernel
example : validUtf8 0 [0x22, 0x5C, 0x0A, 0x0D, 0x09, 0x01, 0x3C, 0x3E, 0x26,
      0xE2, 0x80, 0xA8, 0xE2, 0x80, 0xA9, 0xC3, 0xA9, 0xE2, 0x82, 0xAC, 0xF0, 0x9F, 0x98, 0x80] = true := by
  decide +kernel

/-- FINDING (what happens without the hypothesis): a byte string that is not valid UTF-8 does NOT
    come back — the writer emits `\ufffd` for each offending byte (Go does the same), so the
    value read is different, and two different strings can be written identically -/
example : validUtf8 0 [0x61, 0xFF] = false ∧ marshalIndent (.str [0x61, 0xFF]) = b!"\"a\\ufffd\"" ∧
    sanitize [0x61, 0xFF] = [0x61, 0xEF, 0xBF, 0xBD] ∧
    marshalIndent (.str [0x61, 0xFF]) = marshalIndent (.str [0x61, 0xC0]) := by decide +kernel

/-- (2) SCALARS: `null`, `true`, `false` written and read back, followed by any byte (any reader
    state), and at end of input -/
theorem scalar_bytes_round_trip (f : Bytes → Bool) (j : JVal) (hj : j = .null ∨ j = .bool true ∨ j = .bool false) :
    (∀ c cs t, decodeOne f (marshalIndent j ++ c :: cs) t = .value j (c :: cs)) ∧
    decodeOne f (marshalIndent j) .eof = .value j [] := by
  rcases hj with rfl | rfl | rfl
  · exact ⟨fun c cs t => by simpa [reread] using top_scalar f .null (Or.inl rfl) c cs t,
      by simpa [reread] using top_eof f .null trivial (by simp [depth])⟩
  · exact ⟨fun c cs t => by simpa [reread] using top_scalar f (.bool true) (Or.inr (Or.inl ⟨_, rfl⟩)) c cs t,
      by simpa [reread] using top_eof f (.bool true) trivial (by simp [depth])⟩
  · exact ⟨fun c cs t => by simpa [reread] using top_scalar f (.bool false) (Or.inr (Or.inl ⟨_, rfl⟩)) c cs t,
      by simpa [reread] using top_eof f (.bool false) trivial (by simp [depth])⟩

example : marshalIndent .null = b!"null" ∧ marshalIndent (.bool true) = b!"true" ∧
    marshalIndent (.bool false) = b!"false" := by decide

/-- (3) WHITE SPACE (the writer's newlines and indentation): in every state between tokens the
    scanner skips any run of space, tab, CR, LF without changing its state -/
theorem decoder_skips_whitespace (f : Bytes → Bool) (t : Tail) (st : Json.Step) (h : SkipsWs st)
    (stk : List Json.Frame) (dp : Nat) (lit : Bytes) (bad : Bool) (ws rest : Bytes)
    (hws : ∀ x ∈ ws, isSpace x = true) :
    run f ⟨st, stk, dp, lit, bad⟩ (ws ++ rest) t = run f ⟨st, stk, dp, lit, bad⟩ rest t :=
  run_ws f t st h stk dp lit bad ws rest hws

example : SkipsWs .beginValue ∧ SkipsWs .endValue ∧ ∀ x ∈ b!"\n    ", isSpace x = true := by
  refine ⟨Or.inl rfl, Or.inr (Or.inr (Or.inr (Or.inr rfl))), by decide⟩

/-- (3) STRUCTURE, general form (any strings).  PROVED: by induction on the tree, through the
    decoder's state machine — brackets, commas, colons, indentation, strings, keys, `null`/`true`/
    `false`, the map the decoder builds.  HYPOTHESES: (a) `NumsOK f j`: every NUMBER leaf `lit`
    satisfies `NumLit f lit`, i.e. starts with `-` or a digit and `decodeOne f lit .eof =
    .value (.num lit) []` (the decoder reads the literal, alone, back as itself) — for the literals
    `F64.jsonFormat` produces this is the shortest-round-trip property of Go's float formatting,
    tested differentially, NOT proved; (b) nesting depth at most 10000 (`deep_nesting_rejected` below:
    beyond that the decoder refuses, and Go's `MarshalIndent` too).  CONCLUSION: the whole text is
    consumed (`[]` left at end of input) and the value is `reread j`. -/
theorem bytes_reread_partial (f : Bytes → Bool) (j : JVal) (hnum : NumsOK f j)
    (hdepth : depth j ≤ maxNestingDepth) :
    decodeOne f (marshalIndent j) .eof = .value (reread j) [] :=
  top_eof f j hnum hdepth

/-- (3) STRUCTURE, the round trip proper: with hypotheses (a), (b) of `bytes_reread_partial` and
    (c) every string and key valid UTF-8 (`Utf8OK`, decidable leaf by leaf), decoding
    `marshalIndent j` consumes all bytes and yields `canonJ j`: `j` up to key order and duplicate
    keys (the members of every object sorted bytewise by key, the last of equal keys kept — the
    Go map).  Number leaves are literal texts in `JVal`, so they come back verbatim: `canonJ` does
    not re-format them (unlike `JVal.norm` of section 5).  "_partial": (a) is assumed. -/
theorem bytes_round_trip_partial (f : Bytes → Bool) (j : JVal) (hnum : NumsOK f j)
    (hutf8 : Utf8OK j) (hdepth : depth j ≤ maxNestingDepth) :
    decodeOne f (marshalIndent j) .eof = .value (canonJ j) [] := by
  rw [← reread_eq_canonJ j hutf8]; exact top_eof f j hnum hdepth

/-- (3) if moreover the keys of every object are strictly ascending (`SortedJ`: true of every tree
    whose objects were built with `insertMember`, see `canonMembers_sorted`), the value read is `j`
    itself -/
theorem bytes_round_trip_sorted_partial (f : Bytes → Bool) (j : JVal) (hnum : NumsOK f j)
    (hutf8 : Utf8OK j) (hsorted : SortedJ j) (hdepth : depth j ≤ maxNestingDepth) :
    decodeOne f (marshalIndent j) .eof = .value j [] := by
  rw [bytes_round_trip_partial f j hnum hutf8 hdepth, canonJ_of_sorted j hsorted]

/-- (3) arrays and objects end at their closing bracket: the same with ANY bytes after the text
    and any reader state (more than the file-level statement: a stream of documents) -/
theorem bytes_round_trip_stream_partial (f : Bytes → Bool) (j : JVal)
    (hc : (∃ xs, j = .arr xs) ∨ ∃ ms, j = .obj ms) (hnum : NumsOK f j) (hutf8 : Utf8OK j)
    (hdepth : depth j ≤ maxNestingDepth) (rest : Bytes) (t : Tail) :
    decodeOne f (marshalIndent j ++ rest) t = .value (canonJ j) rest := by
  rw [← reread_eq_canonJ j hutf8]; exact top_composite f j hc hnum hdepth rest t

/-- the Go map of a member list is strictly ascending by key, and building it again changes
    nothing (so `canonJ` is idempotent on members, and decoded objects satisfy `SortedKeys`) -/
theorem canonMembers_sorted_idem (ms : List (Bytes × JVal)) :
    SortedKeys (canonMembers ms) ∧ canonMembers (canonMembers ms) = canonMembers ms :=
  ⟨canonMembers_sorted ms, canonMembers_idem ms⟩

/-- hypothesis (a) holds for every integer literal without sign and leading zero that `numOk`
    accepts (proved through the scanner's number states): the hypothesis is not vacuous, and for
    this class it is a theorem -/
theorem numLit_digits (f : Bytes → Bool) (b : UInt8) (ds : Bytes) (hb : isDigit b = true) (hb0 : b ≠ 0x30)
    (hd : ∀ x ∈ ds, isDigit x = true) (hf : f (b :: ds) = true) : NumLit f (b :: ds) :=
  numLit_of_digits f b ds hb hb0 hd hf

/-- hypothesis (a) is exactly: the literal matches the JSON number grammar (`numGrammar`: a
    finite automaton, `-`? integer part without leading zero, optional fraction, optional
    exponent) and `numOk` (no float64 range error) accepts it.  So what `bytes_round_trip_partial`
    assumes about `F64.jsonFormat` is: its output is a grammatical number within range; that it
    denotes the SAME double (shortest round trip) is not needed for the bytes to come back, only
    for the value `F64.parse` gives afterwards (`JVal.norm`, section 5). -/
theorem numLit_iff_grammar (f : Bytes → Bool) (lit : Bytes) :
    NumLit f lit ↔ (numGrammar lit = true ∧ f lit = true) :=
  numLit_iff f lit

/-- the shapes `jsonFormat` produces: integer, negative, fraction, exponent with sign; and some
    non-literals -/
example : NumLit numOk b!"-0" ∧ NumLit numOk b!"0.000001" ∧ NumLit numOk b!"-1.5e-7" ∧
    NumLit numOk b!"1e+21" ∧ ¬ NumLit numOk b!"01" ∧ ¬ NumLit numOk b!"1." ∧ ¬ NumLit numOk b!"+1" ∧
    ¬ NumLit numOk b!"1e400" ∧ ¬ NumLit numOk b!"NaN" := by
  simp only [numLit_iff_grammar]
  decide +kernel

/-- (2') a NUMBER literal as a whole document: under `NumLit` it is read back at end of input (that
    is the hypothesis) and also when followed by any byte that cannot continue a number
    (`numDelim`: not a digit, `.`, `e`, `E`, `+`, `-`) and then anything; exactly those bytes remain -/
theorem number_bytes_round_trip_partial (f : Bytes → Bool) (lit : Bytes) (h : NumLit f lit) :
    decodeOne f (marshalIndent (.num lit)) .eof = .value (.num lit) [] ∧
    ∀ t c cs, numDelim c = true →
      decodeOne f (marshalIndent (.num lit) ++ c :: cs) t = .value (.num lit) (c :: cs) := by
  have e : marshalIndent (.num lit) = lit := by rw [marshalIndent_eq]; rfl
  rw [e]
  exact ⟨h.2, fun t c cs hc => top_num f lit h t c cs hc⟩

example : numDelim 0x0A = true ∧ numDelim 0x20 = true ∧ numDelim 0x2C = true ∧ numDelim 0x5D = true ∧
    numDelim 0x30 = false ∧ numDelim 0x65 = false := by decide

example : NumLit numOk b!"1200" :=
  numLit_digits numOk 0x31 b!"200" (by decide) (by decide) (by decide) (by decide +kernel)

/-- non-vacuity of `bytes_round_trip_partial` / `_sorted_partial`: a document with an object,
    unsorted and duplicate keys, an array, numbers, an escaped string, empty containers -/
example : let j : JVal := .obj [(b!"b", .arr [.num b!"12", .null, .obj []]), (b!"a", .str b!"x<y\n"),
      (b!"b", .arr [.num b!"7", .bool true, .arr []])]
    NumsOK numOk j ∧ Utf8OK j ∧ depth j ≤ maxNestingDepth ∧
    canonJ j = .obj [(b!"a", .str b!"x<y\n"), (b!"b", .arr [.num b!"7", .bool true, .arr []])] ∧
    SortedJ (canonJ j) := by
  refine ⟨?_, ?_, by decide, by rfl, ?_⟩
  · simp only [NumsOK, NumsOKMembers, NumsOKList, and_true, true_and]
    exact ⟨numLit_digits numOk 0x31 b!"2" (by decide) (by decide) (by decide) (by decide +kernel),
      numLit_digits numOk 0x37 [] (by decide) (by decide) (by decide) (by decide +kernel)⟩
  · simp only [Utf8OK, Utf8OKMembers, Utf8OKList, and_true, true_and]
    decide +kernel
  · have e : canonJ (.obj [(b!"b", .arr [.num b!"12", .null, .obj []]), (b!"a", .str b!"x<y\n"),
        (b!"b", .arr [.num b!"7", .bool true, .arr []])])
        = .obj [(b!"a", .str b!"x<y\n"), (b!"b", .arr [.num b!"7", .bool true, .arr []])] := by rfl
    rw [e]
    simp only [SortedJ, SortedJMembers, SortedJList, SortedKeys, List.pairwise_cons, and_true]
    simp
    decide

/-- Hypothesis (b) is needed for the FUNCTION `marshalIndent`.  `nest n` = `n + 1` arrays inside
    each other; from 10001 levels on, `marshalIndent` (the encoder followed by the indentation,
    without the indent pass's scanner) still produces a text, and the decoder answers that text with
    an error, whatever follows.  Real Go never writes that text: `json.Marshal` succeeds, but
    `json.MarshalIndent` runs the same scanner in its indent pass and returns the error "exceeded
    max depth" (checked with go1.23: 10000 levels are written and read back, 10001 levels make
    `MarshalIndent` fail), so jqawk's `GetRootJson`/`json()` report an error there.  The model's two
    callers of `marshalIndent` test `Json.tooDeep` first and report that error (section 7:
    `nativeJson_depth_limit`, `getRootJson_depth_limit`), so what the MODEL hands out always
    satisfies (b): `getRootJson_bytes_partial`, `nativeJson_bytes_partial` below conclude it. -/
theorem deep_nesting_rejected (f : Bytes → Bool) (t : Tail) (n : Nat) (h : 10000 ≤ n) (rest : Bytes) :
    depth (nest n) = n + 1 ∧ decodeOne f (marshalIndent (nest n) ++ rest) t = .error :=
  ⟨depth_nest n, nest_rejected f t n h rest⟩

/-- `-o`: the bytes `GetRootJson` hands to the file are `marshalIndent` of the converted root, that
    tree is nested at most 10000 deep (hypothesis (b) HOLDS: a deeper one is the error, section 7),
    and — under hypothesis (a) on that tree — reading the file back yields `reread` of it, all
    bytes consumed.  (With section 5: for a document just read, the tree is `j.norm`.) -/
theorem getRootJson_bytes_partial (s : Jqawk.St) (bytes : Bytes) (h : getRootJson s = some bytes) :
    ∃ c j, s.root = some c ∧ toJValTop s.heap (s.heap.get c) = .ok j ∧ bytes = marshalIndent j ∧
      depth j ≤ maxNestingDepth ∧
      (NumsOK numOk j → decodeOne numOk bytes .eof = .value (reread j) []) := by
  unfold getRootJson at h
  cases hr : s.root with
  | none => simp [hr] at h
  | some c =>
    simp only [hr] at h
    cases ht : toJValTop s.heap (s.heap.get c) with
    | ok j =>
      simp only [ht] at h
      cases hd : tooDeep j with
      | true => simp [hd] at h
      | false =>
        simp only [hd, Bool.false_eq_true, ↓reduceIte, Option.some.injEq] at h
        have h2 := (tooDeep_false_iff j).1 hd
        exact ⟨c, j, rfl, ht, h.symm, h2, fun h1 => by rw [← h]; exact top_eof numOk j h1 h2⟩
    | error m => simp [ht] at h
    | oof => simp [ht] at h

/-- `json(v)`: the string the builtin returns is `marshalIndent` of the converted argument, the
    state is unchanged, that tree is nested at most 10000 deep (hypothesis (b) HOLDS: a deeper one
    is the runtime error, section 7), and — under hypothesis (a) on that tree — the string decodes
    to `reread` of it, all bytes consumed (with `Utf8OK`: to `canonJ` of it, by
    `bytes_round_trip_partial`) -/
theorem nativeJson_bytes_partial (args : List Val) (this : Option Val) (s s' : Jqawk.St) (r : Val)
    (h : callNative .json args this s = .ok (.ok (some r)) s') :
    ∃ j, toJValTop s.heap (args.getD 0 .unknown) = .ok j ∧ r = .str (marshalIndent j) none ∧ s' = s ∧
      depth j ≤ maxNestingDepth ∧
      (NumsOK numOk j → decodeOne numOk (marshalIndent j) .eof = .value (reread j) []) := by
  simp only [callNative, bind, EM.bind, getHeap] at h
  cases hc : checkArgCount args 1 with
  | error m => simp [hc, pure, EM.pure] at h
  | ok u =>
    simp only [hc] at h
    cases ht : toJValTop s.heap (args.getD 0 .unknown) with
    | oof => rw [ht] at h; simp [oof] at h
    | error m => rw [ht] at h; simp [pure, EM.pure] at h
    | ok j =>
      rw [ht] at h
      cases hd : tooDeep j with
      | true => simp [hd, pure, EM.pure] at h
      | false =>
        simp only [hd, Bool.false_eq_true, ↓reduceIte, pure, EM.pure, Res.ok.injEq, Except.ok.injEq,
          Option.some.injEq] at h
        have h2 := (tooDeep_false_iff j).1 hd
        exact ⟨j, rfl, h.1.symm, h.2.symm, h2, fun h1 => top_eof numOk j h1 h2⟩

example : (match callNative .json [.str b!"a<b" none] none default with
    | .ok (.ok (some (.str bytes _))) _ => bytes | _ => []) = b!"\"a\\u003cb\"" := by decide +kernel

/-- The clause "the JSON written through -o by a program that does not modify it parses to a
    value equal to the input as read", at BYTE level, joined with section 5: a document `j` is built
    in the heap (`newValueJson`), stored in a fresh root cell, written by `GetRootJson`; the bytes
    written, decoded again, give `j.norm` — the same tree the tree-level theorem `newValue_roundtrip`
    names — and are consumed completely.  PROVED from `Plain j` (distinct keys, finite numbers):
    the keys of `j.norm` are strictly ascending at every level, so nothing is reordered or dropped
    on re-reading; `Utf8OK j`/`depth j` carry over to `j.norm`.  HYPOTHESES: valid UTF-8 text, depth
    ≤ 10000, and (NOT proved, "_partial") `NumsOK numOk j.norm`: every number literal as the encoder
    re-formats it (`jsonFormat (parse lit)`) is read back by the decoder as itself. -/
theorem document_bytes_round_trip_partial (j : JVal) (hj : j.Plain) (hu : Utf8OK j)
    (hd : depth j ≤ maxNestingDepth) (hn : NumsOK numOk j.norm) (s s' : Jqawk.St) (v : Val)
    (e : newValueJson j s = .ok v s') :
    ∃ bytes, getRootJson { s' with heap := (s'.heap.alloc v).2, root := some (s'.heap.alloc v).1 } = some bytes ∧
      bytes = marshalIndent j.norm ∧ decodeOne numOk bytes .eof = .value j.norm [] :=
  ⟨_, by rw [newValue_getRootJson j hj s s' v e,
      (tooDeep_false_iff j.norm).2 (by rw [depth_norm]; exact hd)]; rfl,
    rfl, norm_bytes_round_trip numOk j hj hu hd hn⟩

/-- non-vacuity: a document with unsorted keys, a number the encoder re-formats (`1e2` → `100`),
    an escaped string -/
example : let j : JVal := .obj [(b!"b", .arr [.num b!"1e2", .null]), (b!"a", .str b!"x<\n")]
    j.Plain ∧ Utf8OK j ∧ depth j ≤ maxNestingDepth ∧ NumsOK numOk j.norm := by
  refine ⟨?_, ?_, by decide, ?_⟩
  · simp only [JVal.Plain, JVal.PlainMembers, JVal.PlainList, List.pairwise_cons, List.Pairwise.nil]
    refine ⟨⟨?_, ?_⟩, ⟨?_, trivial, trivial⟩, trivial, trivial⟩ <;> first | trivial | decide +kernel | simp
  · simp only [Utf8OK, Utf8OKMembers, Utf8OKList, and_true, true_and]
    decide +kernel
  · have e : (JVal.obj [(b!"b", .arr [.num b!"1e2", .null]), (b!"a", .str b!"x<\n")]).norm
        = .obj [(b!"a", .str b!"x<\n"), (b!"b", .arr [.num b!"100", .null])] := by rfl
    rw [e]
    simp only [NumsOK, NumsOKMembers, NumsOKList, and_true, true_and]
    exact numLit_digits numOk 0x31 b!"00" (by decide) (by decide) (by decide) (by decide +kernel)

/-- Every document the decoder returns — from ANY input bytes — has strictly ascending (hence
    pairwise distinct) keys at every level: an invariant of the scanner state machine.  So the
    hypothesis `SortedJ` of `bytes_round_trip_sorted_partial` holds for every document "as read". -/
theorem decoded_sorted (f : Bytes → Bool) (inp : Bytes) (t : Tail) (v : JVal) (rest : Bytes)
    (h : decodeOne f inp t = .value v rest) : SortedJ v :=
  decodeOne_sorted f inp t v rest h

/-- Every document the decoder returns has nesting depth at most 10000 (`pushParseState` refuses to
    go deeper): hypothesis (b) holds for every document "as read". -/
theorem decoded_depth (f : Bytes → Bool) (inp : Bytes) (t : Tail) (v : JVal) (rest : Bytes)
    (h : decodeOne f inp t = .value v rest) : depth v ≤ maxNestingDepth :=
  decodeOne_depth f inp t v rest h

/-- Every number literal in a document the decoder returns satisfies `NumLit`: the scanner accepted
    it as a grammatical number and `numOk` accepted it (otherwise `Decode` fails).  Hypothesis (a)
    holds for every document "as read" (NOT for its `norm`, whose literals are re-formatted). -/
theorem decoded_numsOK (f : Bytes → Bool) (inp : Bytes) (t : Tail) (v : JVal) (rest : Bytes)
    (h : decodeOne f inp t = .value v rest) : NumsOK f v :=
  decodeOne_numsOK f inp t v rest h

/-- Every string and every key in a document the decoder returns is valid UTF-8: the scanner
    validates the escapes of each literal, and `unquote` turns a validated literal into well-formed
    UTF-8 (ill-formed input bytes and lone `\uD800`-surrogates become U+FFFD; `\uXXXX`, surrogate
    pairs and raw multi-byte sequences are encoded by `utf8.EncodeRune`).  Hypothesis (c) holds for
    every document "as read". -/
theorem decoded_utf8 (f : Bytes → Bool) (inp : Bytes) (t : Tail) (v : JVal) (rest : Bytes)
    (h : decodeOne f inp t = .value v rest) : Utf8OK v :=
  decodeOne_utf8 f inp t v rest h

/-- read → write → read, WITHOUT hypotheses: every document `v` the decoder returns — from ANY
    input bytes, with any `numOk` — written with `marshalIndent` and decoded again comes back as the
    very same tree, all bytes consumed.  (The decoder's output is a fixed point of write∘read: keys
    sorted and distinct `decoded_sorted`, depth ≤ 10000 `decoded_depth`, number literals grammatical
    and in range `decoded_numsOK` and written verbatim, text valid UTF-8 `decoded_utf8`.)  This is about
    the JSON tree `JVal`; jqawk itself converts number literals to doubles before writing — that path
    is `file_round_trip_partial`. -/
theorem decoded_rewritten (f : Bytes → Bool) (inp : Bytes) (t : Tail) (v : JVal) (rest : Bytes)
    (h : decodeOne f inp t = .value v rest) :
    decodeOne f (marshalIndent v) .eof = .value v [] :=
  bytes_round_trip_sorted_partial f v (decoded_numsOK f inp t v rest h) (decoded_utf8 f inp t v rest h)
    (decoded_sorted f inp t v rest h) (decoded_depth f inp t v rest h)

/-- an input with a lone surrogate escape and an ill-formed byte: both are read as U+FFFD, and that
    tree is then stable -/
example : decodeOne numOk (b!"[\"\\ud800" ++ [0xFF] ++ b!"\", 1.50]") .eof
    = .value (.arr [.str [0xEF, 0xBF, 0xBD, 0xEF, 0xBF, 0xBD], .num b!"1.50"]) [] := by rfl

/-- Every document the decoder returns is `Plain` — the hypothesis of the tree-level round trip of
    section 5 (`newValue_roundtrip`): keys pairwise distinct at every level (`decoded_sorted`) and
    every number literal denotes a finite double (a grammatical number is never parsed to ±Inf/NaN:
    `strconv`'s `special` needs a letter; a range error is excluded by `numOk`, a text ParseFloat
    rejects is read as 0). -/
theorem decoded_plain (f : Bytes → Bool) (inp : Bytes) (t : Tail) (j : JVal) (rest : Bytes)
    (h : decodeOne f inp t = .value j rest) : j.Plain :=
  plain_of_sorted j (decoded_sorted f inp t j rest h)
    (finiteNums_of_numsOK f j (decoded_numsOK f inp t j rest h))

/-- The whole path of an unmodified document, at byte level: input bytes → `decodeOne` → `j` →
    `newValueJson` (heap) → `GetRootJson` (`-o`) → bytes → `decodeOne` again gives `j.norm`, all
    bytes consumed.  Derived from `j` having been decoded: `Plain` (`decoded_plain`), depth, valid
    UTF-8.  ONE hypothesis remains ("_partial"), the number hypothesis (a) on the RE-FORMATTED
    literals: `NumsOK numOk j.norm`, i.e. each `F64.jsonFormat (F64.parse lit)` is a grammatical JSON
    number within float64 range (`numLit_iff_grammar`) — the property of Go's float formatting that is
    tested differentially and not proved.  (That the double is the SAME after re-reading —
    shortest round trip — is not needed for this statement: `j.norm` is compared as text.) -/
theorem file_round_trip_partial (inp : Bytes) (t : Tail) (j : JVal) (rest : Bytes)
    (h : decodeOne numOk inp t = .value j rest)
    (hn : NumsOK numOk j.norm) (s s' : Jqawk.St) (v : Val) (e : newValueJson j s = .ok v s') :
    ∃ bytes, getRootJson { s' with heap := (s'.heap.alloc v).2, root := some (s'.heap.alloc v).1 } = some bytes ∧
      decodeOne numOk bytes .eof = .value j.norm [] := by
  obtain ⟨bytes, h1, _, h3⟩ := document_bytes_round_trip_partial j (decoded_plain numOk inp t j rest h)
    (decoded_utf8 numOk inp t j rest h) (decoded_depth numOk inp t j rest h) hn s s' v e
  exact ⟨bytes, h1, h3⟩

/-- non-vacuity: a compact text with duplicate and unsorted keys is decoded; the result meets the
    hypotheses -/
example : ∃ v, decodeOne numOk b!"{\"b\":[1,{}],\"a\":\"x\",\"b\":[20,null]} " .more = .value v b!" " ∧
    NumsOK numOk v ∧ Utf8OK v ∧ FiniteNums v ∧ NumsOK numOk v.norm := by
  refine ⟨.obj [(b!"a", .str b!"x"), (b!"b", .arr [.num b!"20", .null])], by rfl, ?_, ?_, ?_, ?_⟩
  · simp only [NumsOK, NumsOKMembers, NumsOKList, and_true, true_and, numLit_iff_grammar]
    decide +kernel
  · simp only [Utf8OK, Utf8OKMembers, Utf8OKList, and_true]
    decide +kernel
  · simp only [FiniteNums, FiniteNumsMembers, FiniteNumsList, and_true, true_and]
    decide +kernel
  · have e : (JVal.obj [(b!"a", .str b!"x"), (b!"b", .arr [.num b!"20", .null])]).norm
        = .obj [(b!"a", .str b!"x"), (b!"b", .arr [.num b!"20", .null])] := by rfl
    rw [e]
    simp only [NumsOK, NumsOKMembers, NumsOKList, and_true, true_and, numLit_iff_grammar]
    decide +kernel

/-! ### 7. the depth limit of `json.MarshalIndent`

  Go's `json.MarshalIndent` = `json.Marshal` followed by the indent pass (indent.go `appendIndent`),
  and the indent pass feeds the compact text to the decoder's scanner, whose `pushParseState` fails
  with "exceeded max depth" at the first bracket opened inside `maxNestingDepth` (10000) open ones.
  So `json(v)` (runtime.go `nativeJson`) and `-o` (evaluator.go `GetRootJson`, cli.go "error writing
  JSON") fail exactly for converted trees with `depth j > 10000` — `depth` counts every container,
  empty ones too; scalars count 0 (measured on the real binary: `[[…[1]…]]` with 10000 brackets is
  written, with 10001 it is the error; `[[…[]…]]` and `[[…{}…]]` with 10000 brackets in all are
  written, with 10001 the error; the same for objects and mixed nestings).  The model's callers test
  `Json.tooDeep j` (= `maxNestingDepth < Json.nesting j`, and `nesting = depth`:
  `JsonBytes.nesting_eq_depth`) before calling `marshalIndent`. -/

/-- `json(v)` for an argument that converts to the tree `j`: the runtime error when `j` is nested
    deeper than 10000, the text `marshalIndent j` otherwise; the state is unchanged either way -/
theorem nativeJson_depth_limit (v : Val) (this : Option Val) (s : Jqawk.St) (j : JVal)
    (ht : toJValTop s.heap v = .ok j) :
    callNative .json [v] this s =
      .ok (if maxNestingDepth < depth j then .error "exceeded max depth"
           else .ok (some (.str (marshalIndent j) none))) s := by
  have hi := tooDeep_iff j
  simp only [callNative, bind, EM.bind, getHeap, checkArgCount, List.length_cons, List.length_nil,
    Nat.zero_add, BEq.rfl, ↓reduceIte, List.getD_cons_zero, ht, pure, EM.pure, hi]

/-- … so, for such an argument, `json(v)` is an error EXACTLY when the nesting depth exceeds the
    limit (and a value otherwise) -/
theorem nativeJson_error_iff_deep (v : Val) (this : Option Val) (s : Jqawk.St) (j : JVal)
    (ht : toJValTop s.heap v = .ok j) :
    ((∃ m, callNative .json [v] this s = .ok (.error m) s) ↔ maxNestingDepth < depth j) ∧
    (callNative .json [v] this s = .ok (.ok (some (.str (marshalIndent j) none))) s ↔
      depth j ≤ maxNestingDepth) := by
  rw [nativeJson_depth_limit v this s j ht]
  by_cases hd : maxNestingDepth < depth j
  · simp [hd]
  · simp [hd, Nat.le_of_not_lt hd]

/-- `GetRootJson` for a root that converts to the tree `j`: the error (`none`) when `j` is nested
    deeper than 10000, the text otherwise -/
theorem getRootJson_depth_limit (s : Jqawk.St) (c : CellId) (j : JVal) (hr : s.root = some c)
    (ht : toJValTop s.heap (s.heap.get c) = .ok j) :
    getRootJson s = if maxNestingDepth < depth j then none else some (marshalIndent j) := by
  have hi := tooDeep_iff j
  simp only [getRootJson, hr, ht, hi]

/-- … so, for such a root, `GetRootJson` fails EXACTLY when the nesting depth exceeds the limit -/
theorem getRootJson_none_iff_deep (s : Jqawk.St) (c : CellId) (j : JVal) (hr : s.root = some c)
    (ht : toJValTop s.heap (s.heap.get c) = .ok j) :
    (getRootJson s = none ↔ maxNestingDepth < depth j) ∧
    (getRootJson s = some (marshalIndent j) ↔ depth j ≤ maxNestingDepth) := by
  rw [getRootJson_depth_limit s c j hr ht]
  by_cases hd : maxNestingDepth < depth j
  · simp [hd]
  · simp [hd, Nat.le_of_not_lt hd]

/-- the command line with `-o FILE` after a successful run whose root is nested deeper than 10000:
    "error writing JSON" — status 1, a diagnostic, nothing written, standard output as the program
    left it (cli.go:153-157); whatever FILE is and however many inputs there were -/
theorem deep_root_not_written (fs : List Cli.Entry) (o : Cli.Opts) (n : Nat) (r : RunResult)
    (s : Jqawk.St) (c : CellId) (j : JVal) (ho : o.outfile ≠ []) (hok : r.outcome = .ok)
    (hs : r.st = some s) (hr : s.root = some c) (ht : toJValTop s.heap (s.heap.get c) = .ok j)
    (hd : maxNestingDepth < depth j) :
    Cli.finish fs o n r = .done 1 r.out true none := by
  have ho' : o.outfile.isEmpty = false := by cases h : o.outfile <;> simp_all
  have hj : r.st.bind getRootJson = none := by
    rw [hs]; exact ((getRootJson_none_iff_deep s c j hr ht).1).2 hd
  unfold Cli.finish
  simp only [hok, ho', hj, Bool.false_eq_true, ↓reduceIte]
  split <;> rfl

/-- an array holding an object whose one member is `x`, and a scalar: two brackets around `x` -/
theorem depth_wrapped (x : JVal) (k : Bytes) : depth (.arr [.obj [(k, x)], .null]) = depth x + 2 := by
  simp only [depth, depthList, depthMembers]; omega

/-- the boundary, on trees (by `depth_nest`, not by evaluation): `nest n` = `n + 1` arrays, the
    innermost EMPTY — 10000 brackets pass, 10001 do not; objects count like arrays; with a scalar
    at the bottom the scalar does not count -/
example : tooDeep (nest 9999) = false ∧ tooDeep (nest 10000) = true ∧
    tooDeep (.arr [.obj [(b!"k", nest 9997)], .null]) = false ∧
    tooDeep (.arr [.obj [(b!"k", nest 9998)], .null]) = true ∧
    depth (.arr [.num b!"1"]) = depth (.arr []) :=
  ⟨(tooDeep_false_iff _).2 (by rw [depth_nest]; decide), (tooDeep_iff _).2 (by rw [depth_nest]; decide),
   (tooDeep_false_iff _).2 (by rw [depth_wrapped, depth_nest]; decide),
   (tooDeep_iff _).2 (by rw [depth_wrapped, depth_nest]; decide), rfl⟩

/-- non-vacuity of the hypotheses of `nativeJson_depth_limit` / `getRootJson_depth_limit` on one
    state: the heap holds `[[]]` (cell 1 = the root); the conversion gives `nest 1`; `json()` and
    `GetRootJson` return the text (depth 2 ≤ 10000) -/
private def deepDemo : Jqawk.St :=
  { (default : Jqawk.St) with heap := ⟨#[.arr 1, .arr 0], #[#[0], #[]], #[]⟩, root := some 1 }
example : (match toJValTop deepDemo.heap (deepDemo.heap.get 1) with | .ok j => j == nest 1 | _ => false) = true ∧
    (match callNative .json [.arr 0] none deepDemo with
      | .ok (.ok (some (.str bytes _))) _ => bytes | _ => []) = b!"[\n  []\n]" ∧
    getRootJson deepDemo = some b!"[\n  []\n]" := by
  decide +kernel

end Jqawk.C04
