/-
  C17 — print renders every value in one well-defined, terminating format.
  Termination for every heap (pigeonhole on the ancestor path), the cycle marker, sharing,
  the print statement's output format, and the JSON-like shape of container renderings.
-/
import Jqawk.Model.Eval
import Jqawk.Lemmas.Render
import Jqawk.Lemmas.Reparse

namespace Jqawk.C17
open Jqawk

/-! ### 1. termination -/

/-- Clause "rendering always terminates", general form: for EVERY heap (no well-formedness
    assumption), along a duplicate-free ancestor path of allocated containers, the fuel
    `nconts + 1 - path.length` is never exhausted.  The side condition on `check` holds at every
    call site of the model (top level: `path = []`; nested: `check = true`). -/
theorem pretty_terminates_gen (h : Heap) (n : Nat) (path : List Cont) (quote check : Bool) (v : Val)
    (hnd : path.Nodup) (hvalid : ∀ c ∈ path, c.valid h)
    (hcheck : check = true ∨ onPath path v = false)
    (hfuel : h.arrs.size + h.objs.size + 1 ≤ path.length + n) :
    pretty h n path quote check v ≠ none :=
  pretty_ne_none_gen h n path quote check v ⟨hnd, hvalid⟩ hcheck hfuel

/-- Clause "rendering always terminates": `PrettyString` never runs out of fuel, whatever the
    heap (cyclic, dangling ids, …) and whatever the value. -/
theorem pretty_terminates (h : Heap) (v : Val) : prettyTop h v ≠ none :=
  pretty_ne_none_gen h _ [] false false v (PathOk.nil h) (Or.inr (by cases v <;> rfl))
    (by simp [renderFuel, Heap.nconts])

/-- the quoted variant (`PrettyString(true)`, used by printf's %v) terminates as well -/
theorem pretty_terminates_quoted (h : Heap) (v : Val) (q : Bool) :
    pretty h (renderFuel h) [] q false v ≠ none :=
  pretty_ne_none_gen h _ [] q false v (PathOk.nil h) (Or.inr (by cases v <;> rfl))
    (by simp [renderFuel, Heap.nconts])

/-- the pigeonhole bound behind it: an ancestor path never exceeds the number of containers -/
theorem path_bounded (h : Heap) (path : List Cont) (hnd : path.Nodup)
    (hvalid : ∀ c ∈ path, c.valid h) : path.length ≤ h.arrs.size + h.objs.size :=
  path_length_le h path hnd hvalid

/-- non-vacuity: a heap whose array 0 contains itself and a dangling cell id -/
def cyc : Heap := ⟨#[.arr 0], #[#[0, 7]], #[]⟩
example : prettyTop cyc (.arr 0) = some b!"[<circular reference>, <unknown>]" := by decide +kernel
example : [Cont.a 0].Nodup ∧ (∀ c ∈ [Cont.a 0], c.valid cyc) := by
  refine ⟨by decide, ?_⟩; intro c hc; simp at hc; subst hc; exact Nat.zero_lt_one

/-! ### 2. the cycle marker -/

/-- Clause "a container reachable from itself is shown as `<circular reference>` at the point of
    recurrence": a container already on the ancestor path renders as the marker. -/
theorem pretty_cycle_marker (h : Heap) (n : Nat) (path : List Cont) (q : Bool) (v : Val)
    (hp : onPath path v = true) :
    pretty h (n + 1) path q true v = some b!"<circular reference>" :=
  pretty_on_path h n path q v hp

/-- non-vacuity of `pretty_cycle_marker` / `pretty_marker_iff`: array 0 below itself -/
example : onPath [Cont.a 0] (.arr 0) = true ∧ (Val.arr 0).cont? ≠ none := by
  refine ⟨by decide, ?_⟩; simp [Val.cont?]

/-- … and only there: an array NOT on the path is rendered in full, as `[` elements `]`, each
    element rendered below the extended path. -/
theorem pretty_arr_not_on_path (h : Heap) (n : Nat) (path : List Cont) (q check : Bool) (a : ArrId)
    (hp : Cont.a a ∉ path) (r : Bytes) (hr : pretty h (n + 1) path q check (.arr a) = some r) :
    ∃ parts, (h.arr a).toList.map (fun c => pretty h n (path ++ [.a a]) true true (h.get c))
        = parts.map some ∧
      r = [91] ++ joinSep b!", " parts ++ [93] ∧
      r.head? = some 91 ∧ r.getLast? = some 93 ∧ r ≠ b!"<circular reference>" := by
  rw [pretty_arr_unfold h n path q check a (by simp [hp])] at hr
  simp only [Option.map_eq_some_iff] at hr
  obtain ⟨parts, h1, rfl⟩ := hr
  refine ⟨parts, (mapM_option_eq_some _ _ _).1 h1, rfl, by simp, ?_, ?_⟩
  · rw [List.getLast?_append]; simp
  · intro e
    have := congrArg List.head? e
    simp at this

/-- the same for objects: `{` members `}` in ascending key order -/
theorem pretty_obj_not_on_path (h : Heap) (n : Nat) (path : List Cont) (q check : Bool) (o : ObjId)
    (hp : Cont.o o ∉ path) (r : Bytes) (hr : pretty h (n + 1) path q check (.obj o) = some r) :
    ∃ parts, (sortByKey (h.obj o)).map (fun kv =>
          (pretty h n (path ++ [.o o]) true true (h.get kv.2)).map
            (fun r => [34] ++ kv.1 ++ [34] ++ b!": " ++ r)) = parts.map some ∧
      r = [123] ++ joinSep b!", " parts ++ [125] ∧
      r.head? = some 123 ∧ r.getLast? = some 125 ∧ r ≠ b!"<circular reference>" := by
  rw [pretty_obj_unfold h n path q check o (by simp [hp])] at hr
  simp only [Option.map_eq_some_iff] at hr
  obtain ⟨parts, h1, rfl⟩ := hr
  refine ⟨parts, (mapM_option_eq_some _ _ _).1 h1, rfl, by simp, ?_, ?_⟩
  · rw [List.getLast?_append]; simp
  · intro e
    have := congrArg List.head? e
    simp at this

/-- "exactly at a container that is its own ancestor": for containers, the marker is the
    result iff the container is on the path (given the check is on and fuel is left) -/
theorem pretty_marker_iff (h : Heap) (n : Nat) (path : List Cont) (q : Bool) (v : Val)
    (hv : v.cont? ≠ none) :
    pretty h (n + 1) path q true v = some b!"<circular reference>" ↔ onPath path v = true := by
  constructor
  · intro e
    cases v with
    | arr a =>
      by_cases hp : Cont.a a ∈ path
      · simp [onPath, Val.cont?, hp]
      · obtain ⟨_, _, _, _, _, hne⟩ := pretty_arr_not_on_path h n path q true a hp _ e
        exact absurd rfl hne
    | obj o =>
      by_cases hp : Cont.o o ∈ path
      · simp [onPath, Val.cont?, hp]
      · obtain ⟨_, _, _, _, _, hne⟩ := pretty_obj_not_on_path h n path q true o hp _ e
        exact absurd rfl hne
    | _ => simp [Val.cont?] at hv
  · exact pretty_on_path h n path q v

/-! ### 3. sharing without a cycle is printed in full -/

/-- Clause "sharing without a cycle is printed in full": if two elements `i`, `j` of an array
    hold the same container `w` and `w` is not an ancestor at that point, both occurrences are
    rendered, identically, as the full `[…]`/`{…}` text — never as the marker. -/
theorem pretty_shared_full (h : Heap) (n : Nat) (path : List Cont) (q check : Bool) (a : ArrId)
    (hp : Cont.a a ∉ path) (r : Bytes) (hr : pretty h (n + 1) path q check (.arr a) = some r)
    (i j : Nat) (hi : i < (h.arr a).size) (hj : j < (h.arr a).size) (w : Val)
    (hwi : h.get (h.arr a)[i] = w) (hwj : h.get (h.arr a)[j] = w)
    (hc : w.cont? ≠ none) (hnot : onPath (path ++ [.a a]) w = false) :
    ∃ parts x, r = [91] ++ joinSep b!", " parts ++ [93] ∧ parts.length = (h.arr a).size ∧
      parts[i]? = some x ∧ parts[j]? = some x ∧ x ≠ b!"<circular reference>" ∧
      (x.head? = some 91 ∨ x.head? = some 123) := by
  obtain ⟨parts, hm, rfl, -, -, -⟩ := pretty_arr_not_on_path h n path q check a hp r hr
  obtain ⟨hlen, hpt⟩ := map_eq_map_some _ _ _ hm
  obtain ⟨x, hxi, hfi⟩ := hpt i (by simpa using hi)
  obtain ⟨y, hyj, hfj⟩ := hpt j (by simpa using hj)
  simp only [Array.getElem_toList, hwi, hwj] at hfi hfj
  have hxy : x = y := by rw [hfi] at hfj; exact Option.some.inj hfj
  subst hxy
  refine ⟨parts, x, rfl, by simpa using hlen, hxi, hyj, ?_⟩
  cases n with
  | zero => simp [pretty] at hfi
  | succ m =>
    cases w with
    | arr b =>
      have hb : Cont.a b ∉ path ++ [.a a] := by simpa [onPath, Val.cont?] using hnot
      obtain ⟨_, _, _, h91, _, hne⟩ := pretty_arr_not_on_path h m _ true true b hb x hfi
      exact ⟨hne, Or.inl h91⟩
    | obj o =>
      have hb : Cont.o o ∉ path ++ [.a a] := by simpa [onPath, Val.cont?] using hnot
      obtain ⟨_, _, _, h123, _, hne⟩ := pretty_obj_not_on_path h m _ true true o hb x hfi
      exact ⟨hne, Or.inr h123⟩
    | _ => simp [Val.cont?] at hc

/-- non-vacuity, and the concrete instance of the clause: array 0 holds array 1 twice -/
def shared : Heap := ⟨#[.arr 1, .arr 1], #[#[0, 1], #[]], #[]⟩
example : prettyTop shared (.arr 0) = some b!"[[], []]" := by decide +kernel
/-- a cycle of length 2 through an object and an array, with a shared acyclic sibling -/
def mixed : Heap := ⟨#[.obj 0, .arr 1, .arr 1], #[#[0, 1, 2], #[]], #[[(b!"k", 3)], []], ⟩
example : prettyTop { mixed with cells := mixed.cells.push (.arr 0) } (.arr 0) =
    some b!"[{\"k\": <circular reference>}, [], []]" := by decide +kernel

/-! ### 4. the print statement -/

/-- what `print` does once its arguments are evaluated (the tail of the `print` case of
    `evalStmt`, verbatim) -/
def printAction (cells : List CellId) : EM Unit := do
  let s ← getSt
  if cells.isEmpty then
    match s.ruleRoot with
    | none => throwPanic "print without a rule root"
    | some c =>
      match prettyTop s.heap (s.heap.get c) with
      | none => oof
      | some r => emit (r ++ [10])
  else
    match cells.mapM (fun c => prettyTop s.heap (s.heap.get c)) with
    | none => oof
    | some parts => emit (joinSep [32] parts ++ [10])

/-- unfolding: the `print` case of `evalStmt` is "evaluate the arguments (without copying),
    then `printAction`" -/
theorem evalStmt_print (prog : Program) (n : Nat) (t : Token) (args : List Expr) :
    evalStmt prog (n + 1) (.print t args) = (evalExprList prog n args false >>= printAction) := by
  rw [evalStmt]; rfl

/-- Clause "print writes its arguments separated by one space and ended by a newline": with at
    least one argument, the action always succeeds, appends exactly ONE output chunk
    `joinSep " " parts ++ "\n"`, where `parts` are the top-level renderings of the argument
    cells, and changes nothing else in the state. -/
theorem printAction_format (cs : List CellId) (hcs : cs ≠ []) (s : St) :
    ∃ parts, cs.map (fun c => prettyTop s.heap (s.heap.get c)) = parts.map some ∧
      printAction cs s = .ok () { s with out := (joinSep [32] parts ++ [10]) :: s.out } := by
  have hne := mapM_option_ne_none (fun c => prettyTop s.heap (s.heap.get c)) cs
    (fun c _ => pretty_terminates s.heap _)
  cases hm : cs.mapM (fun c => prettyTop s.heap (s.heap.get c)) with
  | none => exact absurd hm hne
  | some parts =>
    refine ⟨parts, (mapM_option_eq_some _ _ _).1 hm, ?_⟩
    have : cs.isEmpty = false := by cases cs <;> simp_all
    simp [printAction, bind, EM.bind, getSt, this, hm, emit]

/-- the statement level: if the arguments evaluate to cells `cs ≠ []` in state `s1`, the whole
    statement yields `s1` plus that one chunk -/
theorem print_format (prog : Program) (n : Nat) (t : Token) (args : List Expr) (s s1 : St)
    (cs : List CellId) (hcs : cs ≠ [])
    (hargs : evalExprList prog n args false s = .ok cs s1) :
    ∃ parts, cs.map (fun c => prettyTop s1.heap (s1.heap.get c)) = parts.map some ∧
      evalStmt prog (n + 1) (.print t args) s =
        .ok () { s1 with out := (joinSep [32] parts ++ [10]) :: s1.out } := by
  obtain ⟨parts, h1, h2⟩ := printAction_format cs hcs s1
  refine ⟨parts, h1, ?_⟩
  rw [evalStmt_print]
  simp only [bind, EM.bind, hargs]
  exact h2

/-- in terms of the output stream: exactly these bytes are appended -/
theorem print_output (prog : Program) (n : Nat) (t : Token) (args : List Expr) (s s1 : St)
    (cs : List CellId) (hcs : cs ≠ [])
    (hargs : evalExprList prog n args false s = .ok cs s1) :
    ∃ parts s2, cs.map (fun c => prettyTop s1.heap (s1.heap.get c)) = parts.map some ∧
      evalStmt prog (n + 1) (.print t args) s = .ok () s2 ∧
      s2.output = s1.output ++ joinSep [32] parts ++ [10] ∧
      s2.heap = s1.heap ∧ s2.frames = s1.frames ∧ s2.faults = s1.faults := by
  obtain ⟨parts, h1, h2⟩ := print_format prog n t args s s1 cs hcs hargs
  exact ⟨parts, _, h1, h2, by simp [St.output, List.append_assoc], rfl, rfl, rfl⟩

/-- Clause "a bare print prints `$`": without arguments the rule root is rendered, plus newline -/
theorem print_bare (s : St) (c : CellId) (hroot : s.ruleRoot = some c) :
    ∃ r, prettyTop s.heap (s.heap.get c) = some r ∧
      printAction [] s = .ok () { s with out := (r ++ [10]) :: s.out } := by
  cases hm : prettyTop s.heap (s.heap.get c) with
  | none => exact absurd hm (pretty_terminates _ _)
  | some r =>
    exact ⟨r, rfl, by simp [printAction, bind, EM.bind, getSt, hroot, hm, emit]⟩

/-- non-vacuity of `print_bare`: the rule root is cell 0, holding a string -/
example : printAction []
      { heap := ⟨#[.str b!"a b" none], #[], #[]⟩, frames := [], out := [], root := none,
        ruleRoot := some 0, returnVal := none, faults := 0 } =
    .ok () { heap := ⟨#[.str b!"a b" none], #[], #[]⟩, frames := [], out := [b!"a b\n"], root := none,
             ruleRoot := some 0, returnVal := none, faults := 0 } := by
  rfl

/-- non-vacuity of `print_format` / `print_output` (hypothesis `hargs`): the argument list of
    `print true` evaluates to one cell -/
example : (match evalExprList Program.empty 3 [.lit ⟨.true_, 0, []⟩] false default with
    | .ok cs _ => some cs | _ => none) = some [0] := by decide +kernel

/-- if evaluating the arguments fails, nothing is printed by this statement -/
theorem print_args_error (prog : Program) (n : Nat) (t : Token) (args : List Expr) (s s1 : St)
    (e : Err) (hargs : evalExprList prog n args false s = .err e s1) :
    evalStmt prog (n + 1) (.print t args) s = .err e s1 := by
  rw [evalStmt_print]; simp only [bind, EM.bind, hargs]

/-- non-vacuity of `print_args_error`: an argument whose evaluation fails (a variable without
    any frame is the model's panic "no frame") -/
example : (match evalExprList Program.empty 5 [.ident ⟨.ident, 0, b!"x"⟩] false default with
    | .err e _ => some e | _ => none) = some (.panic "no frame") := by decide +kernel

/-- Clause "top-level strings raw; true, false and null as words; numbers via FormatFloat" -/
theorem prettyTop_leaves (h : Heap) :
    (∀ s sp, prettyTop h (.str s sp) = some s) ∧
    (∀ x, prettyTop h (.num x) = some x.format) ∧
    prettyTop h (.bool true) = some b!"true" ∧ prettyTop h (.bool false) = some b!"false" ∧
    (∀ sp, prettyTop h (.nil sp) = some b!"null") := by
  refine ⟨?_, ?_, ?_, ?_, ?_⟩ <;> intros <;> simp [prettyTop, renderFuel, pretty, onPath, Val.cont?]

/-- Clause "nested strings double-quoted" (every element/member is rendered with quote = true);
    the other leaves as at top level; the words for unprintable values -/
theorem pretty_nested_leaves (h : Heap) (n : Nat) (path : List Cont) (check : Bool) :
    (∀ s sp, pretty h (n + 1) path true check (.str s sp) = some ([34] ++ s ++ [34])) ∧
    (∀ x q, pretty h (n + 1) path q check (.num x) = some x.format) ∧
    (∀ b q, pretty h (n + 1) path q check (.bool b) = some (if b then b!"true" else b!"false")) ∧
    (∀ sp q, pretty h (n + 1) path q check (.nil sp) = some b!"null") ∧
    (∀ i q, pretty h (n + 1) path q check (.fn i) = some b!"<function>") ∧
    (∀ f b sp q, pretty h (n + 1) path q check (.native f b sp) = some b!"<nativefunction>") ∧
    (∀ r q, pretty h (n + 1) path q check (.regex r) = some b!"<regex>") ∧
    (∀ q, pretty h (n + 1) path q check .unknown = some b!"<unknown>") := by
  refine ⟨?_, ?_, ?_, ?_, ?_, ?_, ?_, ?_⟩ <;> intros <;> simp [pretty, onPath, Val.cont?]

/-- non-vacuity for the print theorems: `print 1, "a"` with an array and a string argument cell -/
example : printAction [0, 1]
      { heap := ⟨#[.arr 0, .str b!"a b" none], #[#[1]], #[]⟩, frames := [], out := [], root := none,
        ruleRoot := none, returnVal := none, faults := 0 } =
    .ok () { heap := ⟨#[.arr 0, .str b!"a b" none], #[#[1]], #[]⟩, frames := [],
             out := [b!"[\"a b\"] a b\n"], root := none,
             ruleRoot := none, returnVal := none, faults := 0 } := by
  rfl

/-! ### 5. container renderings are JSON-like -/

/-- the text of a non-container element -/
def leafText : Val → Bytes
  | .str s _ => [34] ++ s ++ [34]
  | .num x => x.format
  | .bool b => if b then b!"true" else b!"false"
  | .nil _ => b!"null"
  | .native .. => b!"<nativefunction>"
  | .fn _ => b!"<function>"
  | .regex _ => b!"<regex>"
  | .unknown => b!"<unknown>"
  | .arr _ => [] | .obj _ => []

theorem pretty_leaf (h : Heap) (n : Nat) (path : List Cont) (check : Bool) (v : Val)
    (hv : v.cont? = none) : pretty h (n + 1) path true check v = some (leafText v) := by
  cases v <;> simp_all [pretty, onPath, Val.cont?, leafText]

/-- Clause "arrays as `[a, b]` … nested strings double-quoted", first level of the unfolding
    (the general recursive step is `pretty_arr_not_on_path`/`pretty_obj_not_on_path`): an array
    of non-containers renders as `[` ++ the element texts joined by `, ` ++ `]`.  For elements
    that are numbers, booleans, null and strings free of `"`, `\` and control bytes this is JSON
    text of the array; the re-parse against `Json.decodeOne` is proved below for the
    boolean/null fragment only (`pretty_flat_reparses_partial`). -/
theorem pretty_denotes_partial (h : Heap) (a : ArrId)
    (hleaf : ∀ c ∈ (h.arr a).toList, (h.get c).cont? = none) :
    prettyTop h (.arr a) =
      some ([91] ++ joinSep b!", " ((h.arr a).toList.map fun c => leafText (h.get c)) ++ [93]) := by
  rw [prettyTop, renderFuel, pretty_arr_unfold _ _ _ _ _ _ (by simp)]
  have : (h.arr a).toList.mapM (fun c => pretty h (h.arrs.size + h.objs.size + 1) ([] ++ [.a a]) true true (h.get c))
      = some ((h.arr a).toList.map fun c => leafText (h.get c)) := by
    rw [mapM_option_eq_some]
    simp only [List.map_map]
    apply List.map_congr_left
    intro c hc
    simp [pretty_leaf _ _ _ _ _ (hleaf c hc)]
  rw [this]; rfl

/-- the same one level down for objects: `{"k": v, …}` in ascending key order -/
theorem pretty_flat_object (h : Heap) (o : ObjId)
    (hleaf : ∀ kv ∈ sortByKey (h.obj o), (h.get kv.2).cont? = none) :
    prettyTop h (.obj o) =
      some ([123] ++ joinSep b!", " ((sortByKey (h.obj o)).map fun kv =>
        [34] ++ kv.1 ++ [34] ++ b!": " ++ leafText (h.get kv.2)) ++ [125]) := by
  rw [prettyTop, renderFuel, pretty_obj_unfold _ _ _ _ _ _ (by simp)]
  have : (sortByKey (h.obj o)).mapM (fun kv =>
        (pretty h (h.arrs.size + h.objs.size + 1) ([] ++ [.o o]) true true (h.get kv.2)).map
            (fun r => [34] ++ kv.1 ++ [34] ++ b!": " ++ r))
      = some ((sortByKey (h.obj o)).map fun kv =>
        [34] ++ kv.1 ++ [34] ++ b!": " ++ leafText (h.get kv.2)) := by
    rw [mapM_option_eq_some]
    simp only [List.map_map]
    apply List.map_congr_left
    intro kv hkv
    simp [pretty_leaf _ _ _ _ _ (hleaf kv hkv)]
  rw [this]; rfl

example : prettyTop ⟨#[.str b!"x" none, .nil none, .bool true], #[#[0, 1, 2]], #[[(b!"b", 1), (b!"a", 0)]]⟩ (.obj 0)
    = some b!"{\"a\": \"x\", \"b\": null}" := by decide +kernel

/-- the boolean/null fragment: `some b` for a boolean, `none` for null -/
def elemOf : Val → Reparse.Elem
  | .bool b => some b
  | _ => none

/-- Clause "the rendering of a container is JSON equal to the value", proved for the fragment
    flat arrays of booleans and null only (PARTIAL: numbers need `parse ∘ format = id` on F64,
    strings need the escape-freeness argument against the decoder's string states; nesting needs
    the scanner-stack induction): the Go decoder model reads the rendering back, completely, as
    the array of the corresponding JSON values — the same tree `toJVal` produces. -/
theorem pretty_flat_reparses_partial (h : Heap) (a : ArrId) (numOk : Bytes → Bool)
    (hleaf : ∀ c ∈ (h.arr a).toList, (h.get c).kind = .bool ∨ (h.get c).kind = .nil) :
    ∃ r, prettyTop h (.arr a) = some r ∧
      Json.decodeOne numOk r .eof
        = .value (.arr ((h.arr a).toList.map fun c => Reparse.tree (elemOf (h.get c)))) [] ∧
      toJValTop h (.arr a)
        = .ok (.arr ((h.arr a).toList.map fun c => Reparse.tree (elemOf (h.get c)))) := by
  have hl : ∀ c ∈ (h.arr a).toList, (h.get c).cont? = none := by
    intro c hc; rcases hleaf c hc with e | e <;> cases hv : h.get c <;> simp_all [Val.kind, Val.cont?]
  have hw : (h.arr a).toList.map (fun c => leafText (h.get c))
      = ((h.arr a).toList.map fun c => elemOf (h.get c)).map Reparse.word := by
    rw [List.map_map]
    apply List.map_congr_left
    intro c hc
    rcases hleaf c hc with e | e <;> cases hv : h.get c <;> simp_all [Val.kind]
    · rename_i b; cases b <;> rfl
    · rfl
  refine ⟨_, pretty_denotes_partial h a hl, ?_, ?_⟩
  · rw [hw, Reparse.decode_flat, List.map_map]; rfl
  · rw [toJValTop, renderFuel, toJVal_arr_unfold _ _ _ _ _ (by simp)]
    have : GoValRes.sequence ((h.arr a).toList.map fun c =>
          toJVal h (h.arrs.size + h.objs.size + 1) ([] ++ [.a a]) true (h.get c))
        = .ok ((h.arr a).toList.map fun c => Reparse.tree (elemOf (h.get c))) := by
      rw [sequence_eq_ok, List.map_map]
      apply List.map_congr_left
      intro c hc
      rcases hleaf c hc with e | e <;> cases hv : h.get c <;>
        simp_all [Val.kind, toJVal, onPath, Val.cont?, elemOf, Reparse.tree]
    rw [this]; rfl

/-- non-vacuity of `pretty_flat_reparses_partial` / `pretty_denotes_partial`: array 0 of the
    heap holds `true`, `null`, `false` -/
example : ∀ c ∈ ((⟨#[.bool true, .nil none, .bool false], #[#[0, 1, 2]], #[]⟩ : Heap).arr 0).toList,
    ((⟨#[.bool true, .nil none, .bool false], #[#[0, 1, 2]], #[]⟩ : Heap).get c).kind = .bool ∨
    ((⟨#[.bool true, .nil none, .bool false], #[#[0, 1, 2]], #[]⟩ : Heap).get c).kind = .nil := by
  decide

example : Json.decodeOne (fun _ => true) b!"[true, null, false]" .eof
    == .value (.arr [.bool true, .null, .bool false]) [] := by decide +kernel

end Jqawk.C17
