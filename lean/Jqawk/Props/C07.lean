/-
  C07 — control flow executes statements in exactly the documented order, at any nesting.
  The documented semantics as equations on the evaluator (each holds for every program, state
  and fuel), plus the absorption facts from the signal-discipline theorem.
-/
import Jqawk.Props.C01

namespace Jqawk.C07
open Jqawk

variable (prog : Program)

/-- `if`: the condition is evaluated once, then exactly one branch (or nothing) -/
theorem if_spec (n : Nat) (c : Expr) (body : Stmt) (els : Option Stmt) :
    evalStmt prog (n + 1) (.if_ c body els) = (do
      let cell ← evalExpr prog n c
      if (← readCell cell).truthy then evalStmt prog n body
      else match els with
        | some eb => evalStmt prog n eb
        | none => pure ()) := by
  unfold evalStmt; rfl

/-- a block runs its statements first to last; the first one that does not complete ends it -/
theorem block_spec (n : Nat) (st : Stmt) (rest : List Stmt) :
    evalBlock prog (n + 1) (st :: rest) = (do evalStmt prog n st; evalBlock prog n rest) := by
  rw [evalBlock]

theorem block_nil (n : Nat) : evalBlock prog (n + 1) [] = pure () := by rw [evalBlock]

/-- `while`: test, body, repeat -/
theorem while_spec (n : Nat) (c : Expr) (body : Stmt) :
    evalStmt prog (n + 1) (.while_ c body) = whileLoop prog n c body := by rw [evalStmt]

theorem whileLoop_unfold (n : Nat) (c : Expr) (body : Stmt) :
    whileLoop prog (n + 1) c body = (do
      let cell ← evalExpr prog n c
      if (← readCell cell).truthy then
        loopIter (evalStmt prog n body) (whileLoop prog n c body)
      else pure ()) := by rw [whileLoop]

/-- three-clause `for`: the initialiser once (its errors propagate), then test / body / post -/
theorem for_spec (n : Nat) (pre c post : Expr) (body : Stmt) :
    evalStmt prog (n + 1) (.for_ pre c post body) = (do
      let _ ← evalExpr prog n pre
      forLoop prog n c post body) := by rw [evalStmt]

/-- the post-expression runs after each completed or continued iteration (the continuation
    passed to `loopIter` starts with it) -/
theorem forLoop_unfold (n : Nat) (c post : Expr) (body : Stmt) :
    forLoop prog (n + 1) c post body = (do
      let cell ← evalExpr prog n c
      if (← readCell cell).truthy then
        loopIter (evalStmt prog n body) (do
          let _ ← evalExpr prog n post
          forLoop prog n c post body)
      else pure ()) := by rw [forLoop]

/-! ### what one loop iteration does with the outcome of the body -/

theorem loopIter_completed (body k : EM Unit) (s s1 : St) (h : body s = .ok () s1) :
    loopIter body k s = k s1 := by simp [loopIter, h]

/-- `continue` goes on with the continuation (next test; for `for`: the post-expression) -/
theorem loopIter_continue (body k : EM Unit) (s s1 : St) (h : body s = .err (.sig .cont) s1) :
    loopIter body k s = k s1 := by simp [loopIter, h]

/-- `break` ends this loop, and only this one, normally -/
theorem loopIter_break (body k : EM Unit) (s s1 : St) (h : body s = .err (.sig .brk) s1) :
    loopIter body k s = .ok () s1 := by simp [loopIter, h]

/-- `return`, `next`, `exit` and runtime errors leave the loop unchanged -/
theorem loopIter_propagates (body k : EM Unit) (s s1 : St) (e : Err)
    (h : body s = .err e s1) (hb : e ≠ .sig .brk) (hc : e ≠ .sig .cont) :
    loopIter body k s = .err e s1 := by
  unfold loopIter
  rw [h]
  cases e with
  | sig g => cases g <;> simp_all
  | _ => rfl

/-! ### for-in visits every element exactly once, in order -/

theorem forIn_done (n : Nat) (loc : CellId) (il : Option CellId) (body : Stmt) :
    forInLoop prog (n + 1) loc il body [] = pure () := by rw [forInLoop]

/-- one step: bind the index/value variables for the first remaining item, run the body, then
    (unless it broke out or failed) continue with the REST of the items — so every item is
    visited at most once and in list order -/
theorem forIn_step (n : Nat) (loc : CellId) (il : Option CellId) (body : Stmt)
    (iv : Option Val) (item : CellId ⊕ (Val × Option CellId))
    (rest : List (Option Val × (CellId ⊕ (Val × Option CellId)))) :
    forInLoop prog (n + 1) loc il body ((iv, item) :: rest) = (do
      match il with
      | none => pure ()
      | some ic =>
        match iv, item with
        | some v, _ => writeCell ic v
        | none, .inr (_, some mc) => writeCell ic (← readCell mc)
        | none, _ => pure ()
      match item with
      | .inl c => writeCell loc (← readCell c)
      | .inr (v, _) => writeCell loc v
      loopIter (evalStmt prog n body) (forInLoop prog n loc il body rest)) := by
  unfold forInLoop; rfl

-- (objects are iterated over `sortByKey` of their members: sortedness and independence of the
-- insertion order are theorems of C10)

/-! ### absorption (from the signal discipline) -/

/-- `break`/`continue` affect only the innermost enclosing loop: a loop statement never passes
    them on (when its header cannot raise them) -/
theorem loops_absorb_break_continue (hfs : prog.FnScoped) (n : Nat) (c : Expr) (b : Stmt)
    (hc : canE .brk c = false ∧ canE .cont c = false) (s s' : St) :
    evalStmt prog n (.while_ c b) s ≠ .err (.sig .brk) s' ∧
    evalStmt prog n (.while_ c b) s ≠ .err (.sig .cont) s' :=
  C01.loops_absorb prog hfs n c b hc s s'

/-- `return` leaves only the current function: the call yields the returned value -/
theorem return_leaves_function (body : EM Unit) (s s1 : St) (c : CellId)
    (h : body s = .err (.sig .ret) s1) (hr : s1.returnVal = some c) :
    catchReturn body s = .ok (s1.heap.get c) s1 := by
  simp [catchReturn, h, hr]

theorem no_return_yields_null (body : EM Unit) (s s1 : St) (h : body s = .ok () s1) :
    catchReturn body s = .ok (.nil none) s1 := by simp [catchReturn, h]

/-- `next` and `exit` pass through calls (with the frame dropped), loops and blocks up to the
    rule driver -/
theorem next_exit_through_call (body : EM Unit) (s s1 : St) (g : Sig) (hg : g = .next ∨ g = .exit)
    (h : body s = .err (.sig g) s1) : catchReturn body s = .err (.sig g) s1 := by
  rcases hg with rfl | rfl <;> simp [catchReturn, h]

end Jqawk.C07
