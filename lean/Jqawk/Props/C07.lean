/-
  C07 — control flow executes statements in exactly the documented order, at any nesting.
  The documented semantics as equations on the evaluator (each holds for every program, state
  and fuel), plus the absorption facts from the signal-discipline theorem.
-/
import Jqawk.Props.C01

namespace Jqawk.C07
open Jqawk

variable (prog : Program)

/-- `if`: the condition is evaluated once, then exactly one branch (or nothing) -/
theorem if_true (n : Nat) (c : Expr) (body : Stmt) (els : Option Stmt) (s s1 : St) (cell : CellId)
    (hc : evalExpr prog n c s = .ok cell s1) (ht : (s1.heap.get cell).truthy = true) :
    evalStmt prog (n + 1) (.if_ c body els) s = evalStmt prog n body s1 := by
  cases els <;> simp [evalStmt, bind, EM.bind, hc, readCell, ht]

theorem if_false_else (n : Nat) (c : Expr) (body eb : Stmt) (s s1 : St) (cell : CellId)
    (hc : evalExpr prog n c s = .ok cell s1) (ht : (s1.heap.get cell).truthy = false) :
    evalStmt prog (n + 1) (.if_ c body (some eb)) s = evalStmt prog n eb s1 := by
  simp [evalStmt, bind, EM.bind, hc, readCell, ht]

theorem if_false_none (n : Nat) (c : Expr) (body : Stmt) (s s1 : St) (cell : CellId)
    (hc : evalExpr prog n c s = .ok cell s1) (ht : (s1.heap.get cell).truthy = false) :
    evalStmt prog (n + 1) (.if_ c body none) s = .ok () s1 := by
  simp [evalStmt, bind, EM.bind, hc, readCell, ht, pure, EM.pure]

/-- an error or signal in the condition is the result of the `if` -/
theorem if_cond_error (n : Nat) (c : Expr) (body : Stmt) (els : Option Stmt) (s s1 : St) (e : Err)
    (hc : evalExpr prog n c s = .err e s1) :
    evalStmt prog (n + 1) (.if_ c body els) s = .err e s1 := by
  cases els <;> simp [evalStmt, bind, EM.bind, hc]

/-- a block runs its statements first to last; the first one that does not complete ends it -/
theorem block_spec (n : Nat) (st : Stmt) (rest : List Stmt) :
    evalBlock prog (n + 1) (st :: rest) = (do evalStmt prog n st; evalBlock prog n rest) := by
  rw [evalBlock]

theorem block_nil (n : Nat) : evalBlock prog (n + 1) [] = pure () := by rw [evalBlock]

/-- `while`: test, body, repeat -/
theorem while_spec (n : Nat) (c : Expr) (body : Stmt) :
    evalStmt prog (n + 1) (.while_ c body) = whileLoop prog n c body := by rw [evalStmt]

theorem whileLoop_unfold (n : Nat) (c : Expr) (body : Stmt) :
    whileLoop prog (n + 1) c body = (do
      let cell ← evalExpr prog n c
      if (← readCell cell).truthy then
        loopIter (evalStmt prog n body) (whileLoop prog n c body)
      else pure ()) := by rw [whileLoop]

/-- three-clause `for`: the initialiser once (its errors propagate), then test / body / post -/
theorem for_spec (n : Nat) (pre c post : Expr) (body : Stmt) :
    evalStmt prog (n + 1) (.for_ pre c post body) = (do
      let _ ← evalExpr prog n pre
      forLoop prog n c post body) := by rw [evalStmt]

/-- the post-expression runs after each completed or continued iteration (the continuation
    passed to `loopIter` starts with it) -/
theorem forLoop_unfold (n : Nat) (c post : Expr) (body : Stmt) :
    forLoop prog (n + 1) c post body = (do
      let cell ← evalExpr prog n c
      if (← readCell cell).truthy then
        loopIter (evalStmt prog n body) (do
          let _ ← evalExpr prog n post
          forLoop prog n c post body)
      else pure ()) := by rw [forLoop]

/-! ### what one loop iteration does with the outcome of the body -/

theorem loopIter_completed (body k : EM Unit) (s s1 : St) (h : body s = .ok () s1) :
    loopIter body k s = k s1 := by simp [loopIter, h]

/-- `continue` goes on with the continuation (next test; for `for`: the post-expression) -/
theorem loopIter_continue (body k : EM Unit) (s s1 : St) (h : body s = .err (.sig .cont) s1) :
    loopIter body k s = k s1 := by simp [loopIter, h]

/-- `break` ends this loop, and only this one, normally -/
theorem loopIter_break (body k : EM Unit) (s s1 : St) (h : body s = .err (.sig .brk) s1) :
    loopIter body k s = .ok () s1 := by simp [loopIter, h]

/-- `return`, `next`, `exit` and runtime errors leave the loop unchanged -/
theorem loopIter_propagates (body k : EM Unit) (s s1 : St) (e : Err)
    (h : body s = .err e s1) (hb : e ≠ .sig .brk) (hc : e ≠ .sig .cont) :
    loopIter body k s = .err e s1 := by
  unfold loopIter
  rw [h]
  cases e with
  | sig g => cases g <;> simp_all
  | _ => rfl

/-! ### for-in visits every element exactly once, in order -/

theorem forIn_done (n : Nat) (loc : CellId) (il : Option CellId) (body : Stmt) :
    forInLoop prog (n + 1) loc il body [] = pure () := by rw [forInLoop]

/-- one step over an array: the loop variable receives a raw copy of the element's value (and
    the index variable, if any, the position), the body runs, then (unless it broke out or
    failed) the loop continues with the REST of the items — every element is visited at most
    once, in index order -/
theorem forIn_step_array (n : Nat) (loc : CellId) (body : Stmt) (iv : Val) (c : CellId)
    (rest : List (Option Val × (CellId ⊕ (Val × Option CellId)))) (s : St) :
    forInLoop prog (n + 1) loc none body ((some iv, .inl c) :: rest) s =
      loopIter (evalStmt prog n body) (forInLoop prog n loc none body rest)
        { s with heap := s.heap.set loc (s.heap.get c) } := by
  simp [forInLoop, bind, EM.bind, readCell, writeCell]

theorem forIn_step_array_index (n : Nat) (loc ic : CellId) (body : Stmt) (iv : Val) (c : CellId)
    (rest : List (Option Val × (CellId ⊕ (Val × Option CellId)))) (s : St) :
    forInLoop prog (n + 1) loc (some ic) body ((some iv, .inl c) :: rest) s =
      loopIter (evalStmt prog n body) (forInLoop prog n loc (some ic) body rest)
        { s with heap := (s.heap.set ic iv).set loc ((s.heap.set ic iv).get c) } := by
  simp [forInLoop, bind, EM.bind, readCell, writeCell]

-- (objects are iterated over `sortByKey` of their members: sortedness and independence of the
-- insertion order are theorems of C10)

/-! ### absorption (from the signal discipline) -/

/-- `break`/`continue` affect only the innermost enclosing loop: a loop statement never passes
    them on (when its header cannot raise them) -/
theorem loops_absorb_break_continue (hfs : prog.FnScoped) (n : Nat) (c : Expr) (b : Stmt)
    (hc : canE .brk c = false ∧ canE .cont c = false) (s s' : St) :
    evalStmt prog n (.while_ c b) s ≠ .err (.sig .brk) s' ∧
    evalStmt prog n (.while_ c b) s ≠ .err (.sig .cont) s' :=
  C01.loops_absorb prog hfs n c b hc s s'

/-- `return` leaves only the current function: the call yields the returned value -/
theorem return_leaves_function (body : EM Unit) (s s1 : St) (c : CellId)
    (h : body s = .err (.sig .ret) s1) (hr : s1.returnVal = some c) :
    catchReturn body s = .ok (s1.heap.get c) s1 := by
  simp [catchReturn, h, hr]

theorem no_return_yields_null (body : EM Unit) (s s1 : St) (h : body s = .ok () s1) :
    catchReturn body s = .ok (.nil none) s1 := by simp [catchReturn, h]

/-- `next` and `exit` pass through calls (with the frame dropped), loops and blocks up to the
    rule driver -/
theorem next_exit_through_call (body : EM Unit) (s s1 : St) (g : Sig) (hg : g = .next ∨ g = .exit)
    (h : body s = .err (.sig g) s1) : catchReturn body s = .err (.sig g) s1 := by
  rcases hg with rfl | rfl <;> simp [catchReturn, h]

end Jqawk.C07
