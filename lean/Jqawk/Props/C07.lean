/-
  C07 — control flow executes statements in exactly the documented order, at any nesting.
  The documented semantics as equations on the evaluator (each holds for every program, state
  and fuel), plus the absorption facts from the signal-discipline theorem.

  Part 2 (below the one-step laws): WHOLE-LOOP theorems against the specification
  `Spec/Loops.lean` — `while` / `for` = "repeat a round until it says stop" (`Repeats`, unrolled
  into `Rounds k` + a final round), for-in = a fold with early exit over the items the iterable
  held when the loop started (`iterate`) —, for the real evaluator at ANY fuel ("out of fuel" is
  a separate outcome and never counts as a result; fuel monotonicity makes the fuel-free reading
  well defined); the innermost-loop discipline and `return` for every nesting (`Leads`); the
  dangling `else` on token lists.
-/
import Jqawk.Props.C01
import Jqawk.Lemmas.LoopsNest
import Jqawk.Lemmas.LoopsElse
import Jqawk.Lemmas.Order

namespace Jqawk.C07
open Jqawk

variable (prog : Program)

/-- `if`: the condition is evaluated once, then exactly one branch (or nothing) -/
theorem if_true (n : Nat) (c : Expr) (body : Stmt) (els : Option Stmt) (s s1 : St) (cell : CellId)
    (hc : evalExpr prog n c s = .ok cell s1) (ht : (s1.heap.get cell).truthy = true) :
    evalStmt prog (n + 1) (.if_ c body els) s = evalStmt prog n body s1 := by
  cases els <;> simp [evalStmt, bind, EM.bind, hc, readCell, ht]

theorem if_false_else (n : Nat) (c : Expr) (body eb : Stmt) (s s1 : St) (cell : CellId)
    (hc : evalExpr prog n c s = .ok cell s1) (ht : (s1.heap.get cell).truthy = false) :
    evalStmt prog (n + 1) (.if_ c body (some eb)) s = evalStmt prog n eb s1 := by
  simp [evalStmt, bind, EM.bind, hc, readCell, ht]

theorem if_false_none (n : Nat) (c : Expr) (body : Stmt) (s s1 : St) (cell : CellId)
    (hc : evalExpr prog n c s = .ok cell s1) (ht : (s1.heap.get cell).truthy = false) :
    evalStmt prog (n + 1) (.if_ c body none) s = .ok () s1 := by
  simp [evalStmt, bind, EM.bind, hc, readCell, ht, pure, EM.pure]

/-- an error or signal in the condition is the result of the `if` -/
theorem if_cond_error (n : Nat) (c : Expr) (body : Stmt) (els : Option Stmt) (s s1 : St) (e : Err)
    (hc : evalExpr prog n c s = .err e s1) :
    evalStmt prog (n + 1) (.if_ c body els) s = .err e s1 := by
  cases els <;> simp [evalStmt, bind, EM.bind, hc]

/-- a block runs its statements first to last; the first one that does not complete ends it -/
theorem block_spec (n : Nat) (st : Stmt) (rest : List Stmt) :
    evalBlock prog (n + 1) (st :: rest) = (do evalStmt prog n st; evalBlock prog n rest) := by
  rw [evalBlock]

theorem block_nil (n : Nat) : evalBlock prog (n + 1) [] = pure () := by rw [evalBlock]

/-- `while`: test, body, repeat -/
theorem while_spec (n : Nat) (c : Expr) (body : Stmt) :
    evalStmt prog (n + 1) (.while_ c body) = whileLoop prog n c body := by rw [evalStmt]

theorem whileLoop_unfold (n : Nat) (c : Expr) (body : Stmt) :
    whileLoop prog (n + 1) c body = (do
      let cell ← evalExpr prog n c
      if (← readCell cell).truthy then
        loopIter (evalStmt prog n body) (whileLoop prog n c body)
      else pure ()) := by rw [whileLoop]

/-- three-clause `for`: the initialiser once (its errors propagate), then test / body / post -/
theorem for_spec (n : Nat) (pre c post : Expr) (body : Stmt) :
    evalStmt prog (n + 1) (.for_ pre c post body) = (do
      let _ ← evalExpr prog n pre
      forLoop prog n c post body) := by rw [evalStmt]

/-- the post-expression runs after each completed or continued iteration (the continuation
    passed to `loopIter` starts with it) -/
theorem forLoop_unfold (n : Nat) (c post : Expr) (body : Stmt) :
    forLoop prog (n + 1) c post body = (do
      let cell ← evalExpr prog n c
      if (← readCell cell).truthy then
        loopIter (evalStmt prog n body) (do
          let _ ← evalExpr prog n post
          forLoop prog n c post body)
      else pure ()) := by rw [forLoop]

/-! ### what one loop iteration does with the outcome of the body -/

theorem loopIter_completed (body k : EM Unit) (s s1 : St) (h : body s = .ok () s1) :
    loopIter body k s = k s1 := by simp [loopIter, h]

/-- `continue` goes on with the continuation (next test; for `for`: the post-expression) -/
theorem loopIter_continue (body k : EM Unit) (s s1 : St) (h : body s = .err (.sig .cont) s1) :
    loopIter body k s = k s1 := by simp [loopIter, h]

/-- `break` ends this loop, and only this one, normally -/
theorem loopIter_break (body k : EM Unit) (s s1 : St) (h : body s = .err (.sig .brk) s1) :
    loopIter body k s = .ok () s1 := by simp [loopIter, h]

/-- `return`, `next`, `exit` and runtime errors leave the loop unchanged -/
theorem loopIter_propagates (body k : EM Unit) (s s1 : St) (e : Err)
    (h : body s = .err e s1) (hb : e ≠ .sig .brk) (hc : e ≠ .sig .cont) :
    loopIter body k s = .err e s1 := by
  unfold loopIter
  rw [h]
  cases e with
  | sig g => cases g <;> simp_all
  | _ => rfl

/-! ### for-in visits every element exactly once, in order -/

theorem forIn_done (n : Nat) (loc : CellId) (il : Option CellId) (body : Stmt) :
    forInLoop prog (n + 1) loc il body [] = pure () := by rw [forInLoop]

/-- one step over an array: the loop variable receives a raw copy of the element's value (and
    the index variable, if any, the position), the body runs, then (unless it broke out or
    failed) the loop continues with the REST of the items — every element is visited at most
    once, in index order -/
theorem forIn_step_array (n : Nat) (loc : CellId) (body : Stmt) (iv : Val) (c : CellId)
    (rest : List (Option Val × (CellId ⊕ (Val × Option CellId)))) (s : St) :
    forInLoop prog (n + 1) loc none body ((some iv, .inl c) :: rest) s =
      loopIter (evalStmt prog n body) (forInLoop prog n loc none body rest)
        { s with heap := s.heap.set loc (s.heap.get c) } := by
  simp [forInLoop, bind, EM.bind, readCell, writeCell]

theorem forIn_step_array_index (n : Nat) (loc ic : CellId) (body : Stmt) (iv : Val) (c : CellId)
    (rest : List (Option Val × (CellId ⊕ (Val × Option CellId)))) (s : St) :
    forInLoop prog (n + 1) loc (some ic) body ((some iv, .inl c) :: rest) s =
      loopIter (evalStmt prog n body) (forInLoop prog n loc (some ic) body rest)
        { s with heap := (s.heap.set ic iv).set loc ((s.heap.set ic iv).get c) } := by
  simp [forInLoop, bind, EM.bind, readCell, writeCell]

-- (objects are iterated over `sortByKey` of their members: sortedness and independence of the
-- insertion order are theorems of C10)

/-! ### absorption (from the signal discipline) -/

/-- `break`/`continue` affect only the innermost enclosing loop: a loop statement never passes
    them on (when its header cannot raise them) -/
theorem loops_absorb_break_continue (hfs : prog.FnScoped) (n : Nat) (c : Expr) (b : Stmt)
    (hc : canE .brk c = false ∧ canE .cont c = false) (s s' : St) :
    evalStmt prog n (.while_ c b) s ≠ .err (.sig .brk) s' ∧
    evalStmt prog n (.while_ c b) s ≠ .err (.sig .cont) s' :=
  C01.loops_absorb prog hfs n c b hc s s'

/-- `return` leaves only the current function: the call yields the returned value -/
theorem return_leaves_function (body : EM Unit) (s s1 : St) (c : CellId)
    (h : body s = .err (.sig .ret) s1) (hr : s1.returnVal = some c) :
    catchReturn body s = .ok (s1.heap.get c) s1 := by
  simp [catchReturn, h, hr]

theorem no_return_yields_null (body : EM Unit) (s s1 : St) (h : body s = .ok () s1) :
    catchReturn body s = .ok (.nil none) s1 := by simp [catchReturn, h]

/-- `next` and `exit` pass through calls (with the frame dropped), loops and blocks up to the
    rule driver -/
theorem next_exit_through_call (body : EM Unit) (s s1 : St) (g : Sig) (hg : g = .next ∨ g = .exit)
    (h : body s = .err (.sig g) s1) : catchReturn body s = .err (.sig g) s1 := by
  rcases hg with rfl | rfl <;> simp [catchReturn, h]


/-! # Part 2: whole loops, every nesting -/

section whole
open Jqawk.Spec

/-! ## 0. fuel is irrelevant: the fuel-free reading of the evaluator -/

/-- `st`, started in `s`, ends with `r` (a value / error / signal — never "out of fuel") -/
def Runs (st : Stmt) (s : St) (r : Res Unit) : Prop := ∃ n, evalStmt prog n st s = r ∧ r ≠ .oof

/-- **Fuel monotonicity**: more fuel never changes a result that is not "out of fuel"
    (`Lemmas/LoopsMono.lean`, for all fifteen mutually recursive evaluator functions). -/
theorem fuel_irrelevant {n m : Nat} (hnm : n ≤ m) (st : Stmt) (s : St) (r : Res Unit)
    (h : evalStmt prog n st s = r) (hr : r ≠ .oof) : evalStmt prog m st s = r := by
  rw [(evalStmt_le prog st hnm).eq_of_ne_oof (by rw [h]; exact hr), h]

/-- the same for expressions -/
theorem fuel_irrelevant_expr {n m : Nat} (hnm : n ≤ m) (e : Expr) (s : St) (r : Res CellId)
    (h : evalExpr prog n e s = r) (hr : r ≠ .oof) : evalExpr prog m e s = r := by
  rw [(evalExpr_le prog e hnm).eq_of_ne_oof (by rw [h]; exact hr), h]

/-- hence a statement has at most one result -/
theorem runs_unique (st : Stmt) (s : St) (r r' : Res Unit) (h : Runs prog st s r)
    (h' : Runs prog st s r') : r = r' := by
  obtain ⟨n, h1, h2⟩ := h
  obtain ⟨m, h3, h4⟩ := h'
  have a := fuel_irrelevant prog (Nat.le_max_left n m) st s r h1 h2
  have b := fuel_irrelevant prog (Nat.le_max_right n m) st s r' h3 h4
  rw [← a, ← b]

/-! ## 1a. `while (c) body` = repeat the round "test; body" until it says stop -/

/-- **while, soundness**: a result of `while (c) body` (at any fuel, not "out of fuel") is the
    result of repeating the round `whileRound` — test `c`; if it holds run `body`; go on after
    completion or `continue`, stop after `break` or a failed test, fail with anything else —
    with the evaluator at that fuel inside the round. -/
theorem while_sound (n : Nat) (c : Expr) (body : Stmt) (s : St) (r : Res Unit)
    (h : evalStmt prog n (.while_ c body) s = r) (hr : r ≠ .oof) :
    Repeats (whileRoundAt prog n c body) s r := by
  cases n with
  | zero => unfold evalStmt at h; exact absurd h.symm hr
  | succ n =>
    rw [while_spec] at h
    exact (whileLoop_sound prog c body n s r h hr).mono (whileRoundAt_mono prog c body n)

/-- **while, completeness**: conversely every result of repeating the round is the result of the
    statement for all sufficiently large fuels. -/
theorem while_complete (m : Nat) (c : Expr) (body : Stmt) (s : St) (r : Res Unit)
    (h : Repeats (whileRoundAt prog m c body) s r) : Runs prog (.while_ c body) s r := by
  obtain ⟨n, hn⟩ := whileLoop_complete prog c body m s r h
  exact ⟨n + 1, by rw [while_spec]; exact hn, h.ne_oof⟩

/-- **while unrolled** (the least fixed point, `k` = number of completed-or-continued
    iterations): the statement has result `r` iff for some `k` there are `k` rounds that answer
    "go on" one after the other — `(c; body)^k` in this order — and the round after them ends
    the loop with `r`: `c` false (normal end), `break` in the body (normal end), or an error /
    `return` / `next` / `exit` in `c` or the body (the loop ends with it). -/
theorem while_unrolled (c : Expr) (body : Stmt) (s : St) (r : Res Unit) :
    Runs prog (.while_ c body) s r ↔
      ∃ m k sk, Rounds (whileRoundAt prog m c body) k s sk ∧ FinalRound (whileRoundAt prog m c body) sk r := by
  constructor
  · rintro ⟨n, h, hr⟩
    obtain ⟨k, sk, h1, h2⟩ := (repeats_iff_rounds _ _ _).mp (while_sound prog n c body s r h hr)
    exact ⟨n, k, sk, h1, h2⟩
  · rintro ⟨m, k, sk, h1, h2⟩
    exact while_complete prog m c body s r ((repeats_iff_rounds _ _ _).mpr ⟨k, sk, h1, h2⟩)

/-- what a round that answers "go on" is, on the evaluator: the test evaluates to a truthy
    value, then the body completes or ends with `continue` -/
theorem while_round_goes_on (m : Nat) (c : Expr) (body : Stmt) (s s2 : St) :
    whileRoundAt prog m c body s = .ok true s2 ↔
      ∃ cell s1, evalExpr prog m c s = .ok cell s1 ∧ (s1.heap.get cell).truthy = true ∧
        (evalStmt prog m body s1 = .ok () s2 ∨ evalStmt prog m body s1 = .err (.sig .cont) s2) := by
  unfold whileRoundAt
  rw [whileRound_true_iff]
  simp only [truthyOf_ok_iff]
  constructor
  · rintro ⟨s1, ⟨cell, h1, h2⟩, h3⟩; exact ⟨cell, s1, h1, h2, h3⟩
  · rintro ⟨cell, s1, h1, h2, h3⟩; exact ⟨s1, ⟨cell, h1, h2⟩, h3⟩

/-- **k iterations, normal end**: if `k` rounds go on and then the test is falsy, the loop ends
    normally in the state after that last test — its effect is `(c; body)^k; c`, for every fuel
    above `m + k + 1` -/
theorem while_k_iterations (m k : Nat) (c : Expr) (body : Stmt) (s sk s' : St) (cell : CellId)
    (hk : Rounds (whileRoundAt prog m c body) k s sk)
    (hc : evalExpr prog m c sk = .ok cell s') (hf : (s'.heap.get cell).truthy = false)
    (n : Nat) (hn : m + k + 1 < n) : evalStmt prog n (.while_ c body) s = .ok () s' := by
  obtain ⟨n', rfl⟩ : ∃ n', n = n' + 1 := ⟨n - 1, by omega⟩
  rw [while_spec]
  refine whileLoop_of_rounds prog c body m k s sk _ hk (.inl ⟨s', ?_, rfl⟩) n' (by omega)
  exact (whileRound_false_iff _ _ _ _).mpr (.inl ((truthyOf_ok_iff _ _ _ _).mpr ⟨cell, hc, hf⟩))

/-- **`break` in iteration k+1** ends the loop normally, in the state `break` was raised in -/
theorem while_break_at (m k : Nat) (c : Expr) (body : Stmt) (s sk s1 s' : St) (cell : CellId)
    (hk : Rounds (whileRoundAt prog m c body) k s sk)
    (hc : evalExpr prog m c sk = .ok cell s1) (ht : (s1.heap.get cell).truthy = true)
    (hb : evalStmt prog m body s1 = .err (.sig .brk) s')
    (n : Nat) (hn : m + k + 1 < n) : evalStmt prog n (.while_ c body) s = .ok () s' := by
  obtain ⟨n', rfl⟩ : ∃ n', n = n' + 1 := ⟨n - 1, by omega⟩
  rw [while_spec]
  refine whileLoop_of_rounds prog c body m k s sk _ hk (.inl ⟨s', ?_, rfl⟩) n' (by omega)
  exact (whileRound_false_iff _ _ _ _).mpr
    (.inr ⟨s1, (truthyOf_ok_iff _ _ _ _).mpr ⟨cell, hc, ht⟩, hb⟩)

/-- **propagation from iteration k+1**: `return`, `next`, `exit`, a runtime error in the body
    end the loop with exactly that outcome and state -/
theorem while_propagates_at (m k : Nat) (c : Expr) (body : Stmt) (s sk s1 s' : St) (cell : CellId)
    (e : Err) (hk : Rounds (whileRoundAt prog m c body) k s sk)
    (hc : evalExpr prog m c sk = .ok cell s1) (ht : (s1.heap.get cell).truthy = true)
    (hb : evalStmt prog m body s1 = .err e s') (he : e ≠ .sig .brk ∧ e ≠ .sig .cont)
    (n : Nat) (hn : m + k + 1 < n) : evalStmt prog n (.while_ c body) s = .err e s' := by
  obtain ⟨n', rfl⟩ : ∃ n', n = n' + 1 := ⟨n - 1, by omega⟩
  rw [while_spec]
  refine whileLoop_of_rounds prog c body m k s sk _ hk (.inr ⟨e, s', ?_, rfl⟩) n' (by omega)
  exact (whileRound_err_iff _ _ _ _ _).mpr
    (.inr ⟨s1, (truthyOf_ok_iff _ _ _ _).mpr ⟨cell, hc, ht⟩, hb, he.1, he.2⟩)

/-! ## 1b. `for (init; c; post) body` = init, then repeat "test; body; post" -/

/-- **for, soundness**: the initialiser once, then the rounds `forRound`: test, body, and — after
    a completed or continued body only — the post-expression. -/
theorem for_sound (n : Nat) (pre c post : Expr) (body : Stmt) (s : St) (r : Res Unit)
    (h : evalStmt prog n (.for_ pre c post body) s = r) (hr : r ≠ .oof) :
    ForRuns (effectOnly (evalExpr prog n pre)) (forRoundAt prog n c post body) s r := by
  cases n with
  | zero => unfold evalStmt at h; exact absurd h.symm hr
  | succ n =>
    rw [for_spec] at h
    simp only [bind, EM.bind] at h
    have hle := (allMono prog n).expr pre
    unfold ForRuns effectOnly
    simp only [bind, EM.bind, pure, EM.pure]
    cases hp : evalExpr prog n pre s with
    | ok x s1 =>
      rw [hp] at h
      rw [hle.eq_of_ne_oof (by rw [hp]; simp), hp]
      exact .inl ⟨s1, rfl, (forLoop_sound prog c post body n s1 r h hr).mono (forRoundAt_mono prog c post body n)⟩
    | err e s1 =>
      rw [hp] at h
      rw [hle.eq_of_ne_oof (by rw [hp]; simp), hp]
      exact .inr ⟨e, s1, rfl, h.symm⟩
    | oof => rw [hp] at h; exact absurd h.symm hr

/-- **for, completeness** -/
theorem for_complete (m : Nat) (pre c post : Expr) (body : Stmt) (s : St) (r : Res Unit)
    (h : ForRuns (effectOnly (evalExpr prog m pre)) (forRoundAt prog m c post body) s r) :
    Runs prog (.for_ pre c post body) s r := by
  unfold ForRuns effectOnly at h
  simp only [bind, EM.bind, pure, EM.pure] at h
  rcases h with ⟨s1, h1, h2⟩ | ⟨e, s1, h1, rfl⟩
  · obtain ⟨n, hn⟩ := forLoop_complete prog c post body m s1 r h2
    cases hp : evalExpr prog m pre s with
    | ok x s1' =>
      rw [hp] at h1
      simp only [Res.ok.injEq, true_and] at h1
      subst h1
      refine ⟨max m n + 1, ?_, h2.ne_oof⟩
      rw [for_spec]
      simp only [bind, EM.bind]
      rw [(evalExpr_le prog pre (Nat.le_max_left m n)).eq_of_ne_oof (by rw [hp]; simp), hp]
      have := (emle_le (fun k => forLoop prog k c post body) (fun k => (allMono prog k).forL c post body)
        (Nat.le_max_right m n))
      show forLoop prog (max m n) c post body s1' = r
      rw [this.eq_of_ne_oof (by rw [hn]; exact h2.ne_oof), hn]
    | err e s1' => rw [hp] at h1; cases h1
    | oof => rw [hp] at h1; cases h1
  · cases hp : evalExpr prog m pre s with
    | ok x s1' => rw [hp] at h1; cases h1
    | err e' s1' =>
      rw [hp] at h1
      simp only [Res.err.injEq] at h1
      obtain ⟨rfl, rfl⟩ := h1
      refine ⟨m + 1, ?_, by simp⟩
      rw [for_spec]
      simp only [bind, EM.bind, hp]
    | oof => rw [hp] at h1; cases h1

/-- **the post-expression runs after each completed or continued iteration**: a `for` round goes
    on iff the test is truthy, the body completes OR ends with `continue`, and then the
    post-expression is evaluated (from the state the body left) and completes. -/
theorem for_round_goes_on (m : Nat) (c post : Expr) (body : Stmt) (s s3 : St) :
    forRoundAt prog m c post body s = .ok true s3 ↔
      ∃ cell s1 s2 y, evalExpr prog m c s = .ok cell s1 ∧ (s1.heap.get cell).truthy = true ∧
        (evalStmt prog m body s1 = .ok () s2 ∨ evalStmt prog m body s1 = .err (.sig .cont) s2) ∧
        evalExpr prog m post s2 = .ok y s3 := by
  unfold forRoundAt
  rw [forRound_true_iff]
  simp only [truthyOf_ok_iff]
  have hd : ∀ s2, effectOnly (evalExpr prog m post) s2 = .ok () s3 ↔ ∃ y, evalExpr prog m post s2 = .ok y s3 := by
    intro s2
    simp only [effectOnly, bind, EM.bind, pure, EM.pure]
    cases evalExpr prog m post s2 <;> simp
  constructor
  · rintro ⟨s1, s2, ⟨cell, h1, h2⟩, h3, h4⟩
    obtain ⟨y, hy⟩ := (hd s2).mp h4
    exact ⟨cell, s1, s2, y, h1, h2, h3, hy⟩
  · rintro ⟨cell, s1, s2, y, h1, h2, h3, h4⟩
    exact ⟨s1, s2, ⟨cell, h1, h2⟩, h3, (hd s2).mpr ⟨y, h4⟩⟩

/-- **`break` skips the post-expression**: the round (hence the loop) ends in the very state
    `break` was raised in -/
theorem for_break_skips_post (m : Nat) (c post : Expr) (body : Stmt) (s s1 s2 : St) (cell : CellId)
    (hc : evalExpr prog m c s = .ok cell s1) (ht : (s1.heap.get cell).truthy = true)
    (hb : evalStmt prog m body s1 = .err (.sig .brk) s2) :
    forRoundAt prog m c post body s = .ok false s2 :=
  (forRound_false_iff _ _ _ _ _).mpr (.inr ⟨s1, (truthyOf_ok_iff _ _ _ _).mpr ⟨cell, hc, ht⟩, hb⟩)

/-- **k iterations of `for`**: `init; (c; body; post)^k; c` -/
theorem for_k_iterations (m k : Nat) (pre c post : Expr) (body : Stmt) (s s1 sk s' : St)
    (x cell : CellId) (hpre : evalExpr prog m pre s = .ok x s1)
    (hk : Rounds (forRoundAt prog m c post body) k s1 sk)
    (hc : evalExpr prog m c sk = .ok cell s') (hf : (s'.heap.get cell).truthy = false) :
    Runs prog (.for_ pre c post body) s (.ok () s') := by
  refine for_complete prog m pre c post body s _ (.inl ⟨s1, ?_, ?_⟩)
  · simp only [effectOnly, bind, EM.bind, hpre, pure, EM.pure]
  · refine (repeats_iff_rounds _ _ _).mpr ⟨k, sk, hk, .inl ⟨s', ?_, rfl⟩⟩
    exact (forRound_false_iff _ _ _ _ _).mpr (.inl ((truthyOf_ok_iff _ _ _ _).mpr ⟨cell, hc, hf⟩))

/-! ## 1c. for-in = a fold with early exit over the items held at loop entry -/

/-- **for-in, soundness** (`forIn_array_eq_fold` and its object / string siblings in one):
    wherever `for (id[, idx] in iter) body` does not run out of fuel it ends exactly like the
    specification `Spec.forInStmt`: loop variables looked up (created if new), `iter` evaluated
    ONCE, then `Spec.iterate` over
    * the cells the ARRAY held at that moment, with their positions (`List.zipIdx`),
    * the members the OBJECT had at that moment, in ascending key order (`sortByKey`),
    * the code points of the STRING with their byte offsets (`utf8Runes`),
    running for each item "bind the variables; body", stopping at the first body that ends
    with `break` (normal end) or with anything but completion / `continue` (propagates). -/
theorem forIn_eq_fold (n : Nat) (id : Token) (idx : Option Token) (iter : Expr) (body : Stmt)
    (s : St) (r : Res Unit) (h : evalStmt prog (n + 1) (.forIn id idx iter body) s = r) (hr : r ≠ .oof) :
    forInStmt (evalExpr prog n) (evalStmt prog n) id idx iter body s = r := by
  rw [(forIn_sound prog n id idx iter body).eq_of_ne_oof (by rw [h]; exact hr), h]

/-- **for-in, completeness** -/
theorem forIn_fold_complete (m : Nat) (id : Token) (idx : Option Token) (iter : Expr) (body : Stmt)
    (s : St) (r : Res Unit)
    (h : forInStmt (evalExpr prog m) (evalStmt prog m) id idx iter body s = r) (hr : r ≠ .oof) :
    Runs prog (.forIn id idx iter body) s r := by
  obtain ⟨n0, hn⟩ := forIn_complete prog m id idx iter body s r h hr
  exact ⟨n0, hn n0 (Nat.le_refl _), hr⟩

/-- the array case at the level of the model's `forInLoop`, for the item list the statement
    builds from the cells of the array -/
theorem forIn_array_eq_fold (n : Nat) (loc : CellId) (il : Option CellId) (body : Stmt)
    (cells : List CellId) (s : St) (r : Res Unit)
    (h : forInLoop prog n loc il body (arrayItems cells) s = r) (hr : r ≠ .oof) :
    forInArray (evalStmt prog n body) loc il cells s = r := by
  rw [forInLoop_eq_iterateN] at h
  have := iterateN_sound (fun k it => do bindRaw loc il it; evalStmt prog k body)
    (fun k x => EMLe.bind (EMLe.refl (bindRaw loc il x)) (fun _ => (allMono prog k).stmt body)) n (arrayItems cells)
  rw [← iterate_arrayItems, this.eq_of_ne_oof (by rw [h]; exact hr), h]

/-- the object case: the members in `sortByKey` order -/
theorem forIn_object_eq_fold (n : Nat) (loc : CellId) (il : Option CellId) (body : Stmt)
    (members : List (Bytes × CellId)) (s : St) (r : Res Unit)
    (h : forInLoop prog n loc il body (objectItems members) s = r) (hr : r ≠ .oof) :
    forInObject (evalStmt prog n body) loc il members s = r := by
  rw [forInLoop_eq_iterateN] at h
  have := iterateN_sound (fun k it => do bindRaw loc il it; evalStmt prog k body)
    (fun k x => EMLe.bind (EMLe.refl (bindRaw loc il x)) (fun _ => (allMono prog k).stmt body)) n (objectItems members)
  rw [← iterate_objectItems, this.eq_of_ne_oof (by rw [h]; exact hr), h]

/-- the string case: the code points with their byte offsets -/
theorem forIn_string_eq_fold (n : Nat) (loc : CellId) (il : Option CellId) (body : Stmt)
    (str : Bytes) (s : St) (r : Res Unit)
    (h : forInLoop prog n loc il body (stringItems str) s = r) (hr : r ≠ .oof) :
    forInString (evalStmt prog n body) loc il str s = r := by
  rw [forInLoop_eq_iterateN] at h
  have := iterateN_sound (fun k it => do bindRaw loc il it; evalStmt prog k body)
    (fun k x => EMLe.bind (EMLe.refl (bindRaw loc il x)) (fun _ => (allMono prog k).stmt body)) n (stringItems str)
  rw [← iterate_stringItems, this.eq_of_ne_oof (by rw [h]; exact hr), h]

/-- **in order, each item at most once**: the items whose step is started form a prefix of the
    item list (for any step function, in particular "bind; body") -/
theorem forIn_visits_prefix {ι : Type} (step : ι → EM Unit) (items : List ι) (s : St) :
    visited step items s <+: items := visited_prefix step items s

/-- **every item exactly once unless the loop is left early**: a fold that ends normally has
    visited the whole list, or its last visited item's body ended with `break` -/
theorem forIn_visits_all_or_break {ι : Type} (step : ι → EM Unit) (items : List ι) (s s' : St)
    (h : iterate step items s = .ok () s') :
    visited step items s = items ∨
    ∃ pre x post s1, items = pre ++ x :: post ∧ visited step items s = pre ++ [x] ∧
      step x s1 = .err (.sig .brk) s' := visited_all_or_break step items s s' h

/-- **object keys in a deterministic order**: the members are visited in ascending bytewise key
    order, every member of the object exactly once (a permutation of the member list) -/
theorem forIn_object_order (members : List (Bytes × CellId)) :
    (sortByKey members).Perm members ∧
    (sortByKey members).Pairwise (fun x y => Bytes.le x.1 y.1 = true) :=
  ⟨sortByKey_perm members, sortByKey_sorted members⟩

/-- … strictly ascending (so no key twice) when the keys are distinct, as in a Go map -/
theorem forIn_object_order_strict (members : List (Bytes × CellId)) (hd : DistinctKeys members) :
    (sortByKey members).Pairwise (fun x y => Bytes.cmp x.1 y.1 = .lt) :=
  sortByKey_sortedLt members hd

/-- strings, the plain case: on an ASCII string the items are exactly the bytes with their
    positions, and the loop variable receives the one-byte string of that byte.  (In general:
    the code points with their BYTE offsets; an invalid byte is visited as U+FFFD of width 1 —
    `utf8Runes`, `utf8Encode` follow Go's `range` over a string and `string(rune)`.) -/
theorem forIn_string_ascii (str : Bytes) (h : ∀ b ∈ str, b < 0x80) :
    utf8Runes str = str.zipIdx.map (fun p => (p.2, p.1.toNat)) ∧
    ∀ b ∈ str, utf8Encode b.toNat = [b] :=
  ⟨utf8Runes_ascii str h, fun b hb => utf8Encode_ascii b (h b hb)⟩

/-- array items carry their positions `0, 1, 2, …` in order -/
theorem forIn_array_positions (cells : List CellId) :
    cells.zipIdx.map Prod.snd = List.range cells.length ∧ cells.zipIdx.map Prod.fst = cells := by
  constructor
  · simp [List.zipIdx_map_snd, List.range_eq_range']
  · simp

/-! ## 2. `break` / `continue` affect only the innermost enclosing loop -/

/-- **every loop statement confines `break` and `continue`** (all three kinds): whatever the
    body does at whatever depth, the loop statement itself never ends with them — provided its
    HEADER expressions contain no `break` / `continue` (possible only inside the body of a
    `match` expression in the header; see `header_break_hits_outer_loop` below) -/
theorem loop_statements_confine (hfs : prog.FnScoped) (g : Sig) (hg : g = .brk ∨ g = .cont) (n : Nat)
    (s s' : St) :
    (∀ c b, canE g c = false → evalStmt prog n (.while_ c b) s ≠ .err (.sig g) s') ∧
    (∀ pre c post b, canE g pre = false → canE g c = false → canE g post = false →
      evalStmt prog n (.for_ pre c post b) s ≠ .err (.sig g) s') ∧
    (∀ id idx iter b, canE g iter = false → evalStmt prog n (.forIn id idx iter b) s ≠ .err (.sig g) s') := by
  have hc : g.confined = true := by rcases hg with rfl | rfl <;> rfl
  have hl : g.loopSig = true := by rcases hg with rfl | rfl <;> rfl
  refine ⟨fun c b h => ?_, fun pre c post b h1 h2 h3 => ?_, fun id idx iter b h => ?_⟩
  · exact C01.confined_signals_stmt prog hfs g hc n _ (by simp [canS, h, hl]) s s'
  · exact C01.confined_signals_stmt prog hfs g hc n _ (by simp [canS, h1, h2, h3, hl]) s s'
  · exact C01.confined_signals_stmt prog hfs g hc n _ (by simp [canS, h, hl]) s s'

/-- **no `break` outside nested loops, no `break` out**: a statement in which every `break`
    (`continue`) sits inside a nested loop's body — `canS` is this syntactic check, through
    blocks, if/else, match bodies, and stopping at loop bodies — never ends with it -/
theorem no_free_break_no_break (hfs : prog.FnScoped) (g : Sig) (hg : g = .brk ∨ g = .cont) (n : Nat)
    (st : Stmt) (h : canS g st = false) (s s' : St) : evalStmt prog n st s ≠ .err (.sig g) s' :=
  C01.confined_signals_stmt prog hfs g (by rcases hg with rfl | rfl <;> rfl) n st h s s'

/-- **`break` at any depth of blocks / if-else / match-statement bodies ends exactly the loop
    whose body it is in**: if the body `Leads` (without crossing a loop boundary) to a `break`,
    the iteration — `loopIter`, the common step of all three loop kinds — ends the loop
    normally, in the state `break` was executed in (up to the frames of match bodies, which are
    dropped), whatever the continuation `k` (next test, post-expression, remaining items) is:
    none of it runs. -/
theorem break_ends_innermost_loop {n m : Nat} {body : Stmt} {s s0 : St} {t : Token}
    (hl : Leads prog false n (.stmt body) s (m + 1) (.brk t) s0) (k : EM Unit) :
    ∃ fr, loopIter (evalStmt prog n body) k s = .ok () { s0 with frames := fr } := by
  obtain ⟨fr, h⟩ := leads_propagates prog hl (.sig .brk) s0 (by unfold evalStmt; rfl) (fun h => by cases h)
  exact ⟨fr, loopIter_break _ _ _ _ h⟩

/-- **`continue` at any such depth goes on with exactly this loop**: the rest of the body is
    skipped and the loop's continuation `k` runs — for `for`, `k` starts with the
    post-expression (`forLoop_unfold`) -/
theorem continue_resumes_innermost_loop {n m : Nat} {body : Stmt} {s s0 : St} {t : Token}
    (hl : Leads prog false n (.stmt body) s (m + 1) (.cont t) s0) (k : EM Unit) :
    ∃ fr, loopIter (evalStmt prog n body) k s = k { s0 with frames := fr } := by
  obtain ⟨fr, h⟩ := leads_propagates prog hl (.sig .cont) s0 (by unfold evalStmt; rfl) (fun h => by cases h)
  exact ⟨fr, loopIter_continue _ _ _ _ h⟩

/-- **`continue` in a `for` at any such depth still runs the post-expression**: the iteration
    goes on with "post; next test" from the state `continue` was executed in -/
theorem for_continue_runs_post {n m : Nat} {c post : Expr} {body : Stmt} {s s1 s0 : St} {cell : CellId}
    {t : Token} (hc : evalExpr prog n c s = .ok cell s1) (ht : (s1.heap.get cell).truthy = true)
    (hl : Leads prog false n (.stmt body) s1 (m + 1) (.cont t) s0) :
    ∃ fr, forLoop prog (n + 1) c post body s =
      (do let _ ← evalExpr prog n post; forLoop prog n c post body) { s0 with frames := fr } := by
  obtain ⟨fr, h⟩ := continue_resumes_innermost_loop prog hl
    (do let _ ← evalExpr prog n post; forLoop prog n c post body)
  refine ⟨fr, ?_⟩
  rw [forLoop_unfold]
  simp only [bind, EM.bind, hc, readCell, ht, ↓reduceIte]
  exact h

/-- the same for a whole `while` statement: `break` reached in its body in the first iteration
    ends this statement normally -/
theorem while_break_innermost {n m : Nat} {c : Expr} {body : Stmt} {s s1 s0 : St} {cell : CellId}
    {t : Token} (hc : evalExpr prog n c s = .ok cell s1) (ht : (s1.heap.get cell).truthy = true)
    (hl : Leads prog false n (.stmt body) s1 (m + 1) (.brk t) s0) :
    ∃ fr, evalStmt prog (n + 2) (.while_ c body) s = .ok () { s0 with frames := fr } := by
  obtain ⟨fr, h⟩ := break_ends_innermost_loop prog hl (whileLoop prog n c body)
  refine ⟨fr, ?_⟩
  have h1 : whileLoop prog (n + 1) c body s = .ok () { s0 with frames := fr } := by
    rw [whileLoop_unfold]
    simp only [bind, EM.bind, hc, readCell, ht, ↓reduceIte]
    exact h
  rw [while_spec]; exact h1

/-- **every nesting, every abnormal end**: if a statement `Leads` to a sub-statement — through
    completed statements of blocks, taken branches, matching `match` cases, earlier completed or
    continued loop iterations — and that sub-statement ends with a runtime error, `return`,
    `next`, `exit` (or, with no loop boundary in between, `break` / `continue`), then the
    statement ends the same way in the same state (up to dropped match frames): NOTHING that
    follows the sub-statement in any enclosing construct is executed. -/
theorem abnormal_end_propagates {l : Bool} {n m : Nat} {outer inner : Stmt} {s s0 s1 : St} {e : Err}
    (hl : Leads prog l n (.stmt outer) s m inner s0) (he : evalStmt prog m inner s0 = .err e s1)
    (hp : l = true → e ≠ .sig .brk ∧ e ≠ .sig .cont) :
    ∃ fr, evalStmt prog n outer s = .err e { s1 with frames := fr } :=
  leads_propagates prog hl e s1 he hp

/-- **`next` and `exit` leave every loop and conditional**: reached at any nesting depth they
    end the whole statement (up to the rule driver, which consumes them) -/
theorem next_exit_from_any_nesting {l : Bool} {n m : Nat} {outer : Stmt} {s s0 : St} {t : Token}
    (g : Sig) (inner : Stmt) (hg : (g = .next ∧ inner = .next t) ∨ (g = .exit ∧ inner = .exit t))
    (hl : Leads prog l n (.stmt outer) s (m + 1) inner s0) :
    ∃ fr, evalStmt prog n outer s = .err (.sig g) { s0 with frames := fr } := by
  rcases hg with ⟨rfl, rfl⟩ | ⟨rfl, rfl⟩
  · exact leads_propagates prog hl (.sig .next) s0 (by unfold evalStmt; rfl) (fun _ => ⟨by simp, by simp⟩)
  · exact leads_propagates prog hl (.sig .exit) s0 (by unfold evalStmt; rfl) (fun _ => ⟨by simp, by simp⟩)

/-! ## 4. `return` leaves exactly the current function, from any nesting -/

/-- **`return e` from inside any loops, conditionals, blocks and match-statement bodies**: if
    the body of the called function `Leads` to `return e` and `e` evaluates (there) to the cell
    `c`, the call ends right then: its value is the value of `c`, the state is the one after
    evaluating `e` (plus the return slot and the result cell) — nothing else of the body, of
    enclosing loops (no further test, post-expression, item) runs — and the frame stack is the
    caller's again. -/
theorem return_from_any_nesting (n m pos i : Nat) (fc : CellId) (args : List CellId) (f : FuncDef)
    (s sb s0 s2 : St) (l : Bool) (e : Expr) (c : CellId)
    (hfn : s.heap.get fc = .fn i) (hf : prog.functions[i]? = some f)
    (hdepth : ¬ s.frames.length > callDepthLimit)
    (hbind : bindParams f.args (args.map s.heap.get)
      { s with frames := ⟨f.ident.text, []⟩ :: s.frames,
               maxDepth := max s.maxDepth (s.frames.length + 1) } = .ok () sb)
    (hl : Leads prog l n (.stmt f.body) sb (m + 1) (.ret (some e)) s0)
    (he : evalExpr prog m e s0 = .ok c s2) :
    callFunction prog (n + 1) pos fc args s =
      .ok s2.heap.cells.size
        { s2 with returnVal := some c, frames := s.frames, heap := (s2.heap.alloc (s2.heap.get c)).2 } := by
  have hret : evalStmt prog (m + 1) (.ret (some e)) s0 = .err (.sig .ret) { s2 with returnVal := some c } := by
    unfold evalStmt
    simp only [bind, EM.bind, he, modifySt, throwSig]
  obtain ⟨fr, hb⟩ := leads_propagates prog hl (.sig .ret) _ hret (fun _ => ⟨by simp, by simp⟩)
  simp only [Task.run] at hb
  unfold callFunction
  simp only [bind, EM.bind, readCell, getHeap, hfn, hf, getSt, pushFrame, hdepth, ↓reduceIte, withFrames,
    hbind, catchReturn, hb, newCell, Heap.alloc]

/-- … and only the current function: the caller never sees the `return` (nor `break` /
    `continue`) of the callee -/
theorem call_confines_return (hfs : prog.FnScoped) (n pos : Nat) (f : CellId) (args : List CellId)
    (s s' : St) : callFunction prog n pos f args s ≠ .err (.sig .ret) s' :=
  C01.call_absorbs prog hfs .ret rfl n pos f args s s'

end whole

/-! ## 3. dangling else: `else` binds to the nearest unmatched `if` (parser, on token lists) -/

section danglingElse
open Jqawk.Grammar Jqawk.Parser Jqawk.Pratt Jqawk.LoopsElse

/-- **Dangling else, any inner statements**: in `if (a) if (b) S1 else S2` — `a`, `b` ANY
    well-formed expressions of the printer grammar `PE` in any rendering (minimal, full or
    redundant parentheses), `S1`, `S2` any statements that parse on their own (`ParsesStmt`) —
    the `else` is attached to the INNER `if`: the result is `if a (if b S1 else S2)` with no else
    branch on the outer `if`, for every fuel from the stated bound on. -/
theorem dangling_else_any (fn lp : Bool) (a b : PE) (hwa : a.wf = true) (hwb : b.wf = true)
    (pol : PE → Bool) (qa qb : Nat) (hqa : 1 ≤ qa) (hqb : 1 ≤ qb)
    (i1 l1 r1 i2 l2 r2 el : Token)
    (hi1 : i1.tag = .if_) (hl1 : l1.tag = .lparen) (hr1 : r1.tag = .rparen)
    (hi2 : i2.tag = .if_) (hl2 : l2.tag = .lparen) (hr2 : r2.tag = .rparen) (hel : el.tag = .else_)
    (k1 : Nat) (h1 : Token) (rest1 : List Token) (S1 : Stmt) (h2 : Token) (rest2 : List Token)
    (k2 : Nat) (S2 : Stmt) (c : Token) (more : List Token)
    (hS1 : ParsesStmt fn lp k1 h1 rest1 S1 el (h2 :: rest2))
    (hS2 : ParsesStmt fn lp k2 h2 rest2 S2 c more) (hc : c.tag ≠ .else_) :
    ParsesStmt fn lp (max (max (cost a + 4) (cost b + 5)) (max k1 k2 + 2)) i1
      (l1 :: (render pol qa a ++ r1 :: i2 :: l2 :: (render pol qb b ++ r2 :: h1 :: rest1)))
      (.if_ (toExpr a) (.if_ (toExpr b) S1 (some S2)) none) c more :=
  dangling_else_general fn lp a b hwa hwb pol qa qb hqa hqb i1 l1 r1 i2 l2 r2 el hi1 hl1 hr1 hi2 hl2 hr2
    hel k1 h1 rest1 S1 h2 rest2 k2 S2 c more hS1 hS2 hc

/-- **Dangling else, expression statements**: the instance with `S1`, `S2` expression statements
    of arbitrary `PE` expressions (not starting with `{`, which would open a block), followed by
    any token that ends an expression and is not `else` (`;`, `}`, end of input, …). -/
theorem dangling_else_exprs (a b e1 e2 : PE) (hwa : a.wf = true) (hwb : b.wf = true)
    (hw1 : e1.wf = true) (hw2 : e2.wf = true) (pol : PE → Bool)
    (qa qb q1 q2 : Nat) (hqa : 1 ≤ qa) (hqb : 1 ≤ qb) (hq1 : 1 ≤ q1) (hq2 : 1 ≤ q2)
    (i1 l1 r1 i2 l2 r2 el c : Token)
    (hi1 : i1.tag = .if_) (hl1 : l1.tag = .lparen) (hr1 : r1.tag = .rparen)
    (hi2 : i2.tag = .if_) (hl2 : l2.tag = .lparen) (hr2 : r2.tag = .rparen) (hel : el.tag = .else_)
    (hx1 : startsExpr (render pol q1 e1) = true) (hx2 : startsExpr (render pol q2 e2) = true)
    (hstop : precT c.tag < 1) (hc : c.tag ≠ .else_) (more : List Token)
    (s : PS) (hs : s.cur = i1) (F : Nat)
    (hF : max (max (cost a + 4) (cost b + 5)) (max (cost e1) (cost e2) + 6) ≤ F) :
    ∃ s', s'.cur = c ∧ s'.inFn = s.inFn ∧ s'.inLoop = s.inLoop ∧
      run (statement T F) s
        (l1 :: (render pol qa a ++ r1 :: i2 :: l2 :: (render pol qb b ++ r2 ::
          (render pol q1 e1 ++ el :: (render pol q2 e2 ++ c :: more)))))
      = .ok ((.if_ (toExpr a) (.if_ (toExpr b) (.expr (toExpr e1)) (some (.expr (toExpr e2)))) none, s'),
          more) :=
  dangling_else a b e1 e2 hwa hwb hw1 hw2 pol qa qb q1 q2 hqa hqb hq1 hq2 i1 l1 r1 i2 l2 r2 el c
    hi1 hl1 hr1 hi2 hl2 hr2 hel hx1 hx2 hstop hc more s hs F hF

/-- the contrast: to attach the `else` to the OUTER `if` the inner one must be put in braces -/
theorem else_to_outer_needs_braces (fn lp : Bool) (a b : PE) (hwa : a.wf = true)
    (hwb : b.wf = true) (pol : PE → Bool) (qa qb : Nat) (hqa : 1 ≤ qa) (hqb : 1 ≤ qb)
    (i1 l1 r1 lc i2 l2 r2 rc el : Token)
    (hi1 : i1.tag = .if_) (hl1 : l1.tag = .lparen) (hr1 : r1.tag = .rparen) (hlc : lc.tag = .lcurly)
    (hi2 : i2.tag = .if_) (hl2 : l2.tag = .lparen) (hr2 : r2.tag = .rparen) (hrc : rc.tag = .rcurly)
    (hel : el.tag = .else_)
    (k1 : Nat) (h1 : Token) (rest1 : List Token) (S1 : Stmt) (h2 : Token) (rest2 : List Token)
    (k2 : Nat) (S2 : Stmt) (c : Token) (more : List Token)
    (hS1 : ParsesStmt fn lp k1 h1 rest1 S1 rc (el :: h2 :: rest2))
    (hS2 : ParsesStmt fn lp k2 h2 rest2 S2 c more) :
    ParsesStmt fn lp (max (max (cost a + 4) (cost b + 8)) (max (k1 + 5) (k2 + 1))) i1
      (l1 :: (render pol qa a ++ r1 :: lc :: i2 :: l2 :: (render pol qb b ++ r2 :: h1 :: rest1)))
      (.if_ (toExpr a) (.block lc [.if_ (toExpr b) S1 none]) (some S2)) c more :=
  else_outer_needs_braces fn lp a b hwa hwb pol qa qb hqa hqb i1 l1 r1 lc i2 l2 r2 rc el
    hi1 hl1 hr1 hlc hi2 hl2 hr2 hrc hel k1 h1 rest1 S1 h2 rest2 k2 S2 c more hS1 hS2

/-- non-vacuity, from SOURCE TEXT through the real lexer: the nested reading (what the Go binary
    prints with `-dbg-ast` too), and it differs from the reading with braces -/
example :
    dumpProgSrc b!"{ if (a) if (b) x = 1 else x = 2 }"
      = some (dumpProgram ⟨[⟨.pattern, none, .block ⟨.lcurly, 0, []⟩
          [.if_ (.ident ⟨.ident, 6, b!"a"⟩)
            (.if_ (.ident ⟨.ident, 13, b!"b"⟩) (asgAt 16 18 20 b!"1") (some (asgAt 27 29 31 b!"2")))
            none]⟩], []⟩) := by
  decide +kernel

example : dumpProgSrc b!"{ if (a) if (b) x = 1 else x = 2 }"
    ≠ dumpProgSrc b!"{ if (a) { if (b) x = 1 } else x = 2 }" := by
  decide +kernel

/-- an instance of `dangling_else_exprs` with every hypothesis discharged by computation:
    `if ( a ) if ( b ) x = 1 else x = 2` in front of a `}` (compound conditions, see below) -/
example : ∃ s', s'.cur = opTok .rcurly ∧ s'.inFn = false ∧ s'.inLoop = false ∧
    run (statement T 40) ⟨opTok .if_, opTok .lcurly, false, false, false⟩
      (opTok .lparen :: (renderMin 1 (.bin .add (.ident b!"a") (.ident b!"c")) ++ opTok .rparen :: opTok .if_ ::
        opTok .lparen :: (renderMin 1 (.ident b!"b") ++ opTok .rparen ::
          (renderMin 1 (asgPE b!"1") ++ opTok .else_ :: (renderMin 1 (asgPE b!"2") ++
            opTok .rcurly :: [])))))
    = .ok ((.if_ (toExpr (.bin .add (.ident b!"a") (.ident b!"c")))
              (.if_ (toExpr (.ident b!"b")) (.expr (toExpr (asgPE b!"1")))
                (some (.expr (toExpr (asgPE b!"2"))))) none, s'), []) :=
  dangling_else_exprs (.bin .add (.ident b!"a") (.ident b!"c")) (.ident b!"b") (asgPE b!"1") (asgPE b!"2")
    (by decide +kernel) (by decide +kernel) (by decide +kernel) (by decide +kernel)
    (fun _ => false) 1 1 1 1 (by decide) (by decide) (by decide) (by decide)
    (opTok .if_) (opTok .lparen) (opTok .rparen) (opTok .if_) (opTok .lparen) (opTok .rparen)
    (opTok .else_) (opTok .rcurly) rfl rfl rfl rfl rfl rfl rfl
    (by decide +kernel) (by decide +kernel) (by decide) (by decide) []
    ⟨opTok .if_, opTok .lcurly, false, false, false⟩ rfl 40 (by decide +kernel)

end danglingElse


/-! ## Non-vacuity and findings: concrete programs -/

section examples
open Jqawk.Spec

/-- the output of a whole program run by the model driver (no input files); `none` unless it
    ends normally -/
def runOut (src : Bytes) : Option Bytes :=
  let r := evalProgram expectedRuleTable src [] []
  match r.outcome with
  | .ok => some r.out
  | _ => none

/-- the program a source text parses to, the body of its first rule, the initial state -/
def demoProg (src : Bytes) : Program :=
  match parseProgramSrc expectedRuleTable src with
  | .ok p => p
  | _ => Program.empty
def demoBody (src : Bytes) : Stmt :=
  match (demoProg src).rules with
  | r :: _ => r.body
  | [] => .block Token.zero []
def demoStart (src : Bytes) : St := newEvaluator (demoProg src) Heap.empty [] 0

/-- the first statement of a block -/
def firstStmt : Stmt → Stmt
  | .block _ (st :: _) => st
  | st => st

def outOf (r : Res Unit) : Option Bytes :=
  match r with
  | .ok () s => some s.output
  | _ => none

def isDone {α : Type} : Res α → Bool
  | .oof => false
  | _ => true

/-- (helper for the examples) a computed check that a result is not "out of fuel" -/
theorem ne_oof_of_isDone {α : Type} {r : Res α} (h : isDone r = true) : r ≠ .oof := by
  intro h'; rw [h'] at h; cases h

/-! ### the clauses on one program: order, `continue` runs the post-expression, `break` does
    not, break / continue act on the innermost loop only -/

/-- `for`: `continue` (i = 1) still increments `i` — otherwise the loop would never end —,
    `break` (i = 4) leaves with `i = 4`: the post-expression did not run after it -/
example : runOut b!"BEGIN { for (i = 0; i < 6; i++) { if (i == 1) continue; if (i == 4) break; print i } print \"end\", i }"
    = some b!"0\n2\n3\nend 4\n" := by decide +kernel

/-- nested loops: `break` / `continue` of the inner loop (inside if/else inside a block) leave
    the outer loop alone; an outer `continue` after the inner loop acts on the outer one -/
example : runOut b!"BEGIN { for (i = 0; i < 3; i++) { j = 0; while (true) { j++; if (j == 1) { continue } else { if (j > 2) { break } } print i, j } if (i == 1) continue; print \"row\", i } }"
    = some b!"0 2\nrow 0\n1 2\n2 2\nrow 2\n" := by decide +kernel

/-- `return` from inside two loops and a conditional ends the call (and only the call) -/
example : runOut b!"function f(a) { for (x in a) { while (true) { if (x > 1) { return x * 10 } break } print \"skip\", x } return 0 } BEGIN { print f([1, 2, 3]); print \"after\" }"
    = some b!"skip 1\n20\nafter\n" := by decide +kernel

/-- the dangling `else` at run time: with `a` true and `b` false the else branch runs; with `a`
    false nothing runs (the else belongs to the inner `if`) -/
example : runOut b!"BEGIN { if (true) if (false) print \"then\" else print \"else\"; if (false) if (true) print \"x\" else print \"y\"; print \"end\" }"
    = some b!"else\nend\n" := by decide +kernel

/-! ### for-in -/

/-- arrays: element and index, in order; objects: keys in sorted order with values; strings:
    characters with BYTE offsets (`é` is two bytes) -/
example : runOut b!"BEGIN { for (x, i in [7, 8, 9]) print i, x; o = {b: 1, a: 2, ab: 3}; for (k, v in o) print k, v; for (ch, off in \"héy\") print off, ch }"
    = some b!"0 7\n1 8\n2 9\na 2\nab 3\nb 1\n0 h\n1 é\n3 y\n" := by decide +kernel

/-- the items are those held WHEN THE LOOP STARTED: elements pushed by the body are not
    visited (Go: `range` evaluates the slice once) — but their VALUES are read when their turn
    comes (element 2 was overwritten in iteration 0) -/
example : runOut b!"BEGIN { a = [1, 2, 3]; for (x, i in a) { print i, x; if (i == 0) { a.push(9); a[2] = 7 } } print a }"
    = some b!"0 1\n1 2\n2 7\n[1, 2, 7, 9]\n" := by decide +kernel

/-- FINDING (model ≠ Go): `pop()` followed by `push()` inside the body.  The model iterates the
    snapshot of the cell LIST and still visits the popped cell (prints `2 3`); Go ranges over the
    slice's backing array, where `append` after the `pop` overwrote slot 2 in place, and prints
    `2 9`.  (Everything else in this file is about the model as it is.) -/
example : runOut b!"BEGIN { a = [1, 2, 3]; for (x, i in a) { print i, x; if (i == 0) { a.pop(); a.push(9) } } print a }"
    = some b!"0 1\n1 2\n2 3\n[1, 2, 9]\n" := by decide +kernel

/-- an invalid UTF-8 byte is visited as U+FFFD (EF BF BD) of width 1, as Go's `range` does -/
example : runOut (b!"BEGIN { for (ch, off in \"a" ++ [0xff] ++ b!"b\") print off, ch }")
    = some (b!"0 a\n1 " ++ [0xef, 0xbf, 0xbd] ++ b!"\n2 b\n") := by decide +kernel

/-- FINDING (`loop_statements_confine` needs its header hypothesis; Go agrees with the model):
    a `break` in the HEADER of a loop — possible only inside a `match` body there, and only if
    the loop is itself nested in a loop, otherwise the parser rejects it — is outside the body
    of that loop: it ends the ENCLOSING loop (here: the `for`, in its first iteration). -/
example : runOut b!"BEGIN { for (i = 0; i < 3; i++) { j = 0; while (match (j) { 2 => { break } _ => true }) { j++ } print i, j } print \"done\" }"
    = some b!"done\n" := by decide +kernel

/-- … and at top level it is a syntax error -/
example : (match parseProgramSrc expectedRuleTable
      b!"BEGIN { j = 0; while (match (j) { 2 => { break } _ => true }) { j++ } }" with
    | .syntaxErr _ => true | _ => false) = true := by decide +kernel

/-! ### instances of the hypotheses of the whole-loop theorems -/

def whileSrc : Bytes := b!"BEGIN { i = 0; while (i < 3) { print i; i++ } }"
def forSrc : Bytes := b!"BEGIN { for (i = 0; i < 5; i++) { if (i == 1) continue; if (i == 3) break; print i } }"
def forInSrc : Bytes := b!"BEGIN { for (x, i in [5, 6, 7]) { if (i == 2) break; print i, x } }"

/-- the state in which the `while` statement of `whileSrc` starts -/
def whileStart : St :=
  match evalStmt (demoProg whileSrc) 20 (firstStmt (demoBody whileSrc)) (demoStart whileSrc) with
  | .ok () s => s
  | _ => default
def whileCond : Expr :=
  match demoBody whileSrc with
  | .block _ (_ :: .while_ c _ :: _) => c
  | _ => .lit Token.zero
def whileBodyS : Stmt :=
  match demoBody whileSrc with
  | .block _ (_ :: .while_ _ b :: _) => b
  | st => st

/-- `fuel_irrelevant`, `while_sound`: the statement ends normally at fuel 30 (and at 300) -/
example : outOf (evalStmt (demoProg whileSrc) 30 (.while_ whileCond whileBodyS) whileStart)
    = some b!"0\n1\n2\n" := by decide +kernel
example : outOf (evalStmt (demoProg whileSrc) 300 (.while_ whileCond whileBodyS) whileStart)
    = some b!"0\n1\n2\n" := by decide +kernel

/-- `while_unrolled`, `while_k_iterations`: hence rounds as required by their hypotheses exist
    for this loop (three of them, then the final test) -/
example : ∃ r m k sk,
    Rounds (whileRoundAt (demoProg whileSrc) m whileCond whileBodyS) k whileStart sk ∧
    FinalRound (whileRoundAt (demoProg whileSrc) m whileCond whileBodyS) sk r :=
  ⟨_, (while_unrolled (demoProg whileSrc) whileCond whileBodyS whileStart _).mp
    ⟨30, rfl, ne_oof_of_isDone (by decide +kernel)⟩⟩

/-- `for_sound`: a `for` statement with `continue` and `break` ends normally -/
example : outOf (evalStmt (demoProg forSrc) 40 (firstStmt (demoBody forSrc)) (demoStart forSrc))
    = some b!"0\n2\n" := by decide +kernel

/-- `forIn_eq_fold`: the statement ends normally … -/
example : outOf (evalStmt (demoProg forInSrc) 41 (firstStmt (demoBody forInSrc)) (demoStart forInSrc))
    = some b!"0 5\n1 6\n" := by decide +kernel

/-- … and (`forIn_fold_complete`) the SPECIFICATION, run directly, gives the same output -/
example : (match firstStmt (demoBody forInSrc) with
    | .forIn id idx iter body =>
      outOf (forInStmt (evalExpr (demoProg forInSrc) 40) (evalStmt (demoProg forInSrc) 40) id idx iter body
        (demoStart forInSrc))
    | _ => none) = some b!"0 5\n1 6\n" := by decide +kernel

/-- `forIn_string_ascii` -/
example : ∀ b ∈ b!"hello, world", b < 0x80 := by decide

/-- `forIn_object_order_strict`: distinct keys -/
example : DistinctKeys [(b!"b", 1), (b!"a", 0), (b!"ab", 2)] := by
  simp only [DistinctKeys, List.pairwise_cons]; decide

/-- a parsed program satisfies `FnScoped` (hypothesis of `loop_statements_confine`, …) -/
example : (demoProg b!"function f(x) { while (x) { if (x > 3) break; x++ } return x } BEGIN { print f(1) }").FnScoped :=
  (wellScoped_of_B _ (by decide +kernel)).1

/-! ### `Leads`: a `break` under a conditional in a block, a `return` under a loop -/

def tkB : Token := ⟨.break_, 0, []⟩
def tkT : Token := ⟨.true_, 0, []⟩
def tk7 : Token := ⟨.num, 0, b!"7"⟩
def tkF : Token := ⟨.false_, 0, []⟩
def tk0 : Token := ⟨.num, 0, b!"0"⟩

/-- instances of the hypotheses of the one-step laws of Part 1.  `if_true`, `if_false_else`,
    `if_false_none`, `if_cond_error`: a condition that evaluates to a truthy value, to a falsy
    value, and one that fails (`7 % 0`) -/
example : (match evalExpr Program.empty 3 (.lit tkT) default, evalExpr Program.empty 3 (.lit tkF) default,
      evalExpr Program.empty 3 (.binary (.lit tk7) (.lit tk0) ⟨.percent, 0, []⟩) default with
    | .ok c1 s1, .ok c2 s2, .err (.runtime _ _) _ => (s1.heap.get c1).truthy && !(s2.heap.get c2).truthy
    | _, _, _ => false) = true := by decide +kernel
/-- `return_leaves_function`, `no_return_yields_null`, `next_exit_through_call`: bodies that end
    with `return` (return slot set), normally, and with `next`.  (The hypotheses of the
    `loopIter_…` laws are about an arbitrary `body : EM Unit` and hold e.g. for constant ones.) -/
example : (match evalStmt Program.empty 3 (.ret (some (.lit tk7))) default,
      evalStmt Program.empty 3 (.block tkB []) default, evalStmt Program.empty 3 (.next tkB) default with
    | .err (.sig .ret) s1, .ok () _, .err (.sig .next) _ => s1.returnVal.isSome
    | _, _, _ => false) = true := by decide +kernel
def stAfter {α : Type} : Res α → St
  | .ok _ s => s
  | .err _ s => s
  | .oof => default

/-- `{ if (true) { break } }` -/
def bodyB : Stmt := .block tkB [.if_ (.lit tkT) (.block tkB [.brk tkB]) none]
/-- the states after the loop test and after the test of the `if` -/
def sB1 : St := stAfter (evalExpr Program.empty 6 (.lit tkT) default)
def sB2 : St := stAfter (evalExpr Program.empty 3 (.lit tkT) sB1)

/-- (example) the body leads to its `break`: block, taken `if`, block -/
theorem leads_bodyB : Leads Program.empty false 6 (.stmt bodyB) sB1 1 (.brk tkB) sB2 :=
  Leads.block (Leads.blockHead (Leads.ifThen (cell := 1) (s1 := sB2)
    (by with_unfolding_all rfl) (by with_unfolding_all rfl) (Leads.block (Leads.blockHead Leads.here))))

/-- `while_break_innermost` (hence `break_ends_innermost_loop`) applied: `while (true) { if (true)
    { break } }` ends normally at its first `break`, in the state reached there -/
example : ∃ fr, evalStmt Program.empty 8 (.while_ (.lit tkT) bodyB) default
    = .ok () { sB2 with frames := fr } :=
  while_break_innermost Program.empty (cell := 0) (s1 := sB1)
    (by with_unfolding_all rfl) (by with_unfolding_all rfl) leads_bodyB

/-- `abnormal_end_propagates` on the same derivation -/
example : ∃ fr, evalStmt Program.empty 6 bodyB sB1 = .err (.sig .brk) { sB2 with frames := fr } :=
  abnormal_end_propagates Program.empty leads_bodyB (by with_unfolding_all rfl) (fun h => by cases h)

/-- `{ if (true) { continue } }` and `{ if (true) { next } }`: the same derivation -/
def bodyWith (inner : Stmt) : Stmt := .block tkB [.if_ (.lit tkT) (.block tkB [inner]) none]

/-- (example) the same path to an arbitrary innermost statement -/
theorem leads_bodyWith (inner : Stmt) :
    Leads Program.empty false 6 (.stmt (bodyWith inner)) sB1 1 inner sB2 :=
  Leads.block (Leads.blockHead (Leads.ifThen (cell := 1) (s1 := sB2)
    (by with_unfolding_all rfl) (by with_unfolding_all rfl) (Leads.block (Leads.blockHead Leads.here))))

/-- `continue_resumes_innermost_loop`, `for_continue_runs_post`: in `for (; true; 7) { if (true)
    { continue } }` the iteration goes on with the post-expression -/
example : ∃ fr, forLoop Program.empty 7 (.lit tkT) (.lit tk7) (bodyWith (.cont tkB)) default =
    (do let _ ← evalExpr Program.empty 6 (.lit tk7)
        forLoop Program.empty 6 (.lit tkT) (.lit tk7) (bodyWith (.cont tkB))) { sB2 with frames := fr } :=
  for_continue_runs_post Program.empty (cell := 0) (s1 := sB1)
    (by with_unfolding_all rfl) (by with_unfolding_all rfl) (leads_bodyWith (.cont tkB))

/-- `next_exit_from_any_nesting` -/
example : ∃ fr, evalStmt Program.empty 6 (bodyWith (.next tkB)) sB1 = .err (.sig .next) { sB2 with frames := fr } :=
  next_exit_from_any_nesting Program.empty .next (.next tkB) (.inl ⟨rfl, rfl⟩) (leads_bodyWith (.next tkB))

/-- `function f() { while (true) { if (true) { return 7 } } }` -/
def bodyR : Stmt :=
  .block tkB [.while_ (.lit tkT) (.block tkB [.if_ (.lit tkT) (.block tkB [.ret (some (.lit tk7))]) none])]
def fR : FuncDef := ⟨⟨.ident, 0, b!"f"⟩, [], bodyR⟩
def progR : Program := ⟨[], [fR]⟩
/-- the caller's state: cell 0 holds the function -/
def sR : St := { (default : St) with heap := ((default : St).heap.alloc (.fn 0)).2 }
def sRb : St := { sR with frames := ⟨fR.ident.text, []⟩ :: sR.frames,
                          maxDepth := max sR.maxDepth (sR.frames.length + 1) }
def sR1 : St := stAfter (evalExpr progR 7 (.lit tkT) sRb)
def sR2 : St := stAfter (evalExpr progR 4 (.lit tkT) sR1)
def sR3 : St := stAfter (evalExpr progR 1 (.lit tk7) sR2)

/-- (example) the function body leads to its `return`: block, first `while` iteration, block,
    taken `if`, block — one loop boundary crossed -/
theorem leads_bodyR : Leads progR true 11 (.stmt bodyR) sRb 2 (.ret (some (.lit tk7))) sR2 :=
  Leads.block (Leads.blockHead (Leads.while_ (Leads.whileBody (cell := 1) (s1 := sR1)
    (by with_unfolding_all rfl) (by with_unfolding_all rfl)
    (Leads.block (Leads.blockHead (Leads.ifThen (cell := 2) (s1 := sR2)
      (by with_unfolding_all rfl) (by with_unfolding_all rfl)
      (Leads.block (Leads.blockHead Leads.here))))))))

/-- `return_from_any_nesting` applied: the call ends at the `return`, inside `while` and `if` -/
example : callFunction progR 12 0 0 [] sR =
    .ok sR3.heap.cells.size
      { sR3 with returnVal := some 3, frames := sR.frames, heap := (sR3.heap.alloc (sR3.heap.get 3)).2 } :=
  return_from_any_nesting progR 11 1 0 0 0 [] fR sR sRb sR2 sR3 true (.lit tk7) 3
    (by with_unfolding_all rfl) (by with_unfolding_all rfl) (by with_unfolding_all decide)
    (by with_unfolding_all rfl) leads_bodyR (by with_unfolding_all rfl)

/-- … and the value is 7 -/
example : sR3.heap.get 3 = .num (F64.ofNat 7) := by with_unfolding_all decide +kernel

end examples

/-! # Part 3 (added after the statement review: REVIEW.md, C07)

* whole-`for` theorems for `break` and for propagation in iteration `k+1` (`for_break_at`,
  `for_propagates_at`): the analogues of `while_break_at` / `while_propagates_at`, which the
  file lacked — the clause "the for post-expression runs after each completed or continued
  iteration" (and NOT after `break`) for the whole statement;
* nested loops (`nested_loop_round`): a body in which every `break` / `continue` sits inside a
  nested loop never stops or continues the OUTER loop: the outer round goes on exactly when the
  body completes;
* concrete `Rounds 3` instances for `while` and `for` (the hypotheses of `while_k_iterations`,
  `for_k_iterations`, `for_break_at` are satisfiable), with the theorems applied to them. -/

section review
open Jqawk.Spec

/-- **`break` in iteration k+1 of a `for`** ends the statement normally in the very state `break`
    was raised in: after `init; (c; body; post)^k; c` the post-expression is NOT run again -/
theorem for_break_at (m k : Nat) (pre c post : Expr) (body : Stmt) (s s1 sk s2 s' : St)
    (x cell : CellId) (hpre : evalExpr prog m pre s = .ok x s1)
    (hk : Rounds (forRoundAt prog m c post body) k s1 sk)
    (hc : evalExpr prog m c sk = .ok cell s2) (ht : (s2.heap.get cell).truthy = true)
    (hb : evalStmt prog m body s2 = .err (.sig .brk) s') :
    Runs prog (.for_ pre c post body) s (.ok () s') := by
  refine for_complete prog m pre c post body s _ (.inl ⟨s1, ?_, ?_⟩)
  · simp only [effectOnly, bind, EM.bind, hpre, pure, EM.pure]
  · exact (repeats_iff_rounds _ _ _).mpr
      ⟨k, sk, hk, .inl ⟨s', for_break_skips_post prog m c post body sk s2 s' cell hc ht hb, rfl⟩⟩

/-- **propagation from iteration k+1 of a `for`**: `return`, `next`, `exit` or a runtime error
    in the body ends the statement with exactly that outcome and state (no post-expression) -/
theorem for_propagates_at (m k : Nat) (pre c post : Expr) (body : Stmt) (s s1 sk s2 s' : St)
    (x cell : CellId) (e : Err) (hpre : evalExpr prog m pre s = .ok x s1)
    (hk : Rounds (forRoundAt prog m c post body) k s1 sk)
    (hc : evalExpr prog m c sk = .ok cell s2) (ht : (s2.heap.get cell).truthy = true)
    (hb : evalStmt prog m body s2 = .err e s') (he : e ≠ .sig .brk ∧ e ≠ .sig .cont) :
    Runs prog (.for_ pre c post body) s (.err e s') := by
  refine for_complete prog m pre c post body s _ (.inl ⟨s1, ?_, ?_⟩)
  · simp only [effectOnly, bind, EM.bind, hpre, pure, EM.pure]
  · refine (repeats_iff_rounds _ _ _).mpr ⟨k, sk, hk, .inr ⟨e, s', ?_, rfl⟩⟩
    exact (forRound_err_iff _ _ _ _ _ _).mpr
      (.inr (.inl ⟨s2, (truthyOf_ok_iff _ _ _ _).mpr ⟨cell, hc, ht⟩, hb, he.1, he.2⟩))

/-- **nested loops: `break` / `continue` of an inner loop leave the outer loop alone.**  Let the
    body of `while (c) body` contain `break` / `continue` only inside nested loops (`canS`: the
    syntactic check through blocks, if/else and match bodies that stops at loop bodies — e.g. the
    body is itself a loop, or a block of loops and break-free statements).  Then in a round whose
    test holds, the outer loop is never ended by a `break` (the round never answers "stop"), it
    goes on exactly when the body completes, and it fails exactly when the body fails. -/
theorem nested_loop_round (hfs : prog.FnScoped) (m : Nat) (c : Expr) (body : Stmt) (s s1 : St)
    (cell : CellId) (hc : evalExpr prog m c s = .ok cell s1) (ht : (s1.heap.get cell).truthy = true)
    (hb : canS .brk body = false) (hcn : canS .cont body = false) :
    (∀ s2, whileRoundAt prog m c body s ≠ .ok false s2) ∧
    (∀ s2, whileRoundAt prog m c body s = .ok true s2 ↔ evalStmt prog m body s1 = .ok () s2) ∧
    (∀ e s2, whileRoundAt prog m c body s = .err e s2 ↔ evalStmt prog m body s1 = .err e s2) := by
  have hcond : truthyOf (evalExpr prog m c) s = .ok true s1 :=
    (truthyOf_ok_iff _ _ _ _).mpr ⟨cell, hc, ht⟩
  have nobrk := fun s2 => no_free_break_no_break prog hfs .brk (.inl rfl) m body hb s1 s2
  have nocont := fun s2 => no_free_break_no_break prog hfs .cont (.inr rfl) m body hcn s1 s2
  refine ⟨fun s2 h => ?_, fun s2 => ?_, fun e s2 => ?_⟩
  · rcases (whileRound_false_iff _ _ _ _).mp h with h | ⟨s1', h1, h2⟩
    · rw [hcond] at h; cases h
    · rw [hcond] at h1; cases h1; exact nobrk _ h2
  · unfold whileRoundAt
    rw [whileRound_true_iff]
    constructor
    · rintro ⟨s1', h1, h2 | h2⟩
      · rw [hcond] at h1; cases h1; exact h2
      · rw [hcond] at h1; cases h1; exact absurd h2 (nocont _)
    · intro h; exact ⟨s1, hcond, .inl h⟩
  · unfold whileRoundAt
    rw [whileRound_err_iff]
    constructor
    · rintro (h | ⟨s1', h1, h2, -, -⟩)
      · rw [hcond] at h; cases h
      · rw [hcond] at h1; cases h1; exact h2
    · intro h
      refine .inr ⟨s1, hcond, h, ?_, ?_⟩
      · rintro rfl; exact nobrk _ h
      · rintro rfl; exact nocont _ h

/-! ### concrete `Rounds 3` instances -/

def goesOn : Res Bool → Bool
  | .ok true _ => true
  | _ => false

theorem eq_of_goesOn {r : Res Bool} (h : goesOn r = true) : r = .ok true (stAfter r) := by
  cases r with
  | ok b s => cases b <;> first | rfl | cases h
  | err e s => cases h
  | oof => cases h

def cellOf : Res CellId → CellId
  | .ok c _ => c
  | _ => 0

def isOk {α : Type} : Res α → Bool
  | .ok _ _ => true
  | _ => false

theorem eq_of_isOk {r : Res CellId} (h : isOk r = true) : r = .ok (cellOf r) (stAfter r) := by
  cases r <;> first | rfl | cases h

/-- the round of `while (i < 3) { print i; i++ }` (fuel 20 inside the round) and the states after
    one, two, three rounds from the state in which the statement starts (`i = 0`) -/
def whileR : EM Bool := whileRoundAt (demoProg whileSrc) 20 whileCond whileBodyS
def w1 : St := stAfter (whileR whileStart)
def w2 : St := stAfter (whileR w1)
def w3 : St := stAfter (whileR w2)
def wEnd : St := stAfter (evalExpr (demoProg whileSrc) 20 whileCond w3)
def wCell : CellId := cellOf (evalExpr (demoProg whileSrc) 20 whileCond w3)

/-- a concrete `Rounds 3` for `while` -/
theorem while_rounds_3 : Rounds (whileRoundAt (demoProg whileSrc) 20 whileCond whileBodyS) 3 whileStart w3 :=
  .succ (s1 := w1) (eq_of_goesOn (r := whileR whileStart) (by decide +kernel))
    (.succ (s1 := w2) (eq_of_goesOn (r := whileR w1) (by decide +kernel))
      (.succ (s1 := w3) (eq_of_goesOn (r := whileR w2) (by decide +kernel)) .zero))

/-- `while_k_iterations` applied to it: the statement ends normally at fuel 30 in the state after
    the fourth test, having printed 0, 1, 2 -/
example : evalStmt (demoProg whileSrc) 30 (.while_ whileCond whileBodyS) whileStart = .ok () wEnd ∧
    wEnd.output = b!"0\n1\n2\n" :=
  ⟨while_k_iterations (demoProg whileSrc) 20 3 whileCond whileBodyS whileStart w3 wEnd wCell
    while_rounds_3 (eq_of_isOk (by decide +kernel)) (by decide +kernel) 30 (by omega),
   by decide +kernel⟩

/-- `for (i = 0; i < 3; i++) { if (i == 1) continue; print i }`: three rounds (the second one ends
    with `continue` and still runs `i++`), then the test fails -/
def for3Src : Bytes := b!"BEGIN { for (i = 0; i < 3; i++) { if (i == 1) continue; print i } }"

def forPre (src : Bytes) : Expr :=
  match firstStmt (demoBody src) with
  | .for_ pre _ _ _ => pre
  | _ => .lit Token.zero
def forCond (src : Bytes) : Expr :=
  match firstStmt (demoBody src) with
  | .for_ _ c _ _ => c
  | _ => .lit Token.zero
def forPost (src : Bytes) : Expr :=
  match firstStmt (demoBody src) with
  | .for_ _ _ post _ => post
  | _ => .lit Token.zero
def forBodyS (src : Bytes) : Stmt :=
  match firstStmt (demoBody src) with
  | .for_ _ _ _ b => b
  | st => st

def forR (src : Bytes) : EM Bool :=
  forRoundAt (demoProg src) 20 (forCond src) (forPost src) (forBodyS src)
def f0 (src : Bytes) : St := stAfter (evalExpr (demoProg src) 20 (forPre src) (demoStart src))
def f1 (src : Bytes) : St := stAfter (forR src (f0 src))
def f2 (src : Bytes) : St := stAfter (forR src (f1 src))
def f3 (src : Bytes) : St := stAfter (forR src (f2 src))
/-- the state after the fourth test -/
def fT (src : Bytes) : St := stAfter (evalExpr (demoProg src) 20 (forCond src) (f3 src))
def fCell (src : Bytes) : CellId := cellOf (evalExpr (demoProg src) 20 (forCond src) (f3 src))

/-- a concrete `Rounds 3` for `for` (with a `continue` in the second round) -/
theorem for_rounds_3 : Rounds (forRoundAt (demoProg for3Src) 20 (forCond for3Src) (forPost for3Src)
    (forBodyS for3Src)) 3 (f0 for3Src) (f3 for3Src) :=
  .succ (s1 := f1 for3Src) (eq_of_goesOn (r := forR for3Src (f0 for3Src)) (by decide +kernel))
    (.succ (s1 := f2 for3Src) (eq_of_goesOn (r := forR for3Src (f1 for3Src)) (by decide +kernel))
      (.succ (s1 := f3 for3Src) (eq_of_goesOn (r := forR for3Src (f2 for3Src)) (by decide +kernel)) .zero))

/-- `for_k_iterations` applied to it -/
example : Runs (demoProg for3Src) (.for_ (forPre for3Src) (forCond for3Src) (forPost for3Src) (forBodyS for3Src))
      (demoStart for3Src) (.ok () (fT for3Src)) ∧
    (fT for3Src).output = b!"0\n2\n" ∧
    (match firstStmt (demoBody for3Src) with | .for_ .. => true | _ => false) = true :=
  ⟨for_k_iterations (demoProg for3Src) 20 3 _ _ _ _ (demoStart for3Src) (f0 for3Src) (f3 for3Src) (fT for3Src)
    (cellOf (evalExpr (demoProg for3Src) 20 (forPre for3Src) (demoStart for3Src))) (fCell for3Src)
    (eq_of_isOk (by decide +kernel)) for_rounds_3 (eq_of_isOk (by decide +kernel)) (by decide +kernel),
   by decide +kernel, by decide +kernel⟩

/-- `forSrc` = `for (i = 0; i < 5; i++) { if (i == 1) continue; if (i == 3) break; print i }`:
    three rounds go on, the fourth ends with `break` -/
theorem for_rounds_3_break : Rounds (forRoundAt (demoProg forSrc) 20 (forCond forSrc) (forPost forSrc)
    (forBodyS forSrc)) 3 (f0 forSrc) (f3 forSrc) :=
  .succ (s1 := f1 forSrc) (eq_of_goesOn (r := forR forSrc (f0 forSrc)) (by decide +kernel))
    (.succ (s1 := f2 forSrc) (eq_of_goesOn (r := forR forSrc (f1 forSrc)) (by decide +kernel))
      (.succ (s1 := f3 forSrc) (eq_of_goesOn (r := forR forSrc (f2 forSrc)) (by decide +kernel)) .zero))

def isBrk : Res Unit → Bool
  | .err (.sig .brk) _ => true
  | _ => false

theorem eq_of_isBrk {r : Res Unit} (h : isBrk r = true) : r = .err (.sig .brk) (stAfter r) := by
  cases r with
  | ok a s => cases h
  | oof => cases h
  | err e s =>
    cases e with
    | sig g => cases g <;> first | rfl | cases h
    | _ => cases h

/-- `for_break_at` applied: the statement ends normally in the state `break` was raised in; `i` is
    still 3 there (the post-expression did not run after `break`) and 0, 2 were printed -/
example : Runs (demoProg forSrc) (.for_ (forPre forSrc) (forCond forSrc) (forPost forSrc) (forBodyS forSrc))
      (demoStart forSrc)
      (.ok () (stAfter (evalStmt (demoProg forSrc) 20 (forBodyS forSrc) (fT forSrc)))) ∧
    (stAfter (evalStmt (demoProg forSrc) 20 (forBodyS forSrc) (fT forSrc))).output = b!"0\n2\n" :=
  ⟨for_break_at (demoProg forSrc) 20 3 _ _ _ _ (demoStart forSrc) (f0 forSrc) (f3 forSrc) (fT forSrc) _
    (cellOf (evalExpr (demoProg forSrc) 20 (forPre forSrc) (demoStart forSrc))) (fCell forSrc)
    (eq_of_isOk (by decide +kernel)) for_rounds_3_break (eq_of_isOk (by decide +kernel)) (by decide +kernel)
    (eq_of_isBrk (by decide +kernel)),
   by decide +kernel⟩

/-- `nested_loop_round`: the hypotheses hold for the outer loop of
    `while (i < 2) { while (true) { j++; if (j > 1) break }; i++ }` — its body has no free
    `break` / `continue` although the inner loop breaks — and the program is `FnScoped` -/
def nestSrc : Bytes := b!"BEGIN { i = 0; j = 0; while (i < 2) { while (true) { j++; if (j > 1) break } i++ } print i, j }"
example : (match demoBody nestSrc with
      | .block _ (_ :: _ :: .while_ _ b :: _) => canS .brk b || canS .cont b
      | _ => true) = false ∧
    runOut nestSrc = some b!"2 3\n" := by decide +kernel
example : (demoProg nestSrc).FnScoped := (wellScoped_of_B _ (by decide +kernel)).1

end review

end Jqawk.C07
