/-
  C02 — rules run in awk order over every input shape, with `$`, `$index` and `$file` bound.
  Part 1: the schedule as one-step equations on the rule driver (src/evaluator.go EvalProgram,
  evalRules, evalPatternRules), valid for every program, state and input.
  Part 2: the WHOLE schedule — `runProgram` and every layer under it equal the executable
  specification `Spec/Schedule.lean` (`runProgram_eq_spec`, `evalRules_eq_spec`, …,
  `processFile_eq_spec`), and the clauses of the property as corollaries: BEGIN once first, END
  once last unless the run is over, per file / value / selector in the order given, per element
  in index order, `next` local to one element, `exit` final.
  Part 3: non-vacuity — concrete runs computed by the kernel with the model AND with the
  specification (and compared with the Go binary), and instances of the hypotheses.
-/
import Jqawk.Model.Driver
import Jqawk.Lemmas.ScheduleClauses

namespace Jqawk.C02
open Jqawk

variable (prog : Program)

/-! ### rules are partitioned by kind, source order preserved -/

theorem rules_partition_order (k : RuleKind) : (rulesOf prog k).Sublist prog.rules := by
  unfold rulesOf; exact List.filter_sublist

theorem rules_partition_mem (k : RuleKind) (r : Rule) :
    r ∈ rulesOf prog k ↔ r ∈ prog.rules ∧ r.kind = k := by
  unfold rulesOf; simp [List.mem_filter]

/-! ### one element: rules in source order, pattern test, `next` -/

theorem evalRules_done : evalRules prog [] = pure () := by simp [evalRules]

/-- a rule without a pattern always runs its body; then the remaining rules run … -/
theorem rule_without_pattern (rule : Rule) (rest : List Rule) (s s1 : St) (hp : rule.pattern = none)
    (hb : evalStmt prog evalFuel rule.body s = .ok () s1) :
    evalRules prog (rule :: rest) s = evalRules prog rest s1 := by
  conv => lhs; unfold evalRules
  simp [bind, EM.bind, hp, pure, EM.pure, catchSig, hb]

/-- … unless the body executed `next`, which abandons the remaining rules for this element only -/
theorem next_abandons_rest (rule : Rule) (rest : List Rule) (s s1 : St) (hp : rule.pattern = none)
    (hb : evalStmt prog evalFuel rule.body s = .err (.sig .next) s1) :
    evalRules prog (rule :: rest) s = .ok () s1 := by
  conv => lhs; unfold evalRules
  simp [bind, EM.bind, hp, pure, EM.pure, catchSig, hb]

/-- `exit` (and any error) in a body ends the rule list with that outcome -/
theorem exit_leaves_rules (rule : Rule) (rest : List Rule) (s s1 : St) (hp : rule.pattern = none)
    (e : Err) (he : e ≠ .sig .next) (hb : evalStmt prog evalFuel rule.body s = .err e s1) :
    evalRules prog (rule :: rest) s = .err e s1 := by
  conv => lhs; unfold evalRules
  cases e with
  | sig g => cases g <;> simp_all [bind, EM.bind, pure, EM.pure, catchSig]
  | _ => simp [bind, EM.bind, hp, pure, EM.pure, catchSig, hb]

/-- a rule whose pattern is falsy is skipped: its body does not run -/
theorem falsy_pattern_skips (rule : Rule) (rest : List Rule) (p : Expr) (s s1 : St) (c : CellId)
    (hp : rule.pattern = some p) (hc : evalExpr prog evalFuel p s = .ok c s1)
    (hf : (s1.heap.get c).truthy = false) :
    evalRules prog (rule :: rest) s = evalRules prog rest s1 := by
  conv => lhs; unfold evalRules
  simp [bind, EM.bind, hp, pure, EM.pure, catchSig, hc, readCell, hf]

/-- a rule whose pattern is truthy runs its body (in the state after the pattern) -/
theorem truthy_pattern_runs (rule : Rule) (rest : List Rule) (p : Expr) (s s1 s2 : St) (c : CellId)
    (hp : rule.pattern = some p) (hc : evalExpr prog evalFuel p s = .ok c s1)
    (ht : (s1.heap.get c).truthy = true)
    (hb : evalStmt prog evalFuel rule.body s1 = .ok () s2) :
    evalRules prog (rule :: rest) s = evalRules prog rest s2 := by
  conv => lhs; unfold evalRules
  simp [bind, EM.bind, hp, pure, EM.pure, catchSig, hc, readCell, ht, hb]

/-! ### the pattern rules over a root: once per element in index order, or exactly once -/

theorem evalElems_done (rules : List Rule) (i : Nat) : evalElems prog rules [] i = pure () := by
  simp [evalElems]

/-- element `i`: `$` is the element's own cell, `$index` a fresh cell holding `i`, then the rules,
    then the next element with `i + 1` -/
theorem evalElems_step (rules : List Rule) (item : CellId) (rest : List CellId) (i : Nat) :
    evalElems prog rules (item :: rest) i = (do
      modifySt fun s => { s with ruleRoot := some item }
      let ic ← newCell (.num (F64.ofNat i))
      setLocal b!"$index" ic
      evalRules prog rules
      evalElems prog rules rest (i + 1)) := by
  conv => lhs; unfold evalElems

/-- an array root: the elements captured at entry, from index 0 -/
theorem pattern_rules_array (rules : List Rule) (s : St) (root : CellId) (a : ArrId)
    (hr : s.root = some root) (ha : s.heap.get root = .arr a) :
    evalPatternRules prog rules s = evalElems prog rules (s.heap.arr a).toList 0 s := by
  simp [evalPatternRules, bind, EM.bind, getSt, hr, ha]

/-- any other root (object, scalar, null): exactly once, with `$` bound to the root -/
theorem pattern_rules_non_array (rules : List Rule) (s : St) (root : CellId)
    (hr : s.root = some root) (ha : ∀ a, s.heap.get root ≠ .arr a) :
    evalPatternRules prog rules s = evalRules prog rules { s with ruleRoot := some root } := by
  simp only [evalPatternRules, bind, EM.bind, getSt, hr]
  cases hg : s.heap.get root <;> simp_all [modifySt]

/-! ### one value: BEGINFILE, pattern rules, ENDFILE -/

/-- BEGINFILE rules see the root cell itself as `$`; `exit` there ends everything -/
theorem beginfile_exit (rootCell : CellId) (s s1 : St)
    (h : evalSpecialRules prog (pure rootCell) (rulesOf prog .beginFile) s = .ok .exit s1) :
    processRoot prog rootCell s = .ok .exit s1 := by
  simp only [processRoot, bind, EM.bind, readCell, h]
  rfl

/-- otherwise the pattern rules run on that root, and then the ENDFILE rules, each with `$` a
    fresh cell holding the root value as selected (taken before the BEGINFILE rules ran) -/
theorem processRoot_order (rootCell : CellId) (s s1 s2 : St)
    (hb : evalSpecialRules prog (pure rootCell) (rulesOf prog .beginFile) s = .ok .continue_ s1)
    (hp : evalPatternRules prog (rulesOf prog .pattern) { s1 with root := some rootCell } = .ok () s2) :
    processRoot prog rootCell s =
      evalSpecialRules prog (newCell (s.heap.get rootCell)) (rulesOf prog .endFile) s2 := by
  simp [processRoot, bind, EM.bind, readCell, hb, modifySt, catchExit, hp]

/-- `exit` in a pattern rule ends the run: ENDFILE rules do not run -/
theorem pattern_exit_skips_endfile (rootCell : CellId) (s s1 s2 : St)
    (hb : evalSpecialRules prog (pure rootCell) (rulesOf prog .beginFile) s = .ok .continue_ s1)
    (hp : evalPatternRules prog (rulesOf prog .pattern) { s1 with root := some rootCell }
            = .err (.sig .exit) s2) :
    processRoot prog rootCell s = .ok .exit s2 := by
  simp only [processRoot, bind, EM.bind, readCell, hb, modifySt, catchExit, hp]
  rfl

/-! ### special rules: `$` per rule, `next` finishes the rule, `exit` ends the run -/

theorem special_rule_next (mkRoot : EM CellId) (rule : Rule) (rest : List Rule) (s s1 s2 : St)
    (c : CellId) (hm : mkRoot s = .ok c s1)
    (hb : evalStmt prog evalFuel rule.body { s1 with ruleRoot := some c } = .err (.sig .next) s2) :
    evalSpecialRules prog mkRoot (rule :: rest) s = evalSpecialRules prog mkRoot rest s2 := by
  conv => lhs; unfold evalSpecialRules
  simp [bind, EM.bind, hm, modifySt, ruleFlow, hb]

theorem special_rule_exit (mkRoot : EM CellId) (rule : Rule) (rest : List Rule) (s s1 s2 : St)
    (c : CellId) (hm : mkRoot s = .ok c s1)
    (hb : evalStmt prog evalFuel rule.body { s1 with ruleRoot := some c } = .err (.sig .exit) s2) :
    evalSpecialRules prog mkRoot (rule :: rest) s = .ok .exit s2 := by
  conv => lhs; unfold evalSpecialRules
  simp [bind, EM.bind, hm, modifySt, ruleFlow, hb, pure, EM.pure]

/-! ### the whole run: BEGIN first, END last, `exit` ends it successfully at once -/

/-- BEGIN rules run before anything is read, with `$` a fresh null cell per rule; `exit` in BEGIN
    ends the run successfully: no input is read, END rules do not run -/
theorem begin_exit_ends_run (src : Bytes) (tbl : RuleTable) (sels : List Bytes)
    (files : List InputFile) (s : St)
    (h : evalSpecialRules prog (newCell (.nil none)) (rulesOf prog .begin_)
          (newEvaluator prog Heap.empty [] 0) = .ok .exit s) :
    (runProgram prog src tbl sels files).out = s.output ∧
    (match (runProgram prog src tbl sels files).outcome with | .ok => True | _ => False) := by
  simp [runProgram, finishRun, h]

/-- `exit` while processing input ends the run successfully without END rules -/
theorem input_exit_skips_end (src : Bytes) (tbl : RuleTable) (sels : List Bytes)
    (files : List InputFile) (s1 s2 : St)
    (hb : evalSpecialRules prog (newCell (.nil none)) (rulesOf prog .begin_)
          (newEvaluator prog Heap.empty [] 0) = .ok .continue_ s1)
    (hf : processFiles prog src tbl sels files s1 = .finished .ok s2) :
    (runProgram prog src tbl sels files).out = s2.output := by
  simp [runProgram, runFiles, finishRun, hb, hf]

/-- END rules run once after all input, in the state the input left -/
theorem end_after_all_input (src : Bytes) (tbl : RuleTable) (sels : List Bytes)
    (files : List InputFile) (s1 s2 s3 : St) (fl : Flow)
    (hb : evalSpecialRules prog (newCell (.nil none)) (rulesOf prog .begin_)
          (newEvaluator prog Heap.empty [] 0) = .ok .continue_ s1)
    (hf : processFiles prog src tbl sels files s1 = .done s2)
    (he : evalSpecialRules prog (newCell (.nil none)) (rulesOf prog .end_) s2 = .ok fl s3) :
    (runProgram prog src tbl sels files).out = s3.output := by
  simp [runProgram, runFiles, runEnd, finishRun, hb, hf, he]

/-- files are processed in the order given -/
theorem files_in_order (src : Bytes) (tbl : RuleTable) (sels : List Bytes) (f : InputFile)
    (rest : List InputFile) (s s1 : St)
    (h : processFile prog src tbl sels f (f.data.length + 2) f.data s = .done s1) :
    processFiles prog src tbl sels (f :: rest) s = processFiles prog src tbl sels rest s1 := by
  simp [processFiles, h]

/-! ## Part 2: the whole schedule

  `Spec/Schedule.lean` states the awk schedule as a short executable specification: a run is a
  sequence of primitive steps (test a pattern, execute a body, evaluate a selector, import a
  decoded value, bind `$` / `$index` / `$file`), given as parameters; the specification fixes
  their ORDER and the early-exit discipline (`next` is handled around the rules of one element,
  around the body of one special rule and around one selector; NOTHING handles the end of the
  run, so `exit` and errors end it from wherever they occur).  Below: the rule driver of the
  model — `runProgram` and every layer under it — EQUALS that specification with the model's
  evaluator plugged in (`modelPrims`), for every program, selector list and input; then the
  clauses of the property as corollaries. -/

section schedule
open Jqawk.Sched

variable (src : Bytes) (tbl : RuleTable)

/-! ### the model is the specification -/

/-- **The whole run.**  For every program, program text, rule table, selector list and list of
    input files the result of `runProgram` — outcome, output, final state — is the result of the
    schedule specification `runSpec`, unless the evaluator runs out of fuel, in which case BOTH
    say "out of fuel" (`Agree`).  Why not plain equality: on running out of fuel the model
    records a state that depends on the layer in which it happened (the state before the
    file's current value, or no state at all); the specification forgets it; "out of fuel" never
    counts as a result, so nothing is lost.  The decode loop's own fuel (`bytes + 2`) never runs
    out (`Sched.decodeOne_progress`: every decoded value consumes at least one byte). -/
theorem runProgram_eq_spec (sels : List Bytes) (files : List InputFile) :
    Agree (runProgram prog src tbl sels files)
      (runSpec (modelPrims prog src tbl) (rulesByKind prog) sels files
        (newEvaluator prog Heap.empty [] 0)) :=
  runProgram_agrees prog src tbl sels files

/-- … hence plain equality whenever the specification does not say "out of fuel" … -/
theorem runProgram_eq_spec_of_fuel (sels : List Bytes) (files : List InputFile)
    (h : (runSpec (modelPrims prog src tbl) (rulesByKind prog) sels files
            (newEvaluator prog Heap.empty [] 0)).outcome ≠ .oof) :
    runProgram prog src tbl sels files =
      runSpec (modelPrims prog src tbl) (rulesByKind prog) sels files
        (newEvaluator prog Heap.empty [] 0) :=
  eq_of_agree (runProgram_eq_spec prog src tbl sels files) h

/-- … and the two run out of fuel together -/
theorem out_of_fuel_together (sels : List Bytes) (files : List InputFile) :
    (runProgram prog src tbl sels files).outcome = .oof ↔
      (runSpec (modelPrims prog src tbl) (rulesByKind prog) sels files
        (newEvaluator prog Heap.empty [] 0)).outcome = .oof := by
  rcases runProgram_eq_spec prog src tbl sels files with h | h
  · rw [h]
  · exact ⟨fun _ => h.2, fun _ => h.1⟩

/-- layer 1, **one element**: `evalRules` = the rules in source order, each body iff its pattern
    is absent or truthy, `next` (from a pattern or a body) abandoning the rest (exact, all states) -/
theorem evalRules_eq_spec (rules : List Rule) :
    lift src (evalRules prog rules) = runRulesSpec (modelPrims prog src tbl) rules :=
  Sched.evalRules_eq_spec prog src tbl rules

/-- layer 2, **the elements**: the per-element loop = `each` over the cells with their positions,
    counting from `i` -/
theorem evalElems_eq_spec (rules : List Rule) (cells : List CellId) (i : Nat) :
    lift src (evalElems prog rules cells i) =
      each (cells.zipIdx i) (elementSpec (modelPrims prog src tbl) rules) :=
  Sched.evalElems_eq_spec prog src tbl rules cells i

/-- … and `evalPatternRules` on the root being processed = `elementsSpec` -/
theorem evalPatternRules_eq_spec (rules : List Rule) (root : CellId) (s : St)
    (hr : s.root = some root) :
    lift src (evalPatternRules prog rules) s =
      elementsSpec (modelPrims prog src tbl) rules root s :=
  Sched.evalPatternRules_eq_spec prog src tbl rules root s hr

/-- layer 3, **BEGIN / END / BEGINFILE / ENDFILE rules**: source order, `$` per rule, `next`
    finishes the rule, `exit` is the end of the run (`liftFlow` reads `Flow.exit` so) -/
theorem evalSpecialRules_eq_spec (mk : EM CellId) (rules : List Rule) :
    liftFlow src (evalSpecialRules prog mk rules) =
      specialSpec (modelPrims prog src tbl) (lift src mk) rules :=
  Sched.evalSpecialRules_eq_spec prog src tbl mk rules

/-- layer 4, **one root**: BEGINFILE rules, pattern rules, ENDFILE rules -/
theorem processRoot_eq_spec (root : CellId) :
    liftFlow src (processRoot prog root) =
      rootSpec (modelPrims prog src tbl) (rulesByKind prog) root :=
  Sched.processRoot_eq_spec prog src tbl root

theorem processRoots_eq_spec (roots : List CellId) :
    liftFlow src (processRoots prog roots) =
      each roots (rootSpec (modelPrims prog src tbl) (rulesByKind prog)) :=
  Sched.processRoots_eq_spec prog src tbl roots

/-- layer 5, **the roots of a value**: one per selector, in the order given -/
theorem evalSelectors_eq_spec (v : JVal) (sels : List Bytes) (s : St) :
    ofRoots (evalSelectors tbl v sels [] s) = selectAll (modelPrims prog src tbl) v sels s := by
  rw [Sched.evalSelectors_eq_spec prog src tbl]
  simp only [List.reverse_nil, List.nil_append, Sched.bind_pure]

/-- layer 6, **one file**: the values of the stream in order, each as `valueSpec` says; a fault
    in the stream is a JSON error naming the file, after the values before it -/
theorem processFile_eq_spec (sels : List Bytes) (file : InputFile) (s : St) :
    ofStep (processFile prog src tbl sels file (file.data.length + 2) file.data s) =
      fileSpec (modelPrims prog src tbl) (rulesByKind prog) sels file s :=
  Sched.processFile_eq_spec prog src tbl sels file s

/-- layer 7, **the files**: in the order given -/
theorem processFiles_eq_spec (sels : List Bytes) (files : List InputFile) (s : St) :
    ofStep (processFiles prog src tbl sels files s) =
      each files (fileSpec (modelPrims prog src tbl) (rulesByKind prog) sels) s :=
  Sched.processFiles_eq_spec prog src tbl sels files s

/-- the values of a stream, fuel-free: decode one value, the rest of the stream follows; every
    value consumes at least one byte, so the fuel inside `valuesOf` never runs out -/
theorem stream_values (name data : Bytes) (t : Json.Tail) :
    valuesOf ⟨name, data, t⟩ =
      (match Json.decodeOne numOk data t with
       | .eof => ([], true)
       | .error | .needMore => ([], false)
       | .value v rest => (v :: (valuesOf ⟨name, rest, t⟩).1, (valuesOf ⟨name, rest, t⟩).2)) :=
  valuesOf_unfold name data t

/-! ### the clauses of the property -/

/-- the cell `$` denotes in BEGIN and END rules: a fresh one per rule, holding null -/
theorem begin_end_dollar_null (s : St) :
    ∃ c s', (modelPrims prog src tbl).fresh (.nil none) s = .fine c s' ∧
      s'.heap.get c = .nil none :=
  ⟨_, _, rfl, Heap.get_push_new _ _⟩

/-- **BEGIN rules run once, first.**  The schedule starts, from the initial state of the
    evaluator — no input read, no rule run —, with the BEGIN rules in source order
    (`specialSpec` = `each`; `rules_partition_order`).  If they complete, every one of them was
    started exactly once, and everything else — all input, the END rules — runs afterwards, from
    the state they left (`rest` does not mention the BEGIN rules: they never run again). -/
theorem begin_runs_once_first (sels : List Bytes) (files : List InputFile) (s1 : St)
    (hb : specialSpec (modelPrims prog src tbl) ((modelPrims prog src tbl).fresh (.nil none))
            (rulesOf prog .begin_) (newEvaluator prog Heap.empty [] 0) = .fine () s1) :
    started (specialRuleSpec (modelPrims prog src tbl) ((modelPrims prog src tbl).fresh (.nil none)))
        (rulesOf prog .begin_) (newEvaluator prog Heap.empty [] 0) = rulesOf prog .begin_ ∧
    Agree (runProgram prog src tbl sels files)
      (report ((do
        each files (fileSpec (modelPrims prog src tbl) (rulesByKind prog) sels)
        specialSpec (modelPrims prog src tbl) ((modelPrims prog src tbl).fresh (.nil none))
          (rulesOf prog .end_) : Run Unit) s1)) := by
  refine ⟨started_all _ _ _ _ hb, ?_⟩
  have h := runProgram_eq_spec prog src tbl sels files
  unfold runSpec at h
  rw [scheduleSpec_def, bind_fine (show specialSpec _ _ (rulesByKind prog).begin_ _ = _ from hb)] at h
  exact h

/-- … and if a BEGIN rule ends the run (`exit`: `o = .ok`; or an error), that is the result: no
    input is read, no END rule runs (neither `files` nor the END rules occur on the right) -/
theorem begin_ends_run (sels : List Bytes) (files : List InputFile) (o : Outcome) (s1 : St)
    (ho : o ≠ .oof)
    (hb : specialSpec (modelPrims prog src tbl) ((modelPrims prog src tbl).fresh (.nil none))
            (rulesOf prog .begin_) (newEvaluator prog Heap.empty [] 0) = .over o s1) :
    runProgram prog src tbl sels files = finishRun o s1 :=
  runProgram_of_over prog src tbl sels files o s1 ho
    (schedule_over_begin _ (rulesByKind prog) sels files _ s1 o hb)

/-- **END rules run once, last — unless the run is over.**  When the BEGIN rules and all the
    input completed (`s2` = the state they left), the run is exactly what the END rules, in
    source order from `s2`, leave: each at most once (`started_prefix`), all of them exactly once
    if they complete (`started_all`), and nothing runs after them. -/
theorem end_runs_once_last (sels : List Bytes) (files : List InputFile) (s1 s2 : St)
    (hb : specialSpec (modelPrims prog src tbl) ((modelPrims prog src tbl).fresh (.nil none))
            (rulesOf prog .begin_) (newEvaluator prog Heap.empty [] 0) = .fine () s1)
    (hin : each files (fileSpec (modelPrims prog src tbl) (rulesByKind prog) sels) s1 = .fine () s2) :
    Agree (runProgram prog src tbl sels files)
      (report (specialSpec (modelPrims prog src tbl) ((modelPrims prog src tbl).fresh (.nil none))
        (rulesOf prog .end_) s2)) := by
  have h := runProgram_eq_spec prog src tbl sels files
  unfold runSpec at h
  rw [schedule_end_last _ (rulesByKind prog) sels files _ s1 s2 hb hin] at h
  exact h

/-- **… unless `exit`**: when the input ends the run — `exit` anywhere in it (`o = .ok`), or an
    error — the run ends there: the END rules do not run (they do not occur on the right; the
    output is what had been written in `s2`) -/
theorem end_skipped_when_over (sels : List Bytes) (files : List InputFile) (o : Outcome) (s1 s2 : St)
    (ho : o ≠ .oof)
    (hb : specialSpec (modelPrims prog src tbl) ((modelPrims prog src tbl).fresh (.nil none))
            (rulesOf prog .begin_) (newEvaluator prog Heap.empty [] 0) = .fine () s1)
    (hin : each files (fileSpec (modelPrims prog src tbl) (rulesByKind prog) sels) s1 = .over o s2) :
    runProgram prog src tbl sels files = finishRun o s2 := by
  apply runProgram_of_over prog src tbl sels files o s2 ho
  rw [scheduleSpec_def, bind_fine (show specialSpec _ _ (rulesByKind prog).begin_ _ = _ from hb),
    bind_over _ hin]

/-- **END rules once, last, unless `exit`** — the two cases in one statement: after the BEGIN
    rules, whatever the input does decides: if it completes (`s2`), the run is what the END rules
    leave from `s2`; if it ends the run (`exit`: `o = .ok`, or an error) in `s2`, that is the
    result and the END rules do not run -/
theorem end_runs_once_last_unless_exit (sels : List Bytes) (files : List InputFile) (s1 : St)
    (hb : specialSpec (modelPrims prog src tbl) ((modelPrims prog src tbl).fresh (.nil none))
            (rulesOf prog .begin_) (newEvaluator prog Heap.empty [] 0) = .fine () s1) :
    match each files (fileSpec (modelPrims prog src tbl) (rulesByKind prog) sels) s1 with
    | .fine () s2 =>
      Agree (runProgram prog src tbl sels files)
        (report (specialSpec (modelPrims prog src tbl) ((modelPrims prog src tbl).fresh (.nil none))
          (rulesOf prog .end_) s2))
    | .over o s2 => o ≠ .oof → runProgram prog src tbl sels files = finishRun o s2
    | _ => True := by
  cases hin : each files (fileSpec (modelPrims prog src tbl) (rulesByKind prog) sels) s1 with
  | fine u s2 => exact end_runs_once_last prog src tbl sels files s1 s2 hb hin
  | over o s2 => exact fun ho => end_skipped_when_over prog src tbl sels files o s1 s2 ho hb hin
  | next s2 => trivial
  | oof => trivial

/-- **Array root: once per element, in index order, `$` = the element, `$index` = its
    position.**  The pass over an array root is `each` over the element cells the array holds
    when the pass starts, paired with their positions 0, 1, 2, … — so the elements for which the
    rules were started form an initial segment of that list (index order, each at most once), and
    all of it if the pass completed. -/
theorem elements_in_index_order (rules : List Rule) (s : St) (root : CellId) (a : ArrId)
    (hr : s.root = some root) (ha : s.heap.get root = .arr a) :
    lift src (evalPatternRules prog rules) s =
      each (s.heap.arr a).toList.zipIdx (elementSpec (modelPrims prog src tbl) rules) s ∧
    started (elementSpec (modelPrims prog src tbl) rules) (s.heap.arr a).toList.zipIdx s
      <+: (s.heap.arr a).toList.zipIdx ∧
    (∀ s', lift src (evalPatternRules prog rules) s = .fine () s' →
      started (elementSpec (modelPrims prog src tbl) rules) (s.heap.arr a).toList.zipIdx s
        = (s.heap.arr a).toList.zipIdx) := by
  have he : lift src (evalPatternRules prog rules) s =
      each (s.heap.arr a).toList.zipIdx (elementSpec (modelPrims prog src tbl) rules) s := by
    rw [evalPatternRules_eq_spec prog src tbl rules root s hr]
    apply elementsSpec_array
    rw [elements_model, ha]
  exact ⟨he, started_prefix _ _ _, fun s' h => started_all _ _ _ s' (he ▸ h)⟩

/-- … with, for the element `cell` at position `i`: `$` denoting the element's own cell and
    `$index` resolving to a cell that holds `i`, when its rules start -/
theorem element_dollar_and_index (rules : List Rule) (cell : CellId) (i : Nat) (s : St)
    (f : Frame) (fs : List Frame) (hf : s.frames = f :: fs) :
    ∃ s', elementSpec (modelPrims prog src tbl) rules (cell, i) s =
        runRulesSpec (modelPrims prog src tbl) rules s' ∧
      s'.ruleRoot = some cell ∧
      ∃ ic, lookupFrames s'.frames b!"$index" = some ic ∧ s'.heap.get ic = .num (F64.ofNat i) := by
  obtain ⟨s', h, hrr, hidx⟩ := element_bindings prog src tbl cell i s f fs hf
  refine ⟨s', ?_, hrr, hidx⟩
  rw [elementSpec_def, ← Sched.bind_assoc, bind_fine h]

/-- **Any other root: exactly once, `$` = the root** -/
theorem other_root_once (rules : List Rule) (s : St) (root : CellId)
    (hr : s.root = some root) (ha : ∀ a, s.heap.get root ≠ .arr a) :
    lift src (evalPatternRules prog rules) s =
      runRulesSpec (modelPrims prog src tbl) rules { s with ruleRoot := some root } := by
  rw [evalPatternRules_eq_spec prog src tbl rules root s hr]
  have he : (modelPrims prog src tbl).elements root s = .fine none s := by
    rw [elements_model]
    cases hg : s.heap.get root <;> first | rfl | exact absurd hg (ha _)
  rw [elementsSpec_other _ rules root s s he]
  rfl

/-- **Each root selector, in the order given, per value.**  With selectors, the roots of a
    decoded value are selected by evaluating the selectors in the order given (`SelectsTo`: one
    root per selector, in selector order; a selector that executes `next` contributes none) —
    all of them before any rule runs for this value —, and then the roots are processed in that
    order (`valueSpec` = `$file`, the roots, `each roots rootSpec`). -/
theorem selectors_in_order_per_value (sels : List Bytes) (hsels : sels ≠ []) (file : InputFile)
    (v : JVal) (s s' : St) (roots : List CellId) :
    (rootsSpec (modelPrims prog src tbl) sels v s = .fine roots s' ↔
      SelectsTo (modelPrims prog src tbl) v sels s roots s') ∧
    valueSpec (modelPrims prog src tbl) (rulesByKind prog) sels file v =
      (do (modelPrims prog src tbl).setFile file.name
          let roots ← rootsSpec (modelPrims prog src tbl) sels v
          each roots (rootSpec (modelPrims prog src tbl) (rulesByKind prog))) := by
  refine ⟨?_, rfl⟩
  unfold rootsSpec
  have : sels.isEmpty = false := by cases sels <;> simp_all
  simp only [this, Bool.false_eq_true, ↓reduceIte]
  exact selectAll_fine_iff _ v sels s s' roots

/-- without selectors the value itself is the one root -/
theorem no_selector_one_root (v : JVal) :
    rootsSpec (modelPrims prog src tbl) [] v =
      (do let c ← (modelPrims prog src tbl).load v; pure [c]) := rfl

/-- **`$file` names the current file**: in a state with a single frame, `setFile name` (the first
    step of `valueSpec`) binds `$file` to a cell holding `name`.  (That the driver only calls it
    in single-frame states is not proved in this file; the initial state is one: example below.) -/
theorem file_named (name : Bytes) (s : St) (f : Frame) (hf : s.frames = [f]) :
    ∃ s', (modelPrims prog src tbl).setFile name s = .fine () s' ∧
      ∃ c, lookupFrames s'.frames b!"$file" = some c ∧ s'.heap.get c = .str name none :=
  file_binding prog src tbl name s f hf

/-- **A rule without a body prints `$`.**  The parser gives such a rule the body `print` without
    arguments (src/parser.go:895-905; see the example at the end), and that statement writes the
    rendering of the cell `$` denotes, and a newline -/
theorem bodyless_rule_prints_dollar (n : Nat) (t : Token) (s : St) :
    evalStmt prog (n + 2) (.print t []) s =
      (match s.ruleRoot with
       | none => throwPanic "print without a rule root" s
       | some c =>
         match prettyTop s.heap (s.heap.get c) with
         | none => .oof
         | some r => emit (r ++ [10]) s) := by
  simp only [evalStmt, evalExprList, bind, EM.bind, pure, EM.pure, getSt, List.isEmpty_nil, ↓reduceIte]
  cases s.ruleRoot with
  | none => rfl
  | some c =>
    simp only
    cases prettyTop s.heap (s.heap.get c) <;> rfl

/-- **`next` abandons the remaining rules for that element only.**  Element `cell` at position
    `i`; the rules `pre` complete, rule `r` executes `next` (in its pattern or its body): the
    rules `post` — arbitrary — do not run for this element, and the pass goes on with the next
    element (`cells`, position `i + 1`), for which all the rules run again, from the state in
    which `next` was executed. -/
theorem next_affects_one_element (pre post : List Rule) (r : Rule) (cell : CellId) (i : Nat)
    (cells : List CellId) (s s1 s2 : St)
    (hpre : (do (modelPrims prog src tbl).setDollar cell
                (modelPrims prog src tbl).setIndex i
                each pre (ruleSpec (modelPrims prog src tbl)) : Run Unit) s = .fine () s1)
    (hr : ruleSpec (modelPrims prog src tbl) r s1 = .next s2) :
    lift src (evalElems prog (pre ++ r :: post) (cell :: cells) i) s =
      lift src (evalElems prog (pre ++ r :: post) cells (i + 1)) s2 := by
  rw [evalElems_eq_spec, evalElems_eq_spec, List.zipIdx_cons]
  apply each_fine_step
  rw [elementSpec_def]
  -- the setup steps end normally (otherwise `hpre` could not hold)
  simp only [bind_def] at hpre ⊢
  cases hd : (modelPrims prog src tbl).setDollar cell s with
  | fine u sa =>
    rw [hd] at hpre
    simp only at hpre ⊢
    cases hi : (modelPrims prog src tbl).setIndex i sa with
    | fine u sb =>
      rw [hi] at hpre
      simp only at hpre ⊢
      exact rules_next _ pre post r sb s1 s2 hpre hr
    | next _ => rw [hi] at hpre; cases hpre
    | over _ _ => rw [hi] at hpre; cases hpre
    | oof => rw [hi] at hpre; cases hpre
  | next _ => rw [hd] at hpre; cases hpre
  | over _ _ => rw [hd] at hpre; cases hpre
  | oof => rw [hd] at hpre; cases hpre

/-- `next` in the body of a rule whose pattern is absent is such a `next` … -/
theorem next_in_body (r : Rule) (s1 s2 : St) (hp : r.pattern = none)
    (hb : evalStmt prog evalFuel r.body s1 = .err (.sig .next) s2) :
    ruleSpec (modelPrims prog src tbl) r s1 = .next s2 := by
  rw [ruleSpec_model, hp]
  simp only [lift_def, hb]

/-- … and `exit` in such a body is the end of the run -/
theorem exit_in_body (r : Rule) (s1 s2 : St) (hp : r.pattern = none)
    (hb : evalStmt prog evalFuel r.body s1 = .err (.sig .exit) s2) :
    ruleSpec (modelPrims prog src tbl) r s1 = .over .ok s2 := by
  rw [ruleSpec_model, hp]
  simp only [lift_def, hb]

/-- **`exit` ends the whole run immediately and successfully.**  If anywhere in the schedule a
    step ends the run with `exit` — the schedule is `over .ok` in the state `s'` in which `exit`
    was executed —, the run reports success and its final state IS `s'`: its output is exactly
    what had been written at that moment; no further rule ran, END included.  (That the end of
    the run at any position of any layer makes the whole schedule `over` there is
    `exit_propagates` below.) -/
theorem exit_runs_nothing_more (sels : List Bytes) (files : List InputFile) (s' : St)
    (h : scheduleSpec (modelPrims prog src tbl) (rulesByKind prog) sels files
          (newEvaluator prog Heap.empty [] 0) = .over .ok s') :
    runProgram prog src tbl sels files = finishRun .ok s' :=
  runProgram_of_over prog src tbl sels files .ok s' (by intro h'; cases h') h

/-- `next` never reaches the top of the schedule (it is handled around the rules of one element,
    around one special rule's body, around one selector): the run never reports it — the `next`
    line of `report` is dead, for every program -/
theorem next_never_escapes (sels : List Bytes) (files : List InputFile) (s s' : St) :
    scheduleSpec (modelPrims prog src tbl) (rulesByKind prog) sels files s ≠ .next s' :=
  schedule_never_next prog src tbl sels files s s'

/-- the end of the run (`exit`, or an error) propagates through every layer of the schedule,
    for ANY primitive steps: whatever would follow — later rules for the element (`postR`),
    later elements, ENDFILE rules, later roots, later values, a later stream fault, later files
    (`postF`), END rules — does not run.  Here for `exit` (or an error) in pattern rule `r` on a
    non-array root (`elements` = none) that is the `k`-th root of the value `v`, a value of file
    `f`; all the "post" lists are arbitrary and do not occur in the result. -/
theorem exit_propagates (P : Prims) (R : RuleSets) (sels : List Bytes) (o : Outcome)
    -- the position
    (preF postF : List InputFile) (f : InputFile)
    (preV postV : List JVal) (v : JVal) (clean : Bool) (hvals : P.values f = (preV ++ v :: postV, clean))
    (preRoots postRoots : List CellId) (root : CellId)
    (preR postR : List Rule) (r : Rule) (hrules : R.pattern = preR ++ r :: postR)
    -- the states passed through
    (s0 s1 s2 s3 s4 s5 s6 s7 s8 s9 s10 s11 s12 : St) (val : Val)
    (hbegin : specialSpec P (P.fresh (.nil none)) R.begin_ s0 = .fine () s1)
    (hfiles : each preF (fileSpec P R sels) s1 = .fine () s2)
    (hvalues : each preV (valueSpec P R sels f) s2 = .fine () s3)
    (hfile : P.setFile f.name s3 = .fine () s4)
    (hroots : rootsSpec P sels v s4 = .fine (preRoots ++ root :: postRoots) s5)
    (hpreRoots : each preRoots (rootSpec P R) s5 = .fine () s6)
    (hread : P.read root s6 = .fine val s7)
    (hbf : specialSpec P (pure root) R.beginFile s7 = .fine () s8)
    (hsetRoot : P.setRoot root s8 = .fine () s9)
    (hel : P.elements root s9 = .fine none s10)
    (hdollar : P.setDollar root s10 = .fine () s11)
    (hpreR : each preR (ruleSpec P) s11 = .fine () s12)
    (s' : St) (hexit : ruleSpec P r s12 = .over o s') :
    scheduleSpec P R sels (preF ++ f :: postF) s0 = .over o s' := by
  apply schedule_over_input P R sels preF postF f s0 s1 s2 s' o hbegin hfiles
  apply file_over P R sels f preV postV v clean hvals s2 s3 s' o hvalues
  apply value_over P R sels f v preRoots postRoots root s3 s4 s5 s6 s' o hfile hroots hpreRoots
  apply root_over_pattern P R root s6 s7 s8 s9 s' val o hread hbf hsetRoot
  rw [elementsSpec_other P R.pattern root s9 s10 hel, bind_fine hdollar, hrules]
  exact rules_over P preR postR r s11 s12 s' o hpreR hexit

end schedule

/-! ## Non-vacuity: concrete runs (several files, JSON Lines, selectors, `next`, `exit`)

  Each run below is computed twice by the kernel — by the model's driver (`modelRun`) and by
  the schedule specification (`specRun`) — and compared with the output of the Go binary
  (built from the committed source) on the same program, selectors and files. -/

section examples
open Jqawk.Sched

/-- the program a source text parses to -/
def demo (src : Bytes) : Program :=
  match parseProgramSrc expectedRuleTable src with
  | .ok p => p
  | _ => Program.empty

/-- what a run reports: the kind of outcome and the output -/
def view (r : RunResult) : Bytes × Bytes :=
  (match r.outcome with
   | .ok => b!"ok"
   | .runtimeErr _ _ _ => b!"runtime error"
   | .jsonErr f => b!"json error in " ++ f
   | .syntaxErr _ _ => b!"syntax error"
   | _ => b!"other", r.out)

def modelRun (src : Bytes) (sels : List Bytes) (files : List InputFile) : Bytes × Bytes :=
  view (runProgram (demo src) src expectedRuleTable sels files)

def specRun (src : Bytes) (sels : List Bytes) (files : List InputFile) : Bytes × Bytes :=
  view (runSpec (modelPrims (demo src) src expectedRuleTable) (rulesByKind (demo src)) sels files
    (newEvaluator (demo src) Heap.empty [] 0))

/-- every kind of rule twice or more, in mixed order of kinds is exercised by `progX` below; here:
    two BEGIN, one BEGINFILE, three pattern rules (one with a pattern, one with `next`), one
    ENDFILE, two END rules -/
def progA : Bytes := b!"BEGIN { print \"B1\", $ } BEGIN { print \"B2\" } BEGINFILE { print \"bf\", $file, $ } $ > 1 { print \"hit\", $index, $ } { if ($ == 3) next; print \"r2\", $ } { print \"r3\", $ } ENDFILE { print \"ef\", $ } END { print \"E1\", $ } END { print \"E2\" }"

/-- two files; the first holds two JSON values (an array, then a scalar), the second an EMPTY
    array and a scalar -/
def filesA : List InputFile := [⟨b!"a", b!"[1,3] 2", .eof⟩, ⟨b!"b", b!"[]  7", .eof⟩]

def outA : Bytes := b!"B1 null\nB2\nbf a [1, 3]\nr2 1\nr3 1\nhit 1 3\nef [1, 3]\nbf a 2\nhit 1 2\nr2 2\nr3 2\nef 2\nbf b []\nef []\nbf b 7\nhit 1 7\nr2 7\nr3 7\nef 7\nE1 null\nE2\n"

/-- BEGIN once first (`$` null), per file / value: BEGINFILE (`$` the root, `$file`), pattern
    rules per element in index order (`$index`) or once, `next` for one element, ENDFILE; an
    empty array root runs no pattern rule; END once last — model and specification agree with Go -/
example : modelRun progA [] filesA = (b!"ok", outA) := by decide +kernel
example : specRun progA [] filesA = (b!"ok", outA) := by decide +kernel

/-- … and with two root selectors: per value one root per selector, in the order given -/
def filesB : List InputFile :=
  [⟨b!"c", b!"{\"x\":[1,2],\"y\":7} {\"x\":3,\"y\":[4]}", .eof⟩, ⟨b!"d", b!"{\"x\":0,\"y\":[]}", .eof⟩]
def outB : Bytes := b!"B1 null\nB2\nbf c [1, 2]\nr2 1\nr3 1\nhit 1 2\nr2 2\nr3 2\nef [1, 2]\nbf c 7\nhit 1 7\nr2 7\nr3 7\nef 7\nbf c 3\nhit 1 3\nef 3\nbf c [4]\nhit 0 4\nr2 4\nr3 4\nef [4]\nbf d 0\nr2 0\nr3 0\nef 0\nbf d []\nef []\nE1 null\nE2\n"
example : modelRun progA [b!"$.x", b!"$.y"] filesB = (b!"ok", outB) := by decide +kernel
example : specRun progA [b!"$.x", b!"$.y"] filesB = (b!"ok", outB) := by decide +kernel

/-- `next` in the second of four pattern rules (element 2 only: elements 1 and 3 get all the
    rules); `exit` in the third rule on the first element of the second file: no further rule
    for that element, no further element, no ENDFILE rule, no further value, no END rule —
    and the run is a success -/
def progX : Bytes := b!"BEGIN { print \"B\" } { print \"r1\", $ } $ == 2 { next } $ == 4 { exit } { print \"r3\", $ } ENDFILE { print \"ef\" } END { print \"E\" }"
def filesX : List InputFile := [⟨b!"e", b!"[1,2,3]", .eof⟩, ⟨b!"f", b!"[4,5] 6", .eof⟩]
def outX : Bytes := b!"B\nr1 1\nr3 1\nr1 2\nr1 3\nr3 3\nef\nr1 4\n"
example : modelRun progX [] filesX = (b!"ok", outX) := by decide +kernel
example : specRun progX [] filesX = (b!"ok", outX) := by decide +kernel

/-- `exit` in the first BEGIN rule: nothing else runs -/
example : modelRun b!"BEGIN { print \"B\"; exit } BEGIN { print \"B2\" } { print } END { print \"E\" }" []
    [⟨b!"e", b!"[1,2,3]", .eof⟩] = (b!"ok", b!"B\n") := by decide +kernel

/-- `next` in a BEGIN rule just finishes that rule; `exit` in the first END rule skips the second -/
example : modelRun b!"BEGIN { print \"a\"; next; print \"b\" } BEGIN { print \"c\" } END { print \"E1\"; exit } END { print \"E2\" }" []
    [⟨b!"e", b!"[1,2,3]", .eof⟩] = (b!"ok", b!"a\nc\nE1\n") := by decide +kernel

/-- `next` in a root selector skips that root (no rule runs for the value 1), `exit` in a
    selector ends the run (value 2; the value 4 is never read, END does not run) -/
def selNX : Bytes := b!"match ($) { 1 => { next } 2 => { exit } x => x }"
example : modelRun b!"{ print \"v\", $ } END { print \"E\" }" [selNX] [⟨b!"g", b!"1 3 2 4", .eof⟩]
    = (b!"ok", b!"v 3\n") := by decide +kernel
example : specRun b!"{ print \"v\", $ } END { print \"E\" }" [selNX] [⟨b!"g", b!"1 3 2 4", .eof⟩]
    = (b!"ok", b!"v 3\n") := by decide +kernel

/-- a fault in the second file's stream: the values before it are processed, then the JSON
    error names that file; END does not run -/
example : modelRun b!"{ print \"v\", $ } END { print \"E\" }" []
    [⟨b!"e", b!"[1,2,3]", .eof⟩, ⟨b!"h", b!"[1] ] [2]", .eof⟩]
    = (b!"json error in h", b!"v 1\nv 2\nv 3\nv 1\n") := by decide +kernel
example : specRun b!"{ print \"v\", $ } END { print \"E\" }" []
    [⟨b!"e", b!"[1,2,3]", .eof⟩, ⟨b!"h", b!"[1] ] [2]", .eof⟩]
    = (b!"json error in h", b!"v 1\nv 2\nv 3\nv 1\n") := by decide +kernel

/-- a rule without a body prints `$` -/
example : (match (demo b!"$ > 1").rules with
    | [r] => (match r.pattern, r.body with
              | some _, .print _ [] => true
              | _, _ => false)
    | _ => false) = true := by decide +kernel
example : modelRun b!"$ > 1" [] [⟨b!"e", b!"[1,2,3]", .eof⟩] = (b!"ok", b!"2\n3\n") := by
  decide +kernel

/-- `stream_values`: the values of a JSON Lines stream, and a stream with a fault -/
example : ((valuesOf ⟨b!"f", b!"[4,5] 6", .eof⟩).1.length, (valuesOf ⟨b!"f", b!"[4,5] 6", .eof⟩).2)
    = (2, true) := by decide +kernel
example : ((valuesOf ⟨b!"h", b!"[1] ] [2]", .eof⟩).1.length, (valuesOf ⟨b!"h", b!"[1] ] [2]", .eof⟩).2)
    = (1, false) := by decide +kernel

/-! ### instances of the hypotheses of the theorems above -/

/-- observers on the end of a piece of the schedule (decidable, so that the kernel can check them) -/
def stOf {α : Type} : Ended α → St
  | .fine _ s => s
  | .next s => s
  | .over _ s => s
  | .oof => default
def valOf {α : Type} : Ended α → Option α
  | .fine a _ => some a
  | _ => none
def isFine {α : Type} : Ended α → Bool
  | .fine _ _ => true
  | _ => false
def isNext {α : Type} : Ended α → Bool
  | .next _ => true
  | _ => false
def isExit {α : Type} : Ended α → Bool
  | .over .ok _ => true
  | _ => false

theorem fine_of {r : Ended Unit} (h : isFine r = true) : r = .fine () (stOf r) := by
  cases r <;> first | rfl | cases h
theorem fineVal_of {α : Type} {r : Ended α} {a : α} (h : valOf r = some a) : r = .fine a (stOf r) := by
  cases r <;> first | (cases h; rfl) | cases h
theorem next_of {α : Type} {r : Ended α} (h : isNext r = true) : r = .next (stOf r) := by
  cases r <;> first | rfl | cases h
theorem exit_of {α : Type} {r : Ended α} (h : isExit r = true) : r = .over .ok (stOf r) := by
  cases r with
  | over o s => cases o <;> first | rfl | cases h
  | _ => cases h

theorem split_getD {α : Type} (l : List α) (k : Nat) (d : α) (h : k < l.length) :
    l = l.take k ++ l.getD k d :: l.drop (k + 1) := by
  induction l generalizing k with
  | nil => cases h
  | cons x xs ih =>
    cases k with
    | zero => rfl
    | succ k =>
      simp only [List.take_succ_cons, List.drop_succ_cons, List.cons_append, List.getD_cons_succ]
      rw [← ih k (by simpa using h)]

/-- `progX` with its primitive steps, rule sets and initial state -/
def PX : Prims := modelPrims (demo progX) progX expectedRuleTable
def RX : RuleSets := rulesByKind (demo progX)
def initX : St := newEvaluator (demo progX) Heap.empty [] 0
/-- the state after the BEGIN rules of `progX` -/
def afterBeginX : St := stOf (specialSpec PX (PX.fresh (.nil none)) (rulesOf (demo progX) .begin_) initX)

/-- `begin_runs_once_first`: the BEGIN rules of `progX` complete -/
example : specialSpec PX (PX.fresh (.nil none)) (rulesOf (demo progX) .begin_) initX
    = .fine () afterBeginX := fine_of (by decide +kernel)

/-- `begin_ends_run`: `exit` in a BEGIN rule ends the BEGIN rules with `over .ok` -/
example : ∃ s1, specialSpec (modelPrims (demo b!"BEGIN { print \"B\"; exit } BEGIN { print \"B2\" }")
      b!"BEGIN { print \"B\"; exit } BEGIN { print \"B2\" }" expectedRuleTable)
    ((modelPrims (demo b!"BEGIN { print \"B\"; exit } BEGIN { print \"B2\" }")
      b!"BEGIN { print \"B\"; exit } BEGIN { print \"B2\" }" expectedRuleTable).fresh (.nil none))
    (rulesOf (demo b!"BEGIN { print \"B\"; exit } BEGIN { print \"B2\" }") .begin_)
    (newEvaluator (demo b!"BEGIN { print \"B\"; exit } BEGIN { print \"B2\" }") Heap.empty [] 0)
    = .over .ok s1 := ⟨_, exit_of (by decide +kernel)⟩

/-- `end_runs_once_last`: all the input of `progX` on its first file alone completes -/
example : ∃ s2, each (filesX.take 1) (fileSpec PX RX []) afterBeginX = .fine () s2 :=
  ⟨_, fine_of (by decide +kernel)⟩

/-- `end_skipped_when_over`, `exit_runs_nothing_more`: on both files the input of `progX` ends
    the run with `exit`, and so does the whole schedule -/
example : ∃ s2, each filesX (fileSpec PX RX []) afterBeginX = .over .ok s2 :=
  ⟨_, exit_of (by decide +kernel)⟩
example : ∃ s', scheduleSpec PX RX [] filesX initX = .over .ok s' := ⟨_, exit_of (by decide +kernel)⟩

/-- a state in which the array root `[1, 2, 3]` is being processed … -/
def arrStateX : St :=
  stOf ((do let c ← PX.load (.arr [.num b!"1", .num b!"2", .num b!"3"]); PX.setRoot c : Run Unit) afterBeginX)
/-- … and one with the scalar root `7` -/
def numStateX : St := stOf ((do let c ← PX.load (.num b!"7"); PX.setRoot c : Run Unit) afterBeginX)

def isArr : Val → Bool
  | .arr _ => true
  | _ => false

/-- `elements_in_index_order`: its hypotheses hold in `arrStateX` -/
example : ∃ root a, arrStateX.root = some root ∧ arrStateX.heap.get root = .arr a := by
  have h : (match arrStateX.root with
      | some r => isArr (arrStateX.heap.get r)
      | none => false) = true := by decide +kernel
  cases hr : arrStateX.root with
  | none => rw [hr] at h; cases h
  | some r =>
    rw [hr] at h
    simp only at h
    cases hg : arrStateX.heap.get r with
    | arr a => exact ⟨r, a, rfl, hg⟩
    | _ => rw [hg] at h; cases h

/-- `other_root_once`: its hypotheses hold in `numStateX` -/
example : ∃ root, numStateX.root = some root ∧ ∀ a, numStateX.heap.get root ≠ .arr a := by
  have h : (match numStateX.root with
      | some r => !isArr (numStateX.heap.get r)
      | none => false) = true := by decide +kernel
  cases hr : numStateX.root with
  | none => rw [hr] at h; cases h
  | some r =>
    rw [hr] at h
    simp only at h
    refine ⟨r, rfl, fun a ha => ?_⟩
    rw [ha] at h
    cases h

/-- `element_dollar_and_index`, `file_named`: the driver's states have the single root frame -/
example : ∃ f, initX.frames = [f] := ⟨_, rfl⟩

/-- `selectors_in_order_per_value`: two selectors on one value select two roots, in order -/
example : ∃ r1 r2 s', rootsSpec PX [b!"$.x", b!"$.y"] (.obj [(b!"x", .num b!"1"), (b!"y", .num b!"2")])
    afterBeginX = .fine [r1, r2] s' := by
  have h : ((valOf (rootsSpec PX [b!"$.x", b!"$.y"]
      (.obj [(b!"x", .num b!"1"), (b!"y", .num b!"2")]) afterBeginX)).map List.length) = some 2 := by
    decide +kernel
  cases hr : rootsSpec PX [b!"$.x", b!"$.y"] (.obj [(b!"x", .num b!"1"), (b!"y", .num b!"2")]) afterBeginX with
  | fine roots s' =>
    rw [hr] at h
    match roots, h with
    | [r1, r2], _ => exact ⟨r1, r2, s', rfl⟩
  | next s' => rw [hr] at h; cases h
  | over o s' => rw [hr] at h; cases h
  | oof => rw [hr] at h; cases h

/-- the pattern rules of `progX`: `{ print "r1", $ }`, `$ == 2 { next }`, `$ == 4 { exit }`,
    `{ print "r3", $ }` -/
def rulesX : List Rule := rulesOf (demo progX) .pattern
theorem rulesX_split : rulesX = rulesX.take 1 ++ rulesX.getD 1 default :: rulesX.drop 2 :=
  split_getD rulesX 1 default (by decide +kernel)

/-- the state in which the rules start on the second element (the number 2) of `[1, 2, 3]` … -/
def cell2X : CellId := ((arrStateX.heap.arr (match arrStateX.root with
  | some r => (match arrStateX.heap.get r with | .arr a => a | _ => 0)
  | none => 0)).toList).getD 1 0
/-- … after the first rule has run on it -/
def midX : St := stOf ((do PX.setDollar cell2X; PX.setIndex 1; each (rulesX.take 1) (ruleSpec PX) : Run Unit) arrStateX)

/-- `next_affects_one_element`: the first rule completes on the element 2, the second rule
    (`$ == 2 { next }`) executes `next` -/
example : (do PX.setDollar cell2X; PX.setIndex 1; each (rulesX.take 1) (ruleSpec PX) : Run Unit) arrStateX
    = .fine () midX := fine_of (by decide +kernel)
example : ∃ s2, ruleSpec PX (rulesX.getD 1 default) midX = .next s2 := ⟨_, next_of (by decide +kernel)⟩

/-- `next_in_body`, `exit_in_body`: rules without a pattern whose bodies execute `next` / `exit` -/
example : ∃ r s2, r ∈ (demo b!"{ next }").rules ∧ r.pattern = none ∧
    evalStmt (demo b!"{ next }") evalFuel r.body afterBeginX = .err (.sig .next) s2 := by
  have h : (match (demo b!"{ next }").rules with
      | [r] => (match r.pattern, evalStmt (demo b!"{ next }") evalFuel r.body afterBeginX with
                | none, .err (.sig .next) _ => true
                | _, _ => false)
      | _ => false) = true := by decide +kernel
  match hr : (demo b!"{ next }").rules, h with
  | [r], h =>
    refine ⟨r, ?_⟩
    simp only at h
    split at h
    · rename_i s2 hp he
      exact ⟨s2, by simp, hp, he⟩
    · cases h
example : ∃ r s2, r ∈ (demo b!"{ exit }").rules ∧ r.pattern = none ∧
    evalStmt (demo b!"{ exit }") evalFuel r.body afterBeginX = .err (.sig .exit) s2 := by
  have h : (match (demo b!"{ exit }").rules with
      | [r] => (match r.pattern, evalStmt (demo b!"{ exit }") evalFuel r.body afterBeginX with
                | none, .err (.sig .exit) _ => true
                | _, _ => false)
      | _ => false) = true := by decide +kernel
  match hr : (demo b!"{ exit }").rules, h with
  | [r], h =>
    refine ⟨r, ?_⟩
    simp only at h
    split at h
    · rename_i s2 hp he
      exact ⟨s2, by simp, hp, he⟩
    · cases h

/-! `exit_propagates`: `progX` on the files `e` = `[1,2,3]` and `f` = `3 4 5` (JSON Lines); the
    rule `$ == 4 { exit }` ends the run on the second value of the second file.  All the
    hypotheses of the theorem hold (each state is the one the previous step left): -/
def fileE : InputFile := ⟨b!"e", b!"[1,2,3]", .eof⟩
def fileF : InputFile := ⟨b!"f", b!"3 4 5", .eof⟩
def valsF : List JVal := (PX.values fileF).1
def st1 : St := stOf (specialSpec PX (PX.fresh (.nil none)) RX.begin_ initX)
def st2 : St := stOf (each [fileE] (fileSpec PX RX []) st1)
def st3 : St := stOf (each (valsF.take 1) (valueSpec PX RX [] fileF) st2)
def st4 : St := stOf (PX.setFile fileF.name st3)
def rootF : CellId := ((valOf (rootsSpec PX [] (valsF.getD 1 default) st4)).getD []).getD 0 0
def st5 : St := stOf (rootsSpec PX [] (valsF.getD 1 default) st4)
def st8 : St := stOf (specialSpec PX (pure rootF) RX.beginFile st5)
def st9 : St := stOf (PX.setRoot rootF st8)
def st10 : St := stOf (PX.elements rootF st9)
def st11 : St := stOf (PX.setDollar rootF st10)
def st12 : St := stOf (each (RX.pattern.take 2) (ruleSpec PX) st11)

/-- (the hypotheses of `exit_propagates` for the example below, one by one) -/
theorem hX1 : specialSpec PX (PX.fresh (.nil none)) RX.begin_ initX = .fine () st1 :=
  fine_of (by decide +kernel)
theorem hX2 : each [fileE] (fileSpec PX RX []) st1 = .fine () st2 := fine_of (by decide +kernel)
theorem hX3 : each (valsF.take 1) (valueSpec PX RX [] fileF) st2 = .fine () st3 := fine_of (by decide +kernel)
theorem hX4 : PX.setFile fileF.name st3 = .fine () st4 := fine_of (by decide +kernel)
theorem hX5 : rootsSpec PX [] (valsF.getD 1 default) st4 = .fine ([] ++ rootF :: []) st5 :=
  fineVal_of (by decide +kernel)
theorem hX8 : specialSpec PX (pure rootF) RX.beginFile st5 = .fine () st8 := fine_of (by decide +kernel)
theorem hX9 : PX.setRoot rootF st8 = .fine () st9 := fine_of (by decide +kernel)
theorem hX10 : PX.elements rootF st9 = .fine none st10 := fineVal_of (by decide +kernel)
theorem hX11 : PX.setDollar rootF st10 = .fine () st11 := fine_of (by decide +kernel)
theorem hX12 : each (RX.pattern.take 2) (ruleSpec PX) st11 = .fine () st12 := fine_of (by decide +kernel)
theorem hX13 : ruleSpec PX (RX.pattern.getD 2 default) st12
    = .over .ok (stOf (ruleSpec PX (RX.pattern.getD 2 default) st12)) := exit_of (by decide +kernel)
theorem hXvals : PX.values fileF = (valsF.take 1 ++ valsF.getD 1 default :: valsF.drop 2, (PX.values fileF).2) :=
  Prod.ext (split_getD valsF 1 default (by decide +kernel)) rfl
theorem hXrules : RX.pattern = RX.pattern.take 2 ++ RX.pattern.getD 2 default :: RX.pattern.drop 3 :=
  split_getD RX.pattern 2 default (by decide +kernel)

example : ∃ s', scheduleSpec PX RX [] ([fileE] ++ fileF :: []) initX = .over .ok s' :=
  ⟨_, exit_propagates PX RX [] .ok [fileE] [] fileF
    (valsF.take 1) (valsF.drop 2) (valsF.getD 1 default) (PX.values fileF).2 hXvals
    [] [] rootF (RX.pattern.take 2) (RX.pattern.drop 3) (RX.pattern.getD 2 default) hXrules
    initX st1 st2 st3 st4 st5 st5 st5 st8 st9 st10 st11 st12 (st5.heap.get rootF)
    hX1 hX2 hX3 hX4 hX5 rfl rfl hX8 hX9 hX10 hX11 hX12 _ hX13⟩

/-! ### instances of the hypotheses of the one-step equations of Part 1
    (`next_abandons_rest`: the instance given for `next_in_body` above;
    `pattern_rules_array` / `pattern_rules_non_array`: those for `elements_in_index_order` /
    `other_root_once`) -/

/-- `rule_without_pattern`: a rule without a pattern whose body completes -/
example : (let p := demo b!"{ print 1 }"
    match p.rules with
    | [r] => (match r.pattern, evalStmt p evalFuel r.body afterBeginX with
              | none, .ok () _ => true
              | _, _ => false)
    | _ => false) = true := by decide +kernel

/-- the state in which the rules run on the scalar root `7` (`$` bound to it) -/
def dollar7X : St := { numStateX with ruleRoot := numStateX.root }

/-- `truthy_pattern_runs`, `falsy_pattern_skips`: on `$` = 7 the pattern `$ > 1` is truthy (and the
    body then completes), `$ > 9` is falsy -/
example : (let p := demo b!"$ > 1 { print \"hit\" } $ > 9 { print \"no\" }"
    match p.rules with
    | [r1, r2] => (match r1.pattern, r2.pattern with
        | some p1, some p2 =>
          (match evalExpr p evalFuel p1 dollar7X, evalExpr p evalFuel p2 dollar7X with
           | .ok c1 s1, .ok c2 s2 =>
             (s1.heap.get c1).truthy && !(s2.heap.get c2).truthy &&
               (match evalStmt p evalFuel r1.body s1 with | .ok () _ => true | _ => false)
           | _, _ => false)
        | _, _ => false)
    | _ => false) = true := by decide +kernel

/-- `beginfile_exit`: a BEGINFILE rule that executes `exit` -/
example : (let p := demo b!"BEGINFILE { exit } { print }"
    match evalSpecialRules p (pure (numStateX.root.getD 0)) (rulesOf p .beginFile) numStateX with
    | .ok .exit _ => true
    | _ => false) = true := by decide +kernel

/-- `processRoot_order`, `pattern_exit_skips_endfile`: the BEGINFILE rules complete, then the
    pattern rules complete / execute `exit` -/
example : (let p := demo b!"BEGINFILE { print \"bf\" } { print } ENDFILE { print \"ef\" }"
    let c := numStateX.root.getD 0
    match evalSpecialRules p (pure c) (rulesOf p .beginFile) numStateX with
    | .ok .continue_ s1 =>
      (match evalPatternRules p (rulesOf p .pattern) { s1 with root := some c } with
       | .ok () _ => true
       | _ => false)
    | _ => false) = true := by decide +kernel
example : (let p := demo b!"BEGINFILE { print \"bf\" } { exit } ENDFILE { print \"ef\" }"
    let c := numStateX.root.getD 0
    match evalSpecialRules p (pure c) (rulesOf p .beginFile) numStateX with
    | .ok .continue_ s1 =>
      (match evalPatternRules p (rulesOf p .pattern) { s1 with root := some c } with
       | .err (.sig .exit) _ => true
       | _ => false)
    | _ => false) = true := by decide +kernel

/-- `special_rule_next`, `special_rule_exit`: with `$` a fresh null cell, the body of the BEGIN
    rule executes `next`, that of the END rule `exit` -/
example : (let p := demo b!"BEGIN { next } END { exit }"
    match newCell (.nil none) afterBeginX, rulesOf p .begin_, rulesOf p .end_ with
    | .ok c s1, [rb], [re] =>
      (match evalStmt p evalFuel rb.body { s1 with ruleRoot := some c },
             evalStmt p evalFuel re.body { s1 with ruleRoot := some c } with
       | .err (.sig .next) _, .err (.sig .exit) _ => true
       | _, _ => false)
    | _, _, _ => false) = true := by decide +kernel

/-- `begin_exit_ends_run`: the BEGIN rules end with `exit` from the initial state -/
example : (let p := demo b!"BEGIN { print \"B\"; exit } BEGIN { print \"B2\" }"
    match evalSpecialRules p (newCell (.nil none)) (rulesOf p .begin_) (newEvaluator p Heap.empty [] 0) with
    | .ok .exit _ => true
    | _ => false) = true := by decide +kernel

/-- `input_exit_skips_end`, `end_after_all_input`, `files_in_order`: after the BEGIN rules of
    `progX`, both files end the run with `exit` (`.finished .ok`), the first file alone completes
    (`.done`, as `processFiles` and as `processFile` with fuel `bytes + 2`), and the END rules
    complete from the state it leaves -/
example : (let p := demo progX
    match evalSpecialRules p (newCell (.nil none)) (rulesOf p .begin_) (newEvaluator p Heap.empty [] 0) with
    | .ok .continue_ s1 =>
      (match processFiles p progX expectedRuleTable [] filesX s1,
             processFiles p progX expectedRuleTable [] (filesX.take 1) s1,
             processFile p progX expectedRuleTable [] fileE (fileE.data.length + 2) fileE.data s1 with
       | .finished .ok _, .done s2, .done _ =>
         (match evalSpecialRules p (newCell (.nil none)) (rulesOf p .end_) s2 with
          | .ok _ _ => true
          | _ => false)
       | _, _, _ => false)
    | _ => false) = true := by decide +kernel

/-- `exit_leaves_rules`: `exit` is an error other than `next` (a body executing `exit`: the
    instance for `exit_in_body` above) -/
example : Err.sig .exit ≠ .sig .next := by decide
end examples

end Jqawk.C02
