/-
  C02 — rules run in awk order over every input shape, with `$`, `$index` and `$file` bound.
  The schedule as equations on the rule driver (src/evaluator.go EvalProgram, evalRules,
  evalPatternRules), valid for every program, state and input.
-/
import Jqawk.Model.Driver

namespace Jqawk.C02
open Jqawk

variable (prog : Program)

/-! ### rules are partitioned by kind, source order preserved -/

theorem rules_partition_order (k : RuleKind) : (rulesOf prog k).Sublist prog.rules := by
  unfold rulesOf; exact List.filter_sublist

theorem rules_partition_mem (k : RuleKind) (r : Rule) :
    r ∈ rulesOf prog k ↔ r ∈ prog.rules ∧ r.kind = k := by
  unfold rulesOf; simp [List.mem_filter]

/-! ### one element: rules in source order, pattern test, `next` -/

theorem evalRules_done : evalRules prog [] = pure () := by simp [evalRules]

/-- a rule without a pattern always runs its body; then the remaining rules run … -/
theorem rule_without_pattern (rule : Rule) (rest : List Rule) (s s1 : St) (hp : rule.pattern = none)
    (hb : evalStmt prog evalFuel rule.body s = .ok () s1) :
    evalRules prog (rule :: rest) s = evalRules prog rest s1 := by
  conv => lhs; unfold evalRules
  simp [bind, EM.bind, hp, pure, EM.pure, catchSig, hb]

/-- … unless the body executed `next`, which abandons the remaining rules for this element only -/
theorem next_abandons_rest (rule : Rule) (rest : List Rule) (s s1 : St) (hp : rule.pattern = none)
    (hb : evalStmt prog evalFuel rule.body s = .err (.sig .next) s1) :
    evalRules prog (rule :: rest) s = .ok () s1 := by
  conv => lhs; unfold evalRules
  simp [bind, EM.bind, hp, pure, EM.pure, catchSig, hb]

/-- `exit` (and any error) in a body ends the rule list with that outcome -/
theorem exit_leaves_rules (rule : Rule) (rest : List Rule) (s s1 : St) (hp : rule.pattern = none)
    (e : Err) (he : e ≠ .sig .next) (hb : evalStmt prog evalFuel rule.body s = .err e s1) :
    evalRules prog (rule :: rest) s = .err e s1 := by
  conv => lhs; unfold evalRules
  cases e with
  | sig g => cases g <;> simp_all [bind, EM.bind, pure, EM.pure, catchSig]
  | _ => simp [bind, EM.bind, hp, pure, EM.pure, catchSig, hb]

/-- a rule whose pattern is falsy is skipped: its body does not run -/
theorem falsy_pattern_skips (rule : Rule) (rest : List Rule) (p : Expr) (s s1 : St) (c : CellId)
    (hp : rule.pattern = some p) (hc : evalExpr prog evalFuel p s = .ok c s1)
    (hf : (s1.heap.get c).truthy = false) :
    evalRules prog (rule :: rest) s = evalRules prog rest s1 := by
  conv => lhs; unfold evalRules
  simp [bind, EM.bind, hp, pure, EM.pure, catchSig, hc, readCell, hf]

/-- a rule whose pattern is truthy runs its body (in the state after the pattern) -/
theorem truthy_pattern_runs (rule : Rule) (rest : List Rule) (p : Expr) (s s1 s2 : St) (c : CellId)
    (hp : rule.pattern = some p) (hc : evalExpr prog evalFuel p s = .ok c s1)
    (ht : (s1.heap.get c).truthy = true)
    (hb : evalStmt prog evalFuel rule.body s1 = .ok () s2) :
    evalRules prog (rule :: rest) s = evalRules prog rest s2 := by
  conv => lhs; unfold evalRules
  simp [bind, EM.bind, hp, pure, EM.pure, catchSig, hc, readCell, ht, hb]

/-! ### the pattern rules over a root: once per element in index order, or exactly once -/

theorem evalElems_done (rules : List Rule) (i : Nat) : evalElems prog rules [] i = pure () := by
  simp [evalElems]

/-- element `i`: `$` is the element's own cell, `$index` a fresh cell holding `i`, then the rules,
    then the next element with `i + 1` -/
theorem evalElems_step (rules : List Rule) (item : CellId) (rest : List CellId) (i : Nat) :
    evalElems prog rules (item :: rest) i = (do
      modifySt fun s => { s with ruleRoot := some item }
      let ic ← newCell (.num (F64.ofNat i))
      setLocal b!"$index" ic
      evalRules prog rules
      evalElems prog rules rest (i + 1)) := by
  conv => lhs; unfold evalElems

/-- an array root: the elements captured at entry, from index 0 -/
theorem pattern_rules_array (rules : List Rule) (s : St) (root : CellId) (a : ArrId)
    (hr : s.root = some root) (ha : s.heap.get root = .arr a) :
    evalPatternRules prog rules s = evalElems prog rules (s.heap.arr a).toList 0 s := by
  simp [evalPatternRules, bind, EM.bind, getSt, hr, ha]

/-- any other root (object, scalar, null): exactly once, with `$` bound to the root -/
theorem pattern_rules_non_array (rules : List Rule) (s : St) (root : CellId)
    (hr : s.root = some root) (ha : ∀ a, s.heap.get root ≠ .arr a) :
    evalPatternRules prog rules s = evalRules prog rules { s with ruleRoot := some root } := by
  simp only [evalPatternRules, bind, EM.bind, getSt, hr]
  cases hg : s.heap.get root <;> simp_all [modifySt]

/-! ### one value: BEGINFILE, pattern rules, ENDFILE -/

/-- BEGINFILE rules see the root cell itself as `$`; `exit` there ends everything -/
theorem beginfile_exit (rootCell : CellId) (s s1 : St)
    (h : evalSpecialRules prog (pure rootCell) (rulesOf prog .beginFile) s = .ok .exit s1) :
    processRoot prog rootCell s = .ok .exit s1 := by
  simp only [processRoot, bind, EM.bind, readCell, h]
  rfl

/-- otherwise the pattern rules run on that root, and then the ENDFILE rules, each with `$` a
    fresh cell holding the root value as selected (taken before the BEGINFILE rules ran) -/
theorem processRoot_order (rootCell : CellId) (s s1 s2 : St)
    (hb : evalSpecialRules prog (pure rootCell) (rulesOf prog .beginFile) s = .ok .continue_ s1)
    (hp : evalPatternRules prog (rulesOf prog .pattern) { s1 with root := some rootCell } = .ok () s2) :
    processRoot prog rootCell s =
      evalSpecialRules prog (newCell (s.heap.get rootCell)) (rulesOf prog .endFile) s2 := by
  simp [processRoot, bind, EM.bind, readCell, hb, modifySt, catchExit, hp]

/-- `exit` in a pattern rule ends the run: ENDFILE rules do not run -/
theorem pattern_exit_skips_endfile (rootCell : CellId) (s s1 s2 : St)
    (hb : evalSpecialRules prog (pure rootCell) (rulesOf prog .beginFile) s = .ok .continue_ s1)
    (hp : evalPatternRules prog (rulesOf prog .pattern) { s1 with root := some rootCell }
            = .err (.sig .exit) s2) :
    processRoot prog rootCell s = .ok .exit s2 := by
  simp only [processRoot, bind, EM.bind, readCell, hb, modifySt, catchExit, hp]
  rfl

/-! ### special rules: `$` per rule, `next` finishes the rule, `exit` ends the run -/

theorem special_rule_next (mkRoot : EM CellId) (rule : Rule) (rest : List Rule) (s s1 s2 : St)
    (c : CellId) (hm : mkRoot s = .ok c s1)
    (hb : evalStmt prog evalFuel rule.body { s1 with ruleRoot := some c } = .err (.sig .next) s2) :
    evalSpecialRules prog mkRoot (rule :: rest) s = evalSpecialRules prog mkRoot rest s2 := by
  conv => lhs; unfold evalSpecialRules
  simp [bind, EM.bind, hm, modifySt, ruleFlow, hb]

theorem special_rule_exit (mkRoot : EM CellId) (rule : Rule) (rest : List Rule) (s s1 s2 : St)
    (c : CellId) (hm : mkRoot s = .ok c s1)
    (hb : evalStmt prog evalFuel rule.body { s1 with ruleRoot := some c } = .err (.sig .exit) s2) :
    evalSpecialRules prog mkRoot (rule :: rest) s = .ok .exit s2 := by
  conv => lhs; unfold evalSpecialRules
  simp [bind, EM.bind, hm, modifySt, ruleFlow, hb, pure, EM.pure]

/-! ### the whole run: BEGIN first, END last, `exit` ends it successfully at once -/

/-- BEGIN rules run before anything is read, with `$` a fresh null cell per rule; `exit` in BEGIN
    ends the run successfully: no input is read, END rules do not run -/
theorem begin_exit_ends_run (src : Bytes) (tbl : RuleTable) (sels : List Bytes)
    (files : List InputFile) (s : St)
    (h : evalSpecialRules prog (newCell (.nil none)) (rulesOf prog .begin_)
          (newEvaluator prog Heap.empty [] 0) = .ok .exit s) :
    (runProgram prog src tbl sels files).out = s.output ∧
    (match (runProgram prog src tbl sels files).outcome with | .ok => True | _ => False) := by
  simp [runProgram, finishRun, h]

/-- `exit` while processing input ends the run successfully without END rules -/
theorem input_exit_skips_end (src : Bytes) (tbl : RuleTable) (sels : List Bytes)
    (files : List InputFile) (s1 s2 : St)
    (hb : evalSpecialRules prog (newCell (.nil none)) (rulesOf prog .begin_)
          (newEvaluator prog Heap.empty [] 0) = .ok .continue_ s1)
    (hf : processFiles prog src tbl sels files s1 = .finished .ok s2) :
    (runProgram prog src tbl sels files).out = s2.output := by
  simp [runProgram, runFiles, finishRun, hb, hf]

/-- END rules run once after all input, in the state the input left -/
theorem end_after_all_input (src : Bytes) (tbl : RuleTable) (sels : List Bytes)
    (files : List InputFile) (s1 s2 s3 : St) (fl : Flow)
    (hb : evalSpecialRules prog (newCell (.nil none)) (rulesOf prog .begin_)
          (newEvaluator prog Heap.empty [] 0) = .ok .continue_ s1)
    (hf : processFiles prog src tbl sels files s1 = .done s2)
    (he : evalSpecialRules prog (newCell (.nil none)) (rulesOf prog .end_) s2 = .ok fl s3) :
    (runProgram prog src tbl sels files).out = s3.output := by
  simp [runProgram, runFiles, runEnd, finishRun, hb, hf, he]

/-- files are processed in the order given -/
theorem files_in_order (src : Bytes) (tbl : RuleTable) (sels : List Bytes) (f : InputFile)
    (rest : List InputFile) (s s1 : St)
    (h : processFile prog src tbl sels f (f.data.length + 2) f.data s = .done s1) :
    processFiles prog src tbl sels (f :: rest) s = processFiles prog src tbl sels rest s1 := by
  simp [processFiles, h]

end Jqawk.C02
