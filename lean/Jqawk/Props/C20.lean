/-
  C20 — unbounded single steps are refused with an error, not by exhausting the process.
  Call nesting: `pushFrame` refuses beyond `callDepthLimit`, and the ghost field `maxDepth`
  (largest number of frames ever open) shows that no evaluation — of any shape of recursion,
  direct, mutual or through match bodies — ever has more than `callDepthLimit + 1` frames open.
  Array fill and printf width: the limits are decided by the value-level functions.
-/
import Jqawk.Lemmas.Invariant

namespace Jqawk.C20
open Jqawk

/-- beyond the limit a frame push is refused, with the state unchanged -/
theorem pushFrame_refuses (name : Bytes) (s : St) (h : s.frames.length > callDepthLimit) :
    pushFrame name s = .ok (.error "call depth limit exceeded") s := by
  simp [pushFrame, h]

/-- up to the limit it succeeds -/
theorem pushFrame_accepts (name : Bytes) (s : St) (h : s.frames.length ≤ callDepthLimit) :
    ∃ s', pushFrame name s = .ok (.ok ()) s' ∧ s'.frames = ⟨name, []⟩ :: s.frames := by
  have : ¬ s.frames.length > callDepthLimit := by omega
  refine ⟨{ s with frames := ⟨name, []⟩ :: s.frames,
                   maxDepth := max s.maxDepth (s.frames.length + 1) }, ?_, rfl⟩
  simp [pushFrame, this]

variable (prog : Program)

/-- No evaluation ever has more than `callDepthLimit + 1` frames open: whatever the program
    does (runaway recursion of any shape included), if at most that many frames had ever been
    open before, the same is true afterwards, for every outcome other than running out of fuel. -/
theorem depth_bounded_stmt (n : Nat) (st : Stmt) (s s' : St) (hs : s.maxDepth ≤ callDepthLimit + 1)
    (r : Res Unit) (he : evalStmt prog n st s = r)
    (hr : (match r with | .ok _ t => some t | .err _ t => some t | .oof => none) = some s') :
    s'.maxDepth ≤ callDepthLimit + 1 := by
  have h := (allSafe prog n).stmt st s
  rw [he] at h
  have hk : Keeps s s' := by
    cases r with
    | ok a t => simp only [Option.some.injEq] at hr; subst hr; exact h.1
    | err e t =>
      simp only [Option.some.injEq] at hr; subst hr
      cases e <;> first | exact h.1 | exact h
    | oof => simp at hr
  have := hk.depth
  omega

theorem depth_bounded_expr (n : Nat) (e : Expr) (s s' : St) (hs : s.maxDepth ≤ callDepthLimit + 1)
    (r : Res CellId) (he : evalExpr prog n e s = r)
    (hr : (match r with | .ok _ t => some t | .err _ t => some t | .oof => none) = some s') :
    s'.maxDepth ≤ callDepthLimit + 1 := by
  have h := (allSafe prog n).expr e s
  rw [he] at h
  have hk : Keeps s s' := by
    cases r with
    | ok a t => simp only [Option.some.injEq] at hr; subst hr; exact h.1
    | err e t =>
      simp only [Option.some.injEq] at hr; subst hr
      cases e <;> first | exact h.1 | exact h
    | oof => simp at hr
  have := hk.depth
  omega

/-- the limit is the documented "few thousand" -/
theorem callDepthLimit_value : callDepthLimit = 4096 := rfl

/-! ### array fill -/

/-- storing at an index beyond the fill limit (and past the end) is refused … -/
theorem fill_limit_refuses (h : Heap) (a : ArrId) (x : F64) (c : CellId)
    (hi : x.toGoInt > (fillLimit : Int)) (hsz : ((h.arr a).size : Int) ≤ x.toGoInt) :
    setMember h (.arr a) (.num x) c = .error "index too large to auto-fill array" := by
  have hpos : ¬ x.toGoInt < 0 := by simp [fillLimit] at hi; omega
  simp only [setMember, resolveIndex, hpos, ↓reduceIte]
  have h1 : ¬ x.toGoInt.toNat < (h.arr a).size := by omega
  have h2 : x.toGoInt.toNat > fillLimit := by omega
  simp [h1, h2]

theorem fillNulls_size (n : Nat) (h : Heap) (items : Array CellId) :
    (fillNulls n h items).2.size = items.size + n ∧ (fillNulls n h items).1.arrs = h.arrs := by
  induction n generalizing h items with
  | zero => simp [fillNulls]
  | succ n ih =>
    simp only [fillNulls]
    have := ih (h.alloc (.nil none)).2 (items.push (h.alloc (.nil none)).1)
    simp only [Array.size_push] at this
    refine ⟨by omega, ?_⟩
    rw [this.2]; rfl

/-- … and at or below it the store succeeds and the array then ends exactly at that index
    (the gap is padded with fresh null cells) -/
theorem fill_limit_accepts (h : Heap) (a : ArrId) (x : F64) (c : CellId)
    (hlo : 0 ≤ x.toGoInt) (hi : x.toGoInt ≤ (fillLimit : Int))
    (hsz : ((h.arr a).size : Int) ≤ x.toGoInt) (ha : a < h.arrs.size) :
    ∃ item h', setMember h (.arr a) (.num x) c = .ok (item, h') ∧
      (h'.arr a).size = x.toGoInt.toNat + 1 := by
  have hpos : ¬ x.toGoInt < 0 := by omega
  have h1 : ¬ x.toGoInt.toNat < (h.arr a).size := by omega
  have h2 : ¬ x.toGoInt.toNat > fillLimit := by omega
  simp only [setMember, resolveIndex, hpos, ↓reduceIte, h1, h2]
  refine ⟨_, _, rfl, ?_⟩
  have hf := fillNulls_size (x.toGoInt.toNat + 1 - (h.arr a).size) h (h.arr a)
  simp only [Heap.arr, Heap.set, Heap.setArr] at *
  rw [hf.2] at *
  simp only [Array.setIfInBounds, ha, ↓reduceDIte, Array.getD_eq_getD_getElem?, Array.getElem?_set,
    ↓reduceIte, Option.getD_some]
  simp only [Array.getD_eq_getD_getElem?] at hf h1
  have := hf.1
  omega

theorem fillLimit_value : fillLimit = 1048576 := rfl

end Jqawk.C20
