/-
  C20 — unbounded single steps are refused with an error, not by exhausting the process.
  Call nesting: `pushFrame` refuses beyond `callDepthLimit`, and the ghost field `maxDepth`
  (largest number of frames ever open) shows that no evaluation — of any shape of recursion,
  direct, mutual or through match bodies — ever has more than `callDepthLimit + 1` frames open.
  Array fill: the limit is decided by the value-level function `setMember`.  The printf width
  limit is `C18.width_limit` / `C18.width_ok_below`; the JSON decoder's nesting limit has no
  theorem in this file.
-/
import Jqawk.Lemmas.Invariant

namespace Jqawk.C20
open Jqawk

/-- beyond the limit a frame push is refused, with the state unchanged -/
theorem pushFrame_refuses (name : Bytes) (s : St) (h : s.frames.length > callDepthLimit) :
    pushFrame name s = .ok (.error "call depth limit exceeded") s := by
  simp [pushFrame, h]

/-- up to the limit it succeeds -/
theorem pushFrame_accepts (name : Bytes) (s : St) (h : s.frames.length ≤ callDepthLimit) :
    ∃ s', pushFrame name s = .ok (.ok ()) s' ∧ s'.frames = ⟨name, []⟩ :: s.frames := by
  have : ¬ s.frames.length > callDepthLimit := by omega
  refine ⟨{ s with frames := ⟨name, []⟩ :: s.frames,
                   maxDepth := max s.maxDepth (s.frames.length + 1) }, ?_, rfl⟩
  simp [pushFrame, this]

/-- non-vacuity of `pushFrame_refuses` / `pushFrame_accepts`: a state with 4097 open frames, and
    the initial state -/
example : ({ (default : St) with frames := List.replicate 4097 ⟨[], []⟩ }).frames.length > callDepthLimit
    ∧ (default : St).frames.length ≤ callDepthLimit := by
  refine ⟨?_, by decide⟩
  simp only [List.length_replicate]; decide

variable (prog : Program)

/-- No evaluation ever has more than `callDepthLimit + 1` frames open: whatever the program
    does (runaway recursion of any shape included), if at most that many frames had ever been
    open before, the same is true afterwards, for every outcome other than running out of fuel. -/
theorem depth_bounded_stmt (n : Nat) (st : Stmt) (s s' : St) (hs : s.maxDepth ≤ callDepthLimit + 1)
    (r : Res Unit) (he : evalStmt prog n st s = r)
    (hr : (match r with | .ok _ t => some t | .err _ t => some t | .oof => none) = some s') :
    s'.maxDepth ≤ callDepthLimit + 1 := by
  have h := (allSafe prog n).stmt st s
  rw [he] at h
  have hk : Keeps s s' := by
    cases r with
    | ok a t => simp only [Option.some.injEq] at hr; subst hr; exact h.1
    | err e t =>
      simp only [Option.some.injEq] at hr; subst hr
      cases e <;> first | exact h.1 | exact h
    | oof => simp at hr
  have := hk.depth
  omega

theorem depth_bounded_expr (n : Nat) (e : Expr) (s s' : St) (hs : s.maxDepth ≤ callDepthLimit + 1)
    (r : Res CellId) (he : evalExpr prog n e s = r)
    (hr : (match r with | .ok _ t => some t | .err _ t => some t | .oof => none) = some s') :
    s'.maxDepth ≤ callDepthLimit + 1 := by
  have h := (allSafe prog n).expr e s
  rw [he] at h
  have hk : Keeps s s' := by
    cases r with
    | ok a t => simp only [Option.some.injEq] at hr; subst hr; exact h.1
    | err e t =>
      simp only [Option.some.injEq] at hr; subst hr
      cases e <;> first | exact h.1 | exact h
    | oof => simp at hr
  have := hk.depth
  omega

/-- non-vacuity of `depth_bounded_stmt` / `depth_bounded_expr` (a small instance only: an empty
    block and a literal end normally from the initial state; an instance that actually reaches
    the limit needs a 4096-deep evaluation in the kernel) -/
example : (match evalStmt Program.empty 3 (.block Token.zero []) default with
      | .ok _ t => some t | .err _ t => some t | .oof => none).isSome = true ∧
    (default : St).maxDepth ≤ callDepthLimit + 1 := by decide +kernel

/-- the limit is the documented "few thousand" -/
theorem callDepthLimit_value : callDepthLimit = 4096 := rfl

/-! ### array fill -/

/-- storing at an index beyond the fill limit (and past the end) is refused … -/
theorem fill_limit_refuses (h : Heap) (a : ArrId) (x : F64) (c : CellId)
    (hi : x.toGoInt > (fillLimit : Int)) (hsz : ((h.arr a).size : Int) ≤ x.toGoInt) :
    setMember h (.arr a) (.num x) c = .error "index too large to auto-fill array" := by
  have hpos : ¬ x.toGoInt < 0 := by simp [fillLimit] at hi; omega
  simp only [setMember, resolveIndex, hpos, ↓reduceIte]
  have h1 : ¬ x.toGoInt.toNat < (h.arr a).size := by omega
  have h2 : x.toGoInt.toNat > fillLimit := by omega
  simp [h1, h2]

/-- non-vacuity of `fill_limit_refuses`: index 2000000 into an empty array -/
example : (F64.ofNat 2000000).toGoInt > (fillLimit : Int) ∧
    (((Heap.empty).arr 0).size : Int) ≤ (F64.ofNat 2000000).toGoInt := by decide +kernel

theorem fillNulls_size (n : Nat) (h : Heap) (items : Array CellId) :
    (fillNulls n h items).2.size = items.size + n ∧ (fillNulls n h items).1.arrs = h.arrs := by
  induction n generalizing h items with
  | zero => simp [fillNulls]
  | succ n ih =>
    simp only [fillNulls]
    have := ih (h.alloc (.nil none)).2 (items.push (h.alloc (.nil none)).1)
    simp only [Array.size_push] at this
    refine ⟨by omega, ?_⟩
    rw [this.2]; rfl

/-- … and at or below it the store succeeds and the array then ends exactly at that index
    (only the new SIZE is stated; that the gap holds fresh null cells is `fillNulls` by
    definition, not part of this statement) -/
theorem fill_limit_accepts (h : Heap) (a : ArrId) (x : F64) (c : CellId)
    (hlo : 0 ≤ x.toGoInt) (hi : x.toGoInt ≤ (fillLimit : Int))
    (hsz : ((h.arr a).size : Int) ≤ x.toGoInt) (ha : a < h.arrs.size) :
    ∃ item h', setMember h (.arr a) (.num x) c = .ok (item, h') ∧
      (h'.arr a).size = x.toGoInt.toNat + 1 := by
  have hpos : ¬ x.toGoInt < 0 := by omega
  have h1 : ¬ x.toGoInt.toNat < (h.arr a).size := by omega
  have h2 : ¬ x.toGoInt.toNat > fillLimit := by omega
  simp only [setMember, resolveIndex, hpos, ↓reduceIte, h1, h2]
  refine ⟨_, _, rfl, ?_⟩
  have hf := fillNulls_size (x.toGoInt.toNat + 1 - (h.arr a).size) h (h.arr a)
  simp only [Heap.arr, Heap.set, Heap.setArr] at *
  rw [hf.2] at *
  simp only [Array.setIfInBounds, ha, ↓reduceDIte, Array.getD_eq_getD_getElem?, Array.getElem?_set,
    ↓reduceIte, Option.getD_some]
  simp only [Array.getD_eq_getD_getElem?] at hf h1
  have := hf.1
  omega

/-- non-vacuity of `fill_limit_accepts`: index 3 into the allocated empty array 0 -/
example : 0 ≤ (F64.ofNat 3).toGoInt ∧ (F64.ofNat 3).toGoInt ≤ (fillLimit : Int) ∧
    ((((⟨#[], #[#[]], #[]⟩ : Heap)).arr 0).size : Int) ≤ (F64.ofNat 3).toGoInt ∧
    0 < (⟨#[], #[#[]], #[]⟩ : Heap).arrs.size := by decide +kernel

theorem fillLimit_value : fillLimit = 1048576 := rfl

end Jqawk.C20
