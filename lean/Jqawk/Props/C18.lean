/-
  C18 — printf emits exactly the format, each directive replaced and padded to its width.
  `printfFormat` (the scanning loop of `nativePrintf`) is related to the two-phase reference
  formatter `Spec.printfRef`; padding laws, atomicity of the write, and the width limit are
  stated outright.
-/
import Jqawk.Lemmas.Printf

namespace Jqawk.C18
open Jqawk Spec

/-! ### 1. padding: to at least |width| bytes, left or right, never truncating -/

/-- the padded rendering has length max(|width|, length) -/
theorem padTo_length (w : Int) (c : UInt8) (s : Bytes) :
    (padTo w c s).length = max w.natAbs s.length := by
  unfold padTo repeatByte
  split
  · rename_i h; simp at h; simp; omega
  · split
    · rename_i h; simp at h; simp; omega
    · rename_i h1 h2; simp at h1 h2; omega

/-- a width never truncates -/
theorem padTo_never_truncates (w : Int) (c : UInt8) (s : Bytes) :
    s.length ≤ (padTo w c s).length := by
  rw [padTo_length]; omega

/-- a non-negative width pads on the left with exactly the missing number of pad bytes -/
theorem padTo_left (w : Int) (c : UInt8) (s : Bytes) (hw : 0 ≤ w) :
    padTo w c s = List.replicate (w.toNat - s.length) c ++ s := by
  unfold padTo repeatByte
  split
  · rfl
  · rename_i h1; simp at h1
    split
    · rename_i h2; simp at h2; omega
    · have : w.toNat - s.length = 0 := by omega
      simp [this]

/-- a negative width pads on the right -/
theorem padTo_right (w : Int) (c : UInt8) (s : Bytes) (hw : w < 0) :
    padTo w c s = s ++ List.replicate ((-w).toNat - s.length) c := by
  unfold padTo repeatByte
  split
  · rename_i h1; simp at h1; omega
  · split
    · rfl
    · rename_i h1 h2; simp at h1 h2
      have : (-w).toNat - s.length = 0 := by omega
      simp [this]

example : padTo 5 48 b!"ab" = b!"000ab" ∧ padTo (-5) 32 b!"ab" = b!"ab   " ∧ padTo 1 32 b!"ab" = b!"ab" := by
  decide

/-! ### 2. the loop refines the reference formatter -/

/-- the loop can only run out of fuel inside `render` (its own fuel, length + 1, suffices) -/
theorem printf_oof_only_from_render (render : Val → Option Bytes) (args : List Val)
    (h : printfFormat render args = none) : ∃ v ∈ args, render v = none := by
  unfold printfFormat at h
  split at h
  · simp at h
  · rename_i fmtVal rest
    split at h
    · rename_i fmt sp
      have := loop_refines render (.str fmt sp :: rest) fmt.length fmt (fmt.length + 1)
        (fmt.length + 1) 1 [] (Nat.le_refl _) (Nat.lt_succ_self _) (Nat.lt_succ_self _)
      rw [h] at this
      exact this
    · simp at h

/-- whenever `printfFormat` produces a result (output or error) the reference formatter produces
    the same, up to the error message — for all formats and all argument lists -/
theorem printf_refines_ref_of_some (render : Val → Option Bytes) (args : List Val)
    (r : Except String Bytes) (h : printfFormat render args = some r) :
    Out.Equiv (some r) (printfRef render args) := by
  unfold printfFormat at h
  unfold printfRef
  split at h
  · cases h; simp [Out.Equiv]
  · rename_i fmtVal rest
    split at h
    · rename_i fmt sp
      have := loop_refines render (.str fmt sp :: rest) fmt.length fmt (fmt.length + 1)
        (fmt.length + 1) 1 [] (Nat.le_refl _) (Nat.lt_succ_self _) (Nat.lt_succ_self _)
      rw [h] at this
      simp only [LoopOK, refFrom, List.drop_succ_cons, List.drop_zero] at this
      simp only [parseFormat]
      cases hp : parseItems (fmt.length + 1) fmt with
      | error m => rw [hp] at this; exact this
      | ok items => rw [hp] at this; simpa [prepend_nil] using this
    · cases h
      cases fmtVal <;> simp_all [Out.Equiv]

/-- non-vacuity of `printf_refines_ref_of_some`: the loop produces an output, and an error -/
example : (printfFormat (fun _ => some b!"V") [.str b!"<%3s|%-3s|%03s|%v>" none, .str b!"a" none,
      .str b!"b" none, .str b!"c" none, .nil none]).map Except.toOption = some (some b!"<  a|b  |00c|V>") ∧
    (printfFormat (fun _ => some b!"V") [.str b!"%s" none, .num F64.one]).map Except.toOption
      = some none := by decide +kernel

/-- `printfFormat = printfRef` up to the error message, for all formats and argument lists,
    provided `render` is defined on the arguments (see `printf_refines_ref_needs_render`) -/
theorem printf_refines_ref (render : Val → Option Bytes) (args : List Val)
    (hr : ∀ v ∈ args, render v ≠ none) :
    Out.Equiv (printfFormat render args) (printfRef render args) := by
  cases h : printfFormat render args with
  | none =>
    obtain ⟨v, hv, hn⟩ := printf_oof_only_from_render render args h
    exact absurd hn (hr v hv)
  | some r => exact printf_refines_ref_of_some render args r h

/-- non-vacuity, and why the hypothesis is needed: if `render` runs out of fuel on an argument
    the single-pass loop reports that before it sees a later format error, the two-phase
    reference reports the format error. -/
theorem printf_refines_ref_needs_render :
    printfFormat (fun _ => none) [.str b!"%v%" none, .nil none] = none ∧
    ∃ m, printfRef (fun _ => none) [.str b!"%v%" none, .nil none] = some (.error m) := by
  exact ⟨by decide, _, rfl⟩

example : ∀ v ∈ [Val.str b!"%5s|%-3f|%v" none, .str b!"ab" none, .num F64.one, .bool true],
    (fun _ : Val => some b!"V") v ≠ none := by simp

/-! ### 3. one write at the end, nothing on error -/

/-- `printf` as a state transformer -/
theorem callNative_printf (args : List Val) (this : Option Val) (s : St) :
    callNative .printf args this s =
      match printfFormat (prettyTop s.heap) args with
      | none => .oof
      | some (.error m) => .ok (.error m) s
      | some (.ok out) => .ok (.ok none) { s with out := out :: s.out } := by
  simp only [callNative, bind, EM.bind, getHeap]
  cases h : printfFormat (prettyTop s.heap) args with
  | none => simp [oof]
  | some r => cases r <;> simp [pure, EM.pure, emit, EM.bind]

/-- on any error nothing is written and nothing else changes -/
theorem printf_atomic (args : List Val) (this : Option Val) (s s' : St) (m : String)
    (h : callNative .printf args this s = .ok (.error m) s') : s' = s := by
  rw [callNative_printf] at h
  split at h <;> simp_all

/-- on success exactly one chunk — the formatted text — is appended to the output, nothing else
    changes, and the call returns nil (null) -/
theorem printf_atomic_ok (args : List Val) (this : Option Val) (s s' : St) (v : Option Val)
    (h : callNative .printf args this s = .ok (.ok v) s') :
    v = none ∧ ∃ chunk, printfFormat (prettyTop s.heap) args = some (.ok chunk) ∧
      s' = { s with out := chunk :: s.out } := by
  rw [callNative_printf] at h
  split at h <;> simp_all

/-- `printf` never raises (panic, signal, runtime error object): errors are returned -/
theorem printf_never_raises (args : List Val) (this : Option Val) (s s' : St) (e : Err) :
    callNative .printf args this s ≠ .err e s' := by
  rw [callNative_printf]
  split <;> simp

example : ∃ m, callNative .printf [.str b!"%s" none] none default = .ok (.error m) default :=
  ⟨_, by rw [callNative_printf]; rfl⟩
example : callNative .printf [.str b!"a%%" none] none default
    = .ok (.ok none) { (default : St) with out := [b!"a%"] } := by
  rw [callNative_printf]; rfl

/-! ### 4. no separators, no newline, surplus arguments ignored -/

/-- a format without `%` is written unchanged, whatever the other arguments -/
theorem printf_no_extras (render : Val → Option Bytes) (fmt : Bytes) (sp : Option SpecRef)
    (rest : List Val) (h : 37 ∉ fmt) :
    printfFormat render (.str fmt sp :: rest) = some (.ok fmt) := by
  have := printfLoop_run render (.str fmt sp :: rest) fmt h 1 1 [] []
  simp only [List.append_nil, List.nil_append] at this
  simp only [printfFormat]
  rw [Nat.add_comm, this, printfLoop_nil]

example : (37 : UInt8) ∉ b!"hello, world" := by decide

/-! ### 5. the width limit -/

/-- the first directive of a format decides an error -/
theorem printf_first_directive_error (render : Val → Option Bytes) (rest : Bytes)
    (sp : Option SpecRef) (args : List Val) (m : String) (h : parseDirective rest = .error m) :
    ∃ m', printfFormat render (.str (37 :: rest) sp :: args) = some (.error m') := by
  simp only [printfFormat, List.length_cons]
  exact printfLoop_dir_error render _ _ 1 rest [] m h

/-- non-vacuity of `printf_first_directive_error`: an unknown code, a dangling `%`, a lone `-` -/
example : (parseDirective b!"d").toOption = none ∧ (parseDirective b!"").toOption = none ∧
    (parseDirective b!"-s").toOption = none := by decide +kernel

/-- a width beyond 65536 is an error, for any digit string (leading zeros or not), … -/
theorem width_limit_digits (render : Val → Option Bytes) (ds tail : Bytes) (sp : Option SpecRef)
    (args : List Val) (hne : ds ≠ []) (hds : ∀ x ∈ ds, isDigitB x = true)
    (ht : ∀ x, tail.head? = some x → isDigitB x = false) (hn : digitsToNat ds > 65536) :
    ∃ m, printfFormat render (.str (37 :: (ds ++ tail)) sp :: args) = some (.error m) := by
  apply printf_first_directive_error render _ sp args "width too large"
  rw [parseDirective_width ds tail hne hds ht, if_pos hn]

/-- … and likewise for a negative width -/
theorem width_limit_digits_neg (render : Val → Option Bytes) (ds tail : Bytes) (sp : Option SpecRef)
    (args : List Val) (hds : ∀ x ∈ ds, isDigitB x = true)
    (ht : ∀ x, tail.head? = some x → isDigitB x = false) (hn : digitsToNat ds > 65536) :
    ∃ m, printfFormat render (.str (37 :: 45 :: (ds ++ tail)) sp :: args) = some (.error m) := by
  by_cases he : ds.isEmpty
  · apply printf_first_directive_error render _ sp args "unparsable width"
    rw [parseDirective_negWidth ds tail hds ht, if_pos he]
  · apply printf_first_directive_error render _ sp args "width too large"
    rw [parseDirective_negWidth ds tail hds ht, if_neg he, if_pos hn]

/-- non-vacuity of `width_limit_digits` / `width_limit_digits_neg`: the digit string `065537`
    (leading zero) followed by `s` -/
example : b!"065537" ≠ [] ∧ (∀ x ∈ b!"065537", isDigitB x = true) ∧
    (∀ x, (b!"s").head? = some x → isDigitB x = false) ∧ digitsToNat b!"065537" > 65536 := by
  refine ⟨by decide, by decide, ?_, by decide +kernel⟩
  intro x hx; cases hx; decide

/-- `%<n>s` with `n > 65536` is an error whatever the arguments -/
theorem width_limit (render : Val → Option Bytes) (n : Nat) (sp : Option SpecRef) (args : List Val)
    (hn : n > 65536) :
    ∃ m, printfFormat render (.str (37 :: (natToBytes n ++ [115])) sp :: args) = some (.error m) :=
  width_limit_digits render (natToBytes n) [115] sp args (natToBytes_ne_nil n) (natToBytes_digits n)
    (by intro x hx; cases hx; decide) (by rw [digitsToNat_natToBytes]; exact hn)

/-- `%-<n>s` with `n > 65536` is an error whatever the arguments -/
theorem width_limit_neg (render : Val → Option Bytes) (n : Nat) (sp : Option SpecRef) (args : List Val)
    (hn : n > 65536) :
    ∃ m, printfFormat render (.str (37 :: 45 :: (natToBytes n ++ [115])) sp :: args) = some (.error m) :=
  width_limit_digits_neg render (natToBytes n) [115] sp args (natToBytes_digits n)
    (by intro x hx; cases hx; decide) (by rw [digitsToNat_natToBytes]; exact hn)

/-- up to the limit the directive is accepted: `%<n>s` applied to a string writes it padded to
    `n` bytes with SOME pad byte (WEAK: the statement does not say which; the pad byte is `0`
    or space by `Spec.parseDirective` together with `printf_refines_ref`) -/
theorem width_ok_below (render : Val → Option Bytes) (n : Nat) (sp sp' : Option SpecRef) (a : Bytes)
    (more : List Val) (hn : n ≤ 65536) :
    ∃ pad, printfFormat render (.str (37 :: (natToBytes n ++ [115])) sp :: .str a sp' :: more)
      = some (.ok (padTo n pad a)) := by
  have hpd : parseDirective (natToBytes n ++ [115]) =
      .ok (.dir ((natToBytes n).head? == some 48) (n : Int) 115, []) := by
    rw [parseDirective_width _ [115] (natToBytes_ne_nil n) (natToBytes_digits n)
      (by intro x hx; cases hx; decide), digitsToNat_natToBytes, if_neg (by omega)]
    rfl
  obtain ⟨z, w, code, hit, -, -, hstep⟩ := printfLoop_dir_ok render
    (.str (37 :: (natToBytes n ++ [115])) sp :: .str a sp' :: more)
    ((natToBytes n ++ [115]).length + 1) 1 (natToBytes n ++ [115]) [] _ _ hpd
  cases hit
  refine ⟨(if ((natToBytes n).head? == some 48) = true then 48 else 32), ?_⟩
  simp only [printfFormat, List.length_cons]
  rw [hstep]
  simp [dirStep, renderArg, printfLoop]

example : (65537 : Nat) > 65536 ∧ natToBytes 65537 = b!"65537" := by decide +kernel

end Jqawk.C18
