/-
  The second tie between model and code: facts re-extracted from /repo/src on every run
  (Jqawk/Generated/Facts.lean, never committed) must equal what the model and the proofs assume.
  Each `theorem` below is a proof obligation that an edit of the Go source can break.
-/
import Jqawk.Generated.Facts
import Jqawk.Model.Table
import Jqawk.Model.State
import Jqawk.Model.Value
import Jqawk.Model.Natives

namespace Jqawk.FactsTie
open Jqawk

/-- rows in token-tag order (the extractor emits them sorted the same way, so the order of the
    entries in the Go map literal does not matter) -/
def insRow (r : Tag × ParseRule) : RuleTable → RuleTable
  | [] => [r]
  | x :: xs => if r.1.ctorIdx ≤ x.1.ctorIdx then r :: x :: xs else x :: insRow r xs
def canonTable : RuleTable → RuleTable
  | [] => []
  | r :: rs => insRow r (canonTable rs)

/-- nothing went wrong while extracting (every parse function of the table plays exactly one
    role, no duplicate entries, every precedence known, …) -/
theorem extractProblems_tie : Generated.extractProblems = [] := by decide

/-- the Pratt rule table the model parser is driven by is the one in src/parser.go: same entry
    for every token (parse functions identified by the role they play for the anchor tokens,
    not by name; entry order irrelevant — the model looks entries up by tag, and no tag occurs
    twice) -/
theorem ruleTable_tie : Generated.ruleTable = canonTable expectedRuleTable ∧
    (expectedRuleTable.map (·.1)).Nodup := by decide

/-- the token tags, in Go's iota order (the model's `Tag` mirrors this order) -/
theorem tokenTags_tie : Generated.tokenTags =
  ["EOF", "Error", "Ident", "Str", "Regex", "Num", "Begin", "End", "BeginFile", "EndFile", "Print",
   "Function", "Return", "If", "Else", "For", "While", "In", "Match", "Break", "Continue", "Next",
   "Newline", "Exit", "Null", "Is", "True", "False", "LCurly", "RCurly", "LSquare", "RSquare",
   "LParen", "RParen", "LessThan", "GreaterThan", "Dollar", "Comma", "Dot", "Equal", "EqualEqual",
   "BangEqual", "LessEqual", "GreaterEqual", "Colon", "SemiColon", "Plus", "Minus", "Multiply",
   "Divide", "PlusEqual", "MinusEqual", "MultiplyEqual", "DivideEqual", "Tilde", "BangTilde",
   "AmpAmp", "PipePipe", "Arrow", "Bang", "PlusPlus", "MinusMinus", "Percent"] := by decide

theorem precNames_tie : Generated.precNames =
  ["PrecNone", "PrecAssign", "PrecLogical", "PrecComparison", "PrecAddition", "PrecMultiplication",
   "PrecPostfix", "PrecUnary", "PrecCall", "PrecGroup"] := by decide

/-- what decides associativity: how `binary`, `assign` and `unary` parse their operand -/
theorem operandPrec_binary_tie : Generated.operandPrec_binary = "rule(·).prec+1" := by decide
theorem operandPrec_assign_tie : Generated.operandPrec_assign = "rule(·).prec" := by decide
theorem operandPrec_unary_tie : Generated.operandPrec_unary = "PrecUnary" := by decide

/-- the keyword table (sorted by keyword; a `switch` and a map literal are read alike) -/
theorem keywords_tie : Generated.keywords =
  [("$", "Dollar"), ("BEGIN", "Begin"), ("BEGINFILE", "BeginFile"), ("END", "End"), ("ENDFILE", "EndFile"),
   ("break", "Break"), ("continue", "Continue"), ("else", "Else"), ("exit", "Exit"), ("false", "False"),
   ("for", "For"), ("function", "Function"), ("if", "If"), ("in", "In"), ("is", "Is"), ("match", "Match"),
   ("next", "Next"), ("null", "Null"), ("print", "Print"), ("return", "Return"), ("true", "True"),
   ("while", "While")] := by decide

/-- the limits of C20 -/
theorem callDepthLimit_tie : Generated.callDepthLimit = callDepthLimit := by decide
theorem fillLimit_tie : Generated.setMemberComparisons = ["> 1024*1024"] ∧ fillLimit = 1024 * 1024 := by decide
theorem getMember_never_fills : Generated.getMemberComparisons = ["< 0", "< 0", "< 0"] := by decide
theorem widthLimit_tie : Generated.printfComparisons.take 3 = ["< 1", "> 65536", "< -65536"] ∧ widthLimit = 65536 := by decide

/-- the explicit `panic(` sites, by message (where they stand and what the enclosing function is
    called does not matter). Model counterparts: "unhandled literal type" and "speculative object
    has no …" are `throwPanic` sites shown unreachable (`C01.run_never_panics_src`); "unhandled
    (comparison) operator", "attempted compound assignment", "expected a regex token",
    "unhandled value constructor" and "unknown rule type" are default branches of switches over
    closed enumerations that the model's total pattern matches do not have. -/
theorem panicSites_tie : Generated.panicSites =
  ["\"attempted compound assignment with %s\"", "\"expected a regex token but got %s\"",
   "\"speculative object has no Str or Num\"", "\"unhandled comparison operator\"",
   "\"unhandled literal type: %s\"", "\"unhandled operator\"", "\"unhandled value constructor %T\"",
   "\"unknown rule type %s\""] := by decide

/-- every `range` over a Go map (iteration order is random), found with go/types: the two
    match-binding maps and NewValue's JSON object (each only inserts into another map, no early
    exit, no output) and sortedKeys (collects the keys and sorts them).  Everything else that
    walks an object goes through sortedKeys. -/
theorem mapRanges_tie : Generated.mapRangeSites =
    ["evaluator.go:evalArrayCaseMatch:newBindings", "evaluator.go:evalExpr:bindings",
     "value.go:NewValue:val", "value.go:sortedKeys:*v.Obj"] := by decide

/-- package-level variables that are written after initialisation (mutable global state through
    which one run could influence the next): only the four lazily built prototype tables, which
    are filled once with the same content whatever the program (C10 history-independence family);
    limits, sentinel errors and lookup tables are never written -/
theorem packageVars_tie : Generated.packageVars =
  ["arrayPrototype", "numPrototype", "objPrototype", "strPrototype"] := by decide

/-- no time, randomness, environment or concurrency in the interpreter package -/
theorem imports_tie : Generated.nondeterministicImports = [] := by decide

/-- the standard-library functions the methods and builtins call (C16) -/
theorem stdlibCallees_tie : Generated.stdlibCallees =
  ["prototypes.go:cmp.Compare", "prototypes.go:math.Ceil", "prototypes.go:math.Floor",
   "prototypes.go:math.Round", "prototypes.go:slices.SortStableFunc", "prototypes.go:strings.Split",
   "prototypes.go:strings.ToLower", "prototypes.go:strings.ToUpper", "runtime.go:json.MarshalIndent",
   "runtime.go:strconv.ParseFloat", "runtime.go:strconv.ParseInt", "runtime.go:strings.Repeat",
   "runtime.go:unicode.IsDigit"] := by decide

end Jqawk.FactsTie
