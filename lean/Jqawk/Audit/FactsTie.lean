/-
  The second tie between model and code: facts re-extracted from /repo/src on every run
  (Jqawk/Generated/Facts.lean, never committed) must equal what the model and the proofs assume.
  Each `theorem` below is a proof obligation that an edit of the Go source can break.
-/
import Jqawk.Generated.Facts
import Jqawk.Model.Table
import Jqawk.Model.State
import Jqawk.Model.Value
import Jqawk.Model.Natives

namespace Jqawk.FactsTie
open Jqawk

/-- the Pratt rule table the model parser is driven by is the one in src/parser.go -/
theorem ruleTable_tie : Generated.ruleTable = expectedRuleTable := by decide

/-- the token tags, in Go's iota order (the model's `Tag` mirrors this order) -/
theorem tokenTags_tie : Generated.tokenTags =
  ["EOF", "Error", "Ident", "Str", "Regex", "Num", "Begin", "End", "BeginFile", "EndFile", "Print",
   "Function", "Return", "If", "Else", "For", "While", "In", "Match", "Break", "Continue", "Next",
   "Newline", "Exit", "Null", "Is", "True", "False", "LCurly", "RCurly", "LSquare", "RSquare",
   "LParen", "RParen", "LessThan", "GreaterThan", "Dollar", "Comma", "Dot", "Equal", "EqualEqual",
   "BangEqual", "LessEqual", "GreaterEqual", "Colon", "SemiColon", "Plus", "Minus", "Multiply",
   "Divide", "PlusEqual", "MinusEqual", "MultiplyEqual", "DivideEqual", "Tilde", "BangTilde",
   "AmpAmp", "PipePipe", "Arrow", "Bang", "PlusPlus", "MinusMinus", "Percent"] := by decide

theorem precNames_tie : Generated.precNames =
  ["PrecNone", "PrecAssign", "PrecLogical", "PrecComparison", "PrecAddition", "PrecMultiplication",
   "PrecPostfix", "PrecUnary", "PrecCall", "PrecGroup"] := by decide

/-- what decides associativity: how `binary`, `assign` and `unary` parse their operand -/
theorem operandPrec_binary_tie : Generated.operandPrec_binary = "p.rule(opToken.Tag).prec + 1" := by decide
theorem operandPrec_assign_tie : Generated.operandPrec_assign = "p.rule(opToken.Tag).prec" := by decide
theorem operandPrec_unary_tie : Generated.operandPrec_unary = "PrecUnary" := by decide

theorem keywords_tie : Generated.keywords =
  [("BEGIN", "Begin"), ("END", "End"), ("BEGINFILE", "BeginFile"), ("ENDFILE", "EndFile"),
   ("print", "Print"), ("$", "Dollar"), ("function", "Function"), ("return", "Return"), ("if", "If"),
   ("else", "Else"), ("for", "For"), ("while", "While"), ("in", "In"), ("match", "Match"),
   ("true", "True"), ("false", "False"), ("break", "Break"), ("continue", "Continue"),
   ("next", "Next"), ("exit", "Exit"), ("null", "Null"), ("is", "Is")] := by decide

/-- the limits of C20 -/
theorem callDepthLimit_tie : Generated.callDepthLimit = callDepthLimit := by decide
theorem fillLimit_tie : Generated.setMemberComparisons = ["> 1024*1024"] ∧ fillLimit = 1024 * 1024 := by decide
theorem getMember_never_fills : Generated.getMemberComparisons = ["< 0", "< 0", "< 0"] := by decide
theorem widthLimit_tie : Generated.printfComparisons.take 3 = ["< 1", "> 65536", "< -65536"] ∧ widthLimit = 65536 := by decide

/-- the explicit `panic(` sites; each has a model counterpart shown unreachable (C01) -/
theorem panicSites_tie : Generated.panicSites =
  ["evaluator.go:createSpeculativeObjects", "evaluator.go:evalBinaryExpr", "evaluator.go:evalBinaryExpr",
   "evaluator.go:evalExpr", "evaluator.go:readRules", "parser.go:regex",
   "parser.go:rewriteCompundAssingment", "value.go:NewValue"] := by decide

/-- every `range` over a Go map (iteration order is random), found with go/types: the two
    match-binding maps and NewValue's JSON object (each only inserts into another map, no early
    exit, no output) and sortedKeys (collects the keys and sorts them).  Everything else that
    walks an object goes through sortedKeys. -/
theorem mapRanges_tie : Generated.mapRangeSites =
    ["evaluator.go:evalArrayCaseMatch:newBindings", "evaluator.go:evalExpr:bindings",
     "value.go:NewValue:val", "value.go:sortedKeys:*v.Obj"] := by decide

/-- package-level mutable state: limits, sentinel errors and the lazily built prototype tables -/
theorem packageVars_tie : Generated.packageVars =
  ["evaluator.go:callDepthLimit", "evaluator.go:errBreak", "evaluator.go:errContinue",
   "evaluator.go:errExit", "evaluator.go:errNext", "evaluator.go:errReturn",
   "evaluator.go:fuzzingLoopLimit", "prototypes.go:arrayPrototype", "prototypes.go:numPrototype",
   "prototypes.go:objPrototype", "prototypes.go:strPrototype"] := by decide

/-- no time, randomness, environment or concurrency in the interpreter package -/
theorem imports_tie : Generated.nondeterministicImports = [] := by decide

/-- the standard-library functions the methods and builtins call (C16) -/
theorem stdlibCallees_tie : Generated.stdlibCallees =
  ["prototypes.go:cmp.Compare", "prototypes.go:math.Ceil", "prototypes.go:math.Floor",
   "prototypes.go:math.Round", "prototypes.go:slices.SortStableFunc", "prototypes.go:strings.Split",
   "prototypes.go:strings.ToLower", "prototypes.go:strings.ToUpper", "runtime.go:json.MarshalIndent",
   "runtime.go:strconv.ParseFloat", "runtime.go:strconv.ParseInt", "runtime.go:strings.Repeat",
   "runtime.go:unicode.IsDigit"] := by decide

end Jqawk.FactsTie
