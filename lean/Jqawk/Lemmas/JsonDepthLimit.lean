import Jqawk.Lemmas.JsonBytesTree

/-!
  `Json.nesting` (Model/Json.lean: the bracket count `json.MarshalIndent`'s indent pass checks
  against `maxNestingDepth`) is the nesting depth `depth` of Lemmas/JsonBytesTree.lean, so
  `Json.tooDeep j` says `depth j > 10000`: exactly the negation of hypothesis (b) of the byte-level
  theorems of Props/C04.lean section 6.
-/

namespace Jqawk.JsonBytes
open Jqawk Jqawk.Json

mutual
theorem nesting_eq_depth : ∀ (j : JVal), nesting j = depth j
  | .null => rfl
  | .bool _ => rfl
  | .num _ => rfl
  | .str _ => rfl
  | .arr xs => by simp only [nesting, depth]; rw [nestingItems_eq xs]
  | .obj ms => by simp only [nesting, depth]; rw [nestingMembers_eq ms]
theorem nestingItems_eq : ∀ (xs : List JVal), nestingItems xs = depthList xs
  | [] => rfl
  | x :: xs => by simp only [nestingItems, depthList]; rw [nesting_eq_depth x, nestingItems_eq xs]
theorem nestingMembers_eq : ∀ (ms : List (Bytes × JVal)), nestingMembers ms = depthMembers ms
  | [] => rfl
  | (_, v) :: ms => by simp only [nestingMembers, depthMembers]; rw [nesting_eq_depth v, nestingMembers_eq ms]
end

theorem tooDeep_iff (j : JVal) : tooDeep j = true ↔ maxNestingDepth < depth j := by
  simp [tooDeep, nesting_eq_depth]

theorem tooDeep_false_iff (j : JVal) : tooDeep j = false ↔ depth j ≤ maxNestingDepth := by
  simp [tooDeep, nesting_eq_depth]

end Jqawk.JsonBytes
