/-
  Renaming of cell ids (C14), part 7: the whole evaluator.  Two runs of any evaluator function
  from related states, on programs that agree on every function a live value can refer to, give
  related results — provided every identifier the code looks up is allowed in the context
  (`idsOK`: all of them in the main evaluator; `$` and the builtins for a selector that is
  compared with the same expression evaluated by a rule; everything but `$` in ENDFILE rules).
-/
import Jqawk.Lemmas.SelectorNatives

set_option linter.unusedVariables false
set_option linter.unusedSimpArgs false

namespace Jqawk
namespace Sel

/-! ### the syntactic side condition -/

mutual
/-- every identifier the evaluation of the expression can look up is allowed: `$` if `d`, a name
    if `ok` says so (patterns of `match` bind, they do not look up; the right side of `is` is a
    type name) -/
def idsE (d : Bool) (ok : Bytes → Bool) : Expr → Bool
  | .lit _ => true
  | .ident t => if t.tag == .dollar then d else ok t.text
  | .arr _ items => idsEs d ok items
  | .obj _ items => idsKVs d ok items
  | .unary e _ _ => idsE d ok e
  | .binary l r op => idsE d ok l && (op.tag == .is || idsE d ok r)
  | .call f args => idsE d ok f && idsEs d ok args
  | .match_ _ v cases => idsE d ok v && idsCases d ok cases
def idsEs (d : Bool) (ok : Bytes → Bool) : List Expr → Bool
  | [] => true
  | e :: es => idsE d ok e && idsEs d ok es
def idsKVs (d : Bool) (ok : Bytes → Bool) : List (Bytes × Expr) → Bool
  | [] => true
  | (_, e) :: es => idsE d ok e && idsKVs d ok es
def idsCases (d : Bool) (ok : Bytes → Bool) : List MatchCase → Bool
  | [] => true
  | (.mk _ body) :: cs => idsS d ok body && idsCases d ok cs
def idsS (d : Bool) (ok : Bytes → Bool) : Stmt → Bool
  | .block _ body => idsSs d ok body
  | .print _ args => (!args.isEmpty || d) && idsEs d ok args
  | .expr e => idsE d ok e
  | .ret none => true
  | .ret (some e) => idsE d ok e
  | .brk _ => true
  | .cont _ => true
  | .next _ => true
  | .exit _ => true
  | .if_ c b none => idsE d ok c && idsS d ok b
  | .if_ c b (some e) => idsE d ok c && idsS d ok b && idsS d ok e
  | .while_ c b => idsE d ok c && idsS d ok b
  | .for_ pre c post b => idsE d ok pre && idsE d ok c && idsE d ok post && idsS d ok b
  | .forIn id idx iter b =>
    ok id.text && (match idx with | none => true | some it => ok it.text) && idsE d ok iter && idsS d ok b
def idsSs (d : Bool) (ok : Bytes → Bool) : List Stmt → Bool
  | [] => true
  | s :: ss => idsS d ok s && idsSs d ok ss
end

mutual
theorem idsE_all : ∀ e : Expr, idsE true (fun _ => true) e = true
  | .lit _ => rfl
  | .ident t => by simp [idsE]
  | .arr _ items => by rw [idsE]; exact idsEs_all items
  | .obj _ items => by rw [idsE]; exact idsKVs_all items
  | .unary e _ _ => by rw [idsE]; exact idsE_all e
  | .binary l r op => by rw [idsE, idsE_all l, idsE_all r]; simp
  | .call f args => by rw [idsE, idsE_all f, idsEs_all args]; rfl
  | .match_ _ v cases => by rw [idsE, idsE_all v, idsCases_all cases]; rfl
theorem idsEs_all : ∀ es : List Expr, idsEs true (fun _ => true) es = true
  | [] => rfl
  | e :: es => by rw [idsEs, idsE_all e, idsEs_all es]; rfl
theorem idsKVs_all : ∀ es : List (Bytes × Expr), idsKVs true (fun _ => true) es = true
  | [] => rfl
  | (_, e) :: es => by rw [idsKVs, idsE_all e, idsKVs_all es]; rfl
theorem idsCases_all : ∀ cs : List MatchCase, idsCases true (fun _ => true) cs = true
  | [] => rfl
  | (.mk _ body) :: cs => by rw [idsCases, idsS_all body, idsCases_all cs]; rfl
theorem idsS_all : ∀ s : Stmt, idsS true (fun _ => true) s = true
  | .block _ body => by rw [idsS]; exact idsSs_all body
  | .print _ args => by rw [idsS, idsEs_all args]; simp
  | .expr e => by rw [idsS]; exact idsE_all e
  | .ret none => rfl
  | .ret (some e) => by rw [idsS]; exact idsE_all e
  | .brk _ => rfl
  | .cont _ => rfl
  | .next _ => rfl
  | .exit _ => rfl
  | .if_ c b none => by rw [idsS, idsE_all c, idsS_all b]; rfl
  | .if_ c b (some e) => by rw [idsS, idsE_all c, idsS_all b, idsS_all e]; rfl
  | .while_ c b => by rw [idsS, idsE_all c, idsS_all b]; rfl
  | .for_ pre c post b => by rw [idsS, idsE_all pre, idsE_all c, idsE_all post, idsS_all b]; rfl
  | .forIn id idx iter b => by
    cases idx <;> simp only [idsS, idsE_all iter, idsS_all b, Bool.and_self]
theorem idsSs_all : ∀ ss : List Stmt, idsSs true (fun _ => true) ss = true
  | [] => rfl
  | s :: ss => by rw [idsSs, idsS_all s, idsSs_all ss]; rfl
end


/-! ### the induction -/

/-- a context the evaluator can run in: well-formed, and the bodies of the functions both
    programs share look up allowed identifiers only -/
structure GoodX (X : XCtx) : Prop where
  wf : X.WF
  fns : ∀ (i : Nat) (f : FuncDef), X.progA.functions[i]? = some f → X.progB.functions[i]? = some f →
    idsS X.allowD X.allow f.body = true

theorem GoodX.enter {X : XCtx} (g : GoodX X) : GoodX X.enter := ⟨g.wf.enter, g.fns⟩

def OptMemR (K : Ctx) (w : Nat) : Option (List (Bytes × CellId)) → Option (List (Bytes × CellId)) → Prop
  | none, none => True
  | some a, some b => MemR K w a b
  | _, _ => False

instance {K : Ctx} : MonoR (OptMemR K) :=
  ⟨fun {w w' a b} h hw => by cases a <;> cases b <;> first | exact h | exact MemR.mono h hw⟩

/-- an item of a `for … in` loop in the two runs -/
def ItemR (K : Ctx) (w : Nat) (a b : Option Val × (CellId ⊕ (Val × Option CellId))) : Prop :=
  OptValR K w a.1 b.1 ∧
  match a.2, b.2 with
  | .inl ca, .inl cb => CellR K w ca cb
  | .inr (va, oa), .inr (vb, ob) => ValR K w va vb ∧ OptCellR K w oa ob
  | _, _ => False

abbrev Item := Option Val × (CellId ⊕ (Val × Option CellId))

structure AllSim (nA nB : Nat) : Prop where
  expr : ∀ {X : XCtx}, GoodX X → ∀ (w : Nat) (e : Expr), idsE X.allowD X.allow e = true →
    SimW X w (CellR X.toCtx) (evalExpr X.progA nA e) (evalExpr X.progB nB e)
  objItems : ∀ {X : XCtx}, GoodX X → ∀ (w w0 : Nat) (pos : Nat) (items : List (Bytes × Expr))
    (accA accB : List (Bytes × CellId)), idsKVs X.allowD X.allow items = true →
    MemR X.toCtx w0 accA accB → w0 ≤ w →
    SimW X w (MemR X.toCtx) (evalObjItems X.progA nA pos items accA) (evalObjItems X.progB nB pos items accB)
  exprList : ∀ {X : XCtx}, GoodX X → ∀ (w : Nat) (es : List Expr) (copy : Bool),
    idsEs X.allowD X.allow es = true →
    SimW X w (ListCellR X.toCtx) (evalExprList X.progA nA es copy) (evalExprList X.progB nB es copy)
  matchCases : ∀ {X : XCtx}, GoodX X → ∀ (w w0 : Nat) (pos : Nat) (va vb : CellId) (cs : List MatchCase),
    idsCases X.allowD X.allow cs = true → CellR X.toCtx w0 va vb → w0 ≤ w →
    SimW X w (CellR X.toCtx) (evalMatchCases X.progA nA pos va cs) (evalMatchCases X.progB nB pos vb cs)
  caseMatch : ∀ {X : XCtx}, GoodX X → ∀ (w w0 : Nat) (va vb : CellId) (ps : List Expr),
    CellR X.toCtx w0 va vb → w0 ≤ w →
    SimW X w (OptMemR X.toCtx) (evalCaseMatch X.progA nA va ps) (evalCaseMatch X.progB nB vb ps)
  arrayCaseMatch : ∀ {X : XCtx}, GoodX X → ∀ (w w0 : Nat) (va vb : CellId) (ps : List Expr),
    CellR X.toCtx w0 va vb → w0 ≤ w →
    SimW X w (OptMemR X.toCtx) (evalArrayCaseMatch X.progA nA va ps) (evalArrayCaseMatch X.progB nB vb ps)
  matchElems : ∀ {X : XCtx}, GoodX X → ∀ (w w0 w1 : Nat) (ca cb : List CellId) (ps : List Expr)
    (accA accB : List (Bytes × CellId)), ListCellR X.toCtx w0 ca cb → w0 ≤ w →
    MemR X.toCtx w1 accA accB → w1 ≤ w →
    SimW X w (OptMemR X.toCtx) (Jqawk.matchElems X.progA nA ca ps accA) (Jqawk.matchElems X.progB nB cb ps accB)
  call : ∀ {X : XCtx}, GoodX X → ∀ (w w0 w1 : Nat) (pos : Nat) (fa fb : CellId) (aa ab : List CellId),
    CellR X.toCtx w0 fa fb → w0 ≤ w → ListCellR X.toCtx w1 aa ab → w1 ≤ w →
    SimW X w (CellR X.toCtx) (callFunction X.progA nA pos fa aa) (callFunction X.progB nB pos fb ab)
  unary : ∀ {X : XCtx}, GoodX X → ∀ (w : Nat) (e : Expr) (op : Token) (p : Bool),
    idsE X.allowD X.allow e = true →
    SimW X w (CellR X.toCtx) (evalUnary X.progA nA e op p) (evalUnary X.progB nB e op p)
  binary : ∀ {X : XCtx}, GoodX X → ∀ (w : Nat) (l r : Expr) (op : Token),
    idsE X.allowD X.allow l = true → (op.tag == Tag.is || idsE X.allowD X.allow r) = true →
    SimW X w (CellR X.toCtx) (evalBinary X.progA nA l r op) (evalBinary X.progB nB l r op)
  stmt : ∀ {X : XCtx}, GoodX X → ∀ (w : Nat) (st : Stmt), idsS X.allowD X.allow st = true →
    SimW X w EqR (evalStmt X.progA nA st) (evalStmt X.progB nB st)
  block : ∀ {X : XCtx}, GoodX X → ∀ (w : Nat) (sts : List Stmt), idsSs X.allowD X.allow sts = true →
    SimW X w EqR (evalBlock X.progA nA sts) (evalBlock X.progB nB sts)
  whileL : ∀ {X : XCtx}, GoodX X → ∀ (w : Nat) (c : Expr) (b : Stmt), idsE X.allowD X.allow c = true →
    idsS X.allowD X.allow b = true →
    SimW X w EqR (whileLoop X.progA nA c b) (whileLoop X.progB nB c b)
  forL : ∀ {X : XCtx}, GoodX X → ∀ (w : Nat) (c p : Expr) (b : Stmt), idsE X.allowD X.allow c = true →
    idsE X.allowD X.allow p = true → idsS X.allowD X.allow b = true →
    SimW X w EqR (forLoop X.progA nA c p b) (forLoop X.progB nB c p b)
  forInL : ∀ {X : XCtx}, GoodX X → ∀ (w w0 : Nat) (la lb : CellId) (ia ib : Option CellId) (b : Stmt)
    (itA itB : List Item), CellR X.toCtx w0 la lb → OptCellR X.toCtx w0 ia ib →
    F2 (ItemR X.toCtx w0) itA itB → w0 ≤ w → idsS X.allowD X.allow b = true →
    SimW X w EqR (forInLoop X.progA nA la ia b itA) (forInLoop X.progB nB lb ib b itB)

theorem allSim_zeroL (nB : Nat) : AllSim 0 nB := by
  constructor
  all_goals
    intros
    first
      | (unfold evalExpr; exact SimW.oof)
      | (unfold evalObjItems; exact SimW.oof)
      | (unfold evalExprList; exact SimW.oof)
      | (unfold evalMatchCases; exact SimW.oof)
      | (unfold evalCaseMatch; exact SimW.oof)
      | (unfold evalArrayCaseMatch; exact SimW.oof)
      | (unfold Jqawk.matchElems; exact SimW.oof)
      | (unfold callFunction; exact SimW.oof)
      | (unfold evalUnary; exact SimW.oof)
      | (unfold evalBinary; exact SimW.oof)
      | (unfold evalStmt; exact SimW.oof)
      | (unfold evalBlock; exact SimW.oof)
      | (unfold whileLoop; exact SimW.oof)
      | (unfold forLoop; exact SimW.oof)
      | (unfold forInLoop; exact SimW.oof)

theorem allSim_zeroR (nA : Nat) : AllSim nA 0 := by
  constructor
  all_goals
    intros
    first
      | (unfold evalExpr; exact SimW.oofR)
      | (unfold evalObjItems; exact SimW.oofR)
      | (unfold evalExprList; exact SimW.oofR)
      | (unfold evalMatchCases; exact SimW.oofR)
      | (unfold evalCaseMatch; exact SimW.oofR)
      | (unfold evalArrayCaseMatch; exact SimW.oofR)
      | (unfold Jqawk.matchElems; exact SimW.oofR)
      | (unfold callFunction; exact SimW.oofR)
      | (unfold evalUnary; exact SimW.oofR)
      | (unfold evalBinary; exact SimW.oofR)
      | (unfold evalStmt; exact SimW.oofR)
      | (unfold evalBlock; exact SimW.oofR)
      | (unfold whileLoop; exact SimW.oofR)
      | (unfold forLoop; exact SimW.oofR)
      | (unfold forInLoop; exact SimW.oofR)

/-- the value of an arithmetic / comparison / regex operator mentions no cell -/
def Scalar : Val → Prop
  | .bool _ => True
  | .num _ => True
  | .str _ none => True
  | _ => False

theorem binaryOp_scalar {op : Tag} {l r v : Val} (h : binaryOp op l r = .val v) : Scalar v := by
  unfold binaryOp at h
  split at h
  · split at h
    · cases h; trivial
    · split at h
      · cases h
      · cases h; trivial
  · split at h
    · split at h
      · cases h; trivial
      · dsimp only at h
        split at h
        · cases h; trivial
        · cases h; trivial
        · cases h; trivial
        · split at h
          · cases h
          · cases h; trivial
        · split at h
          · cases h
          · cases h; trivial
    · dsimp only at h
      split at h
      · cases h
      · split at h
        · cases h
        · cases h
        · cases h; trivial

theorem Scalar.valR {K : Ctx} {v : Val} (h : Scalar v) (w : Nat) : ValR K w v v := by
  cases v with
  | str s sp => cases sp with
    | none => exact ⟨rfl, trivial⟩
    | some _ => exact h.elim
  | bool b => exact ⟨rfl, trivial⟩
  | num x => exact ⟨rfl, trivial⟩
  | _ => exact h.elim

theorem SimW.strengthen {X : XCtx} {α : Type} {VR : Nat → α → α → Prop} {w : Nat} {mA mB : EM α}
    {P : α → Prop} (h : SimW X w VR mA mB) (hp : ∀ s b s', mB s = .ok b s' → P b) :
    SimW X w (fun w' a b => VR w' a b ∧ P b) mA mB := by
  intro sA sB hs hw
  have h1 := h sA sB hs hw
  cases hA : mA sA <;> cases hB : mB sB <;> rw [hA, hB] at h1 <;> first
    | trivial
    | exact h1
    | exact ⟨h1.1, ⟨h1.2.1, hp _ _ _ hB⟩, h1.2.2⟩

theorem exprList_length (prog : Program) : ∀ (n : Nat) (es : List Expr) (c : Bool) (s : St)
    (cells : List CellId) (s' : St), evalExprList prog n es c s = .ok cells s' → cells.length = es.length
  | 0, _, _, _, _, _, h => by unfold evalExprList at h; cases h
  | n + 1, [], _, _, _, _, h => by
    unfold evalExprList at h
    simp only [pure, EM.pure, Res.ok.injEq] at h
    rw [← h.1]
    rfl
  | n + 1, e :: rest, c, s, cells, s', h => by
    unfold evalExprList at h
    simp only [bind, EM.bind] at h
    split at h
    · rename_i v s1 _
      split at h
      · rename_i c1 s2 _
        split at h
        · rename_i cs s3 hrec
          simp only [pure, EM.pure, Res.ok.injEq] at h
          rw [← h.1, List.length_cons, List.length_cons, exprList_length prog n rest c s2 cs s3 hrec]
        · cases h
        · cases h
      · cases h
      · cases h
    · cases h
    · cases h

/-- the index variable of `for … in` gets the index (arrays, strings) or the member value (objects) -/
def setIndex (il : Option CellId) (idx : Option Val) (item : CellId ⊕ (Val × Option CellId)) : EM Unit :=
  match il with
  | none => pure ()
  | some ic =>
    match idx, item with
    | some iv, _ => writeCell ic iv
    | none, .inr (_, some mc) => do writeCell ic (← readCell mc)
    | none, _ => pure ()

/-- the loop variable gets the element -/
def setLoc (loc : CellId) (item : CellId ⊕ (Val × Option CellId)) : EM Unit :=
  match item with
  | .inl c => do writeCell loc (← readCell c)
  | .inr (v, _) => writeCell loc v

section Succ

variable {nA nB : Nat} (ih : AllSim nA nB)
include ih

/-- leaves that need no hypothesis -/
macro "sim_leaf" wf:term : tactic => `(tactic| first
  | exact SimW.throwRt _ _
  | exact SimW.throwPanic _
  | exact SimW.throwUnmodelled _
  | exact SimW.oof
  | exact SimW.newCell $wf (ValR.strNone 0 _) (Nat.zero_le _)
  | exact SimW.newCell $wf (ValR.regex 0 _) (Nat.zero_le _)
  | exact SimW.newCell $wf (ValR.num 0 _) (Nat.zero_le _)
  | exact SimW.newCell $wf (ValR.bool 0 _) (Nat.zero_le _)
  | exact SimW.newCell $wf (ValR.nilNone 0) (Nat.zero_le _)
  | exact SimW.newCell $wf (ValR.unknown 0) (Nat.zero_le _))

omit ih in
theorem sim_getIdentifier {X : XCtx} (g : GoodX X) (w : Nat) (t : Token)
    (ht : idsE X.allowD X.allow (.ident t) = true) :
    SimW X w (CellR X.toCtx) (getIdentifier X.progA t) (getIdentifier X.progB t) := by
  unfold getIdentifier
  simp only [idsE] at ht
  by_cases hd : (t.tag == Tag.dollar) = true
  · simp only [hd, ↓reduceIte] at ht ⊢
    apply SimW.getSt_bind
    intro sA sB hs hw
    have hr := hs.ruleRoot ht
    cases hra : sA.ruleRoot with
    | none =>
      cases hrb : sB.ruleRoot with
      | none => exact SimW.throwRt _ _
      | some cb => rw [hra, hrb] at hr; exact hr.elim
    | some ca =>
      cases hrb : sB.ruleRoot with
      | none => rw [hra, hrb] at hr; exact hr.elim
      | some cb =>
        rw [hra, hrb] at hr
        exact SimW.pure hr (Nat.le_refl _)
  · simp only [hd, Bool.false_eq_true, ↓reduceIte] at ht ⊢
    refine SimW.bind (SimW.getVariable g.wf t.text (.inl ht)) (fun w1 ra rb hw1 hr => ?_)
    cases ra with
    | error ma =>
      cases rb with
      | error mb => cases hr; exact SimW.throwRt _ _
      | ok _ => exact hr.elim
    | ok ca =>
      cases rb with
      | error _ => exact hr.elim
      | ok cb => exact SimW.pure (VR := CellR X.toCtx) hr (Nat.le_refl _)

theorem sim_expr {X : XCtx} (g : GoodX X) (w : Nat) (e : Expr) (he : idsE X.allowD X.allow e = true) :
    SimW X w (CellR X.toCtx) (evalExpr X.progA (nA + 1) e) (evalExpr X.progB (nB + 1) e) := by
  have wf := g.wf
  unfold evalExpr
  cases e with
  | lit t =>
    dsimp only
    split
    all_goals first | sim_leaf wf | (split <;> sim_leaf wf)
  | ident t => exact sim_getIdentifier g w t he
  | unary inner op p =>
    simp only [idsE] at he
    exact ih.unary g w inner op p he
  | binary l r op =>
    simp only [idsE, Bool.and_eq_true] at he
    exact ih.binary g w l r op he.1 he.2
  | call f args =>
    simp only [idsE, Bool.and_eq_true] at he
    dsimp only
    refine SimW.bind (ih.expr g w f he.1) (fun w1 fa fb hw1 hf => ?_)
    refine SimW.bind (ih.exprList g w1 args true he.2) (fun w2 aa ab hw2 ha => ?_)
    exact ih.call g w2 w1 w2 _ fa fb aa ab hf hw2 ha (Nat.le_refl _)
  | arr t items =>
    simp only [idsE] at he
    dsimp only
    refine SimW.bind (ih.exprList g w items true he) (fun w1 ca cb hw1 hc => ?_)
    refine SimW.bind (SimW.allocArrM wf (ArrR.ofList hc) (Nat.le_refl _)) (fun w2 a a' hw2 ha => ?_)
    obtain ⟨rfl, hle⟩ := ha
    exact SimW.newCell wf (va := .arr a) (vb := .arr a) (w0 := w2) ⟨rfl, hle⟩ (Nat.le_refl _)
  | match_ t v cases =>
    simp only [idsE, Bool.and_eq_true] at he
    dsimp only
    refine SimW.bind (ih.expr g w v he.1) (fun w1 va vb hw1 hv => ?_)
    exact ih.matchCases g w1 w1 _ va vb cases he.2 hv (Nat.le_refl _)
  | obj t items =>
    simp only [idsE] at he
    dsimp only
    refine SimW.bind (ih.objItems g w 0 t.pos items [] [] he (MemR.nil 0) (Nat.zero_le _))
      (fun w1 ma mb hw1 hm => ?_)
    refine SimW.bind (SimW.allocObjM wf hm (Nat.le_refl _)) (fun w2 o o' hw2 ho => ?_)
    obtain ⟨rfl, hle⟩ := ho
    exact SimW.newCell wf (va := .obj o) (vb := .obj o) (w0 := w2) ⟨rfl, hle⟩ (Nat.le_refl _)


omit ih in
/-- the result of a `copyValue` is used or turned into a runtime error -/
theorem sim_exResult {X : XCtx} {α : Type} {VR : Nat → α → α → Prop} {w : Nat} {ra rb : Except String CellId} :
    ExR (CellR X.toCtx) w ra rb → ∀ (pos : Nat) {kA kB : CellId → EM α},
    (∀ ca cb, CellR X.toCtx w ca cb → SimW X w VR (kA ca) (kB cb)) →
    SimW X w VR
      (match ra with | .error m => throwRt pos m | .ok c => kA c)
      (match rb with | .error m => throwRt pos m | .ok c => kB c) := by
  intro hr pos kA kB hk
  cases ra with
  | error ma =>
    cases rb with
    | error mb => cases hr; exact SimW.throwRt _ _
    | ok _ => exact hr.elim
  | ok ca =>
    cases rb with
    | error _ => exact hr.elim
    | ok cb => exact hk ca cb hr

theorem sim_objItems {X : XCtx} (g : GoodX X) (w w0 : Nat) (pos : Nat) (items : List (Bytes × Expr))
    (accA accB : List (Bytes × CellId)) (hi : idsKVs X.allowD X.allow items = true)
    (hacc : MemR X.toCtx w0 accA accB) (hw0 : w0 ≤ w) :
    SimW X w (MemR X.toCtx) (evalObjItems X.progA (nA + 1) pos items accA)
      (evalObjItems X.progB (nB + 1) pos items accB) := by
  have wf := g.wf
  cases items with
  | nil => unfold evalObjItems; exact SimW.pure hacc hw0
  | cons kv rest =>
    obtain ⟨k, e⟩ := kv
    simp only [idsKVs, Bool.and_eq_true] at hi
    unfold evalObjItems
    refine SimW.bind (ih.expr g w e hi.1) (fun w1 va vb hw1 hv => ?_)
    refine SimW.bind (SimW.newCell wf (ValR.unknown 0) (Nat.zero_le _)) (fun w2 ca cb hw2 hc => ?_)
    refine SimW.bind (SimW.copyValue wf hv hw2 hc (Nat.le_refl _)) (fun w3 ra rb hw3 hr => ?_)
    refine sim_exResult hr pos (fun c1 c2 hcc => ?_)
    exact ih.objItems g w3 w3 pos rest _ _ hi.2
      ((hacc.mono (Nat.le_trans hw0 (Nat.le_trans hw1 (Nat.le_trans hw2 hw3)))).objInsert k hcc) (Nat.le_refl _)

theorem sim_exprList {X : XCtx} (g : GoodX X) (w : Nat) (es : List Expr) (copy : Bool)
    (hi : idsEs X.allowD X.allow es = true) :
    SimW X w (ListCellR X.toCtx) (evalExprList X.progA (nA + 1) es copy)
      (evalExprList X.progB (nB + 1) es copy) := by
  have wf := g.wf
  cases es with
  | nil => unfold evalExprList; exact SimW.pure (ListCellR.nil 0) (Nat.zero_le _)
  | cons e rest =>
    simp only [idsEs, Bool.and_eq_true] at hi
    unfold evalExprList
    refine SimW.bind (ih.expr g w e hi.1) (fun w1 va vb hw1 hv => ?_)
    refine SimW.bind (VR1 := CellR X.toCtx) ?_ (fun w2 ca cb hw2 hc => ?_)
    · cases copy with
      | false => exact SimW.pure hv (Nat.le_refl _)
      | true =>
        simp only [↓reduceIte]
        refine SimW.bind (SimW.newCell wf (ValR.strNone 0 _) (Nat.zero_le _)) (fun w3 fa fb hw3 hf => ?_)
        refine SimW.bind (SimW.copyValue wf hv hw3 hf (Nat.le_refl _)) (fun w4 ra rb hw4 hr => ?_)
        exact sim_exResult hr _ (fun c1 c2 hcc => SimW.pure hcc (Nat.le_refl _))
    · refine SimW.bind (ih.exprList g w2 rest copy hi.2) (fun w3 csa csb hw3 hcs => ?_)
      exact SimW.pure (VR := ListCellR X.toCtx) (ListCellR.cons (hc.mono hw3) hcs) (Nat.le_refl _)

theorem sim_matchCases {X : XCtx} (g : GoodX X) (w w0 : Nat) (pos : Nat) (va vb : CellId)
    (cs : List MatchCase) (hi : idsCases X.allowD X.allow cs = true) (hv : CellR X.toCtx w0 va vb)
    (hw0 : w0 ≤ w) :
    SimW X w (CellR X.toCtx) (evalMatchCases X.progA (nA + 1) pos va cs)
      (evalMatchCases X.progB (nB + 1) pos vb cs) := by
  have wf := g.wf
  cases cs with
  | nil => unfold evalMatchCases; sim_leaf wf
  | cons c rest =>
    obtain ⟨pats, body⟩ := c
    simp only [idsCases, Bool.and_eq_true] at hi
    unfold evalMatchCases
    refine SimW.bind (ih.caseMatch g w w0 va vb pats hv hw0) (fun w1 ra rb hw1 hr => ?_)
    cases ra with
    | none =>
      cases rb with
      | none => exact ih.matchCases g w1 w0 pos va vb rest hi.2 hv (Nat.le_trans hw0 hw1)
      | some _ => exact hr.elim
    | some ba =>
      cases rb with
      | none => exact hr.elim
      | some bb =>
        have hb : MemR X.toCtx w1 ba bb := hr
        dsimp only
        apply SimW.framed wf
        refine SimW.bind (SimW.bindAll (X := X.enter) wf.enter X.canBind_enter hb (Nat.le_refl _))
          (fun w2 _ _ hw2 _ => ?_)
        cases body with
        | expr be => exact ih.expr g.enter w2 be hi.1
        | _ =>
          refine SimW.bind (ih.stmt g.enter w2 _ hi.1) (fun w3 _ _ hw3 _ => ?_)
          exact SimW.newCell (X := X.enter) wf.enter (ValR.nilNone 0) (Nat.zero_le _)

theorem sim_caseMatch {X : XCtx} (g : GoodX X) (w w0 : Nat) (va vb : CellId) (ps : List Expr)
    (hv : CellR X.toCtx w0 va vb) (hw0 : w0 ≤ w) :
    SimW X w (OptMemR X.toCtx) (evalCaseMatch X.progA (nA + 1) va ps) (evalCaseMatch X.progB (nB + 1) vb ps) := by
  have wf := g.wf
  cases ps with
  | nil => unfold evalCaseMatch; exact SimW.pure (VR := OptMemR X.toCtx) (a := none) (b := none) (w0 := 0) trivial (Nat.zero_le _)
  | cons p rest =>
    unfold evalCaseMatch
    cases p with
    | lit t =>
      dsimp only
      refine SimW.bind (ih.expr g w (.lit t) rfl) (fun w1 ca cb hw1 hc => ?_)
      refine SimW.readCell_bind hv (Nat.le_trans hw0 hw1) (fun w2 v1 v2 hw2 hvv => ?_)
      refine SimW.readCell_bind hc hw2 (fun w3 c1 c2 hw3 hcv => ?_)
      rw [hvv.kind, hvv.1, hcv.1, compare_renV]
      have hrest := ih.caseMatch g w3 w0 va vb rest hv (Nat.le_trans hw0 (Nat.le_trans hw1 (Nat.le_trans hw2 hw3)))
      split
      · exact hrest
      · split
        · exact SimW.throwRt _ _
        · split
          · exact SimW.pure (VR := OptMemR X.toCtx) (a := some []) (b := some []) (w0 := 0) (MemR.nil 0) (Nat.zero_le _)
          · exact hrest
    | arr t items =>
      dsimp only
      refine SimW.bind (ih.arrayCaseMatch g w w0 va vb items hv hw0) (fun w1 ra rb hw1 hr => ?_)
      cases ra with
      | none =>
        cases rb with
        | none => exact ih.caseMatch g w1 w0 va vb rest hv (Nat.le_trans hw0 hw1)
        | some _ => exact hr.elim
      | some ba =>
        cases rb with
        | none => exact hr.elim
        | some bb => exact SimW.pure (VR := OptMemR X.toCtx) (a := some ba) (b := some bb) hr (Nat.le_refl _)
    | ident t =>
      dsimp only
      refine SimW.pure (VR := OptMemR X.toCtx) (a := some [(t.text, va)]) (b := some [(t.text, vb)]) (w0 := w0) ?_ hw0
      obtain ⟨rfl, hl⟩ := hv
      refine ⟨rfl, ?_⟩
      intro kc hkc
      simp only [List.mem_singleton] at hkc
      subst hkc
      exact hl
    | _ => exact SimW.throwRt _ _

omit ih in
theorem MemR.foldInsert {K : Ctx} {w : Nat} : ∀ {na nb accA accB : List (Bytes × CellId)},
    MemR K w na nb → MemR K w accA accB →
    MemR K w (na.foldl (fun m kv => Jqawk.objInsert m kv.1 kv.2) accA)
      (nb.foldl (fun m kv => Jqawk.objInsert m kv.1 kv.2) accB) := by
  intro na nb accA accB hn hacc
  obtain ⟨rfl, hl⟩ := hn
  induction nb generalizing accA accB with
  | nil => exact hacc
  | cons kc rest ih =>
    simp only [renM, List.map_cons, List.foldl_cons]
    exact ih (hacc.objInsert kc.1 ⟨rfl, hl kc (List.mem_cons_self ..)⟩) (fun x hx => hl x (List.mem_cons_of_mem _ hx))

theorem sim_arrayCaseMatch {X : XCtx} (g : GoodX X) (w w0 : Nat) (va vb : CellId) (ps : List Expr)
    (hv : CellR X.toCtx w0 va vb) (hw0 : w0 ≤ w) :
    SimW X w (OptMemR X.toCtx) (evalArrayCaseMatch X.progA (nA + 1) va ps)
      (evalArrayCaseMatch X.progB (nB + 1) vb ps) := by
  have wf := g.wf
  unfold evalArrayCaseMatch
  refine SimW.readCell_bind hv hw0 (fun w1 v1 v2 hw1 hvv => ?_)
  have retN : ∀ w', SimW X w' (OptMemR X.toCtx) (pure none) (pure none) := fun w' =>
    SimW.pure (VR := OptMemR X.toCtx) (a := none) (b := none) (w0 := 0) trivial (Nat.zero_le _)
  obtain ⟨rfl, hvl⟩ := hvv
  cases v2 with
  | arr a =>
    simp only [renV_arr]
    apply SimW.getHeap_bind
    intro hA hB hh hw2
    have har := hh.arrs a hvl
    have hlen : (hA.arr a).toList.length = (hB.arr a).toList.length := by
      simp only [Array.length_toList]; exact har.size
    rw [hlen]
    split
    · exact retN _
    · exact ih.matchElems g _ _ 0 _ _ ps [] [] har.toList (Nat.le_refl _) (MemR.nil 0) (Nat.zero_le _)
  | _ => exact retN _

theorem sim_matchElems {X : XCtx} (g : GoodX X) (w w0 w1 : Nat) (ca cb : List CellId) (ps : List Expr)
    (accA accB : List (Bytes × CellId)) (hc : ListCellR X.toCtx w0 ca cb) (hw0 : w0 ≤ w)
    (hacc : MemR X.toCtx w1 accA accB) (hw1 : w1 ≤ w) :
    SimW X w (OptMemR X.toCtx) (Jqawk.matchElems X.progA (nA + 1) ca ps accA)
      (Jqawk.matchElems X.progB (nB + 1) cb ps accB) := by
  have wf := g.wf
  obtain ⟨rfl, hl⟩ := hc
  cases cb with
  | nil =>
    unfold Jqawk.matchElems
    exact SimW.pure (VR := OptMemR X.toCtx) (a := some accA) (b := some accB) hacc hw1
  | cons c cs =>
    cases ps with
    | nil =>
      simp only [List.map_cons]
      unfold Jqawk.matchElems
      exact SimW.pure (VR := OptMemR X.toCtx) (a := some accA) (b := some accB) hacc hw1
    | cons p ps =>
      simp only [List.map_cons]
      unfold Jqawk.matchElems
      have hcc : CellR X.toCtx w0 (X.σ c) c := ⟨rfl, hl c (List.mem_cons_self ..)⟩
      refine SimW.bind (ih.caseMatch g w w0 _ _ [p] hcc hw0) (fun w2 ra rb hw2 hr => ?_)
      cases ra with
      | none =>
        cases rb with
        | none => exact SimW.pure (VR := OptMemR X.toCtx) (a := none) (b := none) (w0 := 0) trivial (Nat.zero_le _)
        | some _ => exact hr.elim
      | some na =>
        cases rb with
        | none => exact hr.elim
        | some nb =>
          have hn : MemR X.toCtx w2 na nb := hr
          exact ih.matchElems g w2 w0 w2 _ _ ps _ _ ⟨rfl, fun x hx => hl x (List.mem_cons_of_mem _ hx)⟩
            (Nat.le_trans hw0 hw2) (MemR.foldInsert hn (hacc.mono (Nat.le_trans hw1 hw2))) (Nat.le_refl _)


omit ih in
theorem listValR_get {X : XCtx} {hA hB : Heap} (hh : HR X.toCtx hA hB) {w0 : Nat} {aa ab : List CellId}
    (ha : ListCellR X.toCtx w0 aa ab) (hw : w0 ≤ hB.cells.size) :
    ListValR X.toCtx hB.cells.size (aa.map hA.get) (ab.map hB.get) := by
  obtain ⟨rfl, hl⟩ := ha
  refine ⟨?_, ?_⟩
  · rw [List.map_map, List.map_map]
    apply List.map_congr_left
    intro c hc
    exact (hh.cells c ((hl c hc).mono hw)).1
  · intro v hv
    obtain ⟨c, hc, rfl⟩ := List.mem_map.mp hv
    exact (hh.cells c ((hl c hc).mono hw)).2

theorem sim_call {X : XCtx} (g : GoodX X) (w w0 w1 : Nat) (pos : Nat) (fa fb : CellId) (aa ab : List CellId)
    (hf : CellR X.toCtx w0 fa fb) (hw0 : w0 ≤ w) (ha : ListCellR X.toCtx w1 aa ab) (hw1 : w1 ≤ w) :
    SimW X w (CellR X.toCtx) (callFunction X.progA (nA + 1) pos fa aa) (callFunction X.progB (nB + 1) pos fb ab) := by
  have wf := g.wf
  unfold callFunction
  refine SimW.readCell_bind hf hw0 (fun w2 fva fvb hw2 hfv => ?_)
  apply SimW.getHeap_bind
  intro hA hB hh hw3
  have hargs := listValR_get hh ha (Nat.le_trans hw1 (Nat.le_trans hw2 hw3))
  obtain ⟨rfl, hfl⟩ := hfv
  cases fvb with
  | native f b sp =>
    simp only [renV_native]
    have hthis : OptValR X.toCtx hB.cells.size ((b.map X.σ).map hA.get) (b.map hB.get) := by
      cases b with
      | none => trivial
      | some bc =>
        have hbl : LiveC X.toCtx w2 bc := hfl.1
        exact hh.cells bc (hbl.mono hw3)
    refine SimW.bind (SimW.callNative wf f hargs (Nat.le_refl _) hthis (Nat.le_refl _)) (fun w4 ra rb hw4 hr => ?_)
    cases ra with
    | error ma =>
      cases rb with
      | error mb => cases hr; exact SimW.throwRt _ _
      | ok _ => exact hr.elim
    | ok oa =>
      cases rb with
      | error _ => exact hr.elim
      | ok ob =>
        cases oa with
        | none =>
          cases ob with
          | none => sim_leaf wf
          | some _ => exact hr.elim
        | some va =>
          cases ob with
          | none => exact hr.elim
          | some vb => exact SimW.newCell wf (hr : ValR X.toCtx w4 va vb) (Nat.le_refl _)
  | fn i =>
    simp only [renV_fn]
    have hprog : X.progA.functions[i]? = X.progB.functions[i]? := hfl
    rw [hprog]
    cases hfi : X.progB.functions[i]? with
    | none => exact SimW.throwPanic _
    | some fd =>
      dsimp only
      have hbody := g.fns i fd (hprog.trans hfi) hfi
      apply SimW.framed wf
      refine SimW.bind (SimW.bindParams (X := X.enter) wf.enter X.canBind_enter fd.args hargs (Nat.le_refl _))
        (fun w4 _ _ hw4 _ => ?_)
      refine SimW.bind (SimW.catchReturn (ih.stmt g.enter w4 fd.body hbody)) (fun w5 rva rvb hw5 hrv => ?_)
      exact SimW.newCell (X := X.enter) wf.enter hrv (Nat.le_refl _)
  | _ => exact SimW.throwRt _ _

theorem sim_unary {X : XCtx} (g : GoodX X) (w : Nat) (e : Expr) (op : Token) (p : Bool)
    (he : idsE X.allowD X.allow e = true) :
    SimW X w (CellR X.toCtx) (evalUnary X.progA (nA + 1) e op p) (evalUnary X.progB (nB + 1) e op p) := by
  have wf := g.wf
  unfold evalUnary
  refine SimW.bind (ih.expr g w e he) (fun w1 ca cb hw1 hc => ?_)
  refine SimW.readCell_bind hc (Nat.le_refl _) (fun w2 va vb hw2 hv => ?_)
  rw [hv.truthy, hv.asNum]
  have incdec : SimW X w2 (CellR X.toCtx)
      (do let nc ← newCell (.num (if op.tag == Tag.plusPlus then F64.add vb.asNum F64.one else F64.sub vb.asNum F64.one))
          let assigned ← evalAssignment op.pos ca nc
          if p then newCell (.num vb.asNum) else do newCell (← readCell assigned))
      (do let nc ← newCell (.num (if op.tag == Tag.plusPlus then F64.add vb.asNum F64.one else F64.sub vb.asNum F64.one))
          let assigned ← evalAssignment op.pos cb nc
          if p then newCell (.num vb.asNum) else do newCell (← readCell assigned)) := by
    refine SimW.bind (SimW.newCell wf (ValR.num 0 _) (Nat.zero_le _)) (fun w3 na nb hw3 hn => ?_)
    refine SimW.bind (SimW.evalAssignment wf op.pos hc (Nat.le_trans hw2 hw3) hn (Nat.le_refl _))
      (fun w4 aa ab hw4 ha => ?_)
    cases p with
    | true => simp only [↓reduceIte]; sim_leaf wf
    | false =>
      simp only [Bool.false_eq_true, ↓reduceIte]
      refine SimW.readCell_bind ha (Nat.le_refl _) (fun w5 x y hw5 hxy => ?_)
      exact SimW.newCell wf hxy (Nat.le_refl _)
  split
  · sim_leaf wf
  · sim_leaf wf
  · sim_leaf wf
  · exact incdec
  · exact incdec
  · sim_leaf wf

theorem sim_binary {X : XCtx} (g : GoodX X) (w : Nat) (l r : Expr) (op : Token)
    (hl : idsE X.allowD X.allow l = true) (hr : (op.tag == Tag.is || idsE X.allowD X.allow r) = true) :
    SimW X w (CellR X.toCtx) (evalBinary X.progA (nA + 1) l r op) (evalBinary X.progB (nB + 1) l r op) := by
  have wf := g.wf
  unfold evalBinary
  refine SimW.bind (ih.expr g w l hl) (fun w1 la lb hw1 hlc => ?_)
  have truthyCell : ∀ w' (ca cb : CellId), CellR X.toCtx w' ca cb →
      SimW X w' (CellR X.toCtx) (do newCell (.bool (← readCell ca).truthy)) (do newCell (.bool (← readCell cb).truthy)) := by
    intro w' ca cb hc
    refine SimW.readCell_bind hc (Nat.le_refl _) (fun w2 va vb hw2 hv => ?_)
    rw [hv.truthy]
    sim_leaf wf
  split
  · -- &&
    rename_i htag
    have hr' : idsE X.allowD X.allow r = true := by simpa [htag] using hr
    refine SimW.readCell_bind hlc (Nat.le_refl _) (fun w2 va vb hw2 hv => ?_)
    rw [hv.truthy]
    split
    · refine SimW.bind (ih.expr g w2 r hr') (fun w3 ra rb hw3 hrc => ?_)
      exact truthyCell w3 ra rb hrc
    · sim_leaf wf
  · -- ||
    rename_i htag
    have hr' : idsE X.allowD X.allow r = true := by simpa [htag] using hr
    refine SimW.readCell_bind hlc (Nat.le_refl _) (fun w2 va vb hw2 hv => ?_)
    rw [hv.truthy]
    split
    · sim_leaf wf
    · refine SimW.bind (ih.expr g w2 r hr') (fun w3 ra rb hw3 hrc => ?_)
      exact truthyCell w3 ra rb hrc
  · -- is
    cases r with
    | ident t =>
      dsimp only
      refine SimW.readCell_bind hlc (Nat.le_refl _) (fun w2 va vb hw2 hv => ?_)
      rw [hv.1, isType_renV]
      sim_leaf wf
    | _ => exact SimW.throwRt _ _
  · rename_i h1 h2 h3
    have hr' : idsE X.allowD X.allow r = true := by
      cases hb : (op.tag == Tag.is) with
      | true => exact absurd (by simpa using hb) h3
      | false => simpa [hb] using hr
    refine SimW.bind (ih.expr g w1 r hr') (fun w2 ra rb hw2 hrc => ?_)
    split
    · exact SimW.memberStep wf _ hlc hw2 hrc (Nat.le_refl _)
    · exact SimW.memberStep wf _ hlc hw2 hrc (Nat.le_refl _)
    · exact SimW.evalAssignment wf _ hlc hw2 hrc (Nat.le_refl _)
    · split
      · refine SimW.readCell_bind hlc hw2 (fun w3 va vb hw3 hv => ?_)
        refine SimW.readCell_bind hrc hw3 (fun w4 va' vb' hw4 hv' => ?_)
        rw [hv.1, hv'.1, binaryOp_renV]
        split
        · rename_i v hbo
          exact SimW.newCell wf (w0 := 0) ((binaryOp_scalar hbo).valR 0) (Nat.zero_le _)
        · exact SimW.throwRt _ _
        · exact SimW.throwUnmodelled _
      · exact SimW.throwRt _ _


omit ih in
theorem mapM_pretty_rel {X : XCtx} {sA sB : St} (hs : SR X sA sB) {w0 : Nat} {ca cb : List CellId}
    (hc : ListCellR X.toCtx w0 ca cb) (hw : w0 ≤ sB.heap.cells.size) :
    ca.mapM (fun c => prettyTop sA.heap (sA.heap.get c)) = cb.mapM (fun c => prettyTop sB.heap (sB.heap.get c)) := by
  obtain ⟨rfl, hl⟩ := hc
  rw [mapM_opt_map]
  apply mapM_opt_congr
  intro c hcm
  exact prettyTop_rel hs.heap (hs.heap.cells c ((hl c hcm).mono hw)) (Nat.le_refl _)

omit ih in
theorem getVarOrThrow {X : XCtx} (g : GoodX X) (w : Nat) (name : Bytes) (pos : Nat)
    (hn : X.allow name = true) :
    SimW X w (CellR X.toCtx)
      (do match (← getVariable name) with
          | .ok c => pure c
          | .error m => throwRt pos m)
      (do match (← getVariable name) with
          | .ok c => pure c
          | .error m => throwRt pos m) := by
  refine SimW.bind (SimW.getVariable g.wf name (.inl hn)) (fun w1 ra rb hw1 hr => ?_)
  cases ra with
  | error ma =>
    cases rb with
    | error mb => cases hr; exact SimW.throwRt _ _
    | ok _ => exact hr.elim
  | ok ca =>
    cases rb with
    | error _ => exact hr.elim
    | ok cb => exact SimW.pure (VR := CellR X.toCtx) hr (Nat.le_refl _)

omit ih in
theorem f2_zipIdx {K : Ctx} {w : Nat} : ∀ (cs : List CellId) (k : Nat), LiveL K w cs →
    F2 (ItemR K w)
      (((cs.map K.σ).zipIdx k).map fun (c, i) => ((some (Val.num (F64.ofNat i)), Sum.inl c) : Item))
      ((cs.zipIdx k).map fun (c, i) => ((some (Val.num (F64.ofNat i)), Sum.inl c) : Item))
  | [], _, _ => F2.nil
  | c :: cs, k, hl => by
    simp only [List.map_cons, List.zipIdx_cons]
    refine F2.cons ⟨ValR.num w _, ⟨rfl, hl c (List.mem_cons_self ..)⟩⟩ ?_
    exact f2_zipIdx cs (k + 1) (fun x hx => hl x (List.mem_cons_of_mem _ hx))

omit ih in
theorem f2_members {K : Ctx} {w : Nat} : ∀ (m : List (Bytes × CellId)), LiveM K w m →
    F2 (ItemR K w)
      ((renM K.σ m).map fun (k, c) => ((none, Sum.inr (Val.str k none, some c)) : Item))
      (m.map fun (k, c) => ((none, Sum.inr (Val.str k none, some c)) : Item))
  | [], _ => F2.nil
  | kc :: rest, hl => by
    simp only [renM, List.map_cons]
    refine F2.cons ⟨trivial, ValR.strNone w _, ⟨rfl, hl kc (List.mem_cons_self ..)⟩⟩ ?_
    exact f2_members rest (fun x hx => hl x (List.mem_cons_of_mem _ hx))

omit ih in
theorem f2_runes {K : Ctx} {w : Nat} : ∀ (l : List (Nat × Nat)),
    F2 (ItemR K w)
      (l.map fun (off, r) => ((some (Val.num (F64.ofNat off)), Sum.inr (Val.str (utf8Encode r) none, none)) : Item))
      (l.map fun (off, r) => ((some (Val.num (F64.ofNat off)), Sum.inr (Val.str (utf8Encode r) none, none)) : Item))
  | [] => F2.nil
  | x :: rest => by
    simp only [List.map_cons]
    exact F2.cons ⟨ValR.num w _, ValR.strNone w _, trivial⟩ (f2_runes rest)

theorem sim_stmt {X : XCtx} (g : GoodX X) (w : Nat) (st : Stmt) (hi : idsS X.allowD X.allow st = true) :
    SimW X w EqR (evalStmt X.progA (nA + 1) st) (evalStmt X.progB (nB + 1) st) := by
  have wf := g.wf
  have unit : ∀ w', SimW X w' EqR (pure ()) (pure ()) := fun w' => SimW.pure (VR := EqR) (w0 := 0) rfl (Nat.zero_le _)
  unfold evalStmt
  cases st with
  | block t body => simp only [idsS] at hi; exact ih.block g w body hi
  | print t args =>
    simp only [idsS, Bool.and_eq_true, Bool.or_eq_true, Bool.not_eq_true'] at hi
    dsimp only
    refine SimW.bind (SimW.strengthen (ih.exprList g w args false hi.2)
      (fun s b s' h => exprList_length X.progB nB args false s b s' h)) (fun w1 ca cb hw1 hcp => ?_)
    obtain ⟨hc, hlen⟩ := hcp
    apply SimW.getSt_bind
    intro sA sB hs hw2
    have hemp : ca.isEmpty = cb.isEmpty := by rw [hc.1]; cases cb <;> rfl
    rw [hemp]
    cases hcb : cb.isEmpty with
    | true =>
      simp only [↓reduceIte]
      have hargs : args.isEmpty = true := by
        have : cb = [] := by simpa using hcb
        rw [this] at hlen
        cases args with
        | nil => rfl
        | cons _ _ => simp at hlen
      have hd : X.allowD = true := by
        rcases hi.1 with h | h
        · rw [hargs] at h; cases h
        · exact h
      have hr := hs.ruleRoot hd
      cases hra : sA.ruleRoot with
      | none =>
        cases hrb : sB.ruleRoot with
        | none => exact SimW.throwPanic _
        | some _ => rw [hra, hrb] at hr; exact hr.elim
      | some ra =>
        cases hrb : sB.ruleRoot with
        | none => rw [hra, hrb] at hr; exact hr.elim
        | some rb =>
          rw [hra, hrb] at hr
          dsimp only
          rw [prettyTop_rel hs.heap (hs.heap.get hr (Nat.le_refl _)) (Nat.le_refl _)]
          cases prettyTop sB.heap (sB.heap.get rb) with
          | none => exact SimW.oof
          | some r => exact SimW.emit _
    | false =>
      simp only [Bool.false_eq_true, ↓reduceIte]
      rw [mapM_pretty_rel hs hc hw2]
      cases List.mapM (fun c => prettyTop sB.heap (sB.heap.get c)) cb with
      | none => exact SimW.oof
      | some parts => exact SimW.emit _
  | expr e =>
    simp only [idsS] at hi
    dsimp only
    exact SimW.bind (ih.expr g w e hi) (fun w1 _ _ _ _ => unit w1)
  | ret oe =>
    cases oe with
    | none => exact SimW.ret (ca := none) (cb := none) (w0 := 0) trivial (Nat.zero_le _)
    | some e =>
      simp only [idsS] at hi
      dsimp only
      refine SimW.bind (ih.expr g w e hi) (fun w1 ca cb hw1 hc => ?_)
      exact SimW.ret (ca := some ca) (cb := some cb) hc (Nat.le_refl _)
  | if_ c body els =>
    cases els with
    | none =>
      simp only [idsS, Bool.and_eq_true] at hi
      dsimp only
      refine SimW.bind (ih.expr g w c hi.1) (fun w1 ca cb hw1 hc => ?_)
      refine SimW.readCell_bind hc (Nat.le_refl _) (fun w2 va vb hw2 hv => ?_)
      rw [hv.truthy]
      split
      · exact ih.stmt g w2 body hi.2
      · exact unit w2
    | some eb =>
      simp only [idsS, Bool.and_eq_true] at hi
      dsimp only
      refine SimW.bind (ih.expr g w c hi.1.1) (fun w1 ca cb hw1 hc => ?_)
      refine SimW.readCell_bind hc (Nat.le_refl _) (fun w2 va vb hw2 hv => ?_)
      rw [hv.truthy]
      split
      · exact ih.stmt g w2 body hi.1.2
      · exact ih.stmt g w2 eb hi.2
  | while_ c body =>
    simp only [idsS, Bool.and_eq_true] at hi
    exact ih.whileL g w c body hi.1 hi.2
  | for_ pre c post body =>
    simp only [idsS, Bool.and_eq_true] at hi
    dsimp only
    refine SimW.bind (ih.expr g w pre hi.1.1.1) (fun w1 _ _ hw1 _ => ?_)
    exact ih.forL g w1 c post body hi.1.1.2 hi.1.2 hi.2
  | forIn id idx iter body =>
    simp only [idsS, Bool.and_eq_true] at hi
    obtain ⟨⟨⟨hid, hidx⟩, hiter⟩, hbody⟩ := hi
    dsimp only
    refine SimW.bind (getVarOrThrow g w id.text id.pos hid) (fun w1 la lb hw1 hloc => ?_)
    refine SimW.bind (VR1 := OptCellR X.toCtx) ?_ (fun w2 ia ib hw2 hil => ?_)
    · cases idx with
      | none => exact SimW.pure (VR := OptCellR X.toCtx) (a := none) (b := none) (w0 := 0) trivial (Nat.zero_le _)
      | some it =>
        dsimp only at hidx ⊢
        refine SimW.bind (SimW.getVariable g.wf it.text (.inl hidx)) (fun w3 ra rb hw3 hr => ?_)
        cases ra with
        | error ma =>
          cases rb with
          | error mb => cases hr; exact SimW.throwRt _ _
          | ok _ => exact hr.elim
        | ok ca =>
          cases rb with
          | error _ => exact hr.elim
          | ok cb => exact SimW.pure (VR := OptCellR X.toCtx) (a := some ca) (b := some cb) hr (Nat.le_refl _)
    · refine SimW.bind (ih.expr g w2 iter hiter) (fun w3 ca cb hw3 hc => ?_)
      apply SimW.getHeap_bind
      intro hA hB hh hw4
      have hv := hh.get hc hw4
      have hloc' : CellR X.toCtx hB.cells.size la lb := hloc.mono (Nat.le_trans hw2 (Nat.le_trans hw3 hw4))
      have hil' : OptCellR X.toCtx hB.cells.size ia ib := hil.mono (Nat.le_trans hw3 hw4)
      rw [hv.1]
      cases hgb : hB.get cb with
      | arr a =>
        rw [hgb] at hv
        have har := hh.arrs a hv.2
        simp only [renV_arr]
        rw [har.1, Array.toList_map]
        exact ih.forInL g _ _ la lb ia ib body _ _ hloc' hil' (f2_zipIdx _ 0 har.2) (Nat.le_refl _) hbody
      | obj o =>
        rw [hgb] at hv
        have hob := hh.objs o hv.2
        simp only [renV_obj]
        rw [hob.1, sortByKey_renM]
        exact ih.forInL g _ _ la lb ia ib body _ _ hloc' hil' (f2_members _ hob.2.sortByKey) (Nat.le_refl _) hbody
      | str s sp =>
        simp only [renV_str]
        exact ih.forInL g _ _ la lb ia ib body _ _ hloc' hil' (f2_runes _) (Nat.le_refl _) hbody
      | _ => exact SimW.throwRt _ _
  | brk t => exact SimW.throwSig _ (by decide)
  | cont t => exact SimW.throwSig _ (by decide)
  | next t => exact SimW.throwSig _ (by decide)
  | exit t => exact SimW.throwSig _ (by decide)


theorem sim_block {X : XCtx} (g : GoodX X) (w : Nat) (sts : List Stmt) (hi : idsSs X.allowD X.allow sts = true) :
    SimW X w EqR (evalBlock X.progA (nA + 1) sts) (evalBlock X.progB (nB + 1) sts) := by
  cases sts with
  | nil => unfold evalBlock; exact SimW.pure (VR := EqR) (w0 := 0) rfl (Nat.zero_le _)
  | cons st rest =>
    simp only [idsSs, Bool.and_eq_true] at hi
    unfold evalBlock
    exact SimW.bind (ih.stmt g w st hi.1) (fun w1 _ _ _ _ => ih.block g w1 rest hi.2)

theorem sim_while {X : XCtx} (g : GoodX X) (w : Nat) (c : Expr) (b : Stmt)
    (hc : idsE X.allowD X.allow c = true) (hb : idsS X.allowD X.allow b = true) :
    SimW X w EqR (whileLoop X.progA (nA + 1) c b) (whileLoop X.progB (nB + 1) c b) := by
  unfold whileLoop
  refine SimW.bind (ih.expr g w c hc) (fun w1 ca cb hw1 hcc => ?_)
  refine SimW.readCell_bind hcc (Nat.le_refl _) (fun w2 va vb hw2 hv => ?_)
  rw [hv.truthy]
  split
  · exact SimW.loopIter (ih.stmt g w2 b hb) (ih.whileL g w2 c b hc hb)
  · exact SimW.pure (VR := EqR) (w0 := 0) rfl (Nat.zero_le _)

theorem sim_for {X : XCtx} (g : GoodX X) (w : Nat) (c p : Expr) (b : Stmt)
    (hc : idsE X.allowD X.allow c = true) (hp : idsE X.allowD X.allow p = true)
    (hb : idsS X.allowD X.allow b = true) :
    SimW X w EqR (forLoop X.progA (nA + 1) c p b) (forLoop X.progB (nB + 1) c p b) := by
  unfold forLoop
  refine SimW.bind (ih.expr g w c hc) (fun w1 ca cb hw1 hcc => ?_)
  refine SimW.readCell_bind hcc (Nat.le_refl _) (fun w2 va vb hw2 hv => ?_)
  rw [hv.truthy]
  split
  · refine SimW.loopIter (ih.stmt g w2 b hb) ?_
    exact SimW.bind (ih.expr g w2 p hp) (fun w3 _ _ _ _ => ih.forL g w3 c p b hc hp hb)
  · exact SimW.pure (VR := EqR) (w0 := 0) rfl (Nat.zero_le _)

omit ih in
theorem f2_mono_items {K : Ctx} {w w' : Nat} (hw : w ≤ w') {l1 l2 : List Item}
    (h : F2 (ItemR K w) l1 l2) : F2 (ItemR K w') l1 l2 := by
  induction h with
  | nil => exact .nil
  | @cons a b as bs h1 _ ih =>
    refine .cons ⟨h1.1.mono hw, ?_⟩ ih
    have h2 := h1.2
    revert h2
    cases a.2 <;> cases b.2 <;> intro h2 <;> first
      | exact h2.elim
      | exact CellR.mono h2 hw
      | exact ⟨h2.1.mono hw, h2.2.mono hw⟩

omit ih in
theorem forInLoop_eq (prog : Program) (n : Nat) (loc : CellId) (il : Option CellId) (body : Stmt)
    (idx : Option Val) (item : CellId ⊕ (Val × Option CellId)) (rest : List Item) :
    forInLoop prog (n + 1) loc il body ((idx, item) :: rest) = (do
      setIndex il idx item
      setLoc loc item
      loopIter (evalStmt prog n body) (forInLoop prog n loc il body rest)) := by
  conv => lhs; unfold forInLoop
  unfold setIndex setLoc
  funext s
  cases il with
  | none => cases item with
    | inl c => rfl
    | inr p => rfl
  | some ic =>
    cases idx with
    | some iv => cases item with
      | inl c => rfl
      | inr p => rfl
    | none =>
      cases item with
      | inl c => rfl
      | inr p =>
        obtain ⟨v, o⟩ := p
        cases o <;> rfl

theorem sim_forIn {X : XCtx} (g : GoodX X) (w w0 : Nat) (la lb : CellId) (ia ib : Option CellId) (b : Stmt)
    (itA itB : List Item) (hl : CellR X.toCtx w0 la lb) (hil : OptCellR X.toCtx w0 ia ib)
    (hit : F2 (ItemR X.toCtx w0) itA itB) (hw0 : w0 ≤ w) (hb : idsS X.allowD X.allow b = true) :
    SimW X w EqR (forInLoop X.progA (nA + 1) la ia b itA) (forInLoop X.progB (nB + 1) lb ib b itB) := by
  have wf := g.wf
  have unit : ∀ w', SimW X w' EqR (pure ()) (pure ()) := fun w' => SimW.pure (VR := EqR) (w0 := 0) rfl (Nat.zero_le _)
  cases hit with
  | nil => unfold forInLoop; exact unit w
  | @cons xa xb ra rb hx hrest =>
    obtain ⟨idxA, itemA⟩ := xa
    obtain ⟨idxB, itemB⟩ := xb
    obtain ⟨hidx, hitem⟩ := hx
    dsimp only at hidx hitem
    rw [forInLoop_eq, forInLoop_eq]
    refine SimW.bind (VR1 := EqR) ?_ (fun w1 _ _ hw1 _ => ?_)
    · -- the index variable
      unfold setIndex
      cases ia with
      | none =>
        cases ib with
        | none => exact unit w
        | some _ => exact hil.elim
      | some ica =>
        cases ib with
        | none => exact hil.elim
        | some icb =>
          have hic : CellR X.toCtx w0 ica icb := hil
          cases idxA with
          | some iva =>
            cases idxB with
            | none => exact hidx.elim
            | some ivb => exact SimW.writeCell wf hic hw0 (hidx : ValR X.toCtx w0 iva ivb) hw0
          | none =>
            cases idxB with
            | some _ => exact hidx.elim
            | none =>
              cases itemA with
              | inl ca =>
                cases itemB with
                | inl cb => exact unit w
                | inr _ => exact hitem.elim
              | inr pa =>
                cases itemB with
                | inl _ => exact hitem.elim
                | inr pb =>
                  obtain ⟨va, oa⟩ := pa
                  obtain ⟨vb, ob⟩ := pb
                  have hoc : OptCellR X.toCtx w0 oa ob := hitem.2
                  cases oa with
                  | none =>
                    cases ob with
                    | none => exact unit w
                    | some _ => exact hoc.elim
                  | some mca =>
                    cases ob with
                    | none => exact hoc.elim
                    | some mcb =>
                      refine SimW.readCell_bind (hoc : CellR X.toCtx w0 mca mcb) hw0 (fun w2 x y hw2 hxy => ?_)
                      exact SimW.writeCell wf hic (Nat.le_trans hw0 hw2) hxy (Nat.le_refl _)
    · refine SimW.bind (VR1 := EqR) ?_ (fun w2 _ _ hw2 _ => ?_)
      · unfold setLoc
        cases itemA with
        | inl ca =>
          cases itemB with
          | inl cb =>
            refine SimW.readCell_bind (hitem : CellR X.toCtx w0 ca cb) (Nat.le_trans hw0 hw1) (fun w3 x y hw3 hxy => ?_)
            exact SimW.writeCell wf hl (Nat.le_trans hw0 (Nat.le_trans hw1 hw3)) hxy (Nat.le_refl _)
          | inr _ => exact hitem.elim
        | inr pa =>
          cases itemB with
          | inl _ => exact hitem.elim
          | inr pb =>
            obtain ⟨va, oa⟩ := pa
            obtain ⟨vb, ob⟩ := pb
            exact SimW.writeCell wf hl (Nat.le_trans hw0 hw1) (hitem.1 : ValR X.toCtx w0 va vb) (Nat.le_trans hw0 hw1)
      · exact SimW.loopIter (ih.stmt g w2 b hb)
          (ih.forInL g w2 w0 la lb ia ib b ra rb hl hil hrest (Nat.le_trans hw0 (Nat.le_trans hw1 hw2)) hb)

end Succ

theorem allSim_succ (nA nB : Nat) (ih : AllSim nA nB) : AllSim (nA + 1) (nB + 1) :=
  ⟨sim_expr ih, sim_objItems ih, sim_exprList ih, sim_matchCases ih, sim_caseMatch ih, sim_arrayCaseMatch ih,
   sim_matchElems ih, sim_call ih, sim_unary ih, sim_binary ih, sim_stmt ih, sim_block ih, sim_while ih,
   sim_for ih, sim_forIn ih⟩

/-- **the evaluator does not see cell ids**: every evaluator function, with any fuel on either
    side (an out-of-fuel result on either side makes no claim), in every good context -/
theorem allSim : ∀ nA nB, AllSim nA nB
  | 0, nB => allSim_zeroL nB
  | nA + 1, 0 => allSim_zeroR (nA + 1)
  | nA + 1, nB + 1 => allSim_succ nA nB (allSim nA nB)

end Sel
end Jqawk
