/-
  The parser only produces operator nodes the evaluator knows: every unary node of a parsed
  program carries one of `! + - ++ --` (`BlameSites.isUnaryTag`), every binary node one of the
  operators `evalBinary` has a case for (`BlameSites.isBinaryTag`: `&& || is . [ =`, the six
  comparisons, `+ - * / %`, `~ !~`).  So the two "unknown operator" runtime errors are not
  reachable from parsed text.  Same structure (and tactic kit) as `Lemmas/ParserWF.lean`.
-/
import Jqawk.Lemmas.ParserWF
import Jqawk.Lemmas.BlameSites

namespace Jqawk
open Parser

/-! ### the predicate -/

/-- the check on one node: a known operator -/
def Expr.opKnown : Expr → Bool
  | .unary _ op _ => BlameSites.isUnaryTag op.tag
  | .binary _ _ op => BlameSites.isBinaryTag op.tag
  | _ => true

mutual
def Expr.opsB : Expr → Bool
  | .lit _ => true
  | .ident _ => true
  | .arr _ items => opsEs items
  | .obj _ items => opsKVs items
  | .unary e op p => (Expr.unary e op p).opKnown && e.opsB
  | .binary l r op => (Expr.binary l r op).opKnown && l.opsB && r.opsB
  | .call f args => f.opsB && opsEs args
  | .match_ _ v cases => v.opsB && opsCases cases
def opsEs : List Expr → Bool
  | [] => true
  | e :: es => e.opsB && opsEs es
def opsKVs : List (Bytes × Expr) → Bool
  | [] => true
  | (_, e) :: es => e.opsB && opsKVs es
def opsCases : List MatchCase → Bool
  | [] => true
  | (.mk pats body) :: cs => opsEs pats && body.opsB && opsCases cs
def Stmt.opsB : Stmt → Bool
  | .block _ body => opsSs body
  | .print _ args => opsEs args
  | .expr e => e.opsB
  | .ret none => true
  | .ret (some e) => e.opsB
  | .brk _ => true
  | .cont _ => true
  | .next _ => true
  | .exit _ => true
  | .if_ c b none => c.opsB && b.opsB
  | .if_ c b (some e) => c.opsB && b.opsB && e.opsB
  | .while_ c b => c.opsB && b.opsB
  | .for_ pre c post b => pre.opsB && c.opsB && post.opsB && b.opsB
  | .forIn _ _ iter b => iter.opsB && b.opsB
def opsSs : List Stmt → Bool
  | [] => true
  | s :: ss => s.opsB && opsSs ss
end

def Rule.opsB (r : Rule) : Bool :=
  r.body.opsB && (match r.pattern with | none => true | some e => e.opsB)

def Program.opsB (p : Program) : Bool :=
  p.rules.all Rule.opsB && p.functions.all (fun f => f.body.opsB)

/-! ### `wf*` on lists -/

theorem opsEs_eq_all (l : List Expr) : opsEs l = l.all Expr.opsB := by
  induction l with
  | nil => simp [opsEs]
  | cons e es ih => simp [opsEs, ih]

theorem opsSs_eq_all (l : List Stmt) : opsSs l = l.all Stmt.opsB := by
  induction l with
  | nil => simp [opsSs]
  | cons e es ih => simp [opsSs, ih]

theorem opsKVs_eq_all (l : List (Bytes × Expr)) : opsKVs l = l.all (fun kv => kv.2.opsB) := by
  induction l with
  | nil => simp [opsKVs]
  | cons e es ih => obtain ⟨k, v⟩ := e; simp [opsKVs, ih]

theorem opsCases_eq_all (l : List MatchCase) :
    opsCases l = l.all (fun c => opsEs c.1 && c.2.opsB) := by
  induction l with
  | nil => simp [opsCases]
  | cons e es ih => obtain ⟨p, b⟩ := e; simp [opsCases, ih]

@[simp] theorem opsEs_reverse (l : List Expr) : opsEs l.reverse = opsEs l := by
  simp [opsEs_eq_all]
@[simp] theorem opsSs_reverse (l : List Stmt) : opsSs l.reverse = opsSs l := by
  simp [opsSs_eq_all]
@[simp] theorem opsKVs_reverse (l : List (Bytes × Expr)) : opsKVs l.reverse = opsKVs l := by
  simp [opsKVs_eq_all]
@[simp] theorem opsCases_reverse (l : List MatchCase) : opsCases l.reverse = opsCases l := by
  simp [opsCases_eq_all]

/-! ### `opsB` says that every node passes `opKnown` -/

mutual
theorem Expr.opKnown_of_opsB : ∀ (e : Expr), e.opsB = true → ∀ x ∈ e.subs, x.opKnown = true
  | .lit t, h, x, hx => by
    simp only [Expr.subs, List.mem_singleton] at hx; subst hx; rfl
  | .ident t, _, x, hx => by
    simp only [Expr.subs, List.mem_singleton] at hx; subst hx; rfl
  | .arr t items, h, x, hx => by
    simp only [Expr.subs, List.mem_cons] at hx
    simp only [Expr.opsB] at h
    rcases hx with rfl | hx
    · rfl
    · exact opKnown_of_opsEs items h x hx
  | .obj t items, h, x, hx => by
    simp only [Expr.subs, List.mem_cons] at hx
    simp only [Expr.opsB] at h
    rcases hx with rfl | hx
    · rfl
    · exact opKnown_of_opsKVs items h x hx
  | .unary e op p, h, x, hx => by
    simp only [Expr.subs, List.mem_cons] at hx
    simp only [Expr.opsB, Bool.and_eq_true] at h
    rcases hx with rfl | hx
    · exact h.1
    · exact Expr.opKnown_of_opsB e h.2 x hx
  | .binary l r op, h, x, hx => by
    simp only [Expr.subs, List.mem_cons, List.mem_append] at hx
    simp only [Expr.opsB, Bool.and_eq_true] at h
    rcases hx with rfl | hx | hx
    · exact h.1.1
    · exact Expr.opKnown_of_opsB l h.1.2 x hx
    · exact Expr.opKnown_of_opsB r h.2 x hx
  | .call f args, h, x, hx => by
    simp only [Expr.subs, List.mem_cons, List.mem_append] at hx
    simp only [Expr.opsB, Bool.and_eq_true] at h
    rcases hx with rfl | hx | hx
    · rfl
    · exact Expr.opKnown_of_opsB f h.1 x hx
    · exact opKnown_of_opsEs args h.2 x hx
  | .match_ t v cases, h, x, hx => by
    simp only [Expr.subs, List.mem_cons, List.mem_append] at hx
    simp only [Expr.opsB, Bool.and_eq_true] at h
    rcases hx with rfl | hx | hx
    · rfl
    · exact Expr.opKnown_of_opsB v h.1 x hx
    · exact opKnown_of_opsCases cases h.2 x hx
theorem opKnown_of_opsEs : ∀ (l : List Expr), opsEs l = true → ∀ x ∈ subsEs l, x.opKnown = true
  | [], _, x, hx => by simp [subsEs] at hx
  | e :: es, h, x, hx => by
    simp only [subsEs, List.mem_append] at hx
    simp only [opsEs, Bool.and_eq_true] at h
    rcases hx with hx | hx
    · exact Expr.opKnown_of_opsB e h.1 x hx
    · exact opKnown_of_opsEs es h.2 x hx
theorem opKnown_of_opsKVs : ∀ (l : List (Bytes × Expr)), opsKVs l = true →
    ∀ x ∈ subsKVs l, x.opKnown = true
  | [], _, x, hx => by simp [subsKVs] at hx
  | (_, e) :: es, h, x, hx => by
    simp only [subsKVs, List.mem_append] at hx
    simp only [opsKVs, Bool.and_eq_true] at h
    rcases hx with hx | hx
    · exact Expr.opKnown_of_opsB e h.1 x hx
    · exact opKnown_of_opsKVs es h.2 x hx
theorem opKnown_of_opsCases : ∀ (l : List MatchCase), opsCases l = true →
    ∀ x ∈ subsCases l, x.opKnown = true
  | [], _, x, hx => by simp [subsCases] at hx
  | (.mk pats body) :: cs, h, x, hx => by
    simp only [subsCases, List.mem_append] at hx
    simp only [opsCases, Bool.and_eq_true] at h
    rcases hx with (hx | hx) | hx
    · exact opKnown_of_opsEs pats h.1.1 x hx
    · exact Stmt.opKnown_of_opsB body h.1.2 x hx
    · exact opKnown_of_opsCases cs h.2 x hx
theorem Stmt.opKnown_of_opsB : ∀ (s : Stmt), s.opsB = true → ∀ x ∈ s.subs, x.opKnown = true
  | .block _ body, h, x, hx => by
    simp only [Stmt.subs] at hx; simp only [Stmt.opsB] at h
    exact opKnown_of_opsSs body h x hx
  | .print _ args, h, x, hx => by
    simp only [Stmt.subs] at hx; simp only [Stmt.opsB] at h
    exact opKnown_of_opsEs args h x hx
  | .expr e, h, x, hx => by
    simp only [Stmt.subs] at hx; simp only [Stmt.opsB] at h
    exact Expr.opKnown_of_opsB e h x hx
  | .ret none, _, x, hx => by simp [Stmt.subs] at hx
  | .ret (some e), h, x, hx => by
    simp only [Stmt.subs] at hx; simp only [Stmt.opsB] at h
    exact Expr.opKnown_of_opsB e h x hx
  | .brk _, _, x, hx => by simp [Stmt.subs] at hx
  | .cont _, _, x, hx => by simp [Stmt.subs] at hx
  | .next _, _, x, hx => by simp [Stmt.subs] at hx
  | .exit _, _, x, hx => by simp [Stmt.subs] at hx
  | .if_ c b none, h, x, hx => by
    simp only [Stmt.subs, List.mem_append] at hx
    simp only [Stmt.opsB, Bool.and_eq_true] at h
    rcases hx with hx | hx
    · exact Expr.opKnown_of_opsB c h.1 x hx
    · exact Stmt.opKnown_of_opsB b h.2 x hx
  | .if_ c b (some e), h, x, hx => by
    simp only [Stmt.subs, List.mem_append] at hx
    simp only [Stmt.opsB, Bool.and_eq_true] at h
    rcases hx with (hx | hx) | hx
    · exact Expr.opKnown_of_opsB c h.1.1 x hx
    · exact Stmt.opKnown_of_opsB b h.1.2 x hx
    · exact Stmt.opKnown_of_opsB e h.2 x hx
  | .while_ c b, h, x, hx => by
    simp only [Stmt.subs, List.mem_append] at hx
    simp only [Stmt.opsB, Bool.and_eq_true] at h
    rcases hx with hx | hx
    · exact Expr.opKnown_of_opsB c h.1 x hx
    · exact Stmt.opKnown_of_opsB b h.2 x hx
  | .for_ pre c post b, h, x, hx => by
    simp only [Stmt.subs, List.mem_append] at hx
    simp only [Stmt.opsB, Bool.and_eq_true] at h
    rcases hx with ((hx | hx) | hx) | hx
    · exact Expr.opKnown_of_opsB pre h.1.1.1 x hx
    · exact Expr.opKnown_of_opsB c h.1.1.2 x hx
    · exact Expr.opKnown_of_opsB post h.1.2 x hx
    · exact Stmt.opKnown_of_opsB b h.2 x hx
  | .forIn _ _ iter b, h, x, hx => by
    simp only [Stmt.subs, List.mem_append] at hx
    simp only [Stmt.opsB, Bool.and_eq_true] at h
    rcases hx with hx | hx
    · exact Expr.opKnown_of_opsB iter h.1 x hx
    · exact Stmt.opKnown_of_opsB b h.2 x hx
theorem opKnown_of_opsSs : ∀ (l : List Stmt), opsSs l = true → ∀ x ∈ subsSs l, x.opKnown = true
  | [], _, x, hx => by simp [subsSs] at hx
  | s :: ss, h, x, hx => by
    simp only [subsSs, List.mem_append] at hx
    simp only [opsSs, Bool.and_eq_true] at h
    rcases hx with hx | hx
    · exact Stmt.opKnown_of_opsB s h.1 x hx
    · exact opKnown_of_opsSs ss h.2 x hx
end

/-- every expression node of a well-formed program passes the node check -/
theorem Program.opKnown_of_opsB (p : Program) (h : p.opsB = true) :
    ∀ x ∈ p.subExprs, x.opKnown = true := by
  intro x hx
  simp only [Program.opsB, Bool.and_eq_true, List.all_eq_true] at h
  simp only [Program.subExprs, List.mem_append, List.mem_flatMap] at hx
  rcases hx with ⟨r, hr, hx⟩ | ⟨f, hf, hx⟩
  · have hw := h.1 r hr
    simp only [Rule.opsB, Bool.and_eq_true] at hw
    simp only [Rule.subs, List.mem_append] at hx
    rcases hx with hx | hx
    · exact Stmt.opKnown_of_opsB _ hw.1 x hx
    · cases hp : r.pattern with
      | none => rw [hp] at hx; simp at hx
      | some e => rw [hp] at hx hw; exact Expr.opKnown_of_opsB e hw.2 x hx
  · exact Stmt.opKnown_of_opsB _ (h.2 f hf) x hx

/-! ### what the invariant needs from the rule table -/

structure TblOps (tbl : RuleTable) : Prop where
  /-- the prefix `unary` rule is only attached to unary operators -/
  unary : ∀ t, (lookupRule tbl t).pre = some .unary → BlameSites.isUnaryTag t = true
  /-- the `postfixOp` rule is only attached to `++` / `--` (unary operators) -/
  post : ∀ t, (lookupRule tbl t).inf = some .postfixOp → BlameSites.isUnaryTag t = true
  /-- the `binary` rule is only attached to operators `evalBinary` knows -/
  binary : ∀ t, (lookupRule tbl t).inf = some .binary → BlameSites.isBinaryTag t = true
  /-- the `assign` rule is attached to `=` and the compound assignments (rewritten to `=`) -/
  assign : ∀ t, (lookupRule tbl t).inf = some .assign →
    isCompound t = true ∨ BlameSites.isBinaryTag t = true

theorem expectedRuleTable_ops : TblOps expectedRuleTable := by
  constructor <;> intro t <;> cases t <;> decide


theorem rewriteCompound_ops (l e : Expr) (op : Token) (hl : l.opsB = true) (he : e.opsB = true)
    (_ha : assignable l = true) : (rewriteCompound l e op).opsB = true := by
  simp only [rewriteCompound, Expr.opsB, Expr.opKnown, hl, he, Bool.and_true, Bool.and_eq_true]
  split <;> decide

/-! ### the invariant -/

structure AllOps (tbl : RuleTable) (n : Nat) : Prop where
  statement : ∀ ps, PM.AllR RegexTok (fun r => r.1.opsB = true) (statement tbl n ps)
  loopBody : ∀ ps, PM.AllR RegexTok (fun r => r.1.opsB = true) (loopBody tbl n ps)
  block : ∀ ps, PM.AllR RegexTok (fun r => r.1.opsB = true) (block tbl n ps)
  blockLoop : ∀ acc ps, opsSs acc = true →
    PM.AllR RegexTok (fun r => opsSs r.1 = true) (blockLoop tbl n acc ps)
  printStatement : ∀ ps, PM.AllR RegexTok (fun r => r.1.opsB = true) (printStatement tbl n ps)
  printLoop : ∀ acc ps, opsEs acc = true →
    PM.AllR RegexTok (fun r => opsEs r.1.1 = true) (printLoop tbl n acc ps)
  expressionWithPrec : ∀ prec ps,
    PM.AllR RegexTok (fun r => r.1.opsB = true) (expressionWithPrec tbl n prec ps)
  infixLoop : ∀ prec lhs ps, lhs.opsB = true →
    PM.AllR RegexTok (fun r => r.1.opsB = true) (infixLoop tbl n prec lhs ps)
  prefixFn : ∀ pk ps, (lookupRule tbl ps.cur.tag).pre = some pk →
    PM.AllR RegexTok (fun r => r.1.opsB = true) (prefixFn tbl n pk ps)
  exprList : ∀ endTag acc ps, opsEs acc = true →
    PM.AllR RegexTok (fun r => opsEs r.1 = true) (exprList tbl n endTag acc ps)
  objectLoop : ∀ acc ps, opsKVs acc = true →
    PM.AllR RegexTok (fun r => opsKVs r.1 = true) (objectLoop tbl n acc ps)
  matchCases : ∀ acc ps, opsCases acc = true →
    PM.AllR RegexTok (fun r => opsCases r.1 = true) (matchCases tbl n acc ps)
  matchPats : ∀ acc ps, opsEs acc = true →
    PM.AllR RegexTok (fun r => opsEs r.1 = true) (matchPats tbl n acc ps)
  infixFn : ∀ ik lhs ps, (lookupRule tbl ps.cur.tag).inf = some ik → lhs.opsB = true →
    PM.AllR RegexTok (fun r => r.1.opsB = true) (infixFn tbl n ik lhs ps)

section tactics
set_option hygiene false

macro "ops_ih" : tactic => `(tactic| (first
  | with_reducible refine PM.AllR.mono (ih.statement _) (fun r hx => ?_)
  | with_reducible refine PM.AllR.mono (ih.loopBody _) (fun r hx => ?_)
  | with_reducible refine PM.AllR.mono (ih.block _) (fun r hx => ?_)
  | with_reducible refine PM.AllR.mono (ih.printStatement _) (fun r hx => ?_)
  | with_reducible refine PM.AllR.mono (ih.expressionWithPrec _ _) (fun r hx => ?_)
  | with_reducible refine PM.AllR.mono (ih.prefixFn _ _ ?_) (fun r hx => ?_)
  | with_reducible refine PM.AllR.mono (ih.blockLoop _ _ ?_) (fun r hx => ?_)
  | with_reducible refine PM.AllR.mono (ih.printLoop _ _ ?_) (fun r hx => ?_)
  | with_reducible refine PM.AllR.mono (ih.infixLoop _ _ _ ?_) (fun r hx => ?_)
  | with_reducible refine PM.AllR.mono (ih.exprList _ _ _ ?_) (fun r hx => ?_)
  | with_reducible refine PM.AllR.mono (ih.objectLoop _ _ ?_) (fun r hx => ?_)
  | with_reducible refine PM.AllR.mono (ih.matchCases _ _ ?_) (fun r hx => ?_)
  | with_reducible refine PM.AllR.mono (ih.matchPats _ _ ?_) (fun r hx => ?_)
  | with_reducible refine PM.AllR.mono (ih.infixFn _ _ _ ?_ ?_) (fun r hx => ?_)))

macro "ops_run" : tactic => `(tactic| repeat' (first
  | pall_step
  | (ops_ih <;> try (obtain ⟨x, ps'⟩ := r; dsimp only at hx ⊢))))

macro "ops_close" : tactic => `(tactic| (
  subst_vars
  simp_all [-List.reverse_cons, RegexTok, Expr.opsB, Stmt.opsB, opsEs, opsSs, opsKVs, opsCases, litTag,
    Expr.opKnown, Expr.isIdent, Expr.isIdentLit, rewriteCompound_ops]))

end tactics

variable {tbl : RuleTable} {n : Nat}

theorem ops_loopBody_step (ih : AllOps tbl n) (ps : PS) :
    PM.AllR RegexTok (fun r => r.1.opsB = true) (loopBody tbl (n + 1) ps) := by
  unfold loopBody
  ops_run
  all_goals ops_close

theorem ops_block_step (ih : AllOps tbl n) (ps : PS) :
    PM.AllR RegexTok (fun r => r.1.opsB = true) (block tbl (n + 1) ps) := by
  unfold block
  ops_run
  all_goals ops_close

theorem ops_blockLoop_step (ih : AllOps tbl n) (acc : List Stmt) (ps : PS) (hacc : opsSs acc = true) :
    PM.AllR RegexTok (fun r => opsSs r.1 = true) (blockLoop tbl (n + 1) acc ps) := by
  unfold blockLoop
  ops_run
  all_goals ops_close

theorem ops_printStatement_step (ih : AllOps tbl n) (ps : PS) :
    PM.AllR RegexTok (fun r => r.1.opsB = true) (printStatement tbl (n + 1) ps) := by
  unfold printStatement
  ops_run
  all_goals ops_close

theorem ops_printLoop_step (ih : AllOps tbl n) (acc : List Expr) (ps : PS) (hacc : opsEs acc = true) :
    PM.AllR RegexTok (fun r => opsEs r.1.1 = true) (printLoop tbl (n + 1) acc ps) := by
  unfold printLoop
  ops_run
  all_goals ops_close

theorem ops_exprList_step (ih : AllOps tbl n) (endTag : Tag) (acc : List Expr) (ps : PS)
    (hacc : opsEs acc = true) :
    PM.AllR RegexTok (fun r => opsEs r.1 = true) (exprList tbl (n + 1) endTag acc ps) := by
  unfold exprList
  ops_run
  all_goals ops_close

theorem ops_objectLoop_step (ih : AllOps tbl n) (acc : List (Bytes × Expr)) (ps : PS)
    (hacc : opsKVs acc = true) :
    PM.AllR RegexTok (fun r => opsKVs r.1 = true) (objectLoop tbl (n + 1) acc ps) := by
  unfold objectLoop
  ops_run
  all_goals ops_close

theorem ops_matchCases_step (ih : AllOps tbl n) (acc : List MatchCase) (ps : PS)
    (hacc : opsCases acc = true) :
    PM.AllR RegexTok (fun r => opsCases r.1 = true) (matchCases tbl (n + 1) acc ps) := by
  unfold matchCases
  ops_run
  all_goals ops_close

theorem ops_matchPats_step (ih : AllOps tbl n) (acc : List Expr) (ps : PS) (hacc : opsEs acc = true) :
    PM.AllR RegexTok (fun r => opsEs r.1 = true) (matchPats tbl (n + 1) acc ps) := by
  unfold matchPats
  ops_run
  all_goals ops_close

theorem ops_prefixFn_step (htbl : TblOps tbl) (ih : AllOps tbl n) (pk : PrefixKind) (ps : PS)
    (hpk : (lookupRule tbl ps.cur.tag).pre = some pk) :
    PM.AllR RegexTok (fun r => r.1.opsB = true) (prefixFn tbl (n + 1) pk ps) := by
  have hun := htbl.unary ps.cur.tag
  unfold prefixFn
  ops_run
  all_goals try ops_close

theorem ops_infixFn_step (htbl : TblOps tbl) (ih : AllOps tbl n) (ik : InfixKind) (lhs : Expr) (ps : PS)
    (hik : (lookupRule tbl ps.cur.tag).inf = some ik) (hacc : lhs.opsB = true) :
    PM.AllR RegexTok (fun r => r.1.opsB = true) (infixFn tbl (n + 1) ik lhs ps) := by
  have hass := htbl.assign ps.cur.tag
  have hbin := htbl.binary ps.cur.tag
  have hpost := htbl.post ps.cur.tag
  unfold infixFn
  ops_run
  all_goals ops_close
  all_goals try decide

theorem ops_expressionWithPrec_step (ih : AllOps tbl n) (prec : Nat) (ps : PS) :
    PM.AllR RegexTok (fun r => r.1.opsB = true) (expressionWithPrec tbl (n + 1) prec ps) := by
  unfold expressionWithPrec
  pall_step
  pall_step
  generalize hpre : (lookupRule tbl s.cur.tag).pre = pre
  ops_run
  all_goals ops_close

theorem ops_infixLoop_step (ih : AllOps tbl n) (prec : Nat) (lhs : Expr) (ps : PS)
    (hacc : lhs.opsB = true) :
    PM.AllR RegexTok (fun r => r.1.opsB = true) (infixLoop tbl (n + 1) prec lhs ps) := by
  unfold infixLoop
  pall_step
  pall_step
  generalize hr : (lookupRule tbl s.cur.tag) = r
  split
  · generalize hinf : r.inf = inf
    ops_run
    all_goals ops_close
  · ops_run
    all_goals ops_close

theorem ops_statement_step (ih : AllOps tbl n) (ps : PS) :
    PM.AllR RegexTok (fun r => r.1.opsB = true) (statement tbl (n + 1) ps) := by
  unfold statement
  pall_step
  pall_step
  pall_step
  pall_step
  generalize s.cur.tag = tg0
  ops_run
  all_goals try (
    show PM.AllR _ _ _
    try generalize (ps'.cur.tag == Tag.in_ || ps'.cur.tag == Tag.comma) = fl
    cases x <;> (try cases fl) <;> dsimp only <;> ops_run)
  all_goals ops_close

/-- the well-formedness invariant holds for every function of the mutual block, at every fuel -/
theorem allOps (htbl : TblOps tbl) : ∀ n, AllOps tbl n := by
  intro n
  induction n with
  | zero =>
    constructor
    all_goals intros
    · unfold statement; exact PAll.oof_triv _ _
    · unfold loopBody; exact PAll.oof_triv _ _
    · unfold block; exact PAll.oof_triv _ _
    · unfold blockLoop; exact PAll.oof_triv _ _
    · unfold printStatement; exact PAll.oof_triv _ _
    · unfold printLoop; exact PAll.oof_triv _ _
    · unfold expressionWithPrec; exact PAll.oof_triv _ _
    · unfold infixLoop; exact PAll.oof_triv _ _
    · unfold prefixFn; exact PAll.oof_triv _ _
    · unfold exprList; exact PAll.oof_triv _ _
    · unfold objectLoop; exact PAll.oof_triv _ _
    · unfold matchCases; exact PAll.oof_triv _ _
    · unfold matchPats; exact PAll.oof_triv _ _
    · unfold infixFn; exact PAll.oof_triv _ _
  | succ n ih =>
    exact {
      statement := ops_statement_step ih
      loopBody := ops_loopBody_step ih
      block := ops_block_step ih
      blockLoop := ops_blockLoop_step ih
      printStatement := ops_printStatement_step ih
      printLoop := ops_printLoop_step ih
      expressionWithPrec := ops_expressionWithPrec_step ih
      infixLoop := ops_infixLoop_step ih
      prefixFn := ops_prefixFn_step htbl ih
      exprList := ops_exprList_step ih
      objectLoop := ops_objectLoop_step ih
      matchCases := ops_matchCases_step ih
      matchPats := ops_matchPats_step ih
      infixFn := ops_infixFn_step htbl ih }

/-! ### the top level -/

theorem parseRule_ops (ih : AllOps tbl n) (ps : PS) :
    PM.AllR RegexTok (fun r => r.1.opsB = true) (parseRule tbl n ps) := by
  unfold parseRule
  ops_run
  all_goals (subst_vars; simp_all [Rule.opsB, Stmt.opsB, opsEs])

theorem funcArgs_triv_ops : ∀ (n : Nat) (acc : List Bytes) (ps : PS),
    PM.AllR RegexTok (fun _ => True) (funcArgs n acc ps) := by
  intro n
  induction n with
  | zero => intro acc ps; unfold funcArgs; exact PAll.oof_triv _ _
  | succ n ihn =>
    intro acc ps
    unfold funcArgs
    ops_run
    all_goals first
      | exact ihn _ _
      | trivial

theorem parseFunction_ops (ih : AllOps tbl n) (ps : PS) :
    PM.AllR RegexTok (fun r => r.1.body.opsB = true) (parseFunction tbl n ps) := by
  unfold parseFunction
  ops_run
  refine PM.AllR.mono (funcArgs_triv_ops _ _ _) (fun r _ => ?_)
  obtain ⟨x, ps'⟩ := r
  dsimp only
  ops_run
  ops_close

theorem opsB_mk (rules : List Rule) (fns : List FuncDef) :
    Program.opsB ⟨rules, fns⟩ = (rules.all Rule.opsB && fns.all (fun f => f.body.opsB)) := rfl

theorem parseTop_ops (htbl : TblOps tbl) : ∀ (n : Nat) (rules : List Rule)
    (fns : List FuncDef) (ps : PS),
    rules.all Rule.opsB = true → fns.all (fun f => f.body.opsB) = true →
    PM.AllR RegexTok (fun r => r.1.opsB = true) (parseTop tbl n rules fns ps) := by
  intro n
  induction n with
  | zero => intros; unfold parseTop; exact PAll.oof_triv _ _
  | succ n ihn =>
    intro rules fns ps hrules hfns
    have ih := allOps htbl n
    unfold parseTop
    ops_run
    · simp [opsB_mk, List.all_reverse, hrules, hfns]
    · refine PM.AllR.mono (parseFunction_ops ih _) (fun r hx => ?_)
      obtain ⟨f, ps'⟩ := r
      dsimp only at hx ⊢
      ops_run
      refine ihn _ _ _ hrules ?_
      simp_all
    · refine PM.AllR.mono (parseRule_ops ih _) (fun r hx => ?_)
      obtain ⟨rule, ps'⟩ := r
      dsimp only at hx ⊢
      ops_run
      refine ihn _ _ _ ?_ hfns
      simp_all

theorem parseProgram_ops (htbl : TblOps tbl) (n : Nat) :
    PM.AllR RegexTok (fun r => r.1.opsB = true) (parseProgram tbl n PS.init) := by
  unfold parseProgram
  ops_run
  exact parseTop_ops htbl n _ _ _ rfl rfl

theorem parseExpression_ops (htbl : TblOps tbl) (n : Nat) :
    PM.AllR RegexTok (fun r => r.1.opsB = true) (parseExpression tbl n PS.init) := by
  have ih := allOps htbl n
  unfold parseExpression
  ops_run
  simp_all

/-- every program that parses (with a rule table satisfying `TblOps`) is well-formed -/
theorem parseProgramSrc_ops (htbl : TblOps tbl) (src : Bytes) (prog : Program)
    (h : parseProgramSrc tbl src = .ok prog) : prog.opsB = true := by
  unfold parseProgramSrc at h
  split at h
  · rename_i p ps' hrun
    cases h
    exact PM.run_allR (parseProgram_ops htbl _) hrun
  · cases h
  · cases h

theorem parseExpressionSrc_ops (htbl : TblOps tbl) (src : Bytes) (e : Expr)
    (h : parseExpressionSrc tbl src = .ok e) : e.opsB = true := by
  unfold parseExpressionSrc at h
  split at h
  · rename_i p ps' hrun
    cases h
    exact PM.run_allR (parseExpression_ops htbl _) hrun
  · cases h
  · cases h


/-- `parse_ops` for the rule table of src/parser.go -/
theorem parse_ops (src : Bytes) (prog : Program)
    (h : parseProgramSrc expectedRuleTable src = .ok prog) : prog.opsB = true :=
  parseProgramSrc_ops expectedRuleTable_ops src prog h

theorem parseExpr_ops (src : Bytes) (e : Expr)
    (h : parseExpressionSrc expectedRuleTable src = .ok e) : e.opsB = true :=
  parseExpressionSrc_ops expectedRuleTable_ops src e h

end Jqawk
