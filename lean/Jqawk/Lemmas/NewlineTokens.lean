/-
  C13, newline insertion: the static side.  Where in a flagged token list may a flag be raised
  (`Nl.insertable`), raising one flag (`Nl.setNl`), reflexivity of `NlMoreAt`, and helpers to
  turn a program text into a flagged token list for the examples (`lexFlags`).
-/
import Jqawk.Lemmas.NewlineSrc
import Jqawk.Lemmas.Erase
import Jqawk.Model.Dump

namespace Jqawk
namespace Nl

theorem flagOK_refl (g : G) (t : Token) (nl : Bool) : FlagOK g t nl nl := .inl rfl

theorem nlMoreAt_refl : ∀ (g : G) (ts : List (Token × Bool)), NlMoreAt g ts ts
  | _, [] => nlMoreAt_nil _
  | g, (t, nl) :: r => by
    have ih := nlMoreAt_refl (g.step t) r
    unfold NlMoreAt at ih ⊢
    rw [nlMoreB, ih, (flagOKB_iff g t nl nl).mpr (flagOK_refl g t nl)]
    simp

/-- the ghost state in which the `i`-th token of `ts` is delivered, starting from `g` -/
def ghostAt (g : G) : List (Token × Bool) → Nat → G
  | [], _ => g
  | _, 0 => g
  | (t, _) :: r, i + 1 => ghostAt (g.step t) r i

/-- raise the flag of the `i`-th token -/
def setNl : List (Token × Bool) → Nat → List (Token × Bool)
  | [], _ => []
  | (t, _) :: r, 0 => (t, true) :: r
  | x :: r, i + 1 => x :: setNl r i

/-- may a newline be inserted in front of the `i`-th token of `ts` (ghost `g` at the head)? -/
def insertableAt (g : G) (ts : List (Token × Bool)) (i : Nat) : Bool :=
  match ts[i]? with
  | some (t, _) => Allowed (ghostAt g ts i) t
  | none => false

theorem nlMoreAt_setNl : ∀ (g : G) (ts : List (Token × Bool)) (i : Nat),
    insertableAt g ts i = true → NlMoreAt g ts (setNl ts i)
  | _, [], _, h => by simp [insertableAt] at h
  | g, (t, nl) :: r, 0, h => by
    have ha : Allowed g t = true := by simpa [insertableAt, ghostAt] using h
    have ih := nlMoreAt_refl (g.step t) r
    unfold NlMoreAt at ih ⊢
    rw [setNl, nlMoreB, ih]
    have : flagOKB g t nl true = true := by
      rw [flagOKB_iff]
      cases nl
      · exact .inr ⟨rfl, rfl, ha⟩
      · exact .inl rfl
    simp [this]
  | g, (t, nl) :: r, i + 1, h => by
    have h' : insertableAt (g.step t) r i = true := by
      simpa [insertableAt, ghostAt] using h
    have ih := nlMoreAt_setNl (g.step t) r i h'
    unfold NlMoreAt at ih ⊢
    rw [setNl, nlMoreB, ih, (flagOKB_iff g t nl nl).mpr (flagOK_refl g t nl)]
    simp

/-- the frame stack after the tokens with tags `tags` (as `G.step` computes it) -/
def stackOf (tags : List Tag) : List Bool := tags.foldl (fun s t => applyTag t s) []

/-- `ghostAt` in closed form: the current tag is that of the previous token, the stack that of
    the tokens before it -/
theorem ghostAt_eq (ts : List (Token × Bool)) (i : Nat) (hi : i < ts.length) (h0 : 0 < i) :
    ghostAt G.init ts i =
      ⟨(ts[i - 1]'(by omega)).1.tag, stackOf ((ts.take (i - 1)).map fun x => x.1.tag)⟩ := by
  suffices H : ∀ (g : G) (ts : List (Token × Bool)) (i : Nat) (hi : i < ts.length) (h0 : 0 < i),
      ghostAt g ts i = ⟨(ts[i - 1]'(by omega)).1.tag,
        ((ts.take (i - 1)).map fun x => x.1.tag).foldl (fun s t => applyTag t s)
          (applyTag g.cur g.stk)⟩ from by
    have := H G.init ts i hi h0
    rw [this]; rfl
  intro g ts
  induction ts generalizing g with
  | nil => intro i hi; simp at hi
  | cons x r ih =>
    intro i hi h0
    obtain ⟨t, nl⟩ := x
    cases i with
    | zero => omega
    | succ i =>
      cases i with
      | zero => simp [ghostAt, G.step]; cases r <;> rfl
      | succ i =>
        have := ih (g.step t) (i + 1) (by simpa using hi) (by omega)
        simp only [ghostAt, this]
        simp [G.step]

end Nl

/-! ### program texts as flagged token lists (for examples; texts without regex literals) -/

/-- all tokens of a text with their newline flags, up to and including EOF, positions erased
    (every token is obtained by `Lexer.nextNN`, as the parser's `advance` does) -/
def lexFlags : Nat → LexState → Option (List (Token × Bool))
  | 0, _ => none
  | fuel + 1, s =>
    match Lexer.nextNN (s.rest.length + 1) s false with
    | .error _ => none
    | .ok (t, nl, s') =>
      if t.tag == .eof then some [(t.erase, nl)] else
      match lexFlags fuel s' with
      | some r => some ((t.erase, nl) :: r)
      | none => none

def lexE (src : Bytes) : List (Token × Bool) :=
  (lexFlags (src.length + 2) (LexState.init src)).getD []

/-- S-expression dump of a program parse (`Program` has no `DecidableEq`) -/
def dumpParse : ParseRes Program → Option Bytes
  | .ok p => some (dumpProgram p)
  | _ => none

end Jqawk
