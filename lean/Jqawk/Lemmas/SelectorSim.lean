/-
  Renaming of cell ids (C14), part 4: the relation between the states of the two runs, the
  relation between two computations (`SimW`) and its closure under the monad operations and the
  primitives of the evaluation monad.

  An out-of-fuel result on either side makes no claim (`RR`): the fuel of `createSpeculative`
  depends on the number of cells, which differs between the two runs.
-/
import Jqawk.Lemmas.SelectorRender

set_option linter.unusedVariables false

namespace Jqawk
namespace Sel

/-- the full context: the renaming plus what concerns frames and `$` -/
structure XCtx extends Ctx where
  /-- may `$` (the rule root) be read? -/
  allowD : Bool
  /-- names that may be looked up through the frames -/
  allow : Bytes → Bool
  /-- the frames below the ones the two runs push in lock step (unrelated except for the allowed names) -/
  baseA : List Frame
  baseB : List Frame
  /-- a frame has been pushed on top of the base frames -/
  inner : Bool
  /-- is `root` (the document `-o` writes) the same in both runs? -/
  trackRoot : Bool

structure XCtx.WF (X : XCtx) : Prop where
  core : X.toCtx.WF
  baseLen : X.baseA.length = X.baseB.length
  base : (X.baseA = [] ∧ X.baseB = []) ∨
    ∀ name, X.allow name = true → ∃ a b, lookupFrames X.baseA name = some a ∧
      lookupFrames X.baseB name = some b ∧ CellR X.toCtx X.m a b

def XCtx.enter (X : XCtx) : XCtx := { X with inner := true }

theorem XCtx.WF.enter {X : XCtx} (wf : X.WF) : X.enter.WF := ⟨wf.core, wf.baseLen, wf.base⟩

/-- may a local be bound in the innermost frame (it is not a base frame)? -/
def XCtx.canBind (X : XCtx) : Prop := X.inner = true ∨ (X.baseA = [] ∧ X.baseB = [])

theorem XCtx.canBind_enter (X : XCtx) : X.enter.canBind := .inl rfl

/-! ### frames -/

/-- pointwise related lists -/
inductive F2 {α : Type} (R : α → α → Prop) : List α → List α → Prop
  | nil : F2 R [] []
  | cons {a b : α} {as bs : List α} : R a b → F2 R as bs → F2 R (a :: as) (b :: bs)

theorem F2.length_eq {α : Type} {R : α → α → Prop} {l1 l2 : List α} (h : F2 R l1 l2) :
    l1.length = l2.length := by
  induction h with
  | nil => rfl
  | cons _ _ ih => simp [ih]

def FrameR (K : Ctx) (w : Nat) (f g : Frame) : Prop := MemR K w f.locals g.locals

def FR (X : XCtx) (w : Nat) (fA fB : List Frame) : Prop :=
  ∃ mfA mfB, fA = mfA ++ X.baseA ∧ fB = mfB ++ X.baseB ∧
    F2 (FrameR X.toCtx w) mfA mfB ∧ (X.inner = true → mfB ≠ [])

theorem forall2_mono {K : Ctx} {w w' : Nat} (hw : w ≤ w') {l1 l2 : List Frame}
    (h : F2 (FrameR K w) l1 l2) : F2 (FrameR K w') l1 l2 := by
  induction h with
  | nil => exact .nil
  | cons h1 _ ih => exact .cons (MemR.mono h1 hw) ih

theorem FR.mono {X : XCtx} {w w' : Nat} {fA fB : List Frame} (h : FR X w fA fB) (hw : w ≤ w') :
    FR X w' fA fB := by
  obtain ⟨mfA, mfB, e1, e2, h3, h4⟩ := h
  exact ⟨mfA, mfB, e1, e2, forall2_mono hw h3, h4⟩

theorem lookupFrames_append (l1 l2 : List Frame) (name : Bytes) :
    lookupFrames (l1 ++ l2) name =
      match lookupFrames l1 name with
      | some c => some c
      | none => lookupFrames l2 name := by
  induction l1 with
  | nil => rfl
  | cons f fs ih =>
    simp only [List.cons_append, lookupFrames]
    cases objLookup f.locals name with
    | some c => rfl
    | none => exact ih

theorem forall2_lookup {K : Ctx} {w : Nat} {l1 l2 : List Frame} (h : F2 (FrameR K w) l1 l2)
    (name : Bytes) : OptCellR K w (lookupFrames l1 name) (lookupFrames l2 name) := by
  induction h with
  | nil => trivial
  | @cons f g fs gs h1 _ ih =>
    simp only [lookupFrames]
    have := MemR.lookup h1 name
    cases ha : objLookup f.locals name with
    | some a =>
      cases hb : objLookup g.locals name with
      | some b => rw [ha, hb] at this; exact this
      | none => rw [ha, hb] at this; cases this
    | none =>
      cases hb : objLookup g.locals name with
      | some b => rw [ha, hb] at this; cases this
      | none => exact ih

/-- what a lookup through related frames gives -/
theorem FR.lookup {X : XCtx} (wf : X.WF) {w : Nat} {fA fB : List Frame} (h : FR X w fA fB)
    (hm : X.m ≤ w) (name : Bytes) (hn : X.allow name = true ∨ (X.baseA = [] ∧ X.baseB = [])) :
    (∃ a b, lookupFrames fA name = some a ∧ lookupFrames fB name = some b ∧ CellR X.toCtx w a b) ∨
    (lookupFrames fA name = none ∧ lookupFrames fB name = none ∧ X.baseA = [] ∧ X.baseB = []) := by
  obtain ⟨mfA, mfB, rfl, rfl, h3, h4⟩ := h
  rw [lookupFrames_append, lookupFrames_append]
  have hl := forall2_lookup h3 name
  cases ha : lookupFrames mfA name with
  | some a =>
    cases hb : lookupFrames mfB name with
    | some b => rw [ha, hb] at hl; exact .inl ⟨a, b, rfl, rfl, hl⟩
    | none => rw [ha, hb] at hl; cases hl
  | none =>
    cases hb : lookupFrames mfB name with
    | some b => rw [ha, hb] at hl; cases hl
    | none =>
      dsimp only
      have nil_case : X.baseA = [] ∧ X.baseB = [] →
          (∃ a b, lookupFrames X.baseA name = some a ∧ lookupFrames X.baseB name = some b ∧
            CellR X.toCtx w a b) ∨
          (lookupFrames X.baseA name = none ∧ lookupFrames X.baseB name = none ∧ X.baseA = [] ∧
            X.baseB = []) := by
        intro ⟨e1, e2⟩
        right
        rw [e1, e2]
        exact ⟨rfl, rfl, rfl, rfl⟩
      rcases wf.base with hnil | hbase
      · exact nil_case hnil
      · rcases hn with hn | hnil
        · obtain ⟨a, b, e1, e2, hc⟩ := hbase name hn
          exact .inl ⟨a, b, e1, e2, hc.mono hm⟩
        · exact nil_case hnil

theorem FR.length {X : XCtx} (wf : X.WF) {w : Nat} {fA fB : List Frame} (h : FR X w fA fB) :
    fA.length = fB.length := by
  obtain ⟨mfA, mfB, rfl, rfl, h3, h4⟩ := h
  rw [List.length_append, List.length_append, h3.length_eq, wf.baseLen]

/-! ### states and results -/

structure SR (X : XCtx) (sA sB : St) : Prop where
  heap : HR X.toCtx sA.heap sB.heap
  frames : FR X sB.heap.cells.size sA.frames sB.frames
  ruleRoot : X.allowD = true → OptCellR X.toCtx sB.heap.cells.size sA.ruleRoot sB.ruleRoot
  root : X.trackRoot = true → OptCellR X.toCtx sB.heap.cells.size sA.root sB.root
  out : sA.out = sB.out
  faults : sA.faults = sB.faults

/-- the relation on results; `w0` = number of cells of run B at the start -/
def RR (X : XCtx) {α : Type} (VR : Nat → α → α → Prop) (w0 : Nat) : Res α → Res α → Prop
  | .oof, _ => True
  | .ok _ _, .oof => True
  | .err _ _, .oof => True
  | .ok a sA, .ok b sB => w0 ≤ sB.heap.cells.size ∧ VR sB.heap.cells.size a b ∧ SR X sA sB
  | .err eA sA, .err eB sB =>
    w0 ≤ sB.heap.cells.size ∧ eA = eB ∧ SR X sA sB ∧
      (eA = .sig .ret → OptCellR X.toCtx sB.heap.cells.size sA.returnVal sB.returnVal)
  | .ok _ _, .err _ _ => False
  | .err _ _, .ok _ _ => False

theorem RR.oofR (X : XCtx) {α : Type} (VR : Nat → α → α → Prop) (w0 : Nat) (r : Res α) :
    RR X VR w0 r .oof := by cases r <;> trivial

theorem RR.weaken {X : XCtx} {α : Type} {VR : Nat → α → α → Prop} {w0 w1 : Nat} {rA rB : Res α}
    (h : RR X VR w1 rA rB) (hw : w0 ≤ w1) : RR X VR w0 rA rB := by
  cases rA <;> cases rB <;> first
    | trivial
    | exact ⟨Nat.le_trans hw h.1, h.2⟩
    | exact h

/-- the two computations are related from every pair of related states with at least `w` cells -/
def SimW (X : XCtx) (w : Nat) {α : Type} (VR : Nat → α → α → Prop) (mA mB : EM α) : Prop :=
  ∀ sA sB, SR X sA sB → w ≤ sB.heap.cells.size → RR X VR sB.heap.cells.size (mA sA) (mB sB)

/-- relations that survive allocation -/
class MonoR {α : Type} (VR : Nat → α → α → Prop) : Prop where
  mono : ∀ {w w' : Nat} {a b : α}, VR w a b → w ≤ w' → VR w' a b

instance {K : Ctx} : MonoR (CellR K) := ⟨CellR.mono⟩
instance {K : Ctx} : MonoR (ValR K) := ⟨ValR.mono⟩
instance {K : Ctx} : MonoR (OptCellR K) := ⟨OptCellR.mono⟩
instance {K : Ctx} : MonoR (ListCellR K) := ⟨ListCellR.mono⟩
instance {K : Ctx} : MonoR (MemR K) := ⟨MemR.mono⟩
instance {K : Ctx} : MonoR (ListValR K) := ⟨ListValR.mono⟩
instance {K : Ctx} : MonoR (OptValR K) := ⟨OptValR.mono⟩
instance {α : Type} : MonoR (EqR (α := α)) := ⟨fun h _ => h⟩

variable {X : XCtx}

theorem SimW.mono {α : Type} {VR : Nat → α → α → Prop} {w w' : Nat} {mA mB : EM α}
    (h : SimW X w VR mA mB) (hw : w ≤ w') : SimW X w' VR mA mB :=
  fun sA sB hs hw' => h sA sB hs (Nat.le_trans hw hw')

theorem SimW.conseq {α : Type} {VR VR' : Nat → α → α → Prop} {w : Nat} {mA mB : EM α}
    (h : SimW X w VR mA mB) (hv : ∀ w' a b, w ≤ w' → VR w' a b → VR' w' a b) : SimW X w VR' mA mB := by
  intro sA sB hs hw
  have := h sA sB hs hw
  cases hA : mA sA <;> cases hB : mB sB <;> rw [hA, hB] at this <;> first
    | trivial
    | exact this
    | exact ⟨this.1, hv _ _ _ (Nat.le_trans hw this.1) this.2.1, this.2.2⟩

theorem SimW.bind {α β : Type} {VR1 : Nat → α → α → Prop} {VR2 : Nat → β → β → Prop} {w : Nat}
    {mA mB : EM α} {fA fB : α → EM β} (hm : SimW X w VR1 mA mB)
    (hf : ∀ w' a b, w ≤ w' → VR1 w' a b → SimW X w' VR2 (fA a) (fB b)) :
    SimW X w VR2 (mA >>= fA) (mB >>= fB) := by
  intro sA sB hs hw
  show RR X VR2 _ (EM.bind mA fA sA) (EM.bind mB fB sB)
  unfold EM.bind
  have h1 := hm sA sB hs hw
  cases hA : mA sA with
  | oof => trivial
  | ok a sA1 =>
    cases hB : mB sB with
    | oof => exact RR.oofR ..
    | err e sB1 => rw [hA, hB] at h1; exact h1.elim
    | ok b sB1 =>
      rw [hA, hB] at h1
      obtain ⟨h11, h12, h13⟩ := h1
      exact (hf _ a b (Nat.le_trans hw h11) h12 sA1 sB1 h13 (Nat.le_refl _)).weaken h11
  | err e sA1 =>
    cases hB : mB sB with
    | oof => exact RR.oofR ..
    | ok b sB1 => rw [hA, hB] at h1; exact h1.elim
    | err e' sB1 => rw [hA, hB] at h1; exact h1

theorem SimW.pure {α : Type} {VR : Nat → α → α → Prop} [MonoR VR] {w w0 : Nat} {a b : α}
    (h : VR w0 a b) (hw : w0 ≤ w) : SimW X w VR (Pure.pure a : EM α) (Pure.pure b) := by
  intro sA sB hs hw'
  exact ⟨Nat.le_refl _, MonoR.mono h (Nat.le_trans hw hw'), hs⟩

theorem SimW.oof {α : Type} {VR : Nat → α → α → Prop} {w : Nat} {mB : EM α} :
    SimW X w VR (Jqawk.oof : EM α) mB := fun _ _ _ _ => trivial

theorem SimW.oofR {α : Type} {VR : Nat → α → α → Prop} {w : Nat} {mA : EM α} :
    SimW X w VR mA (Jqawk.oof : EM α) := fun _ _ _ _ => RR.oofR ..

theorem SimW.getHeap_bind {α : Type} {VR : Nat → α → α → Prop} {w : Nat} {fA fB : Heap → EM α}
    (h : ∀ hA hB, HR X.toCtx hA hB → w ≤ hB.cells.size → SimW X hB.cells.size VR (fA hA) (fB hB)) :
    SimW X w VR (getHeap >>= fA) (getHeap >>= fB) :=
  fun sA sB hs hw => h sA.heap sB.heap hs.heap hw sA sB hs (Nat.le_refl _)

theorem SimW.getSt_bind {α : Type} {VR : Nat → α → α → Prop} {w : Nat} {fA fB : St → EM α}
    (h : ∀ sA sB, SR X sA sB → w ≤ sB.heap.cells.size → SimW X sB.heap.cells.size VR (fA sA) (fB sB)) :
    SimW X w VR (getSt >>= fA) (getSt >>= fB) :=
  fun sA sB hs hw => h sA sB hs hw sA sB hs (Nat.le_refl _)

/-- errors raised identically on both sides -/
theorem SimW.throwRt {α : Type} {VR : Nat → α → α → Prop} {w : Nat} (p : Nat) (m : String) :
    SimW X w VR (Jqawk.throwRt p m : EM α) (Jqawk.throwRt p m) := by
  intro sA sB hs hw
  refine ⟨Nat.le_refl _, rfl, ⟨hs.heap, hs.frames, hs.ruleRoot, hs.root, hs.out, ?_⟩, fun h => by cases h⟩
  show sA.faults + 1 = sB.faults + 1
  rw [hs.faults]

theorem SimW.throwSig {α : Type} {VR : Nat → α → α → Prop} {w : Nat} (g : Sig) (hg : g ≠ .ret) :
    SimW X w VR (Jqawk.throwSig g : EM α) (Jqawk.throwSig g) := by
  intro sA sB hs hw
  exact ⟨Nat.le_refl _, rfl, hs, fun h => by cases h; exact absurd rfl hg⟩

theorem SimW.throwPanic {α : Type} {VR : Nat → α → α → Prop} {w : Nat} (m : String) :
    SimW X w VR (Jqawk.throwPanic m : EM α) (Jqawk.throwPanic m) := by
  intro sA sB hs hw
  exact ⟨Nat.le_refl _, rfl, hs, fun h => by cases h⟩

theorem SimW.throwUnmodelled {α : Type} {VR : Nat → α → α → Prop} {w : Nat} (m : String) :
    SimW X w VR (Jqawk.throwUnmodelled m : EM α) (Jqawk.throwUnmodelled m) := by
  intro sA sB hs hw
  exact ⟨Nat.le_refl _, rfl, hs, fun h => by cases h⟩

/-- `return`: the return slot is set to corresponding cells, then the signal is raised -/
theorem SimW.ret {α : Type} {VR : Nat → α → α → Prop} {w w0 : Nat} {ca cb : Option CellId}
    (h : OptCellR X.toCtx w0 ca cb) (hw0 : w0 ≤ w) :
    SimW X w VR
      (modifySt (fun s => { s with returnVal := ca }) >>= fun _ => (Jqawk.throwSig .ret : EM α))
      (modifySt (fun s => { s with returnVal := cb }) >>= fun _ => (Jqawk.throwSig .ret : EM α)) := by
  intro sA sB hs hw
  exact ⟨Nat.le_refl _, rfl, ⟨hs.heap, hs.frames, hs.ruleRoot, hs.root, hs.out, hs.faults⟩,
    fun _ => h.mono (Nat.le_trans hw0 hw)⟩

theorem SimW.liftExcept {α : Type} {VR : Nat → α → α → Prop} [MonoR VR] {w w0 : Nat} (p : Nat)
    {ea eb : Except String α}
    (h : match ea, eb with
      | .ok a, .ok b => VR w0 a b
      | .error m, .error m' => m = m'
      | _, _ => False) (hw : w0 ≤ w) :
    SimW X w VR (Jqawk.liftExcept p ea) (Jqawk.liftExcept p eb) := by
  cases ea <;> cases eb <;> simp only at h
  · subst h; exact SimW.throwRt _ _
  · exact SimW.pure h hw

/-! ### heap primitives -/

theorem SR.withHeap (wf : X.WF) {sA sB : St} (hs : SR X sA sB) {hA hB : Heap} (r : HR X.toCtx hA hB)
    (hle : sB.heap.cells.size ≤ hB.cells.size) :
    SR X { sA with heap := hA } { sB with heap := hB } :=
  ⟨r, hs.frames.mono hle, fun h => (hs.ruleRoot h).mono hle, fun h => (hs.root h).mono hle, hs.out, hs.faults⟩

theorem SimW.newCell (wf : X.WF) {w w0 : Nat} {va vb : Val} (hv : ValR X.toCtx w0 va vb) (hw0 : w0 ≤ w) :
    SimW X w (CellR X.toCtx) (Jqawk.newCell va) (Jqawk.newCell vb) := by
  intro sA sB hs hw
  obtain ⟨r1, c1⟩ := hs.heap.alloc wf.core hv (Nat.le_trans hw0 hw)
  refine ⟨?_, ?_, hs.withHeap wf r1 ?_⟩
  · show sB.heap.cells.size ≤ (sB.heap.alloc vb).2.cells.size
    rw [size_alloc]; exact Nat.le_succ _
  · show CellR X.toCtx (sB.heap.alloc vb).2.cells.size _ _
    rw [size_alloc]; exact c1
  · show sB.heap.cells.size ≤ (sB.heap.alloc vb).2.cells.size
    rw [size_alloc]; exact Nat.le_succ _

theorem SimW.readCell {w w0 : Nat} {a b : CellId} (h : CellR X.toCtx w0 a b) (hw0 : w0 ≤ w) :
    SimW X w (ValR X.toCtx) (Jqawk.readCell a) (Jqawk.readCell b) := by
  intro sA sB hs hw
  exact ⟨Nat.le_refl _, hs.heap.get h (Nat.le_trans hw0 hw), hs⟩

theorem SimW.readCell_bind {α : Type} {VR : Nat → α → α → Prop} {w w0 : Nat} {a b : CellId}
    (h : CellR X.toCtx w0 a b) (hw0 : w0 ≤ w) {fA fB : Val → EM α}
    (hf : ∀ w' va vb, w ≤ w' → ValR X.toCtx w' va vb → SimW X w' VR (fA va) (fB vb)) :
    SimW X w VR (Jqawk.readCell a >>= fA) (Jqawk.readCell b >>= fB) :=
  SimW.bind (SimW.readCell h hw0) hf

theorem SimW.writeCell (wf : X.WF) {w w0 w1 : Nat} {a b : CellId} (h : CellR X.toCtx w0 a b) (hw0 : w0 ≤ w)
    {va vb : Val} (hv : ValR X.toCtx w1 va vb) (hw1 : w1 ≤ w) :
    SimW X w EqR (Jqawk.writeCell a va) (Jqawk.writeCell b vb) := by
  intro sA sB hs hw
  have r1 := hs.heap.set wf.core h (Nat.le_trans hw0 hw) hv (Nat.le_trans hw1 hw)
  refine ⟨?_, rfl, hs.withHeap wf r1 ?_⟩
  · show sB.heap.cells.size ≤ (sB.heap.set b vb).cells.size
    rw [Heap.size_set]; exact Nat.le_refl _
  · rw [Heap.size_set]; exact Nat.le_refl _


/-- ids of arrays / objects: the same in both runs, and live -/
def IdR (lo : Nat) (_ : Nat) (a b : Nat) : Prop := a = b ∧ lo ≤ b
instance {lo : Nat} : MonoR (IdR lo) := ⟨fun h _ => h⟩

def ExR {α : Type} (VR : Nat → α → α → Prop) (w : Nat) : Except String α → Except String α → Prop
  | .ok a, .ok b => VR w a b
  | .error m, .error m' => m = m'
  | _, _ => False

instance {α : Type} {VR : Nat → α → α → Prop} [MonoR VR] : MonoR (ExR VR) :=
  ⟨fun {w w' a b} h hw => by
    cases a <;> cases b <;> first | exact h | exact MonoR.mono (VR := VR) h hw⟩

theorem SimW.allocArrM (wf : X.WF) {w w0 : Nat} {xa xb : Array CellId} (hx : ArrR X.toCtx w0 xa xb)
    (hw0 : w0 ≤ w) : SimW X w (IdR X.a0) (Jqawk.allocArrM xa) (Jqawk.allocArrM xb) := by
  intro sA sB hs hw
  obtain ⟨r1, e1, e2⟩ := hs.heap.allocArr hx (Nat.le_trans hw0 hw)
  exact ⟨Nat.le_refl _, ⟨e1, e2⟩, hs.withHeap wf r1 (Nat.le_refl _)⟩

theorem SimW.allocObjM (wf : X.WF) {w w0 : Nat} {xa xb : List (Bytes × CellId)}
    (hx : MemR X.toCtx w0 xa xb) (hw0 : w0 ≤ w) :
    SimW X w (IdR X.o0) (Jqawk.allocObjM xa) (Jqawk.allocObjM xb) := by
  intro sA sB hs hw
  obtain ⟨r1, e1, e2⟩ := hs.heap.allocObj hx (Nat.le_trans hw0 hw)
  exact ⟨Nat.le_refl _, ⟨e1, e2⟩, hs.withHeap wf r1 (Nat.le_refl _)⟩

theorem SimW.emit {w : Nat} (b : Bytes) : SimW X w EqR (Jqawk.emit b) (Jqawk.emit b) := by
  intro sA sB hs hw
  refine ⟨Nat.le_refl _, rfl, ⟨hs.heap, hs.frames, hs.ruleRoot, hs.root, ?_, hs.faults⟩⟩
  show b :: sA.out = b :: sB.out
  rw [hs.out]

/-! ### frames -/

theorem SimW.setLocal (wf : X.WF) (hcb : X.canBind) {w w0 : Nat} (name : Bytes) {a b : CellId}
    (h : CellR X.toCtx w0 a b) (hw0 : w0 ≤ w) :
    SimW X w EqR (Jqawk.setLocal name a) (Jqawk.setLocal name b) := by
  intro sA sB hs hw
  obtain ⟨mfA, mfB, eA, eB, h3, h4⟩ := hs.frames
  unfold Jqawk.setLocal
  cases h3 with
  | nil =>
    rcases hcb with hi | ⟨bA, bB⟩
    · exact absurd rfl (h4 hi)
    · have fA : sA.frames = [] := by rw [eA, bA]; rfl
      have fB : sB.frames = [] := by rw [eB, bB]; rfl
      simp only [fA, fB]
      exact ⟨Nat.le_refl _, rfl, hs, fun h => by cases h⟩
  | @cons f g fs gs h1 h2 =>
    simp only [eA, eB, List.cons_append]
    refine ⟨Nat.le_refl _, rfl, ⟨hs.heap, ?_, hs.ruleRoot, hs.root, hs.out, hs.faults⟩⟩
    refine ⟨_ :: fs, _ :: gs, rfl, rfl, F2.cons ?_ h2, fun _ => by simp⟩
    exact MemR.objInsert h1 name (h.mono (Nat.le_trans hw0 hw))

theorem SimW.getVariable (wf : X.WF) {w : Nat} (name : Bytes)
    (hn : X.allow name = true ∨ (X.baseA = [] ∧ X.baseB = [])) :
    SimW X w (ExR (CellR X.toCtx)) (Jqawk.getVariable name) (Jqawk.getVariable name) := by
  unfold Jqawk.getVariable
  apply SimW.getSt_bind
  intro sA sB hs hw
  rcases hs.frames.lookup wf hs.heap.mle name hn with ⟨a, b, e1, e2, hc⟩ | ⟨e1, e2, bA, bB⟩
  · rw [e1, e2]
    exact SimW.pure (VR := ExR (CellR X.toCtx)) (a := .ok a) (b := .ok b) hc (Nat.le_refl _)
  · rw [e1, e2]
    dsimp only
    split
    · exact SimW.pure (VR := ExR (CellR X.toCtx)) (a := .error _) (b := .error _) (w0 := 0) rfl (Nat.zero_le _)
    · refine SimW.bind (SimW.newCell wf (ValR.unknown 0) (Nat.zero_le _)) (fun w1 ca cb hw1 hc => ?_)
      refine SimW.bind (SimW.setLocal wf (.inr ⟨bA, bB⟩) name hc (Nat.le_refl _)) (fun w2 _ _ hw2 _ => ?_)
      exact SimW.pure (VR := ExR (CellR X.toCtx)) (a := .ok ca) (b := .ok cb) hc hw2

theorem SimW.bindAll (wf : X.WF) (hcb : X.canBind) {w w0 : Nat} {la lb : List (Bytes × CellId)}
    (h : MemR X.toCtx w0 la lb) (hw0 : w0 ≤ w) : SimW X w EqR (Jqawk.bindAll la) (Jqawk.bindAll lb) := by
  obtain ⟨rfl, hl⟩ := h
  induction lb generalizing w with
  | nil => exact SimW.pure (VR := EqR) rfl (Nat.le_refl _)
  | cons kc rest ih =>
    obtain ⟨k, c⟩ := kc
    simp only [renM, List.map_cons, Jqawk.bindAll]
    refine SimW.bind (SimW.setLocal wf hcb k ⟨rfl, hl (k, c) (List.mem_cons_self ..)⟩ hw0) (fun w1 _ _ hw1 _ => ?_)
    exact ih (Nat.le_trans hw0 hw1) (fun x hx => hl x (List.mem_cons_of_mem _ hx))

theorem SimW.bindParams (wf : X.WF) (hcb : X.canBind) {w w0 : Nat} (ps : List Bytes) {va vb : List Val}
    (h : ListValR X.toCtx w0 va vb) (hw0 : w0 ≤ w) :
    SimW X w EqR (Jqawk.bindParams ps va) (Jqawk.bindParams ps vb) := by
  obtain ⟨rfl, hl⟩ := h
  induction ps generalizing w vb with
  | nil => exact SimW.pure (VR := EqR) rfl (Nat.le_refl _)
  | cons p ps ih =>
    cases vb with
    | nil =>
      simp only [List.map_nil, Jqawk.bindParams]
      refine SimW.bind (SimW.newCell wf (ValR.nilNone 0) (Nat.zero_le _)) (fun w1 ca cb hw1 hc => ?_)
      refine SimW.bind (SimW.setLocal wf hcb p hc (Nat.le_refl _)) (fun w2 _ _ hw2 _ => ?_)
      exact ih (vb := []) (Nat.le_trans hw0 (Nat.le_trans hw1 hw2)) (fun x hx => by cases hx)
    | cons v vs =>
      simp only [List.map_cons, Jqawk.bindParams]
      refine SimW.bind (SimW.newCell wf ⟨rfl, hl v (List.mem_cons_self ..)⟩ hw0) (fun w1 ca cb hw1 hc => ?_)
      refine SimW.bind (SimW.setLocal wf hcb p hc (Nat.le_refl _)) (fun w2 _ _ hw2 _ => ?_)
      exact ih (vb := vs) (Nat.le_trans hw0 (Nat.le_trans hw1 hw2))
        (fun x hx => hl x (List.mem_cons_of_mem _ hx))

theorem SimW.copyValue (wf : X.WF) {w w0 w1 : Nat} {sa sb da db : CellId} (hs : CellR X.toCtx w0 sa sb)
    (hw0 : w0 ≤ w) (hd : CellR X.toCtx w1 da db) (hw1 : w1 ≤ w) :
    SimW X w (ExR (CellR X.toCtx)) (Jqawk.copyValue sa da) (Jqawk.copyValue sb db) := by
  unfold Jqawk.copyValue
  refine SimW.readCell_bind hs hw0 (fun w2 va vb hw2 hv => ?_)
  rw [hv.1, copyVal_renV]
  cases hcv : copyVal vb with
  | error m =>
    exact SimW.pure (VR := ExR (CellR X.toCtx)) (a := .error m) (b := .error m) (w0 := 0) rfl (Nat.zero_le _)
  | ok x =>
    dsimp only
    have hx : ValR X.toCtx w2 x x := ValR.of_plain (copyVal_plain hcv) (copyVal_live hcv hv.2)
    refine SimW.bind (SimW.writeCell wf hd (Nat.le_trans hw1 hw2) hx (Nat.le_refl _)) (fun w3 _ _ hw3 _ => ?_)
    exact SimW.pure (VR := ExR (CellR X.toCtx)) (a := .ok da) (b := .ok db) hd
      (Nat.le_trans hw1 (Nat.le_trans hw2 hw3))

/-- a frame pushed, the body run in it, the saved frames restored -/
theorem SimW.framed (wf : X.WF) {α : Type} {VR : Nat → α → α → Prop} {w : Nat} (name : Bytes) (pos : Nat)
    {bodyA bodyB : EM α} (hb : SimW X.enter w VR bodyA bodyB) :
    SimW X w VR
      (do let saved := (← Jqawk.getSt).frames
          match (← Jqawk.pushFrame name) with
          | .error m => Jqawk.throwRt pos m
          | .ok () => Jqawk.withFrames saved bodyA)
      (do let saved := (← Jqawk.getSt).frames
          match (← Jqawk.pushFrame name) with
          | .error m => Jqawk.throwRt pos m
          | .ok () => Jqawk.withFrames saved bodyB) := by
  intro sA sB hs hw
  have hlen := hs.frames.length wf
  by_cases hd : sB.frames.length > callDepthLimit
  · have hdA : sA.frames.length > callDepthLimit := by rw [hlen]; exact hd
    simp only [Bind.bind, EM.bind, Jqawk.getSt, Jqawk.pushFrame, hd, hdA, ↓reduceIte]
    exact SimW.throwRt pos _ sA sB hs hw
  · have hdA : ¬ sA.frames.length > callDepthLimit := by rw [hlen]; exact hd
    simp only [Bind.bind, EM.bind, Jqawk.getSt, Jqawk.pushFrame, hd, hdA, ↓reduceIte, Jqawk.withFrames]
    obtain ⟨mfA, mfB, eA, eB, h3, h4⟩ := hs.frames
    have hs' : SR X.enter
        { sA with frames := ⟨name, []⟩ :: sA.frames, maxDepth := max sA.maxDepth (sA.frames.length + 1) }
        { sB with frames := ⟨name, []⟩ :: sB.frames, maxDepth := max sB.maxDepth (sB.frames.length + 1) } := by
      refine ⟨hs.heap, ?_, hs.ruleRoot, hs.root, hs.out, hs.faults⟩
      refine ⟨⟨name, []⟩ :: mfA, ⟨name, []⟩ :: mfB, ?_, ?_, F2.cons (MemR.nil _) h3, fun _ => by simp⟩
      · show _ :: sA.frames = _; rw [eA]; rfl
      · show _ :: sB.frames = _; rw [eB]; rfl
    have h1 := hb _ _ hs' hw
    have fix : ∀ (s1A s1B : St), SR X.enter s1A s1B → sB.heap.cells.size ≤ s1B.heap.cells.size →
        SR X { s1A with frames := sA.frames } { s1B with frames := sB.frames } := by
      intro s1A s1B h hle
      exact ⟨h.heap, hs.frames.mono hle, h.ruleRoot, h.root, h.out, h.faults⟩
    revert h1
    generalize bodyA _ = rA
    generalize bodyB _ = rB
    intro h1
    cases rA <;> cases rB <;> first
      | trivial
      | exact h1.elim
      | exact ⟨h1.1, h1.2.1, fix _ _ h1.2.2 h1.1⟩
      | exact ⟨h1.1, h1.2.1, fix _ _ h1.2.2.1 h1.1, h1.2.2.2⟩

/-! ### control combinators -/

theorem SimW.loopIter {w : Nat} {bodyA bodyB kA kB : EM Unit} (hb : SimW X w EqR bodyA bodyB)
    (hk : SimW X w EqR kA kB) : SimW X w EqR (Jqawk.loopIter bodyA kA) (Jqawk.loopIter bodyB kB) := by
  intro sA sB hs hw
  unfold Jqawk.loopIter
  have h1 := hb sA sB hs hw
  cases hA : bodyA sA with
  | oof => trivial
  | ok a sA1 =>
    cases hB : bodyB sB with
    | oof => exact RR.oofR ..
    | err e sB1 => rw [hA, hB] at h1; exact h1.elim
    | ok b sB1 =>
      rw [hA, hB] at h1
      exact (hk sA1 sB1 h1.2.2 (Nat.le_trans hw h1.1)).weaken h1.1
  | err e sA1 =>
    cases hB : bodyB sB with
    | oof => cases e <;> (try rename_i g; cases g) <;> exact RR.oofR ..
    | ok b sB1 => rw [hA, hB] at h1; exact h1.elim
    | err e' sB1 =>
      rw [hA, hB] at h1
      obtain ⟨h11, rfl, h13, h14⟩ := h1
      cases e with
      | sig g =>
        cases g with
        | brk => exact ⟨h11, rfl, h13⟩
        | cont => exact (hk sA1 sB1 h13 (Nat.le_trans hw h11)).weaken h11
        | ret => exact ⟨h11, rfl, h13, h14⟩
        | next => exact ⟨h11, rfl, h13, h14⟩
        | exit => exact ⟨h11, rfl, h13, h14⟩
      | runtime p m => exact ⟨h11, rfl, h13, h14⟩
      | panic m => exact ⟨h11, rfl, h13, h14⟩
      | unmodelled m => exact ⟨h11, rfl, h13, h14⟩

theorem SimW.catchReturn {w : Nat} {bodyA bodyB : EM Unit} (hb : SimW X w EqR bodyA bodyB) :
    SimW X w (ValR X.toCtx) (Jqawk.catchReturn bodyA) (Jqawk.catchReturn bodyB) := by
  intro sA sB hs hw
  unfold Jqawk.catchReturn
  have h1 := hb sA sB hs hw
  cases hA : bodyA sA with
  | oof => trivial
  | ok a sA1 =>
    cases hB : bodyB sB with
    | oof => exact RR.oofR ..
    | err e sB1 => rw [hA, hB] at h1; exact h1.elim
    | ok b sB1 =>
      rw [hA, hB] at h1
      exact ⟨h1.1, ValR.nilNone _, h1.2.2⟩
  | err e sA1 =>
    cases hB : bodyB sB with
    | oof => cases e <;> (try rename_i g; cases g) <;> exact RR.oofR ..
    | ok b sB1 => rw [hA, hB] at h1; exact h1.elim
    | err e' sB1 =>
      rw [hA, hB] at h1
      obtain ⟨h11, rfl, h13, h14⟩ := h1
      cases e with
      | sig g =>
        cases g with
        | ret =>
          refine ⟨h11, ?_, h13⟩
          have hr := h14 rfl
          cases hra : sA1.returnVal with
          | none =>
            cases hrb : sB1.returnVal with
            | none => exact ValR.nilNone _
            | some cb => rw [hra, hrb] at hr; cases hr
          | some ca =>
            cases hrb : sB1.returnVal with
            | none => rw [hra, hrb] at hr; cases hr
            | some cb =>
              rw [hra, hrb] at hr
              exact h13.heap.get hr (Nat.le_refl _)
        | brk => exact ⟨h11, rfl, h13, fun h => by cases h⟩
        | cont => exact ⟨h11, rfl, h13, fun h => by cases h⟩
        | next => exact ⟨h11, rfl, h13, fun h => by cases h⟩
        | exit => exact ⟨h11, rfl, h13, fun h => by cases h⟩
      | runtime p m => exact ⟨h11, rfl, h13, h14⟩
      | panic m => exact ⟨h11, rfl, h13, h14⟩
      | unmodelled m => exact ⟨h11, rfl, h13, h14⟩

theorem SimW.catchSig {α : Type} {VR : Nat → α → α → Prop} {w : Nat} (g : Sig) {dA dB : α}
    (hd : ∀ w', VR w' dA dB) {mA mB : EM α} (hm : SimW X w VR mA mB) :
    SimW X w VR (Jqawk.catchSig g dA mA) (Jqawk.catchSig g dB mB) := by
  intro sA sB hs hw
  unfold Jqawk.catchSig
  have h1 := hm sA sB hs hw
  cases hA : mA sA with
  | oof => trivial
  | ok a sA1 =>
    cases hB : mB sB with
    | oof => exact RR.oofR ..
    | err e sB1 => rw [hA, hB] at h1; exact h1.elim
    | ok b sB1 => rw [hA, hB] at h1; exact h1
  | err e sA1 =>
    cases hB : mB sB with
    | oof => cases e <;> (try split) <;> exact RR.oofR ..
    | ok b sB1 => rw [hA, hB] at h1; exact h1.elim
    | err e' sB1 =>
      rw [hA, hB] at h1
      obtain ⟨h11, rfl, h13, h14⟩ := h1
      cases e with
      | sig g' =>
        dsimp only
        split
        · exact ⟨h11, hd _, h13⟩
        · exact ⟨h11, rfl, h13, h14⟩
      | runtime p m => exact ⟨h11, rfl, h13, h14⟩
      | panic m => exact ⟨h11, rfl, h13, h14⟩
      | unmodelled m => exact ⟨h11, rfl, h13, h14⟩

end Sel
end Jqawk
