/-
  Lemmas for C16: totality of the natives, byte-level case mapping.
-/
import Jqawk.Lemmas.Arr
namespace Jqawk
open Jqawk

theorem lower_upper_byte : ∀ c : UInt8,
    (let u := if 97 ≤ c && c ≤ 122 then c - 32 else c; if 65 ≤ u && u ≤ 90 then u + 32 else u)
      = (if 65 ≤ c && c ≤ 90 then c + 32 else c) := by
  have : ∀ n : Fin 256, (let c := UInt8.ofFin n
      (let u := if 97 ≤ c && c ≤ 122 then c - 32 else c; if 65 ≤ u && u ≤ 90 then u + 32 else u)
      = (if 65 ≤ c && c ≤ 90 then c + 32 else c)) := by decide +kernel
  intro c
  exact this c.toFin

/-- every native except printf/json (fuel of the renderer) and lower/upper (non-ASCII text is not
    modelled) always returns: `.ok` with a value or an error value -/
theorem native_returns (f : Native) (args : List Val) (this : Option Val) (s : St)
    (hf : f ≠ .printf ∧ f ≠ .json ∧ f ≠ .strLower ∧ f ≠ .strUpper) :
    ∃ r s', callNative f args this s = .ok r s' := by
  obtain ⟨h1, h2, h3, h4⟩ := hf
  cases f
  case printf => exact absurd rfl h1
  case json => exact absurd rfl h2
  case strLower => exact absurd rfl h3
  case strUpper => exact absurd rfl h4
  case objPluck =>
    rcases this with _ | v
    · simp [callNative, bind, EM.bind, getHeap, pure, EM.pure]
    · cases v
      case obj o => rw [callNative_objPluck]; split <;> simp
      all_goals simp [callNative, bind, EM.bind, getHeap, pure, EM.pure]
  all_goals (
    simp only [callNative, bind, EM.bind, getHeap]
    repeat' split
    all_goals (generalize checkArgCount args 1 = ca1; cases ca1)
    all_goals (generalize checkArgCount args 0 = ca0; cases ca0)
    all_goals (generalize checkArg args 0 .str = ca; cases ca)
    all_goals simp [pure, EM.pure, newCell, setHeap, EM.bind, getHeap, newArrayOf_eq])

theorem callNative_printf_cases (args : List Val) (this : Option Val) (s : St) :
    callNative .printf args this s = .oof ∨ ∃ r s', callNative .printf args this s = .ok r s' := by
  simp only [callNative, bind, EM.bind, getHeap]
  cases printfFormat (prettyTop s.heap) args with
  | none => left; rfl
  | some r => right; cases r <;> simp [pure, EM.pure, emit, EM.bind]

theorem callNative_json_cases (args : List Val) (this : Option Val) (s : St) :
    callNative .json args this s = .oof ∨ ∃ r s', callNative .json args this s = .ok r s' := by
  simp only [callNative, bind, EM.bind, getHeap]
  cases checkArgCount args 1 with
  | error m => right; simp [pure, EM.pure]
  | ok u =>
    cases toJValTop s.heap (args.getD 0 .unknown) with
    | oof => left; rfl
    | ok j => right; simp [pure, EM.pure]
    | error m => right; simp [pure, EM.pure]

theorem callNative_case_cases (f : Native) (hf : f = .strLower ∨ f = .strUpper) (args : List Val)
    (this : Option Val) (s : St) :
    (∃ why, callNative f args this s = .err (.unmodelled why) s) ∨
      ∃ r, callNative f args this s = .ok r s := by
  rcases hf with rfl | rfl <;>
  · simp only [callNative, bind, EM.bind, getHeap]
    split
    · split
      · right; simp [pure, EM.pure]
      · left; simp [throwUnmodelled]
    · right; simp [pure, EM.pure]

end Jqawk
