/-
  Lemmas for C18: the directive loop of `printfLoop` unfolded case by case, and its relation to
  the reference parser `Spec.parseDirective`.
-/
import Jqawk.Spec.PrintfRef
set_option linter.unusedSimpArgs false

namespace Jqawk
open Jqawk Spec

theorem printfLoop_nil (render : Val → Option Bytes) (args : List Val) (fuel i : Nat) (acc : Bytes) :
    printfLoop render args (fuel + 1) [] i acc = some (.ok acc) := by
  simp [printfLoop]

theorem printfLoop_lit (render : Val → Option Bytes) (args : List Val) (fuel i : Nat) (acc rest : Bytes)
    (b : UInt8) (hb : b ≠ 37) :
    printfLoop render args (fuel + 1) (b :: rest) i acc = printfLoop render args fuel rest i (acc ++ [b]) := by
  simp [printfLoop, hb]

/-- a run of bytes without `%` is copied -/
theorem printfLoop_run (render : Val → Option Bytes) (args : List Val) (run : Bytes) (h : 37 ∉ run) :
    ∀ (fuel i : Nat) (acc rest : Bytes),
    printfLoop render args (fuel + run.length) (run ++ rest) i acc
      = printfLoop render args fuel rest i (acc ++ run) := by
  induction run with
  | nil => intros; simp
  | cons b run ih =>
    intro fuel i acc rest
    simp only [List.mem_cons, not_or] at h
    have hb : b ≠ 37 := fun e => h.1 e.symm
    rw [List.length_cons, ← Nat.add_assoc, List.cons_append, printfLoop_lit _ _ _ _ _ _ _ hb, ih h.2]
    simp

theorem drop_takeWhile_length {α} (p : α → Bool) (l : List α) :
    l.drop (l.takeWhile p).length = l.dropWhile p := by
  induction l with
  | nil => rfl
  | cons a l ih => by_cases h : p a <;> simp [List.takeWhile, List.dropWhile, h, ih]

theorem parseWidth_neg (ds : Bytes) :
    parseWidth (45 :: ds) =
      if ds.isEmpty then none
      else if digitsToNat ds > 9223372036854775808 then none else some (-(digitsToNat ds : Int)) := by
  simp [parseWidth]

theorem parseWidth_pos (c : UInt8) (ds : Bytes) (hc : c ≠ 45) :
    parseWidth (c :: ds) =
      if digitsToNat (c :: ds) > 9223372036854775807 then none else some (digitsToNat (c :: ds) : Int) := by
  unfold parseWidth
  split
  rename_i heq
  split at heq
  · rename_i h; simp at h; exact absurd h.1 hc
  · simp only [Prod.mk.injEq] at heq
    obtain ⟨rfl, rfl⟩ := heq
    simp
/-- the width scan of `printfLoop`, as a function of the text after `%` (first byte `c`) -/
def widthScan (c : UInt8) (rest : Bytes) : Except String Int × UInt8 × Bytes :=
  if isDigitB c || c == 45 then
    let numStr := c :: (rest.drop 1).takeWhile isDigitB
    let after := rest.drop numStr.length
    match parseWidth numStr with
    | none => (.error "invalid width specifier", 32, after)
    | some w =>
      if w > widthLimit || w < -widthLimit then (.error "width specifier too large", 32, after)
      else (.ok w, (if c == 48 then 48 else 32), after)
  else (.ok 0, 32, rest)

theorem isDigitB_ne_45 (c : UInt8) (h : isDigitB c = true) : c ≠ 45 := by
  rintro rfl; revert h; decide

/-- normal form of the scan: a minus sign -/
theorem widthScan_neg (tl : Bytes) :
    widthScan 45 (45 :: tl) =
      let ds := tl.takeWhile isDigitB
      let after := tl.dropWhile isDigitB
      if ds.isEmpty then (.error "invalid width specifier", 32, after)
      else if digitsToNat ds > 9223372036854775808 then (.error "invalid width specifier", 32, after)
      else if digitsToNat ds > 65536 then (.error "width specifier too large", 32, after)
      else (.ok (-(digitsToNat ds : Int)), 32, after) := by
  simp only [widthScan, parseWidth_neg, List.drop_succ_cons, List.drop_zero, List.length_cons,
    drop_takeWhile_length, widthLimit]
  generalize tl.takeWhile isDigitB = ds
  generalize tl.dropWhile isDigitB = after
  generalize hn : digitsToNat ds = n
  by_cases h1 : ds = []
  · simp [h1]
  by_cases h2 : 9223372036854775808 < n
  · simp [h1, h2]
  by_cases h3 : 65536 < n
  · simp [h1, h2, h3]; omega
  · simp [h1, h2, h3]; omega

/-- normal form of the scan: a digit -/
theorem widthScan_digit (c : UInt8) (tl : Bytes) (hc : isDigitB c = true) :
    widthScan c (c :: tl) =
      let ds := c :: tl.takeWhile isDigitB
      let after := tl.dropWhile isDigitB
      if digitsToNat ds > 9223372036854775807 then (.error "invalid width specifier", 32, after)
      else if digitsToNat ds > 65536 then (.error "width specifier too large", 32, after)
      else (.ok (digitsToNat ds : Int), (if c == 48 then 48 else 32), after) := by
  simp only [widthScan, hc, parseWidth_pos _ _ (isDigitB_ne_45 c hc), List.drop_succ_cons, List.drop_zero, List.length_cons,
    drop_takeWhile_length, widthLimit]
  generalize tl.dropWhile isDigitB = after
  generalize hn : digitsToNat (c :: tl.takeWhile isDigitB) = n
  by_cases h2 : 9223372036854775807 < n
  · simp [h2]
  by_cases h3 : 65536 < n
  · simp [h2, h3] <;> (try constructor) <;> (try apply decide_eq_false) <;> omega
  · simp [h2, h3] <;> (try constructor) <;> (try apply decide_eq_false) <;> omega

theorem widthScan_other (c : UInt8) (tl : Bytes) (hc : isDigitB c = false) (h45 : c ≠ 45) :
    widthScan c (c :: tl) = (.ok 0, 32, c :: tl) := by
  simp [widthScan, hc, h45]


theorem parseDirective_neg (tl : Bytes) :
    parseDirective (45 :: tl) =
      let ds := tl.takeWhile isDigitB
      if ds.isEmpty then .error "unparsable width"
      else if digitsToNat ds > 65536 then .error "width too large"
      else match tl.dropWhile isDigitB with
        | [] => .error "dangling width"
        | code :: rest' =>
          if isCode code then .ok (.dir false (-(digitsToNat ds : Int)) code, rest') else .error "unknown code" := by
  simp [parseDirective, maxWidth]
  rfl

theorem parseDirective_digit (c : UInt8) (tl : Bytes) (hc : isDigitB c = true) :
    parseDirective (c :: tl) =
      let ds := c :: tl.takeWhile isDigitB
      if digitsToNat ds > 65536 then .error "width too large"
      else match tl.dropWhile isDigitB with
        | [] => .error "dangling width"
        | code :: rest' =>
          if isCode code then .ok (.dir (c == 48) (digitsToNat ds : Int) code, rest') else .error "unknown code" := by
  have := isDigitB_ne_45 c hc
  have h' : (c == 45) = false := by simpa using this
  simp [parseDirective, maxWidth, this, hc, h']
  rfl

theorem parseDirective_other (c : UInt8) (tl : Bytes) (hc : isDigitB c = false) (h45 : c ≠ 45) :
    parseDirective (c :: tl) =
      if isCode c then .ok (.dir false 0 c, tl) else .error "unknown code" := by
  simp [parseDirective, maxWidth, h45, hc, digitsToNat]

/-- what `printfLoop` does with a directive once width, pad byte and code are known -/
def dirStep (render : Val → Option Bytes) (args : List Val) (fuel : Nat) (width : Int) (padChar code : UInt8)
    (rest : Bytes) (i : Nat) (acc : Bytes) : Option (Except String Bytes) :=
  if code == 37 then printfLoop render args fuel rest i (acc ++ [37])
  else if code == 115 ∨ code == 102 ∨ code == 118 then
    match args[i]? with
    | none => some (.error "missing argument")
    | some v =>
      match renderArg render code v with
      | none => none
      | some (.error m) => some (.error m)
      | some (.ok r) => printfLoop render args fuel rest (i + 1) (acc ++ padTo width padChar r)
  else some (.error "unknown format code")

theorem printfLoop_percent (render : Val → Option Bytes) (args : List Val) (fuel i : Nat)
    (c : UInt8) (tl acc : Bytes) :
    printfLoop render args (fuel + 1) (37 :: c :: tl) i acc =
      match widthScan c (c :: tl) with
      | (.error m, _, _) => some (.error m)
      | (.ok _, _, []) => some (.error "expected something after width specifier")
      | (.ok width, padChar, code :: rest) => dirStep render args fuel width padChar code rest i acc := by
  rw [printfLoop]
  simp only [bne_self_eq_false, Bool.false_eq_true, ↓reduceIte]
  simp only [widthScan]
  generalize (if (isDigitB c || c == 45) = true then _ else _ : Except String Int × UInt8 × Bytes) = ws
  rcases ws with ⟨wr, pc, r⟩
  cases wr with
  | error m => rfl
  | ok w =>
    cases r with
    | nil => rfl
    | cons code r =>
      simp only [dirStep]
      by_cases h37 : code = 37
      · simp [h37]
      by_cases h115 : code = 115
      · subst h115
        cases hv : args[i]? with
        | none => simp [checkArg, hv]
        | some v => cases v <;> simp [checkArg, hv, renderArg, Val.kind, Val.str!]
      by_cases h102 : code = 102
      · subst h102
        cases hv : args[i]? with
        | none => simp [checkArg, hv]
        | some v => cases v <;> simp [checkArg, hv, renderArg, Val.kind, Val.str!]
      by_cases h118 : code = 118
      · subst h118
        cases hv : args[i]? with
        | none => simp [hv]
        | some v => cases hr : render v <;> simp [hv, renderArg, hr]
      simp [h37, h115, h102, h118]

/-- how the scan of the implementation relates to the reference parser of a directive -/
def ScanAgrees (scan : Except String Int × UInt8 × Bytes) (n : Nat) :
    Except String (Item × Bytes) → Prop
  | .ok (it, rest') => ∃ z w code, it = .dir z w code ∧ isCode code = true ∧ rest'.length < n ∧
      scan = (.ok w, (if z then 48 else 32), code :: rest')
  | .error _ => (∃ m, scan.1 = .error m) ∨ (∃ w, scan.1 = .ok w ∧ scan.2.2 = []) ∨
      (∃ w code r, scan.1 = .ok w ∧ scan.2.2 = code :: r ∧ isCode code = false)

theorem length_dropWhile_le {α} (p : α → Bool) (l : List α) : (l.dropWhile p).length ≤ l.length :=
  (List.dropWhile_suffix p).length_le

theorem scan_agrees (c : UInt8) (tl : Bytes) :
    ScanAgrees (widthScan c (c :: tl)) (tl.length + 1) (parseDirective (c :: tl)) := by
  by_cases h45 : c = 45
  · subst h45
    rw [parseDirective_neg, widthScan_neg]
    have hl := length_dropWhile_le isDigitB tl
    simp only
    generalize tl.takeWhile isDigitB = ds at *
    generalize tl.dropWhile isDigitB = after at *
    by_cases h1 : ds = []
    · simp [h1, ScanAgrees]
    by_cases h2 : digitsToNat ds > 9223372036854775808
    · have : 65536 < digitsToNat ds := by omega
      simp [h1, h2, this, ScanAgrees]
    by_cases h3 : digitsToNat ds > 65536
    · simp [h1, h2, h3, ScanAgrees]
    cases after with
    | nil => simp [h1, h2, h3, ScanAgrees]
    | cons code r =>
      by_cases hc : isCode code = true
      · simp [h1, h2, h3, hc, ScanAgrees] at hl ⊢
        exact ⟨_, _, ⟨rfl, rfl⟩, hc, by omega, rfl, rfl⟩
      · simp [h1, h2, h3, hc, ScanAgrees]
  by_cases hd : isDigitB c = true
  · rw [parseDirective_digit c tl hd, widthScan_digit c tl hd]
    have hl := length_dropWhile_le isDigitB tl
    simp only
    generalize digitsToNat (c :: tl.takeWhile isDigitB) = n at *
    generalize tl.dropWhile isDigitB = after at *
    by_cases h2 : n > 9223372036854775807
    · have : 65536 < n := by omega
      simp [h2, this, ScanAgrees]
    by_cases h3 : n > 65536
    · simp [h2, h3, ScanAgrees]
    cases after with
    | nil => simp [h2, h3, ScanAgrees]
    | cons code r =>
      by_cases hc : isCode code = true
      · simp only [h2, h3, hc, ↓reduceIte, ScanAgrees]
        simp only [List.length_cons] at hl
        exact ⟨_, _, _, rfl, hc, by omega, rfl⟩
      · simp [h2, h3, hc, ScanAgrees]
  · simp only [Bool.not_eq_true] at hd
    rw [parseDirective_other c tl hd h45, widthScan_other c tl hd h45]
    by_cases hc : isCode c = true
    · simp only [hc, ↓reduceIte, ScanAgrees]
      exact ⟨_, _, _, rfl, hc, by omega, rfl⟩
    · simp [hc, ScanAgrees]

theorem printfLoop_dir_error (render : Val → Option Bytes) (args : List Val) (fuel i : Nat)
    (rest acc : Bytes) (m : String) (h : parseDirective rest = .error m) :
    ∃ m', printfLoop render args (fuel + 1) (37 :: rest) i acc = some (.error m') := by
  cases rest with
  | nil => exact ⟨_, by simp [printfLoop]; rfl⟩
  | cons c tl =>
    rw [printfLoop_percent]
    have := scan_agrees c tl
    rw [h] at this
    rcases hs : widthScan c (c :: tl) with ⟨wr, pc, r⟩
    simp only [ScanAgrees, hs] at this
    rcases this with ⟨m, rfl⟩ | ⟨w, rfl, rfl⟩ | ⟨w, code, r', rfl, rfl, hc⟩
    · exact ⟨_, rfl⟩
    · exact ⟨_, rfl⟩
    · simp only [isCode, Bool.or_eq_false_iff, beq_eq_false_iff_ne] at hc
      simp [dirStep, hc]

theorem printfLoop_dir_ok (render : Val → Option Bytes) (args : List Val) (fuel i : Nat)
    (rest acc : Bytes) (it : Item) (rest' : Bytes) (h : parseDirective rest = .ok (it, rest')) :
    ∃ z w code, it = .dir z w code ∧ isCode code = true ∧ rest'.length < rest.length ∧
      printfLoop render args (fuel + 1) (37 :: rest) i acc
        = dirStep render args fuel w (if z then 48 else 32) code rest' i acc := by
  cases rest with
  | nil => simp [parseDirective] at h
  | cons c tl =>
    rw [printfLoop_percent]
    have := scan_agrees c tl
    rw [h] at this
    obtain ⟨z, w, code, rfl, hc, hl, hs⟩ := this
    exact ⟨z, w, code, rfl, hc, by simpa using hl, by rw [hs]⟩

/-! ### the loop against the two-phase reference -/

/-- the reference started in the middle: parse the remaining format, render it with the remaining
    arguments, and put the output so far in front -/
def refFrom (render : Val → Option Bytes) (fuel : Nat) (fmt : Bytes) (rem : List Val) (acc : Bytes) : Out :=
  match parseItems fuel fmt with
  | .error m => some (.error m)
  | .ok items => prepend acc (renderItems render items rem)

theorem prepend_prepend (a b : Bytes) (x : Out) : prepend a (prepend b x) = prepend (a ++ b) x := by
  rcases x with _ | (_ | _) <;> simp [prepend]

theorem prepend_nil (x : Out) : prepend [] x = x := by
  rcases x with _ | (_ | _) <;> simp [prepend]

theorem renderItems_consLit (render : Val → Option Bytes) (b : UInt8) (items : List Item) (rem : List Val) :
    renderItems render (consLit b items) rem = prepend [b] (renderItems render items rem) := by
  cases items with
  | nil => simp [consLit, renderItems]
  | cons it items =>
    cases it with
    | lit bs => simp [consLit, renderItems, prepend_prepend]
    | dir z w c => simp [consLit, renderItems]

theorem refFrom_nil (render : Val → Option Bytes) (fuel : Nat) (rem : List Val) (acc : Bytes) :
    refFrom render (fuel + 1) [] rem acc = some (.ok acc) := by
  simp [refFrom, parseItems, renderItems, prepend]

theorem refFrom_lit (render : Val → Option Bytes) (fuel : Nat) (b : UInt8) (hb : b ≠ 37) (rest : Bytes)
    (rem : List Val) (acc : Bytes) :
    refFrom render (fuel + 1) (b :: rest) rem acc = refFrom render fuel rest rem (acc ++ [b]) := by
  simp only [refFrom, parseItems, bne_iff_ne, ne_eq, hb, not_false_eq_true, ↓reduceIte]
  cases parseItems fuel rest with
  | error m => rfl
  | ok items => simp [renderItems_consLit, prepend_prepend]

theorem Equiv_refl (x : Out) : Out.Equiv x x := by
  rcases x with _ | (_ | _) <;> simp [Out.Equiv]

theorem refFrom_dir_error (render : Val → Option Bytes) (fuel : Nat) (rest : Bytes) (rem : List Val)
    (acc : Bytes) (m : String) (h : parseDirective rest = .error m) :
    refFrom render (fuel + 1) (37 :: rest) rem acc = some (.error m) := by
  simp [refFrom, parseItems, h]

theorem refFrom_dir (render : Val → Option Bytes) (fuel : Nat) (rest rest' : Bytes) (rem : List Val)
    (acc : Bytes) (it : Item) (h : parseDirective rest = .ok (it, rest')) :
    refFrom render (fuel + 1) (37 :: rest) rem acc =
      match parseItems fuel rest' with
      | .error m => some (.error m)
      | .ok items => prepend acc (renderItems render (it :: items) rem) := by
  simp only [refFrom, parseItems, bne_self_eq_false, Bool.false_eq_true, ↓reduceIte, h]
  cases parseItems fuel rest' <;> rfl

/-- a directive that contributes `piece` and leaves the arguments `rem'` -/
theorem refFrom_piece (render : Val → Option Bytes) (fuel : Nat) (rest' : Bytes) (rem' : List Val)
    (acc piece : Bytes) :
    (match parseItems fuel rest' with
      | .error m => some (.error m)
      | .ok items => prepend acc (prepend piece (renderItems render items rem')))
      = refFrom render fuel rest' rem' (acc ++ piece) := by
  unfold refFrom
  cases parseItems fuel rest' with
  | error m => rfl
  | ok items => simp [prepend_prepend]

/-- the loop agrees with `y`, or it ran out of fuel inside `render` -/
def LoopOK (render : Val → Option Bytes) (args : List Val) (x y : Out) : Prop :=
  match x with
  | none => ∃ v ∈ args, render v = none
  | some r => Out.Equiv (some r) y

theorem loop_refines (render : Val → Option Bytes) (args : List Val) :
    ∀ (n : Nat) (fmt : Bytes) (f1 f2 i : Nat) (acc : Bytes), fmt.length ≤ n → fmt.length < f1 →
      fmt.length < f2 →
      LoopOK render args (printfLoop render args f1 fmt i acc)
        (refFrom render f2 fmt (args.drop i) acc) := by
  intro n
  induction n with
  | zero =>
    intro fmt f1 f2 i acc hn h1 h2
    have : fmt = [] := by cases fmt <;> simp_all
    subst this
    obtain ⟨k1, rfl⟩ : ∃ k, f1 = k + 1 := ⟨f1 - 1, by simp at h1; omega⟩
    obtain ⟨k2, rfl⟩ : ∃ k, f2 = k + 1 := ⟨f2 - 1, by simp at h2; omega⟩
    rw [printfLoop_nil, refFrom_nil]
    simp [LoopOK, Out.Equiv]
  | succ n ih =>
    intro fmt f1 f2 i acc hn h1 h2
    obtain ⟨k1, rfl⟩ : ∃ k, f1 = k + 1 := ⟨f1 - 1, by omega⟩
    obtain ⟨k2, rfl⟩ : ∃ k, f2 = k + 1 := ⟨f2 - 1, by omega⟩
    cases fmt with
    | nil =>
      rw [printfLoop_nil, refFrom_nil]
      simp [LoopOK, Out.Equiv]
    | cons b rest =>
      simp only [List.length_cons] at hn h1 h2
      by_cases hb : b = 37
      · subst hb
        cases hpd : parseDirective rest with
        | error m =>
          obtain ⟨m', hm'⟩ := printfLoop_dir_error render args k1 i rest acc m hpd
          rw [hm', refFrom_dir_error _ _ _ _ _ _ hpd]
          simp [LoopOK, Out.Equiv]
        | ok p =>
          obtain ⟨it, rest'⟩ := p
          obtain ⟨z, w, code, rfl, hcode, hlen, hstep⟩ :=
            printfLoop_dir_ok render args k1 i rest acc it rest' hpd
          rw [hstep, refFrom_dir _ _ _ _ _ _ _ hpd]
          have ihr := fun i acc => ih rest' k1 k2 i acc (by omega) (by omega) (by omega)
          unfold dirStep
          by_cases h37 : code = 37
          · subst h37
            simp only [beq_self_eq_true, ↓reduceIte, renderItems]
            rw [refFrom_piece]
            exact ihr i (acc ++ [37])
          · have hc' : (code == 115) = true ∨ (code == 102) = true ∨ (code == 118) = true := by
              simp only [isCode, Bool.or_eq_true, beq_iff_eq] at hcode ⊢
              rcases hcode with ((h | h) | h) | h <;> simp_all
            have h37' : (code == 37) = false := by simpa using h37
            simp only [h37', Bool.false_eq_true, ↓reduceIte, hc', renderItems]
            cases hv : args[i]? with
            | none =>
              have hd : args.drop i = [] := by
                rw [List.drop_eq_nil_iff]; exact List.getElem?_eq_none_iff.mp hv
              simp only [hd]
              cases parseItems k2 rest' <;> simp [LoopOK, Out.Equiv, prepend]
            | some v =>
              obtain ⟨hi, hvi⟩ := List.getElem?_eq_some_iff.mp hv
              have hd : args.drop i = v :: args.drop (i + 1) := by
                rw [List.drop_eq_getElem_cons hi, hvi]
              simp only [hd]
              cases hra : renderArg render code v with
              | none =>
                simp only [LoopOK]
                refine ⟨v, hvi ▸ List.getElem_mem hi, ?_⟩
                unfold renderArg at hra
                split at hra
                · split at hra <;> simp at hra
                · split at hra
                  · split at hra <;> simp at hra
                  · split at hra <;> simp_all
              | some e =>
                cases e with
                | error m =>
                  simp only
                  cases parseItems k2 rest' <;> simp [LoopOK, Out.Equiv, prepend]
                | ok r =>
                  simp only
                  rw [refFrom_piece]
                  exact ihr (i + 1) _
      · rw [printfLoop_lit _ _ _ _ _ _ _ hb, refFrom_lit _ _ _ hb]
        exact ih rest k1 k2 i (acc ++ [b]) (by omega) (by omega) (by omega)

/-! ### decimal digit strings -/

theorem takeWhile_append_stop {α} (p : α → Bool) (ds tail : List α) (hds : ∀ x ∈ ds, p x = true)
    (ht : ∀ x, tail.head? = some x → p x = false) :
    (ds ++ tail).takeWhile p = ds ∧ (ds ++ tail).dropWhile p = tail := by
  induction ds with
  | nil =>
    cases tail with
    | nil => simp
    | cons x t => simp [List.takeWhile, List.dropWhile, ht x rfl]
  | cons d ds ih =>
    have := ih (fun x hx => hds x (List.mem_cons_of_mem _ hx))
    simp [List.takeWhile, List.dropWhile, hds d List.mem_cons_self, this]

/-- a directive with an explicit non-negative width -/
theorem parseDirective_width (ds tail : Bytes) (hne : ds ≠ []) (hds : ∀ x ∈ ds, isDigitB x = true)
    (ht : ∀ x, tail.head? = some x → isDigitB x = false) :
    parseDirective (ds ++ tail) =
      if digitsToNat ds > 65536 then .error "width too large"
      else match (generalizing := false) tail with
        | [] => .error "dangling width"
        | code :: rest' =>
          if isCode code then .ok (.dir (ds.head? == some 48) (digitsToNat ds : Int) code, rest')
          else .error "unknown code" := by
  cases ds with
  | nil => exact absurd rfl hne
  | cons c ds =>
    have hc := hds c List.mem_cons_self
    obtain ⟨h1, h2⟩ := takeWhile_append_stop isDigitB ds tail
      (fun x hx => hds x (List.mem_cons_of_mem _ hx)) ht
    rw [List.cons_append, parseDirective_digit c _ hc]
    simp only [h1, h2, List.head?_cons]
    split
    · rfl
    · cases tail with
      | nil => rfl
      | cons code r => simp

/-- a directive with an explicit negative width -/
theorem parseDirective_negWidth (ds tail : Bytes) (hds : ∀ x ∈ ds, isDigitB x = true)
    (ht : ∀ x, tail.head? = some x → isDigitB x = false) :
    parseDirective (45 :: (ds ++ tail)) =
      if ds.isEmpty then .error "unparsable width"
      else if digitsToNat ds > 65536 then .error "width too large"
      else match (generalizing := false) tail with
        | [] => .error "dangling width"
        | code :: rest' =>
          if isCode code then .ok (.dir false (-(digitsToNat ds : Int)) code, rest')
          else .error "unknown code" := by
  obtain ⟨h1, h2⟩ := takeWhile_append_stop isDigitB ds tail hds ht
  rw [parseDirective_neg]
  simp only [h1, h2]
  split
  · rfl
  · split
    · rfl
    · cases tail <;> rfl

theorem digitsToNat_eq_ofDigitChars (l : List Char) (hl : ∀ c ∈ l, c.isDigit = true) (init : Nat) :
    (l.map fun c => c.toNat.toUInt8).foldl (fun acc c => acc * 10 + (c.toNat - 48)) init
      = Nat.ofDigitChars 10 l init := by
  induction l generalizing init with
  | nil => simp
  | cons c l ih =>
    have hc := hl c List.mem_cons_self
    simp only [Char.isDigit, Bool.and_eq_true, decide_eq_true_eq] at hc
    have h1 : c.toNat ≤ 57 := by
      have := hc.2; simp only [UInt32.le_iff_toNat_le] at this; exact this
    have : (c.toNat.toUInt8).toNat = c.toNat := by
      simp only [Nat.toUInt8, UInt8.toNat_ofNat']; omega
    simp only [List.map_cons, List.foldl_cons, Nat.ofDigitChars_cons, this]
    rw [ih (fun c hc => hl c (List.mem_cons_of_mem _ hc))]
    simp [Nat.mul_comm]

theorem digitsToNat_natToBytes (n : Nat) : digitsToNat (natToBytes n) = n := by
  unfold digitsToNat natToBytes
  rw [digitsToNat_eq_ofDigitChars _ (fun c hc => Nat.isDigit_of_mem_toDigits (by decide) (by decide) hc)]
  exact Nat.ofDigitChars_ten_toDigits

theorem natToBytes_ne_nil (n : Nat) : natToBytes n ≠ [] := by
  simp [natToBytes, Nat.toDigits_ne_nil]

theorem natToBytes_digits (n : Nat) : ∀ x ∈ natToBytes n, isDigitB x = true := by
  intro x hx
  simp only [natToBytes, List.mem_map] at hx
  obtain ⟨c, hc, rfl⟩ := hx
  have hd := Nat.isDigit_of_mem_toDigits (b := 10) (by decide) (by decide) hc
  simp only [Char.isDigit, Bool.and_eq_true, decide_eq_true_eq, UInt32.le_iff_toNat_le] at hd
  have h1 : 48 ≤ c.toNat := hd.1
  have h2 : c.toNat ≤ 57 := hd.2
  simp only [isDigitB, Bool.and_eq_true, decide_eq_true_eq, UInt8.le_iff_toNat_le, Nat.toUInt8,
    UInt8.toNat_ofNat']
  constructor <;> (simp; omega)

end Jqawk
