/-
  Provenance of positions, lexer side (C12).

  * `Tag.spelling`, `Token.lexeme`: the bytes a token is written with.
  * `lexAt_spelled` / `next_spelled`: what `Lexer.next` returns is spelled at the offset it
    carries (keywords and operators by their fixed spelling, identifiers and numbers by their
    text, strings between two equal quotes).
  * `Lexed Rq src last s`: the lexer states reachable from `LexState.init src` by the two
    requests the parser can make (`Next()`, and `Regex()` when the tag of the last token
    satisfies `Rq`), together with the last token produced.
  * `IsTokenOf`, `IsLexErrOf`, `TokenStart`: the tokens / lexical errors / token offsets of a text.
  * `Lexed.inv`: the state invariant (`rest` = the text from `pos` on, `tokenStart` = the offset
    of the last token, after a `/` the lexer stands just behind it).
  * `IsTokenOf.spelled`: every token of a text is spelled in the text at its offset; the EOF
    token carries the offset of the token before it (`eof_pos`).
  * `nextNN_lexed`: `Lexer.nextNN` (what `Parser.advance` asks for) with the fuel `PM.run` gives
    it never runs out of fuel and stays inside `Lexed`.
-/
import Jqawk.Lemmas.Lexer
import Jqawk.Model.Parser

namespace Jqawk

/-- the fixed spelling of keyword and operator tokens (empty for the tags whose tokens carry
    their own text, and for EOF) -/
def Tag.spelling : Tag → Bytes
  | .begin_ => b!"BEGIN" | .end_ => b!"END" | .beginFile => b!"BEGINFILE" | .endFile => b!"ENDFILE"
  | .print => b!"print" | .dollar => b!"$" | .function => b!"function" | .return_ => b!"return"
  | .if_ => b!"if" | .else_ => b!"else" | .for_ => b!"for" | .while_ => b!"while" | .in_ => b!"in"
  | .match_ => b!"match" | .true_ => b!"true" | .false_ => b!"false" | .break_ => b!"break"
  | .continue_ => b!"continue" | .next => b!"next" | .exit => b!"exit" | .null => b!"null"
  | .is => b!"is"
  | .newline => [10]
  | .lcurly => b!"{" | .rcurly => b!"}" | .lsquare => b!"[" | .rsquare => b!"]"
  | .lparen => b!"(" | .rparen => b!")" | .lessThan => b!"<" | .greaterThan => b!">"
  | .comma => b!"," | .dot => b!"." | .equal => b!"=" | .equalEqual => b!"==" | .bangEqual => b!"!="
  | .lessEqual => b!"<=" | .greaterEqual => b!">=" | .colon => b!":" | .semiColon => b!";"
  | .plus => b!"+" | .minus => b!"-" | .multiply => b!"*" | .divide => b!"/"
  | .plusEqual => b!"+=" | .minusEqual => b!"-=" | .multiplyEqual => b!"*=" | .divideEqual => b!"/="
  | .tilde => b!"~" | .bangTilde => b!"!~" | .ampAmp => b!"&&" | .pipePipe => b!"||"
  | .arrow => b!"=>" | .bang => b!"!" | .plusPlus => b!"++" | .minusMinus => b!"--"
  | .percent => b!"%"
  | .eof | .error | .ident | .str | .regex | .num => []

/-- does a token of this tag carry its own text? -/
def Tag.hasText : Tag → Bool
  | .ident | .num | .str | .regex => true
  | _ => false

/-- the bytes a token is written with (for strings and regexes: without the delimiters) -/
def Token.lexeme (t : Token) : Bytes := if t.tag.hasText then t.text else t.tag.spelling

namespace Prov
open Lexer

/-! ### what `Lexer.next` returns is spelled where it says -/

/-- `t` (and successor state `s'`) is what the dispatch returns on the bytes `r` at offset `p`:
    either a token written `t.lexeme` at `p`, or a string token: a quote at `p`, the text, the
    same quote again. -/
def SpelledNext (r : Bytes) (p : Nat) (t : Token) (s' : LexState) : Prop :=
  (t.tag ≠ .str ∧ t.tag ≠ .eof ∧ t.tag ≠ .regex ∧ t.pos = p ∧ t.lexeme ≠ [] ∧
    r = t.lexeme ++ s'.rest ∧ s'.pos = p + t.lexeme.length ∧ s'.tokenStart = p) ∨
  (t.tag = .str ∧ ∃ q, (q = 39 ∨ q = 34) ∧ q ∉ t.text ∧ r = q :: t.text ++ q :: s'.rest ∧
    t.pos = p + 1 ∧ s'.pos = p + t.text.length + 2 ∧ s'.tokenStart = p + 1)

theorem spelled_fixed (tg : Tag) (r' : Bytes) (p : Nat) (h1 : tg.hasText = false)
    (h2 : tg.spelling ≠ []) :
    SpelledNext (tg.spelling ++ r') p ⟨tg, p, []⟩ ⟨r', p + tg.spelling.length, p⟩ := by
  have hl : (⟨tg, p, []⟩ : Token).lexeme = tg.spelling := by simp [Token.lexeme, h1]
  refine .inl ⟨?_, ?_, ?_, rfl, by rw [hl]; exact h2, by rw [hl], by rw [hl], rfl⟩ <;>
    (intro h; dsimp only at h; subst h; first | exact h2 rfl | cases h1)

theorem ite_some_prop' {P : Tag → Prop} (c : Prop) [Decidable c] (a : Tag) (e : Option Tag)
    (ha : c → P a) (he : ∀ t, e = some t → P t) : ∀ t, (if c then some a else e) = some t → P t := by
  intro t h
  split at h
  · cases h; exact ha ‹_›
  · exact he t h

/-- the keyword table maps a word to the tag spelled that way -/
theorem keyword_spelling (s : Bytes) : ∀ t, keyword s = some t → t.spelling = s ∧ t.hasText = false := by
  unfold keyword
  iterate 22 refine ite_some_prop' _ _ _ (fun h => ⟨(eq_of_beq h).symm, rfl⟩) ?_
  intro t h; cases h

theorem identifier_spelled (pre : Bytes) (p : Nat) (r : Bytes)
    (h : pre ≠ [] ∨ ∃ c cs, r = c :: cs ∧ isIdentB c = true) :
    SpelledNext (pre ++ r) p (identifier pre p r).1 (identifier pre p r).2 := by
  have hne : pre ++ (spanB isIdentB r).1 ≠ [] := by
    rcases h with h | ⟨c, cs, rfl, hc⟩
    · simp [h]
    · simp [spanB_cons, hc]
  have happ : pre ++ r = (pre ++ (spanB isIdentB r).1) ++ (spanB isIdentB r).2 := by
    rw [List.append_assoc, spanB_append]
  rw [identifier_eq]
  generalize pre ++ (spanB isIdentB r).1 = w at *
  cases hk : keyword w with
  | none =>
    exact .inl ⟨by simp, by simp, by simp, rfl, by simpa [Token.lexeme, Tag.hasText] using hne,
      by simpa [Token.lexeme, Tag.hasText] using happ, by simp [Token.lexeme, Tag.hasText], rfl⟩
  | some kw =>
    obtain ⟨hs, ht⟩ := keyword_spelling w kw hk
    have hk3 := keyword_ne_ident_num w kw hk
    have hkr := keyword_range w kw hk
    have hl : (⟨kw, p, []⟩ : Token).lexeme = w := by simp [Token.lexeme, ht, hs]
    refine .inl ⟨?_, hk3.2.2, ?_, rfl, by rw [hl]; exact hne, by rw [hl]; exact happ, by rw [hl], rfl⟩
    · intro h; dsimp only at h; subst h; cases ht
    · intro h; dsimp only at h; subst h; cases ht

theorem number_spelled (p : Nat) (c : UInt8) (cs : Bytes) (hc : isDigitB c = true) :
    SpelledNext (c :: cs) p (number p (c :: cs)).1 (number p (c :: cs)).2 := by
  obtain ⟨h1, h2, h3, h4, h5, _⟩ := number_spec p (c :: cs)
  obtain ⟨tok, hne, hr, hp, _, _⟩ := number_consumed p c cs hc
  have hl : (number p (c :: cs)).1.lexeme = (number p (c :: cs)).1.text := by
    simp [Token.lexeme, h1, Tag.hasText]
  have hne' : (number p (c :: cs)).1.text ≠ [] := by
    intro h0
    rw [h0] at h3 h4
    have e1 := congrArg List.length hr
    have e2 := congrArg List.length h3
    have : tok.length = 0 := by simp at e1 e2; omega
    exact hne (List.length_eq_zero_iff.mp this)
  exact .inl ⟨by rw [h1]; simp, by rw [h1]; simp, by rw [h1]; simp, h2, by rw [hl]; exact hne',
    by rw [hl]; exact h3, by rw [hl]; exact h4, h5⟩

theorem string_spelled (q : UInt8) (hq : q = 39 ∨ q = 34) (p : Nat) (r : Bytes) (t : Token)
    (s' : LexState) (h : Lexer.string q p r = .ok (t, s')) : SpelledNext (q :: r) p t s' := by
  obtain ⟨body, rest', rfl, hnot, rfl, rfl⟩ := (string_ok_iff q p r t s').mp h
  exact .inr ⟨rfl, q, hq, hnot, by simp, rfl, by simp only; omega, rfl⟩

/-- the dispatch of `Lexer.next`: the token returned is spelled at the offset of the byte the
    dispatch looked at (strings: just behind it) -/
def SpOK (c : UInt8) (cs : Bytes) (p : Nat) (res : Except SynErr (Token × LexState)) : Prop :=
  ∀ t s', res = .ok (t, s') → SpelledNext (c :: cs) p t s'

section
set_option hygiene false
/-- a fixed-spelling leaf of the dispatch, after the byte tests have been substituted -/
macro "sp_leaf" : tactic => `(tactic| (
  intro t s' h
  first
    | (cases h; done)
    | (cases h; exact spelled_fixed _ _ _ rfl (by decide))))
end

theorem lexAt_spelled (c : UInt8) (cs : Bytes) (p : Nat) : SpOK c cs p (lexAt c cs p) := by
  unfold lexAt
  dsimp only
  refine ite_P (P := SpOK c cs p) _ _ _ (fun h => ?_) (fun _ => ?_)
  · have := eq_of_beq h; subst this; sp_leaf
  refine ite_P (P := SpOK c cs p) _ _ _ (fun h => ?_) (fun _ => ?_)
  · have := eq_of_beq h; subst this
    intro t s' he
    injection he with he
    have := identifier_spelled [36] p cs (.inl (by simp))
    rw [he] at this; exact this
  refine ite_P (P := SpOK c cs p) _ _ _ (fun h => ?_) (fun hd => ?_)
  · intro t s' he
    injection he with he
    have := number_spelled p c cs h
    rw [he] at this; exact this
  refine ite_P (P := SpOK c cs p) _ _ _ (fun h => ?_) (fun _ => ?_)
  · intro t s' he
    injection he with he
    have hi : isIdentB c = true := by
      simp only [isIdentB]; simp only [Bool.or_eq_true] at h ⊢; rcases h with h | h <;> simp [h]
    have := identifier_spelled [] p (c :: cs) (.inr ⟨c, cs, rfl, hi⟩)
    rw [he] at this; exact this
  iterate 12
    refine ite_P (P := SpOK c cs p) _ _ _ (fun h => ?_) (fun _ => ?_)
    · have := eq_of_beq h; subst this; sp_leaf
  iterate 10
    refine ite_P (P := SpOK c cs p) _ _ _ (fun h => ?_) (fun _ => ?_)
    · have := eq_of_beq h; subst this
      split <;> sp_leaf
  refine ite_P (P := SpOK c cs p) _ _ _ (fun h => ?_) (fun _ => ?_)
  · intro t s' he
    exact string_spelled c (by simpa using h) p cs t s' he
  · intro t s' he; cases he

/-- `Lexer.next`, success: the EOF token at the end of the text (carrying the stale
    `tokenStart`), or a token spelled behind the skipped trivia `ws` -/
theorem next_spelled (s : LexState) (t : Token) (s' : LexState) (h : Lexer.next s = .ok (t, s')) :
    ∃ ws r, s.rest = ws ++ r ∧
      ((r = [] ∧ t = ⟨.eof, s.tokenStart, []⟩ ∧ s' = ⟨[], s.pos + ws.length, s.tokenStart⟩) ∨
       (r ≠ [] ∧ SpelledNext r (s.pos + ws.length) t s')) := by
  obtain ⟨ws, r, h1, _, h3⟩ := next_cases s
  rw [h3] at h
  refine ⟨ws, r, h1, ?_⟩
  cases r with
  | nil => cases h; exact .inl ⟨rfl, rfl, rfl⟩
  | cons c cs => exact .inr ⟨by simp, lexAt_spelled c cs _ t s' h⟩

/-- `Lexer.next`, failure: an illegal byte at the offset reported, or a string whose opening
    quote stands just before the offset reported and is never closed -/
theorem next_error (s : LexState) (e : SynErr) (h : Lexer.next s = .error e) :
    ∃ ws c cs, s.rest = ws ++ c :: cs ∧
      (e.pos = s.pos + ws.length ∨ ((c = 39 ∨ c = 34) ∧ c ∉ cs ∧ e.pos = s.pos + ws.length + 1)) := by
  obtain ⟨ws, r, h1, _, h3⟩ := next_cases s
  rw [h3] at h
  cases r with
  | nil => cases h
  | cons c cs =>
    refine ⟨ws, c, cs, h1, ?_⟩
    rcases (lexAt_res c cs _).error h with rfl | ⟨hq, hn, rfl⟩
    · exact .inl rfl
    · exact .inr ⟨hq, hn, rfl⟩

/-! ### the lexer states the parser can reach, and the tokens of a text -/

section defs
variable (Rq : Tag → Prop) (src : Bytes)

/-- `Lexed Rq src last s`: the lexer, started on `src` and asked for `Next()` or — when the tag
    of the token it produced last satisfies `Rq` — for `Regex()`, can be in state `s` having
    produced `last` last (`Token.zero` before the first request). -/
inductive Lexed : Token → LexState → Prop
  | init : Lexed Token.zero (LexState.init src)
  | next {l : Token} {s : LexState} {t : Token} {s' : LexState} :
      Lexed l s → Lexer.next s = .ok (t, s') → Lexed t s'
  | regex {l : Token} {s : LexState} {t : Token} {s' : LexState} :
      Lexed l s → Rq l.tag → Lexer.regex s = .ok (t, s') → Lexed t s'

/-- `t` is a token of the text: the lexer produced it at some reachable state -/
def IsTokenOf (t : Token) : Prop :=
  ∃ l s s', Lexed Rq src l s ∧
    (Lexer.next s = .ok (t, s') ∨ (Rq l.tag ∧ Lexer.regex s = .ok (t, s')))

/-- `e` is a lexical error of the text: the lexer reports it at some reachable state -/
def IsLexErrOf (e : SynErr) : Prop :=
  ∃ l s, Lexed Rq src l s ∧ (Lexer.next s = .error e ∨ (Rq l.tag ∧ Lexer.regex s = .error e))

/-- `p` is the offset carried by a token of the text -/
def TokenStart (p : Nat) : Prop := ∃ t, IsTokenOf Rq src t ∧ t.pos = p

end defs

variable {Rq : Tag → Prop} {src : Bytes}

theorem Lexed.isTokenOf {l : Token} {s : LexState} (h : Lexed Rq src l s) :
    l = Token.zero ∨ IsTokenOf Rq src l := by
  cases h with
  | init => exact .inl rfl
  | next hl hn => exact .inr ⟨_, _, _, hl, .inl hn⟩
  | regex hl hq hn => exact .inr ⟨_, _, _, hl, .inr ⟨hq, hn⟩⟩

/-- weakening the condition under which `Regex()` may be requested -/
theorem Lexed.weaken {Rq' : Tag → Prop} (hR : ∀ t, Rq t → Rq' t) {l : Token} {s : LexState}
    (h : Lexed Rq src l s) : Lexed Rq' src l s := by
  induction h with
  | init => exact .init
  | next _ hn ih => exact .next ih hn
  | regex _ hq hn ih => exact .regex ih (hR _ hq) hn

theorem IsTokenOf.weaken {Rq' : Tag → Prop} (hR : ∀ t, Rq t → Rq' t) {t : Token}
    (h : IsTokenOf Rq src t) : IsTokenOf Rq' src t := by
  obtain ⟨l, s, s', hl, h⟩ := h
  refine ⟨l, s, s', hl.weaken hR, ?_⟩
  rcases h with h | ⟨hq, h⟩
  · exact .inl h
  · exact .inr ⟨hR _ hq, h⟩

theorem TokenStart.weaken {Rq' : Tag → Prop} (hR : ∀ t, Rq t → Rq' t) {p : Nat}
    (h : TokenStart Rq src p) : TokenStart Rq' src p := by
  obtain ⟨t, ht, hp⟩ := h
  exact ⟨t, ht.weaken hR, hp⟩

/-! ### the state invariant -/

/-- what holds in every reachable lexer state: `rest` is the text from `pos` on, `pos` lies in
    the text, `tokenStart` is the offset carried by the last token (0 before the first), which
    lies at or before `pos`; and just after a `/` token the lexer stands right behind that byte -/
structure LexInv (src : Bytes) (l : Token) (s : LexState) : Prop where
  rest : s.rest = src.drop s.pos
  pos_le : s.pos ≤ src.length
  ts : s.tokenStart = l.pos
  ts_le : l.pos ≤ s.pos
  slash : l.tag = .divide → l.pos + 1 = s.pos ∧ src[l.pos]? = some 47

theorem drop_eq_cons_getElem? {α : Type} {l : List α} {n : Nat} {a : α} {as : List α}
    (h : l.drop n = a :: as) : l[n]? = some a := by
  have := congrArg List.head? h
  simpa [List.head?_drop] using this

theorem divide_lexeme {t : Token} (h : t.tag = .divide) : t.lexeme = [47] := by
  simp [Token.lexeme, h, Tag.hasText, Tag.spelling]

theorem LexInv.next {l : Token} {s : LexState} (hi : LexInv src l s) {t : Token} {s' : LexState}
    (hn : Lexer.next s = .ok (t, s')) : LexInv src t s' := by
  obtain ⟨ws, r, h1, h⟩ := next_spelled s t s' hn
  have hlen : s.rest.length = src.length - s.pos := by rw [hi.rest]; simp
  have hdrop : src.drop (s.pos + ws.length) = r := by
    rw [← List.drop_drop, ← hi.rest, h1, List.drop_left]
  rcases h with ⟨rfl, rfl, rfl⟩ | ⟨hne, hsp⟩
  · have hw : s.rest.length = ws.length := by rw [h1]; simp
    have hpl := hi.pos_le
    have htl := hi.ts_le
    have hts := hi.ts
    refine ⟨?_, by dsimp only; omega, rfl, by dsimp only; omega, ?_⟩
    · dsimp only; rw [hdrop]
    · intro h; cases h
  · have hr : s.rest.length = ws.length + r.length := by rw [h1]; simp
    have hpl := hi.pos_le
    rcases hsp with ⟨_, _, _, hp, hlne, hr', hpos, hts⟩ | ⟨htag, q, _, _, hr', hp, hpos, hts⟩
    · have hrl : r.length = t.lexeme.length + s'.rest.length := by rw [hr']; simp
      have hlpos : 0 < t.lexeme.length := List.length_pos_iff.mpr hlne
      refine ⟨?_, by omega, by rw [hts, hp], by omega, ?_⟩
      · rw [hpos, ← List.drop_drop, hdrop, hr', List.drop_left]
      · intro hd
        have hl := divide_lexeme hd
        rw [hl] at hr' hpos
        refine ⟨by rw [hp, hpos]; rfl, ?_⟩
        rw [hp]
        exact drop_eq_cons_getElem? (hdrop.trans hr')
    · have hrl : r.length = t.text.length + s'.rest.length + 2 := by rw [hr']; simp; omega
      refine ⟨?_, by omega, by rw [hts, hp], by omega, ?_⟩
      · rw [hpos, show s.pos + ws.length + t.text.length + 2
            = (s.pos + ws.length) + (t.text.length + 2) by omega, ← List.drop_drop, hdrop, hr']
        have : q :: t.text ++ q :: s'.rest = (q :: t.text ++ [q]) ++ s'.rest := by simp
        rw [this, show t.text.length + 2 = (q :: t.text ++ [q]).length by simp, List.drop_left]
      · intro hd; rw [htag] at hd; cases hd

theorem regex_ok_iff (s : LexState) (t : Token) (s' : LexState) :
    Lexer.regex s = .ok (t, s') ↔
      ∃ body rest', s.rest = body ++ 47 :: rest' ∧ (47 : UInt8) ∉ body ∧
        t = ⟨.regex, s.tokenStart + 1, body⟩ ∧
        s' = ⟨rest', s.pos + body.length + 1, s.tokenStart + 1⟩ := by
  unfold Lexer.regex
  cases hs : scanTo 47 s.rest with
  | none =>
    simp only [reduceCtorEq, false_iff]
    rintro ⟨body, rest', h1, h2, _⟩
    have := (scanTo_some_iff 47 s.rest body rest').mpr ⟨h1, h2⟩
    rw [hs] at this; cases this
  | some br =>
    obtain ⟨b, r'⟩ := br
    obtain ⟨h1, h2⟩ := (scanTo_some_iff 47 s.rest b r').mp hs
    simp only [Except.ok.injEq, Prod.mk.injEq]
    constructor
    · rintro ⟨rfl, rfl⟩; exact ⟨b, r', h1, h2, rfl, rfl⟩
    · rintro ⟨body, rest', h3, h4, rfl, rfl⟩
      have := (scanTo_some_iff 47 s.rest body rest').mpr ⟨h3, h4⟩
      rw [hs] at this
      simp only [Option.some.injEq, Prod.mk.injEq] at this
      obtain ⟨rfl, rfl⟩ := this
      exact ⟨rfl, rfl⟩

theorem regex_error_iff (s : LexState) (e : SynErr) :
    Lexer.regex s = .error e ↔
      (47 : UInt8) ∉ s.rest ∧ e = ⟨s.tokenStart, "unexpected EOF while reading regex"⟩ := by
  unfold Lexer.regex
  cases hs : scanTo 47 s.rest with
  | none =>
    simp only [Except.error.injEq]
    exact ⟨fun h => ⟨(scanTo_none_iff 47 s.rest).mp hs, h.symm⟩, fun h => h.2.symm⟩
  | some br =>
    simp only [reduceCtorEq, false_iff, not_and]
    intro hn
    rw [(scanTo_none_iff 47 s.rest).mpr hn] at hs; cases hs

theorem LexInv.regex {l : Token} {s : LexState} (hi : LexInv src l s) {t : Token} {s' : LexState}
    (hn : Lexer.regex s = .ok (t, s')) : LexInv src t s' := by
  obtain ⟨body, rest', h1, _, rfl, rfl⟩ := (regex_ok_iff s t s').mp hn
  have hlen : s.rest.length = src.length - s.pos := by rw [hi.rest]; simp
  have hr : s.rest.length = body.length + rest'.length + 1 := by rw [h1]; simp; omega
  have hts := hi.ts
  have htl := hi.ts_le
  refine ⟨?_, by dsimp only; omega, rfl, by dsimp only; omega, ?_⟩
  · dsimp only
    rw [Nat.add_assoc, ← List.drop_drop, ← hi.rest, h1]
    have : body ++ 47 :: rest' = (body ++ [47]) ++ rest' := by simp
    rw [this, show body.length + 1 = (body ++ [47]).length by simp, List.drop_left]
  · intro h; cases h

theorem Lexed.inv {l : Token} {s : LexState} (h : Lexed Rq src l s) : LexInv src l s := by
  induction h with
  | init => exact ⟨rfl, Nat.zero_le _, rfl, Nat.le_refl _, fun h => by cases h⟩
  | next _ hn ih => exact ih.next hn
  | regex _ _ hn ih => exact ih.regex hn

/-! ### every token of a text is spelled in the text -/

/-- the token `t` is written in `src` at the offset it carries: its lexeme stands there (for a
    string: between two equal quotes, the first just before the offset; for a regex literal:
    between two slashes) -/
def SpelledIn (src : Bytes) (t : Token) : Prop :=
  match t.tag with
  | .eof => True
  | .str => ∃ q, (q = 39 ∨ q = 34) ∧ 1 ≤ t.pos ∧ src[t.pos - 1]? = some q ∧ q ∉ t.text ∧
      ∃ rest, src.drop t.pos = t.text ++ q :: rest
  | .regex => 1 ≤ t.pos ∧ src[t.pos - 1]? = some 47 ∧ (47 : UInt8) ∉ t.text ∧
      ∃ rest, src.drop t.pos = t.text ++ 47 :: rest
  | _ => t.lexeme ≠ [] ∧ ∃ rest, src.drop t.pos = t.lexeme ++ rest

/-- a spelled token other than EOF starts strictly inside the text -/
theorem SpelledIn.pos_lt {t : Token} (h : SpelledIn src t) (hne : t.tag ≠ .eof) :
    t.pos < src.length := by
  have key : ∀ (a : UInt8) (as : Bytes), src.drop t.pos = a :: as → t.pos < src.length := by
    intro a as h
    have := congrArg List.length h
    simp at this; omega
  unfold SpelledIn at h
  split at h
  · rename_i heq; exact absurd heq hne
  · obtain ⟨q, _, _, _, _, rest, hr⟩ := h
    cases ht : t.text with
    | nil => rw [ht] at hr; exact key _ _ hr
    | cons a as => rw [ht] at hr; exact key _ _ hr
  · obtain ⟨_, _, _, rest, hr⟩ := h
    cases ht : t.text with
    | nil => rw [ht] at hr; exact key _ _ hr
    | cons a as => rw [ht] at hr; exact key _ _ hr
  · obtain ⟨hl, rest, hr⟩ := h
    cases ht : t.lexeme with
    | nil => exact absurd ht hl
    | cons a as => rw [ht] at hr; exact key _ _ hr

theorem spelledIn_of_next {l : Token} {s : LexState} (hi : LexInv src l s) {t : Token}
    {s' : LexState} (hn : Lexer.next s = .ok (t, s')) (hne : t.tag ≠ .eof) : SpelledIn src t := by
  obtain ⟨ws, r, h1, h⟩ := next_spelled s t s' hn
  have hdrop : src.drop (s.pos + ws.length) = r := by
    rw [← List.drop_drop, ← hi.rest, h1, List.drop_left]
  rcases h with ⟨_, rfl, _⟩ | ⟨_, hsp⟩
  · exact absurd rfl hne
  · rcases hsp with ⟨h1, h2, h3, hp, hlne, hr', _, _⟩ | ⟨htag, q, hq, hnq, hr', hp, _, _⟩
    · unfold SpelledIn
      split
      · rename_i heq; exact absurd heq h2
      · rename_i heq; exact absurd heq h1
      · rename_i heq; exact absurd heq h3
      · exact ⟨hlne, s'.rest, by rw [hp, hdrop, hr']⟩
    · unfold SpelledIn
      rw [htag]
      dsimp only
      refine ⟨q, hq, by omega, ?_, hnq, s'.rest, ?_⟩
      · rw [hp, Nat.add_sub_cancel]
        exact drop_eq_cons_getElem? (hdrop.trans hr')
      · rw [hp, ← List.drop_drop, hdrop, hr']; rfl

/-- the condition under which the parser of the real rule table asks for `Regex()` -/
def AfterSlash (t : Tag) : Prop := t = .divide

theorem spelledIn_of_regex {l : Token} {s : LexState} (hi : LexInv src l s) (hl : l.tag = .divide)
    {t : Token} {s' : LexState} (hn : Lexer.regex s = .ok (t, s')) : SpelledIn src t := by
  obtain ⟨body, rest', h1, hnb, rfl, rfl⟩ := (regex_ok_iff s t s').mp hn
  obtain ⟨hs1, hs2⟩ := hi.slash hl
  unfold SpelledIn
  dsimp only
  rw [hi.ts]
  refine ⟨by omega, by rw [Nat.add_sub_cancel]; exact hs2, hnb, rest', ?_⟩
  rw [hs1, ← hi.rest, h1]

/-- **every token of a text is spelled in the text at the offset it carries** (regex literals
    only when `Regex()` is requested just after a `/`, as the real rule table does) -/
theorem IsTokenOf.spelled {t : Token} (h : IsTokenOf AfterSlash src t) : SpelledIn src t := by
  obtain ⟨l, s, s', hl, h⟩ := h
  rcases h with h | ⟨hq, h⟩
  · by_cases hne : t.tag = .eof
    · unfold SpelledIn; rw [hne]; trivial
    · exact spelledIn_of_next hl.inv h hne
  · exact spelledIn_of_regex hl.inv hq h

/-- whatever the `Regex()` discipline: every token other than a regex literal is spelled in
    the text at its offset -/
theorem IsTokenOf.spelled_any {t : Token} (h : IsTokenOf Rq src t) (hr : t.tag ≠ .regex) :
    SpelledIn src t := by
  obtain ⟨l, s, s', hl, h⟩ := h
  rcases h with h | ⟨_, h⟩
  · by_cases hne : t.tag = .eof
    · unfold SpelledIn; rw [hne]; trivial
    · exact spelledIn_of_next hl.inv h hne
  · obtain ⟨_, _, _, _, rfl, _⟩ := (regex_ok_iff s t s').mp h
    exact absurd rfl hr

/-- the offset carried by any token lies in the text -/
theorem IsTokenOf.pos_le {t : Token} (h : IsTokenOf Rq src t) : t.pos ≤ src.length := by
  obtain ⟨l, s, s', hl, h'⟩ := h
  have hi := hl.inv
  rcases h' with h' | ⟨_, h'⟩
  · by_cases hne : t.tag = .eof
    · obtain ⟨ws, r, h1, hc⟩ := next_spelled s t s' h'
      rcases hc with ⟨_, rfl, _⟩ | ⟨_, hsp⟩
      · have := hi.ts; have := hi.ts_le; have := hi.pos_le; dsimp only; omega
      · rcases hsp with ⟨_, h2, _⟩ | ⟨h2, _⟩
        · exact absurd hne h2
        · rw [h2] at hne; cases hne
    · exact Nat.le_of_lt ((spelledIn_of_next hi h' hne).pos_lt hne)
  · have hi' := hi.regex h'
    have := hi'.ts_le; have := hi'.pos_le; omega

theorem TokenStart.le {p : Nat} (h : TokenStart Rq src p) : p ≤ src.length := by
  obtain ⟨t, ht, rfl⟩ := h; exact ht.pos_le

/-- **the EOF token carries the offset of the token produced before it** (0 when there is
    none): Go's `tokenStart` field is not advanced at the end of the text -/
theorem Lexed.last_pos {l : Token} {s : LexState} (h : Lexed Rq src l s) :
    l.pos = 0 ∨ ∃ t, IsTokenOf Rq src t ∧ t.tag ≠ .eof ∧ t.pos = l.pos := by
  induction h with
  | init => exact .inl rfl
  | @next l s t s' hl hn ih =>
    by_cases hne : t.tag = .eof
    · obtain ⟨ws, r, h1, hc⟩ := next_spelled s t s' hn
      rcases hc with ⟨_, rfl, _⟩ | ⟨_, hsp⟩
      · dsimp only; rw [hl.inv.ts]; exact ih
      · rcases hsp with ⟨_, h2, _⟩ | ⟨h2, _⟩
        · exact absurd hne h2
        · rw [h2] at hne; cases hne
    · exact .inr ⟨t, ⟨_, _, _, hl, .inl hn⟩, hne, rfl⟩
  | @regex l s t s' hl hq hn ih =>
    refine .inr ⟨t, ⟨_, _, _, hl, .inr ⟨hq, hn⟩⟩, ?_, rfl⟩
    obtain ⟨_, _, _, _, rfl, _⟩ := (regex_ok_iff s t s').mp hn
    simp

theorem IsTokenOf.eof_pos {t : Token} (h : IsTokenOf Rq src t) (he : t.tag = .eof) :
    t.pos = 0 ∨ ∃ t', IsTokenOf Rq src t' ∧ t'.tag ≠ .eof ∧ t'.pos = t.pos := by
  obtain ⟨l, s, s', hl, h'⟩ := h
  rcases h' with h' | ⟨_, h'⟩
  · obtain ⟨ws, r, h1, hc⟩ := next_spelled s t s' h'
    rcases hc with ⟨_, rfl, _⟩ | ⟨_, hsp⟩
    · dsimp only; rw [hl.inv.ts]; exact hl.last_pos
    · rcases hsp with ⟨_, h2, _⟩ | ⟨h2, _⟩
      · exact absurd he h2
      · rw [h2] at he; cases he
  · obtain ⟨_, _, _, _, rfl, _⟩ := (regex_ok_iff s t s').mp h'
    cases he

/-- a token offset is 0 or the offset of a token that is really written there -/
theorem TokenStart.real {p : Nat} (h : TokenStart Rq src p) :
    p = 0 ∨ ∃ t, IsTokenOf Rq src t ∧ t.tag ≠ .eof ∧ t.pos = p := by
  obtain ⟨t, ht, rfl⟩ := h
  by_cases he : t.tag = .eof
  · exact ht.eof_pos he
  · exact .inr ⟨t, ht, he, rfl⟩

/-- the text holds no token at all (only blanks, CRs, tabs and comments): the very first
    answer of the lexer is EOF -/
def NoToken (src : Bytes) : Prop :=
  ∃ s1, Lexer.next (LexState.init src) = .ok (⟨.eof, 0, []⟩, s1)

/-- sharper form of `Lexed.last_pos`: the offset 0 without a token written there only occurs
    when the text holds no token at all -/
theorem Lexed.last_pos' {l : Token} {s : LexState} (h : Lexed Rq src l s) :
    (∃ t, IsTokenOf Rq src t ∧ t.tag ≠ .eof ∧ t.pos = l.pos) ∨
    (l.pos = 0 ∧ (s = LexState.init src ∨ (s.rest = [] ∧ NoToken src))) := by
  induction h with
  | init => exact .inr ⟨rfl, .inl rfl⟩
  | @next l s t s' hl hn ih =>
    by_cases hne : t.tag = .eof
    · obtain ⟨ws, r, h1, hc⟩ := next_spelled s t s' hn
      rcases hc with ⟨_, rfl, rfl⟩ | ⟨_, hsp⟩
      · dsimp only
        rw [hl.inv.ts]
        rcases ih with ih | ⟨h0, ih⟩
        · exact .inl ih
        · refine .inr ⟨h0, .inr ⟨rfl, ?_⟩⟩
          rcases ih with rfl | ⟨_, hno⟩
          · exact ⟨_, hn⟩
          · exact hno
      · rcases hsp with ⟨_, h2, _⟩ | ⟨h2, _⟩
        · exact absurd hne h2
        · rw [h2] at hne; cases hne
    · exact .inl ⟨t, ⟨_, _, _, hl, .inl hn⟩, hne, rfl⟩
  | @regex l s t s' hl hq hn ih =>
    refine .inl ⟨t, ⟨_, _, _, hl, .inr ⟨hq, hn⟩⟩, ?_, rfl⟩
    obtain ⟨_, _, _, _, rfl, _⟩ := (regex_ok_iff s t s').mp hn
    simp

theorem IsTokenOf.eof_pos' {t : Token} (h : IsTokenOf Rq src t) (he : t.tag = .eof) :
    (∃ t', IsTokenOf Rq src t' ∧ t'.tag ≠ .eof ∧ t'.pos = t.pos) ∨ (t.pos = 0 ∧ NoToken src) := by
  obtain ⟨l, s, s', hl, h'⟩ := h
  rcases h' with h' | ⟨_, h'⟩
  · obtain ⟨ws, r, h1, hc⟩ := next_spelled s t s' h'
    rcases hc with ⟨_, rfl, rfl⟩ | ⟨_, hsp⟩
    · dsimp only
      rw [hl.inv.ts]
      rcases hl.last_pos' with h | ⟨h0, h⟩
      · exact .inl h
      · refine .inr ⟨h0, ?_⟩
        rcases h with rfl | ⟨_, hno⟩
        · exact ⟨_, h'⟩
        · exact hno
    · rcases hsp with ⟨_, h2, _⟩ | ⟨h2, _⟩
      · exact absurd he h2
      · rw [h2] at he; cases he
  · obtain ⟨_, _, _, _, rfl, _⟩ := (regex_ok_iff s t s').mp h'
    cases he

/-- **what a token offset means**: a token other than EOF is written there (`SpelledIn`), or
    the offset is 0 and the text holds no token at all -/
theorem TokenStart.real' {p : Nat} (h : TokenStart Rq src p) :
    (∃ t, IsTokenOf Rq src t ∧ t.tag ≠ .eof ∧ t.pos = p) ∨ (p = 0 ∧ NoToken src) := by
  obtain ⟨t, ht, rfl⟩ := h
  by_cases he : t.tag = .eof
  · exact ht.eof_pos' he
  · exact .inl ⟨t, ht, he, rfl⟩

/-! ### lexical errors -/

/-- the offset of a lexical error lies in the text; it is the offset of the illegal byte, or
    the offset just behind the opening quote of a string that is never closed, or — for a regex
    literal that is never closed — the offset of the token before it (the `/`) -/
theorem IsLexErrOf.pos {e : SynErr} (h : IsLexErrOf Rq src e) :
    e.pos ≤ src.length ∧
    ((e.msg = "unexpected character" ∧ ∃ c, src[e.pos]? = some c) ∨
     (e.msg = "unexpected EOF while reading string" ∧
       ∃ q, (q = 39 ∨ q = 34) ∧ 1 ≤ e.pos ∧ src[e.pos - 1]? = some q ∧ q ∉ src.drop e.pos) ∨
     (e.msg = "unexpected EOF while reading regex" ∧
       (TokenStart Rq src e.pos ∨ (e.pos = 0 ∧ Rq Tag.eof)))) := by
  obtain ⟨l, s, hl, h⟩ := h
  have hi := hl.inv
  rcases h with h | ⟨hq, h⟩
  · obtain ⟨ws, r, h1, _, h3⟩ := next_cases s
    rw [h3] at h
    cases r with
    | nil => cases h
    | cons c cs =>
      have hdrop : src.drop (s.pos + ws.length) = c :: cs := by
        rw [← List.drop_drop, ← hi.rest, h1, List.drop_left]
      have hlt : s.pos + ws.length < src.length := by
        have := congrArg List.length hdrop
        simp at this; omega
      rcases (lexAt_res c cs _).error h with rfl | ⟨hq, hn, rfl⟩
      · exact ⟨Nat.le_of_lt hlt, .inl ⟨rfl, c, drop_eq_cons_getElem? hdrop⟩⟩
      · refine ⟨by dsimp only; omega, .inr (.inl ⟨rfl, c, hq, by dsimp only; omega, ?_, ?_⟩)⟩
        · dsimp only; rw [Nat.add_sub_cancel]; exact drop_eq_cons_getElem? hdrop
        · dsimp only; rw [← List.drop_drop, hdrop]; exact hn
  · obtain ⟨_, rfl⟩ := (regex_error_iff s e).mp h
    dsimp only
    rw [hi.ts]
    refine ⟨Nat.le_trans hi.ts_le hi.pos_le, .inr (.inr ⟨rfl, ?_⟩)⟩
    rcases hl.isTokenOf with rfl | ht
    · exact .inr ⟨rfl, hq⟩
    · exact .inl ⟨l, ht, rfl⟩

/-! ### `nextNN`: what `Parser.advance` asks for -/

/-- a token other than EOF consumes at least one byte -/
theorem next_rest_lt (s : LexState) (t : Token) (s' : LexState) (h : Lexer.next s = .ok (t, s'))
    (hne : t.tag ≠ .eof) : s'.rest.length < s.rest.length := by
  obtain ⟨ws, r, h1, hc⟩ := next_spelled s t s' h
  rcases hc with ⟨_, rfl, _⟩ | ⟨_, hsp⟩
  · exact absurd rfl hne
  · rcases hsp with ⟨_, _, _, _, hlne, hr', _, _⟩ | ⟨_, q, _, _, hr', _, _, _⟩
    · have := List.length_pos_iff.mpr hlne
      rw [h1, hr']; simp; omega
    · rw [h1, hr']; simp; omega

/-- `nextNN` with more fuel than bytes left never runs out of fuel; its answer is a token or a
    lexical error of the text, and the lexer stays in a reachable state -/
theorem nextNN_lexed (f : Nat) {l : Token} {s : LexState} (hl : Lexed Rq src l s) (nl : Bool)
    (hf : s.rest.length < f) :
    match Lexer.nextNN f s nl with
    | .ok (t, _, s') => Lexed Rq src t s' ∧ IsTokenOf Rq src t
    | .error e => IsLexErrOf Rq src e := by
  induction f generalizing l s nl with
  | zero => omega
  | succ f ih =>
    unfold Lexer.nextNN
    cases hn : Lexer.next s with
    | error e => exact ⟨l, s, hl, .inl hn⟩
    | ok r =>
      obtain ⟨t, s'⟩ := r
      dsimp only
      by_cases htag : (t.tag == Tag.newline) = true
      · rw [if_pos htag]
        have hne : t.tag ≠ .eof := by
          intro h; rw [h] at htag; cases htag
        have := next_rest_lt s t s' hn hne
        exact ih (hl.next hn) true (by omega)
      · rw [if_neg htag]
        exact ⟨hl.next hn, ⟨l, s, s', hl, .inl hn⟩⟩

end Prov

end Jqawk
