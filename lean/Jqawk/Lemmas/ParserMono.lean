/-
  C13: exact fuel monotonicity of the parser.  `PM.Le m₁ m₂`: the two programs are the same
  except that the left one may stop with `.oof` where the right one goes on.  Every parser
  function with fuel `n₁` is below the same function with fuel `n₂ ≥ n₁` (`allLe`), hence a run
  that is not out of fuel gives exactly the same result (AST with positions, error with
  position) with any larger fuel (`parseProgram_run_mono`).  Same organisation as
  Lemmas/Param.lean, with equality in place of equality up to positions.
-/
import Jqawk.Model.Parser

namespace Jqawk
namespace ParserMono
open Parser

/-- `m₁` is `m₂` cut off by `.oof` at some leaves -/
inductive Le {α : Type} : PM α → PM α → Prop
  | oofL {m : PM α} : Le .oof m
  | pure {a : α} : Le (.pure a) (.pure a)
  | fail {e : SynErr} : Le (.fail e) (.fail e)
  | next {k₁ k₂ : Token → Bool → PM α} : (∀ t nl, Le (k₁ t nl) (k₂ t nl)) → Le (.next k₁) (.next k₂)
  | regex {k₁ k₂ : Token → PM α} : (∀ t, Le (k₁ t) (k₂ t)) → Le (.regex k₁) (.regex k₂)

variable {α β : Type}

theorem Le.refl (m : PM α) : Le m m := by
  induction m with
  | pure a => exact .pure
  | fail e => exact .fail
  | oof => exact .oofL
  | next k ih => exact .next fun t nl => ih t nl
  | regex k ih => exact .regex fun t => ih t

theorem Le.bind {m₁ m₂ : PM α} {f g : α → PM β} (h : Le m₁ m₂) (hf : ∀ a, Le (f a) (g a)) :
    Le (m₁.bind f) (m₂.bind g) := by
  induction h with
  | oofL => exact .oofL
  | pure => exact hf _
  | fail => exact .fail
  | next _ ih => exact .next fun t nl => ih t nl
  | regex _ ih => exact .regex fun t => ih t

/-- a run that is not out of fuel is not changed by going up in the order -/
theorem Le.run {m₁ m₂ : PM α} (h : Le m₁ m₂) (s : LexState) (hne : m₁.run s ≠ .oof) :
    m₁.run s = m₂.run s := by
  induction h generalizing s with
  | oofL => exact absurd rfl hne
  | pure => rfl
  | fail => rfl
  | next _ ih =>
    simp only [PM.run] at hne ⊢
    split
    · rfl
    · rename_i t nl s' heq
      rw [heq] at hne
      exact ih _ _ _ hne
  | regex _ ih =>
    simp only [PM.run] at hne ⊢
    split
    · rfl
    · rename_i t s' heq
      rw [heq] at hne
      exact ih _ _ hne

/-- the order on state-passing programs -/
def PLe (m₁ m₂ : P α) : Prop := ∀ s, Le (m₁ s) (m₂ s)

namespace PLe

theorem refl (m : P α) : PLe m m := fun s => Le.refl (m s)

theorem oofL {m : P α} : PLe (Parser.oof : P α) m := fun _ => .oofL

theorem bind {m₁ m₂ : P α} {f g : α → P β} (h : PLe m₁ m₂) (hf : ∀ a, PLe (f a) (g a)) :
    PLe (m₁ >>= f) (m₂ >>= g) := by
  intro s
  show Le ((m₁ s).bind _) ((m₂ s).bind _)
  exact Le.bind (h s) fun r => hf r.1 r.2

theorem ite_same {c : Prop} [Decidable c] {a₁ a₂ b₁ b₂ : P α}
    (ht : c → PLe a₁ a₂) (he : ¬c → PLe b₁ b₂) :
    PLe (if c then a₁ else b₁) (if c then a₂ else b₂) := by
  split
  · exact ht ‹_›
  · exact he ‹_›

end PLe

/-- fuel monotonicity for all functions of the mutual block, at fuels `n₁`, `n₂` -/
structure AllLe (tbl : RuleTable) (n₁ n₂ : Nat) : Prop where
  statement : PLe (statement tbl n₁) (statement tbl n₂)
  loopBody : PLe (loopBody tbl n₁) (loopBody tbl n₂)
  block : PLe (block tbl n₁) (block tbl n₂)
  blockLoop : ∀ a, PLe (blockLoop tbl n₁ a) (blockLoop tbl n₂ a)
  printStatement : PLe (printStatement tbl n₁) (printStatement tbl n₂)
  printLoop : ∀ a, PLe (printLoop tbl n₁ a) (printLoop tbl n₂ a)
  expressionWithPrec : ∀ prec, PLe (expressionWithPrec tbl n₁ prec) (expressionWithPrec tbl n₂ prec)
  infixLoop : ∀ prec l, PLe (infixLoop tbl n₁ prec l) (infixLoop tbl n₂ prec l)
  prefixFn : ∀ pk, PLe (prefixFn tbl n₁ pk) (prefixFn tbl n₂ pk)
  exprList : ∀ endTag a, PLe (exprList tbl n₁ endTag a) (exprList tbl n₂ endTag a)
  objectLoop : ∀ a, PLe (objectLoop tbl n₁ a) (objectLoop tbl n₂ a)
  matchCases : ∀ a, PLe (matchCases tbl n₁ a) (matchCases tbl n₂ a)
  matchPats : ∀ a, PLe (matchPats tbl n₁ a) (matchPats tbl n₂ a)
  infixFn : ∀ ik l, PLe (infixFn tbl n₁ ik l) (infixFn tbl n₂ ik l)

section tactics
set_option hygiene false

macro "ple_leaf" : tactic => `(tactic| with_reducible first
  | exact PLe.oofL
  | exact ih.statement
  | exact ih.loopBody
  | exact ih.block
  | exact ih.printStatement
  | exact ih.expressionWithPrec _
  | exact ih.prefixFn _
  | exact ih.blockLoop _
  | exact ih.printLoop _
  | exact ih.infixLoop _ _
  | exact ih.exprList _ _
  | exact ih.objectLoop _
  | exact ih.matchCases _
  | exact ih.matchPats _
  | exact ih.infixFn _ _
  | exact PLe.refl _)

macro "ple_step" : tactic => `(tactic| first
  | ple_leaf
  | ((with_reducible refine PLe.bind ?_ (fun x => ?_)) <;> try dsimp only)
  | with_reducible refine PLe.ite_same (fun _ => ?_) (fun _ => ?_)
  | split)

end tactics

variable {tbl : RuleTable} {n₁ n₂ : Nat}

theorem printLoop_step (ih : AllLe tbl n₁ n₂) (a : List Expr) :
    PLe (printLoop tbl (n₁ + 1) a) (printLoop tbl (n₂ + 1) a) := by
  unfold printLoop
  repeat' ple_step

theorem printStatement_step (ih : AllLe tbl n₁ n₂) :
    PLe (printStatement tbl (n₁ + 1)) (printStatement tbl (n₂ + 1)) := by
  unfold printStatement
  repeat' ple_step

theorem loopBody_step (ih : AllLe tbl n₁ n₂) :
    PLe (loopBody tbl (n₁ + 1)) (loopBody tbl (n₂ + 1)) := by
  unfold loopBody
  repeat' ple_step

theorem block_step (ih : AllLe tbl n₁ n₂) :
    PLe (block tbl (n₁ + 1)) (block tbl (n₂ + 1)) := by
  unfold block
  repeat' ple_step

theorem blockLoop_step (ih : AllLe tbl n₁ n₂) (a : List Stmt) :
    PLe (blockLoop tbl (n₁ + 1) a) (blockLoop tbl (n₂ + 1) a) := by
  unfold blockLoop
  repeat' ple_step

theorem expressionWithPrec_step (ih : AllLe tbl n₁ n₂) (prec : Nat) :
    PLe (expressionWithPrec tbl (n₁ + 1) prec) (expressionWithPrec tbl (n₂ + 1) prec) := by
  unfold expressionWithPrec
  repeat' ple_step

theorem infixLoop_step (ih : AllLe tbl n₁ n₂) (prec : Nat) (l : Expr) :
    PLe (infixLoop tbl (n₁ + 1) prec l) (infixLoop tbl (n₂ + 1) prec l) := by
  unfold infixLoop
  repeat' ple_step

theorem exprList_step (ih : AllLe tbl n₁ n₂) (endTag : Tag) (a : List Expr) :
    PLe (exprList tbl (n₁ + 1) endTag a) (exprList tbl (n₂ + 1) endTag a) := by
  unfold exprList
  repeat' ple_step

theorem objectLoop_step (ih : AllLe tbl n₁ n₂) (a : List (Bytes × Expr)) :
    PLe (objectLoop tbl (n₁ + 1) a) (objectLoop tbl (n₂ + 1) a) := by
  unfold objectLoop
  repeat' ple_step

theorem matchCases_step (ih : AllLe tbl n₁ n₂) (a : List MatchCase) :
    PLe (matchCases tbl (n₁ + 1) a) (matchCases tbl (n₂ + 1) a) := by
  unfold matchCases
  repeat' ple_step

theorem matchPats_step (ih : AllLe tbl n₁ n₂) (a : List Expr) :
    PLe (matchPats tbl (n₁ + 1) a) (matchPats tbl (n₂ + 1) a) := by
  unfold matchPats
  repeat' ple_step

theorem prefixFn_step (ih : AllLe tbl n₁ n₂) (pk : PrefixKind) :
    PLe (prefixFn tbl (n₁ + 1) pk) (prefixFn tbl (n₂ + 1) pk) := by
  unfold prefixFn
  repeat' ple_step

theorem infixFn_step (ih : AllLe tbl n₁ n₂) (ik : InfixKind) (l : Expr) :
    PLe (infixFn tbl (n₁ + 1) ik l) (infixFn tbl (n₂ + 1) ik l) := by
  unfold infixFn
  repeat' ple_step

theorem statement_step (ih : AllLe tbl n₁ n₂) :
    PLe (statement tbl (n₁ + 1)) (statement tbl (n₂ + 1)) := by
  unfold statement
  repeat' ple_step

/-- fuel monotonicity of the whole mutual block, for any two amounts of fuel `n₁ ≤ n₂` -/
theorem allLe (tbl : RuleTable) : ∀ n₁ n₂, n₁ ≤ n₂ → AllLe tbl n₁ n₂ := by
  intro n₁
  induction n₁ with
  | zero =>
    intro n₂ _
    constructor
    all_goals intros
    · unfold statement; exact PLe.oofL
    · unfold loopBody; exact PLe.oofL
    · unfold block; exact PLe.oofL
    · unfold blockLoop; exact PLe.oofL
    · unfold printStatement; exact PLe.oofL
    · unfold printLoop; exact PLe.oofL
    · unfold expressionWithPrec; exact PLe.oofL
    · unfold infixLoop; exact PLe.oofL
    · unfold prefixFn; exact PLe.oofL
    · unfold exprList; exact PLe.oofL
    · unfold objectLoop; exact PLe.oofL
    · unfold matchCases; exact PLe.oofL
    · unfold matchPats; exact PLe.oofL
    · unfold infixFn; exact PLe.oofL
  | succ n₁ ih =>
    intro n₂ h
    cases n₂ with
    | zero => omega
    | succ n₂ =>
      have ih := ih n₂ (by omega)
      exact {
        statement := statement_step ih
        loopBody := loopBody_step ih
        block := block_step ih
        blockLoop := blockLoop_step ih
        printStatement := printStatement_step ih
        printLoop := printLoop_step ih
        expressionWithPrec := expressionWithPrec_step ih
        infixLoop := infixLoop_step ih
        prefixFn := prefixFn_step ih
        exprList := exprList_step ih
        objectLoop := objectLoop_step ih
        matchCases := matchCases_step ih
        matchPats := matchPats_step ih
        infixFn := infixFn_step ih }

/-! ### the top level -/

theorem parseRule_le (ih : AllLe tbl n₁ n₂) : PLe (parseRule tbl n₁) (parseRule tbl n₂) := by
  unfold parseRule
  repeat' ple_step

theorem funcArgs_le : ∀ n₁ n₂, n₁ ≤ n₂ → ∀ a : List Bytes, PLe (funcArgs n₁ a) (funcArgs n₂ a) := by
  intro n₁
  induction n₁ with
  | zero => intro n₂ _ a; unfold funcArgs; exact PLe.oofL
  | succ n₁ ih =>
    intro n₂ h a
    cases n₂ with
    | zero => omega
    | succ n₂ =>
      have ih := ih n₂ (by omega)
      unfold funcArgs
      repeat' ple_step
      all_goals exact ih _

theorem parseFunction_le (ih : AllLe tbl n₁ n₂) (h : n₁ ≤ n₂) :
    PLe (parseFunction tbl n₁) (parseFunction tbl n₂) := by
  unfold parseFunction
  repeat' ple_step
  all_goals exact funcArgs_le _ _ h _

theorem parseTop_le (tbl : RuleTable) : ∀ n₁ n₂, n₁ ≤ n₂ → ∀ (r : List Rule) (f : List FuncDef),
    PLe (parseTop tbl n₁ r f) (parseTop tbl n₂ r f) := by
  intro n₁
  induction n₁ with
  | zero => intros; unfold parseTop; exact PLe.oofL
  | succ n₁ ih =>
    intro n₂ h r f
    cases n₂ with
    | zero => omega
    | succ n₂ =>
      have ihT := ih n₂ (by omega)
      have ih := allLe tbl n₁ n₂ (by omega)
      unfold parseTop
      repeat' ple_step
      all_goals first
        | exact parseFunction_le ih (by omega)
        | exact parseRule_le ih
        | exact ihT _ _

theorem parseProgram_le (tbl : RuleTable) (n₁ n₂ : Nat) (h : n₁ ≤ n₂) :
    PLe (parseProgram tbl n₁) (parseProgram tbl n₂) := by
  unfold parseProgram
  exact PLe.bind (PLe.refl _) fun _ => parseTop_le tbl n₁ n₂ h _ _

theorem parseExpression_le (tbl : RuleTable) (n₁ n₂ : Nat) (h : n₁ ≤ n₂) :
    PLe (parseExpression tbl n₁) (parseExpression tbl n₂) := by
  have ih := allLe tbl n₁ n₂ h
  unfold parseExpression
  repeat' ple_step

/-- exact fuel monotonicity of `Parse()`: a run that is not out of fuel gives the same result
    (same AST, same positions, same final parser state) with any larger fuel -/
theorem parseProgram_run_mono (tbl : RuleTable) (n₁ n₂ : Nat) (h : n₁ ≤ n₂) (ps : PS) (s : LexState)
    (hne : (parseProgram tbl n₁ ps).run s ≠ .oof) :
    (parseProgram tbl n₁ ps).run s = (parseProgram tbl n₂ ps).run s :=
  (parseProgram_le tbl n₁ n₂ h ps).run s hne

theorem parseExpression_run_mono (tbl : RuleTable) (n₁ n₂ : Nat) (h : n₁ ≤ n₂) (ps : PS) (s : LexState)
    (hne : (parseExpression tbl n₁ ps).run s ≠ .oof) :
    (parseExpression tbl n₁ ps).run s = (parseExpression tbl n₂ ps).run s :=
  (parseExpression_le tbl n₁ n₂ h ps).run s hne

end ParserMono
end Jqawk
