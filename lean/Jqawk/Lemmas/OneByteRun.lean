/-
  C03 — "a value and at most one following byte suffice", run level.

  `processValue` is the body of the driver's decode loop for ONE decoded value (`processFile` is
  the loop; `processFile_succ` shows the factoring is exact).  `processK k` is the loop cut after
  exactly `k` values, each decoded with the reader still open (`.more`): it names the state the
  run has reached — in particular the output written — when the k-th value has been processed.
  The theorems say that this state is fixed by the bytes up to the end of the k-th value plus at
  most one byte, and that every input starting with these bytes passes through it.
-/
import Jqawk.Lemmas.StreamPrefix
import Jqawk.Lemmas.OneByteSuffices

namespace Jqawk.OneByte
open Jqawk Jqawk.Json

variable (prog : Program)

/-- what the decode loop does with one decoded top-level value `v` of the file called `name`:
    `.done s'` = all rules ran, the loop goes on to the next value in state `s'`;
    `.finished o s'` = the run is over (exit, runtime error, out of fuel, …) -/
def processValue (src : Bytes) (tbl : RuleTable) (sels : List Bytes) (name : Bytes) (v : JVal) (s : St) :
    StepRes :=
  let setFile : EM Unit := do
    let c ← newCell (.str name none)
    setGlobal b!"$file" c
  match setFile s with
  | .err e s' => .finished (errOutcome src e) s'
  | .oof => .finished .oof s
  | .ok () s1 =>
    let roots : Roots :=
      if sels.isEmpty then
        match (do let val ← newValueJson v; newCell val : EM CellId) s1 with
        | .ok c s2 => .cells [c] s2
        | .err e s2 => .stop (errOutcome src e) s2
        | .oof => .stop .oof s1
      else evalSelectors tbl v sels [] s1
    match roots with
    | .stop o s2 => .finished o s2
    | .exit s2 => .finished .ok s2
    | .cells cs s2 =>
      match processRoots prog cs s2 with
      | .ok .exit s3 => .finished .ok s3
      | .ok .continue_ s3 => .done s3
      | .err e s3 => .finished (errOutcome src e) s3
      | .oof => .finished .oof s2

/-- the decode loop is: decode one value, `processValue` it, go on with the unread bytes -/
theorem processFile_succ (src : Bytes) (tbl : RuleTable) (sels : List Bytes) (file : InputFile)
    (fuel : Nat) (data : Bytes) (s : St) :
    processFile prog src tbl sels file (fuel + 1) data s =
      match decodeOne numOk data file.tail with
      | .eof => .done s
      | .error | .needMore => .finished (.jsonErr file.name) s
      | .value v rest =>
        match processValue prog src tbl sels file.name v s with
        | .done s' => processFile prog src tbl sels file fuel rest s'
        | .finished o s' => .finished o s' := by
  rw [processFile]
  cases decodeOne numOk data file.tail with
  | eof => rfl
  | error => rfl
  | needMore => rfl
  | value v rest =>
    dsimp only
    unfold processValue
    dsimp only
    split
    · rename_i h; rw [h]
    · rename_i h; rw [h]
    · rename_i s1 h; rw [h]; dsimp only
      have fin : ∀ (r : Res Flow) (s2 : St),
          (match r with
            | .ok .exit s3 => StepRes.finished .ok s3
            | .ok .continue_ s3 => processFile prog src tbl sels file fuel rest s3
            | .err e s3 => .finished (errOutcome src e) s3
            | .oof => .finished .oof s2) =
          (match (match r with
            | .ok .exit s3 => StepRes.finished .ok s3
            | .ok .continue_ s3 => .done s3
            | .err e s3 => .finished (errOutcome src e) s3
            | .oof => .finished .oof s2) with
           | .done s' => processFile prog src tbl sels file fuel rest s'
           | .finished o s' => .finished o s') := by
        intro r s2
        cases r with
        | ok fl s3 => cases fl <;> rfl
        | err e s3 => rfl
        | oof => rfl
      cases hb : sels.isEmpty
      · simp only [Bool.false_eq_true, ↓reduceIte]
        cases evalSelectors tbl v sels [] s1 with
        | stop o s2 => rfl
        | exit s2 => rfl
        | cells cs s2 => exact fin _ _
      · simp only [↓reduceIte]
        cases (newValueJson v >>= fun val => newCell val : EM CellId) s1 with
        | ok c s2 => exact fin _ _
        | err e s2 => rfl
        | oof => rfl

/-- The decode loop cut after exactly `k` values, every one decoded while the reader may still
    deliver bytes (`.more`): the values, the state reached when the k-th value has been processed
    (its `out` is the output written so far) and the bytes not yet looked at.  `none`: fewer than
    `k` values are complete in `data`, or the run ended (exit, error, out of fuel) before that. -/
def processK (src : Bytes) (tbl : RuleTable) (sels : List Bytes) (name : Bytes) :
    Nat → Bytes → St → Option (List JVal × St × Bytes)
  | 0, data, s => some ([], s, data)
  | k + 1, data, s =>
    match decodeOne numOk data .more with
    | .value v rest =>
      match processValue prog src tbl sels name v s with
      | .done s' =>
        match processK src tbl sels name k rest s' with
        | some (vs, sk, r) => some (v :: vs, sk, r)
        | none => none
      | .finished _ _ => none
    | _ => none

/-- inversion of one round of `processK` -/
theorem processK_succ_inv {src : Bytes} {tbl : RuleTable} {sels : List Bytes} {name : Bytes} {k : Nat}
    {data : Bytes} {s sk : St} {vals : List JVal} {rest : Bytes}
    (h : processK prog src tbl sels name (k + 1) data s = some (vals, sk, rest)) :
    ∃ v rest1 s' vs, decodeOne numOk data .more = .value v rest1 ∧
      processValue prog src tbl sels name v s = .done s' ∧
      processK prog src tbl sels name k rest1 s' = some (vs, sk, rest) ∧ vals = v :: vs := by
  unfold processK at h
  split at h
  · rename_i v rest1 hd
    split at h
    · rename_i s' hv
      split at h
      · rename_i vs sk' r hk
        simp only [Option.some.injEq, Prod.mk.injEq] at h
        obtain ⟨rfl, rfl, rfl⟩ := h
        exact ⟨v, rest1, s', vs, hd, hv, hk, rfl⟩
      · cases h
    · cases h
  · cases h

theorem processK_succ_nil {src : Bytes} {tbl : RuleTable} {sels : List Bytes} {name : Bytes} {k : Nat} {s : St} :
    processK prog src tbl sels name (k + 1) [] s = none := by
  unfold processK
  have : decodeOne numOk [] .more = .needMore := rfl
  rw [this]

/-- **every input that starts with the bytes of the first `k` values passes through the same
    state**: the run on `p ++ more` (however it ends) is the run that continues from `sk` on the
    unread bytes -/
theorem processK_run {src : Bytes} {tbl : RuleTable} {sels : List Bytes} (file : InputFile) (more : Bytes) :
    ∀ (k : Nat) (p : Bytes) (s sk : St) (vals : List JVal) (r : Bytes) (fuel : Nat),
      processK prog src tbl sels file.name k p s = some (vals, sk, r) → k ≤ fuel →
      processFile prog src tbl sels file fuel (p ++ more) s =
        processFile prog src tbl sels file (fuel - k) (r ++ more) sk := by
  intro k
  induction k with
  | zero =>
    intro p s sk vals r fuel h _
    simp only [processK, Option.some.injEq, Prod.mk.injEq] at h
    obtain ⟨_, rfl, rfl⟩ := h
    rfl
  | succ k ih =>
    intro p s sk vals r fuel h hf
    obtain ⟨v, rest1, s', vs, hd, hv, hk, _⟩ := processK_succ_inv prog h
    obtain ⟨fuel', rfl⟩ : ∃ n, fuel = n + 1 := ⟨fuel - 1, by omega⟩
    rw [processFile_succ, decodeOne_prefix_value more file.tail hd]
    simp only [hv]
    rw [ih rest1 s' sk vs r fuel' hk (by omega)]
    congr 1
    omega

/-- every value takes at least one byte -/
theorem processK_length {src : Bytes} {tbl : RuleTable} {sels : List Bytes} {name : Bytes} :
    ∀ (k : Nat) (data : Bytes) (s sk : St) (vals : List JVal) (rest : Bytes),
      processK prog src tbl sels name k data s = some (vals, sk, rest) →
      k + rest.length ≤ data.length ∧ vals.length = k := by
  intro k
  induction k with
  | zero =>
    intro data s sk vals rest h
    simp only [processK, Option.some.injEq, Prod.mk.injEq] at h
    obtain ⟨rfl, _, rfl⟩ := h
    simp
  | succ k ih =>
    intro data s sk vals rest h
    obtain ⟨v, rest1, s', vs, hd, _, hk, rfl⟩ := processK_succ_inv prog h
    obtain ⟨pv, rfl, hne, _⟩ := decode_split hd
    have := ih rest1 s' sk vs rest hk
    have : 0 < pv.length := List.length_pos_iff.mpr hne
    simp only [List.length_append, List.length_cons]
    omega

/-- the last of the values is an array or an object -/
def lastComposite (vals : List JVal) : Prop := ∃ j, vals.getLast? = some j ∧ composite j = true

/-- **The first `k` values and at most one following byte suffice.**  If the first `k` values of
    `data` are complete and processed, reaching state `sk` with `rest` unread, then
    `data = p ++ rest` (`p` = the bytes up to the end of the k-th value) and `p` followed by ANY
    non-empty initial part `r'` of `rest` — a single byte is enough — already gets the same `k`
    values processed to the same state `sk`; `r'` may even be empty when nothing follows at all
    (`rest = []`), when `k = 0`, or when the k-th value is an array or object. -/
theorem processK_extent {src : Bytes} {tbl : RuleTable} {sels : List Bytes} {name : Bytes} :
    ∀ (k : Nat) (data : Bytes) (s sk : St) (vals : List JVal) (rest : Bytes),
      processK prog src tbl sels name k data s = some (vals, sk, rest) →
      ∃ p, data = p ++ rest ∧ ∀ r', r' <+: rest →
        (r' ≠ [] ∨ rest = [] ∨ vals = [] ∨ lastComposite vals) →
        processK prog src tbl sels name k (p ++ r') s = some (vals, sk, r') := by
  intro k
  induction k with
  | zero =>
    intro data s sk vals rest h
    simp only [processK, Option.some.injEq, Prod.mk.injEq] at h
    obtain ⟨rfl, rfl, rfl⟩ := h
    exact ⟨[], rfl, fun r' _ _ => by simp [processK]⟩
  | succ k ih =>
    intro data s sk vals rest h
    obtain ⟨v, rest1, s', vs, hd, hv, hk, rfl⟩ := processK_succ_inv prog h
    obtain ⟨pv, rfl, _, _⟩ := decode_split hd
    obtain ⟨p', rfl, hp'⟩ := ih rest1 s' sk vs rest hk
    refine ⟨pv ++ p', by simp, fun r' hpre hc => ?_⟩
    have hpre' : p' ++ r' <+: p' ++ rest := (List.prefix_append_right_inj p').mpr hpre
    cases k with
    | zero =>
      -- the k-th value is `v` itself
      simp only [processK, Option.some.injEq, Prod.mk.injEq] at hk
      obtain ⟨rfl, rfl, hrest⟩ := hk
      have hp0 : p' = [] := by
        have := congrArg List.length hrest
        simp only [List.length_append] at this
        exact List.eq_nil_of_length_eq_zero (by omega)
      subst hp0
      simp only [List.nil_append, List.append_nil] at hd hpre' ⊢
      have hr : r' ≠ [] ∨ composite v = true := by
        rcases hc with hc | hc | hc | ⟨j, hj, hcj⟩
        · exact .inl hc
        · subst hc; exact .inr (composite_of_rest_nil (by simpa using hd))
        · cases hc
        · simp only [List.getLast?_singleton, Option.some.injEq] at hj; subst hj; exact .inr hcj
      have hd' := decode_shorter_rest hd hpre hr
      unfold processK
      rw [hd']
      simp only [hv, processK]
    | succ k =>
      have hvs : vs ≠ [] := by
        obtain ⟨_, _, _, _, _, _, _, rfl⟩ := processK_succ_inv prog hk
        simp
      have hc' : r' ≠ [] ∨ rest = [] ∨ vs = [] ∨ lastComposite vs := by
        rcases hc with hc | hc | hc | ⟨j, hj, hcj⟩
        · exact .inl hc
        · exact .inr (.inl hc)
        · cases hc
        · refine .inr (.inr (.inr ⟨j, ?_, hcj⟩))
          rwa [List.getLast?_cons_of_ne_nil hvs] at hj
      have hk' := hp' r' hpre hc'
      have hne : p' ++ r' ≠ [] := by
        intro h0
        rw [h0, processK_succ_nil] at hk'
        cases hk'
      have hd' := decode_shorter_rest hd hpre' (.inl hne)
      unfold processK
      rw [List.append_assoc, hd']
      simp only [hv, hk']

/-- `OutExt` in terms of the bytes written: the earlier output is an initial part of the later one -/
theorem outExt_output_prefix {s s' : St} (h : OutExt s s') : s.output <+: s'.output := by
  obtain ⟨c, hc⟩ := h
  refine ⟨c.reverse.flatten, ?_⟩
  unfold St.output
  rw [hc, List.reverse_append, List.flatten_append]

/-- more bytes at the end change nothing for the first `k` values -/
theorem processK_mono {src : Bytes} {tbl : RuleTable} {sels : List Bytes} {name : Bytes} (m : Bytes) :
    ∀ (k : Nat) (p : Bytes) (s sk : St) (vals : List JVal) (r : Bytes),
      processK prog src tbl sels name k p s = some (vals, sk, r) →
      processK prog src tbl sels name k (p ++ m) s = some (vals, sk, r ++ m) := by
  intro k
  induction k with
  | zero =>
    intro p s sk vals r h
    simp only [processK, Option.some.injEq, Prod.mk.injEq] at h ⊢
    obtain ⟨rfl, rfl, rfl⟩ := h
    exact ⟨rfl, rfl, rfl⟩
  | succ k ih =>
    intro p s sk vals r h
    obtain ⟨v, rest1, s', vs, hd, hv, hk, rfl⟩ := processK_succ_inv prog h
    unfold processK
    rw [decodeOne_prefix_value m .more hd]
    simp only [hv, ih rest1 s' sk vs r hk]

/-- the first `k ≥ 1` values use up ALL the bytes only if the last of them is an array or object -/
theorem processK_rest_nil {src : Bytes} {tbl : RuleTable} {sels : List Bytes} {name : Bytes} :
    ∀ (k : Nat) (p : Bytes) (s sk : St) (vals : List JVal),
      processK prog src tbl sels name (k + 1) p s = some (vals, sk, []) → lastComposite vals := by
  intro k
  induction k with
  | zero =>
    intro p s sk vals h
    obtain ⟨v, rest1, s', vs, hd, _, hk, rfl⟩ := processK_succ_inv prog h
    simp only [processK, Option.some.injEq, Prod.mk.injEq] at hk
    obtain ⟨rfl, _, rfl⟩ := hk
    exact ⟨v, rfl, composite_of_rest_nil hd⟩
  | succ k ih =>
    intro p s sk vals h
    obtain ⟨v, rest1, s', vs, _, _, hk, rfl⟩ := processK_succ_inv prog h
    obtain ⟨j, hj, hc⟩ := ih rest1 s' sk vs hk
    have hvs : vs ≠ [] := by rintro rfl; simp at hj
    exact ⟨j, by rw [List.getLast?_cons_of_ne_nil hvs]; exact hj, hc⟩

/-! ### from one file to the whole run (later files, END rules) -/

theorem runEnd_out (src : Bytes) (s2 : St) (h : (runEnd prog src s2).outcome ≠ .oof) :
    s2.output <+: (runEnd prog src s2).out := by
  unfold runEnd at h ⊢
  have he := SafeD.evalSpecialRules prog (newCell (.nil none)) (SafeD.of_safe (Safe.newCell _))
    (rulesOf prog .end_) s2
  cases her : evalSpecialRules prog (newCell (.nil none)) (rulesOf prog .end_) s2 with
  | err e s3 =>
    rw [her] at he
    exact outExt_output_prefix (faultsOK_errOutcome (α := Flow) src he).1
  | oof => rw [her] at h; exact absurd rfl h
  | ok fl s3 => rw [her] at he; exact outExt_output_prefix he.1

/-- if the processing of the first file passes through a state `sk`, the output of the whole
    run (later files, END rules) begins with the output written in `sk` — unless the run is out of fuel -/
theorem runFiles_out_of_first {src : Bytes} {tbl : RuleTable} {sels : List Bytes} (file : InputFile)
    (others : List InputFile) (s1 sk : St)
    (hext : OutExt sk (processFile prog src tbl sels file (file.data.length + 2) file.data s1).state)
    (h : (runFiles prog src tbl sels (file :: others) s1).outcome ≠ .oof) :
    sk.output <+: (runFiles prog src tbl sels (file :: others) s1).out := by
  unfold runFiles at h ⊢
  unfold processFiles at h ⊢
  cases hpf : processFile prog src tbl sels file (file.data.length + 2) file.data s1 with
  | finished o s' =>
    rw [hpf] at hext
    exact outExt_output_prefix hext
  | done s' =>
    rw [hpf] at hext h
    dsimp only at h ⊢
    have hf := processFiles_good prog src tbl sels others s'
    cases hpfs : processFiles prog src tbl sels others s' with
    | finished o s2 =>
      rw [hpfs] at hf
      exact outExt_output_prefix (hext.trans hf.1)
    | done s2 =>
      rw [hpfs] at hf h
      exact (outExt_output_prefix (hext.trans hf.1)).trans (runEnd_out prog src s2 h)

end Jqawk.OneByte
