/-
  C13, `;` for a newline: three runs of the parser are compared —
    L: the token `t₀` carries a newline flag,
    Z: the same without the flag,
    R: a `;` token (unflagged) in front of `t₀`.
  Until `t₀` is delivered the runs are identical (`BTree`: a predicate on the common program
  tree).  When `t₀` (resp. `;`) has become the current token, the three programs are related by
  `T3`: they agree on L and Z for good (as trees: the flag was never read), or L has failed, or
  all three have returned the same value without any request, or R has just consumed the `;`
  in `atStatementEnd` where L used the flag — after which L and R are related by `A2`: equal as
  trees, or both returned, states equal up to `prev`.
  Everything is phrased through the head of the program trees and tree equality; no lock-step
  relation is needed because after the first request the trees coincide.
-/
import Jqawk.Lemmas.PM
import Jqawk.Lemmas.NewlineParser

namespace Jqawk
namespace Semi

variable {α β : Type}

/-- the program has failed (or is out of fuel) without any request -/
def isDead : PM α → Prop
  | .fail _ => True
  | .oof => True
  | _ => False

theorem isDead_bind {m : PM α} (h : isDead m) (f : α → PM β) : isDead (m.bind f) := by
  cases m <;> first | exact h | exact h.elim

section
variable (t₀ semi : Token)

/-- what is assumed about the token `t₀` behind the newline and about the `;` token -/
structure Hyp : Prop where
  semi : semi.tag = .semiColon
  ne_semi : t₀.tag ≠ .semiColon
  ne_eof : t₀.tag ≠ .eof
  ne_rcurly : t₀.tag ≠ .rcurly
  ne_rparen : t₀.tag ≠ .rparen

/-- `A2 Q l r`: L and R after R has consumed the `;`: the same tree, or L failed, or both have
    returned the same value, in states related by `Q` -/
def A2 (Q : α → PS → PS → Prop) (l r : PM (α × PS)) : Prop :=
  l = r ∨ isDead l ∨ ∃ a s s', l = .pure (a, s) ∧ r = .pure (a, s') ∧ Q a s s'

/-- `T3 Q l z r`: L, Z and R while `t₀` / the `;` is the current token and the flag is unread:
    L and Z are the same tree (the flag is never read), or L failed, or R has just consumed
    the `;` by a request, or all three have returned the same value without any request -/
def T3 (Q : α → PS → PS → Prop) (l z r : PM (α × PS)) : Prop :=
  l = z ∨ isDead l ∨
  (∃ k', r = .next k' ∧ ∀ b, A2 Q l (k' t₀ b)) ∨
  (∃ a s, l = .pure (a, s) ∧ z = .pure (a, { s with didEnd := false }) ∧
    r = .pure (a, { s with cur := semi, didEnd := false }) ∧ s.didEnd = true ∧ s.cur = t₀)

/-- the standard relation of L and R states after the `;`: equal up to `prev`, current token `t₀` -/
def Eq0 (s s' : PS) : Prop := s.cur = t₀ ∧ s' = { s with prev := s'.prev }

/-- the standard postcondition -/
def QE : α → PS → PS → Prop := fun _ => Eq0 t₀

/-- a parser action entered after the `;` was consumed, in states related by `pre` -/
def AP (pre : PS → PS → Prop) (Q : α → PS → PS → Prop) (f : P α) : Prop :=
  ∀ s s', pre s s' → A2 Q (f s) (f s')

/-- a parser action entered while the flag of `t₀` is unread -/
def TP (Q : α → PS → PS → Prop) (f : P α) : Prop := ∀ s, s.didEnd = true → s.cur = t₀ →
  T3 t₀ semi Q (f s) (f { s with didEnd := false }) (f { s with cur := semi, didEnd := false })

/-- the action does not look at `prev` and `didEnd` before its first request, when the current
    token is `t₀`: its whole tree is independent of them -/
def Er (f : P α) : Prop := ∀ s, s.cur = t₀ → ∀ p d, f { s with prev := p, didEnd := d } = f s

/-- before `t₀` is delivered: every request of the tree may be the one answered by `t₀` (L, Z)
    resp. `;` (R); the continuations are then related by `T3` -/
def BTree (Q : α → PS → PS → Prop) : PM (α × PS) → Prop
  | .pure _ => True
  | .fail _ => True
  | .oof => True
  | .next k => (∀ t nl, BTree Q (k t nl)) ∧ T3 t₀ semi Q (k t₀ true) (k t₀ false) (k semi false)
  | .regex k => ∀ t, BTree Q (k t)

def BP (Q : α → PS → PS → Prop) (f : P α) : Prop := ∀ s, BTree t₀ semi Q (f s)

/-- the three specifications together; `pre` relates the states in which the action is entered
    after the `;` was consumed -/
structure X' (pre : PS → PS → Prop) (Q : α → PS → PS → Prop) (f : P α) : Prop where
  b : BP t₀ semi Q f
  t : TP t₀ semi Q f
  a : AP pre Q f

/-- with the standard pre- and postcondition -/
abbrev X (f : P α) : Prop := X' t₀ semi (Eq0 t₀) (QE t₀) f

variable {t₀ semi}

theorem A2.bind {Q₁ : α → PS → PS → Prop} {Q : β → PS → PS → Prop} {l r : PM (α × PS)}
    {f : α → P β} (h : A2 Q₁ l r) (hf : ∀ a, AP (Q₁ a) Q (f a)) :
    A2 Q (l.bind fun x => f x.1 x.2) (r.bind fun x => f x.1 x.2) := by
  rcases h with rfl | h | ⟨a, s, s', rfl, rfl, hq⟩
  · exact .inl rfl
  · exact .inr (.inl (isDead_bind h _))
  · exact hf a s s' hq

theorem T3.bind {Q₁ : α → PS → PS → Prop} {Q : β → PS → PS → Prop} {l z r : PM (α × PS)}
    {f : α → P β} (h : T3 t₀ semi Q₁ l z r)
    (hT : ∀ a, TP t₀ semi Q (f a)) (hA : ∀ a, AP (Q₁ a) Q (f a)) :
    T3 t₀ semi Q (l.bind fun x => f x.1 x.2) (z.bind fun x => f x.1 x.2)
      (r.bind fun x => f x.1 x.2) := by
  rcases h with rfl | h | ⟨k', rfl, hk⟩ | ⟨a, s, rfl, rfl, rfl, hd, hc⟩
  · exact .inl rfl
  · exact .inr (.inl (isDead_bind h _))
  · exact .inr (.inr (.inl ⟨_, rfl, fun b => (hk b).bind hA⟩))
  · exact hT a s hd hc

theorem BTree.bind {Q₁ : α → PS → PS → Prop} {Q : β → PS → PS → Prop} {m : PM (α × PS)}
    {f : α → P β} (h : BTree t₀ semi Q₁ m)
    (hB : ∀ a, BP t₀ semi Q (f a)) (hT : ∀ a, TP t₀ semi Q (f a)) (hA : ∀ a, AP (Q₁ a) Q (f a)) :
    BTree t₀ semi Q (m.bind fun x => f x.1 x.2) := by
  induction m with
  | pure x => exact hB x.1 x.2
  | fail e => trivial
  | oof => trivial
  | next k ih => exact ⟨fun t nl => ih t nl (h.1 t nl), h.2.bind hT hA⟩
  | regex k ih => exact fun t => ih t (h t)

theorem Er.tp {Q : α → PS → PS → Prop} {f : P α} (h : Er t₀ f) : TP t₀ semi Q f := by
  intro s _ hc
  refine .inl ?_
  have := h s hc s.prev false
  exact this.symm

/-- erasing actions from states that differ in `prev` and `didEnd` only -/
theorem Er.ap {pre : PS → PS → Prop} {Q : α → PS → PS → Prop} {f : P α} (h : Er t₀ f)
    (hpre : ∀ s s', pre s s' → s.cur = t₀ ∧ s' = { s with prev := s'.prev, didEnd := s'.didEnd }) :
    AP pre Q f := by
  intro s s' hp
  obtain ⟨hc, he⟩ := hpre s s' hp
  refine .inl ?_
  rw [he]
  exact (h s hc _ _).symm

theorem eq0_shape (s s' : PS) (h : Eq0 t₀ s s') :
    s.cur = t₀ ∧ s' = { s with prev := s'.prev, didEnd := s'.didEnd } := by
  refine ⟨h.1, ?_⟩
  have := h.2
  rw [this]

theorem BP.bind {Q₁ : α → PS → PS → Prop} {Q : β → PS → PS → Prop} {m : P α} {f : α → P β}
    (hm : BP t₀ semi Q₁ m) (hf : ∀ a, X' t₀ semi (Q₁ a) Q (f a)) : BP t₀ semi Q (m >>= f) :=
  fun s => (hm s).bind (fun a => (hf a).b) (fun a => (hf a).t) (fun a => (hf a).a)

theorem BP.bind_curTag {Q : α → PS → PS → Prop} {f : Tag → P α} (h : ∀ t, BP t₀ semi Q (f t)) :
    BP t₀ semi Q (Parser.curTag >>= f) := fun s => h _ s

namespace X'
variable {pre : PS → PS → Prop} {Q₁ : α → PS → PS → Prop} {Q : β → PS → PS → Prop}

theorem bind {m : P α} {f : α → P β} (hm : X' t₀ semi pre Q₁ m)
    (hf : ∀ a, X' t₀ semi (Q₁ a) Q (f a)) : X' t₀ semi pre Q (m >>= f) where
  b := fun s => (hm.b s).bind (fun a => (hf a).b) (fun a => (hf a).t) (fun a => (hf a).a)
  t := fun s hd hc => (hm.t s hd hc).bind (fun a => (hf a).t) (fun a => (hf a).a)
  a := fun s s' hp => (hm.a s s' hp).bind (fun a => (hf a).a)

theorem of_er {Q : α → PS → PS → Prop} {f : P α} (hb : BP t₀ semi Q f) (h : Er t₀ f)
    (hpre : ∀ s s', pre s s' → s.cur = t₀ ∧ s' = { s with prev := s'.prev, didEnd := s'.didEnd }) :
    X' t₀ semi pre Q f := ⟨hb, h.tp, h.ap hpre⟩

end X'

namespace X

/-- sequencing after an action with the standard postcondition -/
theorem bind {Q : β → PS → PS → Prop} {m : P α} {f : α → P β} (hm : X t₀ semi m)
    (hf : ∀ a, X' t₀ semi (Eq0 t₀) Q (f a)) : X' t₀ semi (Eq0 t₀) Q (m >>= f) :=
  X'.bind hm hf

theorem pure (a : α) : X t₀ semi (Pure.pure a : P α) where
  b := fun _ => trivial
  t := fun s hd hc => .inr (.inr (.inr ⟨a, s, rfl, rfl, rfl, hd, hc⟩))
  a := fun s s' hp => .inr (.inr ⟨a, s, s', rfl, rfl, hp⟩)

theorem fail {pre : PS → PS → Prop} {Q : α → PS → PS → Prop} {pos : Nat} {msg : String} :
    X' t₀ semi pre Q (Parser.fail pos msg : P α) where
  b := fun _ => trivial
  t := fun _ _ _ => .inr (.inl trivial)
  a := fun _ _ _ => .inr (.inl trivial)

theorem oof {pre : PS → PS → Prop} {Q : α → PS → PS → Prop} : X' t₀ semi pre Q (Parser.oof : P α) where
  b := fun _ => trivial
  t := fun _ _ _ => .inr (.inl trivial)
  a := fun _ _ _ => .inr (.inl trivial)

end X

/-! ### erasure -/

namespace Er

theorem advance : Er t₀ Parser.advance := fun _ _ _ _ => rfl

theorem consume (tag : Tag) : Er t₀ (Parser.consume tag) := by
  intro s _ p d
  unfold Parser.consume
  show (if _ then _ else _ : P Unit) _ = (if _ then _ else _ : P Unit) _
  split <;> rfl

theorem consumeOf (tags : List Tag) : Er t₀ (Parser.consumeOf tags) := by
  intro s _ p d
  unfold Parser.consumeOf
  show (if _ then _ else _ : P Unit) _ = (if _ then _ else _ : P Unit) _
  split <;> rfl

theorem regexPrefix : Er t₀ Parser.regexPrefix := fun _ _ _ _ => rfl

theorem fail {pos : Nat} {msg : String} : Er t₀ (Parser.fail pos msg : P α) := fun _ _ _ _ => rfl

theorem oof : Er t₀ (Parser.oof : P α) := fun _ _ _ _ => rfl

/-- an erasing action followed by anything -/
theorem bind {m : P α} (hm : Er t₀ m) (f : α → P β) : Er t₀ (m >>= f) := by
  intro s hc p d
  show (m _).bind _ = (m s).bind _
  rw [hm s hc p d]

/-- `let x ← get; f x` -/
theorem bind_get {f : PS → P α} (hf : ∀ x p d, f { x with prev := p, didEnd := d } = f x)
    (h : ∀ x, x.cur = t₀ → Er t₀ (f x)) : Er t₀ (get >>= f) := by
  intro s hc p d
  show f _ _ = f s s
  rw [hf, h s hc s hc]

theorem bind_curTag {f : Tag → P α} (h : Er t₀ (f t₀.tag)) : Er t₀ (Parser.curTag >>= f) := by
  intro s hc p d
  subst hc
  exact h s rfl p d

theorem bind_atEnd {f : Bool → P α} (h : Er t₀ (f (t₀.tag == .eof))) :
    Er t₀ (Parser.atEnd >>= f) := by
  intro s hc p d
  subst hc
  exact h s rfl p d

theorem bind_setDidEnd (b : Bool) {f : Unit → P α} (h : Er t₀ (f ())) :
    Er t₀ (Parser.setDidEnd b >>= f) := by
  intro s hc p d
  show f () _ = f () { s with didEnd := b }
  have h1 := h { s with didEnd := b } hc p b
  exact h1

/-- the first action erases, or returns a fixed value without touching the state -/
theorem bind_or {m : P β} {f : β → P α}
    (h : Er t₀ m ∨ ∃ a, (∀ s, s.cur = t₀ → m s = .pure (a, s)) ∧ Er t₀ (f a)) :
    Er t₀ (m >>= f) := by
  rcases h with h | ⟨a, hm, hf⟩
  · exact bind h f
  · intro s hc p d
    have e1 := hm s hc
    have e2 := hm { s with prev := p, didEnd := d } hc
    show PM.bind (m { s with prev := p, didEnd := d }) _ = PM.bind (m s) _
    rw [e1, e2]
    exact hf s hc p d

theorem bind_pure (a : β) {f : β → P α} (h : Er t₀ (f a)) : Er t₀ (Pure.pure a >>= f) := by
  intro s hc p d
  exact h s hc p d

/-- a state update that commutes with changing `prev` and `didEnd` and keeps `cur` -/
theorem bind_modify {g : PS → PS} {f : Unit → P α} (hcur : ∀ x, (g x).cur = x.cur)
    (hg : ∀ x p d, g { x with prev := p, didEnd := d } = { g x with prev := p, didEnd := d })
    (h : Er t₀ (f ())) : Er t₀ (modify g >>= f) := by
  intro s hc p d
  show f () (g _) = f () (g s)
  rw [hg]
  exact h (g s) (by rw [hcur]; exact hc) p d

end Er

/-! ### the primitives -/

/-- the three states after `advance` has delivered `t₀` / `t₀` unflagged / the `;` -/
theorem t3_after_advance (s : PS) :
    T3 t₀ semi (QE t₀)
      (.pure ((), { s with prev := s.cur, cur := t₀, didEnd := true }))
      (.pure ((), { s with prev := s.cur, cur := t₀, didEnd := false }))
      (.pure ((), { s with prev := s.cur, cur := semi, didEnd := false })) :=
  .inr (.inr (.inr ⟨(), _, rfl, rfl, rfl, rfl, rfl⟩))

theorem btree_advance (s : PS) : BTree t₀ semi (QE t₀) (Parser.advance s) :=
  ⟨fun _ _ => trivial, t3_after_advance s⟩

/-- no states: the precondition of continuations that are never entered after the `;` was
    consumed (they follow a request) -/
def F : PS → PS → Prop := fun _ _ => False

/-- preconditions under which the A-part is about states equal up to `prev` -/
def PreOK (t₀ : Token) (pre : PS → PS → Prop) : Prop := ∀ s s', pre s s' → Eq0 t₀ s s'

theorem preOK_eq0 : PreOK t₀ (Eq0 t₀) := fun _ _ h => h
theorem preOK_F : PreOK t₀ F := fun _ _ h => h.elim

theorem PreOK.shape {pre : PS → PS → Prop} (hp : PreOK t₀ pre) (s s' : PS) (h : pre s s') :
    s.cur = t₀ ∧ s' = { s with prev := s'.prev, didEnd := s'.didEnd } := eq0_shape s s' (hp s s' h)

theorem X'.toF {pre : PS → PS → Prop} {Q : α → PS → PS → Prop} {f : P α}
    (h : X' t₀ semi pre Q f) : X' t₀ semi F Q f := ⟨h.b, h.t, fun _ _ hp => hp.elim⟩

namespace X
variable {pre : PS → PS → Prop}

theorem advance : X t₀ semi Parser.advance :=
  X'.of_er (fun s => btree_advance s) Er.advance eq0_shape

theorem consume (tag : Tag) : X t₀ semi (Parser.consume tag) := by
  refine X'.of_er (fun s => ?_) (Er.consume tag) eq0_shape
  unfold Parser.consume
  show BTree t₀ semi _ ((if _ then _ else _ : P Unit) s)
  split
  · exact btree_advance s
  · trivial

theorem consumeOf (tags : List Tag) : X t₀ semi (Parser.consumeOf tags) := by
  refine X'.of_er (fun s => ?_) (Er.consumeOf tags) eq0_shape
  unfold Parser.consumeOf
  show BTree t₀ semi _ ((if _ then _ else _ : P Unit) s)
  split
  · exact btree_advance s
  · trivial

theorem regexPrefix : X t₀ semi Parser.regexPrefix := by
  refine X'.of_er (fun s => ?_) Er.regexPrefix eq0_shape
  intro tok
  exact ⟨fun _ _ => trivial, .inr (.inr (.inr ⟨_, _, rfl, rfl, rfl, rfl, rfl⟩))⟩

theorem btree_advance_bind {Q : β → PS → PS → Prop} {f : Unit → P β} (hf : X' t₀ semi F Q (f ()))
    (s : PS) : BTree t₀ semi Q ((Parser.advance s).bind fun x => f x.1 x.2) :=
  ⟨fun _ _ => hf.b _, hf.t { s with prev := s.cur, cur := t₀, didEnd := true } rfl rfl⟩

/-- after `advance`/`consume` the continuation is never entered after the `;` was consumed: it
    needs no A-part -/
theorem advance_bind {Q : β → PS → PS → Prop} {f : Unit → P β} (hp : PreOK t₀ pre)
    (hf : X' t₀ semi F Q (f ())) : X' t₀ semi pre Q (Parser.advance >>= f) where
  b := fun s => btree_advance_bind hf s
  t := (Er.advance.bind f).tp
  a := (Er.advance.bind f).ap hp.shape

theorem consume_bind {Q : β → PS → PS → Prop} {f : Unit → P β} (hp : PreOK t₀ pre) (tag : Tag)
    (hf : X' t₀ semi F Q (f ())) : X' t₀ semi pre Q (Parser.consume tag >>= f) where
  b := fun s => by
    unfold Parser.consume
    show BTree t₀ semi Q (((if _ then _ else _ : P Unit) s).bind _)
    split
    · exact btree_advance_bind hf s
    · trivial
  t := ((Er.consume tag).bind f).tp
  a := ((Er.consume tag).bind f).ap hp.shape

theorem consumeOf_bind {Q : β → PS → PS → Prop} {f : Unit → P β} (hp : PreOK t₀ pre)
    (tags : List Tag) (hf : X' t₀ semi F Q (f ())) :
    X' t₀ semi pre Q (Parser.consumeOf tags >>= f) where
  b := fun s => by
    unfold Parser.consumeOf
    show BTree t₀ semi Q (((if _ then _ else _ : P Unit) s).bind _)
    split
    · exact btree_advance_bind hf s
    · trivial
  t := ((Er.consumeOf tags).bind f).tp
  a := ((Er.consumeOf tags).bind f).ap hp.shape

/-- sequencing after an action with the standard postcondition -/
theorem bind' {Q : β → PS → PS → Prop} {m : P α} {f : α → P β} (hm : X' t₀ semi pre (QE t₀) m)
    (hf : ∀ a, X' t₀ semi (Eq0 t₀) Q (f a)) : X' t₀ semi pre Q (m >>= f) :=
  X'.bind hm hf

theorem setDidEnd (b : Bool) (hp : PreOK t₀ pre) : X' t₀ semi pre (QE t₀) (Parser.setDidEnd b) where
  b := fun _ => trivial
  t := fun _ _ _ => .inl rfl
  a := fun s s' hp' => .inr (.inr ⟨(), _, _, rfl, rfl, (hp s s' hp').1, by
    show ({ s' with didEnd := b } : PS) = _
    rw [(hp s s' hp').2]⟩)

theorem setInLoop (v : Bool) (hp : PreOK t₀ pre) :
    X' t₀ semi pre (QE t₀) (modify fun s => { s with inLoop := v } : P Unit) where
  b := fun _ => trivial
  t := fun s hd hc => .inr (.inr (.inr ⟨(), { s with inLoop := v }, rfl, rfl, rfl, hd, hc⟩))
  a := fun s s' hp' => .inr (.inr ⟨(), _, _, rfl, rfl, (hp s s' hp').1, by
    show ({ s' with inLoop := v } : PS) = _
    rw [(hp s s' hp').2]⟩)

theorem setInFn (v : Bool) (hp : PreOK t₀ pre) :
    X' t₀ semi pre (QE t₀) (modify fun s => { s with inFn := v } : P Unit) where
  b := fun _ => trivial
  t := fun s hd hc => .inr (.inr (.inr ⟨(), { s with inFn := v }, rfl, rfl, rfl, hd, hc⟩))
  a := fun s s' hp' => .inr (.inr ⟨(), _, _, rfl, rfl, (hp s s' hp').1, by
    show ({ s' with inFn := v } : PS) = _
    rw [(hp s s' hp').2]⟩)

theorem pure' (a : α) (hp : PreOK t₀ pre) : X' t₀ semi pre (QE t₀) (Pure.pure a : P α) where
  b := fun _ => trivial
  t := fun s hd hc => .inr (.inr (.inr ⟨a, s, rfl, rfl, rfl, hd, hc⟩))
  a := fun s s' hp' => .inr (.inr ⟨a, s, s', rfl, rfl, hp s s' hp'⟩)

/-- returning a value, with any postcondition that holds for the related entry states -/
theorem pureQ {Q : α → PS → PS → Prop} (a : α) (hq : ∀ s s', pre s s' → Q a s s') :
    X' t₀ semi pre Q (Pure.pure a : P α) where
  b := fun _ => trivial
  t := fun s hd hc => .inr (.inr (.inr ⟨a, s, rfl, rfl, rfl, hd, hc⟩))
  a := fun s s' hp' => .inr (.inr ⟨a, s, s', rfl, rfl, hq s s' hp'⟩)

/-- `let x ← get; f x`, `f` not looking at `didEnd` (nor at `prev`, if the action can be entered
    after the `;` was consumed); the comparison with the R run (whose current token is the
    `;`) while the flag is unread is a separate obligation -/
theorem bind_get {Q : α → PS → PS → Prop} {f : PS → P α}
    (hfd : ∀ x d, f { x with didEnd := d } = f x)
    (hfp : ∀ s s', pre s s' → f s' = f s)
    (hX : ∀ x, X' t₀ semi pre Q (f x))
    (hT : ∀ s, s.didEnd = true → s.cur = t₀ →
      T3 t₀ semi Q (f s s) (f s { s with didEnd := false })
        (f { s with cur := semi, didEnd := false } { s with cur := semi, didEnd := false })) :
    X' t₀ semi pre Q (get >>= f) where
  b := fun s => (hX s).b s
  t := fun s hd hc => by
    show T3 t₀ semi Q (f s s) (f { s with didEnd := false } { s with didEnd := false }) _
    rw [hfd s false]
    exact hT s hd hc
  a := fun s s' hp => by
    show A2 Q (f s s) (f s' s')
    rw [hfp s s' hp]
    exact (hX s).a s s' hp

/-- … when every continuation erases: nothing to compare -/
theorem bind_get_er {Q : α → PS → PS → Prop} {f : PS → P α}
    (hfd : ∀ x d, f { x with didEnd := d } = f x)
    (hfp : ∀ s s', pre s s' → f s' = f s)
    (hX : ∀ x, X' t₀ semi pre Q (f x)) (hE : ∀ x, x.cur = t₀ → Er t₀ (f x)) :
    X' t₀ semi pre Q (get >>= f) :=
  bind_get hfd hfp hX fun s _ hc => .inl ((hE s hc s hc s.prev false).symm)

/-- … when `f` does not look at the current token either: the R run does the same -/
theorem bind_get_c {Q : α → PS → PS → Prop} {f : PS → P α}
    (hfc : ∀ x c d, f { x with cur := c, didEnd := d } = f x)
    (hfp : ∀ s s', pre s s' → f s' = f s)
    (hX : ∀ x, X' t₀ semi pre Q (f x)) :
    X' t₀ semi pre Q (get >>= f) :=
  bind_get (fun x d => hfc x x.cur d) hfp hX fun s hd hc => by
    rw [hfc s semi false]
    exact (hX s).t s hd hc

theorem bind_curTag {Q : α → PS → PS → Prop} {f : Tag → P α} (hp : PreOK t₀ pre)
    (hX : ∀ t, X' t₀ semi pre Q (f t))
    (hT : ∀ s, s.didEnd = true → s.cur = t₀ →
      T3 t₀ semi Q (f t₀.tag s) (f t₀.tag { s with didEnd := false })
        (f semi.tag { s with cur := semi, didEnd := false })) :
    X' t₀ semi pre Q (Parser.curTag >>= f) where
  b := fun s => (hX _).b s
  t := fun s hd hc => by
    have := hT s hd hc
    subst hc
    exact this
  a := fun s s' hp' => by
    show A2 Q (f s.cur.tag s) (f s'.cur.tag s')
    have : s'.cur = s.cur := by rw [(hp s s' hp').2]
    rw [this]
    exact (hX _).a s s' hp'

theorem bind_curTag_er {Q : α → PS → PS → Prop} {f : Tag → P α} (hp : PreOK t₀ pre)
    (hX : ∀ t, X' t₀ semi pre Q (f t)) (hE : Er t₀ (f t₀.tag)) :
    X' t₀ semi pre Q (Parser.curTag >>= f) :=
  bind_curTag hp hX fun s _ hc => .inl ((hE s hc s.prev false).symm)

theorem bind_atEnd {Q : α → PS → PS → Prop} {f : Bool → P α} (hp : PreOK t₀ pre)
    (hX : ∀ b, X' t₀ semi pre Q (f b))
    (hT : ∀ s, s.didEnd = true → s.cur = t₀ →
      T3 t₀ semi Q (f (t₀.tag == .eof) s) (f (t₀.tag == .eof) { s with didEnd := false })
        (f (semi.tag == .eof) { s with cur := semi, didEnd := false })) :
    X' t₀ semi pre Q (Parser.atEnd >>= f) where
  b := fun s => (hX _).b s
  t := fun s hd hc => by
    have := hT s hd hc
    subst hc
    exact this
  a := fun s s' hp' => by
    show A2 Q (f (s.cur.tag == .eof) s) (f (s'.cur.tag == .eof) s')
    have : s'.cur = s.cur := by rw [(hp s s' hp').2]
    rw [this]
    exact (hX _).a s s' hp'

theorem bind_atEnd_er {Q : α → PS → PS → Prop} {f : Bool → P α} (hp : PreOK t₀ pre)
    (hX : ∀ b, X' t₀ semi pre Q (f b)) (hE : Er t₀ (f (t₀.tag == .eof))) :
    X' t₀ semi pre Q (Parser.atEnd >>= f) :=
  bind_atEnd hp hX fun s _ hc => .inl ((hE s hc s.prev false).symm)

/-- an erasing program: L and Z are the same tree -/
theorem t3_of_er {Q : α → PS → PS → Prop} {m : P α} {r : PM (α × PS)} (hE : Er t₀ m) (s : PS)
    (hc : s.cur = t₀) : T3 t₀ semi Q (m s) (m { s with didEnd := false }) r :=
  .inl ((hE s hc s.prev false).symm)

/-- all three return the same value at once -/
theorem t3_pure {Q : α → PS → PS → Prop} (a : α) (s : PS) (hd : s.didEnd = true) (hc : s.cur = t₀) :
    T3 t₀ semi Q ((Pure.pure a : P α) s) ((Pure.pure a : P α) { s with didEnd := false })
      ((Pure.pure a : P α) { s with cur := semi, didEnd := false }) :=
  .inr (.inr (.inr ⟨a, s, rfl, rfl, rfl, hd, hc⟩))

/-- a test of the current token that L/Z pass into an erasing branch or fail into a `pure`,
    and that R (looking at the `;`) fails -/
theorem t3_ite_pure {Q : α → PS → PS → Prop} {c c' : Prop} [Decidable c] [Decidable c'] (a : α)
    {m m' : P α} (hE : Er t₀ m) (hc' : ¬c') (s : PS) (hd : s.didEnd = true) (hc : s.cur = t₀) :
    T3 t₀ semi Q ((if c then m else Pure.pure a : P α) s)
      ((if c then m else Pure.pure a : P α) { s with didEnd := false })
      ((if c' then m' else Pure.pure a : P α) { s with cur := semi, didEnd := false }) := by
  rw [if_neg hc']
  split
  · exact .inl ((hE s hc s.prev false).symm)
  · exact t3_pure a s hd hc

theorem t3_pure_ite {Q : α → PS → PS → Prop} {c c' : Prop} [Decidable c] [Decidable c'] (a : α)
    {m m' : P α} (hE : Er t₀ m) (hc' : c') (s : PS) (hd : s.didEnd = true) (hc : s.cur = t₀) :
    T3 t₀ semi Q ((if c then Pure.pure a else m : P α) s)
      ((if c then Pure.pure a else m : P α) { s with didEnd := false })
      ((if c' then Pure.pure a else m' : P α) { s with cur := semi, didEnd := false }) := by
  rw [if_pos hc']
  split
  · exact t3_pure a s hd hc
  · exact .inl ((hE s hc s.prev false).symm)

theorem consumeIgnore (H : Hyp t₀ semi) (tag : Tag) (htag : tag ≠ .semiColon) :
    X t₀ semi (Parser.consumeIgnore tag) := by
  unfold Parser.consumeIgnore
  refine bind_get (fun _ _ => rfl) (fun s s' h => by rw [h.2]) (fun x => ?_) ?_
  · split
    · exact advance
    · exact pure ()
  · intro s hd hc
    have hr : (({ s with cur := semi, didEnd := false } : PS).cur.tag == tag) = false := by
      show (semi.tag == tag) = false
      rw [H.semi]; exact beq_false_of_ne (Ne.symm htag)
    simp only [hr]
    split
    · exact .inl rfl
    · exact .inr (.inr (.inr ⟨(), s, rfl, rfl, rfl, hd, hc⟩))

end X

/-- the relation of L and R states after `atStatementEnd`: also `didEnd` may differ if the
    answer was `true` because of the flag -/
def Qase (t₀ : Token) (b : Bool) (s s' : PS) : Prop :=
  s.cur = t₀ ∧ s' = { s with prev := s'.prev, didEnd := s'.didEnd } ∧
    (s'.didEnd = s.didEnd ∨ (b = true ∧ s.didEnd = true))

theorem qase_shape (b : Bool) (s s' : PS) (h : Qase t₀ b s s') :
    s.cur = t₀ ∧ s' = { s with prev := s'.prev, didEnd := s'.didEnd } := ⟨h.1, h.2.1⟩

/-- `atStatementEnd`: while the flag is unread, L answers `true` by the flag and R by consuming
    the `;` -/
theorem ase_x (H : Hyp t₀ semi) : X' t₀ semi (Eq0 t₀) (Qase t₀) Parser.atStatementEnd where
  b := fun s => by
    rw [Nl.ase_eval]
    split
    · trivial
    · split
      · trivial
      · split
        · exact ⟨fun _ _ => trivial, .inr (.inr (.inr ⟨true, _, rfl, rfl, rfl, rfl, rfl⟩))⟩
        · trivial
  t := fun s hd hc => by
    refine .inr (.inr (.inl ?_))
    rw [Nl.ase_eval s, Nl.ase_eval { s with cur := semi, didEnd := false }]
    rw [if_pos hd]
    have h1 : ¬ (({ s with cur := semi, didEnd := false } : PS).didEnd = true) := by simp
    have h2 : ¬ (({ s with cur := semi, didEnd := false } : PS).cur.tag = .rcurly) := by
      show ¬ semi.tag = _; rw [H.semi]; decide
    have h3 : ({ s with cur := semi, didEnd := false } : PS).cur.tag = .semiColon := H.semi
    rw [if_neg h1, if_neg h2, if_pos h3]
    refine ⟨_, rfl, fun b => .inr (.inr ⟨true, s, _, rfl, rfl, hc, ?_, .inr ⟨rfl, hd⟩⟩)⟩
    show ({ cur := t₀, prev := semi, didEnd := b, inFn := s.inFn, inLoop := s.inLoop } : PS) = _
    rw [← hc]
  a := fun s s' hp => by
    obtain ⟨hc, he⟩ := hp
    rw [Nl.ase_eval s, Nl.ase_eval s']
    have e1 : s'.didEnd = s.didEnd := by rw [he]
    have e2 : s'.cur = s.cur := by rw [he]
    rw [e1, e2]
    have hq : ∀ b, Qase t₀ b s s' := fun b => ⟨hc, by rw [he], .inl e1⟩
    split
    · exact .inr (.inr ⟨true, s, s', rfl, rfl, hq _⟩)
    · split
      · exact .inr (.inr ⟨true, s, s', rfl, rfl, hq _⟩)
      · split
        · refine .inl ?_
          rw [he]; rfl
        · exact .inr (.inr ⟨false, s, s', rfl, rfl, hq _⟩)

/-- after `atStatementEnd`: setting `didEnd` removes the difference -/
theorem setDidEnd_pure_qase (b : Bool) (a : α) :
    X' t₀ semi (Qase t₀ b) (QE t₀) (do Parser.setDidEnd true; return a : P α) := by
  have h0 : X t₀ semi (do Parser.setDidEnd true; return a : P α) :=
    X.bind' (X.setDidEnd true preOK_eq0) fun _ => X.pure' a preOK_eq0
  refine ⟨h0.b, h0.t, ?_⟩
  intro s s' hq
  obtain ⟨hc, he, _⟩ := hq
  refine .inr (.inr ⟨a, { s with didEnd := true }, { s' with didEnd := true }, rfl, rfl, hc, ?_⟩)
  show ({ s' with didEnd := true } : PS) = _
  rw [he]

end

end Semi
end Jqawk
