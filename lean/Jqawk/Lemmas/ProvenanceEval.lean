/-
  Provenance of positions, evaluator side (C12): every runtime error the evaluator raises
  carries the offset of a token of the construct being evaluated, or of a token of the body of a
  function of the program.  `RtPos G m`: every runtime error `m` can end with carries an offset
  in `G`.  Same architecture as `Lemmas/Signals.lean` (one induction on the fuel over the 15
  mutually recursive evaluator functions).
-/
import Jqawk.Model.Eval
import Jqawk.Model.Driver
import Jqawk.Lemmas.ProvenanceTokens

set_option linter.unusedVariables false

namespace Jqawk

/-- every runtime error the computation can end with carries an offset in `G` -/
def RtPos (G : Nat → Prop) {α : Type} (m : EM α) : Prop :=
  ∀ s pos msg s', m s = .err (.runtime pos msg) s' → G pos

namespace RtPos
variable {G : Nat → Prop}

theorem pure {α : Type} (a : α) : RtPos G (Pure.pure a : EM α) := by
  intro s pos msg s' h; cases h

theorem bind {α β : Type} {m : EM α} {f : α → EM β} (hm : RtPos G m)
    (hf : ∀ a, RtPos G (f a)) : RtPos G (m >>= f) := by
  intro s pos msg s' h
  change EM.bind m f s = _ at h
  unfold EM.bind at h
  cases hr : m s with
  | ok a s1 => rw [hr] at h; exact hf a s1 pos msg s' h
  | err e s1 =>
    rw [hr] at h
    simp only [Res.err.injEq] at h
    exact hm s pos msg s1 (by rw [hr, h.1])
  | oof => rw [hr] at h; cases h

theorem oof {α : Type} : RtPos G (Jqawk.oof : EM α) := by intro s pos msg s' h; cases h
theorem getSt : RtPos G Jqawk.getSt := by intro s pos msg s' h; cases h
theorem getHeap : RtPos G Jqawk.getHeap := by intro s pos msg s' h; cases h
theorem readCell (c : CellId) : RtPos G (Jqawk.readCell c) := by intro s pos msg s' h; cases h
theorem throwPanic {α : Type} (m : String) : RtPos G (Jqawk.throwPanic m : EM α) := by
  intro s pos msg s' h; cases h
theorem throwUnmodelled {α : Type} (m : String) : RtPos G (Jqawk.throwUnmodelled m : EM α) := by
  intro s pos msg s' h; cases h
theorem throwSig {α : Type} (g : Sig) : RtPos G (Jqawk.throwSig g : EM α) := by
  intro s pos msg s' h; cases h
/-- the only source of runtime errors: the offset must be in `G` -/
theorem throwRt {α : Type} {p : Nat} (hp : G p) (m : String) : RtPos G (Jqawk.throwRt p m : EM α) := by
  intro s pos msg s' h
  simp only [Jqawk.throwRt, Res.err.injEq, Err.runtime.injEq] at h
  rw [← h.1.1]; exact hp
theorem newCell (v : Val) : RtPos G (Jqawk.newCell v) := by intro s pos msg s' h; cases h
theorem writeCell (c : CellId) (v : Val) : RtPos G (Jqawk.writeCell c v) := by
  intro s pos msg s' h; cases h
theorem setHeap (h : Heap) : RtPos G (Jqawk.setHeap h) := by intro s pos msg s' h; cases h
theorem emit (b : Bytes) : RtPos G (Jqawk.emit b) := by intro s pos msg s' h; cases h
theorem allocArrM (items : Array CellId) : RtPos G (Jqawk.allocArrM items) := by
  intro s pos msg s' h; cases h
theorem allocObjM (m : List (Bytes × CellId)) : RtPos G (Jqawk.allocObjM m) := by
  intro s pos msg s' h; cases h
theorem modifySt (f : St → St) : RtPos G (Jqawk.modifySt f) := by intro s pos msg s' h; cases h

theorem pushFrame (name : Bytes) : RtPos G (Jqawk.pushFrame name) := by
  intro s pos msg s' h
  unfold Jqawk.pushFrame at h
  split at h <;> cases h

theorem setLocal (name : Bytes) (c : CellId) : RtPos G (Jqawk.setLocal name c) := by
  intro s pos msg s' h
  unfold Jqawk.setLocal at h
  split at h <;> cases h

theorem setGlobal (name : Bytes) (c : CellId) : RtPos G (Jqawk.setGlobal name c) := by
  intro s pos msg s' h; cases h

end RtPos

/-- one decomposition step for goals `RtPos G (…)` -/
macro "rtpos_step" : tactic => `(tactic| with_reducible_and_instances first
  | exact RtPos.pure _
  | exact RtPos.oof
  | exact RtPos.getSt
  | exact RtPos.getHeap
  | exact RtPos.readCell _
  | exact RtPos.throwPanic _
  | exact RtPos.throwUnmodelled _
  | exact RtPos.throwSig _
  | exact RtPos.newCell _
  | exact RtPos.writeCell _ _
  | exact RtPos.setHeap _
  | exact RtPos.emit _
  | exact RtPos.allocArrM _
  | exact RtPos.allocObjM _
  | exact RtPos.modifySt _
  | exact RtPos.setLocal _ _
  | exact RtPos.pushFrame _
  | assumption
  | apply RtPos.bind
  | intro _
  | split
  | dsimp only)

macro "rtpos_auto" : tactic => `(tactic| repeat' rtpos_step)

namespace RtPos
variable {G : Nat → Prop}

theorem getVariable (name : Bytes) : RtPos G (Jqawk.getVariable name) := by
  unfold Jqawk.getVariable; rtpos_auto
theorem copyValue (a b : CellId) : RtPos G (Jqawk.copyValue a b) := by
  unfold Jqawk.copyValue; rtpos_auto
theorem bindAll (l : List (Bytes × CellId)) : RtPos G (Jqawk.bindAll l) := by
  induction l with
  | nil => exact pure ()
  | cons kv rest ih => obtain ⟨k, c⟩ := kv; exact bind (setLocal k c) (fun _ => ih)
theorem bindParams (ps : List Bytes) (as : List Val) : RtPos G (Jqawk.bindParams ps as) := by
  induction ps generalizing as with
  | nil => exact pure ()
  | cons p ps ih =>
    cases as with
    | nil => exact bind (newCell _) (fun c => bind (setLocal _ _) (fun _ => ih []))
    | cons a as => exact bind (newCell _) (fun c => bind (setLocal _ _) (fun _ => ih as))
theorem allocCells (vs : List Val) : RtPos G (Jqawk.allocCells vs) := by
  induction vs with
  | nil => exact pure []
  | cons v vs ih => exact bind (newCell v) (fun c => bind ih (fun cs => pure _))
theorem newArrayOf (vs : List Val) : RtPos G (Jqawk.newArrayOf vs) := by
  unfold Jqawk.newArrayOf
  exact bind (allocCells vs) (fun cells => bind getHeap (fun h => bind (setHeap _) (fun _ => pure _)))

end RtPos

macro "rtpos_step2" : tactic => `(tactic| first
  | rtpos_step
  | (with_reducible_and_instances first
      | exact RtPos.getVariable _
      | exact RtPos.copyValue _ _
      | exact RtPos.bindAll _
      | exact RtPos.bindParams _ _
      | exact RtPos.allocCells _
      | exact RtPos.newArrayOf _))

namespace RtPos
variable {G : Nat → Prop}

/-- native functions report failures as plain Go errors; `callFunction` attaches the position -/
theorem callNative (f : Native) (args : List Val) (this : Option Val) :
    RtPos G (Jqawk.callNative f args this) := by
  unfold Jqawk.callNative
  refine RtPos.bind RtPos.getHeap (fun h => ?_)
  cases f <;> dsimp only <;> repeat' rtpos_step2

theorem createSpeculative (n : Nat) (c : CellId) : RtPos G (Jqawk.createSpeculative n c) := by
  induction n generalizing c with
  | zero => exact RtPos.oof
  | succ n ih =>
    unfold Jqawk.createSpeculative
    repeat' (first | rtpos_step2 | (with_reducible_and_instances exact ih _))

theorem memberStep {pos : Nat} (hp : G pos) (l r : CellId) : RtPos G (Jqawk.memberStep pos l r) := by
  unfold Jqawk.memberStep
  repeat' (first | rtpos_step2 | (with_reducible_and_instances exact RtPos.throwRt hp _))

theorem evalAssignment {pos : Nat} (hp : G pos) (l r : CellId) :
    RtPos G (Jqawk.evalAssignment pos l r) := by
  unfold Jqawk.evalAssignment
  repeat' (first
    | rtpos_step2
    | (with_reducible_and_instances exact RtPos.createSpeculative _ _)
    | (with_reducible_and_instances exact RtPos.throwRt hp _))

/-! ### combinators -/

theorem withFrames {α : Type} (saved : List Frame) {m : EM α} (hm : RtPos G m) :
    RtPos G (Jqawk.withFrames saved m) := by
  intro s pos msg s' h
  unfold Jqawk.withFrames at h
  cases hr : m s with
  | ok a s1 => rw [hr] at h; cases h
  | err e s1 =>
    rw [hr] at h
    simp only [Res.err.injEq] at h
    exact hm s pos msg s1 (by rw [hr, h.1])
  | oof => rw [hr] at h; cases h

theorem loopIter {body k : EM Unit} (hb : RtPos G body) (hk : RtPos G k) :
    RtPos G (Jqawk.loopIter body k) := by
  intro s pos msg s' h
  unfold Jqawk.loopIter at h
  cases hr : body s with
  | ok a s1 => rw [hr] at h; exact hk s1 pos msg s' h
  | err e s1 =>
    rw [hr] at h
    cases e with
    | sig g' =>
      cases g' with
      | brk => cases h
      | cont => exact hk s1 pos msg s' h
      | ret => cases h
      | next => cases h
      | exit => cases h
    | runtime p m =>
      simp only [Res.err.injEq, Err.runtime.injEq] at h
      exact hb s p m s1 (by rw [hr]) |> fun hp => h.1.1 ▸ hp
    | panic m => cases h
    | unmodelled m => cases h
  | oof => rw [hr] at h; cases h

theorem catchReturn {body : EM Unit} (hb : RtPos G body) : RtPos G (Jqawk.catchReturn body) := by
  intro s pos msg s' h
  unfold Jqawk.catchReturn at h
  cases hr : body s with
  | ok a s1 => rw [hr] at h; cases h
  | err e s1 =>
    rw [hr] at h
    cases e with
    | sig g' => cases g' <;> cases h
    | runtime p m =>
      simp only [Res.err.injEq, Err.runtime.injEq] at h
      exact hb s p m s1 (by rw [hr]) |> fun hp => h.1.1 ▸ hp
    | panic m => cases h
    | unmodelled m => cases h
  | oof => rw [hr] at h; cases h

theorem catchSig {α : Type} (g : Sig) (d : α) {m : EM α} (hm : RtPos G m) :
    RtPos G (Jqawk.catchSig g d m) := by
  intro s pos msg s' h
  unfold Jqawk.catchSig at h
  cases hr : m s with
  | ok a s1 => rw [hr] at h; cases h
  | err e s1 =>
    rw [hr] at h
    cases e with
    | sig g' => dsimp only at h; split at h <;> cases h
    | runtime p m' =>
      simp only [Res.err.injEq, Err.runtime.injEq] at h
      exact hm s p m' s1 (by rw [hr]) |> fun hp => h.1.1 ▸ hp
    | panic m => cases h
    | unmodelled m => cases h
  | oof => rw [hr] at h; cases h

theorem getIdentifier (prog : Program) {t : Token} (ht : G t.pos) :
    RtPos G (Jqawk.getIdentifier prog t) := by
  unfold Jqawk.getIdentifier
  repeat' (first | rtpos_step2 | (with_reducible_and_instances exact RtPos.throwRt ht _))

end RtPos

/-! ### the mutual induction -/

/-- every token the evaluator can blame in a function body carries an offset in `G` -/
def Program.FnTok (G : Nat → Prop) (prog : Program) : Prop :=
  ∀ f ∈ prog.functions, TokOK G (f.body.tokens false)

structure AllRt (G : Nat → Prop) (prog : Program) (n : Nat) : Prop where
  expr : ∀ e, TokOK G (e.tokens false) → RtPos G (evalExpr prog n e)
  objItems : ∀ pos items acc, G pos → TokOK G (tokensKVs false items) →
    RtPos G (evalObjItems prog n pos items acc)
  exprList : ∀ es c, TokOK G (tokensEs false es) → RtPos G (evalExprList prog n es c)
  matchCases : ∀ pos v cs, G pos → TokOK G (tokensCases false cs) →
    RtPos G (evalMatchCases prog n pos v cs)
  caseMatch : ∀ v ps, TokOK G (tokensEs false ps) → RtPos G (evalCaseMatch prog n v ps)
  arrayCaseMatch : ∀ v ps, TokOK G (tokensEs false ps) → RtPos G (evalArrayCaseMatch prog n v ps)
  matchElems : ∀ cs ps acc, TokOK G (tokensEs false ps) → RtPos G (Jqawk.matchElems prog n cs ps acc)
  call : ∀ pos f args, G pos → RtPos G (callFunction prog n pos f args)
  unary : ∀ e op p, TokOK G (e.tokens false) → G op.pos → RtPos G (evalUnary prog n e op p)
  binary : ∀ l r op, TokOK G (l.tokens false) → TokOK G (r.tokens false) → G op.pos →
    RtPos G (evalBinary prog n l r op)
  stmt : ∀ st, TokOK G (st.tokens false) → RtPos G (evalStmt prog n st)
  block : ∀ sts, TokOK G (tokensSs false sts) → RtPos G (evalBlock prog n sts)
  whileL : ∀ c b, TokOK G (c.tokens false) → TokOK G (b.tokens false) →
    RtPos G (whileLoop prog n c b)
  forL : ∀ c p b, TokOK G (c.tokens false) → TokOK G (p.tokens false) → TokOK G (b.tokens false) →
    RtPos G (forLoop prog n c p b)
  forInL : ∀ l il b items, TokOK G (b.tokens false) → RtPos G (forInLoop prog n l il b items)

/-- a runtime error raised directly: find the reason why its offset is in `G` -/
macro "rtpos_throw" : tactic => `(tactic| with_reducible_and_instances first
  | exact RtPos.throwRt (by assumption) _
  | exact RtPos.throwRt (TokOK.token (kw := false) (by assumption)) _
  | exact RtPos.throwRt (by repeat' (first
      | assumption | exact TokOK.token (kw := false) (by assumption) | split)) _)

/-- try the induction hypotheses, finding the side conditions among the assumptions -/
macro "rtpos_ih" ih:term : tactic => `(tactic| with_reducible_and_instances first
  | exact ($ih).expr _ (by assumption)
  | exact ($ih).objItems _ _ _ (by assumption) (by assumption)
  | exact ($ih).exprList _ _ (by assumption)
  | exact ($ih).matchCases _ _ _ (by assumption) (by assumption)
  | exact ($ih).caseMatch _ _ (by assumption)
  | exact ($ih).arrayCaseMatch _ _ (by assumption)
  | exact ($ih).matchElems _ _ _ (by assumption)
  | exact ($ih).call _ _ _ (by assumption)
  | exact ($ih).call _ _ _ (TokOK.token (kw := false) (by assumption))
  | exact ($ih).unary _ _ _ (by assumption) (by assumption)
  | exact ($ih).binary _ _ _ (by assumption) (by assumption) (by assumption)
  | exact ($ih).stmt _ (by assumption)
  | exact ($ih).block _ (by assumption)
  | exact ($ih).whileL _ _ (by assumption) (by assumption)
  | exact ($ih).forL _ _ _ (by assumption) (by assumption) (by assumption)
  | exact ($ih).forInL _ _ _ _ (by assumption))

macro "rtpos_ind" ih:term : tactic => `(tactic| repeat' (first
  | rtpos_ih $ih
  | rtpos_throw
  | (with_reducible_and_instances first
      | exact RtPos.evalAssignment (by assumption) _ _
      | exact RtPos.evalAssignment (TokOK.token (kw := false) (by assumption)) _ _
      | exact RtPos.memberStep (by assumption) _ _
      | exact RtPos.memberStep (TokOK.token (kw := false) (by assumption)) _ _
      | exact RtPos.callNative _ _ _
      | exact RtPos.getIdentifier _ (by assumption)
      | apply RtPos.withFrames
      | apply RtPos.loopIter
      | apply RtPos.catchReturn)
  | rtpos_step2))

theorem allRt_zero (G : Nat → Prop) (prog : Program) : AllRt G prog 0 := by
  constructor <;> intros <;>
    first
      | (unfold evalExpr; exact RtPos.oof)
      | (unfold evalObjItems; exact RtPos.oof)
      | (unfold evalExprList; exact RtPos.oof)
      | (unfold evalMatchCases; exact RtPos.oof)
      | (unfold evalCaseMatch; exact RtPos.oof)
      | (unfold evalArrayCaseMatch; exact RtPos.oof)
      | (unfold Jqawk.matchElems; exact RtPos.oof)
      | (unfold callFunction; exact RtPos.oof)
      | (unfold evalUnary; exact RtPos.oof)
      | (unfold evalBinary; exact RtPos.oof)
      | (unfold evalStmt; exact RtPos.oof)
      | (unfold evalBlock; exact RtPos.oof)
      | (unfold whileLoop; exact RtPos.oof)
      | (unfold forLoop; exact RtPos.oof)
      | (unfold forInLoop; exact RtPos.oof)

theorem allRt_succ (G : Nat → Prop) (prog : Program) (hfn : prog.FnTok G) (n : Nat)
    (ih : AllRt G prog n) : AllRt G prog (n + 1) := by
  constructor
  · -- evalExpr
    intro e he
    unfold evalExpr
    cases e with
    | lit t =>
      simp only [Expr.tokens, TokOK_cons, TokOK_nil, and_true] at he
      dsimp only; rtpos_ind ih
    | ident t =>
      simp only [Expr.tokens, TokOK_cons, TokOK_nil, and_true] at he
      dsimp only; rtpos_ind ih
    | arr t items =>
      simp only [Expr.tokens, TokOK_cons] at he
      obtain ⟨h1, h2⟩ := he
      dsimp only; rtpos_ind ih
    | obj t items =>
      simp only [Expr.tokens, TokOK_cons] at he
      obtain ⟨h1, h2⟩ := he
      dsimp only; rtpos_ind ih
    | unary e op p =>
      simp only [Expr.tokens, TokOK_cons] at he
      obtain ⟨h1, h2⟩ := he
      dsimp only; rtpos_ind ih
    | binary l r op =>
      simp only [Expr.tokens, TokOK_cons, TokOK_append] at he
      obtain ⟨h1, h2, h3⟩ := he
      dsimp only; rtpos_ind ih
    | call f args =>
      simp only [Expr.tokens, TokOK_append] at he
      obtain ⟨h1, h2⟩ := he
      dsimp only; rtpos_ind ih
    | match_ t v cases =>
      simp only [Expr.tokens, TokOK_cons, TokOK_append] at he
      obtain ⟨h1, h2, h3⟩ := he
      dsimp only; rtpos_ind ih
  · -- evalObjItems
    intro pos items acc hpos h
    cases items with
    | nil => unfold evalObjItems; exact RtPos.pure _
    | cons kv rest =>
      obtain ⟨k, e⟩ := kv
      simp only [tokensKVs, TokOK_append] at h
      obtain ⟨h1, h2⟩ := h
      unfold evalObjItems; rtpos_ind ih
  · -- evalExprList
    intro es c h
    cases es with
    | nil => unfold evalExprList; exact RtPos.pure _
    | cons e rest =>
      simp only [tokensEs, TokOK_append] at h
      obtain ⟨h1, h2⟩ := h
      unfold evalExprList; rtpos_ind ih
  · -- evalMatchCases
    intro pos v cs hpos h
    cases cs with
    | nil => unfold evalMatchCases; exact RtPos.newCell _
    | cons c rest =>
      obtain ⟨pats, body⟩ := c
      simp only [tokensCases, TokOK_append] at h
      obtain ⟨⟨h1, h2⟩, h3⟩ := h
      unfold evalMatchCases
      cases body with
      | expr be =>
        have h2' : TokOK G (be.tokens false) := by simpa [Stmt.tokens] using h2
        rtpos_ind ih
      | _ => rtpos_ind ih
  · -- evalCaseMatch
    intro v ps h
    cases ps with
    | nil => unfold evalCaseMatch; exact RtPos.pure _
    | cons p rest =>
      simp only [tokensEs, TokOK_append] at h
      obtain ⟨h1, h2⟩ := h
      unfold evalCaseMatch
      cases p with
      | arr t items =>
        have h1' : TokOK G (tokensEs false items) := by
          simp only [Expr.tokens, TokOK_cons] at h1; exact h1.2
        dsimp only; rtpos_ind ih
      | _ => dsimp only <;> rtpos_ind ih
  · -- evalArrayCaseMatch
    intro v ps h
    unfold evalArrayCaseMatch
    rtpos_ind ih
  · -- matchElems
    intro cs ps acc h
    cases cs with
    | nil => unfold Jqawk.matchElems; exact RtPos.pure _
    | cons c cs =>
      cases ps with
      | nil => unfold Jqawk.matchElems; exact RtPos.pure _
      | cons p ps =>
        simp only [tokensEs, TokOK_append] at h
        obtain ⟨h1, h2⟩ := h
        have h3 : TokOK G (tokensEs false [p]) := by simpa [tokensEs] using h1
        unfold Jqawk.matchElems; rtpos_ind ih
  · -- callFunction
    intro pos f args hpos
    unfold callFunction
    have hbody : ∀ (i : Nat) (fd : FuncDef), prog.functions[i]? = some fd →
        RtPos G (catchReturn (evalStmt prog n fd.body)) := fun i fd hfd =>
      RtPos.catchReturn (ih.stmt _ (hfn fd (List.mem_of_getElem? hfd)))
    repeat' (first
      | (with_reducible_and_instances exact hbody _ _ (by assumption))
      | rtpos_ih ih
      | rtpos_throw
      | (with_reducible_and_instances first
          | exact RtPos.callNative _ _ _
          | apply RtPos.withFrames)
      | rtpos_step2)
  · -- evalUnary
    intro e op p h hop
    unfold evalUnary
    rtpos_ind ih
  · -- evalBinary
    intro l r op hl hr hop
    unfold evalBinary
    rtpos_ind ih
  · -- evalStmt
    intro st h
    unfold evalStmt
    cases st with
    | block t body =>
      simp only [Stmt.tokens, TokOK_append, TokOK_kwTok_false, true_and] at h
      dsimp only; rtpos_ind ih
    | print t args =>
      simp only [Stmt.tokens, TokOK_append, TokOK_kwTok_false, true_and] at h
      dsimp only; rtpos_ind ih
    | expr e => simp only [Stmt.tokens] at h; dsimp only; rtpos_ind ih
    | ret e =>
      cases e with
      | none => dsimp only; rtpos_ind ih
      | some e => simp only [Stmt.tokens] at h; dsimp only; rtpos_ind ih
    | brk t => exact RtPos.throwSig _
    | cont t => exact RtPos.throwSig _
    | next t => exact RtPos.throwSig _
    | exit t => exact RtPos.throwSig _
    | if_ c b els =>
      cases els with
      | none =>
        simp only [Stmt.tokens, TokOK_append] at h
        obtain ⟨h1, h2⟩ := h
        dsimp only; rtpos_ind ih
      | some eb =>
        simp only [Stmt.tokens, TokOK_append] at h
        obtain ⟨⟨h1, h2⟩, h3⟩ := h
        dsimp only; rtpos_ind ih
    | while_ c b =>
      simp only [Stmt.tokens, TokOK_append] at h
      obtain ⟨h1, h2⟩ := h
      dsimp only; rtpos_ind ih
    | for_ pre c post b =>
      simp only [Stmt.tokens, TokOK_append] at h
      obtain ⟨⟨⟨h0, h1⟩, h2⟩, h3⟩ := h
      dsimp only; rtpos_ind ih
    | forIn id idx iter b =>
      simp only [Stmt.tokens, TokOK_cons, TokOK_append] at h
      obtain ⟨h0, _, h1, h2⟩ := h
      dsimp only; rtpos_ind ih
  · -- evalBlock
    intro sts h
    cases sts with
    | nil => unfold evalBlock; exact RtPos.pure _
    | cons st rest =>
      simp only [tokensSs, TokOK_append] at h
      obtain ⟨h1, h2⟩ := h
      unfold evalBlock; rtpos_ind ih
  · -- whileLoop
    intro c b hc hb
    unfold whileLoop
    rtpos_ind ih
  · -- forLoop
    intro c p b hc hp hb
    unfold forLoop
    rtpos_ind ih
  · -- forInLoop
    intro l il b items hb
    cases items with
    | nil => unfold forInLoop; exact RtPos.pure _
    | cons it rest =>
      obtain ⟨iv, item⟩ := it
      unfold forInLoop
      rtpos_ind ih

/-- **every runtime error carries the offset of a token of the construct evaluated or of a
    function body** — at any fuel, from any state -/
theorem allRt (G : Nat → Prop) (prog : Program) (hfn : prog.FnTok G) : ∀ n, AllRt G prog n
  | 0 => allRt_zero G prog
  | n + 1 => allRt_succ G prog hfn n (allRt G prog hfn n)

end Jqawk
