/-
  `createSpeculative` / `evalAssignment` keep the heap invariant (C15).
-/
import Jqawk.Lemmas.HeapInvCore

set_option linter.unusedVariables false
set_option linter.unusedSimpArgs false

namespace Jqawk.HeapInv
open Jqawk Jqawk.IndexWrite

/-- the invariant holds again (and the heap is `Trans`-related to `h0`) as soon as a plain value
    is written into `c` -/
def Hole (h0 h' : Heap) (c : CellId) : Prop :=
  ∀ w, Plain w → Inv (h'.set c w) ∧ Trans h0 (h'.set c w)

theorem Hole.trans {a b h' : Heap} {c : CellId} (t : Trans a b) (hl : Hole b h' c) : Hole a h' c :=
  fun w hw => ⟨(hl w hw).1, t.trans (hl w hw).2⟩

/-- the weak invariant holds in the hole state itself -/
theorem Hole.weak {h0 h' : Heap} {c : CellId} (hl : Hole h0 h' c) : Weak h' :=
  weak_of_set (hl .unknown plain_unknown).1.weak

/-- a hole that is no hole: the invariant holds already -/
theorem Hole.of_inv {h0 h' : Heap} (c : CellId) (i : Inv h') (t : Trans h0 h') : Hole h0 h' c :=
  fun w hw => ⟨inv_set i c hw, t.trans (trans_set h' c hw)⟩

theorem Hole.of_set {h0 h' : Heap} (c : CellId) (v : Val) (i : Inv h') (t : Trans h0 h') :
    Hole h0 (h'.set c v) c := by
  intro w hw
  rw [set_set]
  exact ⟨inv_set i c hw, t.trans (trans_set h' c hw)⟩

/-- a heap that only gained cells: old cells, all arrays and all objects are as before -/
theorem inv_grow {h h' : Heap} (i : Inv h) (hsz : h.cells.size ≤ h'.cells.size)
    (hold : ∀ d : Nat, d < h.cells.size → h'.get d = h.get d)
    (harr : ∀ b, h'.arr b = h.arr b) (hobj : ∀ o, h'.obj o = h.obj o) : Inv h' ∧ Trans h h' := by
  refine ⟨⟨⟨?_, ?_⟩, ?_, ?_, ?_⟩, ⟨hsz, ?_, ?_⟩⟩
  · intro a c hc; rw [harr] at hc
    exact Nat.lt_of_lt_of_le (i.wf.arrs a c hc) hsz
  · intro o k c hc; rw [hobj] at hc
    exact Nat.lt_of_lt_of_le (i.wf.objs o k c hc) hsz
  · intro a b x y hx hy e
    rw [harr] at hx e; rw [harr] at hy e
    exact i.un a b x y hx hy e
  · intro a c hc; rw [harr] at hc
    rw [hold c (i.wf.arrs a c hc)]; exact i.ep a c hc
  · intro o k c hc; rw [hobj] at hc
    rw [hold c (i.wf.objs o k c hc)]; exact i.mp o k c hc
  · intro c hc p; rw [hold c hc]; exact p
  · intro b c hc _; rw [harr] at hc; exact ⟨b, hc⟩

theorem obj_oob (h : Heap) (o : Nat) (ho : h.objs.size ≤ o) : h.obj o = [] := by
  simp [Heap.obj, Array.getD_eq_getD_getElem?, Array.getElem?_eq_none ho]

theorem obj_setObj_same (h : Heap) (o : ObjId) (m : List (Bytes × CellId)) (ho : o < h.objs.size) :
    (h.setObj o m).obj o = m := by
  simp [Heap.obj, Heap.setObj, Array.getD_eq_getD_getElem?, Array.getElem?_setIfInBounds, ho]

theorem obj_setObj_other (h : Heap) (o p : ObjId) (m : List (Bytes × CellId)) (hp : p ≠ o) :
    (h.setObj o m).obj p = h.obj p := by
  simp [Heap.obj, Heap.setObj, Array.getD_eq_getD_getElem?, Array.getElem?_setIfInBounds, Ne.symm hp]

theorem obj_setObj_oob (h : Heap) (o : ObjId) (m : List (Bytes × CellId)) (ho : h.objs.size ≤ o) :
    (h.setObj o m).obj o = [] := by
  apply obj_oob
  simp [Heap.setObj, ho]

/-- members of the heap after `setObj o (objInsert …)` -/
theorem mem_setObj_insert {h : Heap} {o p : ObjId} {key k : Bytes} {cell c : CellId}
    (hm : (k, c) ∈ (h.setObj o (objInsert (h.obj o) key cell)).obj p) :
    (k, c) ∈ h.obj p ∨ c = cell := by
  by_cases hp : p = o
  · subst hp
    by_cases ho : p < h.objs.size
    · rw [obj_setObj_same h p _ ho] at hm
      exact mem_objInsert hm
    · rw [obj_setObj_oob h p _ (Nat.le_of_not_lt ho)] at hm
      cases hm
  · rw [obj_setObj_other h o p _ hp] at hm
    exact .inl hm

/-- the heap after padding an array satisfies the invariant when the last new element is plain -/
theorem padded_inv {h h' : Heap} {a : ArrId} {N k : Nat} {w : Val} (p : Padded h h' a N k w)
    (i : Inv h) (hw : Plain w) : Inv h' ∧ Trans h h' := by
  have hs := p.hstep i.wf i.un i.ep hw
  have hobj : ∀ o, h'.obj o = h.obj o := fun o => by simp only [Heap.obj, p.objs]
  have hN := p.hN
  have hsize := p.size
  refine ⟨⟨hs.wf, hs.unshared, hs.plain, ?_⟩, ⟨by omega, ?_, ?_⟩⟩
  · intro o kk c hc
    rw [hobj] at hc
    rw [p.old c (i.wf.objs o kk c hc)]; exact i.mp o kk c hc
  · intro c hc pl; rw [p.old c hc]; exact pl
  · intro b c hc hlt
    by_cases hb : b = a
    · subst hb
      rw [p.arrA] at hc
      simp only [Array.toList_append, List.mem_append, List.mem_range'_1] at hc
      rcases hc with hc | hc
      · exact ⟨b, hc⟩
      · have hc' : @LE.le Nat _ N c ∧ @LT.lt Nat _ c (N + (k + 1)) := hc
        omega
    · rw [p.arrB b hb] at hc; exact ⟨b, hc⟩

theorem setMember_hole {h : Heap} (i : Inv h) (target member : Val) (cell c : CellId) (h' : Heap)
    (hcell : cell < h.cells.size)
    (hs : setMember h target member cell = .ok (c, h')) : Hole h h' c := by
  cases target with
  | arr a =>
    cases member with
    | num x =>
      cases hri : resolveIndex (h.arr a).size x.toGoInt with
      | none => simp [setMember, hri] at hs
      | some idx =>
        by_cases hlt : idx < (h.arr a).size
        · simp only [setMember, hri, hlt, ↓reduceIte, Except.ok.injEq, Prod.mk.injEq] at hs
          obtain ⟨rfl, rfl⟩ := hs
          exact Hole.of_set _ _ i (Trans.refl _)
        · by_cases hlim : idx ≤ fillLimit
          · have hge : (h.arr a).size ≤ idx := Nat.le_of_not_lt hlt
            rw [setMember_arr_fill h a x cell idx hri hge hlim hcell] at hs
            simp only [Except.ok.injEq, Prod.mk.injEq] at hs
            obtain ⟨rfl, rfl⟩ := hs
            obtain ⟨p1, p2, p3, p4, p5, p6, p7, p8⟩ := padHeap_spec h a idx (h.get cell) hge
            intro w hw
            have hsz' : (padHeap h a idx (h.get cell)).cells.size = h.cells.size + (idx - (h.arr a).size + 1) := by
              rw [p1]; omega
            have hne : ∀ d : Nat, d < h.cells.size + (idx - (h.arr a).size) →
                ((padHeap h a idx (h.get cell)).set (h.cells.size + (idx - (h.arr a).size)) w).get d
                  = (padHeap h a idx (h.get cell)).get d :=
              fun d hd => Heap.get_set_ne' _ _ _ _ (Nat.ne_of_lt hd)
            by_cases ha : a < h.arrs.size
            · apply padded_inv (a := a) (N := h.cells.size) (k := idx - (h.arr a).size) (w := w) _ i hw
              exact {
                hN := Nat.le_refl _
                size := by rw [Heap.size_set, hsz']
                old := fun d hd => by rw [hne d (by omega), p4 d hd]
                nulls := fun t ht => by rw [hne _ (by omega), p7 t ht]
                last := Heap.get_set_same' _ _ _ (by rw [hsz']; nomega)
                arrA := by
                  rw [Heap.arr_set, p6 ha]
                  have : idx + 1 - (h.arr a).size = idx - (h.arr a).size + 1 := by omega
                  rw [this]
                arrB := fun b hb => by rw [Heap.arr_set, p5 b hb]
                arrs := by rw [set_arrs, p2]
                objs := by rw [set_objs, p3] }
            · apply inv_grow i
              · rw [Heap.size_set, hsz']; omega
              · intro d hd; rw [hne d (by omega), p4 d hd]
              · intro b
                rw [Heap.arr_set]
                by_cases hb : b = a
                · subst hb
                  rw [arr_oob h b (Nat.le_of_not_lt ha), arr_oob _ b (by rw [p2]; exact Nat.le_of_not_lt ha)]
                · exact p5 b hb
              · intro o
                show Heap.obj _ o = _
                simp only [Heap.obj, set_objs, p3]
          · have : idx > fillLimit := Nat.lt_of_not_le hlim
            simp [setMember, hri, hlt, this] at hs
    | _ => simp [setMember] at hs
  | obj o =>
    simp only [setMember, Except.ok.injEq, Prod.mk.injEq] at hs
    obtain ⟨rfl, rfl⟩ := hs
    intro w hw
    have hget : ∀ d, ((h.setObj o (objInsert (h.obj o) member.str! cell)).set cell w).get d
        = (h.set cell w).get d := fun _ => rfl
    refine ⟨⟨⟨?_, ?_⟩, ?_, ?_, ?_⟩, ⟨?_, ?_, ?_⟩⟩
    · intro a d hd; rw [Heap.size_set]; exact i.wf.arrs a d hd
    · intro p k d hd
      rw [Heap.size_set]
      rcases mem_setObj_insert (h := h) hd with hd | hd
      · exact i.wf.objs p k d hd
      · rw [hd]; exact hcell
    · exact i.un
    · intro a d hd; rw [hget]; exact plain_get_set hw (i.ep a d hd)
    · intro p k d hd
      rw [hget]
      rcases mem_setObj_insert (h := h) hd with hd | hd
      · exact plain_get_set hw (i.mp p k d hd)
      · rw [hd, get_set]; simp only [hcell, and_self, ↓reduceIte]; exact hw
    · rw [Heap.size_set]; exact Nat.le_refl _
    · intro d hd p; rw [hget]; exact plain_get_set hw p
    · intro b d hd _; exact ⟨b, hd⟩
  | _ => simp [setMember] at hs

/-- a result predicate: the claim on normal completion, no control signal, the weak invariant
    after an error -/
def PostQ {α : Type} (Q : α → St → Prop) : Res α → Prop
  | .ok a s1 => Q a s1
  | .err (.sig _) _ => False
  | .err _ s1 => Weak s1.heap
  | .oof => True

theorem PostQ.bind {α β : Type} {Q1 : α → St → Prop} {Q : β → St → Prop} {m : EM α} {f : α → EM β}
    {s : St} (hm : PostQ Q1 (m s)) (hf : ∀ a s1, Q1 a s1 → PostQ Q (f a s1)) :
    PostQ Q (m.bind f s) := by
  unfold EM.bind
  cases hr : m s with
  | ok a s1 => rw [hr] at hm; exact hf a s1 hm
  | err e s1 => rw [hr] at hm; cases e <;> first | exact hm | trivial
  | oof => trivial

/-- what `createSpeculative` guarantees: the cell it returns is the only thing to repair -/
def CSQ (h0 : Heap) : Except String CellId → St → Prop
  | .ok c, s' => Hole h0 s'.heap c
  | .error _, s' => Weak s'.heap

/-- the container to store into has been made: the invariant holds -/
def TQ (h0 : Heap) : Except String Val → St → Prop
  | .ok _, s' => Inv s'.heap ∧ Trans h0 s'.heap
  | .error _, s' => Weak s'.heap

/-- the last step of `createSpeculative`: `setMember` on a heap that satisfies the invariant -/
macro "tail_tac" i:term "," t:term "," hc:term : tactic =>
  `(tactic| (generalize hsm : setMember _ _ _ _ = r
             cases r with
             | error m => exact Inv.weak $i
             | ok r =>
               obtain ⟨c, h'⟩ := r
               exact Hole.trans $t (setMember_hole $i _ _ _ _ _ $hc hsm)))

theorem createSpeculative_hole : ∀ (n : Nat) (specObj : CellId) (s : St), Inv s.heap →
    PostQ (CSQ s.heap) (createSpeculative n specObj s)
  | 0, _, _, _ => trivial
  | n + 1, specObj, s, i => by
    have ih := createSpeculative_hole n
    rw [createSpeculative]
    simp only [bind, EM.bind, readCell]
    have hlt : ∀ v, s.heap.get specObj = v → v ≠ .unknown → specObj < s.heap.cells.size :=
      fun v hv hne => Heap.lt_of_get_ne_unknown _ _ (by rw [hv]; exact hne)
    cases hsv : s.heap.get specObj with
    | str _ sp | nil sp | native _ _ sp =>
      have hc := hlt _ hsv (by intro e; cases e)
      cases sp with
      | none => exact i.weak
      | some spec =>
        obtain ⟨parent, key⟩ := spec
        dsimp only
        simp only [EM.bind, readCell]
        have htail : ∀ (member : Val) (a : Except String Val) (s1 : St), TQ s.heap a s1 →
            PostQ (CSQ s.heap) ((match a with
              | Except.error m => (pure (Except.error m) : EM (Except String CellId))
              | Except.ok target =>
                getHeap.bind fun h =>
                  match setMember h target member specObj with
                  | Except.error m => pure (Except.error m)
                  | Except.ok (c, h') => (setHeap h').bind fun __r => pure (Except.ok c)) s1) := by
          intro member a s1 hq
          cases a with
          | error m => exact hq
          | ok target =>
            have hc1 : specObj < s1.heap.cells.size := Nat.lt_of_lt_of_le hc hq.2.size
            simp only [pure, EM.pure, EM.bind, getHeap, setHeap]
            tail_tac hq.1, hq.2, hc1
        cases key with
        | str kb =>
          cases hpv : s.heap.get parent with
          | nil sp' =>
            cases sp' with
            | none => exact i.weak
            | some sp2 =>
              dsimp only
              refine PostQ.bind (Q1 := TQ s.heap) ?_ (htail _)
              refine PostQ.bind (Q1 := fun pc s0 => pc = s.heap.cells.size ∧
                s0 = { s with heap := (s.heap.alloc (Val.nil (some sp2))).2 }) ⟨rfl, rfl⟩ ?_
              rintro pc s0 ⟨rfl, rfl⟩
              have i0 : Inv (s.heap.alloc (Val.nil (some sp2))).2 := inv_alloc i _
              refine PostQ.bind (ih _ _ i0) ?_
              intro r s2 hq
              cases r with
              | error m => exact hq
              | ok newParent =>
                obtain ⟨i2, t2⟩ := hq (Val.obj (s2.heap.allocObj []).1) (plain_obj _)
                show Inv (((s2.heap.set newParent (Val.obj (s2.heap.allocObj []).1)).allocObj []).2.set parent
                    (Val.obj (s2.heap.allocObj []).1)) ∧ Trans s.heap _
                exact ⟨inv_set (inv_allocObj i2 [] (fun _ h => by cases h)) _ (plain_obj _),
                  (trans_alloc _ _).trans (t2.trans ((trans_allocObj _ _).trans (trans_set _ _ (plain_obj _))))⟩
          | unknown =>
            dsimp only
            refine PostQ.bind (Q1 := TQ s.heap) ?_ (htail _)
            show Inv ((s.heap.allocObj []).2.set parent (Val.obj (s.heap.allocObj []).1)) ∧ Trans s.heap _
            exact ⟨inv_set (inv_allocObj i [] (fun _ h => by cases h)) _ (plain_obj _),
              (trans_allocObj _ _).trans (trans_set _ _ (plain_obj _))⟩
          | _ =>
            simp only [pure, EM.pure, EM.bind, getHeap, setHeap]
            tail_tac i, (Trans.refl _), hc
        | num kx =>
          cases hpv : s.heap.get parent with
          | nil sp' =>
            cases sp' with
            | none => exact i.weak
            | some sp2 =>
              dsimp only
              refine PostQ.bind (Q1 := TQ s.heap) ?_ (htail _)
              refine PostQ.bind (Q1 := fun pc s0 => pc = s.heap.cells.size ∧
                s0 = { s with heap := (s.heap.alloc (Val.nil (some sp2))).2 }) ⟨rfl, rfl⟩ ?_
              rintro pc s0 ⟨rfl, rfl⟩
              have i0 : Inv (s.heap.alloc (Val.nil (some sp2))).2 := inv_alloc i _
              refine PostQ.bind (ih _ _ i0) ?_
              intro r s2 hq
              cases r with
              | error m => exact hq
              | ok newParent =>
                obtain ⟨i2, t2⟩ := hq (Val.arr (s2.heap.allocArr #[]).1) (plain_arr _)
                show Inv (((s2.heap.set newParent (Val.arr (s2.heap.allocArr #[]).1)).allocArr #[]).2.set parent
                    (Val.arr (s2.heap.allocArr #[]).1)) ∧ Trans s.heap _
                exact ⟨inv_set (inv_allocArr i2 [] List.nodup_nil (fun _ h => by cases h)) _ (plain_arr _),
                  (trans_alloc _ _).trans (t2.trans ((trans_allocArr (Trans.refl _) [] (fun _ h => by cases h)).trans (trans_set _ _ (plain_arr _))))⟩
          | unknown =>
            dsimp only
            refine PostQ.bind (Q1 := TQ s.heap) ?_ (htail _)
            show Inv ((s.heap.allocArr #[]).2.set parent (Val.arr (s.heap.allocArr #[]).1)) ∧ Trans s.heap _
            exact ⟨inv_set (inv_allocArr i [] List.nodup_nil (fun _ h => by cases h)) _ (plain_arr _),
              (trans_allocArr (Trans.refl _) [] (fun _ h => by cases h)).trans (trans_set _ _ (plain_arr _))⟩
          | _ =>
            simp only [pure, EM.pure, EM.bind, getHeap, setHeap]
            tail_tac i, (Trans.refl _), hc
    | _ => exact i.weak

theorem good_evalAssignment (pos : Nat) (l r : CellId) : Good (Jqawk.evalAssignment pos l r) := by
  intro s i _
  by_cases hsp : (s.heap.get l).speculative = false
  · rw [evalAssignment_plain pos l r s hsp]
    cases hcv : copyVal (s.heap.get r) with
    | error m => exact i.weak
    | ok w => exact ⟨inv_set i l (plain_of_copyVal hcv), trans_set _ l (plain_of_copyVal hcv), trivial⟩
  · have key := createSpeculative_hole (s.heap.cells.size + 2) l s i
    unfold Jqawk.evalAssignment
    simp only [bind, EM.bind, readCell]
    revert hsp
    generalize hlv : s.heap.get l = lv
    intro hsp
    rcases lv with ⟨_, _ | _⟩ | _ | _ | _ | _ | (_ | _) | ⟨_, _, _ | _⟩ | _ | _ | _ <;>
      first
      | (exfalso; exact hsp rfl)
      | skip
    all_goals
      simp only [↓reduceIte, getHeap, EM.bind]
      generalize createSpeculative _ _ _ = res at key ⊢
      cases res with
      | oof => trivial
      | err e s1 =>
        cases e with
        | sig g => exact key.elim
        | runtime p m => exact key
        | panic m => exact key
        | unmodelled w => exact key
      | ok a s1 =>
        cases a with
        | error m => exact key
        | ok c =>
          simp only [pure, EM.pure, copyValue, bind, EM.bind, readCell]
          cases hcv : copyVal (s1.heap.get r) with
          | error m => exact Hole.weak key
          | ok w =>
            have hw := key w (plain_of_copyVal hcv)
            exact ⟨hw.1, hw.2, trivial⟩

theorem Good.evalAssignment (pos : Nat) (l r : CellId) : Good (Jqawk.evalAssignment pos l r) :=
  good_evalAssignment pos l r

end Jqawk.HeapInv
