/-
  The heap invariant at the start of every NESTED statement (C15): if a statement `Leads`
  (`Lemmas/LoopsNest.lean`: through blocks, taken `if`/`else` branches, loop rounds, bodies of `match`
  statements) to a sub-statement, and it is started in a state satisfying `HeapInv.Inv`, then the
  sub-statement is started in a state satisfying `HeapInv.Inv` too.
-/
import Jqawk.Lemmas.HeapInvEval
import Jqawk.Lemmas.LoopsNest

set_option linter.unusedVariables false
set_option linter.unusedSimpArgs false

namespace Jqawk.HeapInv
open Jqawk Jqawk.IndexWrite Jqawk.Spec

theorem Good.okInv {α : Type} {m : EM α} (g : Good m) {s s' : St} {a : α} (i : Inv s.heap)
    (h : m s = .ok a s') : Inv s'.heap ∧ Trans s.heap s'.heap := by
  have := g s i trivial
  rw [h] at this; exact ⟨this.1, this.2.1⟩

theorem Good.sigInv {α : Type} {m : EM α} (g : Good m) {s s' : St} {sg : Sig} (i : Inv s.heap)
    (h : m s = .err (.sig sg) s') : Inv s'.heap ∧ Trans s.heap s'.heap := by
  have := g s i trivial
  rw [h] at this; exact this

variable (prog : Program)

theorem goesOn_inv (n : Nat) (b : Stmt) (s1 s2 : St) (i : Inv s1.heap)
    (h : GoesOn (evalStmt prog n b s1) s2) : Inv s2.heap ∧ Trans s1.heap s2.heap := by
  rcases h with h | h
  · exact ((allGood prog n).stmt b).okInv i h
  · exact ((allGood prog n).stmt b).sigInv i h

/-- what a task needs of the heap it is started in: a for-in loop's remaining items hold plain
    values in allocated cells -/
def TaskPre : Task → Heap → Prop
  | .forInL _ _ _ items, h => ItemsOK items h
  | _, _ => True

theorem Good.loopVar (pos : Nat) (name : Bytes) : Good (Jqawk.Spec.loopVar pos name) := by
  unfold Jqawk.Spec.loopVar
  hg_auto

/-- the for-in header yields items that `forInLoop` can take -/
theorem forInHeader_ht (n : Nat) (id : Token) (idx : Option Token) (iter : Expr) :
    HT (fun _ => True) (forInHeader (evalExpr prog n) id idx iter) (fun _ hd h' => ItemsOK hd.2.2 h') := by
  intro s i _
  unfold forInHeader
  refine Post.bind' (Trans.refl _) (Good.loopVar _ _ s i trivial) (fun loc s1 i1 t1 _ => ?_)
  refine Post.bind' t1 ((?g2 : Good _) s1 i1 trivial) (fun il s2 i2 t2 _ => ?_)
  case g2 => hg_auto <;> exact Good.loopVar _ _
  refine Post.bind' (t1.trans t2) ((allGood prog n).expr iter s2 i2 trivial) (fun it s3 i3 t3 _ => ?_)
  refine Post.bind' ((t1.trans t2).trans t3) (getHeap_ht s3 i3 trivial) (fun h s4 i4 t4 h4 => ?_)
  obtain ⟨e4, rfl⟩ := h4
  have t04 := ((t1.trans t2).trans t3).trans t4
  generalize hv : s3.heap.get it = val
  cases val with
  | arr a =>
    refine ⟨i4, t04, ?_⟩
    rw [e4]
    intro x hx
    unfold arrayItems at hx
    obtain ⟨⟨c, k⟩, hck, rfl⟩ := List.mem_map.mp hx
    have hc : c ∈ (s3.heap.arr a).toList := List.mem_of_getElem? (List.mem_zipIdx_iff_getElem?.mp hck)
    exact ⟨fun iv hiv => (by cases hiv; exact plain_num _), i3.wf.arrs a c hc, i3.ep a c hc⟩
  | obj o =>
    refine ⟨i4, t04, ?_⟩
    rw [e4]
    intro x hx
    unfold objectItems at hx
    obtain ⟨⟨k, c⟩, hkc, rfl⟩ := List.mem_map.mp hx
    have hm := mem_sortByKey hkc
    exact ⟨fun iv hiv => (by cases hiv), plain_strNone _, fun mc hmc => (by
      cases hmc; exact ⟨i3.wf.objs o k c hm, i3.mp o k c hm⟩)⟩
  | str sb sp =>
    refine ⟨i4, t04, ?_⟩
    intro x hx
    unfold stringItems at hx
    obtain ⟨⟨off, r⟩, hkc, rfl⟩ := List.mem_map.mp hx
    exact ⟨fun iv hiv => (by cases hiv; exact plain_num _), plain_strNone _, fun mc hmc => (by cases hmc)⟩
  | _ => exact i4.weak

theorem bindRaw_ok {loc : CellId} {il : Option CellId} {it : RawItem} {s s1 : St} (i : Inv s.heap)
    (p : ItemOK s.heap it) (h : bindRaw loc il it s = .ok () s1) : Inv s1.heap ∧ Trans s.heap s1.heap := by
  have := bindRaw_post loc il it s i p
  rw [h] at this; exact ⟨this.1, this.2.1⟩

/-- **the invariant at the start of a nested statement** -/
theorem leads_inv {l : Bool} {n : Nat} {t : Task} {s : St} {m : Nat} {inner : Stmt} {s0 : St}
    (h : Leads prog l n t s m inner s0) : Inv s.heap → TaskPre t s.heap → Inv s0.heap := by
  induction h with
  | here => intro i _; exact i
  | block _ ih => intro i _; exact ih i trivial
  | blockHead _ ih => intro i _; exact ih i trivial
  | blockTail h1 _ ih => intro i _; exact ih (((allGood prog _).stmt _).okInv i h1).1 trivial
  | ifThen h1 _ _ ih => intro i _; exact ih (((allGood prog _).expr _).okInv i h1).1 trivial
  | ifElse h1 _ _ ih => intro i _; exact ih (((allGood prog _).expr _).okInv i h1).1 trivial
  | while_ _ ih => intro i _; exact ih i trivial
  | whileBody h1 _ _ ih => intro i _; exact ih (((allGood prog _).expr _).okInv i h1).1 trivial
  | whileNext h1 _ h2 _ ih =>
    intro i _
    exact ih (goesOn_inv prog _ _ _ _ (((allGood prog _).expr _).okInv i h1).1 h2).1 trivial
  | for_ h1 _ ih => intro i _; exact ih (((allGood prog _).expr _).okInv i h1).1 trivial
  | forBody h1 _ _ ih => intro i _; exact ih (((allGood prog _).expr _).okInv i h1).1 trivial
  | forNext h1 _ h2 h3 _ ih =>
    intro i _
    have i2 := (goesOn_inv prog _ _ _ _ (((allGood prog _).expr _).okInv i h1).1 h2).1
    exact ih (((allGood prog _).expr _).okInv i2 h3).1 trivial
  | @forIn l n id idx iter b s hd s1 m inner s0 h1 _ ih =>
    intro i _
    have := forInHeader_ht prog n id idx iter s i trivial
    rw [h1] at this
    exact ih this.1 this.2.2
  | forInBody h1 _ ih =>
    intro i p
    exact ih (bindRaw_ok i (p _ List.mem_cons_self) h1).1 trivial
  | forInNext h1 h2 _ ih =>
    intro i p
    have b1 := bindRaw_ok i (p _ List.mem_cons_self) h1
    have b2 := goesOn_inv prog _ _ _ _ b1.1 h2
    exact ih b2.1 (ItemsOK.trans (b1.2.trans b2.2) (fun x hx => p x (List.mem_cons_of_mem _ hx)))
  | matchStmt h1 _ ih => intro i _; exact ih (((allGood prog _).expr _).okInv i h1).1 trivial
  | caseSkip h1 _ ih => intro i _; exact ih (((allGood prog _).caseMatch _ _).okInv i h1).1 trivial
  | @caseBody l n pos value pats body rest s bindings s1 s2 s3 m inner s0 h1 h2 h3 _ _ ih =>
    intro i _
    have i1 := (((allGood prog _).caseMatch _ _).okInv i h1).1
    have e2 : ∀ {s1 s2 : St}, pushFrame b!"<match>" s1 = .ok (.ok ()) s2 → s2.heap = s1.heap := by
      intro s1 s2 h
      unfold pushFrame at h
      split at h
      · cases h
      · cases h; rfl
    have i2 : Inv s2.heap := by rw [e2 h2]; exact i1
    exact ih ((Good.bindAll _).okInv i2 h3).1 trivial

end Jqawk.HeapInv
