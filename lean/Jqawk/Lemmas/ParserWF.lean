/-
  The parser only produces well-formed ASTs (`Model/WF.lean`): literal nodes carry literal
  tokens, assignment / `++` / `--` targets are assignable, `is` has a type name on the right and
  `.` a field name.  Same structure as `Lemmas/ParserScope.lean`.
-/
import Jqawk.Lemmas.PMAll
import Jqawk.Model.WF

namespace Jqawk
open Parser

/-! ### `wf*` on lists -/

theorem wfEs_eq_all (l : List Expr) : wfEs l = l.all Expr.wfB := by
  induction l with
  | nil => simp [wfEs]
  | cons e es ih => simp [wfEs, ih]

theorem wfSs_eq_all (l : List Stmt) : wfSs l = l.all Stmt.wfB := by
  induction l with
  | nil => simp [wfSs]
  | cons e es ih => simp [wfSs, ih]

theorem wfKVs_eq_all (l : List (Bytes × Expr)) : wfKVs l = l.all (fun kv => kv.2.wfB) := by
  induction l with
  | nil => simp [wfKVs]
  | cons e es ih => obtain ⟨k, v⟩ := e; simp [wfKVs, ih]

theorem wfCases_eq_all (l : List MatchCase) :
    wfCases l = l.all (fun c => wfEs c.1 && c.2.wfB) := by
  induction l with
  | nil => simp [wfCases]
  | cons e es ih => obtain ⟨p, b⟩ := e; simp [wfCases, ih]

@[simp] theorem wfEs_reverse (l : List Expr) : wfEs l.reverse = wfEs l := by
  simp [wfEs_eq_all]
@[simp] theorem wfSs_reverse (l : List Stmt) : wfSs l.reverse = wfSs l := by
  simp [wfSs_eq_all]
@[simp] theorem wfKVs_reverse (l : List (Bytes × Expr)) : wfKVs l.reverse = wfKVs l := by
  simp [wfKVs_eq_all]
@[simp] theorem wfCases_reverse (l : List MatchCase) : wfCases l.reverse = wfCases l := by
  simp [wfCases_eq_all]

/-! ### `wfB` says that every node passes `nodeOK` -/

mutual
theorem Expr.nodeOK_of_wfB : ∀ (e : Expr), e.wfB = true → ∀ x ∈ e.subs, x.nodeOK = true
  | .lit t, h, x, hx => by
    simp only [Expr.subs, List.mem_singleton] at hx; subst hx; simpa [Expr.wfB] using h
  | .ident t, _, x, hx => by
    simp only [Expr.subs, List.mem_singleton] at hx; subst hx; rfl
  | .arr t items, h, x, hx => by
    simp only [Expr.subs, List.mem_cons] at hx
    simp only [Expr.wfB] at h
    rcases hx with rfl | hx
    · rfl
    · exact nodeOK_of_wfEs items h x hx
  | .obj t items, h, x, hx => by
    simp only [Expr.subs, List.mem_cons] at hx
    simp only [Expr.wfB] at h
    rcases hx with rfl | hx
    · rfl
    · exact nodeOK_of_wfKVs items h x hx
  | .unary e op p, h, x, hx => by
    simp only [Expr.subs, List.mem_cons] at hx
    simp only [Expr.wfB, Bool.and_eq_true] at h
    rcases hx with rfl | hx
    · exact h.1
    · exact Expr.nodeOK_of_wfB e h.2 x hx
  | .binary l r op, h, x, hx => by
    simp only [Expr.subs, List.mem_cons, List.mem_append] at hx
    simp only [Expr.wfB, Bool.and_eq_true] at h
    rcases hx with rfl | hx | hx
    · exact h.1.1
    · exact Expr.nodeOK_of_wfB l h.1.2 x hx
    · exact Expr.nodeOK_of_wfB r h.2 x hx
  | .call f args, h, x, hx => by
    simp only [Expr.subs, List.mem_cons, List.mem_append] at hx
    simp only [Expr.wfB, Bool.and_eq_true] at h
    rcases hx with rfl | hx | hx
    · rfl
    · exact Expr.nodeOK_of_wfB f h.1 x hx
    · exact nodeOK_of_wfEs args h.2 x hx
  | .match_ t v cases, h, x, hx => by
    simp only [Expr.subs, List.mem_cons, List.mem_append] at hx
    simp only [Expr.wfB, Bool.and_eq_true] at h
    rcases hx with rfl | hx | hx
    · rfl
    · exact Expr.nodeOK_of_wfB v h.1 x hx
    · exact nodeOK_of_wfCases cases h.2 x hx
theorem nodeOK_of_wfEs : ∀ (l : List Expr), wfEs l = true → ∀ x ∈ subsEs l, x.nodeOK = true
  | [], _, x, hx => by simp [subsEs] at hx
  | e :: es, h, x, hx => by
    simp only [subsEs, List.mem_append] at hx
    simp only [wfEs, Bool.and_eq_true] at h
    rcases hx with hx | hx
    · exact Expr.nodeOK_of_wfB e h.1 x hx
    · exact nodeOK_of_wfEs es h.2 x hx
theorem nodeOK_of_wfKVs : ∀ (l : List (Bytes × Expr)), wfKVs l = true →
    ∀ x ∈ subsKVs l, x.nodeOK = true
  | [], _, x, hx => by simp [subsKVs] at hx
  | (_, e) :: es, h, x, hx => by
    simp only [subsKVs, List.mem_append] at hx
    simp only [wfKVs, Bool.and_eq_true] at h
    rcases hx with hx | hx
    · exact Expr.nodeOK_of_wfB e h.1 x hx
    · exact nodeOK_of_wfKVs es h.2 x hx
theorem nodeOK_of_wfCases : ∀ (l : List MatchCase), wfCases l = true →
    ∀ x ∈ subsCases l, x.nodeOK = true
  | [], _, x, hx => by simp [subsCases] at hx
  | (.mk pats body) :: cs, h, x, hx => by
    simp only [subsCases, List.mem_append] at hx
    simp only [wfCases, Bool.and_eq_true] at h
    rcases hx with (hx | hx) | hx
    · exact nodeOK_of_wfEs pats h.1.1 x hx
    · exact Stmt.nodeOK_of_wfB body h.1.2 x hx
    · exact nodeOK_of_wfCases cs h.2 x hx
theorem Stmt.nodeOK_of_wfB : ∀ (s : Stmt), s.wfB = true → ∀ x ∈ s.subs, x.nodeOK = true
  | .block _ body, h, x, hx => by
    simp only [Stmt.subs] at hx; simp only [Stmt.wfB] at h
    exact nodeOK_of_wfSs body h x hx
  | .print _ args, h, x, hx => by
    simp only [Stmt.subs] at hx; simp only [Stmt.wfB] at h
    exact nodeOK_of_wfEs args h x hx
  | .expr e, h, x, hx => by
    simp only [Stmt.subs] at hx; simp only [Stmt.wfB] at h
    exact Expr.nodeOK_of_wfB e h x hx
  | .ret none, _, x, hx => by simp [Stmt.subs] at hx
  | .ret (some e), h, x, hx => by
    simp only [Stmt.subs] at hx; simp only [Stmt.wfB] at h
    exact Expr.nodeOK_of_wfB e h x hx
  | .brk _, _, x, hx => by simp [Stmt.subs] at hx
  | .cont _, _, x, hx => by simp [Stmt.subs] at hx
  | .next _, _, x, hx => by simp [Stmt.subs] at hx
  | .exit _, _, x, hx => by simp [Stmt.subs] at hx
  | .if_ c b none, h, x, hx => by
    simp only [Stmt.subs, List.mem_append] at hx
    simp only [Stmt.wfB, Bool.and_eq_true] at h
    rcases hx with hx | hx
    · exact Expr.nodeOK_of_wfB c h.1 x hx
    · exact Stmt.nodeOK_of_wfB b h.2 x hx
  | .if_ c b (some e), h, x, hx => by
    simp only [Stmt.subs, List.mem_append] at hx
    simp only [Stmt.wfB, Bool.and_eq_true] at h
    rcases hx with (hx | hx) | hx
    · exact Expr.nodeOK_of_wfB c h.1.1 x hx
    · exact Stmt.nodeOK_of_wfB b h.1.2 x hx
    · exact Stmt.nodeOK_of_wfB e h.2 x hx
  | .while_ c b, h, x, hx => by
    simp only [Stmt.subs, List.mem_append] at hx
    simp only [Stmt.wfB, Bool.and_eq_true] at h
    rcases hx with hx | hx
    · exact Expr.nodeOK_of_wfB c h.1 x hx
    · exact Stmt.nodeOK_of_wfB b h.2 x hx
  | .for_ pre c post b, h, x, hx => by
    simp only [Stmt.subs, List.mem_append] at hx
    simp only [Stmt.wfB, Bool.and_eq_true] at h
    rcases hx with ((hx | hx) | hx) | hx
    · exact Expr.nodeOK_of_wfB pre h.1.1.1 x hx
    · exact Expr.nodeOK_of_wfB c h.1.1.2 x hx
    · exact Expr.nodeOK_of_wfB post h.1.2 x hx
    · exact Stmt.nodeOK_of_wfB b h.2 x hx
  | .forIn _ _ iter b, h, x, hx => by
    simp only [Stmt.subs, List.mem_append] at hx
    simp only [Stmt.wfB, Bool.and_eq_true] at h
    rcases hx with hx | hx
    · exact Expr.nodeOK_of_wfB iter h.1 x hx
    · exact Stmt.nodeOK_of_wfB b h.2 x hx
theorem nodeOK_of_wfSs : ∀ (l : List Stmt), wfSs l = true → ∀ x ∈ subsSs l, x.nodeOK = true
  | [], _, x, hx => by simp [subsSs] at hx
  | s :: ss, h, x, hx => by
    simp only [subsSs, List.mem_append] at hx
    simp only [wfSs, Bool.and_eq_true] at h
    rcases hx with hx | hx
    · exact Stmt.nodeOK_of_wfB s h.1 x hx
    · exact nodeOK_of_wfSs ss h.2 x hx
end

/-- every expression node of a well-formed program passes the node check -/
theorem Program.nodeOK_of_wfB (p : Program) (h : p.wfB = true) :
    ∀ x ∈ p.subExprs, x.nodeOK = true := by
  intro x hx
  simp only [Program.wfB, Bool.and_eq_true, List.all_eq_true] at h
  simp only [Program.subExprs, List.mem_append, List.mem_flatMap] at hx
  rcases hx with ⟨r, hr, hx⟩ | ⟨f, hf, hx⟩
  · have hw := h.1 r hr
    simp only [Rule.wfB, Bool.and_eq_true] at hw
    simp only [Rule.subs, List.mem_append] at hx
    rcases hx with hx | hx
    · exact Stmt.nodeOK_of_wfB _ hw.1 x hx
    · cases hp : r.pattern with
      | none => rw [hp] at hx; simp at hx
      | some e => rw [hp] at hx hw; exact Expr.nodeOK_of_wfB e hw.2 x hx
  · exact Stmt.nodeOK_of_wfB _ (h.2 f hf) x hx

/-! ### what the invariant needs from the rule table -/

structure TblOK (tbl : RuleTable) : Prop where
  /-- only literal tokens have the `literal` prefix rule -/
  literal : ∀ t, (lookupRule tbl t).pre = some .literal → litTag t = true
  /-- `is` and `.` are not parsed by `assign` -/
  assign : ∀ t, (lookupRule tbl t).inf = some .assign → t ≠ .is ∧ t ≠ .dot
  /-- `=`, `is`, `.` and the compound assignments are not parsed by `binary` -/
  binary : ∀ t, (lookupRule tbl t).inf = some .binary →
    t ≠ .equal ∧ t ≠ .is ∧ t ≠ .dot ∧ isCompound t = false

theorem expectedRuleTable_ok : TblOK expectedRuleTable := by
  constructor <;> intro t <;> cases t <;> decide

@[simp] theorem isCompound_lsquare : isCompound .lsquare = false := by decide
@[simp] theorem isCompound_dot : isCompound .dot = false := by decide
@[simp] theorem isCompound_is : isCompound .is = false := by decide

/-- the real lexer's `regex` answers -/
def RegexTok (t : Token) : Prop := t.tag = .regex

theorem rewriteCompound_wf (l e : Expr) (op : Token) (hl : l.wfB = true) (he : e.wfB = true)
    (ha : assignable l = true) : (rewriteCompound l e op).wfB = true := by
  simp only [rewriteCompound, Expr.wfB, Expr.nodeOK, hl, he, ha, Expr.isIdent, Expr.isIdentLit, isCompound]
  split <;> simp

/-! ### the invariant -/

structure AllWF (tbl : RuleTable) (n : Nat) : Prop where
  statement : ∀ ps, PM.AllR RegexTok (fun r => r.1.wfB = true) (statement tbl n ps)
  loopBody : ∀ ps, PM.AllR RegexTok (fun r => r.1.wfB = true) (loopBody tbl n ps)
  block : ∀ ps, PM.AllR RegexTok (fun r => r.1.wfB = true) (block tbl n ps)
  blockLoop : ∀ acc ps, wfSs acc = true →
    PM.AllR RegexTok (fun r => wfSs r.1 = true) (blockLoop tbl n acc ps)
  printStatement : ∀ ps, PM.AllR RegexTok (fun r => r.1.wfB = true) (printStatement tbl n ps)
  printLoop : ∀ acc ps, wfEs acc = true →
    PM.AllR RegexTok (fun r => wfEs r.1.1 = true) (printLoop tbl n acc ps)
  expressionWithPrec : ∀ prec ps,
    PM.AllR RegexTok (fun r => r.1.wfB = true) (expressionWithPrec tbl n prec ps)
  infixLoop : ∀ prec lhs ps, lhs.wfB = true →
    PM.AllR RegexTok (fun r => r.1.wfB = true) (infixLoop tbl n prec lhs ps)
  prefixFn : ∀ pk ps, (lookupRule tbl ps.cur.tag).pre = some pk →
    PM.AllR RegexTok (fun r => r.1.wfB = true) (prefixFn tbl n pk ps)
  exprList : ∀ endTag acc ps, wfEs acc = true →
    PM.AllR RegexTok (fun r => wfEs r.1 = true) (exprList tbl n endTag acc ps)
  objectLoop : ∀ acc ps, wfKVs acc = true →
    PM.AllR RegexTok (fun r => wfKVs r.1 = true) (objectLoop tbl n acc ps)
  matchCases : ∀ acc ps, wfCases acc = true →
    PM.AllR RegexTok (fun r => wfCases r.1 = true) (matchCases tbl n acc ps)
  matchPats : ∀ acc ps, wfEs acc = true →
    PM.AllR RegexTok (fun r => wfEs r.1 = true) (matchPats tbl n acc ps)
  infixFn : ∀ ik lhs ps, (lookupRule tbl ps.cur.tag).inf = some ik → lhs.wfB = true →
    PM.AllR RegexTok (fun r => r.1.wfB = true) (infixFn tbl n ik lhs ps)

section tactics
set_option hygiene false

macro "wf_ih" : tactic => `(tactic| (first
  | with_reducible refine PM.AllR.mono (ih.statement _) (fun r hx => ?_)
  | with_reducible refine PM.AllR.mono (ih.loopBody _) (fun r hx => ?_)
  | with_reducible refine PM.AllR.mono (ih.block _) (fun r hx => ?_)
  | with_reducible refine PM.AllR.mono (ih.printStatement _) (fun r hx => ?_)
  | with_reducible refine PM.AllR.mono (ih.expressionWithPrec _ _) (fun r hx => ?_)
  | with_reducible refine PM.AllR.mono (ih.prefixFn _ _ ?_) (fun r hx => ?_)
  | with_reducible refine PM.AllR.mono (ih.blockLoop _ _ ?_) (fun r hx => ?_)
  | with_reducible refine PM.AllR.mono (ih.printLoop _ _ ?_) (fun r hx => ?_)
  | with_reducible refine PM.AllR.mono (ih.infixLoop _ _ _ ?_) (fun r hx => ?_)
  | with_reducible refine PM.AllR.mono (ih.exprList _ _ _ ?_) (fun r hx => ?_)
  | with_reducible refine PM.AllR.mono (ih.objectLoop _ _ ?_) (fun r hx => ?_)
  | with_reducible refine PM.AllR.mono (ih.matchCases _ _ ?_) (fun r hx => ?_)
  | with_reducible refine PM.AllR.mono (ih.matchPats _ _ ?_) (fun r hx => ?_)
  | with_reducible refine PM.AllR.mono (ih.infixFn _ _ _ ?_ ?_) (fun r hx => ?_)))

macro "wf_run" : tactic => `(tactic| repeat' (first
  | pall_step
  | (wf_ih <;> try (obtain ⟨x, ps'⟩ := r; dsimp only at hx ⊢))))

macro "wf_close" : tactic => `(tactic| (
  subst_vars
  simp_all [-List.reverse_cons, RegexTok, Expr.wfB, Stmt.wfB, wfEs, wfSs, wfKVs, wfCases, litTag,
    Expr.nodeOK, Expr.isIdent, Expr.isIdentLit, rewriteCompound_wf]))

end tactics

variable {tbl : RuleTable} {n : Nat}

theorem wf_loopBody_step (ih : AllWF tbl n) (ps : PS) :
    PM.AllR RegexTok (fun r => r.1.wfB = true) (loopBody tbl (n + 1) ps) := by
  unfold loopBody
  wf_run
  all_goals wf_close

theorem wf_block_step (ih : AllWF tbl n) (ps : PS) :
    PM.AllR RegexTok (fun r => r.1.wfB = true) (block tbl (n + 1) ps) := by
  unfold block
  wf_run
  all_goals wf_close

theorem wf_blockLoop_step (ih : AllWF tbl n) (acc : List Stmt) (ps : PS) (hacc : wfSs acc = true) :
    PM.AllR RegexTok (fun r => wfSs r.1 = true) (blockLoop tbl (n + 1) acc ps) := by
  unfold blockLoop
  wf_run
  all_goals wf_close

theorem wf_printStatement_step (ih : AllWF tbl n) (ps : PS) :
    PM.AllR RegexTok (fun r => r.1.wfB = true) (printStatement tbl (n + 1) ps) := by
  unfold printStatement
  wf_run
  all_goals wf_close

theorem wf_printLoop_step (ih : AllWF tbl n) (acc : List Expr) (ps : PS) (hacc : wfEs acc = true) :
    PM.AllR RegexTok (fun r => wfEs r.1.1 = true) (printLoop tbl (n + 1) acc ps) := by
  unfold printLoop
  wf_run
  all_goals wf_close

theorem wf_exprList_step (ih : AllWF tbl n) (endTag : Tag) (acc : List Expr) (ps : PS)
    (hacc : wfEs acc = true) :
    PM.AllR RegexTok (fun r => wfEs r.1 = true) (exprList tbl (n + 1) endTag acc ps) := by
  unfold exprList
  wf_run
  all_goals wf_close

theorem wf_objectLoop_step (ih : AllWF tbl n) (acc : List (Bytes × Expr)) (ps : PS)
    (hacc : wfKVs acc = true) :
    PM.AllR RegexTok (fun r => wfKVs r.1 = true) (objectLoop tbl (n + 1) acc ps) := by
  unfold objectLoop
  wf_run
  all_goals wf_close

theorem wf_matchCases_step (ih : AllWF tbl n) (acc : List MatchCase) (ps : PS)
    (hacc : wfCases acc = true) :
    PM.AllR RegexTok (fun r => wfCases r.1 = true) (matchCases tbl (n + 1) acc ps) := by
  unfold matchCases
  wf_run
  all_goals wf_close

theorem wf_matchPats_step (ih : AllWF tbl n) (acc : List Expr) (ps : PS) (hacc : wfEs acc = true) :
    PM.AllR RegexTok (fun r => wfEs r.1 = true) (matchPats tbl (n + 1) acc ps) := by
  unfold matchPats
  wf_run
  all_goals wf_close

theorem wf_prefixFn_step (htbl : TblOK tbl) (ih : AllWF tbl n) (pk : PrefixKind) (ps : PS)
    (hpk : (lookupRule tbl ps.cur.tag).pre = some pk) :
    PM.AllR RegexTok (fun r => r.1.wfB = true) (prefixFn tbl (n + 1) pk ps) := by
  have hlit := htbl.literal ps.cur.tag
  unfold prefixFn
  wf_run
  all_goals try wf_close
  rename_i h
  by_cases h1 : ps.cur.tag = Tag.plusPlus
  · exact Or.inr (h (Or.inl h1))
  · by_cases h2 : ps.cur.tag = Tag.minusMinus
    · exact Or.inr (h (Or.inr h2))
    · exact Or.inl ⟨h1, h2⟩

theorem wf_infixFn_step (htbl : TblOK tbl) (ih : AllWF tbl n) (ik : InfixKind) (lhs : Expr) (ps : PS)
    (hik : (lookupRule tbl ps.cur.tag).inf = some ik) (hacc : lhs.wfB = true) :
    PM.AllR RegexTok (fun r => r.1.wfB = true) (infixFn tbl (n + 1) ik lhs ps) := by
  have hass := htbl.assign ps.cur.tag
  have hbin := htbl.binary ps.cur.tag
  unfold infixFn
  wf_run
  all_goals wf_close

theorem wf_expressionWithPrec_step (ih : AllWF tbl n) (prec : Nat) (ps : PS) :
    PM.AllR RegexTok (fun r => r.1.wfB = true) (expressionWithPrec tbl (n + 1) prec ps) := by
  unfold expressionWithPrec
  pall_step
  pall_step
  generalize hpre : (lookupRule tbl s.cur.tag).pre = pre
  wf_run
  all_goals wf_close

theorem wf_infixLoop_step (ih : AllWF tbl n) (prec : Nat) (lhs : Expr) (ps : PS)
    (hacc : lhs.wfB = true) :
    PM.AllR RegexTok (fun r => r.1.wfB = true) (infixLoop tbl (n + 1) prec lhs ps) := by
  unfold infixLoop
  pall_step
  pall_step
  generalize hr : (lookupRule tbl s.cur.tag) = r
  split
  · generalize hinf : r.inf = inf
    wf_run
    all_goals wf_close
  · wf_run
    all_goals wf_close

theorem wf_statement_step (ih : AllWF tbl n) (ps : PS) :
    PM.AllR RegexTok (fun r => r.1.wfB = true) (statement tbl (n + 1) ps) := by
  unfold statement
  pall_step
  pall_step
  pall_step
  pall_step
  generalize s.cur.tag = tg0
  wf_run
  all_goals try (
    show PM.AllR _ _ _
    try generalize (ps'.cur.tag == Tag.in_ || ps'.cur.tag == Tag.comma) = fl
    cases x <;> (try cases fl) <;> dsimp only <;> wf_run)
  all_goals wf_close

/-- the well-formedness invariant holds for every function of the mutual block, at every fuel -/
theorem allWF (htbl : TblOK tbl) : ∀ n, AllWF tbl n := by
  intro n
  induction n with
  | zero =>
    constructor
    all_goals intros
    · unfold statement; exact PAll.oof_triv _ _
    · unfold loopBody; exact PAll.oof_triv _ _
    · unfold block; exact PAll.oof_triv _ _
    · unfold blockLoop; exact PAll.oof_triv _ _
    · unfold printStatement; exact PAll.oof_triv _ _
    · unfold printLoop; exact PAll.oof_triv _ _
    · unfold expressionWithPrec; exact PAll.oof_triv _ _
    · unfold infixLoop; exact PAll.oof_triv _ _
    · unfold prefixFn; exact PAll.oof_triv _ _
    · unfold exprList; exact PAll.oof_triv _ _
    · unfold objectLoop; exact PAll.oof_triv _ _
    · unfold matchCases; exact PAll.oof_triv _ _
    · unfold matchPats; exact PAll.oof_triv _ _
    · unfold infixFn; exact PAll.oof_triv _ _
  | succ n ih =>
    exact {
      statement := wf_statement_step ih
      loopBody := wf_loopBody_step ih
      block := wf_block_step ih
      blockLoop := wf_blockLoop_step ih
      printStatement := wf_printStatement_step ih
      printLoop := wf_printLoop_step ih
      expressionWithPrec := wf_expressionWithPrec_step ih
      infixLoop := wf_infixLoop_step ih
      prefixFn := wf_prefixFn_step htbl ih
      exprList := wf_exprList_step ih
      objectLoop := wf_objectLoop_step ih
      matchCases := wf_matchCases_step ih
      matchPats := wf_matchPats_step ih
      infixFn := wf_infixFn_step htbl ih }

/-! ### the top level -/

theorem parseRule_wf (ih : AllWF tbl n) (ps : PS) :
    PM.AllR RegexTok (fun r => r.1.wfB = true) (parseRule tbl n ps) := by
  unfold parseRule
  wf_run
  all_goals (subst_vars; simp_all [Rule.wfB, Stmt.wfB, wfEs])

theorem funcArgs_triv : ∀ (n : Nat) (acc : List Bytes) (ps : PS),
    PM.AllR RegexTok (fun _ => True) (funcArgs n acc ps) := by
  intro n
  induction n with
  | zero => intro acc ps; unfold funcArgs; exact PAll.oof_triv _ _
  | succ n ihn =>
    intro acc ps
    unfold funcArgs
    wf_run
    all_goals first
      | exact ihn _ _
      | trivial

theorem parseFunction_wf (ih : AllWF tbl n) (ps : PS) :
    PM.AllR RegexTok (fun r => r.1.body.wfB = true) (parseFunction tbl n ps) := by
  unfold parseFunction
  wf_run
  refine PM.AllR.mono (funcArgs_triv _ _ _) (fun r _ => ?_)
  obtain ⟨x, ps'⟩ := r
  dsimp only
  wf_run
  wf_close

theorem wfB_mk (rules : List Rule) (fns : List FuncDef) :
    Program.wfB ⟨rules, fns⟩ = (rules.all Rule.wfB && fns.all (fun f => f.body.wfB)) := rfl

theorem parseTop_wf (htbl : TblOK tbl) : ∀ (n : Nat) (rules : List Rule)
    (fns : List FuncDef) (ps : PS),
    rules.all Rule.wfB = true → fns.all (fun f => f.body.wfB) = true →
    PM.AllR RegexTok (fun r => r.1.wfB = true) (parseTop tbl n rules fns ps) := by
  intro n
  induction n with
  | zero => intros; unfold parseTop; exact PAll.oof_triv _ _
  | succ n ihn =>
    intro rules fns ps hrules hfns
    have ih := allWF htbl n
    unfold parseTop
    wf_run
    · simp [wfB_mk, List.all_reverse, hrules, hfns]
    · refine PM.AllR.mono (parseFunction_wf ih _) (fun r hx => ?_)
      obtain ⟨f, ps'⟩ := r
      dsimp only at hx ⊢
      wf_run
      refine ihn _ _ _ hrules ?_
      simp_all
    · refine PM.AllR.mono (parseRule_wf ih _) (fun r hx => ?_)
      obtain ⟨rule, ps'⟩ := r
      dsimp only at hx ⊢
      wf_run
      refine ihn _ _ _ ?_ hfns
      simp_all

theorem parseProgram_wf (htbl : TblOK tbl) (n : Nat) :
    PM.AllR RegexTok (fun r => r.1.wfB = true) (parseProgram tbl n PS.init) := by
  unfold parseProgram
  wf_run
  exact parseTop_wf htbl n _ _ _ rfl rfl

theorem parseExpression_wf (htbl : TblOK tbl) (n : Nat) :
    PM.AllR RegexTok (fun r => r.1.wfB = true) (parseExpression tbl n PS.init) := by
  have ih := allWF htbl n
  unfold parseExpression
  wf_run
  simp_all

/-- every program that parses (with a rule table satisfying `TblOK`) is well-formed -/
theorem parseProgramSrc_wf (htbl : TblOK tbl) (src : Bytes) (prog : Program)
    (h : parseProgramSrc tbl src = .ok prog) : prog.wfB = true := by
  unfold parseProgramSrc at h
  split at h
  · rename_i p ps' hrun
    cases h
    exact PM.run_allR (parseProgram_wf htbl _) hrun
  · cases h
  · cases h

theorem parseExpressionSrc_wf (htbl : TblOK tbl) (src : Bytes) (e : Expr)
    (h : parseExpressionSrc tbl src = .ok e) : e.wfB = true := by
  unfold parseExpressionSrc at h
  split at h
  · rename_i p ps' hrun
    cases h
    exact PM.run_allR (parseExpression_wf htbl _) hrun
  · cases h
  · cases h

/-! ### the target checks themselves, one step of `infixFn` / `prefixFn` -/

/-- an assignment (plain or compound) whose left side is not assignable is a syntax error at the
    left side's token, before anything else is consumed -/
theorem infixFn_assign_invalid (tbl : RuleTable) (n : Nat) (left : Expr) (ps : PS)
    (h : assignable left = false) :
    infixFn tbl (n + 1) .assign left ps = .fail ⟨left.token.pos, "invalid assignment"⟩ := by
  unfold infixFn
  simp only [h]
  rfl

/-- postfix `++` / `--` on a non-assignable operand is a syntax error at the operand, before
    the operator is consumed -/
theorem infixFn_postfix_invalid (tbl : RuleTable) (n : Nat) (left : Expr) (ps : PS)
    (h : assignable left = false) :
    infixFn tbl (n + 1) .postfixOp left ps =
      .fail ⟨left.token.pos, "invalid increment target"⟩ := by
  unfold infixFn
  simp only [h]
  rfl

/-- B: `parse_wf` for the rule table of src/parser.go -/
theorem parse_wf (src : Bytes) (prog : Program)
    (h : parseProgramSrc expectedRuleTable src = .ok prog) : prog.wfB = true :=
  parseProgramSrc_wf expectedRuleTable_ok src prog h

theorem parseExpr_wf (src : Bytes) (e : Expr)
    (h : parseExpressionSrc expectedRuleTable src = .ok e) : e.wfB = true :=
  parseExpressionSrc_wf expectedRuleTable_ok src e h

end Jqawk
