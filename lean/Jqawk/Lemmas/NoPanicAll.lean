/-
  Panic freedom (C01), part 4: the mutual induction over all evaluator functions.

  For a well-formed program (`Program.wfB`, what the parser guarantees: `parse_wf`) whose
  functions are all known to the region (`P.F ≤ prog.functions.length`), no evaluator function —
  at any fuel, from any state satisfying the invariant, on well-formed syntax and arguments inside
  the region — ends in `Err.panic`; the invariant holds again afterwards and every cell handed
  out lies in the region.
-/
import Jqawk.Lemmas.NoPanicEval

set_option linter.unusedVariables false

namespace Jqawk

variable {P : Region}

/-- an item of a `for … in` iteration -/
def ItemOK (P : Region) (it : Option Val × (CellId ⊕ (Val × Option CellId))) : Prop :=
  (∀ iv, it.1 = some iv → GoodV P iv) ∧
  (match it.2 with
   | .inl c => P.N ≤ c
   | .inr (v, mc) => GoodV P v ∧ OptReg P mc)

structure AllNP (P : Region) (prog : Program) (n : Nat) : Prop where
  expr : ∀ e, e.wfB = true → NP P (KSet P) (evalExpr prog n e) (InR P)
  objItems : ∀ pos items acc, wfKVs items = true → RegM P acc →
    NP P (KSet P) (evalObjItems prog n pos items acc) (RegM P)
  exprList : ∀ es c, wfEs es = true → NP P (KSet P) (evalExprList prog n es c) (RegL P)
  matchCases : ∀ pos v cs, wfCases cs = true → P.N ≤ v →
    NP P (KSet P) (evalMatchCases prog n pos v cs) (InR P)
  caseMatch : ∀ v ps, wfEs ps = true → P.N ≤ v → NP P (KSet P) (evalCaseMatch prog n v ps) (OptRegM P)
  arrayCaseMatch : ∀ v ps, wfEs ps = true → P.N ≤ v →
    NP P (KSet P) (evalArrayCaseMatch prog n v ps) (OptRegM P)
  matchElems : ∀ cs ps acc, wfEs ps = true → RegL P cs → RegM P acc →
    NP P (KSet P) (Jqawk.matchElems prog n cs ps acc) (OptRegM P)
  call : ∀ pos f args, P.N ≤ f → RegL P args → NP P (KSet P) (callFunction prog n pos f args) (InR P)
  unary : ∀ e op p, e.wfB = true → NP P (KSet P) (evalUnary prog n e op p) (InR P)
  binary : ∀ l r op, l.wfB = true → r.wfB = true → NP P (KSet P) (evalBinary prog n l r op) (InR P)
  stmt : ∀ st, st.wfB = true → NP P (KSet P) (evalStmt prog n st) Tr
  block : ∀ sts, wfSs sts = true → NP P (KSet P) (evalBlock prog n sts) Tr
  whileL : ∀ c b, c.wfB = true → b.wfB = true → NP P (KSet P) (whileLoop prog n c b) Tr
  forL : ∀ c p b, c.wfB = true → p.wfB = true → b.wfB = true → NP P (KSet P) (forLoop prog n c p b) Tr
  forInL : ∀ l il b items, b.wfB = true → (∀ it ∈ items, ItemOK P it) →
    NP P (KSet P) (forInLoop prog n l il b items) Tr

/-- `$` is bound while rule code runs, so `getIdentifier` hands out a region cell -/
theorem NP.getIdentifier (prog : Program) (t : Token) :
    NP P (KSet P) (Jqawk.getIdentifier prog t) (InR P) := by
  unfold Jqawk.getIdentifier
  split
  · refine NP.bind NP.getSt (fun s hs => ?_)
    split
    · rename_i c hc
      obtain ⟨c', h1, h2⟩ := hs.rr
      rw [hc] at h1; cases h1
      exact NP.pure h2
    · exact NP.throwRt _ _
  · refine NP.bind (NP.getVariable _) (fun r hr => ?_)
    split
    · exact NP.pure hr
    · exact NP.throwRt _ _

theorem binaryOp_good {op : Tag} {l r v : Val} (h : binaryOp op l r = .val v) : GoodV P v := by
  unfold binaryOp at h
  split at h
  · split at h
    · cases h; trivial
    · split at h
      · cases h
      · cases h; trivial
  · split at h
    · split at h
      · cases h; trivial
      · dsimp only at h
        split at h
        · cases h; trivial
        · cases h; trivial
        · cases h; trivial
        · split at h
          · cases h
          · cases h; trivial
        · split at h
          · cases h
          · cases h; trivial
    · dsimp only at h
      split at h
      · cases h
      · split at h
        · cases h
        · cases h
        · cases h; trivial

macro_rules | `(tactic| np_side) => `(tactic| exact binaryOp_good (by assumption))

/-- try every induction hypothesis -/
macro "np_ih" ih:term : tactic => `(tactic| first
  | exact ($ih).expr _ (by assumption)
  | exact ($ih).objItems _ _ _ (by assumption) (by np_side)
  | exact ($ih).exprList _ _ (by assumption)
  | exact ($ih).matchCases _ _ _ (by assumption) (by np_side)
  | exact ($ih).caseMatch _ _ (by assumption) (by np_side)
  | exact ($ih).arrayCaseMatch _ _ (by assumption) (by np_side)
  | exact ($ih).matchElems _ _ _ (by assumption) (by np_side) (by np_side)
  | exact ($ih).call _ _ _ (by np_side) (by np_side)
  | exact ($ih).unary _ _ _ (by assumption)
  | exact ($ih).binary _ _ _ (by assumption) (by assumption)
  | exact ($ih).stmt _ (by assumption)
  | exact ($ih).block _ (by assumption)
  | exact ($ih).whileL _ _ (by assumption) (by assumption)
  | exact ($ih).forL _ _ _ (by assumption) (by assumption) (by assumption))

macro "np_ind" ih:term : tactic => `(tactic| repeat' (first
  | (with_reducible_and_instances np_ih $ih)
  | (with_reducible_and_instances first
      | exact NP.getIdentifier _ _
      | apply NP.framed)
  | ((with_reducible_and_instances refine NP.evalAssignment _ ?_ ?_) <;> np_side)
  | ((with_reducible_and_instances refine NP.memberStep _ ?_ ?_) <;> np_side)
  | ((with_reducible_and_instances refine NP.loopIter ?_ ?_ ?_) <;> (try exact (trivial : Tr ())))
  | np_step))

theorem allNP_zero (P : Region) (prog : Program) : AllNP P prog 0 := by
  constructor <;> intros <;>
    first
      | (unfold evalExpr; exact NP.oof)
      | (unfold evalObjItems; exact NP.oof)
      | (unfold evalExprList; exact NP.oof)
      | (unfold evalMatchCases; exact NP.oof)
      | (unfold evalCaseMatch; exact NP.oof)
      | (unfold evalArrayCaseMatch; exact NP.oof)
      | (unfold Jqawk.matchElems; exact NP.oof)
      | (unfold callFunction; exact NP.oof)
      | (unfold evalUnary; exact NP.oof)
      | (unfold evalBinary; exact NP.oof)
      | (unfold evalStmt; exact NP.oof)
      | (unfold evalBlock; exact NP.oof)
      | (unfold whileLoop; exact NP.oof)
      | (unfold forLoop; exact NP.oof)
      | (unfold forInLoop; exact NP.oof)

section step
variable (prog : Program) (hF : P.F ≤ prog.functions.length)
  (hwf : ∀ f ∈ prog.functions, f.body.wfB = true) (n : Nat) (ih : AllNP P prog n)
include ih

theorem np_expr (e : Expr) (he : e.wfB = true) : NP P (KSet P) (evalExpr prog (n + 1) e) (InR P) := by
  unfold evalExpr
  cases e with
  | lit t =>
    simp only [Expr.wfB, Expr.nodeOK] at he
    dsimp only
    cases ht : t.tag <;> simp [litTag, ht] at he <;> np_auto
  | ident t => dsimp only; exact NP.getIdentifier _ _
  | arr t items => simp only [Expr.wfB] at he; dsimp only; np_ind ih
  | obj t items => simp only [Expr.wfB] at he; dsimp only; np_ind ih
  | unary e op p =>
    simp only [Expr.wfB, Bool.and_eq_true] at he
    obtain ⟨_, he2⟩ := he
    dsimp only; np_ind ih
  | binary l r op =>
    simp only [Expr.wfB, Bool.and_eq_true] at he
    obtain ⟨⟨_, he2⟩, he3⟩ := he
    dsimp only; np_ind ih
  | call f args =>
    simp only [Expr.wfB, Bool.and_eq_true] at he
    obtain ⟨he1, he2⟩ := he
    dsimp only; np_ind ih
  | match_ t v cases =>
    simp only [Expr.wfB, Bool.and_eq_true] at he
    obtain ⟨he1, he2⟩ := he
    dsimp only; np_ind ih

theorem np_objItems (pos : Nat) (items : List (Bytes × Expr)) (acc : List (Bytes × CellId))
    (h : wfKVs items = true) (hacc : RegM P acc) :
    NP P (KSet P) (evalObjItems prog (n + 1) pos items acc) (RegM P) := by
  cases items with
  | nil => unfold evalObjItems; exact NP.pure hacc
  | cons kv rest =>
    obtain ⟨k, e⟩ := kv
    simp only [wfKVs, Bool.and_eq_true] at h
    obtain ⟨h1, h2⟩ := h
    unfold evalObjItems
    np_ind ih

theorem np_exprList (es : List Expr) (c : Bool) (h : wfEs es = true) :
    NP P (KSet P) (evalExprList prog (n + 1) es c) (RegL P) := by
  cases es with
  | nil => unfold evalExprList; exact NP.pure RegL.nil
  | cons e rest =>
    simp only [wfEs, Bool.and_eq_true] at h
    obtain ⟨h1, h2⟩ := h
    unfold evalExprList
    refine NP.bind (ih.expr _ h1) (fun v hv => ?_)
    refine NP.bind (R1 := InR P) ?_ (fun c hc => NP.bind (ih.exprList _ _ h2) (fun cs hcs => NP.pure ?_))
    · split
      · refine NP.bind (NP.newCell trivial) (fun fresh hfresh => NP.bind (NP.copyValue hv hfresh)
          (fun r hr => ?_))
        split
        · exact NP.throwRt _ _
        · exact NP.pure hr
      · exact NP.pure hv
    · intro d hd
      rcases List.mem_cons.mp hd with hd | hd
      · subst hd; exact hc
      · exact hcs d hd

theorem np_matchCases (pos : Nat) (v : CellId) (cs : List MatchCase) (h : wfCases cs = true)
    (hv : P.N ≤ v) : NP P (KSet P) (evalMatchCases prog (n + 1) pos v cs) (InR P) := by
  cases cs with
  | nil => unfold evalMatchCases; exact NP.newCell trivial
  | cons c rest =>
    obtain ⟨pats, body⟩ := c
    simp only [wfCases, Bool.and_eq_true] at h
    obtain ⟨⟨h1, h2⟩, h3⟩ := h
    unfold evalMatchCases
    cases body with
    | expr be =>
      have h2' : be.wfB = true := by simpa [Stmt.wfB] using h2
      np_ind ih
    | _ => np_ind ih

theorem np_caseMatch (v : CellId) (ps : List Expr) (h : wfEs ps = true) (hv : P.N ≤ v) :
    NP P (KSet P) (evalCaseMatch prog (n + 1) v ps) (OptRegM P) := by
  cases ps with
  | nil => unfold evalCaseMatch; exact NP.pure trivial
  | cons p rest =>
    simp only [wfEs, Bool.and_eq_true] at h
    obtain ⟨h1, h2⟩ := h
    unfold evalCaseMatch
    cases p with
    | arr t items =>
      have h1' : wfEs items = true := by simpa [Expr.wfB] using h1
      dsimp only; np_ind ih
    | ident t =>
      dsimp only
      refine NP.pure ?_
      intro kc hkc
      simp only [List.mem_singleton] at hkc
      subst hkc; exact hv
    | _ => dsimp only <;> np_ind ih

theorem np_arrayCaseMatch (v : CellId) (ps : List Expr) (h : wfEs ps = true) (hv : P.N ≤ v) :
    NP P (KSet P) (evalArrayCaseMatch prog (n + 1) v ps) (OptRegM P) := by
  unfold evalArrayCaseMatch
  refine NP.bind (NP.readCell hv) (fun x hx => ?_)
  split
  · rename_i a
    refine NP.bind NP.getHeap (fun hp hh => ?_)
    dsimp only
    split
    · exact NP.pure trivial
    · exact ih.matchElems _ _ _ h (hh.arrs a hx) RegM.nil
  · exact NP.pure trivial

theorem np_matchElems (cs : List CellId) (ps : List Expr) (acc : List (Bytes × CellId))
    (h : wfEs ps = true) (hcs : RegL P cs) (hacc : RegM P acc) :
    NP P (KSet P) (Jqawk.matchElems prog (n + 1) cs ps acc) (OptRegM P) := by
  cases cs with
  | nil => unfold Jqawk.matchElems; exact NP.pure hacc
  | cons c cs =>
    cases ps with
    | nil => unfold Jqawk.matchElems; exact NP.pure hacc
    | cons p ps =>
      simp only [wfEs, Bool.and_eq_true] at h
      obtain ⟨h1, h2⟩ := h
      have h3 : wfEs [p] = true := by simp [wfEs, h1]
      have hc : P.N ≤ c := hcs c (List.mem_cons_self ..)
      have hcs' : RegL P cs := fun x hx => hcs x (List.mem_cons_of_mem _ hx)
      unfold Jqawk.matchElems
      refine NP.bind (ih.caseMatch _ _ h3 hc) (fun r hr => ?_)
      split
      · exact NP.pure trivial
      · rename_i nb
        exact ih.matchElems _ _ _ h2 hcs' (RegM.foldInsert hr hacc)

include hF hwf in
theorem np_call (pos : Nat) (f : CellId) (args : List CellId) (hf : P.N ≤ f) (hargs : RegL P args) :
    NP P (KSet P) (callFunction prog (n + 1) pos f args) (InR P) := by
  unfold callFunction
  refine NP.bind (NP.readCell hf) (fun fv hfv => NP.bind NP.getHeap (fun h hh => ?_))
  have hvals : GoodVs P (args.map h.get) := by
    intro v hv
    obtain ⟨c, hc, rfl⟩ := List.mem_map.mp hv
    exact hh.cells c (hargs c hc)
  dsimp only
  split
  · rename_i nf binding sp
    have hthis : ∀ v, binding.map h.get = some v → GoodV P v := by
      intro v hv
      cases binding with
      | none => cases hv
      | some b => cases hv; exact hh.cells b hfv.1
    refine NP.bind (NP.callNative nf hvals hthis) (fun r hr => ?_)
    split
    · exact NP.throwRt _ _
    · exact NP.newCell hr
    · exact NP.newCell trivial
  · rename_i i
    have hi : i < prog.functions.length := Nat.lt_of_lt_of_le hfv.1 hF
    split
    · rename_i hnone
      exact absurd (List.getElem?_eq_none_iff.mp hnone) (Nat.not_le_of_lt hi)
    · rename_i fd hfd
      have hbody : fd.body.wfB = true := hwf fd (List.mem_of_getElem? hfd)
      apply NP.framed
      exact NP.bind (NP.bindParams _ hvals) (fun _ _ =>
        NP.bind (NP.catchReturn (ih.stmt _ hbody)) (fun rv hrv => NP.newCell hrv))
  · exact NP.throwRt _ _

theorem np_unary (e : Expr) (op : Token) (p : Bool) (h : e.wfB = true) :
    NP P (KSet P) (evalUnary prog (n + 1) e op p) (InR P) := by
  unfold evalUnary
  np_ind ih

theorem np_binary (l r : Expr) (op : Token) (hl : l.wfB = true) (hr : r.wfB = true) :
    NP P (KSet P) (evalBinary prog (n + 1) l r op) (InR P) := by
  unfold evalBinary
  np_ind ih

theorem np_block (sts : List Stmt) (h : wfSs sts = true) :
    NP P (KSet P) (evalBlock prog (n + 1) sts) Tr := by
  cases sts with
  | nil => unfold evalBlock; exact NP.pure trivial
  | cons st rest =>
    simp only [wfSs, Bool.and_eq_true] at h
    obtain ⟨h1, h2⟩ := h
    unfold evalBlock; np_ind ih

theorem np_while (c : Expr) (b : Stmt) (hc : c.wfB = true) (hb : b.wfB = true) :
    NP P (KSet P) (whileLoop prog (n + 1) c b) Tr := by
  unfold whileLoop
  np_ind ih

theorem np_for (c p : Expr) (b : Stmt) (hc : c.wfB = true) (hp : p.wfB = true) (hb : b.wfB = true) :
    NP P (KSet P) (forLoop prog (n + 1) c p b) Tr := by
  unfold forLoop
  np_ind ih

theorem np_forIn (l : CellId) (il : Option CellId) (b : Stmt)
    (items : List (Option Val × (CellId ⊕ (Val × Option CellId)))) (hb : b.wfB = true)
    (hit : ∀ it ∈ items, ItemOK P it) : NP P (KSet P) (forInLoop prog (n + 1) l il b items) Tr := by
  cases items with
  | nil => unfold forInLoop; exact NP.pure trivial
  | cons it rest =>
    obtain ⟨iv, item⟩ := it
    have h0 := hit _ (List.mem_cons_self ..)
    have hrest : ∀ it ∈ rest, ItemOK P it := fun x hx => hit x (List.mem_cons_of_mem _ hx)
    unfold forInLoop
    have t2 : NP P (KSet P) (loopIter (evalStmt prog n b) (forInLoop prog n l il b rest)) Tr :=
      NP.loopIter (ih.stmt _ hb) (ih.forInL _ _ _ _ hb hrest) trivial
    cases item with
    | inl c =>
      have hc : P.N ≤ c := h0.2
      cases il with
      | none => dsimp only; repeat' (first | exact t2 | np_step)
      | some ic =>
        cases iv with
        | none => dsimp only; repeat' (first | exact t2 | np_step)
        | some x =>
          have hx : GoodV P x := h0.1 x rfl
          dsimp only; repeat' (first | exact t2 | np_step)
    | inr vm =>
      obtain ⟨v, mc⟩ := vm
      have hv : GoodV P v := h0.2.1
      cases il with
      | none => dsimp only; repeat' (first | exact t2 | np_step)
      | some ic =>
        cases iv with
        | none =>
          cases mc with
          | none => dsimp only; repeat' (first | exact t2 | np_step)
          | some mc =>
            have hmc : P.N ≤ mc := h0.2.2
            dsimp only; repeat' (first | exact t2 | np_step)
        | some x =>
          have hx : GoodV P x := h0.1 x rfl
          dsimp only; repeat' (first | exact t2 | np_step)

theorem np_stmt (st : Stmt) (h : st.wfB = true) : NP P (KSet P) (evalStmt prog (n + 1) st) Tr := by
  unfold evalStmt
  cases st with
  | block t body => simp only [Stmt.wfB] at h; dsimp only; np_ind ih
  | print t args =>
    simp only [Stmt.wfB] at h
    dsimp only
    refine NP.bind (ih.exprList _ _ h) (fun cells hcells => NP.bind NP.getSt (fun s hs => ?_))
    split
    · obtain ⟨c, hc, _⟩ := hs.rr
      split
      · rename_i hnone; rw [hc] at hnone; cases hnone
      · split
        · exact NP.oof
        · exact NP.emit _
    · split
      · exact NP.oof
      · exact NP.emit _
  | expr e =>
    simp only [Stmt.wfB] at h; dsimp only
    exact NP.bind (ih.expr _ h) (fun _ _ => NP.pure trivial)
  | ret e =>
    cases e with
    | none => dsimp only; exact NP.bind (NP.setReturnVal trivial) (fun _ _ => NP.throwSig _)
    | some e =>
      simp only [Stmt.wfB] at h; dsimp only
      exact NP.bind (ih.expr _ h) (fun c hc => NP.bind (NP.setReturnVal hc) (fun _ _ => NP.throwSig _))
  | brk t => exact NP.throwSig _
  | cont t => exact NP.throwSig _
  | next t => exact NP.throwSig _
  | exit t => exact NP.throwSig _
  | if_ c b els =>
    cases els with
    | none =>
      simp only [Stmt.wfB, Bool.and_eq_true] at h
      obtain ⟨h1, h2⟩ := h
      dsimp only; np_ind ih
    | some eb =>
      simp only [Stmt.wfB, Bool.and_eq_true] at h
      obtain ⟨⟨h1, h2⟩, h3⟩ := h
      dsimp only; np_ind ih
  | while_ c b =>
    simp only [Stmt.wfB, Bool.and_eq_true] at h
    obtain ⟨h1, h2⟩ := h
    dsimp only; exact ih.whileL _ _ h1 h2
  | for_ pre c post b =>
    simp only [Stmt.wfB, Bool.and_eq_true] at h
    obtain ⟨⟨⟨h0, h1⟩, h2⟩, h3⟩ := h
    dsimp only
    exact NP.bind (ih.expr _ h0) (fun _ _ => ih.forL _ _ _ h1 h2 h3)
  | forIn id idx iter b =>
    simp only [Stmt.wfB, Bool.and_eq_true] at h
    obtain ⟨h1, h2⟩ := h
    dsimp only
    refine NP.bind (R1 := InR P) ?_ (fun loc hloc => NP.bind (R1 := OptReg P) ?_ (fun il hil =>
      NP.bind (ih.expr _ h1) (fun iterable hit => NP.bind NP.getHeap (fun hp hh => ?_))))
    · refine NP.bind (NP.getVariable _) (fun r hr => ?_)
      split
      · exact NP.pure hr
      · exact NP.throwRt _ _
    · split
      · exact NP.pure trivial
      · refine NP.bind (NP.getVariable _) (fun r hr => ?_)
        split
        · exact NP.pure hr
        · exact NP.throwRt _ _
    · have hiv := hh.cells iterable hit
      split
      · rename_i a heq
        rw [heq] at hiv
        refine ih.forInL _ _ _ _ h2 ?_
        intro it hmem
        obtain ⟨ci, hci, rfl⟩ := List.mem_map.mp hmem
        obtain ⟨c, i⟩ := ci
        exact ⟨fun _ hx => (by cases hx; trivial), hh.arrs a hiv c (List.fst_mem_of_mem_zipIdx hci)⟩
      · rename_i o heq
        rw [heq] at hiv
        refine ih.forInL _ _ _ _ h2 ?_
        intro it hmem
        obtain ⟨kc, hkc, rfl⟩ := List.mem_map.mp hmem
        obtain ⟨k, c⟩ := kc
        exact ⟨fun _ hx => (by cases hx), trivial, (hh.objs o hiv).sortByKey (k, c) hkc⟩
      · refine ih.forInL _ _ _ _ h2 ?_
        intro it hmem
        obtain ⟨kc, hkc, rfl⟩ := List.mem_map.mp hmem
        obtain ⟨off, rn⟩ := kc
        exact ⟨fun _ hx => (by cases hx; trivial), trivial, trivial⟩
      · exact NP.throwRt _ _

end step

theorem allNP_succ (prog : Program) (hF : P.F ≤ prog.functions.length)
    (hwf : ∀ f ∈ prog.functions, f.body.wfB = true) (n : Nat) (ih : AllNP P prog n) :
    AllNP P prog (n + 1) :=
  ⟨np_expr prog n ih, np_objItems prog n ih, np_exprList prog n ih, np_matchCases prog n ih,
   np_caseMatch prog n ih, np_arrayCaseMatch prog n ih, np_matchElems prog n ih,
   np_call prog hF hwf n ih, np_unary prog n ih, np_binary prog n ih, np_stmt prog n ih,
   np_block prog n ih, np_while prog n ih, np_for prog n ih, np_forIn prog n ih⟩

/-- **The no-panic invariant of the evaluator**: every evaluator function, at every fuel. -/
theorem allNP (P : Region) (prog : Program) (hF : P.F ≤ prog.functions.length)
    (hwf : ∀ f ∈ prog.functions, f.body.wfB = true) : ∀ n, AllNP P prog n
  | 0 => allNP_zero P prog
  | n + 1 => allNP_succ prog hF hwf n (allNP P prog hF hwf n)

end Jqawk
