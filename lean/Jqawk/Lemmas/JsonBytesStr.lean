import Jqawk.Model.Json
/-!
  Byte-level round trip of JSON STRINGS: what `Json.encString` (Go `appendString`, escapeHTML = true)
  writes, `Json.unquote` (Go `unquoteBytes`) reads back — per iteration of the two loops
  (`quoteAt` / `unquoteAt`), then for whole strings.
-/
namespace Jqawk.JsonBytes
open Jqawk Jqawk.Json

/-! ### `transduce` -/

theorem transduce_acc (f : UInt8 → Bytes → Bytes × Nat) :
    ∀ (l : Bytes) (n : Nat) (acc : Bytes), transduce f n l acc = transduce f n l [] ++ acc := by
  intro l
  induction l with
  | nil => intro n acc; cases n <;> simp [transduce]
  | cons c rest ih =>
    intro n acc
    cases n with
    | succ k => simp only [transduce]; exact ih k acc
    | zero =>
      simp only [transduce]
      rw [ih _ ((f c rest).1 ++ acc), ih _ ((f c rest).1 ++ [])]
      simp

theorem transduce_skip (f : UInt8 → Bytes → Bytes × Nat) :
    ∀ (l : Bytes) (n : Nat) (acc : Bytes), transduce f n l acc = transduce f 0 (l.drop n) acc := by
  intro l
  induction l with
  | nil => intro n acc; cases n <;> simp [transduce]
  | cons c rest ih =>
    intro n acc
    cases n with
    | succ k => simp only [transduce, List.drop_succ_cons]; exact ih k acc
    | zero => simp

/-- the forward (not reversed) output of a `transduce` loop -/
def fwd (f : UInt8 → Bytes → Bytes × Nat) (l : Bytes) : Bytes := (transduce f 0 l []).reverse

theorem fwd_nil (f : UInt8 → Bytes → Bytes × Nat) : fwd f [] = [] := by simp [fwd, transduce]

/-- one loop iteration, then the loop on what is left -/
theorem fwd_cons (f : UInt8 → Bytes → Bytes × Nat) (c : UInt8) (rest : Bytes) :
    fwd f (c :: rest) = (f c rest).1.reverse ++ fwd f (rest.drop (f c rest).2) := by
  simp only [fwd, transduce]
  rw [transduce_skip, transduce_acc]
  simp

/-! ### bytes -/

theorem forall_u8 {P : UInt8 → Prop} (h : ∀ n, n < 256 → P (UInt8.ofNat n)) : ∀ c, P c := by
  intro c
  have := h c.toNat c.toNat_lt
  simpa using this

theorem hex_rt : ∀ c : UInt8, hexVal (hexDigit (c >>> 4)) = some (c.toNat / 16) ∧
    hexVal (hexDigit (c &&& 0xF)) = some (c.toNat % 16) := by
  apply forall_u8
  decide +kernel

theorem utf8Width_take (c : UInt8) (rest : Bytes) (w : Nat) (hc : ¬ c < 0x80)
    (h : utf8Width c rest = w + 1) :
    (rest.take w).length = w ∧ (∀ x ∈ rest.take w, ¬ x < 0x80) ∧
      ∀ R, utf8Width c (rest.take w ++ R) = w + 1 := by
  unfold utf8Width at h
  simp only [hc, if_false] at h
  split at h
  · simp at h
  rename_i h1
  split at h
  · rename_i h2
    split at h
    · rename_i c1 tl
      split at h
      · rename_i h3
        have : w = 1 := by omega
        subst this
        simp only [Bool.and_eq_true, decide_eq_true_eq] at h3
        refine ⟨by simp, ?_, ?_⟩
        · intro x hx
          simp at hx; subst hx
          rw [UInt8.lt_iff_toNat_lt]; have := UInt8.le_iff_toNat_le.1 h3.1; simpa using this
        · intro R
          simp [utf8Width, hc, h1, h2, h3]
      · simp at h
    · simp at h
  rename_i h2
  split at h
  · rename_i h3
    split at h
    · rename_i c1 c2 tl
      obtain ⟨lo, hlo, elo⟩ : ∃ lo : UInt8, 128 ≤ lo ∧ lo = (if (c == 224) = true then 160 else 128) :=
        ⟨_, by split <;> decide, rfl⟩
      obtain ⟨hi, ehi⟩ : ∃ hi : UInt8, hi = (if (c == 237) = true then 159 else 191) := ⟨_, rfl⟩
      rw [← elo, ← ehi] at h
      split at h
      · rename_i h4
        have : w = 2 := by omega
        subst this
        simp only [Bool.and_eq_true, decide_eq_true_eq] at h4
        refine ⟨by simp, ?_, ?_⟩
        · intro x hx
          simp at hx
          obtain ⟨⟨h5, _⟩, h6, _⟩ := h4
          rw [UInt8.le_iff_toNat_le] at h5 h6
          rw [UInt8.lt_iff_toNat_lt]
          rcases hx with rfl | rfl
          · rw [UInt8.le_iff_toNat_le] at hlo; simp at hlo ⊢; omega
          · simpa using h6
        · intro R
          simp only [beq_iff_eq] at elo ehi
          simp [utf8Width, hc, h1, h2, h3, h4, ← elo, ← ehi]
      · simp at h
    · simp at h
  rename_i h3
  split at h
  · rename_i h4
    split at h
    · rename_i c1 c2 c3 tl
      obtain ⟨lo, hlo, elo⟩ : ∃ lo : UInt8, 128 ≤ lo ∧ lo = (if (c == 240) = true then 144 else 128) :=
        ⟨_, by split <;> decide, rfl⟩
      obtain ⟨hi, ehi⟩ : ∃ hi : UInt8, hi = (if (c == 244) = true then 143 else 191) := ⟨_, rfl⟩
      rw [← elo, ← ehi] at h
      split at h
      · rename_i h5
        have : w = 3 := by omega
        subst this
        simp only [Bool.and_eq_true, decide_eq_true_eq] at h5
        refine ⟨by simp, ?_, ?_⟩
        · intro x hx
          simp at hx
          obtain ⟨⟨⟨h6, _⟩, h7, _⟩, h8, _⟩ := h5
          rw [UInt8.le_iff_toNat_le] at h6 h7 h8
          rw [UInt8.lt_iff_toNat_lt]
          rcases hx with rfl | rfl | rfl
          · rw [UInt8.le_iff_toNat_le] at hlo; simp at hlo ⊢; omega
          · simpa using h7
          · simpa using h8
        · intro R
          simp only [beq_iff_eq] at elo ehi
          simp [utf8Width, hc, h1, h2, h3, h4, h5, ← elo, ← ehi]
      · simp at h
    · simp at h
  · simp at h

/-! ### feeding bytes to the scanner -/

/-- feed bytes to the scanner as long as it answers "continue" -/
def steps (f : Bytes → Bool) : St → Bytes → Option St
  | s, [] => some s
  | s, c :: cs => match step f s c with | .cont s' => steps f s' cs | _ => none

theorem steps_append (f : Bytes → Bool) : ∀ (a b : Bytes) (s s' : St), steps f s a = some s' →
    steps f s (a ++ b) = steps f s' b := by
  intro a
  induction a with
  | nil => intro b s s' h; simp [steps] at h; subst h; rfl
  | cons c cs ih =>
    intro b s s' h
    simp only [steps, List.cons_append] at h ⊢
    cases hs : step f s c with
    | cont s1 => rw [hs] at h; simp only; exact ih b s1 s' h
    | err => rw [hs] at h; simp at h
    | done _ _ _ => rw [hs] at h; simp at h

theorem run_steps (f : Bytes → Bool) (t : Tail) : ∀ (a b : Bytes) (s s' : St), steps f s a = some s' →
    run f s (a ++ b) t = run f s' b t := by
  intro a
  induction a with
  | nil => intro b s s' h; simp [steps] at h; subst h; rfl
  | cons c cs ih =>
    intro b s s' h
    simp only [steps] at h
    cases hs : step f s c with
    | cont s1 => rw [hs] at h; simp only [List.cons_append, run, hs]; exact ih b s1 s' h
    | err => rw [hs] at h; simp at h
    | done _ _ _ => rw [hs] at h; simp at h

/-- the scanner, inside a string literal, accepts the bytes `ch` and appends them to the literal -/
def ScanOK (ch : Bytes) : Prop := ∀ (f : Bytes → Bool) stk dp lit bad,
  steps f ⟨.inString, stk, dp, lit, bad⟩ ch = some ⟨.inString, stk, dp, ch.reverse ++ lit, bad⟩

theorem ScanOK.nil : ScanOK [] := by intro f stk dp lit bad; rfl

theorem ScanOK.append {a b : Bytes} (ha : ScanOK a) (hb : ScanOK b) : ScanOK (a ++ b) := by
  intro f stk dp lit bad
  rw [steps_append f a b _ _ (ha f stk dp lit bad), hb f stk dp _ bad]
  simp

theorem scan_plain (x : UInt8) (h1 : x ≠ 0x22) (h2 : x ≠ 0x5C) (h3 : ¬ x < 0x20) : ScanOK [x] := by
  intro f stk dp lit bad
  simp [steps, step, h1, h2, h3, more]

theorem scan_high : ∀ (l : Bytes), (∀ x ∈ l, ¬ x < 0x80) → ScanOK l := by
  intro l
  induction l with
  | nil => intro _; exact ScanOK.nil
  | cons x xs ih =>
    intro h
    have hx : ¬ x < 0x80 := h x (by simp)
    have hx' : 128 ≤ x.toNat := by rw [UInt8.lt_iff_toNat_lt] at hx; simpa using hx
    refine ScanOK.append (a := [x]) (scan_plain x ?_ ?_ ?_) (ih fun y hy => h y (by simp [hy]))
    · rintro rfl; simp at hx'
    · rintro rfl; simp at hx'
    · rw [UInt8.lt_iff_toNat_lt]; simp; omega

theorem scan_esc (e : UInt8)
    (he : (e == 0x62 || e == 0x66 || e == 0x6E || e == 0x72 || e == 0x74 || e == 0x5C || e == 0x2F || e == 0x22) = true) :
    ScanOK [0x5C, e] := by
  intro f stk dp lit bad
  simp only [steps, step, more]
  simp [he]

theorem scan_u4 (a b c d : UInt8) (ha : (hexVal a).isSome) (hb : (hexVal b).isSome)
    (hc : (hexVal c).isSome) (hd : (hexVal d).isSome) : ScanOK [0x5C, 0x75, a, b, c, d] := by
  intro f stk dp lit bad
  simp [steps, step, more, ha, hb, hc, hd]

/-! ### one iteration of the writer's loop against one iteration of the reader's loop -/

/-- One iteration of Go's "coerce to valid UTF-8" (what writing and re-reading does to a string):
    a well-formed sequence is kept, any other byte becomes U+FFFD. -/
def sanAt (c : UInt8) (rest : Bytes) : Bytes × Nat :=
  match utf8Width c rest with
  | 0 => (fffdRev, 0)
  | w + 1 => ((c :: rest.take w).reverse, w)

theorem unq_u4 (a b c d : UInt8) (R : Bytes) (va vb vc vd : Nat) (ha : hexVal a = some va)
    (hb : hexVal b = some vb) (hc : hexVal c = some vc) (hd : hexVal d = some vd)
    (hs : ¬ (0xD800 ≤ ((va * 16 + vb) * 16 + vc) * 16 + vd ∧ ((va * 16 + vb) * 16 + vc) * 16 + vd < 0xE000)) :
    unquoteAt 0x5C (0x75 :: a :: b :: c :: d :: R) = (pushRune (((va * 16 + vb) * 16 + vc) * 16 + vd) [], 5) := by
  simp only [unquoteAt, getu4, ha, hb, hc, hd]
  simp [hs]

theorem chunk_spec (c : UInt8) (rest : Bytes) :
    ∃ x xs, (quoteAt c rest).1.reverse = x :: xs ∧ (quoteAt c rest).2 = (sanAt c rest).2 ∧
      ScanOK (x :: xs) ∧ ∀ R, unquoteAt x (xs ++ R) = ((sanAt c rest).1, xs.length) := by
  by_cases hc : c < 0x80
  · have hs : sanAt c rest = ([c], 0) := by simp [sanAt, utf8Width, hc]
    rw [hs]
    unfold quoteAt
    simp only [hc, if_true]
    split
    · rename_i h
      refine ⟨0x5C, [c], by simp, rfl, scan_esc c (by simp at h; rcases h with rfl | rfl <;> decide), ?_⟩
      intro R
      simp at h
      rcases h with rfl | rfl <;> simp [unquoteAt]
    split
    · rename_i h
      simp only [beq_iff_eq] at h
      subst h
      exact ⟨0x5C, [0x62], by simp, rfl, scan_esc 0x62 (by decide), fun R => by simp [unquoteAt]⟩
    split
    · rename_i h
      simp only [beq_iff_eq] at h
      subst h
      exact ⟨0x5C, [0x66], by simp, rfl, scan_esc 0x66 (by decide), fun R => by simp [unquoteAt]⟩
    split
    · rename_i h
      simp only [beq_iff_eq] at h
      subst h
      exact ⟨0x5C, [0x6E], by simp, rfl, scan_esc 0x6E (by decide), fun R => by simp [unquoteAt]⟩
    split
    · rename_i h
      simp only [beq_iff_eq] at h
      subst h
      exact ⟨0x5C, [0x72], by simp, rfl, scan_esc 0x72 (by decide), fun R => by simp [unquoteAt]⟩
    split
    · rename_i h
      simp only [beq_iff_eq] at h
      subst h
      exact ⟨0x5C, [0x74], by simp, rfl, scan_esc 0x74 (by decide), fun R => by simp [unquoteAt]⟩
    rename_i n22 n08 n0C n0A n0D n09
    split
    · rename_i h
      obtain ⟨h1, h2⟩ := hex_rt c
      refine ⟨0x5C, [0x75, 0x30, 0x30, hexDigit (c >>> 4), hexDigit (c &&& 0xF)], by simp, rfl,
        scan_u4 _ _ _ _ (by decide) (by decide) (by simp [h1]) (by simp [h2]), ?_⟩
      intro R
      have h0 : hexVal 0x30 = some 0 := by decide
      have hlt : c.toNat < 128 := by rw [UInt8.lt_iff_toNat_lt] at hc; simpa using hc
      rw [List.cons_append, List.cons_append, List.cons_append, List.cons_append, List.cons_append,
        List.nil_append, unq_u4 _ _ _ _ R _ _ _ _ h0 h0 h1 h2 (by omega)]
      have : ((0 * 16 + 0) * 16 + c.toNat / 16) * 16 + c.toNat % 16 = c.toNat := by omega
      rw [this]
      simp [pushRune, hlt]
    · rename_i h
      simp only [Bool.or_eq_true, beq_iff_eq, decide_eq_true_eq, not_or] at h n22
      refine ⟨c, [], by simp, rfl, scan_plain c n22.1 n22.2 h.1.1.1, ?_⟩
      intro R
      simp [unquoteAt, n22.2, hc]
  · unfold quoteAt sanAt
    simp only [hc, if_false]
    cases hw : utf8Width c rest with
    | zero =>
      refine ⟨0x5C, [0x75, 0x66, 0x66, 0x66, 0x64], by simp, rfl,
        scan_u4 _ _ _ _ (by decide) (by decide) (by decide) (by decide), ?_⟩
      intro R
      have h15 : hexVal 0x66 = some 15 := by decide
      have h13 : hexVal 0x64 = some 13 := by decide
      rw [List.cons_append, List.cons_append, List.cons_append, List.cons_append, List.cons_append,
        List.nil_append, unq_u4 _ _ _ _ R _ _ _ _ h15 h15 h15 h13 (by omega)]
      simp only [List.length_cons, List.length_nil]
      decide
    | succ w =>
      obtain ⟨hlen, hhigh, hR⟩ := utf8Width_take c rest w hc hw
      simp only
      split
      · have hw2 : w = 2 := by
          have : utf8Width 226 (128 :: 168 :: (by assumption)) = 3 := by simp [utf8Width]
          rw [this] at hw; omega
        subst hw2
        refine ⟨0x5C, [0x75, 0x32, 0x30, 0x32, 0x38], by simp, rfl,
          scan_u4 _ _ _ _ (by decide) (by decide) (by decide) (by decide), ?_⟩
        intro R
        have h2 : hexVal 0x32 = some 2 := by decide
        have h0 : hexVal 0x30 = some 0 := by decide
        have h8 : hexVal 0x38 = some 8 := by decide
        rw [List.cons_append, List.cons_append, List.cons_append, List.cons_append, List.cons_append,
          List.nil_append, unq_u4 _ _ _ _ R _ _ _ _ h2 h0 h2 h8 (by omega)]
        simp only [List.length_cons, List.length_nil, List.take_succ_cons, List.take_zero]
        decide
      · have hw2 : w = 2 := by
          have : utf8Width 226 (128 :: 169 :: (by assumption)) = 3 := by simp [utf8Width]
          rw [this] at hw; omega
        subst hw2
        refine ⟨0x5C, [0x75, 0x32, 0x30, 0x32, 0x39], by simp, rfl,
          scan_u4 _ _ _ _ (by decide) (by decide) (by decide) (by decide), ?_⟩
        intro R
        have h2 : hexVal 0x32 = some 2 := by decide
        have h0 : hexVal 0x30 = some 0 := by decide
        have h8 : hexVal 0x39 = some 9 := by decide
        rw [List.cons_append, List.cons_append, List.cons_append, List.cons_append, List.cons_append,
          List.nil_append, unq_u4 _ _ _ _ R _ _ _ _ h2 h0 h2 h8 (by omega)]
        simp only [List.length_cons, List.length_nil, List.take_succ_cons, List.take_zero]
        decide
      · refine ⟨c, rest.take w, by simp, rfl, scan_high _ ?_, ?_⟩
        · intro x hx
          simp at hx
          rcases hx with rfl | hx
          · exact hc
          · exact hhigh x (by simpa using hx)
        · intro R
          have hc5 : c ≠ 0x5C := by rintro rfl; exact hc (by decide)
          simp only [unquoteAt, hR R, hlen]
          simp [hc5, hc, hlen]

/-! ### whole strings -/

/-- the bytes `appendString` writes between the quotes -/
def quoteBody (s : Bytes) : Bytes := fwd quoteAt s

/-- Go's coercion of a byte string to valid UTF-8: every byte that does not start a well-formed
    sequence is replaced by U+FFFD (EF BF BD) -/
def sanitize (s : Bytes) : Bytes := fwd sanAt s

theorem unquote_eq_fwd (raw : Bytes) : unquote raw = fwd unquoteAt raw := rfl

theorem encString_eq (s acc : Bytes) : encString s acc = (0x22 :: quoteBody s ++ [0x22]).reverse ++ acc := by
  simp only [encString, quoteBody, fwd]
  rw [transduce_acc]
  simp

theorem quote_unquote_aux : ∀ (n : Nat) (s : Bytes), s.length ≤ n →
    unquote (quoteBody s) = sanitize s ∧ ScanOK (quoteBody s) := by
  intro n
  induction n with
  | zero =>
    intro s hs
    have : s = [] := by cases s <;> simp_all
    subst this
    exact ⟨by simp [unquote_eq_fwd, quoteBody, sanitize, fwd_nil], by simpa [quoteBody, fwd_nil] using ScanOK.nil⟩
  | succ n ih =>
    intro s hs
    cases s with
    | nil => exact ⟨by simp [unquote_eq_fwd, quoteBody, sanitize, fwd_nil], by simpa [quoteBody, fwd_nil] using ScanOK.nil⟩
    | cons c rest =>
      obtain ⟨x, xs, hch, hk, hscan, hun⟩ := chunk_spec c rest
      have hlen : (rest.drop (quoteAt c rest).2).length ≤ n := by
        simp only [List.length_drop, List.length_cons] at hs ⊢; omega
      obtain ⟨ih1, ih2⟩ := ih _ hlen
      have hq : quoteBody (c :: rest) = x :: (xs ++ quoteBody (rest.drop (quoteAt c rest).2)) := by
        simp only [quoteBody] at *
        rw [fwd_cons, hch]; rfl
      constructor
      · rw [hq, unquote_eq_fwd, fwd_cons, hun]
        simp only [List.drop_left']
        rw [← unquote_eq_fwd, ih1, sanitize, sanitize, fwd_cons, hk]
      · rw [hq]
        exact ScanOK.append (a := x :: xs) hscan ih2

/-- STRINGS, the two loops: reading back (`unquote`, Go `unquoteBytes`) what `appendString` wrote
    for ANY byte string gives its UTF-8 coercion -/
theorem unquote_quoteBody (s : Bytes) : unquote (quoteBody s) = sanitize s :=
  (quote_unquote_aux s.length s (Nat.le_refl _)).1

theorem scanOK_quoteBody (s : Bytes) : ScanOK (quoteBody s) :=
  (quote_unquote_aux s.length s (Nat.le_refl _)).2

/-! ### valid UTF-8 is kept -/

/-- Go `utf8.Valid` in the model's terms: every position where a character starts holds a
    well-formed sequence (`utf8Width ≠ 0`); `skip` = bytes of the current sequence still to pass -/
def validUtf8 : Nat → Bytes → Bool
  | _, [] => true
  | skip + 1, _ :: rest => validUtf8 skip rest
  | 0, c :: rest => utf8Width c rest != 0 && validUtf8 (utf8Width c rest - 1) rest

theorem validUtf8_skip : ∀ (l : Bytes) (n : Nat), validUtf8 n l = validUtf8 0 (l.drop n) := by
  intro l
  induction l with
  | nil => intro n; cases n <;> simp [validUtf8]
  | cons c rest ih =>
    intro n
    cases n with
    | succ k => simp only [validUtf8, List.drop_succ_cons]; exact ih k
    | zero => simp

theorem sanitize_valid_aux : ∀ (n : Nat) (s : Bytes), s.length ≤ n → validUtf8 0 s = true → sanitize s = s := by
  intro n
  induction n with
  | zero =>
    intro s hs _
    have : s = [] := by cases s <;> simp_all
    subst this; simp [sanitize, fwd_nil]
  | succ n ih =>
    intro s hs hv
    cases s with
    | nil => simp [sanitize, fwd_nil]
    | cons c rest =>
      simp only [validUtf8, Bool.and_eq_true, bne_iff_ne, ne_eq] at hv
      obtain ⟨h0, hv⟩ := hv
      cases hw : utf8Width c rest with
      | zero => exact absurd hw h0
      | succ w =>
        rw [hw, validUtf8_skip] at hv
        simp only [Nat.add_sub_cancel] at hv
        have hlen : (rest.drop w).length ≤ n := by
          simp only [List.length_drop, List.length_cons] at hs ⊢; omega
        have := ih _ hlen hv
        simp only [sanitize] at this ⊢
        rw [fwd_cons]
        simp only [sanAt, hw, List.reverse_reverse, this]
        simp

/-- a valid UTF-8 string is unchanged by the coercion -/
theorem sanitize_valid (s : Bytes) (h : validUtf8 0 s = true) : sanitize s = s :=
  sanitize_valid_aux s.length s (Nat.le_refl _) h

theorem valid_of_sanitize_aux : ∀ (n : Nat) (s : Bytes), s.length ≤ n → sanitize s = s → validUtf8 0 s = true := by
  intro n
  induction n with
  | zero =>
    intro s hs _
    have : s = [] := by cases s <;> simp_all
    subst this; rfl
  | succ n ih =>
    intro s hs h
    cases s with
    | nil => rfl
    | cons c rest =>
      simp only [sanitize] at h
      rw [fwd_cons] at h
      cases hw : utf8Width c rest with
      | zero =>
        exfalso
        simp only [sanAt, hw, fffdRev, List.reverse_cons, List.reverse_nil, List.nil_append,
          List.cons_append, List.drop_zero, List.cons.injEq] at h
        obtain ⟨hc, hrest⟩ := h
        subst hc
        rw [← hrest] at hw
        simp [utf8Width] at hw
      | succ w =>
        simp only [sanAt, hw, List.reverse_reverse, List.cons_append, List.cons.injEq, true_and] at h
        have h2 : fwd sanAt (rest.drop w) = rest.drop w := by
          have : rest.take w ++ fwd sanAt (rest.drop w) = rest.take w ++ rest.drop w := by
            rw [h, List.take_append_drop]
          exact List.append_cancel_left this
        have hlen : (rest.drop w).length ≤ n := by
          simp only [List.length_drop, List.length_cons] at hs ⊢; omega
        have := ih _ hlen h2
        simp only [validUtf8, hw, Nat.add_sub_cancel]
        rw [validUtf8_skip]
        simp [this]

/-- the coercion leaves a string unchanged ONLY if it is valid UTF-8 -/
theorem valid_of_sanitize (s : Bytes) (h : sanitize s = s) : validUtf8 0 s = true :=
  valid_of_sanitize_aux s.length s (Nat.le_refl _) h

theorem sanitize_eq_iff (s : Bytes) : sanitize s = s ↔ validUtf8 0 s = true :=
  ⟨valid_of_sanitize s, sanitize_valid s⟩

end Jqawk.JsonBytes
