/-
  `-r E` versus `BEGINFILE { $ = E }` (C14), part 11: whole runs.
-/
import Jqawk.Lemmas.SelectorStep

set_option linter.unusedVariables false
set_option linter.unusedSimpArgs false

namespace Jqawk
namespace Sel

/-! ### the number of frames is the same after every driver step -/

def FLres {α : Type} (s : St) : Res α → Prop
  | .ok _ s' => s'.frames.length = s.frames.length
  | .err _ s' => s'.frames.length = s.frames.length
  | .oof => True

def FL {α : Type} (m : EM α) : Prop := ∀ s, FLres s (m s)

namespace FL

theorem pure {α : Type} (a : α) : FL (Pure.pure a : EM α) := fun s => rfl

theorem bind {α β : Type} {m : EM α} {f : α → EM β} (hm : FL m) (hf : ∀ a, FL (f a)) : FL (m >>= f) := by
  intro s
  show FLres s (EM.bind m f s)
  unfold EM.bind
  have h := hm s
  cases hr : m s with
  | ok a s1 =>
    rw [hr] at h
    have h2 := hf a s1
    show FLres s (f a s1)
    cases hr2 : f a s1 with
    | ok b s2 => rw [hr2] at h2; exact h2.trans h
    | err e s2 => rw [hr2] at h2; exact h2.trans h
    | oof => trivial
  | err e s1 => rw [hr] at h; exact h
  | oof => trivial

theorem of_safe {α : Type} {m : EM α} (h : Safe m) : FL m := by
  intro s
  have := h s
  cases hr : m s with
  | ok a s' => rw [hr] at this; exact this.1.frames.length
  | err e s' =>
    rw [hr] at this
    cases e with
    | runtime p m => exact this.1.frames.length
    | sig g => exact this.1.frames.length
    | panic m => exact this.frames.length
    | unmodelled m => exact this.frames.length
  | oof => trivial

theorem modifySt (f : St → St) (hf : ∀ s, (f s).frames = s.frames) : FL (Jqawk.modifySt f) :=
  fun s => by show (f s).frames.length = s.frames.length; rw [hf]

theorem catchSig {α : Type} (g : Sig) (d : α) {m : EM α} (hm : FL m) : FL (Jqawk.catchSig g d m) := by
  intro s
  unfold Jqawk.catchSig
  have h := hm s
  cases hr : m s with
  | ok a s' => rw [hr] at h; exact h
  | err e s' =>
    rw [hr] at h
    cases e with
    | sig g' => dsimp only; split <;> exact h
    | _ => exact h
  | oof => trivial

theorem ruleFlow {m : EM Unit} (hm : FL m) : FL (Jqawk.ruleFlow m) := by
  intro s
  unfold Jqawk.ruleFlow
  have h := hm s
  cases hr : m s with
  | ok a s' => rw [hr] at h; exact h
  | err e s' =>
    rw [hr] at h
    cases e with
    | sig g => cases g <;> exact h
    | _ => exact h
  | oof => trivial

theorem catchExit {m : EM Unit} (hm : FL m) : FL (Jqawk.catchExit m) := by
  intro s
  unfold Jqawk.catchExit
  have h := hm s
  cases hr : m s with
  | ok a s' => rw [hr] at h; exact h
  | err e s' =>
    rw [hr] at h
    cases e with
    | sig g => cases g <;> exact h
    | _ => exact h
  | oof => trivial

theorem evalRules (prog : Program) : ∀ rules : List Rule, FL (Jqawk.evalRules prog rules)
  | [] => by unfold Jqawk.evalRules; exact pure ()
  | rule :: rest => by
    unfold Jqawk.evalRules
    refine bind ?_ (fun isMatch? => ?_)
    · split
      · exact pure _
      · exact catchSig _ _ (bind (of_safe ((allSafe prog evalFuel).expr _))
          (fun c => bind (of_safe (Safe.readCell c)) (fun _ => pure _)))
    · split
      · exact pure ()
      · split
        · exact evalRules prog rest
        · refine bind (catchSig _ _ (bind (of_safe ((allSafe prog evalFuel).stmt _)) (fun _ => pure _))) (fun more => ?_)
          split
          · exact evalRules prog rest
          · exact pure ()

theorem evalElems (prog : Program) (rules : List Rule) : ∀ (items : List CellId) (k : Nat),
    FL (Jqawk.evalElems prog rules items k)
  | [], k => by unfold Jqawk.evalElems; exact pure ()
  | item :: rest, k => by
    unfold Jqawk.evalElems
    exact bind (modifySt _ (fun _ => rfl)) (fun _ => bind (of_safe (Safe.newCell _)) (fun ic =>
      bind (of_safe (Safe.setLocal _ _)) (fun _ => bind (evalRules prog rules) (fun _ => evalElems prog rules rest (k + 1)))))

theorem evalPatternRules (prog : Program) (rules : List Rule) : FL (Jqawk.evalPatternRules prog rules) := by
  unfold Jqawk.evalPatternRules
  refine bind (of_safe Safe.getSt) (fun s => ?_)
  split
  · exact pure ()
  · split
    · exact evalElems prog rules _ _
    · exact bind (modifySt _ (fun _ => rfl)) (fun _ => evalRules prog rules)

theorem evalSpecialRules (prog : Program) {mk : EM CellId} (hmk : FL mk) : ∀ rules : List Rule,
    FL (Jqawk.evalSpecialRules prog mk rules)
  | [] => by unfold Jqawk.evalSpecialRules; exact pure _
  | rule :: rest => by
    unfold Jqawk.evalSpecialRules
    refine bind hmk (fun c => bind (modifySt _ (fun _ => rfl)) (fun _ =>
      bind (ruleFlow (of_safe ((allSafe prog evalFuel).stmt _))) (fun fl => ?_)))
    split
    · exact pure _
    · exact evalSpecialRules prog hmk rest

end FL


/-! ### one root: the BEGINFILE rules and the pattern rules -/

/-- `processRoot` for a program without ENDFILE rules, with the list of BEGINFILE rules as a parameter -/
def processMid (prog : Program) (rootCell : CellId) (bf : List Rule) : EM Flow := do
  match (← evalSpecialRules prog (pure rootCell) bf) with
  | .exit => return .exit
  | .continue_ =>
    modifySt fun s => { s with root := some rootCell }
    match (← catchExit (evalPatternRules prog (rulesOf prog .pattern))) with
    | .exit => return .exit
    | .continue_ => return .continue_

theorem processRoot_eq (prog : Program) (c : CellId) :
    processRoot prog c = (do
      let rv ← readCell c
      match (← processMid prog c (rulesOf prog .beginFile)) with
      | .exit => pure .exit
      | .continue_ => evalSpecialRules prog (newCell rv) (rulesOf prog .endFile)) := by
  funext s
  simp only [processRoot, processMid, bind, EM.bind, readCell, pure]
  generalize evalSpecialRules prog (EM.pure c) (rulesOf prog RuleKind.beginFile) s = r
  cases r with
  | oof => rfl
  | err e s1 => rfl
  | ok fl s1 =>
    cases fl with
    | exit => rfl
    | continue_ =>
      simp only [EM.bind, modifySt]
      generalize catchExit (evalPatternRules prog (rulesOf prog .pattern)) { s1 with root := some c } = r2
      cases r2 with
      | oof => rfl
      | err e s2 => rfl
      | ok fl2 s2 => cases fl2 <;> rfl

/-- what run B does with a decoded value -/
theorem valueB_eq (prog : Program) (T : SelTok) (E : Expr) (v : JVal) :
    (do let val ← newValueJson v
        let c ← newCell val
        processRoot (withSel prog T E) c) =
    (do let r ← ruleStep (withSel prog T E) T E v
        match r.2.2 with
        | .exit => pure .exit
        | .continue_ =>
          match (← processMid (withSel prog T E) r.1 (rulesOf prog .beginFile)) with
          | .exit => pure .exit
          | .continue_ => evalSpecialRules (withSel prog T E) (newCell r.2.1) (rulesOf prog .endFile)) := by
  have hef' : rulesOf (withSel prog T E) .endFile = rulesOf prog .endFile :=
    rulesOf_withSel_other prog T E .endFile (by decide)
  have hpat' : rulesOf (withSel prog T E) .pattern = rulesOf prog .pattern :=
    rulesOf_withSel_other prog T E .pattern (by decide)
  funext s
  simp only [processRoot, processMid, rulesOf_withSel_bf, hef', hpat', ruleStep, bind, EM.bind, pure, EM.pure]
  cases newValueJson v s with
  | oof => rfl
  | err e s1 => rfl
  | ok val s1 =>
    dsimp only
    have hget : (s1.heap.alloc val).2.get (s1.heap.alloc val).1 = val := by
      show (s1.heap.alloc val).2.get s1.heap.cells.size = val
      rw [get_alloc]; simp
    simp only [Jqawk.newCell, readCell, hget, evalSpecialRules, selRule, bind, EM.bind, pure, EM.pure, modifySt]
    generalize Jqawk.ruleFlow (evalStmt (withSel prog T E) evalFuel (ruleBody T E))
      { s1 with heap := (s1.heap.alloc val).2, ruleRoot := some (s1.heap.alloc val).1 } = r
    cases r with
    | oof => rfl
    | err e s3 => rfl
    | ok fl s3 =>
      cases fl with
      | exit => rfl
      | continue_ =>
        simp only [EM.bind]
        generalize evalSpecialRules (withSel prog T E) (EM.pure (s1.heap.alloc val).1)
          (rulesOf prog RuleKind.beginFile) s3 = r2
        cases r2 with
        | oof => rfl
        | err e s4 => rfl
        | ok fl2 s4 =>
          cases fl2 with
          | exit => rfl
          | continue_ =>
            simp only [EM.bind, modifySt]
            generalize catchExit (evalPatternRules (withSel prog T E) (rulesOf prog RuleKind.pattern))
              { s4 with root := some (s1.heap.alloc val).1 } = r3
            cases r3 with
            | oof => rfl
            | err e s5 => rfl
            | ok fl3 s5 => cases fl3 <;> rfl

theorem FL.processMid (prog : Program) (c : CellId) (bf : List Rule) : FL (Sel.processMid prog c bf) := by
  unfold Sel.processMid
  refine FL.bind (FL.evalSpecialRules prog (FL.pure c) bf) (fun fl => ?_)
  split
  · exact FL.pure _
  · refine FL.bind (FL.modifySt _ (fun _ => rfl)) (fun _ =>
      FL.bind (FL.catchExit (FL.evalPatternRules prog _)) (fun fl2 => ?_))
    split <;> exact FL.pure _

theorem sim_processMid {K : Ctx} (wf : K.WF) (bf : List Rule) (hpat : rulesOf K.progA .pattern = rulesOf K.progB .pattern)
    {w w0 : Nat} {ra rb : CellId} (hc : CellR K w0 ra rb) (hw0 : w0 ≤ w) :
    SimW (mainX K) w EqR (processMid K.progA ra bf) (processMid K.progB rb bf) := by
  have g := mainX_good wf
  unfold processMid
  refine SimW.bind (VR1 := EqR) (sim_evalSpecialRules' g (mkA := pure ra) (mkB := pure rb) (w0 := w0)
    (fun w' hw' => SimW.pure hc hw') bf w hw0 (fun r _ => idsS_all r.body)) (fun w1 fa fb hw1 hf => ?_)
  · cases hf
    cases fa with
    | exit => exact SimW.pure (VR := EqR) (w0 := 0) rfl (Nat.zero_le _)
    | continue_ =>
      dsimp only
      refine SimW.bind (SimW.setRoot hc (Nat.le_trans hw0 hw1)) (fun w2 _ _ hw2 _ => ?_)
      refine SimW.bind (VR1 := EqR) (SimW.catchExit ?_) (fun w3 fa fb hw3 hf => ?_)
      · have := sim_evalPatternRules' g (mainX_wf wf) ⟨rfl, rfl⟩ rfl (rulesOf K.progA .pattern)
          (fun r _ => ⟨idsS_all r.body, fun p _ => idsE_all p⟩) w2
        rw [← hpat]
        exact this
      · cases hf
        cases fa <;> exact SimW.pure (VR := EqR) (w0 := 0) rfl (Nat.zero_le _)

/-! ### `$file` -/

theorem setLastFrame_length (fr : List Frame) (name : Bytes) (c : CellId) :
    (setLastFrame fr name c).length = fr.length := by
  induction fr with
  | nil => rfl
  | cons f fs ih =>
    cases fs with
    | nil => rfl
    | cons g gs =>
      show (f :: setLastFrame (g :: gs) name c).length = _
      rw [List.length_cons, ih]; rfl

theorem f2_setLastFrame {K : Ctx} {w : Nat} {l1 l2 : List Frame} (h : F2 (FrameR K w) l1 l2) (name : Bytes)
    {a b : CellId} (hc : CellR K w a b) :
    F2 (FrameR K w) (setLastFrame l1 name a) (setLastFrame l2 name b) := by
  induction h with
  | nil => exact .nil
  | @cons f g fs gs h1 h2 ih =>
    cases h2 with
    | nil => exact .cons (MemR.objInsert h1 name hc) .nil
    | @cons f' g' fs' gs' h3 h4 => exact .cons h1 ih

/-- the per-value prologue of `processFile`: `$file` is set in the root frame -/
def setFile (name : Bytes) : EM Unit := do
  let c ← newCell (.str name none)
  setGlobal b!"$file" c

theorem sim_setFile {K : Ctx} (wf : K.WF) (name : Bytes) (w : Nat) :
    SimW (mainX K) w EqR (setFile name) (setFile name) := by
  unfold setFile
  refine SimW.bind (SimW.newCell (mainX_wf wf) (ValR.strNone 0 name) (Nat.zero_le _)) (fun w1 ca cb hw1 hc => ?_)
  intro sA sB hs hw
  obtain ⟨mfA, mfB, eA, eB, hf2, hin⟩ := hs.frames
  have eA' : sA.frames = mfA := by rw [eA]; exact List.append_nil _
  have eB' : sB.frames = mfB := by rw [eB]; exact List.append_nil _
  refine ⟨Nat.le_refl _, rfl, ⟨hs.heap, ?_, hs.ruleRoot, hs.root, hs.out, hs.faults⟩⟩
  refine ⟨setLastFrame mfA b!"$file" ca, setLastFrame mfB b!"$file" cb, ?_, ?_,
    f2_setLastFrame hf2 _ (hc.mono hw), fun h => by cases h⟩
  · show setLastFrame sA.frames _ _ = _ ++ []
    rw [eA', List.append_nil]
  · show setLastFrame sB.frames _ _ = _ ++ []
    rw [eB', List.append_nil]

theorem FL.setFile (name : Bytes) : FL (Sel.setFile name) := by
  unfold Sel.setFile
  refine FL.bind (FL.of_safe (Safe.newCell _)) (fun c => ?_)
  intro s
  show (setLastFrame s.frames _ c).length = s.frames.length
  exact setLastFrame_length _ _ _

/-! ### the relation between the main evaluators of the two runs -/

/-- some renaming relates the two main evaluators (it changes with every selector), and run B
    is at the top level -/
def MainRel (prog progB : Program) (sA sB : St) : Prop :=
  ∃ K : Ctx, K.WF ∧ K.a0 = 0 ∧ K.o0 = 0 ∧ K.progA = prog ∧ K.progB = progB ∧ SR (mainX K) sA sB ∧
    sB.frames.length = 1

theorem SR.output {X : XCtx} {sA sB : St} (h : SR X sA sB) : sA.output = sB.output := by
  unfold St.output; rw [h.out]

theorem SR.rootJson {K : Ctx} {sA sB : St} (h : SR (mainX K) sA sB) : getRootJson sA = getRootJson sB := by
  unfold getRootJson
  have hr := h.root rfl
  cases hra : sA.root with
  | none =>
    cases hrb : sB.root with
    | none => rfl
    | some _ => rw [hra, hrb] at hr; exact hr.elim
  | some ra =>
    cases hrb : sB.root with
    | none => rw [hra, hrb] at hr; exact hr.elim
    | some rb =>
      rw [hra, hrb] at hr
      dsimp only
      rw [toJValTop_rel h.heap (h.heap.get hr (Nat.le_refl _)) (Nat.le_refl _)]

/-! ### ENDFILE rules: `$` is a detached copy, different in the two runs, that nothing reads -/

/-- the context after each run allocated one cell the other run has no counterpart for -/
def Kdrop (K : Ctx) (g : Nat) : Ctx := { K with D := fun i => K.D i ∧ i ≠ g, m := g + 1 }

theorem Kdrop_wf {K : Ctx} (wf : K.WF) {g : Nat} (hm : K.m ≤ g) : (Kdrop K g).WF := by
  refine ⟨?_, wf.inj, ?_, ?_⟩
  · intro i hi
    have hi' : g + 1 ≤ i := hi
    exact wf.shift i (by omega)
  · intro i hi
    have hi' : g + 1 ≤ i := hi
    exact ⟨wf.up i (by omega), by omega⟩
  · intro i hi
    have hi' : i < g + 1 := hi
    show K.σ i < g + 1 + K.d
    have := wf.σ_lt (w := g + 1) hi' (by omega)
    exact this

theorem Kdrop_trans {K : Ctx} {g : Nat} : Trans K (Kdrop K g) g (g + 1) := by
  refine ⟨?_, fun _ h => h, fun _ h => h, fun _ h => h⟩
  intro c hc
  have hc2 : c < g := hc.2
  exact ⟨rfl, ⟨hc.1, Nat.ne_of_lt hc2⟩, Nat.lt_succ_of_lt hc2⟩

theorem Froz.drop {K : Ctx} (wf : K.WF) {hA hB : Heap} (f : Froz K hA hB) {g : Nat} (hg : K.fz ≤ g)
    (hgA : K.fzA ≤ g + K.d) (hm : K.m ≤ g) : Froz (Kdrop K g) hA hB := by
  refine ⟨f.fzB, f.fzA, f.aA, f.aB, f.oA, f.oB, ?_, ?_, f.arrB, f.arrA, f.objB, f.objA⟩
  · intro i hi hd
    have hi' : i < K.fz := hi
    refine f.cellB i hi' (fun hD => hd ⟨hD, ?_⟩)
    omega
  · intro j hj hd
    have hj' : j < K.fzA := hj
    refine f.cellA j hj' (fun i hD e => ?_)
    by_cases hig : i = g
    · subst hig
      have := wf.shift i hm
      omega
    · exact hd i ⟨hD, hig⟩ e

/-- both runs allocate a cell for the detached `$`; the two cells hold unrelated values and drop
    out of the relation -/
theorem SR.garbage {K : Ctx} (wf : K.WF) {sA sB : St} (hs : SR (mainX K) sA sB) (vA vB : Val) :
    SR (mainX (Kdrop K sB.heap.cells.size))
      { sA with heap := (sA.heap.alloc vA).2, ruleRoot := some (sA.heap.alloc vA).1 }
      { sB with heap := (sB.heap.alloc vB).2, ruleRoot := some (sB.heap.alloc vB).1 } := by
  have tr := Kdrop_trans (K := K) (g := sB.heap.cells.size)
  have hszc : sA.heap.cells.size = sB.heap.cells.size + K.d := hs.heap.szc
  have hfz : Froz (Kdrop K sB.heap.cells.size) (sA.heap.alloc vA).2 (sB.heap.alloc vB).2 :=
    (hs.heap.froz.alloc vA vB).drop wf hs.heap.froz.fzB (by have h1 : K.fzA ≤ sA.heap.cells.size := hs.heap.froz.fzA; omega) hs.heap.mle
  refine ⟨⟨?_, ?_, hs.heap.sza, hs.heap.ale, hs.heap.szo, hs.heap.ole, ?_, ?_, ?_, hfz⟩, ?_, (fun h => by cases h), ?_,
    hs.out, hs.faults⟩
  · show (sA.heap.alloc vA).2.cells.size = (sB.heap.alloc vB).2.cells.size + K.d
    rw [size_alloc, size_alloc, hszc]; omega
  · show sB.heap.cells.size + 1 ≤ (sB.heap.alloc vB).2.cells.size
    rw [size_alloc]; exact Nat.le_refl _
  · intro i hi
    show ValR _ (sB.heap.alloc vB).2.cells.size ((sA.heap.alloc vA).2.get (K.σ i)) ((sB.heap.alloc vB).2.get i)
    rw [size_alloc] at hi ⊢
    have hi1 : K.D i ∧ i ≠ sB.heap.cells.size := hi.1
    have hi2 : i < sB.heap.cells.size + 1 := hi.2
    have hlt : i < sB.heap.cells.size := Nat.lt_of_le_of_ne (Nat.le_of_lt_succ hi2) hi1.2
    have hσ : K.σ i < sA.heap.cells.size := by
      rw [hszc]; exact wf.σ_lt hlt hs.heap.mle
    rw [get_alloc, get_alloc]
    simp only [Nat.ne_of_lt hσ, hi1.2, ↓reduceIte]
    exact tr.valR (hs.heap.cells i ⟨hi1.1, hlt⟩)
  · intro k hk
    show ArrR _ (sB.heap.alloc vB).2.cells.size (sA.heap.arr k) (sB.heap.arr k)
    rw [size_alloc]
    exact tr.arrR (hs.heap.arrs k hk)
  · intro k hk
    show MemR _ (sB.heap.alloc vB).2.cells.size (sA.heap.obj k) (sB.heap.obj k)
    rw [size_alloc]
    exact tr.memR (hs.heap.objs k hk)
  · obtain ⟨mfA, mfB, eA, eB, hf2, hin⟩ := hs.frames
    refine ⟨mfA, mfB, eA, eB, ?_, hin⟩
    show F2 (FrameR _ (sB.heap.alloc vB).2.cells.size) mfA mfB
    rw [size_alloc]
    exact tr.frames hf2
  · intro _
    show OptCellR _ (sB.heap.alloc vB).2.cells.size sA.root sB.root
    rw [size_alloc]
    exact tr.optCellR (hs.root rfl)

/-- two runs of a list of BEGIN / END / ENDFILE rules -/
def SpecRes (prog progB : Program) : Res Flow → Res Flow → Prop
  | .oof, _ => True
  | .ok _ _, .oof => True
  | .err _ _, .oof => True
  | .ok fa sA', .ok fb sB' => fa = fb ∧ MainRel prog progB sA' sB'
  | .err eA sA', .err eB sB' => eA = eB ∧ ∃ K : Ctx, SR (mainX K) sA' sB'
  | .ok _ _, .err _ _ => False
  | .err _ _, .ok _ _ => False

theorem SpecRes.oofR (prog progB : Program) (a : Res Flow) : SpecRes prog progB a .oof := by
  cases a <;> trivial

/-- ENDFILE rules and the functions they may call do not read `$` -/
def EndOK (prog : Program) : Prop :=
  (∀ r ∈ rulesOf prog .endFile, idsS false (fun _ => true) r.body = true) ∧
  (rulesOf prog .endFile ≠ [] → ∀ f ∈ prog.functions, idsS false (fun _ => true) f.body = true)

theorem endfile_rel (prog progB : Program) (hfun : prog.functions = progB.functions)
    (hfns : ∀ f ∈ prog.functions, idsS false (fun _ => true) f.body = true) :
    ∀ (ef : List Rule), (∀ r ∈ ef, idsS false (fun _ => true) r.body = true) →
    ∀ (vA vB : Val) (sA sB : St), MainRel prog progB sA sB →
    SpecRes prog progB (evalSpecialRules prog (newCell vA) ef sA) (evalSpecialRules progB (newCell vB) ef sB)
  | [], _, vA, vB, sA, sB, h => by
    show SpecRes prog progB (.ok .continue_ sA) (.ok .continue_ sB)
    exact ⟨rfl, h⟩
  | rule :: rest, hr, vA, vB, sA, sB, h => by
    obtain ⟨K, wf, h0, h0', hKA, hKB, hs, hlen⟩ := h
    have wf' := Kdrop_wf wf (g := sB.heap.cells.size) hs.heap.mle
    have hs' := hs.garbage wf vA vB
    have g : GoodX (mainX (Kdrop K sB.heap.cells.size)) := by
      refine ⟨mainX_wf wf', fun i f hf _ => hfns f ?_⟩
      have : prog.functions[i]? = some f := by
        have e : (Kdrop K sB.heap.cells.size).progA = prog := hKA
        rw [← e]; exact hf
      exact List.mem_of_getElem? this
    have hsim := SimW.ruleFlow ((allSim evalFuel evalFuel).stmt g (sB.heap.cells.size + 1) rule.body
      (hr rule (List.mem_cons_self ..))) _ _ hs' (by show _ ≤ (sB.heap.alloc vB).2.cells.size; rw [size_alloc]; exact Nat.le_refl _)
    have hfl := FL.ruleFlow (FL.of_safe ((allSafe progB evalFuel).stmt rule.body))
      { sB with heap := (sB.heap.alloc vB).2, ruleRoot := some (sB.heap.alloc vB).1 }
    have eA : (mainX (Kdrop K sB.heap.cells.size)).progA = prog := hKA
    have eB : (mainX (Kdrop K sB.heap.cells.size)).progB = progB := hKB
    rw [eA, eB] at hsim
    simp only [evalSpecialRules, bind, EM.bind, Jqawk.newCell, modifySt]
    revert hsim hfl
    generalize Jqawk.ruleFlow (evalStmt prog evalFuel rule.body)
      { sA with heap := (sA.heap.alloc vA).2, ruleRoot := some (sA.heap.alloc vA).1 } = ra
    generalize Jqawk.ruleFlow (evalStmt progB evalFuel rule.body)
      { sB with heap := (sB.heap.alloc vB).2, ruleRoot := some (sB.heap.alloc vB).1 } = rb
    intro hsim hfl
    cases ra with
    | oof => exact trivial
    | err eA sA' =>
      cases rb with
      | oof => exact SpecRes.oofR ..
      | ok _ _ => exact hsim.elim
      | err eB sB' => exact ⟨hsim.2.1, _, hsim.2.2.1⟩
    | ok fa sA' =>
      cases rb with
      | oof => exact SpecRes.oofR ..
      | err _ _ => exact hsim.elim
      | ok fb sB' =>
        obtain ⟨_, hf, hs2⟩ := hsim
        cases hf
        cases fa with
        | exit => exact ⟨rfl, _, wf', h0, h0', hKA, hKB, hs2, by rw [hfl]; exact hlen⟩
        | continue_ =>
          exact endfile_rel prog progB hfun hfns rest (fun r hm => hr r (List.mem_cons_of_mem _ hm)) vA vB sA' sB'
            ⟨_, wf', h0, h0', hKA, hKB, hs2, by rw [hfl]; exact hlen⟩

theorem endfile_rel' (prog progB : Program) (hfun : prog.functions = progB.functions) (hend : EndOK prog)
    (vA vB : Val) (sA sB : St) (h : MainRel prog progB sA sB) :
    SpecRes prog progB (evalSpecialRules prog (newCell vA) (rulesOf prog .endFile) sA)
      (evalSpecialRules progB (newCell vB) (rulesOf prog .endFile) sB) := by
  by_cases hnil : rulesOf prog .endFile = []
  · rw [hnil]
    exact ⟨rfl, h⟩
  · exact endfile_rel prog progB hfun (hend.2 hnil) _ hend.1 vA vB sA sB h

/-! ### the start of the two runs -/

/-- the identity renaming -/
def Kid (prog progB : Program) : Ctx :=
  { σ := id, D := fun _ => True, a0 := 0, o0 := 0, m := 0, d := 0, progA := prog, progB := progB }

theorem Kid_wf (prog progB : Program) : (Kid prog progB).WF :=
  ⟨fun _ _ => rfl, fun _ _ h => h, fun _ _ => trivial, fun i h => absurd h (Nat.not_lt_zero i)⟩

theorem renV_id (v : Val) : renV id v = v := by
  cases v with
  | str s sp => cases sp <;> rfl
  | nil sp => cases sp <;> rfl
  | native f b sp => cases b <;> cases sp <;> rfl
  | _ => rfl

theorem renM_id (m : List (Bytes × CellId)) : renM id m = m := by
  unfold renM
  have : m.map (fun kc => (kc.1, id kc.2)) = m.map id := List.map_congr_left (fun kc _ => rfl)
  rw [this, List.map_id]

/-- the state `NewEvaluator` builds: no containers, plain cells, locals allocated -/
structure InitOK (prog progB : Program) (frames : List (Bytes × CellId)) (h : Heap) : Prop where
  plain : ∀ i, Val.plain (h.get i)
  arrs : h.arrs = #[]
  objs : h.objs = #[]
  locals : LiveM (Kid prog progB) h.cells.size frames

theorem InitOK.add {prog progB : Program} {L : List (Bytes × CellId)} {h : Heap} (ok : InitOK prog progB L h)
    (name : Bytes) {v : Val} (hv : Val.plain v) :
    InitOK prog progB (objInsert L name (h.alloc v).1) (h.alloc v).2 := by
  refine ⟨?_, ok.arrs, ok.objs, ?_⟩
  · intro i
    rw [get_alloc]
    split
    · exact hv
    · exact ok.plain i
  · rw [size_alloc]
    exact (ok.locals.mono (Nat.le_succ _)).objInsert name ⟨trivial, Nat.lt_succ_self _⟩

theorem initFold_ok {prog progB : Program} (l : List (FuncDef × Nat)) :
    ∀ (st : List (Bytes × CellId) × Heap), InitOK prog progB st.1 st.2 →
      InitOK prog progB
        (l.foldl (fun st (fi : FuncDef × Nat) =>
          (objInsert st.1 fi.1.ident.text (st.2.alloc (.fn fi.2)).1, (st.2.alloc (.fn fi.2)).2)) st).1
        (l.foldl (fun st (fi : FuncDef × Nat) =>
          (objInsert st.1 fi.1.ident.text (st.2.alloc (.fn fi.2)).1, (st.2.alloc (.fn fi.2)).2)) st).2 := by
  induction l with
  | nil => intro st h; exact h
  | cons fi rest ih =>
    intro st h
    simp only [List.foldl_cons]
    exact ih _ (h.add fi.1.ident.text trivial)

theorem newEvaluator_init (prog progB : Program) :
    ∃ L, (newEvaluator prog Heap.empty [] 0).frames = [⟨b!"<root>", L⟩] ∧
      InitOK prog progB L (newEvaluator prog Heap.empty [] 0).heap := by
  have h0 : InitOK prog progB [] Heap.empty :=
    ⟨fun i => by simp [Heap.get, Heap.empty, Val.plain], rfl, rfl, fun _ h => by cases h⟩
  have h3 := ((h0.add b!"printf" (v := .native .printf none none) ⟨rfl, rfl⟩).add b!"json"
    (v := .native .json none none) ⟨rfl, rfl⟩).add b!"num" (v := .native .num none none) ⟨rfl, rfl⟩
  have h4 := initFold_ok (prog := prog) (progB := progB) prog.functions.zipIdx (_, _) h3
  exact ⟨_, rfl, h4⟩

theorem mainRel_init (prog : Program) (T : SelTok) (E : Expr) :
    MainRel prog (withSel prog T E) (newEvaluator prog Heap.empty [] 0)
      (newEvaluator (withSel prog T E) Heap.empty [] 0) := by
  have e : newEvaluator (withSel prog T E) Heap.empty [] 0 = newEvaluator prog Heap.empty [] 0 := rfl
  rw [e]
  obtain ⟨L, hfr, ok⟩ := newEvaluator_init prog (withSel prog T E)
  refine ⟨Kid prog (withSel prog T E), Kid_wf _ _, rfl, rfl, rfl, rfl, ?_, by rw [hfr]; rfl⟩
  have hfn : ∀ i : Nat, prog.functions[i]? = (withSel prog T E).functions[i]? := fun _ => rfl
  refine ⟨⟨rfl, Nat.zero_le _, rfl, Nat.zero_le _, rfl, Nat.zero_le _, ?_, ?_, ?_, Froz.trivial rfl rfl rfl rfl⟩, ?_,
    (fun h => by cases h), (fun _ => trivial), rfl, rfl⟩
  · intro i _
    show ValR _ _ ((newEvaluator prog Heap.empty [] 0).heap.get (id i)) _
    exact valR_plain_main rfl rfl rfl (ok.plain i) _
  · intro k _
    have : (newEvaluator prog Heap.empty [] 0).heap.arr k = #[] := by
      simp only [Heap.arr, ok.arrs]; rfl
    rw [this]; exact ArrR.empty _ _
  · intro k _
    have : (newEvaluator prog Heap.empty [] 0).heap.obj k = [] := by
      simp only [Heap.obj, ok.objs]; rfl
    rw [this]; exact MemR.nil _
  · refine ⟨_, _, (List.append_nil _).symm, (List.append_nil _).symm, ?_, fun h => by cases h⟩
    rw [hfr]
    exact F2.cons ⟨(renM_id L).symm, ok.locals⟩ F2.nil

/-! ### the relation between the results -/

/-- same class of outcome, same message; a runtime error in the selector is reported against
    the selector text by one run and against the program text by the other -/
def OutcomeRel (sel src : Bytes) : Outcome → Outcome → Prop
  | .ok, .ok => True
  | .runtimeErr s p m, .runtimeErr s' p' m' => m = m' ∧ ((s = s' ∧ p = p') ∨ (s = sel ∧ s' = src))
  | .jsonErr f, .jsonErr f' => f = f'
  | .sentinel g, .sentinel g' => g = g'
  | .panic m, .panic m' => m = m'
  | .unmodelled m, .unmodelled m' => m = m'
  | _, _ => False

theorem OutcomeRel.errOutcome (sel src : Bytes) (e : Err) :
    OutcomeRel sel src (Jqawk.errOutcome src e) (Jqawk.errOutcome src e) := by
  cases e with
  | runtime p m => exact ⟨rfl, .inl ⟨rfl, rfl⟩⟩
  | sig g => exact rfl
  | panic m => exact rfl
  | unmodelled m => exact rfl

/-- how two runs (or two files) ended; an out-of-fuel outcome makes no claim -/
def FinRel (sel src : Bytes) (oA : Outcome) (sA : St) (oB : Outcome) (sB : St) : Prop :=
  oA = .oof ∨ oB = .oof ∨
    (OutcomeRel sel src oA oB ∧ sA.output = sB.output ∧ (oA = .ok → getRootJson sA = getRootJson sB))

def StepRel (prog progB : Program) (sel src : Bytes) : StepRes → StepRes → Prop
  | .done sA, .done sB => MainRel prog progB sA sB
  | .finished oA sA, .finished oB sB => FinRel sel src oA sA oB sB
  | .finished oA _, .done _ => oA = .oof
  | .done _, .finished oB _ => oB = .oof

theorem StepRel.oofL (prog progB : Program) (sel src : Bytes) (s : St) (b : StepRes) :
    StepRel prog progB sel src (.finished .oof s) b := by
  cases b with
  | done _ => exact rfl
  | finished _ _ => exact .inl rfl

theorem StepRel.oofR (prog progB : Program) (sel src : Bytes) (a : StepRes) (s : St) :
    StepRel prog progB sel src a (.finished .oof s) := by
  cases a with
  | done _ => exact rfl
  | finished _ _ => exact .inr (.inl rfl)

theorem FinRel.of_SR (sel src : Bytes) {K : Ctx} {sA sB : St} (h : SR (mainX K) sA sB) {oA oB : Outcome}
    (ho : OutcomeRel sel src oA oB) : FinRel sel src oA sA oB sB :=
  .inr (.inr ⟨ho, h.output, fun _ => h.rootJson⟩)

theorem processRoots_single (prog : Program) (c : CellId) (s : St) :
    processRoots prog [c] s =
      match processRoot prog c s with
      | .ok fl s' => .ok fl s'
      | .err e s' => .err e s'
      | .oof => .oof := by
  simp only [processRoots, bind, EM.bind, pure, EM.pure]
  cases processRoot prog c s with
  | oof => rfl
  | err e s' => rfl
  | ok fl s' => cases fl <;> rfl

/-! ### the files -/

/-! ### run B keeps its builtins (needed when the selector calls them) -/

theorem withSel_ok (prog : Program) (T : SelTok) (E : Expr) (hwf : prog.wfB = true) (hok : okProg prog = true)
    (hwfE : E.wfB = true) (hokE : okE E = true) (hT : isB T.dtok.text = false) :
    (withSel prog T E).wfB = true ∧ okProg (withSel prog T E) = true ∧
      (ruleBody T E).wfB = true ∧ okS (ruleBody T E) = true := by
  have hb : (ruleBody T E).wfB = true := by
    simp [ruleBody, Stmt.wfB, wfSs, Expr.wfB, Expr.nodeOK, T.he, Parser.assignable, Parser.isCompound, hwfE]
  have hob : okS (ruleBody T E) = true := by
    simp [ruleBody, okS, okSs, okE, hT, hokE]
  refine ⟨?_, ?_, hb, hob⟩
  · simp only [Program.wfB, Bool.and_eq_true] at hwf ⊢
    refine ⟨?_, hwf.2⟩
    show (selRule T E :: prog.rules).all Rule.wfB = true
    simp only [List.all_cons, Bool.and_eq_true]
    exact ⟨by simp [Rule.wfB, selRule, hb], hwf.1⟩
  · simp only [okProg, Bool.and_eq_true] at hok ⊢
    refine ⟨?_, hok.2⟩
    show (selRule T E :: prog.rules).all okRule = true
    simp only [List.all_cons, Bool.and_eq_true]
    exact ⟨by simp [okRule, selRule, hob], hok.1⟩

section unary
variable {P : Region} {h0 : Heap} {b0 : Bytes → Option CellId}
variable (progB : Program) (hF : P.F ≤ progB.functions.length) (hwf : progB.wfB = true)
  (hok : okProg progB = true)
include hF hwf hok

theorem BP.ruleStep (T : SelTok) (E : Expr) (hb : (ruleBody T E).wfB = true) (hob : okS (ruleBody T E) = true)
    (v : JVal) :
    BP P h0 b0 KAny (Sel.ruleStep progB T E v) (fun r => P.N ≤ r.1 ∧ GoodV P r.2.1) := by
  unfold Sel.ruleStep
  refine BP.bind (BP.newValueJson v) (fun val hval => BP.bind (BP.newCell hval) (fun c hc => ?_))
  refine BP.enter KSup.any hc ?_
  exact BP.bind (BP.ruleFlow ((allBP P h0 b0 progB hF (Program.wfB_functions hwf) (okProg_functions hok)
    evalFuel).stmt _ hb hob)) (fun fl _ => BP.pure ⟨hc, hval⟩)

theorem BP.processMid (c : CellId) (hc : P.N ≤ c) (bf : List Rule) (hsub : ∀ r ∈ bf, r ∈ progB.rules) :
    BP P h0 b0 KAny (Sel.processMid progB c bf) Tr := by
  unfold Sel.processMid
  refine BP.bind (BP.evalSpecialRules progB hF hwf hok KSup.any _ (fun K' => BP.pure hc) bf hsub) (fun fl _ => ?_)
  split
  · exact BP.pure trivial
  · refine BP.bind (BP.setRoot (c := some c) hc) (fun _ _ => BP.bind (BP.catchExit
      (BP.evalPatternRules progB hF hwf hok KSup.any _ (rulesOf_sub' progB _))) (fun fl2 _ => ?_))
    split <;> exact BP.pure trivial

end unary

/-- one step of run B under the invariant -/
theorem BInv.step {progB : Program} {α : Type} {m : EM α} {R : α → Prop}
    (hm : ∀ h0, BP (P3 progB) h0 b0m KAny m R) {s : St} (h : BInv progB s) :
    match m s with
    | .ok a s' => BInv progB s' ∧ R a
    | .err _ s' => BInv progB s'
    | .oof => True := by
  obtain ⟨h0, inv, e0, e1, e2⟩ := h
  have := hm h0 s inv
  unfold BPat at this
  revert this
  generalize m s = r
  intro this
  cases r with
  | ok a s' => exact ⟨⟨h0, this.1, e0, e1, e2⟩, this.2⟩
  | err e s' => exact ⟨h0, this.err_inv, e0, e1, e2⟩
  | oof => trivial

theorem BInv.init (progB : Program) (hok : okProg progB = true) :
    BInv progB (newEvaluator progB Heap.empty [] 0) := by
  obtain ⟨inv, e0, e1, e2⟩ := newEvaluator_invB progB hok
  exact ⟨_, inv, e0, e1, e2⟩

/-- a file of run B, processed to its end, leaves the invariant in place -/
theorem processFile_invB (progB : Program) (hwf : progB.wfB = true) (hok : okProg progB = true) (src : Bytes)
    (tbl : RuleTable) (file : InputFile) : ∀ (fuel : Nat) (data : Bytes) (sB sB' : St), BInv progB sB →
    processFile progB src tbl [] file fuel data sB = .done sB' → BInv progB sB'
  | 0, _, _, _, _, h => by unfold processFile at h; cases h
  | fuel + 1, data, sB, sB', hinv, h => by
    unfold processFile at h
    cases hd : Json.decodeOne numOk data file.tail with
    | eof => rw [hd] at h; cases h; exact hinv
    | error => rw [hd] at h; cases h
    | needMore => rw [hd] at h; cases h
    | value v rest =>
      rw [hd] at h
      dsimp only at h
      have b1 := BInv.step (fun h0 => BP.setFile (P := P3 progB) (h0 := h0) (b0 := b0m) (K := KAny) file.name) hinv
      revert b1 h
      generalize (do let c ← newCell (.str file.name none); setGlobal b!"$file" c : EM Unit) sB = r1
      intro h b1
      cases r1 with
      | oof => cases h
      | err e s1 => cases h
      | ok u s1 =>
        dsimp only at h
        simp only [List.isEmpty_nil, ↓reduceIte] at h
        have b2 := BInv.step (fun h0 => BP.bind (BP.newValueJson (P := P3 progB) (h0 := h0) (b0 := b0m) (K := KAny) v)
          (fun val hval => BP.newCell hval)) b1.1
        revert b2 h
        generalize (do let val ← newValueJson v; newCell val : EM CellId) s1 = r2
        intro h b2
        cases r2 with
        | oof => cases h
        | err e s2 => cases h
        | ok c s2 =>
          dsimp only at h
          rw [processRoots_single] at h
          have b3 := BInv.step (fun h0 => BP.processRoot (P := P3 progB) (h0 := h0) (b0 := b0m) progB (Nat.le_refl _)
            hwf hok KSup.any c b2.2) b2.1
          revert b3 h
          generalize processRoot progB c s2 = r3
          intro h b3
          cases r3 with
          | oof => cases h
          | err e s3 => cases h
          | ok fl s3 =>
            cases fl with
            | exit => cases h
            | continue_ => exact processFile_invB progB hwf hok src tbl file fuel rest s3 sB' b3.1 h

section Files

variable (prog : Program) (T : SelTok) (E : Expr) (ub : Bool) (hE : selX (fun k => ub && isB k) E = true)
  (hwfE : E.wfB = true)
  (hub : ub = true → prog.wfB = true ∧ okProg prog = true ∧ okE E = true ∧ isB T.dtok.text = false)
  (tbl : RuleTable) (sel : Bytes)
  (hparse : parseExpressionSrc tbl sel = .ok E) (src : Bytes) (hef : EndOK prog)

include hE hwfE hub hparse hef in
theorem processFile_rel (file : InputFile) : ∀ (fuel : Nat) (data : Bytes) (sA sB : St),
    MainRel prog (withSel prog T E) sA sB → (ub = true → BInv (withSel prog T E) sB) →
    StepRel prog (withSel prog T E) sel src
      (processFile prog src tbl [sel] file fuel data sA)
      (processFile (withSel prog T E) src tbl [] file fuel data sB)
  | 0, _, _, _, _, _ => by unfold processFile; exact StepRel.oofL ..
  | fuel + 1, data, sA, sB, hrel, hinv => by
    obtain ⟨K, wf, h0, h0', hKA, hKB, hs, hlen⟩ := hrel
    -- the program of run B satisfies what the invariant needs
    have hpB : ub = true → (withSel prog T E).wfB = true ∧ okProg (withSel prog T E) = true ∧
        (ruleBody T E).wfB = true ∧ okS (ruleBody T E) = true := fun hu =>
      withSel_ok prog T E (hub hu).1 (hub hu).2.1 hwfE (hub hu).2.2.1 (hub hu).2.2.2
    unfold processFile
    cases hd : Json.decodeOne numOk data file.tail with
    | eof => exact ⟨K, wf, h0, h0', hKA, hKB, hs, hlen⟩
    | error => exact FinRel.of_SR sel src hs rfl
    | needMore => exact FinRel.of_SR sel src hs rfl
    | value v rest =>
      dsimp only
      have hsf := sim_setFile wf file.name _ sA sB hs (Nat.le_refl _)
      have hflB := FL.setFile file.name sB
      have eSF : (do let c ← newCell (.str file.name none); setGlobal b!"$file" c : EM Unit) = setFile file.name := rfl
      rw [eSF]
      have hinv1 : ub = true → _ := fun hu =>
        BInv.step (fun h0 => BP.setFile (P := P3 (withSel prog T E)) (h0 := h0) (b0 := b0m) (K := KAny) file.name)
          (hinv hu)
      have eSF' : (do let c ← newCell (.str file.name none); setGlobal b!"$file" c : EM Unit) sB =
        setFile file.name sB := rfl
      rw [eSF'] at hinv1
      revert hsf hflB hinv1
      generalize setFile file.name sA = rA1
      generalize setFile file.name sB = rB1
      intro hsf hflB hinv1
      cases rA1 with
      | oof => exact StepRel.oofL ..
      | err eA s1A =>
        cases rB1 with
        | oof => exact StepRel.oofR ..
        | ok _ _ => exact hsf.elim
        | err eB s1B =>
          obtain ⟨_, rfl, hs1, _⟩ := hsf
          exact FinRel.of_SR sel src hs1 (OutcomeRel.errOutcome sel src eA)
      | ok uA s1A =>
        cases rB1 with
        | oof => exact StepRel.oofR ..
        | err _ _ => exact hsf.elim
        | ok uB s1B =>
          obtain ⟨_, _, hs1⟩ := hsf
          have hlen1 : s1B.frames.length = 1 := by rw [hflB]; exact hlen
          dsimp only
          simp only [List.isEmpty_cons, List.isEmpty_nil, Bool.false_eq_true, ↓reduceIte]
          have hinv1' : ub = true → BInv (withSel prog T E) s1B := fun hu => (hinv1 hu).1
          have hj := junction prog T E ub hE hwfE tbl sel hparse v wf h0 h0' hKA hKB hs1 hlen1
            (fun hu => ⟨hinv1' hu, (hpB hu).1, (hpB hu).2.1, (hub hu).2.2.1⟩)
          have hinvR : ub = true → _ := fun hu =>
            BInv.step (fun h0 => BP.ruleStep (P := P3 (withSel prog T E)) (h0 := h0) (b0 := b0m) (withSel prog T E)
              (Nat.le_refl _) (hpB hu).1 (hpB hu).2.1 T E (hpB hu).2.2.1 (hpB hu).2.2.2 v) (hinv1' hu)
          obtain ⟨vB, sBv, eB1, _, _⟩ := conv_ok v s1B
          have hvb := congrFun (valueB_eq prog T E v) s1B
          simp only [bind, EM.bind, eB1, Jqawk.newCell] at hvb ⊢
          simp only [evalSelectors, processRoots_single]
          rw [hvb]
          revert hj hinvR
          generalize evalSelector tbl sel v s1A = ra
          generalize ruleStep (withSel prog T E) T E v s1B = rb
          intro hj hinvR
          cases hj with
          | oofB a => exact StepRel.oofR ..
          | oofA s b => exact StepRel.oofL ..
          | err oA e sA' sB' ho hout =>
            refine .inr (.inr ⟨?_, by unfold St.output; rw [hout], ?_⟩)
            · cases oA <;> cases e <;> first
                | exact ho.elim
                | exact ⟨ho.2, .inr ⟨ho.1, rfl⟩⟩
                | exact ho
            · intro h; subst h; cases e <;> exact ho.elim
          | ok r c vb sA' sB' K' wf' h0K h0K' hKA' hKB' hs' hlen' hc =>
            simp only [List.reverse_cons, List.reverse_nil, List.nil_append, processRoots_single,
              processRoot_eq prog, bind, EM.bind, readCell]
            have hsim := sim_processMid wf' (rulesOf prog .beginFile)
              (by rw [hKA', hKB', rulesOf_withSel_other prog T E .pattern (by decide)])
              hc (Nat.le_refl _) sA' sB' hs' (Nat.le_refl _)
            have hfl := FL.processMid (withSel prog T E) c (rulesOf prog .beginFile) sB'
            rw [hKA', hKB'] at hsim
            have hinvM : ub = true → _ := fun hu =>
              BInv.step (fun h0 => BP.processMid (P := P3 (withSel prog T E)) (h0 := h0) (b0 := b0m)
                (withSel prog T E) (Nat.le_refl _) (hpB hu).1 (hpB hu).2.1 c (hinvR hu).2.1 (rulesOf prog .beginFile)
                (fun r hr => List.mem_cons_of_mem _ (rulesOf_sub' prog _ r hr))) (hinvR hu).1
            revert hsim hfl hinvM
            generalize processMid prog r (rulesOf prog .beginFile) sA' = pa
            generalize processMid (withSel prog T E) c (rulesOf prog .beginFile) sB' = pb
            intro hsim hfl hinvM
            cases pa with
            | oof => exact StepRel.oofL ..
            | err eA s3A =>
              cases pb with
              | oof => exact StepRel.oofR ..
              | ok _ _ => exact hsim.elim
              | err eB s3B =>
                obtain ⟨_, rfl, hs3, _⟩ := hsim
                exact FinRel.of_SR sel src hs3 (OutcomeRel.errOutcome sel src eA)
            | ok fa s3A =>
              cases pb with
              | oof => exact StepRel.oofR ..
              | err _ _ => exact hsim.elim
              | ok fb s3B =>
                obtain ⟨_, hf, hs3⟩ := hsim
                cases hf
                cases fa with
                | exit => exact FinRel.of_SR sel src hs3 trivial
                | continue_ =>
                  dsimp only
                  have hend := endfile_rel' prog (withSel prog T E) rfl hef (sA'.heap.get r) vb s3A s3B
                    ⟨K', wf', h0K, h0K', hKA', hKB', hs3, by rw [hfl]; exact hlen'⟩
                  have hinvE : ub = true → _ := fun hu =>
                    BInv.step (fun h0 => BP.evalSpecialRules (P := P3 (withSel prog T E)) (h0 := h0) (b0 := b0m)
                      (withSel prog T E) (Nat.le_refl _) (hpB hu).1 (hpB hu).2.1 KSup.any (newCell vb)
                      (fun K' => BP.newCell (hinvR hu).2.2) (rulesOf prog .endFile)
                      (fun r hr => List.mem_cons_of_mem _ (rulesOf_sub' prog _ r hr))) (hinvM hu).1
                  revert hend hinvE
                  generalize evalSpecialRules prog (newCell (sA'.heap.get r)) (rulesOf prog .endFile) s3A = ea
                  generalize evalSpecialRules (withSel prog T E) (newCell vb) (rulesOf prog .endFile) s3B = eb
                  intro hend hinvE
                  cases ea with
                  | oof => exact StepRel.oofL ..
                  | err eA s4A =>
                    cases eb with
                    | oof => exact StepRel.oofR ..
                    | ok _ _ => exact hend.elim
                    | err eB s4B =>
                      obtain ⟨rfl, K4, hs4⟩ := hend
                      exact FinRel.of_SR sel src hs4 (OutcomeRel.errOutcome sel src eA)
                  | ok ga s4A =>
                    cases eb with
                    | oof => exact StepRel.oofR ..
                    | err _ _ => exact hend.elim
                    | ok gb s4B =>
                      obtain ⟨rfl, hrel4⟩ := hend
                      cases ga with
                      | exit =>
                        obtain ⟨K4, _, _, _, _, _, hs4, _⟩ := hrel4
                        exact FinRel.of_SR sel src hs4 trivial
                      | continue_ => exact processFile_rel file fuel rest s4A s4B hrel4 (fun hu => (hinvE hu).1)

include hE hwfE hub hparse hef in
theorem processFiles_rel : ∀ (files : List InputFile) (sA sB : St), MainRel prog (withSel prog T E) sA sB →
    (ub = true → BInv (withSel prog T E) sB) →
    StepRel prog (withSel prog T E) sel src
      (processFiles prog src tbl [sel] files sA) (processFiles (withSel prog T E) src tbl [] files sB)
  | [], sA, sB, h, _ => h
  | f :: rest, sA, sB, h, hinv => by
    unfold processFiles
    have h1 := processFile_rel prog T E ub hE hwfE hub tbl sel hparse src hef f (f.data.length + 2) f.data sA sB h hinv
    have hinv2 : ub = true → ∀ sB', processFile (withSel prog T E) src tbl [] f (f.data.length + 2) f.data sB = .done sB' →
        BInv (withSel prog T E) sB' := fun hu sB' he =>
      have hp := withSel_ok prog T E (hub hu).1 (hub hu).2.1 hwfE (hub hu).2.2.1 (hub hu).2.2.2
      processFile_invB (withSel prog T E) hp.1 hp.2.1 src tbl f _ _ sB sB' (hinv hu) he
    revert h1 hinv2
    generalize processFile prog src tbl [sel] f (f.data.length + 2) f.data sA = ra
    generalize processFile (withSel prog T E) src tbl [] f (f.data.length + 2) f.data sB = rb
    intro h1 hinv2
    cases ra with
    | done sA' =>
      cases rb with
      | done sB' => exact processFiles_rel rest sA' sB' h1 (fun hu => hinv2 hu sB' rfl)
      | finished oB sB' => cases h1; exact StepRel.oofR ..
    | finished oA sA' =>
      cases rb with
      | done sB' => cases h1; exact StepRel.oofL ..
      | finished oB sB' => exact h1

/-- how the two runs ended -/
def RunRel (sel src : Bytes) (rA rB : RunResult) : Prop :=
  rA.outcome = .oof ∨ rB.outcome = .oof ∨
    (OutcomeRel sel src rA.outcome rB.outcome ∧ rA.out = rB.out ∧
      (rA.outcome = .ok → rA.st.bind getRootJson = rB.st.bind getRootJson))

omit hE hwfE hub hparse hef in
theorem RunRel.finish {sel src : Bytes} {oA oB : Outcome} {sA sB : St} (h : FinRel sel src oA sA oB sB) :
    RunRel sel src (finishRun oA sA) (finishRun oB sB) := by
  rcases h with h | h | ⟨h1, h2, h3⟩
  · exact .inl h
  · exact .inr (.inl h)
  · exact .inr (.inr ⟨h1, h2, fun e => by
      show (some sA).bind getRootJson = (some sB).bind getRootJson
      simp only [Option.bind_some]; exact h3 e⟩)

omit hE hwfE hub hparse hef in
theorem special_rel (k : RuleKind) (hk : k ≠ .beginFile) {sA sB : St} (h : MainRel prog (withSel prog T E) sA sB) :
    match evalSpecialRules prog (newCell (.nil none)) (rulesOf prog k) sA,
          evalSpecialRules (withSel prog T E) (newCell (.nil none)) (rulesOf (withSel prog T E) k) sB with
    | .oof, _ => True
    | _, .oof => True
    | .ok fa sA', .ok fb sB' => fa = fb ∧ MainRel prog (withSel prog T E) sA' sB'
    | .err eA sA', .err eB sB' => eA = eB ∧ ∃ K : Ctx, SR (mainX K) sA' sB'
    | _, _ => False := by
  obtain ⟨K, wf, h0, h0', hKA, hKB, hs, hlen⟩ := h
  rw [rulesOf_withSel_other prog T E k hk]
  have hsim := sim_evalSpecialRules' (X := mainX K) (mainX_good wf) (mkA := newCell (.nil none))
    (mkB := newCell (.nil none)) (w0 := 0)
    (fun w _ => SimW.newCell (mainX_wf wf) (ValR.nilNone 0) (Nat.zero_le _)) (rulesOf prog k)
    sB.heap.cells.size (Nat.zero_le _) (fun r _ => idsS_all r.body) sA sB hs (Nat.le_refl _)
  have hfl := FL.evalSpecialRules (withSel prog T E) (mk := newCell (.nil none)) (FL.of_safe (Safe.newCell _))
    (rulesOf prog k) sB
  have eA : (mainX K).progA = prog := hKA
  have eB : (mainX K).progB = withSel prog T E := hKB
  rw [eA, eB] at hsim
  revert hsim hfl
  generalize evalSpecialRules prog (newCell (.nil none)) (rulesOf prog k) sA = ra
  generalize evalSpecialRules (withSel prog T E) (newCell (.nil none)) (rulesOf prog k) sB = rb
  intro hsim hfl
  cases ra with
  | oof => trivial
  | ok fa sA' =>
    cases rb with
    | oof => trivial
    | err _ _ => exact hsim.elim
    | ok fb sB' =>
      exact ⟨hsim.2.1, K, wf, h0, h0', hKA, hKB, hsim.2.2, by rw [hfl]; exact hlen⟩
  | err eA sA' =>
    cases rb with
    | oof => trivial
    | ok _ _ => exact hsim.elim
    | err eB sB' => exact ⟨hsim.2.1, K, hsim.2.2.1⟩

omit hE hwfE hub hparse hef in
theorem runEnd_rel {sA sB : St} (h : MainRel prog (withSel prog T E) sA sB) :
    RunRel sel src (runEnd prog src sA) (runEnd (withSel prog T E) src sB) := by
  unfold runEnd
  have h1 := special_rel prog T E .end_ (by decide) h
  revert h1
  generalize evalSpecialRules prog (newCell (.nil none)) (rulesOf prog .end_) sA = ra
  generalize evalSpecialRules (withSel prog T E) (newCell (.nil none)) (rulesOf (withSel prog T E) .end_) sB = rb
  intro h1
  cases ra with
  | oof => exact .inl rfl
  | ok fa sA' =>
    cases rb with
    | oof => exact .inr (.inl rfl)
    | err _ _ => exact h1.elim
    | ok fb sB' =>
      obtain ⟨_, K, _, _, _, _, _, hs, _⟩ := h1
      exact RunRel.finish (FinRel.of_SR sel src hs trivial)
  | err eA sA' =>
    cases rb with
    | oof => exact .inr (.inl rfl)
    | ok _ _ => exact h1.elim
    | err eB sB' =>
      obtain ⟨rfl, K, hs⟩ := h1
      exact RunRel.finish (FinRel.of_SR sel src hs (OutcomeRel.errOutcome sel src eA))

include hE hwfE hub hparse hef in
theorem runFiles_rel (files : List InputFile) {sA sB : St} (h : MainRel prog (withSel prog T E) sA sB)
    (hinv : ub = true → BInv (withSel prog T E) sB) :
    RunRel sel src (runFiles prog src tbl [sel] files sA) (runFiles (withSel prog T E) src tbl [] files sB) := by
  unfold runFiles
  have h1 := processFiles_rel prog T E ub hE hwfE hub tbl sel hparse src hef files sA sB h hinv
  revert h1
  generalize processFiles prog src tbl [sel] files sA = ra
  generalize processFiles (withSel prog T E) src tbl [] files sB = rb
  intro h1
  cases ra with
  | done sA' =>
    cases rb with
    | done sB' => exact runEnd_rel prog T E sel src h1
    | finished oB sB' => cases h1; exact .inr (.inl rfl)
  | finished oA sA' =>
    cases rb with
    | done sB' => cases h1; exact .inl rfl
    | finished oB sB' => exact RunRel.finish h1

include hE hwfE hub hparse hef in
/-- **`-r E` against `BEGINFILE { $ = E }`, whole runs** -/
theorem runProgram_rel (files : List InputFile) :
    RunRel sel src (runProgram prog src tbl [sel] files)
      (runProgram (withSel prog T E) src tbl [] files) := by
  unfold runProgram
  have h1 := special_rel prog T E .begin_ (by decide) (mainRel_init prog T E)
  have hinv0 : ub = true → _ := fun hu =>
    have hp := withSel_ok prog T E (hub hu).1 (hub hu).2.1 hwfE (hub hu).2.2.1 (hub hu).2.2.2
    BInv.step (fun h0 => BP.evalSpecialRules (P := P3 (withSel prog T E)) (h0 := h0) (b0 := b0m)
      (withSel prog T E) (Nat.le_refl _) hp.1 hp.2.1 KSup.any (newCell (.nil none))
      (fun K' => BP.newCell trivial) (rulesOf (withSel prog T E) .begin_) (rulesOf_sub' _ _))
      (BInv.init (withSel prog T E) hp.2.1)
  revert h1 hinv0
  generalize evalSpecialRules prog (newCell (.nil none)) (rulesOf prog .begin_) (newEvaluator prog Heap.empty [] 0) = ra
  generalize evalSpecialRules (withSel prog T E) (newCell (.nil none)) (rulesOf (withSel prog T E) .begin_)
    (newEvaluator (withSel prog T E) Heap.empty [] 0) = rb
  intro h1 hinv0
  cases ra with
  | oof => exact .inl rfl
  | ok fa sA' =>
    cases rb with
    | oof => exact .inr (.inl rfl)
    | err _ _ => exact h1.elim
    | ok fb sB' =>
      obtain ⟨rfl, hrel⟩ := h1
      cases fa with
      | exit =>
        obtain ⟨K, _, _, _, _, _, hs, _⟩ := hrel
        exact RunRel.finish (FinRel.of_SR sel src hs trivial)
      | continue_ => exact runFiles_rel prog T E ub hE hwfE hub tbl sel hparse src hef files hrel (fun hu => (hinv0 hu).1)
  | err eA sA' =>
    cases rb with
    | oof => exact .inr (.inl rfl)
    | ok _ _ => exact h1.elim
    | err eB sB' =>
      obtain ⟨rfl, K, hs⟩ := h1
      exact RunRel.finish (FinRel.of_SR sel src hs (OutcomeRel.errOutcome sel src eA))

end Files
end Sel
end Jqawk
