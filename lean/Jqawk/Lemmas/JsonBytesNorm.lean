import Jqawk.Lemmas.JsonBytesCanon
import Jqawk.Lemmas.NewValue
/-!
  `JVal.norm` (the tree that comes back from the heap, Lemmas/NewValue.lean) of a `Plain` document
  has strictly ascending keys at every level, so the byte-level round trip returns it unchanged.
-/
namespace Jqawk.JsonBytes
open Jqawk Jqawk.Json

theorem insertK_sortedKeys {α : Type} (kv : Bytes × α) (l : List (Bytes × α)) (h : SortedKeys l)
    (hne : ∀ y ∈ l, kv.1 ≠ y.1) : SortedKeys (insertK kv l) := by
  induction l with
  | nil => simp [insertK, SortedKeys]
  | cons x xs ih =>
    simp only [SortedKeys, List.pairwise_cons] at h
    obtain ⟨h1, h2⟩ := h
    simp only [insertK]
    split
    · rename_i hle
      have hlt : cmpBytes kv.1 x.1 = .lt := by
        rw [cmpBytes_eq_cmp]
        rcases (Bytes.le_iff _ _).1 hle with h | h
        · exact h
        · exact absurd h (hne x (by simp))
      simp only [SortedKeys, List.pairwise_cons]
      refine ⟨?_, h1, h2⟩
      intro y hy
      rcases List.mem_cons.1 hy with rfl | hy
      · exact hlt
      · have := h1 y hy
        rw [cmpBytes_eq_cmp] at *
        exact Bytes.cmp_lt_trans _ _ _ hlt this
    · rename_i hle
      have hlt : cmpBytes x.1 kv.1 = .lt := by
        rw [cmpBytes_eq_cmp]; exact Bytes.not_le _ _ (by simpa using hle)
      simp only [SortedKeys, List.pairwise_cons]
      refine ⟨?_, ih h2 fun y hy => hne y (by simp [hy])⟩
      intro y hy
      rcases List.mem_cons.1 ((insertK_perm kv xs).mem_iff.1 hy) with rfl | hy
      · exact hlt
      · exact h1 y hy

theorem sortK_sortedKeys {α : Type} (l : List (Bytes × α)) (hd : l.Pairwise fun x y => x.1 ≠ y.1) :
    SortedKeys (sortK l) := by
  induction l with
  | nil => simp [sortK, SortedKeys]
  | cons x xs ih =>
    simp only [List.pairwise_cons] at hd
    simp only [sortK]
    exact insertK_sortedKeys x _ (ih hd.2) fun y hy => hd.1 y ((sortK_perm xs).mem_iff.1 hy)

theorem sortedJMembers_iff (l : List (Bytes × JVal)) : SortedJMembers l ↔ ∀ kv ∈ l, SortedJ kv.2 := by
  induction l with
  | nil => simp [SortedJMembers]
  | cons x xs ih => obtain ⟨k, v⟩ := x; simp [SortedJMembers, ih]

theorem normMembers_pairwise (ms : List (Bytes × JVal)) (h : ms.Pairwise fun x y => x.1 ≠ y.1) :
    (JVal.normMembers ms).Pairwise fun x y => x.1 ≠ y.1 := by
  rw [JVal.normMembers_eq, List.pairwise_map]
  exact h

mutual
theorem sortedJ_norm : ∀ (j : JVal), j.Plain → SortedJ j.norm
  | .null, _ => trivial
  | .bool _, _ => trivial
  | .num _, _ => trivial
  | .str _, _ => trivial
  | .arr xs, h => by
    simp only [JVal.norm, SortedJ]; exact sortedJ_normList xs (by simpa [JVal.Plain] using h)
  | .obj ms, h => by
    simp only [JVal.Plain] at h
    simp only [JVal.norm, SortedJ]
    refine ⟨sortK_sortedKeys _ (normMembers_pairwise ms h.1), (sortedJMembers_iff _).2 ?_⟩
    intro kv hkv
    exact sortedJ_normMembers ms h.2 kv ((sortK_perm _).mem_iff.1 hkv)
theorem sortedJ_normList : ∀ (xs : List JVal), JVal.PlainList xs → SortedJList (JVal.normList xs)
  | [], _ => trivial
  | x :: xs, h => by
    simp only [JVal.PlainList] at h
    simp only [JVal.normList, SortedJList]
    exact ⟨sortedJ_norm x h.1, sortedJ_normList xs h.2⟩
theorem sortedJ_normMembers : ∀ (ms : List (Bytes × JVal)), JVal.PlainMembers ms →
    ∀ kv ∈ JVal.normMembers ms, SortedJ kv.2
  | [], _ => fun _ h => by cases h
  | (k, v) :: ms, h => fun kv hkv => by
    simp only [JVal.PlainMembers] at h
    simp only [JVal.normMembers] at hkv
    rcases List.mem_cons.1 hkv with e | hkv
    · rw [e]; exact sortedJ_norm v h.1
    · exact sortedJ_normMembers ms h.2 kv hkv
end

theorem utf8OKMembers_iff (l : List (Bytes × JVal)) :
    Utf8OKMembers l ↔ ∀ kv ∈ l, validUtf8 0 kv.1 = true ∧ Utf8OK kv.2 := by
  induction l with
  | nil => simp [Utf8OKMembers]
  | cons x xs ih => obtain ⟨k, v⟩ := x; simp [Utf8OKMembers, ih, and_assoc]

mutual
theorem utf8OK_norm : ∀ (j : JVal), Utf8OK j → Utf8OK j.norm
  | .null, _ => trivial
  | .bool _, _ => trivial
  | .num _, _ => trivial
  | .str _, h => h
  | .arr xs, h => by simp only [JVal.norm, Utf8OK]; exact utf8OK_normList xs h
  | .obj ms, h => by
    simp only [JVal.norm, Utf8OK]
    rw [utf8OKMembers_iff]
    intro kv hkv
    exact utf8OK_normMembers ms h kv ((sortK_perm _).mem_iff.1 hkv)
theorem utf8OK_normList : ∀ (xs : List JVal), Utf8OKList xs → Utf8OKList (JVal.normList xs)
  | [], _ => trivial
  | x :: xs, h => ⟨utf8OK_norm x h.1, utf8OK_normList xs h.2⟩
theorem utf8OK_normMembers : ∀ (ms : List (Bytes × JVal)), Utf8OKMembers ms →
    ∀ kv ∈ JVal.normMembers ms, validUtf8 0 kv.1 = true ∧ Utf8OK kv.2
  | [], _ => fun _ h => by cases h
  | (k, v) :: ms, h => fun kv hkv => by
    simp only [JVal.normMembers] at hkv
    rcases List.mem_cons.1 hkv with e | hkv
    · rw [e]; exact ⟨h.1, utf8OK_norm v h.2.1⟩
    · exact utf8OK_normMembers ms h.2.2 kv hkv
end

theorem depthMembers_perm {l1 l2 : List (Bytes × JVal)} (p : l1.Perm l2) : depthMembers l1 = depthMembers l2 := by
  induction p with
  | nil => rfl
  | cons x _ ih => obtain ⟨k, v⟩ := x; simp only [depthMembers, ih]
  | swap x y l => obtain ⟨k, v⟩ := x; obtain ⟨k', v'⟩ := y; simp only [depthMembers]; omega
  | trans _ _ ih1 ih2 => exact ih1.trans ih2

mutual
theorem depth_norm : ∀ (j : JVal), depth j.norm = depth j
  | .null => rfl
  | .bool _ => rfl
  | .num _ => rfl
  | .str _ => rfl
  | .arr xs => by simp only [JVal.norm, depth]; rw [depth_normList xs]
  | .obj ms => by
    simp only [JVal.norm, depth]; rw [depthMembers_perm (sortK_perm _), depth_normMembers ms]
theorem depth_normList : ∀ (xs : List JVal), depthList (JVal.normList xs) = depthList xs
  | [] => rfl
  | x :: xs => by simp only [JVal.normList, depthList]; rw [depth_norm x, depth_normList xs]
theorem depth_normMembers : ∀ (ms : List (Bytes × JVal)), depthMembers (JVal.normMembers ms) = depthMembers ms
  | [] => rfl
  | (k, v) :: ms => by simp only [JVal.normMembers, depthMembers]; rw [depth_norm v, depth_normMembers ms]
end

/-- the document-level round trip: for a `Plain` document `j` (distinct keys, finite numbers) with
    valid UTF-8 text and depth ≤ 10000, whose re-formatted number literals satisfy `NumLit`, the
    bytes written for `j.norm` decode to `j.norm`, all bytes consumed -/
theorem norm_bytes_round_trip (f : Bytes → Bool) (j : JVal) (hp : j.Plain) (hu : Utf8OK j)
    (hd : depth j ≤ maxNestingDepth) (hn : NumsOK f j.norm) :
    decodeOne f (marshalIndent j.norm) .eof = .value j.norm [] := by
  have h1 := top_eof f j.norm hn (by rw [depth_norm]; exact hd)
  rw [reread_eq_canonJ _ (utf8OK_norm j hu), canonJ_of_sorted _ (sortedJ_norm j hp)] at h1
  exact h1

mutual
/-- every number literal of the tree denotes a finite double (the number part of `JVal.Plain`) -/
def FiniteNums : JVal → Prop
  | .num lit => ((F64.parse lit).getD F64.zero).jsonFormat ≠ none
  | .arr xs => FiniteNumsList xs
  | .obj ms => FiniteNumsMembers ms
  | _ => True
def FiniteNumsList : List JVal → Prop
  | [] => True
  | x :: xs => FiniteNums x ∧ FiniteNumsList xs
def FiniteNumsMembers : List (Bytes × JVal) → Prop
  | [] => True
  | (_, v) :: ms => FiniteNums v ∧ FiniteNumsMembers ms
end

theorem sortedKeys_distinct {α : Type} (l : List (Bytes × α)) (h : SortedKeys l) :
    l.Pairwise fun x y => x.1 ≠ y.1 := by
  refine List.Pairwise.imp ?_ h
  intro x y hlt he
  rw [he, cmpBytes_eq_cmp, Bytes.cmp_refl] at hlt
  cases hlt

mutual
/-- strictly ascending keys and finite numbers make a `Plain` document -/
theorem plain_of_sorted : ∀ (j : JVal), SortedJ j → FiniteNums j → j.Plain
  | .null, _, _ => trivial
  | .bool _, _, _ => trivial
  | .str _, _, _ => trivial
  | .num _, _, h => h
  | .arr xs, h1, h2 => by simp only [JVal.Plain]; exact plainList_of_sorted xs h1 h2
  | .obj ms, h1, h2 => by
    simp only [JVal.Plain]
    exact ⟨sortedKeys_distinct ms h1.1, plainMembers_of_sorted ms h1.2 h2⟩
theorem plainList_of_sorted : ∀ (xs : List JVal), SortedJList xs → FiniteNumsList xs → JVal.PlainList xs
  | [], _, _ => trivial
  | x :: xs, h1, h2 => ⟨plain_of_sorted x h1.1 h2.1, plainList_of_sorted xs h1.2 h2.2⟩
theorem plainMembers_of_sorted : ∀ (ms : List (Bytes × JVal)), SortedJMembers ms → FiniteNumsMembers ms →
    JVal.PlainMembers ms
  | [], _, _ => trivial
  | (_, v) :: ms, h1, h2 => ⟨plain_of_sorted v h1.1 h2.1, plainMembers_of_sorted ms h1.2 h2.2⟩
end

end Jqawk.JsonBytes
