/-
  Lemmas about rendering (`pretty`, `toJVal`): termination for every heap by a pigeonhole
  argument on the ancestor path.
-/
import Jqawk.Model.Render
import Jqawk.Lemmas.Order

namespace Jqawk

/-- `omega` does not look through the abbreviations `ArrId`/`ObjId`/`CellId` (= `Nat`) -/
macro "omega_ids" : tactic =>
  `(tactic| ((try unfold ArrId at *); (try unfold ObjId at *); (try unfold CellId at *); omega))

/-! ### small list facts -/

theorem mapM_option_ne_none {α β : Type} (f : α → Option β) (l : List α)
    (hf : ∀ x ∈ l, f x ≠ none) : l.mapM f ≠ none := by
  induction l with
  | nil => simp
  | cons x xs ih =>
    have hx := hf x (by simp)
    have hxs := ih (fun y hy => hf y (by simp [hy]))
    cases h1 : f x with
    | none => exact absurd h1 hx
    | some y =>
      cases h2 : xs.mapM f with
      | none => exact absurd h2 hxs
      | some ys => simp [List.mapM_cons, h1, h2]

/-- pigeonhole: a duplicate-free list of naturals below `N` has at most `N` elements -/
theorem nodup_length_le_of_lt (N : Nat) : ∀ (l : List Nat), l.Nodup → (∀ x ∈ l, x < N) → l.length ≤ N := by
  induction N with
  | zero =>
    intro l _ hl
    cases l with
    | nil => simp
    | cons x xs => exact absurd (hl x (by simp)) (by omega)
  | succ N ih =>
    intro l hnd hl
    have h1 : (l.erase N).Nodup := hnd.erase N
    have h2 : ∀ x ∈ l.erase N, x < N := by
      intro x hx
      have hx' := (hnd.mem_erase_iff).1 hx
      have := hl x hx'.2
      omega
    have h3 := ih _ h1 h2
    have h4 := List.length_erase_le (a := N) (l := l)
    by_cases hm : N ∈ l
    · rw [List.length_erase_of_mem hm] at h3; omega
    · rw [List.erase_of_not_mem hm] at h3; omega


/-! ### valid container ids and the path bound -/

/-- the container id denotes an allocated array / object of the heap -/
def Cont.valid (h : Heap) : Cont → Prop
  | .a i => i < h.arrs.size
  | .o i => i < h.objs.size

/-- number of containers of a heap -/
def Heap.nconts (h : Heap) : Nat := h.arrs.size + h.objs.size

def Cont.code (h : Heap) : Cont → Nat
  | .a i => i
  | .o i => h.arrs.size + i

theorem Cont.code_inj (h : Heap) (c d : Cont) (hc : c.valid h) (hd : d.valid h)
    (e : c.code h = d.code h) : c = d := by
  cases c with
  | a i => cases d with
    | a j => simp only [Cont.code] at e; rw [e]
    | o j => have h1 : i < h.arrs.size := hc
             simp only [Cont.code] at e; omega_ids
  | o i => cases d with
    | a j => have h1 : j < h.arrs.size := hd
             simp only [Cont.code] at e; omega_ids
    | o j => simp only [Cont.code] at e; congr 1; omega_ids

theorem Cont.code_lt (h : Heap) (c : Cont) (hc : c.valid h) : c.code h < h.nconts := by
  cases c with
  | a i => have h1 : i < h.arrs.size := hc
           simp only [Cont.code, Heap.nconts]; omega_ids
  | o i => have h1 : i < h.objs.size := hc
           simp only [Cont.code, Heap.nconts]; omega_ids

/-- pigeonhole on ancestor paths: a duplicate-free path of allocated containers is no longer
    than the number of containers of the heap -/
theorem path_length_le (h : Heap) (path : List Cont) (hnd : path.Nodup)
    (hv : ∀ c ∈ path, c.valid h) : path.length ≤ h.nconts := by
  have h1 : (path.map (Cont.code h)).Nodup := by
    induction path with
    | nil => simp
    | cons c cs ih =>
      rw [List.map_cons, List.nodup_cons]
      rw [List.nodup_cons] at hnd
      refine ⟨?_, ih hnd.2 (fun d hd => hv d (by simp [hd]))⟩
      intro hm
      obtain ⟨d, hd, e⟩ := List.mem_map.1 hm
      have := Cont.code_inj h d c (hv d (by simp [hd])) (hv c (by simp)) e
      exact hnd.1 (this ▸ hd)
  have h2 : ∀ x ∈ path.map (Cont.code h), x < h.nconts := by
    intro x hx
    obtain ⟨d, hd, e⟩ := List.mem_map.1 hx
    exact e ▸ Cont.code_lt h d (hv d hd)
  simpa using nodup_length_le_of_lt _ _ h1 h2

theorem Heap.arr_of_not_valid (h : Heap) (a : ArrId) (hv : ¬ a < h.arrs.size) : h.arr a = #[] := by
  simp only [Heap.arr, Array.getD, dif_neg hv]

theorem Heap.obj_of_not_valid (h : Heap) (o : ObjId) (hv : ¬ o < h.objs.size) : h.obj o = [] := by
  simp only [Heap.obj, Array.getD, dif_neg hv]

theorem onPath_arr (path : List Cont) (a : ArrId) : onPath path (.arr a) = path.contains (.a a) := rfl
theorem onPath_obj (path : List Cont) (o : ObjId) : onPath path (.obj o) = path.contains (.o o) := rfl

/-- the invariant kept by both renderers along the ancestor path -/
structure PathOk (h : Heap) (path : List Cont) : Prop where
  nodup : path.Nodup
  valid : ∀ c ∈ path, c.valid h

theorem PathOk.nil (h : Heap) : PathOk h [] := ⟨List.nodup_nil, by simp⟩

theorem PathOk.snoc {h : Heap} {path : List Cont} (hp : PathOk h path) (c : Cont)
    (hc : c.valid h) (hn : path.contains c = false) : PathOk h (path ++ [c]) := by
  constructor
  · rw [List.nodup_append]
    refine ⟨hp.nodup, by simp, ?_⟩
    intro x hx y hy
    simp at hy; subst hy
    intro e; subst e
    simp at hn; exact hn hx
  · intro d hd
    simp at hd
    rcases hd with hd | rfl
    · exact hp.valid d hd
    · exact hc

/-! ### `pretty` never runs out of fuel -/

/-- General form: along a duplicate-free path of allocated containers, fuel
    `≥ nconts + 1 - path.length` suffices; no assumption on the heap. The side condition
    `check = true ∨ onPath path v = false` holds at every call site (top level: empty path). -/
theorem pretty_ne_none_gen (h : Heap) : ∀ (n : Nat) (path : List Cont) (quote check : Bool) (v : Val),
    PathOk h path → (check = true ∨ onPath path v = false) →
    h.nconts + 1 ≤ path.length + n → pretty h n path quote check v ≠ none := by
  intro n
  induction n with
  | zero =>
    intro path _ _ _ hp _ hlen
    have := path_length_le h path hp.nodup hp.valid
    omega
  | succ n ih =>
    intro path quote check v hp hc hlen
    rw [pretty.eq_def]
    simp only
    split
    · simp
    · rename_i hcond
      have hnp : onPath path v = false := by
        rcases hc with hc | hc
        · simpa [hc] using hcond
        · exact hc
      cases v with
      | arr a =>
        simp only
        by_cases hv : a < h.arrs.size
        · have hp' := hp.snoc (.a a) hv (by rw [← onPath_arr]; exact hnp)
          have := mapM_option_ne_none (fun c => pretty h n (path ++ [.a a]) true true (h.get c))
            (h.arr a).toList (fun c _ => ih _ true true _ hp' (Or.inl rfl) (by simp; omega))
          split
          · rename_i e; exact absurd e this
          · simp
        · simp [Heap.arr_of_not_valid h a hv]
      | obj o =>
        simp only
        by_cases hv : o < h.objs.size
        · have hp' := hp.snoc (.o o) hv (by rw [← onPath_obj]; exact hnp)
          have := mapM_option_ne_none (fun (kv : Bytes × CellId) =>
              match pretty h n (path ++ [.o o]) true true (h.get kv.2) with
              | none => none
              | some r => some ([34] ++ kv.1 ++ [34] ++ b!": " ++ r))
            (sortByKey (h.obj o)) (fun kv _ => by
              have := ih (path ++ [.o o]) true true (h.get kv.2) hp' (Or.inl rfl) (by simp; omega)
              split
              · rename_i e; exact absurd e this
              · simp)
          split
          · rename_i e; exact absurd e this
          · simp
        · simp [Heap.obj_of_not_valid h o hv, sortByKey]
      | _ => simp

/-! ### `toJVal` never runs out of fuel -/

theorem sequence_ne_oof {α : Type} (l : List (GoValRes α)) (hl : ∀ x ∈ l, x ≠ .oof) :
    GoValRes.sequence l ≠ .oof := by
  induction l with
  | nil => simp [GoValRes.sequence]
  | cons x xs ih =>
    have hxs := ih (fun y hy => hl y (by simp [hy]))
    cases x with
    | oof => exact absurd rfl (hl _ (by simp))
    | error m => simp [GoValRes.sequence]
    | ok v =>
      simp only [GoValRes.sequence]
      split <;> simp_all

theorem toJVal_ne_oof_gen (h : Heap) : ∀ (n : Nat) (path : List Cont) (check : Bool) (v : Val),
    PathOk h path → (check = true ∨ onPath path v = false) →
    h.nconts + 1 ≤ path.length + n → toJVal h n path check v ≠ .oof := by
  intro n
  induction n with
  | zero =>
    intro path _ _ hp _ hlen
    have := path_length_le h path hp.nodup hp.valid
    omega
  | succ n ih =>
    intro path check v hp hc hlen
    rw [toJVal.eq_def]
    simp only
    split
    · simp
    · rename_i hcond
      have hnp : onPath path v = false := by
        rcases hc with hc | hc
        · simpa [hc] using hcond
        · exact hc
      cases v with
      | arr a =>
        simp only
        by_cases hv : a < h.arrs.size
        · have hp' := hp.snoc (.a a) hv (by rw [← onPath_arr]; exact hnp)
          have := sequence_ne_oof ((h.arr a).toList.map fun c => toJVal h n (path ++ [.a a]) true (h.get c))
            (fun x hx => by
              obtain ⟨c, _, rfl⟩ := List.mem_map.1 hx
              exact ih _ true _ hp' (Or.inl rfl) (by simp; omega))
          split
          · simp
          · simp
          · rename_i e; exact absurd e this
        · simp [Heap.arr_of_not_valid h a hv, GoValRes.sequence]
      | obj o =>
        simp only
        by_cases hv : o < h.objs.size
        · have hp' := hp.snoc (.o o) hv (by rw [← onPath_obj]; exact hnp)
          have := sequence_ne_oof ((sortByKey (h.obj o)).map fun (kv : Bytes × CellId) =>
              match toJVal h n (path ++ [.o o]) true (h.get kv.2) with
              | .ok j => GoValRes.ok (kv.1, j)
              | .error m => .error m
              | .oof => .oof)
            (fun x hx => by
              obtain ⟨kv, _, rfl⟩ := List.mem_map.1 hx
              have := ih (path ++ [.o o]) true (h.get kv.2) hp' (Or.inl rfl) (by simp; omega)
              split
              · simp
              · simp
              · rename_i e; exact absurd e this)
          split
          · simp
          · simp
          · rename_i e; exact absurd e this
        · simp [Heap.obj_of_not_valid h o hv, sortByKey, GoValRes.sequence]
      | num x => simp only; split <;> simp
      | _ => simp

/-! ### unfolding of `pretty` at containers; the cycle marker -/

def circMarker : Bytes := b!"<circular reference>"

theorem pretty_on_path (h : Heap) (n : Nat) (path : List Cont) (q : Bool) (v : Val)
    (hp : onPath path v = true) : pretty h (n + 1) path q true v = some circMarker := by
  rw [pretty.eq_def]; simp [hp, circMarker]

theorem pretty_arr_unfold (h : Heap) (n : Nat) (path : List Cont) (q check : Bool) (a : ArrId)
    (hp : (check && path.contains (.a a)) = false) :
    pretty h (n + 1) path q check (.arr a) =
      ((h.arr a).toList.mapM (fun c => pretty h n (path ++ [.a a]) true true (h.get c))).map
        (fun parts => [91] ++ joinSep b!", " parts ++ [93]) := by
  rw [pretty.eq_def]
  simp only [onPath_arr, hp]
  cases (h.arr a).toList.mapM (fun c => pretty h n (path ++ [.a a]) true true (h.get c)) <;> simp

theorem pretty_obj_unfold (h : Heap) (n : Nat) (path : List Cont) (q check : Bool) (o : ObjId)
    (hp : (check && path.contains (.o o)) = false) :
    pretty h (n + 1) path q check (.obj o) =
      ((sortByKey (h.obj o)).mapM (fun kv =>
          (pretty h n (path ++ [.o o]) true true (h.get kv.2)).map
            (fun r => [34] ++ kv.1 ++ [34] ++ b!": " ++ r))).map
        (fun parts => [123] ++ joinSep b!", " parts ++ [125]) := by
  rw [pretty.eq_def]
  simp only [onPath_obj, hp]
  have : (fun (kv : Bytes × CellId) =>
          match pretty h n (path ++ [.o o]) true true (h.get kv.2) with
          | none => none
          | some r => some ([34] ++ kv.1 ++ [34] ++ b!": " ++ r)) =
        (fun kv => (pretty h n (path ++ [.o o]) true true (h.get kv.2)).map
            (fun r => [34] ++ kv.1 ++ [34] ++ b!": " ++ r)) := by
    funext kv; cases pretty h n (path ++ [.o o]) true true (h.get kv.2) <;> rfl
  change (if false = true then _ else
      (match (sortByKey (h.obj o)).mapM (fun (kv : Bytes × CellId) =>
          match pretty h n (path ++ [.o o]) true true (h.get kv.2) with
          | none => none
          | some r => some ([34] ++ kv.1 ++ [34] ++ b!": " ++ r)) with
       | none => none
       | some parts => some ([123] ++ joinSep b!", " parts ++ [125]))) = _
  rw [this]
  cases (sortByKey (h.obj o)).mapM (fun kv =>
          (pretty h n (path ++ [.o o]) true true (h.get kv.2)).map
            (fun r => [34] ++ kv.1 ++ [34] ++ b!": " ++ r)) <;> simp

/-- `mapM` in `Option` succeeds exactly with the pointwise results -/
theorem mapM_option_eq_some {α β : Type} (f : α → Option β) :
    ∀ (l : List α) (r : List β), l.mapM f = some r ↔ l.map f = r.map some := by
  intro l
  induction l with
  | nil => intro r; cases r <;> simp
  | cons x xs ih =>
    intro r
    rw [List.mapM_cons]
    cases hx : f x with
    | none =>
      cases r <;> simp [hx]
    | some y =>
      cases hxs : xs.mapM f with
      | none =>
        cases r with
        | nil => simp
        | cons z zs =>
          have := ih zs
          simp [hxs] at this
          simp [hx, this]
      | some ys =>
        have h1 := (ih ys).1 hxs
        cases r with
        | nil => simp
        | cons z zs =>
          simp only [Option.bind_eq_bind, Option.bind_some, pure, Option.some.injEq, List.map_cons,
            List.cons.injEq, hx]
          constructor
          · rintro ⟨rfl, rfl⟩; exact ⟨rfl, h1⟩
          · rintro ⟨rfl, e⟩
            have := (ih zs).2 e
            rw [hxs] at this; cases this; exact ⟨rfl, rfl⟩

/-! ### unfolding of `toJVal` at containers -/

/-- the `match` after `sequence` in the array case -/
def GoValRes.map {α β : Type} (f : α → β) : GoValRes α → GoValRes β
  | .ok v => .ok (f v)
  | .error m => .error m
  | .oof => .oof

theorem toJVal_arr_unfold (h : Heap) (n : Nat) (path : List Cont) (check : Bool) (a : ArrId)
    (hp : (check && path.contains (.a a)) = false) :
    toJVal h (n + 1) path check (.arr a) =
      (GoValRes.sequence ((h.arr a).toList.map fun c => toJVal h n (path ++ [.a a]) true (h.get c))).map
        JVal.arr := by
  rw [toJVal.eq_def]
  simp only [onPath_arr, hp]
  cases GoValRes.sequence ((h.arr a).toList.map fun c => toJVal h n (path ++ [.a a]) true (h.get c)) <;>
    simp [GoValRes.map]

theorem toJVal_obj_unfold (h : Heap) (n : Nat) (path : List Cont) (check : Bool) (o : ObjId)
    (hp : (check && path.contains (.o o)) = false) :
    toJVal h (n + 1) path check (.obj o) =
      (GoValRes.sequence ((sortByKey (h.obj o)).map fun kv =>
          (toJVal h n (path ++ [.o o]) true (h.get kv.2)).map (fun j => (kv.1, j)))).map JVal.obj := by
  rw [toJVal.eq_def]
  simp only [onPath_obj, hp]
  have : (fun (kv : Bytes × CellId) =>
          match toJVal h n (path ++ [.o o]) true (h.get kv.2) with
          | .ok j => GoValRes.ok (kv.1, j)
          | .error m => .error m
          | .oof => .oof) =
        (fun kv => (toJVal h n (path ++ [.o o]) true (h.get kv.2)).map (fun j => (kv.1, j))) := by
    funext kv; cases toJVal h n (path ++ [.o o]) true (h.get kv.2) <;> rfl
  change (if false = true then _ else
      (match GoValRes.sequence ((sortByKey (h.obj o)).map fun (kv : Bytes × CellId) =>
          match toJVal h n (path ++ [.o o]) true (h.get kv.2) with
          | .ok j => GoValRes.ok (kv.1, j)
          | .error m => .error m
          | .oof => .oof) with
       | .ok members => GoValRes.ok (JVal.obj members)
       | .error m => .error m
       | .oof => .oof)) = _
  rw [this]
  cases GoValRes.sequence ((sortByKey (h.obj o)).map fun kv =>
          (toJVal h n (path ++ [.o o]) true (h.get kv.2)).map (fun j => (kv.1, j))) <;>
    simp [GoValRes.map]

/-- `sequence` succeeds exactly with the pointwise results -/
theorem sequence_eq_ok {α : Type} : ∀ (l : List (GoValRes α)) (r : List α),
    GoValRes.sequence l = .ok r ↔ l = r.map .ok := by
  intro l
  induction l with
  | nil => intro r; cases r <;> simp [GoValRes.sequence]
  | cons x xs ih =>
    intro r
    cases x with
    | oof => cases r <;> simp [GoValRes.sequence]
    | error m => cases r <;> simp [GoValRes.sequence]
    | ok v =>
      simp only [GoValRes.sequence]
      cases hs : GoValRes.sequence xs with
      | oof =>
        cases r with
        | nil => simp
        | cons z zs => have := ih zs; simp [hs] at this; simp [this]
      | error m =>
        cases r with
        | nil => simp
        | cons z zs => have := ih zs; simp [hs] at this; simp [this]
      | ok vs =>
        have h1 := (ih vs).1 hs
        cases r with
        | nil => simp
        | cons z zs =>
          simp only [GoValRes.ok.injEq, List.cons.injEq, List.map_cons]
          constructor
          · rintro ⟨rfl, rfl⟩; exact ⟨rfl, h1⟩
          · rintro ⟨rfl, e⟩
            have := (ih zs).2 e
            rw [hs] at this; cases this; exact ⟨rfl, rfl⟩

/-- `sequence` fails with an error iff some element is an error and all before it are ok -/
theorem sequence_error_mem {α : Type} (l : List (GoValRes α)) (m : String)
    (e : GoValRes.sequence l = .error m) : GoValRes.error m ∈ l := by
  induction l with
  | nil => simp [GoValRes.sequence] at e
  | cons x xs ih =>
    cases x with
    | oof => simp [GoValRes.sequence] at e
    | error m' => simp [GoValRes.sequence] at e; simp [e]
    | ok v =>
      simp only [GoValRes.sequence] at e
      split at e <;> simp_all

/-- an element that is an error makes the whole sequence not ok -/
theorem sequence_not_ok_of_error {α : Type} (l : List (GoValRes α)) (m : String)
    (hm : GoValRes.error m ∈ l) : ∀ r, GoValRes.sequence l ≠ .ok r := by
  intro r e
  rw [sequence_eq_ok] at e
  subst e
  simp at hm

/-! ### the renderers see an object only through `sortByKey` -/

theorem pretty_congr (h1 h2 : Heap) (hget : ∀ c, h1.get c = h2.get c) (harr : ∀ a, h1.arr a = h2.arr a)
    (hobj : ∀ o, sortByKey (h1.obj o) = sortByKey (h2.obj o)) : ∀ n, pretty h1 n = pretty h2 n := by
  intro n
  induction n with
  | zero => funext path q check v; simp [pretty]
  | succ n ih =>
    funext path q check v
    rw [pretty.eq_def, pretty.eq_def]
    simp only [ih, hget, harr, hobj]

theorem toJVal_congr (h1 h2 : Heap) (hget : ∀ c, h1.get c = h2.get c) (harr : ∀ a, h1.arr a = h2.arr a)
    (hobj : ∀ o, sortByKey (h1.obj o) = sortByKey (h2.obj o)) : ∀ n, toJVal h1 n = toJVal h2 n := by
  intro n
  induction n with
  | zero => funext path check v; simp [toJVal]
  | succ n ih =>
    funext path check v
    rw [toJVal.eq_def, toJVal.eq_def]
    simp only [ih, hget, harr, hobj]

/-- pointwise reading of `l.map f = parts.map some` -/
theorem map_eq_map_some {α β : Type} (f : α → Option β) (l : List α) (parts : List β)
    (e : l.map f = parts.map some) :
    parts.length = l.length ∧ ∀ i (hi : i < l.length), ∃ x, parts[i]? = some x ∧ f l[i] = some x := by
  have hlen : parts.length = l.length := by simpa using (congrArg List.length e).symm
  refine ⟨hlen, fun i hi => ?_⟩
  have hi' : i < parts.length := by omega
  refine ⟨parts[i], by simp [hi'], ?_⟩
  have := congrArg (fun l => l[i]?) e
  simpa [hi, hi'] using this

end Jqawk
