/-
  Signal discipline (C01, C07): which of the internal signals break / continue / return can
  leave a construct is decided by its syntax.  `canE g e` / `canS g st` over-approximate
  syntactically ("a `break` occurs outside any loop body of the construct", …); the theorem
  `noSig_all` shows that a construct for which the answer is `false` never yields that signal,
  provided no function body of the program lets `break`/`continue` escape (functions absorb
  `return`, loops absorb `break`/`continue`).
-/
import Jqawk.Model.Eval
import Jqawk.Model.Scope

set_option linter.unusedVariables false

namespace Jqawk

/-- no function body lets `break` or `continue` escape (what the parser enforces by parsing
    function bodies with `inLoop = false`) -/
def Program.FnScoped (prog : Program) : Prop :=
  ∀ f ∈ prog.functions, canS .brk f.body = false ∧ canS .cont f.body = false

/-- the computation never ends with signal `g` -/
def NoSig {α : Type} (g : Sig) (m : EM α) : Prop := ∀ s s', m s ≠ .err (.sig g) s'

namespace NoSig

theorem pure {α : Type} (g : Sig) (a : α) : NoSig g (Pure.pure a : EM α) := by
  intro s s' h; cases h

theorem bind {α β : Type} {g : Sig} {m : EM α} {f : α → EM β} (hm : NoSig g m)
    (hf : ∀ a, NoSig g (f a)) : NoSig g (m >>= f) := by
  intro s s' h
  change EM.bind m f s = _ at h
  unfold EM.bind at h
  cases hr : m s with
  | ok a s1 => rw [hr] at h; exact hf a s1 s' h
  | err e s1 => rw [hr] at h; simp only [Res.err.injEq] at h; exact hm s s1 (by rw [hr, h.1, h.2])
  | oof => rw [hr] at h; cases h

theorem oof {α : Type} (g : Sig) : NoSig g (Jqawk.oof : EM α) := by intro s s' h; cases h
theorem getSt (g : Sig) : NoSig g Jqawk.getSt := by intro s s' h; cases h
theorem getHeap (g : Sig) : NoSig g Jqawk.getHeap := by intro s s' h; cases h
theorem readCell (g : Sig) (c : CellId) : NoSig g (Jqawk.readCell c) := by intro s s' h; cases h
theorem throwPanic {α : Type} (g : Sig) (m : String) : NoSig g (Jqawk.throwPanic m : EM α) := by
  intro s s' h; cases h
theorem throwUnmodelled {α : Type} (g : Sig) (m : String) : NoSig g (Jqawk.throwUnmodelled m : EM α) := by
  intro s s' h; cases h
theorem throwRt {α : Type} (g : Sig) (p : Nat) (m : String) : NoSig g (Jqawk.throwRt p m : EM α) := by
  intro s s' h; cases h
theorem throwSig {α : Type} {g g' : Sig} (h : g' ≠ g) : NoSig g (Jqawk.throwSig g' : EM α) := by
  intro s s' he
  simp only [Jqawk.throwSig, Res.err.injEq, Err.sig.injEq] at he
  exact h he.1
theorem newCell (g : Sig) (v : Val) : NoSig g (Jqawk.newCell v) := by intro s s' h; cases h
theorem writeCell (g : Sig) (c : CellId) (v : Val) : NoSig g (Jqawk.writeCell c v) := by
  intro s s' h; cases h
theorem setHeap (g : Sig) (h : Heap) : NoSig g (Jqawk.setHeap h) := by intro s s' h; cases h
theorem emit (g : Sig) (b : Bytes) : NoSig g (Jqawk.emit b) := by intro s s' h; cases h
theorem allocArrM (g : Sig) (items : Array CellId) : NoSig g (Jqawk.allocArrM items) := by
  intro s s' h; cases h
theorem allocObjM (g : Sig) (m : List (Bytes × CellId)) : NoSig g (Jqawk.allocObjM m) := by
  intro s s' h; cases h
theorem modifySt (g : Sig) (f : St → St) : NoSig g (Jqawk.modifySt f) := by intro s s' h; cases h

theorem pushFrame (g : Sig) (name : Bytes) : NoSig g (Jqawk.pushFrame name) := by
  intro s s' h
  unfold Jqawk.pushFrame at h
  split at h <;> cases h

theorem setLocal (g : Sig) (name : Bytes) (c : CellId) : NoSig g (Jqawk.setLocal name c) := by
  intro s s' h
  unfold Jqawk.setLocal at h
  split at h <;> cases h

end NoSig

/-- one decomposition step for goals `NoSig g (…)` -/
macro "nosig_step" : tactic => `(tactic| with_reducible_and_instances first
  | exact NoSig.pure _ _
  | exact NoSig.oof _
  | exact NoSig.getSt _
  | exact NoSig.getHeap _
  | exact NoSig.readCell _ _
  | exact NoSig.throwPanic _ _
  | exact NoSig.throwUnmodelled _ _
  | exact NoSig.throwRt _ _ _
  | exact NoSig.newCell _ _
  | exact NoSig.writeCell _ _ _
  | exact NoSig.setHeap _ _
  | exact NoSig.emit _ _
  | exact NoSig.allocArrM _ _
  | exact NoSig.allocObjM _ _
  | exact NoSig.modifySt _ _
  | exact NoSig.setLocal _ _ _
  | exact NoSig.pushFrame _ _
  | assumption
  | apply NoSig.bind
  | intro _
  | split
  | dsimp only)

macro "nosig_auto" : tactic => `(tactic| repeat' nosig_step)

macro "nosig_auto_with" t:term : tactic =>
  `(tactic| repeat' (first
      | nosig_step
      | (with_reducible_and_instances first
          | exact $t | exact $t _ | exact $t _ _ | exact $t _ _ _ | exact $t _ _ _ _
          | exact $t _ _ _ _ _)))

namespace NoSig

theorem getVariable (g : Sig) (name : Bytes) : NoSig g (Jqawk.getVariable name) := by
  unfold Jqawk.getVariable; nosig_auto
theorem copyValue (g : Sig) (a b : CellId) : NoSig g (Jqawk.copyValue a b) := by
  unfold Jqawk.copyValue; nosig_auto
theorem bindAll (g : Sig) (l : List (Bytes × CellId)) : NoSig g (Jqawk.bindAll l) := by
  induction l with
  | nil => exact pure g ()
  | cons kv rest ih => obtain ⟨k, c⟩ := kv; exact bind (setLocal g k c) (fun _ => ih)
theorem bindParams (g : Sig) (ps : List Bytes) (as : List Val) : NoSig g (Jqawk.bindParams ps as) := by
  induction ps generalizing as with
  | nil => exact pure g ()
  | cons p ps ih =>
    cases as with
    | nil => exact bind (newCell g _) (fun c => bind (setLocal g _ _) (fun _ => ih []))
    | cons a as => exact bind (newCell g _) (fun c => bind (setLocal g _ _) (fun _ => ih as))
theorem allocCells (g : Sig) (vs : List Val) : NoSig g (Jqawk.allocCells vs) := by
  induction vs with
  | nil => exact pure g []
  | cons v vs ih => exact bind (newCell g v) (fun c => bind ih (fun cs => pure g _))
theorem newArrayOf (g : Sig) (vs : List Val) : NoSig g (Jqawk.newArrayOf vs) := by
  unfold Jqawk.newArrayOf
  exact bind (allocCells g vs) (fun cells => bind (getHeap g) (fun h => bind (setHeap g _) (fun _ => pure g _)))

end NoSig

macro "nosig_step2" : tactic => `(tactic| first
  | nosig_step
  | (with_reducible_and_instances first
      | exact NoSig.getVariable _ _
      | exact NoSig.copyValue _ _ _
      | exact NoSig.bindAll _ _
      | exact NoSig.bindParams _ _ _
      | exact NoSig.allocCells _ _
      | exact NoSig.newArrayOf _ _))

theorem NoSig.callNative (g : Sig) (f : Native) (args : List Val) (this : Option Val) :
    NoSig g (Jqawk.callNative f args this) := by
  unfold Jqawk.callNative
  apply NoSig.bind (NoSig.getHeap g)
  intro h
  cases f <;> dsimp only <;> repeat' nosig_step2

theorem NoSig.createSpeculative (g : Sig) (n : Nat) (c : CellId) :
    NoSig g (Jqawk.createSpeculative n c) := by
  induction n generalizing c with
  | zero => exact NoSig.oof g
  | succ n ih =>
    unfold Jqawk.createSpeculative
    repeat' (first | nosig_step2 | (with_reducible_and_instances exact ih _))

theorem NoSig.memberStep (g : Sig) (pos : Nat) (l r : CellId) :
    NoSig g (Jqawk.memberStep pos l r) := by
  unfold Jqawk.memberStep
  repeat' nosig_step2

theorem NoSig.evalAssignment (g : Sig) (pos : Nat) (l r : CellId) :
    NoSig g (Jqawk.evalAssignment pos l r) := by
  unfold Jqawk.evalAssignment
  repeat' (first | nosig_step2 | (with_reducible_and_instances exact NoSig.createSpeculative _ _ _))

/-! ### combinators -/

theorem NoSig.withFrames {α : Type} {g : Sig} (saved : List Frame) {m : EM α} (hm : NoSig g m) :
    NoSig g (Jqawk.withFrames saved m) := by
  intro s s' h
  unfold Jqawk.withFrames at h
  cases hr : m s with
  | ok a s1 => rw [hr] at h; cases h
  | err e s1 =>
    rw [hr] at h
    simp only [Res.err.injEq] at h
    exact hm s s1 (by rw [hr, h.1])
  | oof => rw [hr] at h; cases h

/-- a loop absorbs `break` and `continue` raised by its body -/
theorem NoSig.loopIter_absorb {g : Sig} (hg : g.loopSig = true) {body k : EM Unit} (hk : NoSig g k) :
    NoSig g (Jqawk.loopIter body k) := by
  intro s s' h
  unfold Jqawk.loopIter at h
  cases hr : body s with
  | ok a s1 => rw [hr] at h; exact hk s1 s' h
  | err e s1 =>
    rw [hr] at h
    cases e with
    | sig g' =>
      cases g' with
      | brk => cases h
      | cont => exact hk s1 s' h
      | ret => simp only [Res.err.injEq, Err.sig.injEq] at h; rw [← h.1] at hg; cases hg
      | next => simp only [Res.err.injEq, Err.sig.injEq] at h; rw [← h.1] at hg; cases hg
      | exit => simp only [Res.err.injEq, Err.sig.injEq] at h; rw [← h.1] at hg; cases hg
    | runtime p m => cases h
    | panic m => cases h
    | unmodelled m => cases h
  | oof => rw [hr] at h; cases h

/-- every other signal passes through a loop only if the body or the continuation raises it -/
theorem NoSig.loopIter_pass {g : Sig} {body k : EM Unit} (hb : NoSig g body) (hk : NoSig g k) :
    NoSig g (Jqawk.loopIter body k) := by
  intro s s' h
  unfold Jqawk.loopIter at h
  cases hr : body s with
  | ok a s1 => rw [hr] at h; exact hk s1 s' h
  | err e s1 =>
    rw [hr] at h
    cases e with
    | sig g' =>
      cases g' with
      | brk => cases h
      | cont => exact hk s1 s' h
      | ret => simp only [Res.err.injEq, Err.sig.injEq] at h; exact hb s s1 (by rw [hr, h.1])
      | next => simp only [Res.err.injEq, Err.sig.injEq] at h; exact hb s s1 (by rw [hr, h.1])
      | exit => simp only [Res.err.injEq, Err.sig.injEq] at h; exact hb s s1 (by rw [hr, h.1])
    | runtime p m => cases h
    | panic m => cases h
    | unmodelled m => cases h
  | oof => rw [hr] at h; cases h

/-- a function call absorbs `return` … -/
theorem NoSig.catchReturn_ret {body : EM Unit} : NoSig .ret (Jqawk.catchReturn body) := by
  intro s s' h
  unfold Jqawk.catchReturn at h
  cases hr : body s with
  | ok a s1 => rw [hr] at h; cases h
  | err e s1 =>
    rw [hr] at h
    cases e with
    | sig g' => cases g' <;> cases h
    | runtime p m => cases h
    | panic m => cases h
    | unmodelled m => cases h
  | oof => rw [hr] at h; cases h

/-- … and passes the others only if the body raises them -/
theorem NoSig.catchReturn_pass {g : Sig} {body : EM Unit} (hb : NoSig g body) :
    NoSig g (Jqawk.catchReturn body) := by
  intro s s' h
  unfold Jqawk.catchReturn at h
  cases hr : body s with
  | ok a s1 => rw [hr] at h; cases h
  | err e s1 =>
    rw [hr] at h
    cases e with
    | sig g' =>
      cases g' <;> first
        | (cases h; done)
        | (cases h; exact hb _ _ hr)
    | runtime p m => cases h
    | panic m => cases h
    | unmodelled m => cases h
  | oof => rw [hr] at h; cases h

/-! ### the mutual induction -/

structure AllNoSig (prog : Program) (g : Sig) (n : Nat) : Prop where
  expr : ∀ e, canE g e = false → NoSig g (evalExpr prog n e)
  objItems : ∀ pos items acc, canKVs g items = false → NoSig g (evalObjItems prog n pos items acc)
  exprList : ∀ es c, canEs g es = false → NoSig g (evalExprList prog n es c)
  matchCases : ∀ pos v cs, canCases g cs = false → NoSig g (evalMatchCases prog n pos v cs)
  caseMatch : ∀ v ps, canEs g ps = false → NoSig g (evalCaseMatch prog n v ps)
  arrayCaseMatch : ∀ v ps, canEs g ps = false → NoSig g (evalArrayCaseMatch prog n v ps)
  matchElems : ∀ cs ps acc, canEs g ps = false → NoSig g (Jqawk.matchElems prog n cs ps acc)
  call : ∀ pos f args, NoSig g (callFunction prog n pos f args)
  unary : ∀ e op p, canE g e = false → NoSig g (evalUnary prog n e op p)
  binary : ∀ l r op, canE g l = false → canE g r = false → NoSig g (evalBinary prog n l r op)
  stmt : ∀ st, canS g st = false → NoSig g (evalStmt prog n st)
  block : ∀ sts, canSs g sts = false → NoSig g (evalBlock prog n sts)
  whileL : ∀ c b, canE g c = false → (g.loopSig = false → canS g b = false) →
    NoSig g (whileLoop prog n c b)
  forL : ∀ c p b, canE g c = false → canE g p = false → (g.loopSig = false → canS g b = false) →
    NoSig g (forLoop prog n c p b)
  forInL : ∀ l il b items, (g.loopSig = false → canS g b = false) →
    NoSig g (forInLoop prog n l il b items)

theorem NoSig.getIdentifier (prog : Program) (g : Sig) (t : Token) :
    NoSig g (Jqawk.getIdentifier prog t) := by
  unfold Jqawk.getIdentifier
  repeat' nosig_step2

/-- try the induction hypotheses, finding the syntactic side conditions among the assumptions -/
macro "nosig_ih" ih:term : tactic => `(tactic| with_reducible_and_instances first
  | exact ($ih).expr _ (by assumption)
  | exact ($ih).objItems _ _ _ (by assumption)
  | exact ($ih).exprList _ _ (by assumption)
  | exact ($ih).matchCases _ _ _ (by assumption)
  | exact ($ih).caseMatch _ _ (by assumption)
  | exact ($ih).arrayCaseMatch _ _ (by assumption)
  | exact ($ih).matchElems _ _ _ (by assumption)
  | exact ($ih).call _ _ _
  | exact ($ih).unary _ _ _ (by assumption)
  | exact ($ih).binary _ _ _ (by assumption) (by assumption)
  | exact ($ih).stmt _ (by assumption)
  | exact ($ih).block _ (by assumption)
  | exact ($ih).whileL _ _ (by assumption) (by assumption)
  | exact ($ih).forL _ _ _ (by assumption) (by assumption) (by assumption)
  | exact ($ih).forInL _ _ _ _ (by assumption))

macro "nosig_ind" ih:term : tactic => `(tactic| repeat' (first
  | nosig_ih $ih
  | (with_reducible_and_instances first
      | exact NoSig.evalAssignment _ _ _ _
      | exact NoSig.memberStep _ _ _ _
      | exact NoSig.callNative _ _ _ _
      | exact NoSig.getIdentifier _ _ _
      | apply NoSig.withFrames)
  | nosig_step2))

theorem allNoSig_zero (prog : Program) (g : Sig) : AllNoSig prog g 0 := by
  constructor <;> intros <;>
    first
      | (unfold evalExpr; exact NoSig.oof g)
      | (unfold evalObjItems; exact NoSig.oof g)
      | (unfold evalExprList; exact NoSig.oof g)
      | (unfold evalMatchCases; exact NoSig.oof g)
      | (unfold evalCaseMatch; exact NoSig.oof g)
      | (unfold evalArrayCaseMatch; exact NoSig.oof g)
      | (unfold Jqawk.matchElems; exact NoSig.oof g)
      | (unfold callFunction; exact NoSig.oof g)
      | (unfold evalUnary; exact NoSig.oof g)
      | (unfold evalBinary; exact NoSig.oof g)
      | (unfold evalStmt; exact NoSig.oof g)
      | (unfold evalBlock; exact NoSig.oof g)
      | (unfold whileLoop; exact NoSig.oof g)
      | (unfold forLoop; exact NoSig.oof g)
      | (unfold forInLoop; exact NoSig.oof g)

theorem loopIter_case {g : Sig} {body k : EM Unit} (hk : NoSig g k)
    (hb : g.loopSig = false → NoSig g body) : NoSig g (Jqawk.loopIter body k) := by
  cases hl : g.loopSig with
  | true => exact NoSig.loopIter_absorb hl hk
  | false => exact NoSig.loopIter_pass (hb hl) hk

theorem allNoSig_succ (prog : Program) (g : Sig) (hgc : g.confined = true) (hfs : prog.FnScoped)
    (n : Nat) (ih : AllNoSig prog g n) : AllNoSig prog g (n + 1) := by
  constructor
  · -- evalExpr
    intro e he
    unfold evalExpr
    cases e <;> simp only [canE, Bool.or_eq_false_iff] at he <;> dsimp only <;>
      (try obtain ⟨he1, he2⟩ := he) <;> nosig_ind ih
  · -- evalObjItems
    intro pos items acc h
    cases items with
    | nil => unfold evalObjItems; exact NoSig.pure g _
    | cons kv rest =>
      obtain ⟨k, e⟩ := kv
      simp only [canKVs, Bool.or_eq_false_iff] at h
      obtain ⟨h1, h2⟩ := h
      unfold evalObjItems; nosig_ind ih
  · -- evalExprList
    intro es c h
    cases es with
    | nil => unfold evalExprList; exact NoSig.pure g _
    | cons e rest =>
      simp only [canEs, Bool.or_eq_false_iff] at h
      obtain ⟨h1, h2⟩ := h
      unfold evalExprList; nosig_ind ih
  · -- evalMatchCases
    intro pos v cs h
    cases cs with
    | nil => unfold evalMatchCases; exact NoSig.newCell g _
    | cons c rest =>
      obtain ⟨pats, body⟩ := c
      simp only [canCases, Bool.or_eq_false_iff] at h
      obtain ⟨⟨h1, h2⟩, h3⟩ := h
      unfold evalMatchCases
      cases body with
      | expr be =>
        have h2' : canE g be = false := by simpa [canS] using h2
        nosig_ind ih
      | _ => nosig_ind ih
  · -- evalCaseMatch
    intro v ps h
    cases ps with
    | nil => unfold evalCaseMatch; exact NoSig.pure g _
    | cons p rest =>
      simp only [canEs, Bool.or_eq_false_iff] at h
      obtain ⟨h1, h2⟩ := h
      unfold evalCaseMatch
      cases p with
      | arr t items =>
        have h1' : canEs g items = false := by simpa [canE] using h1
        dsimp only; nosig_ind ih
      | _ => dsimp only <;> nosig_ind ih
  · -- evalArrayCaseMatch
    intro v ps h
    unfold evalArrayCaseMatch
    nosig_ind ih
  · -- matchElems
    intro cs ps acc h
    cases cs with
    | nil => unfold Jqawk.matchElems; exact NoSig.pure g _
    | cons c cs =>
      cases ps with
      | nil => unfold Jqawk.matchElems; exact NoSig.pure g _
      | cons p ps =>
        simp only [canEs, Bool.or_eq_false_iff] at h
        obtain ⟨h1, h2⟩ := h
        have h3 : canEs g [p] = false := by simp [canEs, h1]
        unfold Jqawk.matchElems; nosig_ind ih
  · -- callFunction
    intro pos f args
    unfold callFunction
    have hbody : ∀ (i : Nat) (fd : FuncDef), prog.functions[i]? = some fd →
        NoSig g (catchReturn (evalStmt prog n fd.body)) := by
      intro i fd hfd
      have hmem : fd ∈ prog.functions := List.mem_of_getElem? hfd
      have hsc := hfs fd hmem
      cases g with
      | ret => exact NoSig.catchReturn_ret
      | brk => exact NoSig.catchReturn_pass (ih.stmt _ hsc.1)
      | cont => exact NoSig.catchReturn_pass (ih.stmt _ hsc.2)
      | next => cases hgc
      | exit => cases hgc
    repeat' (first
      | (with_reducible_and_instances exact hbody _ _ (by assumption))
      | nosig_ih ih
      | (with_reducible_and_instances first
          | exact NoSig.callNative _ _ _ _
          | apply NoSig.withFrames)
      | nosig_step2)
  · -- evalUnary
    intro e op p h
    unfold evalUnary
    nosig_ind ih
  · -- evalBinary
    intro l r op hl hr
    unfold evalBinary
    nosig_ind ih
  · -- evalStmt
    intro st h
    unfold evalStmt
    cases st with
    | block t body => simp only [canS] at h; dsimp only; nosig_ind ih
    | print t args => simp only [canS] at h; dsimp only; nosig_ind ih
    | expr e => simp only [canS] at h; dsimp only; nosig_ind ih
    | ret e =>
      cases e with
      | none =>
        simp only [canS, beq_eq_false_iff_ne, ne_eq] at h
        dsimp only
        exact NoSig.bind (NoSig.modifySt g _) (fun _ => NoSig.throwSig (fun hh => h hh.symm))
      | some e =>
        simp only [canS, Bool.or_eq_false_iff, beq_eq_false_iff_ne, ne_eq] at h
        obtain ⟨h1, h2⟩ := h
        dsimp only
        exact NoSig.bind (ih.expr _ h2) (fun _ => NoSig.bind (NoSig.modifySt g _)
          (fun _ => NoSig.throwSig (fun hh => h1 hh.symm)))
    | brk t =>
      simp only [canS, beq_eq_false_iff_ne, ne_eq] at h
      exact NoSig.throwSig (fun hh => h hh.symm)
    | cont t =>
      simp only [canS, beq_eq_false_iff_ne, ne_eq] at h
      exact NoSig.throwSig (fun hh => h hh.symm)
    | next t =>
      simp only [canS, beq_eq_false_iff_ne, ne_eq] at h
      exact NoSig.throwSig (fun hh => h hh.symm)
    | exit t =>
      simp only [canS, beq_eq_false_iff_ne, ne_eq] at h
      exact NoSig.throwSig (fun hh => h hh.symm)
    | if_ c b els =>
      cases els with
      | none =>
        simp only [canS, Bool.or_eq_false_iff] at h
        obtain ⟨h1, h2⟩ := h
        dsimp only; nosig_ind ih
      | some eb =>
        simp only [canS, Bool.or_eq_false_iff] at h
        obtain ⟨⟨h1, h2⟩, h3⟩ := h
        dsimp only; nosig_ind ih
    | while_ c b =>
      simp only [canS, Bool.or_eq_false_iff, Bool.and_eq_false_iff, Bool.not_eq_false'] at h
      obtain ⟨h1, h2⟩ := h
      have hb : g.loopSig = false → canS g b = false := by
        intro hl; rcases h2 with h2 | h2
        · rw [hl] at h2; cases h2
        · exact h2
      dsimp only
      exact ih.whileL _ _ h1 hb
    | for_ pre c post b =>
      simp only [canS, Bool.or_eq_false_iff, Bool.and_eq_false_iff, Bool.not_eq_false'] at h
      obtain ⟨⟨⟨h0, h1⟩, h1'⟩, h2⟩ := h
      have hb : g.loopSig = false → canS g b = false := by
        intro hl; rcases h2 with h2 | h2
        · rw [hl] at h2; cases h2
        · exact h2
      dsimp only
      exact NoSig.bind (ih.expr _ h0) (fun _ => ih.forL _ _ _ h1 h1' hb)
    | forIn id idx iter b =>
      simp only [canS, Bool.or_eq_false_iff, Bool.and_eq_false_iff, Bool.not_eq_false'] at h
      obtain ⟨h1, h2⟩ := h
      have hb : g.loopSig = false → canS g b = false := by
        intro hl; rcases h2 with h2 | h2
        · rw [hl] at h2; cases h2
        · exact h2
      dsimp only
      nosig_ind ih
  · -- evalBlock
    intro sts h
    cases sts with
    | nil => unfold evalBlock; exact NoSig.pure g _
    | cons st rest =>
      simp only [canSs, Bool.or_eq_false_iff] at h
      obtain ⟨h1, h2⟩ := h
      unfold evalBlock; nosig_ind ih
  · -- whileLoop
    intro c b hc hb
    unfold whileLoop
    refine NoSig.bind (ih.expr _ hc) (fun cell => NoSig.bind (NoSig.readCell g _) (fun v => ?_))
    split
    · exact loopIter_case (ih.whileL _ _ hc hb) (fun hl => ih.stmt _ (hb hl))
    · exact NoSig.pure g _
  · -- forLoop
    intro c p b hc hp hb
    unfold forLoop
    refine NoSig.bind (ih.expr _ hc) (fun cell => NoSig.bind (NoSig.readCell g _) (fun v => ?_))
    split
    · exact loopIter_case (NoSig.bind (ih.expr _ hp) (fun _ => ih.forL _ _ _ hc hp hb))
        (fun hl => ih.stmt _ (hb hl))
    · exact NoSig.pure g _
  · -- forInLoop
    intro l il b items hb
    cases items with
    | nil => unfold forInLoop; exact NoSig.pure g _
    | cons it rest =>
      obtain ⟨iv, item⟩ := it
      unfold forInLoop
      repeat' (first
        | (with_reducible_and_instances exact loopIter_case (ih.forInL _ _ _ _ hb) (fun hl => ih.stmt _ (hb hl)))
        | nosig_step2)

/-- **Signal discipline**: for a signal the parser confines (break, continue, return), a
    construct that syntactically cannot let it escape never yields it — at any fuel, from any
    state — in a program whose function bodies confine break and continue. -/
theorem allNoSig (prog : Program) (g : Sig) (hgc : g.confined = true) (hfs : prog.FnScoped) :
    ∀ n, AllNoSig prog g n
  | 0 => allNoSig_zero prog g
  | n + 1 => allNoSig_succ prog g hgc hfs n (allNoSig prog g hgc hfs n)

end Jqawk
