/-
  C13, newline insertion: the simulation relation between two runs of a parser program that
  receive the same tokens but possibly MORE newline flags on the right.

  A ghost state `G` (a function of the tokens delivered so far) says where a flag may be raised:
  not directly after `print`/`return`, not after a comma at print level (a comma whose innermost
  enclosing bracket frame contains a `print` directly — the frame stack is kept by the ghost),
  and not on a `;` token.  `NSim` relates program trees, `R` relates parser states (equal except
  that `didEnd` may be raised on the right, never when the current token is `;`), `Tr`/`NlP` are
  the Hoare-style triples for the state-passing layer.
-/
import Jqawk.Lemmas.PM

namespace Jqawk
namespace Nl

/-! ### the ghost: bracket frames with a "print seen" mark -/

/-- effect on the frame stack of moving past a token with tag `t` -/
def applyTag (t : Tag) (stk : List Bool) : List Bool :=
  match t with
  | .lparen | .lsquare | .lcurly => false :: stk
  | .rparen | .rsquare | .rcurly => stk.tail
  | .print => match stk with
    | [] => []
    | _ :: r => true :: r
  | _ => stk

/-- is the innermost frame marked (the empty stack counts as marked: conservative) -/
def top : List Bool → Bool
  | [] => true
  | b :: _ => b

def isOpen (t : Tag) : Bool := t == .lparen || t == .lsquare || t == .lcurly
def isClose (t : Tag) : Bool := t == .rparen || t == .rsquare || t == .rcurly
def isBracket (t : Tag) : Bool := isOpen t || isClose t

/-- Ghost state: the tag of the parser's current token and the frame stack BEFORE that token. -/
structure G where
  cur : Tag
  stk : List Bool
  deriving DecidableEq, Repr

/-- the ghost after the source has delivered `t` (the former current token is moved past) -/
def G.step (g : G) (t : Token) : G := ⟨t.tag, applyTag g.cur g.stk⟩

/-- May the token `t`, delivered in ghost state `g`, carry a newline flag on the right that it
    does not carry on the left?  Not directly after `print`/`return`, not after a print-level
    comma, and not if `t` is `;`. -/
def Allowed (g : G) (t : Token) : Bool :=
  g.cur != .print && g.cur != .return_ && !(g.cur == .comma && top g.stk) && t.tag != .semiColon

/-- flags `nl` (left) and `nl'` (right) for a token `t` delivered in ghost state `g` -/
def FlagOK (g : G) (t : Token) (nl nl' : Bool) : Prop :=
  nl = nl' ∨ (nl = false ∧ nl' = true ∧ Allowed g t = true)

/-- pointwise `≤` on frame stacks of the same height -/
def Le : List Bool → List Bool → Prop
  | [], [] => True
  | a :: S, b :: S' => (a = true → b = true) ∧ Le S S'
  | _, _ => False

theorem Le.refl : ∀ S, Le S S
  | [] => trivial
  | _ :: S => ⟨id, Le.refl S⟩

theorem Le.trans : ∀ {S₁ S₂ S₃}, Le S₁ S₂ → Le S₂ S₃ → Le S₁ S₃
  | [], [], [], _, _ => trivial
  | _ :: _, _ :: _, _ :: _, h₁, h₂ => ⟨fun h => h₂.1 (h₁.1 h), Le.trans h₁.2 h₂.2⟩
  | [], _ :: _, _, h, _ => h.elim
  | _ :: _, [], _, h, _ => h.elim
  | _, [], _ :: _, _, h => h.elim
  | _, _ :: _, [], _, h => h.elim

theorem Le.top : ∀ {S S'}, Le S S' → top S = true → top S' = true
  | [], [], _, _ => rfl
  | _ :: _, _ :: _, h, ht => h.1 ht
  | [], _ :: _, h, _ => h.elim
  | _ :: _, [], h, _ => h.elim

theorem Le.tail : ∀ {S S'}, Le S S' → Le S.tail S'.tail
  | [], [], _ => trivial
  | _ :: _, _ :: _, h => h.2
  | [], _ :: _, h => h.elim
  | _ :: _, [], h => h.elim

theorem Le.drop : ∀ (k : Nat) {S S' : List Bool}, Le S S' → Le (S.drop k) (S'.drop k)
  | 0, _, _, h => h
  | _ + 1, [], [], _ => trivial
  | k + 1, _ :: _, _ :: _, h => Le.drop k h.2
  | _ + 1, [], _ :: _, h => h.elim
  | _ + 1, _ :: _, [], h => h.elim

/-- the frame stacks of two ghost states, below `i` resp. `j` frames, are related by `Le` -/
def Rel (i j : Nat) (g g' : G) : Prop := Le (g.stk.drop i) (g'.stk.drop j)

theorem Rel.refl (k : Nat) (g : G) : Rel k k g g := Le.refl _

theorem Rel.trans {i j k : Nat} {g₁ g₂ g₃ : G} (h₁ : Rel i j g₁ g₂) (h₂ : Rel j k g₂ g₃) :
    Rel i k g₁ g₃ := Le.trans h₁ h₂

theorem Rel.lift {i j : Nat} {g g' : G} (h : Rel i j g g') (k : Nat) : Rel (i + k) (j + k) g g' := by
  unfold Rel at h ⊢
  rw [← List.drop_drop, ← List.drop_drop]
  exact Le.drop k h

theorem Rel.top {g g' : G} (h : Rel 0 0 g g') (ht : top g.stk = true) : top g'.stk = true :=
  Le.top h ht

theorem applyTag_other {t : Tag} (h : isBracket t = false) (S : List Bool) : Le S (applyTag t S) := by
  cases t <;> first | exact Le.refl S | cases h | skip
  cases S with
  | nil => trivial
  | cons b r => exact ⟨fun _ => rfl, Le.refl r⟩

theorem applyTag_open {t : Tag} (h : isOpen t = true) (S : List Bool) : applyTag t S = false :: S := by
  cases t <;> first | rfl | cases h

theorem applyTag_close {t : Tag} (h : isClose t = true) (S : List Bool) : applyTag t S = S.tail := by
  cases t <;> first | rfl | cases h

/-! ### program trees -/

/-- `NSim Q g m m'`: started in ghost state `g`, the programs `m` (left) and `m'` (right) make
    the same requests as long as they receive the same tokens with flags related by `FlagOK`,
    and end in leaves related by `Q` (indexed by the final ghost state).  The left program may
    fail or run out of fuel at any point: the relation only speaks about successful left runs. -/
inductive NSim {α β : Type} (Q : G → α → β → Prop) : G → PM α → PM β → Prop
  | pure {g : G} {a : α} {b : β} : Q g a b → NSim Q g (.pure a) (.pure b)
  | failL {g : G} {e : SynErr} {m : PM β} : NSim Q g (.fail e) m
  | oofL {g : G} {m : PM β} : NSim Q g .oof m
  | next {g : G} {k : Token → Bool → PM α} {k' : Token → Bool → PM β} :
      (∀ t nl nl', FlagOK g t nl nl' → NSim Q (g.step t) (k t nl) (k' t nl')) →
      NSim Q g (.next k) (.next k')
  | regex {g : G} {k : Token → PM α} {k' : Token → PM β} :
      (∀ t, t.tag = .regex → NSim Q (g.step t) (k t) (k' t)) → NSim Q g (.regex k) (.regex k')

namespace NSim
variable {α β α₂ β₂ : Type}

theorem mono {Q Q' : G → α → β → Prop} {g : G} {m : PM α} {m' : PM β} (h : NSim Q g m m')
    (hq : ∀ g a b, Q g a b → Q' g a b) : NSim Q' g m m' := by
  induction h with
  | pure h => exact .pure (hq _ _ _ h)
  | failL => exact .failL
  | oofL => exact .oofL
  | next _ ih => exact .next ih
  | regex _ ih => exact .regex ih

theorem bind {Q : G → α → β → Prop} {Q₂ : G → α₂ → β₂ → Prop} {g : G} {m : PM α} {m' : PM β}
    {f : α → PM α₂} {f' : β → PM β₂} (h : NSim Q g m m')
    (hf : ∀ g a b, Q g a b → NSim Q₂ g (f a) (f' b)) : NSim Q₂ g (m.bind f) (m'.bind f') := by
  induction h with
  | pure h => exact hf _ _ _ h
  | failL => exact .failL
  | oofL => exact .oofL
  | next _ ih => exact .next ih
  | regex _ ih => exact .regex ih

end NSim

/-! ### parser states -/

/-- Two parser states of the left and the right run: equal except that `didEnd` may be raised on
    the right — but then the current token is not `;`.  The ghost knows the current tag. -/
structure R (g : G) (s s' : PS) : Prop where
  cur : g.cur = s.cur.tag
  eq : s' = { s with didEnd := s'.didEnd }
  flag : s.didEnd = s'.didEnd ∨ (s.didEnd = false ∧ s'.didEnd = true ∧ s.cur.tag ≠ .semiColon)

theorem R.cur_eq {g s s'} (h : R g s s') : s'.cur = s.cur := by rw [h.eq]
theorem R.prev_eq {g s s'} (h : R g s s') : s'.prev = s.prev := by rw [h.eq]
theorem R.inFn_eq {g s s'} (h : R g s s') : s'.inFn = s.inFn := by rw [h.eq]
theorem R.inLoop_eq {g s s'} (h : R g s s') : s'.inLoop = s.inLoop := by rw [h.eq]

theorem R.same {g : G} {s : PS} (h : g.cur = s.cur.tag) : R g s s := ⟨h, rfl, .inl rfl⟩

theorem R.of_eq {g s s'} (h : R g s s') (hd : s.didEnd = s'.didEnd) : s' = s := by
  have := h.eq; rw [← hd] at this; exact this

/-- Hoare-style triple for a parser action run on both sides: from `R`-related states that
    satisfy `pre`, the two runs are `NSim`-related and end in `R`-related states with `post`. -/
def Tr {α : Type} (pre : G → PS → PS → Prop) (m : P α)
    (post : G → G → α × PS → α × PS → Prop) : Prop :=
  ∀ g s s', R g s s' → pre g s s' →
    NSim (fun g' x x' => R g' x.2 x'.2 ∧ post g g' x x') g (m s) (m s')

/-- the standard triple: equal results, and the frame stacks below `i` resp. `j` frames related -/
def NlP {α : Type} (pre : G → PS → PS → Prop) (i j : Nat) (m : P α) : Prop :=
  Tr pre m (fun g g' x x' => x.1 = x'.1 ∧ Rel i j g g')

/-- no precondition -/
def T : G → PS → PS → Prop := fun _ _ _ => True

namespace NlP
variable {α β : Type} {pre : G → PS → PS → Prop} {i j k : Nat}

theorem weaken {pre' : G → PS → PS → Prop} {m : P α} (h : NlP pre' i j m)
    (hp : ∀ g s s', pre g s s' → pre' g s s') : NlP pre i j m :=
  fun g s s' hR hpre => h g s s' hR (hp g s s' hpre)

theorem ofT {m : P α} (h : NlP T i j m) : NlP pre i j m := h.weaken fun _ _ _ _ => trivial

theorem lift {m : P α} (h : NlP pre i j m) (k : Nat) : NlP pre (i + k) (j + k) m :=
  fun g s s' hR hpre => (h g s s' hR hpre).mono fun _ _ _ hq => ⟨hq.1, hq.2.1, hq.2.2.lift k⟩

theorem lift00 {m : P α} (h : NlP T 0 0 m) : NlP pre k k m := by
  have := (h.lift k).ofT (pre := pre); simpa using this

theorem lift10 {m : P α} (h : NlP T 1 0 m) : NlP pre (k + 1) k m := by
  have := (h.lift k).ofT (pre := pre); simpa [Nat.add_comm] using this

theorem bind {m : P α} {f : α → P β} (hm : NlP pre i j m) (hf : ∀ a, NlP T j k (f a)) :
    NlP pre i k (m >>= f) := by
  intro g s s' hR hpre
  show NSim _ g ((m s).bind _) ((m s').bind _)
  refine (hm g s s' hR hpre).bind ?_
  rintro g₁ ⟨a, t⟩ ⟨a', t'⟩ ⟨hR₁, rfl, hrel⟩
  exact (hf a g₁ t t' hR₁ trivial).mono fun _ _ _ hq => ⟨hq.1, hq.2.1, hrel.trans hq.2.2⟩

theorem pure (a : α) : NlP pre k k (Pure.pure a : P α) :=
  fun g _ _ hR _ => .pure ⟨hR, rfl, Rel.refl k g⟩

theorem fail {pos : Nat} {msg : String} : NlP pre i j (Parser.fail pos msg : P α) :=
  fun _ _ _ _ _ => .failL

theorem oof : NlP pre i j (Parser.oof : P α) := fun _ _ _ _ _ => .oofL

/-- `let s ← get; f s` when `f` does not look at `didEnd`: the continuation may assume that the
    (left) state is the one that was read -/
theorem bind_get {f : PS → P α} (hf : ∀ x d, f { x with didEnd := d } = f x)
    (h : ∀ x, NlP (fun g s s' => pre g s s' ∧ s = x) i j (f x)) :
    NlP pre i j (get >>= f) := by
  intro g s s' hR hpre
  show NSim _ g (f s s) (f s' s')
  have e : f s' = f s := by rw [hR.eq]; exact hf _ _
  rw [e]
  exact h s g s s' hR ⟨hpre, rfl⟩

theorem bind_curTag {f : Tag → P α}
    (h : ∀ t, NlP (fun g s s' => pre g s s' ∧ s.cur.tag = t) i j (f t)) :
    NlP pre i j (Parser.curTag >>= f) := by
  intro g s s' hR hpre
  show NSim _ g (f s.cur.tag s) (f s'.cur.tag s')
  rw [hR.cur_eq]
  exact h _ g s s' hR ⟨hpre, rfl⟩

theorem bind_atEnd {f : Bool → P α}
    (h : ∀ b, NlP (fun g s s' => pre g s s' ∧ (s.cur.tag == .eof) = b) i j (f b)) :
    NlP pre i j (Parser.atEnd >>= f) := by
  intro g s s' hR hpre
  show NSim _ g (f (s.cur.tag == .eof) s) (f (s'.cur.tag == .eof) s')
  rw [hR.cur_eq]
  exact h _ g s s' hR ⟨hpre, rfl⟩

/-- a state update that does not touch `cur` and commutes with raising `didEnd` -/
theorem modify {f : PS → PS} (hcur : ∀ x, (f x).cur = x.cur)
    (hd : ∀ x, (f x).didEnd = x.didEnd)
    (hf : ∀ x d, f { x with didEnd := d } = { f x with didEnd := d }) :
    NlP pre k k (modify f : P Unit) := by
  intro g s s' hR _
  refine .pure ⟨⟨?_, ?_, ?_⟩, rfl, Rel.refl k g⟩
  · show g.cur = (f s).cur.tag
    rw [hcur]; exact hR.cur
  · show f s' = { f s with didEnd := (f s').didEnd }
    rw [hd, hR.eq, hf]
  · show (f s).didEnd = (f s').didEnd ∨ _
    rw [hd, hd, hcur]; exact hR.flag

theorem setDidEnd (b : Bool) : NlP pre k k (Parser.setDidEnd b) := by
  intro g s s' hR _
  refine .pure ⟨⟨hR.cur, ?_, .inl rfl⟩, rfl, Rel.refl k g⟩
  show { s' with didEnd := b } = { s with didEnd := b }
  rw [hR.eq]

/-- `advance` in general: from related states; the new flags are related by `FlagOK`, hence the
    new states by `R`; the frame stack changes according to the tag of the old current token. -/
theorem advance_gen {g : G} {s s' : PS} (hR : R g s s') :
    NSim (fun g' (x x' : Unit × PS) => R g' x.2 x'.2 ∧ x.2.prev = s.cur ∧
        g'.stk = applyTag s.cur.tag g.stk ∧
        (Allowed g x.2.cur = false → x.2.didEnd = x'.2.didEnd)) g
      (Parser.advance s) (Parser.advance s') := by
  refine .next fun t nl nl' hfl => .pure ⟨⟨rfl, ?_, ?_⟩, rfl, ?_, ?_⟩
  · show ({ s' with prev := s'.cur, cur := t, didEnd := nl' } : PS) =
      { s with prev := s.cur, cur := t, didEnd := nl' }
    rw [hR.eq]
  · show nl = nl' ∨ (nl = false ∧ nl' = true ∧ t.tag ≠ .semiColon)
    rcases hfl with h | ⟨h1, h2, h3⟩
    · exact .inl h
    · refine .inr ⟨h1, h2, ?_⟩
      simp only [Allowed, Bool.and_eq_true, bne_iff_ne] at h3
      exact h3.2
  · show applyTag g.cur g.stk = _
    rw [hR.cur]
  · intro ha
    show nl = nl'
    rcases hfl with h | ⟨_, _, h3⟩
    · exact h
    · change Allowed g t = true at h3; rw [ha] at h3; cases h3

/-- `advance` over a token that is not a bracket -/
theorem advance_other :
    NlP (fun _ s _ => isBracket s.cur.tag = false) k k Parser.advance := by
  intro g s s' hR hpre
  refine (advance_gen hR).mono fun g' x x' hq => ⟨hq.1, rfl, ?_⟩
  have : Rel 0 0 g g' := by
    unfold Rel; rw [hq.2.2.1]; exact applyTag_other hpre _
  simpa using this.lift k

theorem advance_open :
    NlP (fun _ s _ => isOpen s.cur.tag = true) k (k + 1) Parser.advance := by
  intro g s s' hR hpre
  refine (advance_gen hR).mono fun g' x x' hq => ⟨hq.1, rfl, ?_⟩
  have : Rel 0 1 g g' := by
    unfold Rel; rw [hq.2.2.1, applyTag_open hpre]; exact Le.refl _
  simpa [Nat.add_comm] using this.lift k

theorem advance_close :
    NlP (fun _ s _ => isClose s.cur.tag = true) (k + 1) k Parser.advance := by
  intro g s s' hR hpre
  refine (advance_gen hR).mono fun g' x x' hq => ⟨hq.1, rfl, ?_⟩
  have : Rel 1 0 g g' := by
    unfold Rel; rw [hq.2.2.1, applyTag_close hpre]; simp; exact Le.refl _
  simpa [Nat.add_comm] using this.lift k

theorem consume_other (tag : Tag) (h : isBracket tag = false) : NlP pre k k (Parser.consume tag) := by
  unfold Parser.consume
  refine bind_get (fun _ _ => rfl) fun x => ?_
  split
  · rename_i hx
    refine advance_other.weaken ?_
    rintro g s s' ⟨_, rfl⟩
    rw [beq_iff_eq] at hx; rw [hx]; exact h
  · exact fail

theorem consume_open (tag : Tag) (h : isOpen tag = true) : NlP pre k (k + 1) (Parser.consume tag) := by
  unfold Parser.consume
  refine bind_get (fun _ _ => rfl) fun x => ?_
  split
  · rename_i hx
    refine advance_open.weaken ?_
    rintro g s s' ⟨_, rfl⟩
    rw [beq_iff_eq] at hx; rw [hx]; exact h
  · exact fail

theorem consume_close (tag : Tag) (h : isClose tag = true) : NlP pre (k + 1) k (Parser.consume tag) := by
  unfold Parser.consume
  refine bind_get (fun _ _ => rfl) fun x => ?_
  split
  · rename_i hx
    refine advance_close.weaken ?_
    rintro g s s' ⟨_, rfl⟩
    rw [beq_iff_eq] at hx; rw [hx]; exact h
  · exact fail

theorem consumeOf (tags : List Tag) (h : ∀ t ∈ tags, isBracket t = false) :
    NlP pre k k (Parser.consumeOf tags) := by
  unfold Parser.consumeOf
  refine bind_get (fun _ _ => rfl) fun x => ?_
  split
  · rename_i hx
    refine advance_other.weaken ?_
    rintro g s s' ⟨_, rfl⟩
    exact h _ (List.contains_iff_mem.mp hx)
  · exact fail

theorem consumeIgnore (tag : Tag) (h : isBracket tag = false) :
    NlP pre k k (Parser.consumeIgnore tag) := by
  unfold Parser.consumeIgnore
  refine bind_get (fun _ _ => rfl) fun x => ?_
  split
  · rename_i hx
    refine advance_other.weaken ?_
    rintro g s s' ⟨_, rfl⟩
    rw [beq_iff_eq] at hx; rw [hx]; exact h
  · exact pure ()

end NlP

end Nl
end Jqawk
