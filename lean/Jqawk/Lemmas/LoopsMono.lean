/-
  Fuel monotonicity of the evaluator (C07 infrastructure): more fuel never changes a result
  that was not "out of fuel".  Order on computations: `m ⊑ m'` iff from every state `m` either
  runs out of fuel or ends exactly like `m'`.  `allMono`: every evaluator function at fuel `n`
  is `⊑` itself at fuel `n + 1`; hence the fuel-free reading "the result at any sufficient
  fuel" is well defined (`evalStmt_fuel_irrelevant`).
-/
import Jqawk.Model.Eval

set_option linter.unusedVariables false

namespace Jqawk

/-- `m ⊑ m'`: wherever `m` does not run out of fuel, `m'` ends the same way -/
def EMLe {α : Type} (m m' : EM α) : Prop := ∀ s, m s = .oof ∨ m s = m' s

namespace EMLe

theorem refl {α : Type} (m : EM α) : EMLe m m := fun _ => .inr rfl

theorem oofL {α : Type} (m : EM α) : EMLe (Jqawk.oof : EM α) m := fun _ => .inl rfl

theorem trans {α : Type} {a b c : EM α} (h1 : EMLe a b) (h2 : EMLe b c) : EMLe a c := by
  intro s
  rcases h1 s with h | h
  · exact .inl h
  · rcases h2 s with h' | h'
    · exact .inl (h.trans h')
    · exact .inr (h.trans h')

theorem bind {α β : Type} {m m' : EM α} {f f' : α → EM β} (hm : EMLe m m')
    (hf : ∀ a, EMLe (f a) (f' a)) : EMLe (m >>= f) (m' >>= f') := by
  intro s
  show EM.bind m f s = .oof ∨ EM.bind m f s = EM.bind m' f' s
  unfold EM.bind
  rcases hm s with h | h
  · left; rw [h]
  · rw [← h]
    cases m s with
    | ok a s1 => exact hf a s1
    | err e s1 => right; rfl
    | oof => left; rfl

theorem withFrames {α : Type} (saved : List Frame) {m m' : EM α} (hm : EMLe m m') :
    EMLe (Jqawk.withFrames saved m) (Jqawk.withFrames saved m') := by
  intro s
  unfold Jqawk.withFrames
  rcases hm s with h | h
  · left; rw [h]
  · right; rw [h]

theorem loopIter {body body' k k' : EM Unit} (hb : EMLe body body') (hk : EMLe k k') :
    EMLe (Jqawk.loopIter body k) (Jqawk.loopIter body' k') := by
  intro s
  unfold Jqawk.loopIter
  rcases hb s with h | h
  · left; rw [h]
  · rw [← h]
    cases body s with
    | ok a s1 => exact hk s1
    | err e s1 =>
      cases e with
      | sig g => cases g <;> first | exact hk s1 | (right; rfl)
      | _ => right; rfl
    | oof => left; rfl

theorem catchReturn {body body' : EM Unit} (hb : EMLe body body') :
    EMLe (Jqawk.catchReturn body) (Jqawk.catchReturn body') := by
  intro s
  unfold Jqawk.catchReturn
  rcases hb s with h | h
  · left; rw [h]
  · right; rw [h]

/-- the result at the smaller fuel, if not "out of fuel", is the result at the larger one -/
theorem eq_of_ne_oof {α : Type} {m m' : EM α} (h : EMLe m m') {s : St} (hne : m s ≠ .oof) :
    m' s = m s := by
  rcases h s with h | h
  · exact absurd h hne
  · exact h.symm

end EMLe

/-- one decomposition step for goals `EMLe (…) (…)` whose two sides have the same shape -/
macro "mono_step" : tactic => `(tactic| with_reducible_and_instances first
  | exact EMLe.refl _
  | exact EMLe.oofL _
  | assumption
  | apply EMLe.withFrames
  | apply EMLe.catchReturn
  | apply EMLe.bind
  | intro _
  | split
  | dsimp only)

/-! ### the mutual induction -/

structure AllMono (prog : Program) (n : Nat) : Prop where
  expr : ∀ e, EMLe (evalExpr prog n e) (evalExpr prog (n + 1) e)
  objItems : ∀ pos items acc, EMLe (evalObjItems prog n pos items acc) (evalObjItems prog (n + 1) pos items acc)
  exprList : ∀ es c, EMLe (evalExprList prog n es c) (evalExprList prog (n + 1) es c)
  matchCases : ∀ pos v cs, EMLe (evalMatchCases prog n pos v cs) (evalMatchCases prog (n + 1) pos v cs)
  caseMatch : ∀ v ps, EMLe (evalCaseMatch prog n v ps) (evalCaseMatch prog (n + 1) v ps)
  arrayCaseMatch : ∀ v ps, EMLe (evalArrayCaseMatch prog n v ps) (evalArrayCaseMatch prog (n + 1) v ps)
  matchElems : ∀ cs ps acc, EMLe (Jqawk.matchElems prog n cs ps acc) (Jqawk.matchElems prog (n + 1) cs ps acc)
  call : ∀ pos f args, EMLe (callFunction prog n pos f args) (callFunction prog (n + 1) pos f args)
  unary : ∀ e op p, EMLe (evalUnary prog n e op p) (evalUnary prog (n + 1) e op p)
  binary : ∀ l r op, EMLe (evalBinary prog n l r op) (evalBinary prog (n + 1) l r op)
  stmt : ∀ st, EMLe (evalStmt prog n st) (evalStmt prog (n + 1) st)
  block : ∀ sts, EMLe (evalBlock prog n sts) (evalBlock prog (n + 1) sts)
  whileL : ∀ c b, EMLe (whileLoop prog n c b) (whileLoop prog (n + 1) c b)
  forL : ∀ c p b, EMLe (forLoop prog n c p b) (forLoop prog (n + 1) c p b)
  forInL : ∀ l il b items, EMLe (forInLoop prog n l il b items) (forInLoop prog (n + 1) l il b items)

macro "mono_ih" ih:term : tactic => `(tactic| with_reducible_and_instances first
  | exact ($ih).expr _
  | exact ($ih).objItems _ _ _
  | exact ($ih).exprList _ _
  | exact ($ih).matchCases _ _ _
  | exact ($ih).caseMatch _ _
  | exact ($ih).arrayCaseMatch _ _
  | exact ($ih).matchElems _ _ _
  | exact ($ih).call _ _ _
  | exact ($ih).unary _ _ _
  | exact ($ih).binary _ _ _
  | exact ($ih).stmt _
  | exact ($ih).block _
  | exact ($ih).whileL _ _
  | exact ($ih).forL _ _ _
  | exact ($ih).forInL _ _ _ _
  | exact EMLe.loopIter (($ih).stmt _) (($ih).whileL _ _)
  | exact EMLe.loopIter (($ih).stmt _) (($ih).forInL _ _ _ _)
  | exact EMLe.loopIter (($ih).stmt _) (EMLe.bind (($ih).expr _) (fun _ => ($ih).forL _ _ _)))

macro "mono_ind" ih:term : tactic => `(tactic| repeat' (first | mono_ih $ih | mono_step))

theorem allMono_zero (prog : Program) : AllMono prog 0 := by
  constructor <;> intros <;>
    first
      | (conv => lhs; unfold evalExpr) ; exact EMLe.oofL _
      | (conv => lhs; unfold evalObjItems) ; exact EMLe.oofL _
      | (conv => lhs; unfold evalExprList) ; exact EMLe.oofL _
      | (conv => lhs; unfold evalMatchCases) ; exact EMLe.oofL _
      | (conv => lhs; unfold evalCaseMatch) ; exact EMLe.oofL _
      | (conv => lhs; unfold evalArrayCaseMatch) ; exact EMLe.oofL _
      | (conv => lhs; unfold Jqawk.matchElems) ; exact EMLe.oofL _
      | (conv => lhs; unfold callFunction) ; exact EMLe.oofL _
      | (conv => lhs; unfold evalUnary) ; exact EMLe.oofL _
      | (conv => lhs; unfold evalBinary) ; exact EMLe.oofL _
      | (conv => lhs; unfold evalStmt) ; exact EMLe.oofL _
      | (conv => lhs; unfold evalBlock) ; exact EMLe.oofL _
      | (conv => lhs; unfold whileLoop) ; exact EMLe.oofL _
      | (conv => lhs; unfold forLoop) ; exact EMLe.oofL _
      | (conv => lhs; unfold forInLoop) ; exact EMLe.oofL _

theorem allMono_succ (prog : Program) (n : Nat) (ih : AllMono prog n) : AllMono prog (n + 1) := by
  constructor
  · intro e
    unfold evalExpr
    cases e <;> dsimp only <;> mono_ind ih
  · intro pos items acc
    cases items with
    | nil => unfold evalObjItems; exact EMLe.refl _
    | cons kv rest => obtain ⟨k, e⟩ := kv; unfold evalObjItems; mono_ind ih
  · intro es c
    cases es with
    | nil => unfold evalExprList; exact EMLe.refl _
    | cons e rest => unfold evalExprList; mono_ind ih
  · intro pos v cs
    cases cs with
    | nil => unfold evalMatchCases; exact EMLe.refl _
    | cons c rest => obtain ⟨pats, body⟩ := c; unfold evalMatchCases; mono_ind ih
  · intro v ps
    cases ps with
    | nil => unfold evalCaseMatch; exact EMLe.refl _
    | cons p rest => unfold evalCaseMatch; cases p <;> dsimp only <;> mono_ind ih
  · intro v ps
    unfold evalArrayCaseMatch; mono_ind ih
  · intro cs ps acc
    cases cs with
    | nil => unfold Jqawk.matchElems; exact EMLe.refl _
    | cons c cs =>
      cases ps with
      | nil => unfold Jqawk.matchElems; exact EMLe.refl _
      | cons p ps => unfold Jqawk.matchElems; mono_ind ih
  · intro pos f args
    unfold callFunction; mono_ind ih
  · intro e op p
    unfold evalUnary; mono_ind ih
  · intro l r op
    unfold evalBinary; mono_ind ih
  · intro st
    unfold evalStmt
    cases st <;> dsimp only <;> mono_ind ih
  · intro sts
    cases sts with
    | nil => unfold evalBlock; exact EMLe.refl _
    | cons st rest => unfold evalBlock; mono_ind ih
  · intro c b
    unfold whileLoop; mono_ind ih
  · intro c p b
    unfold forLoop; mono_ind ih
  · intro l il b items
    cases items with
    | nil => unfold forInLoop; exact EMLe.refl _
    | cons it rest => obtain ⟨iv, item⟩ := it; unfold forInLoop; mono_ind ih

/-- **Fuel monotonicity**: every evaluator function at fuel `n` is below itself at `n + 1`. -/
theorem allMono (prog : Program) : ∀ n, AllMono prog n
  | 0 => allMono_zero prog
  | n + 1 => allMono_succ prog n (allMono prog n)

end Jqawk
