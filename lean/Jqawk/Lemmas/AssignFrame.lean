/-
  The frame rule for an assignment whose target exists (C09): `l = r` with read-only `l` and
  `r` evaluates `l` to a cell, evaluates `r`, and then writes exactly that cell.
-/
import Jqawk.Lemmas.ReadOnly

set_option linter.unusedVariables false

namespace Jqawk

/-- the value stands for a missing member (or a method, or a character of a string): assigning
    to its cell goes through `createSpeculativeObjects` -/
def Val.speculative : Val → Bool
  | .nil (some _) => true
  | .native _ _ (some _) => true
  | .str _ (some _) => true
  | _ => false

/-- assignment to a cell that does not stand for a missing member: `copyValue` into that cell,
    nothing else -/
theorem evalAssignment_plain (pos : Nat) (left right : CellId) (s : St)
    (h : (s.heap.get left).speculative = false) :
    evalAssignment pos left right s =
      match copyVal (s.heap.get right) with
      | .ok w => .ok left { s with heap := s.heap.set left w }
      | .error m => Jqawk.throwRt pos m s := by
  unfold evalAssignment
  simp only [bind, EM.bind, readCell]
  revert h
  generalize s.heap.get left = lv
  intro h
  cases lv with
  | nil sp =>
    cases sp with
    | none =>
      simp only [Bool.false_eq_true, ↓reduceIte, pure, EM.pure, copyValue, bind, EM.bind, readCell]
      cases copyVal (s.heap.get right) <;> rfl
    | some x => simp [Val.speculative] at h
  | native f b sp =>
    cases sp with
    | none =>
      simp only [Bool.false_eq_true, ↓reduceIte, pure, EM.pure, copyValue, bind, EM.bind, readCell]
      cases copyVal (s.heap.get right) <;> rfl
    | some x => simp [Val.speculative] at h
  | str x sp =>
    cases sp with
    | none =>
      simp only [Bool.false_eq_true, ↓reduceIte, pure, EM.pure, copyValue, bind, EM.bind, readCell]
      cases copyVal (s.heap.get right) <;> rfl
    | some x => simp [Val.speculative] at h
  | _ =>
    simp only [Bool.false_eq_true, ↓reduceIte, pure, EM.pure, copyValue, bind, EM.bind, readCell]
    cases copyVal (s.heap.get right) <;> rfl

/-- `HeapPreserved` except for the one cell `c` -/
structure HeapPreservedExcept (c : CellId) (h h' : Heap) : Prop where
  cells : h.cells.size ≤ h'.cells.size
  arrs : h.arrs.size ≤ h'.arrs.size
  objs : h.objs.size ≤ h'.objs.size
  get : ∀ d, d ≠ c → d < h.cells.size → h'.get d = h.get d
  arr : ∀ a, a < h.arrs.size → h'.arr a = h.arr a
  obj : ∀ o, o < h.objs.size → h'.obj o = h.obj o

theorem HeapPreserved.set_except {h h1 : Heap} (p : HeapPreserved h h1) (c : CellId) (w : Val) :
    HeapPreservedExcept c h (h1.set c w) := by
  refine ⟨by rw [Heap.size_set]; exact p.cells, p.arrs, p.objs, ?_, p.arr, p.obj⟩
  intro d hd hlt
  rw [Heap.get_set_ne' _ _ _ _ hd]; exact p.get d hlt

/-- the value written is the copy of the source value (if the target cell is allocated) -/
theorem assign_existing_eq (prog : Program) (n : Nat) (l r : Expr) (op : Token) (s s1 s2 : St)
    (lc rc : CellId) (hop : op.tag = .equal)
    (h1 : evalExpr prog n l s = .ok lc s1) (h2 : evalExpr prog n r s1 = .ok rc s2)
    (hns : (s2.heap.get lc).speculative = false) :
    evalExpr prog (n + 2) (.binary l r op) s =
      match copyVal (s2.heap.get rc) with
      | .ok w => .ok lc { s2 with heap := s2.heap.set lc w }
      | .error m => Jqawk.throwRt l.token.pos m s2 := by
  unfold evalExpr
  dsimp only
  unfold evalBinary
  simp only [bind, EM.bind, h1, hop, h2]
  exact evalAssignment_plain _ _ _ _ hns

/-- an identifier that is bound evaluates to its cell without changing anything -/
theorem evalExpr_ident_bound (prog : Program) (n : Nat) (t : Token) (s : St) (c : CellId)
    (ht : (t.tag == Tag.dollar) = false) (hl : lookupFrames s.frames t.text = some c) :
    evalExpr prog (n + 1) (.ident t) s = .ok c s := by
  unfold evalExpr
  dsimp only
  unfold getIdentifier
  simp only [ht, Bool.false_eq_true, ↓reduceIte, bind, EM.bind, Jqawk.getVariable, Jqawk.getSt, hl,
    pure, EM.pure]

end Jqawk
