import Jqawk.Lemmas.JsonBytesCanon
/-!
  Every tree the decoder builds has strictly ascending keys at every level (`SortedJ`): an
  invariant of the scanner state machine.  Hence a decoded document meets the `SortedJ` hypothesis
  of the byte-level round trip.
-/
namespace Jqawk.JsonBytes
open Jqawk Jqawk.Json

theorem sortedJList_iff (l : List JVal) : SortedJList l ↔ ∀ v ∈ l, SortedJ v := by
  induction l with
  | nil => simp [SortedJList]
  | cons x xs ih => simp [SortedJList, ih]

theorem sortedJMembers_iff' (l : List (Bytes × JVal)) : SortedJMembers l ↔ ∀ kv ∈ l, SortedJ kv.2 := by
  induction l with
  | nil => simp [SortedJMembers]
  | cons x xs ih => obtain ⟨k, v⟩ := x; simp [SortedJMembers, ih]

def FrameOK : Frame → Prop
  | .arr acc => ∀ v ∈ acc, SortedJ v
  | .obj ms _ _ => SortedKeys ms ∧ ∀ kv ∈ ms, SortedJ kv.2

def StepOK : Step → Prop
  | .endTop v => SortedJ v
  | .lit _ v => SortedJ v
  | _ => True

def StOK (s : St) : Prop := (∀ fr ∈ s.stack, FrameOK fr) ∧ StepOK s.step

def OutOK : Out → Prop
  | .cont s => StOK s
  | .done v _ _ => SortedJ v
  | .err => True

theorem deliver_ok (s : St) (v : JVal) (hs : ∀ fr ∈ s.stack, FrameOK fr) (hv : SortedJ v) : StOK (deliver s v) := by
  unfold deliver
  split
  · rename_i h; exact ⟨by simp [h], hv⟩
  · rename_i acc fs h
    rw [h] at hs
    refine ⟨?_, trivial⟩
    intro fr hfr
    rcases List.mem_cons.1 hfr with rfl | hfr
    · intro w hw
      rcases List.mem_cons.1 hw with rfl | hw
      · exact hv
      · exact hs (.arr acc) (by simp) w hw
    · exact hs fr (by simp [hfr])
  · rename_i ms k fs h
    rw [h] at hs
    refine ⟨?_, trivial⟩
    intro fr hfr
    rcases List.mem_cons.1 hfr with rfl | hfr
    · exact hs (.obj ms k false) (by simp)
    · exact hs fr (by simp [hfr])
  · rename_i ms k fs h
    rw [h] at hs
    refine ⟨?_, trivial⟩
    intro fr hfr
    rcases List.mem_cons.1 hfr with rfl | hfr
    · have := hs (.obj ms k true) (by simp)
      refine ⟨insertMember_sorted k v ms this.1, ?_⟩
      intro kv hkv
      rcases mem_insertMember hkv with rfl | hkv
      · exact hv
      · exact this.2 kv hkv
    · exact hs fr (by simp [hfr])

theorem pop_ok (s : St) (fs : List Frame) (v : JVal) (hfs : ∀ fr ∈ fs, FrameOK fr) (hv : SortedJ v) :
    OutOK (pop s fs v) := by
  unfold pop
  split
  · exact hv
  · exact deliver_ok _ v hfs hv

theorem endValue_ok (s : St) (c : UInt8) (hs : ∀ fr ∈ s.stack, FrameOK fr) : OutOK (endValue s c) := by
  unfold endValue
  split
  · exact ⟨hs, trivial⟩
  · split
    · trivial
    · rename_i ms k fs h
      rw [h] at hs
      split
      · refine ⟨?_, trivial⟩
        intro fr hfr
        rcases List.mem_cons.1 hfr with rfl | hfr
        · exact hs (.obj ms k false) (by simp)
        · exact hs fr (by simp [hfr])
      · trivial
    · rename_i ms k fs h
      rw [h] at hs
      split
      · refine ⟨?_, trivial⟩
        intro fr hfr
        rcases List.mem_cons.1 hfr with rfl | hfr
        · exact hs (.obj ms k true) (by simp)
        · exact hs fr (by simp [hfr])
      · split
        · have := hs (.obj ms k true) (by simp)
          exact pop_ok s fs (.obj ms) (fun fr hfr => hs fr (by simp [hfr]))
            ⟨this.1, (sortedJMembers_iff' ms).2 this.2⟩
        · trivial
    · rename_i acc fs h
      rw [h] at hs
      split
      · exact ⟨by rw [h]; exact hs, trivial⟩
      · split
        · have := hs (.arr acc) (by simp)
          exact pop_ok s fs (.arr acc.reverse) (fun fr hfr => hs fr (by simp [hfr]))
            (by simp only [SortedJ]; rw [sortedJList_iff]; intro w hw; exact this w (by simpa using hw))
        · trivial

theorem more_ok (s : St) (c : UInt8) (next : Step) (hs : ∀ fr ∈ s.stack, FrameOK fr) (hn : StepOK next) :
    OutOK (more s c next) := ⟨hs, hn⟩

theorem afterValue_ok (s : St) (c : UInt8) (hs : StOK s) : OutOK (afterValue s c) := by
  unfold afterValue
  split
  · rename_i v h; have := hs.2; rw [h] at this; exact this
  · exact endValue_ok s c hs.1

theorem endNumber_ok (f : Bytes → Bool) (s : St) (c : UInt8) (hs : ∀ fr ∈ s.stack, FrameOK fr) :
    OutOK (endNumber f s c) := by
  unfold endNumber
  exact afterValue_ok _ c (deliver_ok _ _ hs trivial)

theorem push_ok (s : St) (fr : Frame) (next : Step) (hs : ∀ fr ∈ s.stack, FrameOK fr) (hfr : FrameOK fr)
    (hn : StepOK next) : OutOK (push s fr next) := by
  unfold push
  split
  · refine ⟨?_, hn⟩
    intro fr' h
    rcases List.mem_cons.1 h with rfl | h
    · exact hfr
    · exact hs fr' h
  · trivial

theorem beginValue_ok (s : St) (c : UInt8) (hs : ∀ fr ∈ s.stack, FrameOK fr) (hst : StepOK s.step) :
    OutOK (beginValue s c) := by
  unfold beginValue
  repeat' split
  · exact ⟨hs, hst⟩
  · exact push_ok s _ _ hs ⟨by simp [SortedKeys], by simp⟩ trivial
  · exact push_ok s _ _ hs (by simp [FrameOK]) trivial
  all_goals first | exact ⟨hs, trivial⟩ | trivial

theorem beginString_ok (s : St) (c : UInt8) (hs : ∀ fr ∈ s.stack, FrameOK fr) (hst : StepOK s.step) :
    OutOK (beginString s c) := by
  unfold beginString
  repeat' split
  · exact ⟨hs, hst⟩
  · exact ⟨hs, trivial⟩
  · trivial

theorem step_ok (f : Bytes → Bool) (s : St) (c : UInt8) (h : StOK s) : OutOK (step f s c) := by
  obtain ⟨hs, hst⟩ := h
  unfold step
  split
  · exact beginValue_ok s c hs hst
  · split
    · exact ⟨hs, hst⟩
    · split
      · exact endValue_ok s c hs
      · exact beginValue_ok s c hs hst
  · split
    · exact ⟨hs, hst⟩
    · split
      · split
        · rename_i ms k b fs h
          apply endValue_ok
          intro fr hfr
          rw [h] at hs
          rcases List.mem_cons.1 hfr with rfl | hfr
          · exact hs (.obj ms k b) (by simp)
          · exact hs fr (by simp [hfr])
        · trivial
      · exact beginString_ok s c hs hst
  · exact beginString_ok s c hs hst
  · exact endValue_ok s c hs
  · rename_i v h; rw [h] at hst; exact hst
  · repeat' split
    · exact deliver_ok _ _ hs trivial
    · exact more_ok s c _ hs trivial
    · trivial
    · exact more_ok s c _ hs trivial
  · repeat' split
    · exact more_ok s c _ hs trivial
    · exact more_ok s c _ hs trivial
    · trivial
  · split
    · refine more_ok s c _ hs ?_
      split <;> trivial
    · trivial
  · repeat' split
    all_goals first | exact more_ok s c _ hs trivial | trivial
  case h_18 rest v h =>
    rw [h] at hst
    split
    · trivial
    · split
      · exact deliver_ok _ _ hs hst
      · trivial
    · split
      · exact ⟨hs, hst⟩
      · trivial
  all_goals
    (try unfold state0)
    (try unfold stateESign)
    repeat' split
    all_goals first | exact more_ok s c _ hs trivial | exact endNumber_ok f s c hs | trivial

theorem run_ok (f : Bytes → Bool) (t : Tail) : ∀ (inp : Bytes) (s : St) (v : JVal) (rest : Bytes), StOK s →
    run f s inp t = .value v rest → SortedJ v := by
  intro inp
  induction inp with
  | nil =>
    intro s v rest hs h
    cases t with
    | more => simp [run] at h
    | ioerr => simp [run] at h
    | eof =>
      simp only [run] at h
      have hok := step_ok f s 0x20 hs
      cases hst : step f s 0x20 with
      | cont s' => simp [hst] at h
      | err => simp [hst] at h
      | done w bad consumed =>
        rw [hst] at h hok
        cases bad with
        | true => simp at h
        | false =>
          simp only [DecodeRes.value.injEq] at h
          rw [← h.1]; exact hok
  | cons c cs ih =>
    intro s v rest hs h
    simp only [run] at h
    have hok := step_ok f s c hs
    cases hst : step f s c with
    | cont s' => rw [hst] at h hok; exact ih s' v rest hok h
    | err => simp [hst] at h
    | done w bad consumed =>
      rw [hst] at h hok
      cases bad with
      | true => simp at h
      | false =>
        simp only [Bool.false_eq_true, if_false, DecodeRes.value.injEq] at h
        rw [← h.1]; exact hok

/-- every document the decoder returns has strictly ascending, hence pairwise distinct, keys at
    every level -/
theorem decodeOne_sorted (f : Bytes → Bool) (inp : Bytes) (t : Tail) (v : JVal) (rest : Bytes)
    (h : decodeOne f inp t = .value v rest) : SortedJ v := by
  unfold decodeOne at h
  split at h
  · cases h
  · cases h
  · cases h
  · exact run_ok f _ _ St.init v rest ⟨by simp [St.init], trivial⟩ h

end Jqawk.JsonBytes
