/-
  Panic freedom (C01), part 2: the program logic.  `NP P K m R` says: started in a state that
  satisfies the invariant, `m` never ends in `Err.panic`; however else it ends the invariant holds
  again, and a normal result satisfies `R`.  All postconditions are state-independent (they are
  lower bounds on ids, see `NoPanicHeap.lean`), so `bind` composes them without a frame rule.

  `K` is the condition on `ruleRoot`: `KSet P` (bound, inside the region) while rule or selector
  code runs, `KAny` in the driver between rules.
-/
import Jqawk.Lemmas.NoPanicHeap

set_option linter.unusedVariables false

namespace Jqawk

def KAny : Option CellId → Prop := fun _ => True
def KSet (P : Region) : Option CellId → Prop := fun r => ∃ c, r = some c ∧ P.N ≤ c

/-- the state invariant: heap, frames and return slot in the region; `K` holds of `ruleRoot` -/
structure InvK (P : Region) (K : Option CellId → Prop) (s : St) : Prop extends Inv0 P s where
  rr : K s.ruleRoot

/-- the condition on a result -/
def NPres (P : Region) (K : Option CellId → Prop) {α : Type} (R : α → Prop) : Res α → Prop
  | .ok a s' => InvK P K s' ∧ R a
  | .err (.runtime _ _) s' => InvK P K s'
  | .err (.sig _) s' => InvK P K s'
  | .err (.panic _) _ => False
  | .err (.unmodelled _) s' => InvK P K s'
  | .oof => True

def NPat (P : Region) (K : Option CellId → Prop) {α : Type} (m : EM α) (R : α → Prop) (s : St) : Prop :=
  NPres P K R (m s)

def NP (P : Region) (K : Option CellId → Prop) {α : Type} (m : EM α) (R : α → Prop) : Prop :=
  ∀ s, InvK P K s → NPat P K m R s

variable {P : Region} {K : Option CellId → Prop}

/-- the canonical postconditions -/
def InR (P : Region) (c : CellId) : Prop := P.N ≤ c
def InA (P : Region) (a : ArrId) : Prop := P.A ≤ a
def InO (P : Region) (o : ObjId) : Prop := P.O ≤ o
def Tr {α : Type} (_ : α) : Prop := True
def ExReg (P : Region) : Except String CellId → Prop
  | .ok c => P.N ≤ c
  | .error _ => True
def OptRegM (P : Region) : Option (List (Bytes × CellId)) → Prop
  | some m => RegM P m
  | none => True
def NatResOK (P : Region) : Except String (Option Val) → Prop
  | .ok (some v) => GoodV P v
  | _ => True

theorem NPres.conseq {α : Type} {R R' : α → Prop} {r : Res α} (h : NPres P K R r)
    (hr : ∀ a, R a → R' a) : NPres P K R' r := by
  cases r with
  | ok a s' => exact ⟨h.1, hr a h.2⟩
  | err e s' => cases e <;> exact h
  | oof => trivial

/-- an error result keeps its meaning at another result type -/
theorem NPres.err_cast {α β : Type} {R : α → Prop} {R' : β → Prop} {e : Err} {s' : St}
    (h : NPres P K R (.err e s' : Res α)) : NPres P K R' (.err e s' : Res β) := by
  cases e <;> exact h

namespace NP

theorem conseq {α : Type} {m : EM α} {R R' : α → Prop} (hm : NP P K m R) (hr : ∀ a, R a → R' a) :
    NP P K m R' := fun s hs => (hm s hs).conseq hr

theorem pure {α : Type} {R : α → Prop} {a : α} (h : R a) : NP P K (Pure.pure a : EM α) R :=
  fun s hs => ⟨hs, h⟩

theorem bindAt {α β : Type} {m : EM α} {f : α → EM β} {R1 : α → Prop} {R : β → Prop} {s : St}
    (hm : NPat P K m R1 s) (hf : ∀ a, R1 a → NP P K (f a) R) : NPat P K (m >>= f) R s := by
  show NPres P K R (EM.bind m f s)
  unfold EM.bind
  unfold NPat at hm
  cases hr : m s with
  | ok a s1 => rw [hr] at hm; exact hf a hm.2 s1 hm.1
  | err e s1 => rw [hr] at hm; exact hm.err_cast
  | oof => trivial

theorem bind {α β : Type} {m : EM α} {f : α → EM β} {R1 : α → Prop} {R : β → Prop}
    (hm : NP P K m R1) (hf : ∀ a, R1 a → NP P K (f a) R) : NP P K (m >>= f) R :=
  fun s hs => bindAt (hm s hs) hf

theorem oof {α : Type} {R : α → Prop} : NP P K (Jqawk.oof : EM α) R := fun _ _ => trivial

theorem getSt : NP P K Jqawk.getSt (InvK P K) := fun s hs => ⟨hs, hs⟩
theorem getHeap : NP P K Jqawk.getHeap (HeapOK P) := fun s hs => ⟨hs, hs.heap⟩
theorem readCell {c : CellId} (hc : P.N ≤ c) : NP P K (Jqawk.readCell c) (GoodV P) :=
  fun s hs => ⟨hs, hs.heap.cells c hc⟩
theorem readCellAny (c : CellId) : NP P K (Jqawk.readCell c) Tr := fun s hs => ⟨hs, trivial⟩
theorem throwSig {α : Type} {R : α → Prop} (g : Sig) : NP P K (Jqawk.throwSig g : EM α) R :=
  fun s hs => hs
theorem throwUnmodelled {α : Type} {R : α → Prop} (w : String) :
    NP P K (Jqawk.throwUnmodelled w : EM α) R := fun s hs => hs
theorem throwRt {α : Type} {R : α → Prop} (p : Nat) (m : String) :
    NP P K (Jqawk.throwRt p m : EM α) R :=
  fun s hs => ⟨⟨hs.heap, hs.frames, hs.ret⟩, hs.rr⟩

theorem newCell {v : Val} (hv : GoodV P v) : NP P K (Jqawk.newCell v) (InR P) := by
  intro s hs
  have h := hs.heap.alloc hv
  exact ⟨⟨⟨h.1, hs.frames, hs.ret⟩, hs.rr⟩, h.2⟩

theorem writeCell (c : CellId) {v : Val} (hv : GoodV P v) : NP P K (Jqawk.writeCell c v) Tr :=
  fun s hs => ⟨⟨⟨hs.heap.set c hv, hs.frames, hs.ret⟩, hs.rr⟩, trivial⟩

theorem setHeap {h : Heap} (ok : HeapOK P h) : NP P K (Jqawk.setHeap h) Tr :=
  fun s hs => ⟨⟨⟨ok, hs.frames, hs.ret⟩, hs.rr⟩, trivial⟩

theorem allocArrM {items : Array CellId} (hi : RegL P items.toList) :
    NP P K (Jqawk.allocArrM items) (InA P) := by
  intro s hs
  have h := hs.heap.allocArr hi
  exact ⟨⟨⟨h.1, hs.frames, hs.ret⟩, hs.rr⟩, h.2⟩

theorem allocObjM {m : List (Bytes × CellId)} (hm : RegM P m) :
    NP P K (Jqawk.allocObjM m) (InO P) := by
  intro s hs
  have h := hs.heap.allocObj hm
  exact ⟨⟨⟨h.1, hs.frames, hs.ret⟩, hs.rr⟩, h.2⟩

theorem emit (b : Bytes) : NP P K (Jqawk.emit b) Tr :=
  fun s hs => ⟨⟨⟨hs.heap, hs.frames, hs.ret⟩, hs.rr⟩, trivial⟩

theorem setReturnVal {c : Option CellId} (hc : OptReg P c) :
    NP P K (Jqawk.modifySt fun s => { s with returnVal := c }) Tr :=
  fun s hs => ⟨⟨⟨hs.heap, hs.frames, hc⟩, hs.rr⟩, trivial⟩

/-- `setLocal` never panics: the frame stack is never empty -/
theorem setLocal (name : Bytes) {c : CellId} (hc : P.N ≤ c) : NP P K (Jqawk.setLocal name c) Tr := by
  intro s hs
  unfold NPat Jqawk.setLocal
  have hf := hs.frames
  cases hfr : s.frames with
  | nil => exact absurd hfr hf.1
  | cons f fs =>
    rw [hfr] at hf
    refine ⟨⟨⟨hs.heap, ⟨by simp, ?_⟩, hs.ret⟩, hs.rr⟩, trivial⟩
    intro g hg
    rcases List.mem_cons.mp hg with hg | hg
    · subst hg
      exact (hf.2 f (List.mem_cons_self ..)).objInsert _ hc
    · exact hf.2 g (List.mem_cons_of_mem _ hg)

theorem getVariable (name : Bytes) : NP P K (Jqawk.getVariable name) (ExReg P) := by
  unfold Jqawk.getVariable
  refine bind getSt (fun s hs => ?_)
  split
  · rename_i c hc
    exact pure (lookupFrames_reg hs.frames.2 hc)
  · split
    · exact pure trivial
    · exact bind (newCell trivial) (fun c hc => bind (setLocal _ hc) (fun _ _ => pure hc))

theorem copyValue {a : CellId} (ha : P.N ≤ a) {b : CellId} (hb : P.N ≤ b) :
    NP P K (Jqawk.copyValue a b) (ExReg P) := by
  unfold Jqawk.copyValue
  refine bind (readCell ha) (fun v hv => ?_)
  split
  · rename_i w hw
    exact bind (writeCell _ (copyVal_good hw hv)) (fun _ _ => pure hb)
  · exact pure trivial

theorem bindAll {l : List (Bytes × CellId)} (hl : RegM P l) : NP P K (Jqawk.bindAll l) Tr := by
  induction l with
  | nil => exact pure trivial
  | cons kv rest ih =>
    obtain ⟨k, c⟩ := kv
    exact bind (setLocal k (hl (k, c) (List.mem_cons_self ..)))
      (fun _ _ => ih (fun x hx => hl x (List.mem_cons_of_mem _ hx)))

theorem bindParams (ps : List Bytes) {as : List Val} (has : GoodVs P as) :
    NP P K (Jqawk.bindParams ps as) Tr := by
  induction ps generalizing as with
  | nil => exact pure trivial
  | cons p ps ih =>
    cases as with
    | nil =>
      exact bind (newCell trivial) (fun c hc => bind (setLocal _ hc) (fun _ _ => ih has))
    | cons a as =>
      exact bind (newCell (has a (List.mem_cons_self ..))) (fun c hc => bind (setLocal _ hc)
        (fun _ _ => ih (fun x hx => has x (List.mem_cons_of_mem _ hx))))

theorem allocCells {vs : List Val} (hvs : GoodVs P vs) : NP P K (Jqawk.allocCells vs) (RegL P) := by
  induction vs with
  | nil => exact pure (by intro c hc; cases hc)
  | cons v vs ih =>
    refine bind (newCell (hvs v (List.mem_cons_self ..))) (fun c hc =>
      bind (ih (fun x hx => hvs x (List.mem_cons_of_mem _ hx))) (fun cs hcs => pure ?_))
    intro d hd
    rcases List.mem_cons.mp hd with hd | hd
    · subst hd; exact hc
    · exact hcs d hd

theorem newArrayOf {vs : List Val} (hvs : GoodVs P vs) : NP P K (Jqawk.newArrayOf vs) (GoodV P) := by
  unfold Jqawk.newArrayOf
  refine bind (allocCells hvs) (fun cells hcells => bind getHeap (fun h hh => ?_))
  have ha := hh.allocArr (items := cells.toArray) (by simpa using hcells)
  exact bind (setHeap ha.1) (fun _ _ => pure ha.2)

/-! ### control combinators (any `K`) -/

theorem loopIter {body k : EM Unit} {R : Unit → Prop} (hb : NP P K body Tr) (hk : NP P K k R)
    (hR : R ()) : NP P K (Jqawk.loopIter body k) R := by
  intro s hs
  unfold NPat Jqawk.loopIter
  have h := hb s hs
  unfold NPat at h
  cases hr : body s with
  | ok a s1 => rw [hr] at h; exact hk s1 h.1
  | err e s1 =>
    rw [hr] at h
    cases e with
    | sig g =>
      cases g with
      | brk => exact ⟨h, hR⟩
      | cont => exact hk s1 h
      | ret => exact h
      | next => exact h
      | exit => exact h
    | runtime p m => exact h
    | panic m => exact h
    | unmodelled m => exact h
  | oof => trivial

theorem catchReturn {body : EM Unit} (hb : NP P K body Tr) :
    NP P K (Jqawk.catchReturn body) (GoodV P) := by
  intro s hs
  unfold NPat Jqawk.catchReturn
  have h := hb s hs
  unfold NPat at h
  cases hr : body s with
  | ok a s1 => rw [hr] at h; exact ⟨h.1, trivial⟩
  | err e s1 =>
    rw [hr] at h
    cases e with
    | sig g =>
      cases g with
      | ret =>
        refine ⟨h, ?_⟩
        have hret := h.ret
        cases hrv : s1.returnVal with
        | none => trivial
        | some c => rw [hrv] at hret; exact h.heap.cells c hret
      | brk => exact h
      | cont => exact h
      | next => exact h
      | exit => exact h
    | runtime p m => exact h
    | panic m => exact h
    | unmodelled m => exact h
  | oof => trivial

theorem catchSig {α : Type} {m : EM α} {R : α → Prop} (g : Sig) {d : α} (hd : R d)
    (hm : NP P K m R) : NP P K (Jqawk.catchSig g d m) R := by
  intro s hs
  unfold NPat Jqawk.catchSig
  have h := hm s hs
  unfold NPat at h
  cases hr : m s with
  | ok a s1 => rw [hr] at h; exact h
  | err e s1 =>
    rw [hr] at h
    cases e with
    | sig g' =>
      dsimp only
      split
      · exact ⟨h, hd⟩
      · exact h
    | runtime p m => exact h
    | panic m => exact h
    | unmodelled m => exact h
  | oof => trivial

/-- a frame pushed for a call or a match body, the body run in it, the saved stack restored -/
theorem framed {α : Type} {R : α → Prop} (name : Bytes) (pos : Nat) (body : EM α)
    (hb : NP P K body R) :
    NP P K (do
      let saved := (← Jqawk.getSt).frames
      match (← Jqawk.pushFrame name) with
      | .error m => Jqawk.throwRt pos m
      | .ok () => Jqawk.withFrames saved body) R := by
  intro s hs
  unfold NPat
  by_cases hd : s.frames.length > callDepthLimit
  · simp only [Bind.bind, EM.bind, Jqawk.getSt, Jqawk.pushFrame, hd, ↓reduceIte]
    exact throwRt pos _ s hs
  · simp only [Bind.bind, EM.bind, Jqawk.getSt, Jqawk.pushFrame, hd, ↓reduceIte, Jqawk.withFrames]
    have hs1 : InvK P K { s with frames := ⟨name, []⟩ :: s.frames,
                                 maxDepth := max s.maxDepth (s.frames.length + 1) } := by
      refine ⟨⟨hs.heap, ⟨by simp, ?_⟩, hs.ret⟩, hs.rr⟩
      intro g hg
      rcases List.mem_cons.mp hg with hg | hg
      · subst hg; exact RegM.nil
      · exact hs.frames.2 g hg
    have h := hb _ hs1
    unfold NPat at h
    have fix : ∀ s1 : St, InvK P K s1 → InvK P K { s1 with frames := s.frames } :=
      fun s1 h1 => ⟨⟨h1.heap, hs.frames, h1.ret⟩, h1.rr⟩
    cases hr : body { s with frames := ⟨name, []⟩ :: s.frames,
                             maxDepth := max s.maxDepth (s.frames.length + 1) } with
    | ok a s1 => rw [hr] at h; exact ⟨fix s1 h.1, h.2⟩
    | err e s1 =>
      rw [hr] at h
      cases e with
      | runtime p m => exact fix s1 h
      | sig g => exact fix s1 h
      | panic m => exact h
      | unmodelled m => exact fix s1 h
    | oof => trivial

end NP

end Jqawk
